(** * ExprEmitProofs: the printed expression of EVERY tree of the grammar evaluates (Vhdl.Sem / Vhdl.NumStd) to the
    documented value (ExprRef.xeval) - composition of the per-operator agreement lemmas by induction on the tree. *)
From Coq Require Import ZArith NArith PArith List Bool Lia.
From Cohdl Require Import Base.Bits Vhdl.Value Vhdl.NumStd Vhdl.Syntax Vhdl.Sem Equiv.RefTS
  Models.ExprRef Models.ExprRefProofs Models.ExprEmit.
Import ListNotations.
Local Open Scope Z_scope.

(** signal [pos k] holds the value of input [k] *)
Definition store_matches (pos : nat -> positive) (en : env) (sg : store) : Prop :=
  forall k, nth k en TUndef <> TUndef -> lookup sg (pos k) = Ok (to_value (nth k en TUndef)).

(** ** small facts *)
Lemma rng_bits k w z : rng k w z -> is_vec k = true -> 0 <= pat k w z < pow2 w.
Proof.
  intros H V. destruct k; try discriminate V; cbn [pat].
  - apply rng_U. destruct H; split; assumption.
  - apply rng_U; exact H.
  - apply wrap_range.
Qed.

Lemma mk_pat_id k w z : rng k w z -> mk k w (pat k w z) = TV k w z.
Proof.
  intros [W R]. unfold mk. f_equal. destruct k; cbn [pat]; try (apply norm_id; assumption).
  cbn [norm]. rewrite wrap_wrap. apply sval_in. split; assumption.
Qed.

(** the VHDL value of a vector-kinded documented value: kind tag, width, bit pattern *)
Definition vk_of (k : kind) : vkind := match k with KU => KUns | KS => KSgn | _ => KSlv end.

Lemma sv_vec k w z : is_vec k = true -> rng k w z -> scalar_value k w z = VV (vk_of k) w (pat k w z).
Proof.
  intros V H. destruct k; try discriminate V; reflexivity.
Qed.

Lemma to_value_mk_vec k w p : is_vec k = true -> (0 < w)%N -> 0 <= p < pow2 w -> to_value (mk k w p) = VV (vk_of k) w p.
Proof.
  intros V W P. destruct k; try discriminate V; unfold mk, norm, to_value, scalar_value, vk_of.
  - rewrite wrap_small by assumption. reflexivity.
  - rewrite wrap_small by assumption. reflexivity.
  - rewrite (wrap_small w p) by assumption. rewrite wrap_sval by assumption. reflexivity.
Qed.

Lemma mk_vec_rng k w p : is_vec k = true -> (0 < w)%N -> rng k w (norm k w p).
Proof.
  intros V W. split; [destruct k; try discriminate V; cbn; apply N.ltb_lt; exact W|].
  apply norm_ok. destruct k; try discriminate V; cbn; apply N.ltb_lt; exact W.
Qed.

Lemma eval_cv sg vr ev k x kk w p : is_vec k = true ->
  eval sg vr ev x = Ok (VV kk w p) -> eval sg vr ev (cv k x) = Ok (VV (vk_of k) w p).
Proof. intros V H. destruct k; try discriminate V; cbn; rewrite H; reflexivity. Qed.

Lemma eval_vcast sg vr ev rk vk x w p : is_vec rk = true -> is_vec vk = true ->
  eval sg vr ev x = Ok (VV (vk_of rk) w p) -> eval sg vr ev (vcast rk vk x) = Ok (VV (vk_of vk) w p).
Proof.
  intros A B H. destruct rk; try discriminate A; destruct vk; try discriminate B; cbn; rewrite ?H; reflexivity.
Qed.

Lemma eval_vcast_ref sg vr ev rk vk x w p : is_vec rk = true -> is_vec vk = true -> Z.of_N w <= int_max ->
  0 <= p < pow2 w ->
  eval sg vr ev x = Ok (VV (vk_of rk) w p) -> eval sg vr ev (vcast_ref rk vk w x) = Ok (VV (vk_of vk) w p).
Proof.
  intros A B Hw Hp H. destruct rk; try discriminate A; destruct vk; try discriminate B;
    try (apply eval_vcast; auto; fail).
  cbn. rewrite H. cbn. rewrite nat_ok_of by lia. cbn. rewrite N2Z.id, wrap_small by assumption. reflexivity.
Qed.

(** ** what an operand descriptor denotes *)
Section Den.
Variables (sg vr : store) (ev : PS.t).

Definition sel_val (rk : kind) (rw : N) (zr : Z) (s : rsel) (vk : kind) : tval :=
  match s with
  | RNone => if is_vec rk then mk vk rw (pat rk rw zr) else TV rk rw zr
  | RSlice hi lo => mk vk (hi - lo + 1) (getslice (pat rk rw zr) lo (hi - lo + 1))
  | RIdx i => TV KBit 1 (zb (bitof (pat rk rw zr) i))
  end.

Definition sel_wf (rk : kind) (rw : N) (s : rsel) (vk : kind) (vw : N) : Prop :=
  match s with
  | RNone => vw = rw /\ (if is_vec rk then is_vec vk = true else vk = rk)
  | RSlice hi lo => is_vec rk = true /\ is_vec vk = true /\ (lo <= hi)%N /\ (hi < rw)%N /\ vw = (hi - lo + 1)%N /\
                    Z.of_N hi < int_max
  | RIdx i => is_vec rk = true /\ (i < rw)%N /\ vk = KBit /\ vw = 1%N
  end.

Definition den (o : opnd) (v : tval) : Prop :=
  match o with
  | OInt z => v = TV KInt 0 z
  | OCst k w z => v = TV k w z /\ rng k w z /\ k <> KInt
  | ORef root rk rw s vk vw =>
      exists zr, eval sg vr ev root = Ok (scalar_value rk rw zr) /\ rng rk rw zr /\ rk <> KInt /\
                 sel_wf rk rw s vk vw /\ v = sel_val rk rw zr s vk
  end.

(** the denoted value is a proper value of the operand's front-end type *)
Lemma den_typed o v : den o v -> exists k w z, v = TV k w z /\ oty o = Ty k w /\ rng k w z.
Proof.
  destruct o as [z|k w z|root rk rw s vk vw]; cbn [den oty].
  - intros ->. exists KInt, 0%N, z. repeat split.
  - intros (-> & R & _). exists k, w, z. auto.
  - intros (zr & E & R & NI & WF & ->). destruct s as [|hi lo|i]; cbn [sel_wf sel_val] in *.
    + destruct WF as [-> WF]. destruct (is_vec rk) eqn:V.
      * exists vk, rw, (norm vk rw (pat rk rw zr)). split; [reflexivity|]. split; [reflexivity|].
        apply mk_vec_rng; [exact WF|]. destruct R as [W _]. eapply wf_pos; eauto.
      * subst vk. exists rk, rw, zr. auto.
    + destruct WF as (V1 & V2 & L & H & -> & _).
      exists vk, (hi - lo + 1)%N, (norm vk (hi - lo + 1) (getslice (pat rk rw zr) lo (hi - lo + 1))).
      split; [reflexivity|]. split; [reflexivity|]. apply mk_vec_rng; [exact V2|lia].
    + destruct WF as (V1 & L & -> & ->). exists KBit, 1%N, (zb (bitof (pat rk rw zr) i)).
      split; [reflexivity|]. split; [reflexivity|]. split; [reflexivity|apply zb_range_bit].
Qed.

(** format_value prints an expression that evaluates to the denoted value *)
Lemma fmt_ok o v : den o v -> eval sg vr ev (fmt o) = Ok (to_value v).
Proof.
  destruct o as [z|k w z|root rk rw s vk vw]; cbn [den fmt].
  - intros ->. reflexivity.
  - intros (-> & _ & _). reflexivity.
  - intros (zr & E & R & NI & WF & ->). destruct s as [|hi lo|i]; cbn [sel_wf sel_val] in *.
    + destruct WF as [-> WF]. destruct (is_vec rk) eqn:V.
      * pose proof (rng_bits _ _ _ R V) as P. destruct R as [W Rz].
        rewrite to_value_mk_vec; [|exact WF|eapply wf_pos; eauto|exact P].
        apply eval_vcast; auto. rewrite E. f_equal. apply sv_vec; [exact V|split; assumption].
      * subst vk. exact E.
    + destruct WF as (V1 & V2 & L & H & -> & HI).
      pose proof (getslice_range (pat rk rw zr) lo (hi - lo + 1)) as P.
      rewrite to_value_mk_vec; [|exact V2|lia|exact P].
      apply eval_vcast_ref; auto; [lia|].
      apply eval_cv with (kk := vk_of rk); [exact V1|].
      cbn [eval]. rewrite E. rewrite (sv_vec _ _ _ V1 R). cbn [bind slice_val].
      assert (C : ((lo <=? hi)%N && (hi <? rw)%N) = true).
      { apply andb_true_iff; split; [apply N.leb_le|apply N.ltb_lt]; assumption. }
      rewrite C. reflexivity.
    + destruct WF as (V1 & L & -> & ->). cbn [eval]. rewrite E. rewrite (sv_vec _ _ _ V1 R). cbn [bind index_val].
      assert (C : ((0 <=? Z.of_N i) && (Z.of_N i <? Z.of_N rw)) = true).
      { apply andb_true_iff; split; [apply Z.leb_le|apply Z.ltb_lt]; lia. }
      rewrite C, N2Z.id. cbn. destruct (bitof (pat rk rw zr) i); reflexivity.
Qed.

(** a fresh temporary whose defining expression evaluates to a proper value *)
Lemma den_tmp x k w z : eval sg vr ev x = Ok (scalar_value k w z) -> rng k w z -> k <> KInt -> den (tmp x k w) (TV k w z).
Proof.
  intros E R NI. exists z. repeat split; try assumption; try (destruct R; assumption).
  - destruct (is_vec k); reflexivity.
  - cbn [sel_val]. destruct (is_vec k); [symmetry; apply mk_pat_id; exact R|reflexivity].
Qed.
End Den.

(** ** bit-level facts for folded slices *)
Lemma pat_norm k w p : is_vec k = true -> (0 < w)%N -> 0 <= p < pow2 w -> pat k w (norm k w p) = p.
Proof.
  intros V W P. destruct k; try discriminate V; cbn [pat norm]; try (apply wrap_small; exact P).
  rewrite wrap_sval_wrap. apply wrap_small; exact P.
Qed.

Lemma mod_div_pow2 x lo m : (x mod pow2 (lo + m)) / pow2 lo = (x / pow2 lo) mod pow2 m.
Proof.
  pose proof (pow2_pos lo). pose proof (pow2_pos m). rewrite pow2_add.
  rewrite Z.rem_mul_r by lia. rewrite (Z.mul_comm (pow2 lo)), Z.add_comm, Z.div_add_l by lia.
  rewrite (Z.div_small (x mod pow2 lo)) by (apply Z.mod_pos_bound; lia). lia.
Qed.

Lemma getslice_getslice p l n lo len : (lo + len <= n)%N ->
  getslice (getslice p l n) lo len = getslice p (l + lo) len.
Proof.
  intros H. unfold getslice. replace n with (lo + (n - lo))%N at 1 by lia.
  rewrite mod_div_pow2. fold (wrap (n - lo) (p / pow2 l / pow2 lo)). fold (wrap len (wrap (n - lo) (p / pow2 l / pow2 lo))).
  rewrite wrap_narrow by lia. unfold wrap. rewrite Z.div_div by (pose proof (pow2_pos l); pose proof (pow2_pos lo); lia).
  rewrite <- pow2_add. reflexivity.
Qed.

Lemma bitof_getslice p l n i : (i < n)%N -> bitof (getslice p l n) i = bitof p (l + i).
Proof.
  intros H. unfold bitof, getslice, pow2.
  rewrite Z.mod_pow2_bits_low by lia. rewrite Z.div_pow2_bits by lia. f_equal. lia.
Qed.

Section Ops.
Variables (sg vr : store) (ev : PS.t).
Notation den := (den sg vr ev).

(** the value an in-range reference denotes, seen through its bit pattern *)
Lemma sel_pat rk rw zr s vk vw k w z : rng rk rw zr -> sel_wf rk rw s vk vw -> is_vec vk = true ->
  sel_val rk rw zr s vk = TV k w z ->
  k = vk /\ w = vw /\ is_vec rk = true /\
  match s with
  | RNone => pat k w z = pat rk rw zr
  | RSlice hi lo => pat k w z = getslice (pat rk rw zr) lo (hi - lo + 1)
  | RIdx _ => False
  end.
Proof.
  intros R WF V E. destruct s as [|hi lo|i]; cbn [sel_wf sel_val] in *.
  - destruct WF as [-> WF]. destruct (is_vec rk) eqn:Vr.
    + unfold mk in E. inversion E; subst. repeat split; auto.
      apply pat_norm; [exact V| |apply rng_bits; assumption]. destruct R as [W _]. eapply wf_pos; eauto.
    + subst vk. congruence.
  - destruct WF as (V1 & V2 & L & H & -> & _). unfold mk in E. inversion E; subst. repeat split; auto.
    apply pat_norm; [exact V|lia|apply getslice_range].
  - destruct WF as (_ & _ & -> & _). discriminate V.
Qed.

Lemma den_view v o o' val : den o val -> o_view v o = Some o' ->
  exists k w z, val = TV k w z /\ is_vec k = true /\ den o' (mk (view_kind v) w (pat k w z)).
Proof.
  destruct o as [z|k w z|root rk rw s vk vw]; cbn [o_view]; try discriminate.
  intros D. destruct (is_vec vk) eqn:V; [|discriminate]. intros [= <-].
  destruct (den_typed _ _ _ _ _ D) as (k & w & z & -> & T & Rv). cbn [oty] in T. inversion T; subst k w.
  destruct D as (zr & E & R & NI & WF & Ev). symmetry in Ev.
  destruct (sel_pat _ _ _ _ _ _ _ _ _ R WF V Ev) as (_ & _ & Vr & P).
  exists vk, vw, z. split; [reflexivity|]. split; [exact V|].
  exists zr. split; [exact E|]. split; [exact R|]. split; [exact NI|].
  assert (Vv : is_vec (view_kind v) = true) by (destruct v; reflexivity).
  destruct s as [|hi lo|i]; cbn [sel_wf sel_val] in *.
  - destruct WF as [-> _]. rewrite Vr. split; [split; [reflexivity|exact Vv]|]. rewrite P. reflexivity.
  - destruct WF as (V1 & V2 & L & H & -> & HI). split; [repeat split; auto|]. rewrite P. reflexivity.
  - contradiction.
Qed.

Lemma den_slice hi lo o o' val : den o val -> o_slice hi lo o = Some o' -> Z.of_N hi < int_max ->
  exists k w z, val = TV k w z /\ (is_vec k && (lo <=? hi)%N && (hi <? w)%N) = true /\
                den o' (mk KBV (hi - lo + 1) (getslice (pat k w z) lo (hi - lo + 1))).
Proof.
  destruct o as [z|k w z|root rk rw s vk vw]; cbn [o_slice]; try discriminate.
  intros D. destruct (is_vec vk && (lo <=? hi)%N && (hi <? vw)%N) eqn:C; [|discriminate].
  intros Ho HI.
  destruct (den_typed _ _ _ _ _ D) as (k & w & z & -> & T & Rv). cbn [oty] in T. inversion T; subst k w.
  exists vk, vw, z. split; [reflexivity|]. split; [exact C|].
  apply andb_true_iff in C. destruct C as [C C3]. apply andb_true_iff in C. destruct C as [V C2].
  apply N.leb_le in C2. apply N.ltb_lt in C3.
  destruct D as (zr & E & R & NI & WF & Ev). symmetry in Ev.
  destruct (sel_pat _ _ _ _ _ _ _ _ _ R WF V Ev) as (_ & _ & Vr & P).
  destruct s as [|h l|i]; cbn [sel_wf sel_val] in *; [| |discriminate Ho].
  - inversion Ho; subst o'. destruct WF as [-> _].
    exists zr. split; [exact E|]. split; [exact R|]. split; [exact NI|]. split; [repeat split; auto; lia|].
    cbn [sel_val]. rewrite P. reflexivity.
  - inversion Ho; subst o'. destruct WF as (V1 & V2 & L & H & -> & HI').
    exists zr. split; [exact E|]. split; [exact R|]. split; [exact NI|]. split; [repeat split; auto; lia|].
    cbn [sel_val]. rewrite P. rewrite getslice_getslice by lia.
    replace (l + hi - (l + lo) + 1)%N with (hi - lo + 1)%N by lia. reflexivity.
Qed.

Lemma den_idx i o o' val : den o val -> o_idx i o = Some o' ->
  exists k w z, val = TV k w z /\ (is_vec k && (i <? w)%N) = true /\ den o' (TV KBit 1 (zb (bitof (pat k w z) i))).
Proof.
  destruct o as [z|k w z|root rk rw s vk vw]; cbn [o_idx]; try discriminate.
  intros D. destruct (is_vec vk && (i <? vw)%N) eqn:C; [|discriminate]. intros Ho.
  destruct (den_typed _ _ _ _ _ D) as (k & w & z & -> & T & Rv). cbn [oty] in T. inversion T; subst k w.
  exists vk, vw, z. split; [reflexivity|]. split; [exact C|].
  apply andb_true_iff in C. destruct C as [V C3]. apply N.ltb_lt in C3.
  destruct D as (zr & E & R & NI & WF & Ev). symmetry in Ev.
  destruct (sel_pat _ _ _ _ _ _ _ _ _ R WF V Ev) as (_ & _ & Vr & P).
  destruct s as [|h l|j]; cbn [sel_wf sel_val] in *; [| |discriminate Ho].
  - inversion Ho; subst o'. destruct WF as [-> _].
    exists zr. split; [exact E|]. split; [exact R|]. split; [exact NI|]. split; [repeat split; auto|].
    cbn [sel_val]. rewrite P. reflexivity.
  - inversion Ho; subst o'. destruct WF as (V1 & V2 & L & H & -> & HI').
    exists zr. split; [exact E|]. split; [exact R|]. split; [exact NI|]. split; [repeat split; auto; lia|].
    cbn [sel_val]. rewrite P. rewrite bitof_getslice by lia. reflexivity.
Qed.
End Ops.

(** ** unary operators *)
Lemma not_wrap w z : ones w - wrap w z = wrap w (- z - 1).
Proof.
  unfold ones, wrap. pose proof (pow2_pos w) as P. set (m := pow2 w) in *.
  symmetry. symmetry. apply Z.mod_unique with (q := - (z / m) - 1).
  - pose proof (Z.mod_pos_bound z m P). lia.
  - pose proof (Z.div_mod z m ltac:(lia)). lia.
Qed.

Lemma bit01 k z : (k = KBit \/ k = KBool) -> in_range k 1 z = true -> z = 0 \/ z = 1.
Proof.
  intros [-> | ->]; cbn; intros H; apply andb_true_iff in H; destruct H as [A B];
    apply Z.leb_le in A; apply Z.leb_le in B; lia.
Qed.

Lemma rng_w1 k w z : (k = KBit \/ k = KBool) -> rng k w z -> w = 1%N /\ (z = 0 \/ z = 1).
Proof.
  intros Hk [W R]. assert (w = 1%N) by (destruct Hk as [-> | ->]; cbn in W; apply N.eqb_eq in W; exact W).
  subst w. split; [reflexivity|]. eapply bit01; eauto.
Qed.

Section Un.
Variables (sg vr : store) (ev : PS.t).
Notation den := (den sg vr ev).

(** Boolean(arg) *)
Lemma to_bool_ok o b k w z : den o (TV k w z) -> to_bool o = Some b -> eval sg vr ev b = Ok (VB (truthy z)).
Proof.
  intros D Hb. destruct (den_typed _ _ _ _ _ D) as (k' & w' & z' & E & T & R). inversion E; subst k' w' z'.
  pose proof (fmt_ok _ _ _ _ _ D) as F. cbn [to_value] in F.
  unfold to_bool in Hb. rewrite T in Hb.
  destruct k; try discriminate Hb; inversion Hb; subst b; cbn [eval]; rewrite F; cbn [bind scalar_value].
  - (* Bit *) cbn. destruct (truthy z); reflexivity.
  - (* Bool *) reflexivity.
  - (* BV *) cbn. rewrite N.eqb_refl. cbn. unfold truthy. reflexivity.
  - (* U *) cbn. unfold truthy. reflexivity.
  - (* S *) cbn. rewrite (sval_in _ _ R). unfold truthy. reflexivity.
  - (* Int *) cbn. unfold truthy. reflexivity.
Qed.

Lemma den_un op o o' va : den o va -> o_un op o = Some o' -> den o' (un_eval op va).
Proof.
  intros D Ho. destruct (den_typed _ _ _ _ _ D) as (k & w & z & -> & T & R).
  pose proof (fmt_ok _ _ _ _ _ D) as F. cbn [to_value] in F.
  unfold o_un in Ho. destruct (is_ref o); cbn [negb] in Ho; [|discriminate]. rewrite T in Ho.
  unfold un_eval. destruct (un_ty op (Ty k w)) as [[k' w'|]|] eqn:U; try discriminate.
  destruct op.
  - (* NInv *)
    assert (K : k' = k /\ w' = w) by (destruct k; cbn in U; try discriminate U; inversion U; auto).
    destruct K as [-> ->]. inversion Ho; subst o'.
    assert (NI : k <> KInt) by (destruct k; cbn in U; congruence).
    apply den_tmp; [|split; [apply R|apply norm_ok; apply R]|exact NI].
    cbn [eval]. rewrite F. cbn [bind].
    destruct k; cbn in U; try discriminate U; cbn [scalar_value norm un_val].
    + destruct (rng_w1 KBit w z (or_introl eq_refl) R) as [_ [-> | ->]]; reflexivity.
    + cbn. f_equal. f_equal. rewrite <- (wrap_small w z) at 1 by (apply (rng_bits KBV); [exact R|reflexivity]). apply not_wrap.
    + cbn. f_equal. f_equal. rewrite <- (wrap_small w z) at 1 by (apply rng_U; exact R). apply not_wrap.
    + cbn. f_equal. f_equal. rewrite wrap_sval_wrap. apply not_wrap.
  - (* NNeg *)
    destruct k; cbn in U; try discriminate U; inversion U; subst k' w'; cbn in Ho; try discriminate Ho;
      inversion Ho; subst o'.
    + apply den_tmp; [|split; [apply R|apply norm_ok; apply R]|discriminate].
      cbn [eval]. rewrite F. cbn. reflexivity.
    + apply den_tmp; [|split; [apply R|apply norm_ok; apply R]|discriminate].
      cbn [eval]. rewrite F. cbn [bind]. exact (proj1 (neg_abs_agrees_S w z R)).
  - (* NAbs *)
    destruct k; cbn in U; try discriminate U; inversion U; subst k' w'. inversion Ho; subst o'.
    apply den_tmp; [|split; [apply R|apply norm_ok; apply R]|discriminate].
    cbn [eval]. rewrite F. cbn [bind]. exact (proj2 (neg_abs_agrees_S w z R)).
  - (* NNot *)
    assert (K : k' = KBool /\ w' = 1%N) by (cbn in U; destruct (can_bool k); inversion U; auto).
    destruct K as [-> ->].
    destruct (to_bool o) as [b|] eqn:B; [|discriminate]. inversion Ho; subst o'.
    pose proof (to_bool_ok _ _ _ _ _ D B) as Eb.
    apply den_tmp; [|split; [reflexivity|apply norm_ok; reflexivity]|discriminate].
    cbn [eval]. rewrite Eb. cbn. destruct (truthy z); reflexivity.
Qed.
End Un.

(** ** comparisons *)
Lemma cmp_flip op x y : cmp_val (flip op) y x = cmp_val op x y.
Proof. destruct op; cbn; try reflexivity; rewrite Z.eqb_sym; reflexivity. Qed.

Lemma cmp_ok_flip op ta tb : cmp_ok op ta tb = true -> cmp_ok (flip op) tb ta = true.
Proof.
  destruct ta as [ka wa|], tb as [kb wb|]; cbn; try discriminate.
  destruct ka, kb; cbn; try discriminate; try reflexivity; destruct op; cbn; try discriminate;
    rewrite ?andb_true_l; try reflexivity; rewrite N.eqb_sym; auto.
Qed.

Lemma cmp_binop_same op : cmp_binop op = cmp_op op.
Proof. destruct op; reflexivity. Qed.

Lemma compare_agree op ka wa za kb wb zb' :
  cmp_ok op (Ty ka wa) (Ty kb wb) = true -> rng ka wa za -> rng kb wb zb' ->
  (ka = KInt -> kb = KU -> 0 <= za <= int_max) -> (kb = KInt -> ka = KU -> 0 <= zb' <= int_max) ->
  eval_binop (cmp_binop op) (scalar_value ka wa za) (scalar_value kb wb zb') = Ok (VB (cmp_val op za zb')).
Proof.
  intros C Ra Rb Ia Ib. rewrite cmp_binop_same.
  destruct ka, kb; cbn in C; try discriminate C.
  - (* Bit Bit *)
    destruct (rng_w1 KBit wa za (or_introl eq_refl) Ra) as [_ [-> | ->]];
      destruct (rng_w1 KBit wb zb' (or_introl eq_refl) Rb) as [_ [-> | ->]]; destruct op; try discriminate C; reflexivity.
  - (* Bool Bool *)
    destruct (rng_w1 KBool wa za (or_intror eq_refl) Ra) as [_ [-> | ->]];
      destruct (rng_w1 KBool wb zb' (or_intror eq_refl) Rb) as [_ [-> | ->]]; destruct op; try discriminate C; reflexivity.
  - (* BV BV *)
    apply andb_true_iff in C. destruct C as [C1 C2]. destruct op; try discriminate C1; cbn; rewrite C2; reflexivity.
  - (* U U *) destruct op; reflexivity.
  - (* U Int *) pose proof (nat_ok_of zb' (Ib eq_refl eq_refl)) as N.
    destruct op; cbn [cmp_op eval_binop scalar_value compare]; rewrite N; reflexivity.
  - (* S S *) destruct op; cbn [cmp_op eval_binop scalar_value compare]; rewrite ?(sval_in _ _ Ra), ?(sval_in _ _ Rb); reflexivity.
  - (* S Int *) destruct op; cbn [cmp_op eval_binop scalar_value compare]; rewrite ?(sval_in _ _ Ra), ?(sval_in _ _ Rb); reflexivity.
  - (* Int U *) pose proof (nat_ok_of za (Ia eq_refl eq_refl)) as N.
    destruct op; cbn [cmp_op eval_binop scalar_value compare]; rewrite N; reflexivity.
  - (* Int S *) destruct op; cbn [cmp_op eval_binop scalar_value compare]; rewrite ?(sval_in _ _ Ra), ?(sval_in _ _ Rb); reflexivity.
  - (* Int Int *) destruct op; reflexivity.
  - (* Enum Enum *)
    apply andb_true_iff in C. destruct C as [C1 C2].
    assert (A : 0 <= za) by (destruct Ra as [_ H]; cbn in H; apply andb_true_iff in H; destruct H as [H _]; apply Z.leb_le in H; exact H).
    assert (B : 0 <= zb') by (destruct Rb as [_ H]; cbn in H; apply andb_true_iff in H; destruct H as [H _]; apply Z.leb_le in H; exact H).
    destruct op; try discriminate C1; cbn [cmp_op eval_binop scalar_value compare]; rewrite !Z2N.id by assumption; reflexivity.
Qed.

Section Cmp.
Variables (sg vr : store) (ev : PS.t).
Notation den := (den sg vr ev).

(** an Integer-typed operand is a Python int literal (input ports of the grammar are not Integers) *)
Lemma den_int o w z : den o (TV KInt w z) -> o = OInt z.
Proof.
  destruct o as [z'|k w' z'|root rk rw s vk vw]; cbn [ExprEmitProofs.den].
  - intros [= _ ->]. reflexivity.
  - intros ([= <- _ _] & _ & N). congruence.
  - intros (zr & _ & _ & NI & WF & E). exfalso. destruct s as [|hi lo|i]; cbn [sel_wf sel_val] in *.
    + destruct WF as [_ WF]. destruct (is_vec rk).
      * unfold mk in E. inversion E; subst vk. discriminate WF.
      * inversion E; subst. congruence.
    + destruct WF as (_ & V & _). unfold mk in E. inversion E; subst vk. discriminate V.
    + discriminate E.
Qed.

Lemma ref_kind o k w z : den o (TV k w z) -> is_ref o = true -> k <> KInt.
Proof. intros D R ->. rewrite (den_int _ _ _ D) in R. discriminate R. Qed.

(** the printed comparison [l op' r] (after the operand swap) *)
Lemma cmp_shape op' ol or o' kl wl zl kr wr zr :
  den ol (TV kl wl zl) -> den or (TV kr wr zr) -> kl <> KInt ->
  cmp_ok op' (Ty kl wl) (Ty kr wr) = true -> (kr = KInt -> int_ok zr = true) ->
  (if neg_lit_vs_unsigned or ol
   then Some (tmp (ELit (VB (match op' with CNe | CGt | CGe => true | _ => false end))) KBool 1)
   else Some (tmp (EBin (cmp_binop op') (fmt ol) (fmt or)) KBool 1)) = Some o' ->
  den o' (TV KBool 1 (zb (cmp_val op' zl zr))).
Proof.
  intros Dl Dr NI C Ir Ho.
  destruct (den_typed _ _ _ _ _ Dl) as (k1 & w1 & z1 & E1 & Tl & Rl). inversion E1; subst k1 w1 z1.
  destruct (den_typed _ _ _ _ _ Dr) as (k2 & w2 & z2 & E2 & Tr & Rr). inversion E2; subst k2 w2 z2.
  pose proof (fmt_ok _ _ _ _ _ Dl) as Fl. pose proof (fmt_ok _ _ _ _ _ Dr) as Fr. cbn [to_value] in Fl, Fr.
  destruct (neg_lit_vs_unsigned or ol) eqn:NL.
  - inversion Ho; subst o'. unfold neg_lit_vs_unsigned in NL. destruct or as [z| |]; try discriminate NL.
    rewrite Tl in NL. destruct kl; try discriminate NL. apply Z.ltb_lt in NL.
    cbn in Dr. inversion Dr; subst kr wr zr. pose proof (rng_U _ _ Rl) as U.
    apply den_tmp; [|split; [reflexivity|apply zb_range]|discriminate].
    cbn [eval scalar_value]. rewrite truthy_zb. f_equal. f_equal.
    destruct op'; cbn [cmp_val];
      repeat match goal with
             | |- context [?a =? ?b] => destruct (Z.eqb_spec a b)
             | |- context [?a <? ?b] => destruct (Z.ltb_spec a b)
             | |- context [?a <=? ?b] => destruct (Z.leb_spec a b)
             end; cbn; try reflexivity; lia.
  - inversion Ho; subst o'.
    apply den_tmp; [|split; [reflexivity|apply zb_range]|discriminate].
    cbn [eval]. rewrite Fl, Fr. cbn [bind].
    rewrite compare_agree; auto.
    + cbn [scalar_value]. rewrite truthy_zb. reflexivity.
    + intros K _. congruence.
    + intros -> ->. specialize (Ir eq_refl). unfold int_ok in Ir. apply andb_true_iff in Ir. destruct Ir as [_ I2].
      apply Z.leb_le in I2. split; [|exact I2].
      rewrite (den_int _ _ _ Dr) in NL. unfold neg_lit_vs_unsigned in NL. rewrite Tl in NL. apply Z.ltb_ge in NL. exact NL.
Qed.

Lemma den_cmp op oa ob o' ka wa za kb wb zb' :
  den oa (TV ka wa za) -> den ob (TV kb wb zb') -> o_cmp op oa ob = Some o' ->
  (ka = KInt -> int_ok za = true) -> (kb = KInt -> int_ok zb' = true) ->
  den o' (cmp_eval op (TV ka wa za) (TV kb wb zb')).
Proof.
  intros Da Db Ho Ia Ib.
  destruct (den_typed _ _ _ _ _ Da) as (k1 & w1 & z1 & E1 & Ta & Ra). inversion E1; subst k1 w1 z1.
  destruct (den_typed _ _ _ _ _ Db) as (k2 & w2 & z2 & E2 & Tb & Rb). inversion E2; subst k2 w2 z2.
  unfold o_cmp in Ho. destruct (is_ref oa || is_ref ob) eqn:RR; cbn [negb] in Ho; [|discriminate].
  rewrite Ta, Tb in Ho. unfold cmp_eval.
  destruct (cmp_ok op (Ty ka wa) (Ty kb wb)) eqn:C; cbn [negb] in Ho; [|discriminate].
  destruct (is_ref oa && negb (int_vs_vec (Ty ka wa) (Ty kb wb))) eqn:S.
  - apply andb_true_iff in S. destruct S as [S _].
    eapply cmp_shape; [exact Da|exact Db|eapply ref_kind; eauto|exact C|exact Ib|exact Ho].
  - assert (Rb' : is_ref ob = true).
    { destruct (is_ref oa) eqn:S1; [|cbn in RR; exact RR]. cbn in S. apply negb_false_iff in S.
      unfold int_vs_vec in S. destruct ka; try discriminate S. exfalso. eapply (ref_kind _ _ _ _ Da); auto. }
    rewrite <- cmp_flip.
    eapply cmp_shape; [exact Db|exact Da|eapply ref_kind; eauto|apply cmp_ok_flip; exact C|exact Ia|exact Ho].
Qed.
End Cmp.

(** ** only literals are printed as literals: every operator result is a (temporary) object *)
Ltac crush H :=
  repeat match type of H with
         | context [match ?x with _ => _ end] => destruct x eqn:?; try discriminate H
         end.

Lemma o_un_ref op o o' : o_un op o = Some o' -> is_ref o' = true.
Proof. unfold o_un, tmp. intros H. crush H; inversion H; reflexivity. Qed.

Lemma o_cmp_ref op a b o' : o_cmp op a b = Some o' -> is_ref o' = true.
Proof. unfold o_cmp, tmp. intros H. crush H; inversion H; reflexivity. Qed.

Lemma o_view_ref v o o' : o_view v o = Some o' -> is_ref o' = true.
Proof. unfold o_view. intros H. crush H; inversion H; reflexivity. Qed.

Lemma o_slice_ref hi lo o o' : o_slice hi lo o = Some o' -> is_ref o' = true.
Proof. unfold o_slice. intros H. crush H; inversion H; reflexivity. Qed.

Lemma o_idx_ref i o o' : o_idx i o = Some o' -> is_ref o' = true.
Proof. unfold o_idx. intros H. crush H; inversion H; reflexivity. Qed.

(** ** arithmetic on two Unsigned / two Signed operands (any widths): composition of ExprRefProofs.arith_agrees_* and
    divmod_agrees_* *)
Section Bin.
Variables (sg vr : store) (ev : PS.t).
Notation den := (den sg vr ev).

Lemma adj_neg_vec op o other k w : oty o = Ty k w -> k <> KInt -> adj_neg op o other = o.
Proof. intros T N. destruct o as [z| |]; [cbn in T; congruence| |]; destruct op; reflexivity. Qed.

Lemma den_bin_arith op o oa ob o' k wa za wb zb' :
  (k = KU \/ k = KS) -> arith_op op = Some o ->
  den oa (TV k wa za) -> den ob (TV k wb zb') -> o_bin op oa ob = Some o' ->
  defined (bin_eval op (TV k wa za) (TV k wb zb')) = true ->
  den o' (bin_eval op (TV k wa za) (TV k wb zb')).
Proof.
  intros Hk Ho Da Db Hb Df.
  destruct (den_typed _ _ _ _ _ Da) as (k1 & w1 & z1 & E1 & Ta & Ra). inversion E1; subst k1 w1 z1.
  destruct (den_typed _ _ _ _ _ Db) as (k2 & w2 & z2 & E2 & Tb & Rb). inversion E2; subst k2 w2 z2.
  pose proof (fmt_ok _ _ _ _ _ Da) as Fa. pose proof (fmt_ok _ _ _ _ _ Db) as Fb. cbn [to_value] in Fa, Fb.
  assert (NI : k <> KInt) by (destruct Hk; subst; discriminate).
  unfold o_bin in Hb. destruct (negb (is_ref oa || is_ref ob)); [discriminate|].
  rewrite Ta, Tb in Hb.
  assert (AB : arith_binop op = Some o) by (destruct op; try discriminate Ho; exact Ho).
  rewrite (adj_neg_vec op oa ob k wa Ta NI), (adj_neg_vec op ob oa k wb Tb NI) in Hb.
  unfold bin_eval in *.
  destruct (bin_ty op (Ty k wa) (Ty k wb)) as [[kr wr|]|] eqn:BT; try discriminate Hb.
  assert (Hop : (op = BAdd \/ op = BSub \/ op = BMul) \/ (op = BTruncDiv \/ op = BMod \/ op = BRem))
    by (destruct op; try discriminate Ho; auto 6).
  assert (Hb' : Some (tmp (EBin o (fmt oa) (fmt ob)) kr wr) = Some o').
  { destruct op; try discriminate Ho; rewrite AB in Hb; exact Hb. }
  inversion Hb'; subst o'. clear Hb Hb'.
  assert (Kr : kr = k) by (destruct Hk; subst k; destruct op; try discriminate Ho; cbn in BT; inversion BT; reflexivity).
  subst kr.
  assert (Wr : wf_scalar k wr = true) by (eapply bin_ty_wf; [exact BT|apply Ra|apply Rb]).
  destruct (bin_val op k wa za k wb zb') as [zr|] eqn:BV; [|discriminate Df].
  unfold mk. apply den_tmp; [|split; [exact Wr|apply norm_ok; exact Wr]|exact NI].
  cbn [eval]. rewrite Fa, Fb. cbn [bind].
  assert (G : eval_binop o (scalar_value k wa za) (scalar_value k wb zb') = Ok (to_value (bin_eval op (TV k wa za) (TV k wb zb')))).
  { destruct Hop as [H3 | H3].
    - destruct Hk; subst k; [apply arith_agrees_UU|apply arith_agrees_SS]; assumption.
    - assert (NZ : zb' <> 0).
      { intros ->. destruct H3 as [-> | [-> | ->]]; cbn in BV; discriminate BV. }
      destruct Hk; subst k; [apply divmod_agrees_UU|apply divmod_agrees_SS]; assumption. }
  rewrite G. unfold bin_eval. rewrite BT, BV. reflexivity.
Qed.

(** shifts: the count is an int literal or TO_INTEGER of an Unsigned (ExprRefProofs.shift_agrees_*, shift_count_unsigned) *)
Lemma den_shift op oa ob o' k wa za kb wb zb' :
  (op = BShl \/ op = BShr) ->
  den oa (TV k wa za) -> den ob (TV kb wb zb') -> o_bin op oa ob = Some o' ->
  (kb = KInt -> zb' <= int_max) -> (kb = KU -> (wb <= 31)%N) ->
  defined (bin_eval op (TV k wa za) (TV kb wb zb')) = true ->
  den o' (bin_eval op (TV k wa za) (TV kb wb zb')).
Proof.
  intros Hop Da Db Hb Ci Cu Df.
  destruct (den_typed _ _ _ _ _ Da) as (k1 & w1 & z1 & E1 & Ta & Ra). inversion E1; subst k1 w1 z1.
  destruct (den_typed _ _ _ _ _ Db) as (k2 & w2 & z2 & E2 & Tb & Rb). inversion E2; subst k2 w2 z2.
  pose proof (fmt_ok _ _ _ _ _ Da) as Fa. pose proof (fmt_ok _ _ _ _ _ Db) as Fb. cbn [to_value] in Fa, Fb.
  unfold o_bin in Hb. destruct (negb (is_ref oa || is_ref ob)); [discriminate|].
  rewrite Ta, Tb in Hb.
  destruct (bin_ty op (Ty k wa) (Ty kb wb)) as [[kr wr|]|] eqn:BT; try discriminate Hb.
  assert (K : (k = KU \/ k = KS) /\ (kb = KU \/ kb = KInt) /\ kr = k /\ wr = wa).
  { destruct Hop; subst op; destruct k; try discriminate BT; destruct kb; try discriminate BT; cbn in BT; inversion BT; auto. }
  destruct K as (Hk & Hkb & -> & ->).
  (* the count as an integer *)
  assert (N : 0 <= zb' <= int_max /\ exists n, to_int ob = Some n /\ eval sg vr ev n = Ok (VI zb')).
  { assert (P : 0 <= zb').
    { destruct Hkb as [-> | ->]; [apply rng_U in Rb; lia|].
      destruct (Z.ltb_spec zb' 0) as [L|L]; [|exact L]. exfalso.
      assert (B : bin_val op k wa za KInt wb zb' = None)
        by (destruct Hop; subst op; cbn; apply Z.ltb_lt in L; rewrite L; reflexivity).
      unfold bin_eval in Df. rewrite BT, B in Df. discriminate Df. }
    unfold to_int. rewrite Tb. destruct Hkb as [-> | ->].
    - specialize (Cu eq_refl). pose proof (rng_U _ _ Rb) as U.
      assert (M : zb' <= int_max).
      { assert (pow2 wb <= pow2 31) by (apply pow2_le; exact Cu). change (pow2 31) with 2147483648 in H. unfold int_max. lia. }
      split; [lia|]. eexists; split; [reflexivity|]. cbn [eval]. rewrite Fb. cbn.
      destruct (Z.leb_spec zb' int_max); [reflexivity|lia].
    - specialize (Ci eq_refl). split; [lia|]. eexists; split; [reflexivity|]. exact Fb. }
  destruct N as (Nr & n & Tn & En). rewrite Tn in Hb.
  assert (Wr : wf_scalar k wa = true) by apply Ra.
  assert (NI : k <> KInt) by (destruct Hk; subst; discriminate).
  assert (Same : bin_eval op (TV k wa za) (TV kb wb zb') = bin_eval op (TV k wa za) (TV KInt 0 zb')).
  { destruct Hkb as [-> | ->].
    - apply (proj2 (shift_count_unsigned op k wa za wb zb' Hop Hk Nr)).
    - destruct Hop; subst op; destruct Hk; subst k; reflexivity. }
  rewrite Same in *.
  assert (G : eval_fn2 (match op with BShl => FShl | _ => FShr end) (scalar_value k wa za) (VI zb')
              = Ok (to_value (bin_eval op (TV k wa za) (TV KInt 0 zb')))).
  { destruct Hk; subst k; destruct Hop; subst op;
      first [exact (proj1 (shift_agrees_U wa za zb' Ra Nr)) | exact (proj2 (shift_agrees_U wa za zb' Ra Nr))
            | exact (proj1 (shift_agrees_S wa za zb' Ra Nr)) | exact (proj2 (shift_agrees_S wa za zb' Ra Nr))]. }
  assert (Hb' : Some (tmp (EF2 (match op with BShl => FShl | _ => FShr end) (fmt oa) n) k wa) = Some o')
    by (destruct Hop; subst op; exact Hb).
  inversion Hb'; subst o'.
  unfold bin_eval in *.
  destruct (bin_ty op (Ty k wa) (Ty KInt 0)) as [[kr wr|]|] eqn:BT2; try discriminate Df.
  assert (K2 : kr = k /\ wr = wa) by (destruct Hop; subst op; destruct Hk; subst k; cbn in BT2; inversion BT2; auto).
  destruct K2 as [-> ->].
  destruct (bin_val op k wa za KInt 0 zb') as [zr|] eqn:BV; [|discriminate Df].
  unfold mk in *. apply den_tmp; [|split; [exact Wr|apply norm_ok; exact Wr]|exact NI].
  cbn [eval]. rewrite Fa, En. cbn [bind]. rewrite G. reflexivity.
Qed.
End Bin.

Lemma o_bin_ref op a b o' : o_bin op a b = Some o' -> is_ref o' = true.
Proof. unfold o_bin, tmp. intros H. crush H; inversion H; reflexivity. Qed.

Lemma o_resize_ref n z o o' : o_resize n z o = Some o' -> is_ref o' = true.
Proof. unfold o_resize, tmp. intros H. crush H; inversion H; reflexivity. Qed.

(** ** the part of the grammar for which the composition is proved so far (see emit_correct_partial) *)
Definition is_arith (op : bop) : bool :=
  match op with BAdd | BSub | BMul | BTruncDiv | BMod | BRem => true | _ => false end.

Definition is_shift (op : bop) : bool := match op with BShl | BShr => true | _ => false end.

Lemma lit_of_inv e z : lit_of e = Some z -> exists w, e = XConst KInt w z.
Proof. destruct e; try discriminate. destruct k; try discriminate. intros [= ->]. eauto. Qed.

Definition same_vec (a b : option ty) : bool :=
  match a, b with
  | Some (Ty KU _), Some (Ty KU _) | Some (Ty KS _), Some (Ty KS _) => true
  | _, _ => false
  end.

Fixpoint proved_part (e : texp) : bool :=
  match e with
  | XIn _ _ | XConst _ _ _ => true
  | XUn _ a | XIdxC a _ | XSlice a _ _ | XView _ a => proved_part a
  | XCmp _ a b => proved_part a && proved_part b
  | XBin op a b => ((is_arith op && same_vec (tyof a) (tyof b)) || is_shift op) && proved_part a && proved_part b
  | _ => false
  end.

Section Main.
Variables (pos : nat -> positive) (en : env) (sg vr : store) (ev : PS.t).
Hypothesis SM : store_matches pos en sg.
Notation den := (den sg vr ev).

Lemma emo_lit e o : emo pos e = Some o -> is_ref o = false -> exists k w z, e = XConst k w z.
Proof.
  destruct e; cbn [emo]; intros H NR; try discriminate H; eauto.
  - destruct t as [kd w|]; [|discriminate H]. destruct (wf_scalar kd w); [|discriminate H].
    inversion H; subst. discriminate NR.
  - destruct (emo pos e); [|discriminate H]. apply o_un_ref in H. congruence.
  - destruct (emo pos e1); [|discriminate H]. destruct (emo pos e2); [|discriminate H]. apply o_bin_ref in H. congruence.
  - destruct (emo pos e1); [|discriminate H]. destruct (emo pos e2); [|discriminate H]. apply o_cmp_ref in H. congruence.
  - destruct (emo pos e); [|discriminate H]. apply o_idx_ref in H. congruence.
  - destruct (emo pos e); [|discriminate H]. apply o_slice_ref in H. congruence.
  - destruct (emo pos e); [|discriminate H]. apply o_view_ref in H. congruence.
  - destruct (emo pos e); [|discriminate H]. apply o_resize_ref in H. congruence.
Qed.

Lemma int_opnd_lit e z : emo pos e = Some (OInt z) -> lit_of e = Some z.
Proof.
  intros H. destruct (emo_lit e _ H eq_refl) as (k & w & z' & ->). cbn [emo] in H.
  destruct k; try (destruct (_ && _); discriminate H). inversion H. reflexivity.
Qed.

Theorem emit_den : forall e o, emo pos e = Some o -> in_emit_grammar e = true -> proved_part e = true ->
  defined (xeval en e) = true -> den o (xeval en e).
Proof.
  induction e using texp_ind'; intros o He Hg Hp Hd; cbn [emo] in He; try discriminate He; try discriminate Hp.
  - (* XIn *)
    destruct ti as [kd w|]; [|discriminate He]. destruct (wf_scalar kd w) eqn:W; [|discriminate He].
    inversion He; subst o. cbn [in_emit_grammar node_ok] in Hg. rewrite andb_true_r in Hg.
    assert (NI : kd <> KInt) by (intros ->; discriminate Hg).
    cbn [xeval] in Hd |- *. pose proof (SM k) as S.
    destruct (wf_ty (Ty kd w) && vok (Ty kd w) (nth k en TUndef)) eqn:C; [|discriminate Hd].
    apply andb_true_iff in C. destruct C as [_ V].
    destruct (nth k en TUndef) as [k' w' z|k' w' l|] eqn:Ev; [| |discriminate Hd].
    + apply vok_TV in V. destruct V as (T & W' & R). inversion T; subst k' w'.
      apply den_tmp; [|split; assumption|exact NI]. cbn [eval]. rewrite S by discriminate. reflexivity.
    + cbn in V. discriminate V.
  - (* XConst *)
    destruct k.
    all: try (destruct (_ && _) eqn:C in He; [|discriminate He]; inversion He; subst o; cbn [xeval]; rewrite C;
              apply andb_true_iff in C; destruct C; cbn [ExprEmitProofs.den]; split; [reflexivity|]; split; [split; assumption|discriminate]).
    inversion He; subst o. cbn [xeval] in *. destruct (wf_scalar KInt w && in_range KInt w z) eqn:C; [|discriminate Hd].
    apply andb_true_iff in C. destruct C as [W _]. cbn in W. apply N.eqb_eq in W. subst w. reflexivity.
  - (* XUn *)
    destruct (emo pos e) as [oa|] eqn:Ea; [|discriminate He].
    cbn [in_emit_grammar node_ok andb] in Hg. cbn [proved_part] in Hp. cbn [xeval] in *.
    pose proof (IHe oa eq_refl Hg Hp) as Da.
    destruct (xeval en e) as [ka wa za| |] eqn:Xa; try discriminate Hd.
    exact (den_un _ _ _ op oa o _ (Da eq_refl) He).
  - (* XBin *)
    destruct (emo pos e1) as [oa|] eqn:Ea; [|discriminate He]. destruct (emo pos e2) as [ob|] eqn:Eb; [|discriminate He].
    cbn [in_emit_grammar] in Hg. apply andb_true_iff in Hg. destruct Hg as [Hn Hg]. apply andb_true_iff in Hg. destruct Hg as [G1 G2].
    cbn [proved_part] in Hp. apply andb_true_iff in Hp. destruct Hp as [Hp P2]. apply andb_true_iff in Hp. destruct Hp as [Hp P1].
    cbn [xeval] in *.
    pose proof (IHe1 oa eq_refl G1 P1) as Da. pose proof (IHe2 ob eq_refl G2 P2) as Db.
    pose proof (type_width e1) as T1. pose proof (type_width e2) as T2.
    destruct (xeval en e1) as [ka wa za| |] eqn:Xa; try discriminate Hd.
    destruct (xeval en e2) as [kb wb zb'| |] eqn:Xb; try discriminate Hd.
    specialize (Da eq_refl). specialize (Db eq_refl).
    apply orb_true_iff in Hp. destruct Hp as [Hp | Sh].
    + apply andb_true_iff in Hp. destruct Hp as [Ar SV].
      assert (K : (ka = KU \/ ka = KS) /\ kb = ka).
      { unfold same_vec in SV. destruct (tyof e1) as [[k1 w1|]|] eqn:Ty1; try discriminate SV.
        destruct (tyof e2) as [[k2 w2|]|] eqn:Ty2; try (destruct k1; discriminate SV).
        specialize (T1 _ en eq_refl). specialize (T2 _ en eq_refl). rewrite Xa in T1. rewrite Xb in T2.
        apply vok_TV in T1. apply vok_TV in T2. destruct T1 as [T1 _]. destruct T2 as [T2 _].
        inversion T1; inversion T2; subst. destruct ka, kb; try discriminate SV; auto. }
      destruct K as [Hk ->].
      assert (AO : exists o', arith_op op = Some o') by (destruct op; try discriminate Ar; cbn; eauto).
      destruct AO as [o' AO].
      eapply den_bin_arith; eauto.
    + assert (Hop : op = BShl \/ op = BShr) by (destruct op; try discriminate Sh; auto).
      assert (Hn' : match lit_of e2, tyof e2 with
                    | Some z, _ => z <=? int_max
                    | None, Some (Ty KU w) => (w <=? 31)%N
                    | _, _ => false
                    end = true) by (destruct Hop; subst op; exact Hn).
      eapply den_shift; eauto.
      * intros ->. rewrite (den_int _ _ _ _ _ _ Db) in Eb. apply int_opnd_lit in Eb. rewrite Eb in Hn'.
        apply Z.leb_le in Hn'. exact Hn'.
      * intros ->. destruct (lit_of e2) as [z|] eqn:L.
        { exfalso. destruct (lit_of_inv _ _ L) as [w ->]. cbn [xeval] in Xb.
          destruct (wf_scalar KInt w && in_range KInt w z); discriminate Xb. }
        destruct (tyof e2) as [[k2 w2|]|] eqn:Ty2; try discriminate Hn'.
        specialize (T2 _ en eq_refl). rewrite Xb in T2. apply vok_TV in T2. destruct T2 as [T2 _]. inversion T2; subst.
        apply N.leb_le. exact Hn'.
  - (* XCmp *)
    destruct (emo pos e1) as [oa|] eqn:Ea; [|discriminate He]. destruct (emo pos e2) as [ob|] eqn:Eb; [|discriminate He].
    cbn [in_emit_grammar] in Hg. apply andb_true_iff in Hg. destruct Hg as [Hn Hg]. apply andb_true_iff in Hg. destruct Hg as [G1 G2].
    cbn [proved_part] in Hp. apply andb_true_iff in Hp. destruct Hp as [P1 P2].
    cbn [xeval] in *.
    pose proof (IHe1 oa eq_refl G1 P1) as Da. pose proof (IHe2 ob eq_refl G2 P2) as Db.
    destruct (xeval en e1) as [ka wa za| |] eqn:Xa; try discriminate Hd.
    destruct (xeval en e2) as [kb wb zb'| |] eqn:Xb; try discriminate Hd.
    specialize (Da eq_refl). specialize (Db eq_refl). cbn [node_ok] in Hn.
    eapply den_cmp; eauto.
    + intros ->. rewrite (den_int _ _ _ _ _ _ Da) in Ea. apply int_opnd_lit in Ea. rewrite Ea in Hn.
      destruct (lit_of e2); [discriminate Hn|exact Hn].
    + intros ->. rewrite (den_int _ _ _ _ _ _ Db) in Eb. apply int_opnd_lit in Eb. rewrite Eb in Hn.
      destruct (lit_of e1); [discriminate Hn|exact Hn].
  - (* XIdxC *)
    destruct (emo pos e) as [oa|] eqn:Ea; [|discriminate He].
    cbn [in_emit_grammar node_ok andb] in Hg. cbn [proved_part] in Hp. cbn [xeval] in *.
    pose proof (IHe oa eq_refl Hg Hp) as Da.
    destruct (xeval en e) as [ka wa za| |] eqn:Xa; try discriminate Hd.
    destruct (den_idx _ _ _ _ _ _ _ (Da eq_refl) He) as (k & w & z & E & C & D). inversion E; subst ka wa za.
    rewrite C. exact D.
  - (* XSlice *)
    destruct (emo pos e) as [oa|] eqn:Ea; [|discriminate He].
    cbn [in_emit_grammar node_ok] in Hg. apply andb_true_iff in Hg. destruct Hg as [Hn Hg]. apply Z.ltb_lt in Hn.
    cbn [proved_part] in Hp. cbn [xeval] in *.
    pose proof (IHe oa eq_refl Hg Hp) as Da.
    destruct (xeval en e) as [ka wa za| |] eqn:Xa; try discriminate Hd.
    destruct (den_slice _ _ _ _ _ _ _ _ (Da eq_refl) He Hn) as (k & w & z & E & C & D). inversion E; subst ka wa za.
    rewrite C. exact D.
  - (* XView *)
    destruct (emo pos e) as [oa|] eqn:Ea; [|discriminate He].
    cbn [in_emit_grammar node_ok andb] in Hg. cbn [proved_part] in Hp. cbn [xeval] in *.
    pose proof (IHe oa eq_refl Hg Hp) as Da.
    destruct (xeval en e) as [ka wa za| |] eqn:Xa; try discriminate Hd.
    destruct (den_view _ _ _ _ _ _ _ (Da eq_refl) He) as (k & w & z & E & C & D). inversion E; subst ka wa za.
    rewrite C. exact D.
Qed.

(** the printed expression of every tree of (this part of) the grammar evaluates to the documented value, for all
    widths and all operand values.
    FULL STATEMENT (emit_correct), of which this is the proved part:
      forall e ex t, emit pos e = Some ex -> tyof e = Some t -> in_emit_grammar e = true ->
        defined (xeval en e) = true -> eval sg vr ev ex = Ok (to_value (xeval en e)).
    MISSING (hypothesis [proved_part]): arithmetic with an int literal operand (ExprEmit.arith_lit_ok), & | ^,
    concatenation and resize; they are printed by [emit] and tied to the compiler, their value agreement is proved per
    operator (ExprRefProofs: resize_agrees, resize_zeros_agrees_U, concat_msb_left, mul_int_agrees_partial) and per
    design.  Proved: + - * / mod rem on two Unsigned / two Signed operands, << >> by an int literal or an Unsigned. *)
Theorem emit_correct_partial : forall e ex t,
  emit pos e = Some ex -> tyof e = Some t -> in_emit_grammar e = true -> proved_part e = true ->
  defined (xeval en e) = true -> eval sg vr ev ex = Ok (to_value (xeval en e)).
Proof.
  intros e ex t He _ Hg Hp Hd. unfold emit in He.
  destruct (emo pos e) as [o|] eqn:Eo; [|discriminate He].
  destruct o as [z|k w z|root rk rw s vk vw]; try discriminate He. inversion He; subst ex.
  apply (fmt_ok sg vr ev (ORef root rk rw s vk vw)). apply emit_den; assumption.
Qed.
End Main.

(** ** the hypotheses of emit_correct_partial are satisfiable, and the conclusion is a real evaluation *)
Definition ex_pos (k : nat) : positive := Pos.of_succ_nat k.
Definition ex_en : env := [TV KS 3 (-3); TV KU 2 3].
Definition ex_sg : store := PM.add 1%positive (VV KSgn 3 5) (PM.add 2%positive (VV KUns 2 3) (PM.empty value)).
(** ((s[1:0].unsigned + b) * b  >  2)  and  not (s[2:1].signed == -2) *)
Definition ex_e1 : texp :=
  XCmp CLt (XConst KInt 0 2)
       (XBin BMul (XBin BAdd (XView VwU (XSlice (XIn 0 (Ty KS 3)) 1 0)) (XIn 1 (Ty KU 2))) (XIn 1 (Ty KU 2))).
Definition ex_e2 : texp :=
  XUn NNot (XCmp CEq (XView VwS (XSlice (XSlice (XIn 0 (Ty KS 3)) 2 0) 2 1)) (XConst KInt 0 (-2))).

Example ex_store_matches : store_matches ex_pos ex_en ex_sg.
Proof.
  intros k H. destruct k as [|[|k]]; [reflexivity|reflexivity|].
  exfalso. apply H. cbn. destruct k; reflexivity.
Qed.

Example emit_correct_nonvacuous :
  store_matches ex_pos ex_en ex_sg /\
  (forall e, In e [ex_e1; ex_e2] ->
     (exists ex, emit ex_pos e = Some ex) /\ tyof e = Some (Ty KBool 1) /\ in_emit_grammar e = true /\
     proved_part e = true /\ defined (xeval ex_en e) = true) /\
  emit ex_pos ex_e1 =
    Some (EBin OGt (EBin OMul (EBin OAdd (EF1 FConvUns (EF1 FConvSlv (EF1 FConvSgn (ESlice (ESig 1) 1 0)))) (ESig 2)) (ESig 2))
               (ELit (VI 2))) /\
  xeval ex_en ex_e1 = TV KBool 1 0 /\ xeval ex_en ex_e2 = TV KBool 1 0.
Proof.
  split; [exact ex_store_matches|]. split.
  - intros e [<- | [<- | []]]; (split; [eexists; vm_compute; reflexivity|]); vm_compute; auto.
  - vm_compute. auto.
Qed.

(** ** arithmetic with an int literal as the RIGHT operand: the documented value = what numeric_std computes on the
    printed literal (a negative literal next to an Unsigned in + - is printed modulo 2**w), for all six operators,
    Unsigned and Signed, all widths and values, under ExprEmit.arith_lit_ok.  (Not yet composed into emit_correct_partial;
    the mirrored lemma for a literal on the left is not proved.) *)
Definition adjz (op : bop) (k : kind) (w : N) (z : Z) : Z :=
  match op, k with
  | (BAdd | BSub), KU => if z <? 0 then z mod pow2 w else z
  | _, _ => z
  end.

Lemma lit_ok_parts op k w z : arith_lit_ok op k w z = true ->
  match op, k with
  | (BAdd | BSub), KU => nat_ok (adjz op k w z) = true
  | (BAdd | BSub), _ => True
  | _, KU => nat_ok z = true /\ 0 <= z < pow2 w
  | _, _ => in_range k w z = true
  end.
Proof.
  unfold arith_lit_ok. intros H. apply andb_true_iff in H. destruct H as [_ H].
  destruct op, k; cbn [adjz]; try exact H; try exact I;
    try (apply andb_true_iff in H; destruct H as [A B]; split; [exact A|];
         cbn in B; apply andb_true_iff in B; destruct B as [B1 B2]; apply Z.leb_le in B1; apply Z.ltb_lt in B2; lia).
Qed.

Lemma wrap_nz w b : rng KS w b -> b <> 0 -> (wrap w b =? 0) = false.
Proof.
  intros R Hz. apply Z.eqb_neq. intros E. pose proof (sval_in _ _ R) as Eb. rewrite E in Eb.
  destruct (rng_S _ _ R) as [Wb _]. unfold sval in Eb. destruct (N.eqb_spec w 0); [lia|].
  pose proof (pow2_pos (w - 1)). destruct (Z.ltb_spec 0 (pow2 (w - 1))); lia.
Qed.

Lemma adj_wrap w z : wrap w (if z <? 0 then z mod pow2 w else z) = wrap w z.
Proof. destruct (z <? 0); [apply wrap_wrap|reflexivity]. Qed.

Lemma arith_lit_right op o k w a z v :
  arith_op op = Some o -> (k = KU \/ k = KS) -> rng k w a -> arith_lit_ok op k w z = true ->
  bin_val op k w a KInt 0 z = Some v ->
  eval_binop o (scalar_value k w a) (VI (adjz op k w z))
  = Ok (scalar_value k (arith_width_int op w) (norm k (arith_width_int op w) v)).
Proof.
  intros Ho Hk R L BV. pose proof (lit_ok_parts _ _ _ _ L) as P.
  destruct Hk; subst k.
  - pose proof (rng_U _ _ R) as U.
    destruct op; try discriminate Ho; inversion Ho; subst o; cbn [adjz] in *; cbn in BV.
    + inversion BV; subst v. cbn [eval_binop arith scalar_value]. rewrite P. unfold mkU, norm, arith_width_int. f_equal. f_equal.
      rewrite <- (wrap_add_r w a (if z <? 0 then z mod pow2 w else z)), adj_wrap, wrap_add_r. reflexivity.
    + inversion BV; subst v. cbn [eval_binop arith scalar_value]. rewrite P. unfold mkU, norm, arith_width_int. f_equal. f_equal.
      rewrite <- (wrap_sub_r w a (if z <? 0 then z mod pow2 w else z)), adj_wrap, wrap_sub_r. reflexivity.
    + inversion BV; subst v. destruct P as [P Rz]. cbn. rewrite P. unfold mkU, to_u. rewrite (wrap_small w z) by exact Rz. reflexivity.
    + destruct (z =? 0) eqn:Z0; [discriminate BV|]. inversion BV; subst v. destruct P as [P Rz]. cbn. rewrite P, Z0.
      unfold mkU. rewrite Z.quot_div_nonneg by (apply Z.eqb_neq in Z0; lia). reflexivity.
    + destruct (z =? 0) eqn:Z0; [discriminate BV|]. inversion BV; subst v. destruct P as [P Rz]. cbn. rewrite P, Z0. reflexivity.
    + destruct (z =? 0) eqn:Z0; [discriminate BV|]. inversion BV; subst v. destruct P as [P Rz]. cbn. rewrite P, Z0.
      unfold mkU. rewrite Z.rem_mod_nonneg by (apply Z.eqb_neq in Z0; lia). reflexivity.
  - pose proof (sval_in _ _ R) as Ea.
    destruct op; try discriminate Ho; inversion Ho; subst o; cbn [adjz] in *; cbn in BV.
    + inversion BV; subst v. cbn. rewrite Ea. unfold mkS. rewrite wrap_sval_wrap. reflexivity.
    + inversion BV; subst v. cbn. rewrite Ea. unfold mkS. rewrite wrap_sval_wrap. reflexivity.
    + inversion BV; subst v. cbn. rewrite Ea. unfold mkS, to_s. rewrite (sval_in w z) by (split; [apply R|exact P]).
      rewrite wrap_sval_wrap. reflexivity.
    + destruct (z =? 0) eqn:Z0; [discriminate BV|]. inversion BV; subst v. cbn. rewrite Z0, Ea. unfold mkS. rewrite wrap_sval_wrap. reflexivity.
    + destruct (z =? 0) eqn:Z0; [discriminate BV|]. inversion BV; subst v. cbn. rewrite Z0, Ea. unfold mkS. rewrite wrap_sval_wrap. reflexivity.
    + destruct (z =? 0) eqn:Z0; [discriminate BV|]. inversion BV; subst v. cbn. rewrite Z0, Ea. unfold mkS. rewrite wrap_sval_wrap. reflexivity.
Qed.
