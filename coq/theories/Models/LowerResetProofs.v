(** * LowerResetProofs: reset of the lowered state machine, for ALL programs of [Lower.in_grammar] (C04).

    [lower_rst_correct]: the lowered machine inside a reset context has the trace of the coroutine
    reference with reset [CoroReset.ref_step_rst], for every reset variant, every program of the grammar
    and every input sequence (reset asserted at any clock, for any duration, also in mid-coroutine).
    [reset_from_any_config]: one clock with the reset active takes EVERY configuration (reachable or
    not, any value of the state register and of the objects) to a configuration whose subsequent
    behaviour is the power-up behaviour. *)
From Coq Require Import ZArith NArith List Bool Lia Arith.
From Cohdl Require Import Base.Bits Vhdl.Value Equiv.Explore Equiv.RefTS Models.ResetRef Models.Coro Models.CoroReset
  Models.Lower Models.LowerProofs Models.LowerReset.
Import ListNotations.

Definition cfg (n : nat) (w : work) (wc : Z) : list Z := [Z.of_nat n; w_v w; w_cnt w; w_mark w; wc].

Lemma step_sim p m (ok : cinp -> Prop) j c n w wc inp : ok (in_bits inp) -> sim p m ok (S j) c n wc ->
  exists c' n' w' wc',
    ref_step p (rpack (c, w)) inp = (rpack (c', w'), mobs w') /\
    mstepZ m (cfg n w wc) inp = (cfg n' w' wc', mobs w') /\
    sim p m ok j c' n' wc'.
Proof.
  intros Hok Hs. unfold ref_step. rewrite clock_rclock.
  unfold mstepZ, cfg, mclock. cbn [fst snd rpack r_ctrl]. rewrite Nat2Z.id.
  replace (rwork (rpack (c, w))) with w by (destruct w; reflexivity).
  replace {| w_v := w_v w; w_cnt := w_cnt w; w_mark := w_mark w |} with w by (destruct w; reflexivity).
  specialize (Hs (in_bits inp) w Hok). destruct Hs as (H1 & H2 & H3).
  destruct (rclock p c (in_bits inp) w) as [c' w'] eqn:Er.
  destruct (run_tree (in_bits inp) (tree_at m n) n w wc wc) as [[n' w''] wc'] eqn:Em.
  cbn [fst snd] in H1, H2, H3 |- *. subst w''. exists c', n', w', wc'.
  split; [|split; [reflexivity|exact H3]].
  cbn [r_ctrl r_cnt r_mark rpack fst snd]. f_equal.
  unfold mobs. destruct c'; try reflexivity. congruence.
Qed.

Lemma trace_sim_rst a l rw p : in_grammar p = true ->
  forall ins c n w wc, sim p (lower p) (okd false false) (length ins) c n wc ->
    traceB (mstepZ_rst a l (rs_with rw) (lower p)) (cfg n w wc) ins = traceB (ref_step_rst a l p) (rpack (c, w)) ins.
Proof.
  intros Hg. induction ins as [|i r IH]; intros c n w wc Hs; [reflexivity|].
  cbn [traceB length] in *. destruct i as [|rv rest].
  - cbn [mstepZ_rst ref_step_rst]. f_equal. apply IH. apply sim_mono. exact Hs.
  - unfold mstepZ_rst at 1, ref_step_rst at 1. unfold cfg at 1.
    destruct (xorb match rv with VL b => b | _ => false end l) eqn:Ea.
    + change (0%Z :: apply_reset (rs_with rw) [w_v w; w_cnt w; w_mark w; wc])
        with (cfg O work0 (if r_rst rw then r_def rw else wc)).
      change rinit with (rpack (AtStart, work0)).
      f_equal. apply IH. apply sim_start. exact Hg.
    + destruct (step_sim p (lower p) _ (length r) c n w wc rest (okd_none _) Hs) as (c' & n' & w' & wc' & Hr & Hm & Hs').
      fold (cfg n w wc). rewrite Hr, Hm. unfold mobs. f_equal. apply IH. exact Hs'.
Qed.

(** [rw]: any declaration of the wait counter; [wc0]: any power-up value of it *)
Theorem lower_rst_correct_gen a l rw wc0 p : in_grammar p = true ->
  forall ins, traceB (mstepZ_rst a l (rs_with rw) (lower p)) [0; 0; 0; 0; wc0]%Z ins
            = traceB (ref_step_rst a l p) rinit ins.
Proof.
  intros Hg ins.
  exact (trace_sim_rst a l rw p Hg ins AtStart O work0 wc0 (sim_start p Hg (length ins) wc0)).
Qed.

Theorem lower_rst_correct a l p : in_grammar p = true ->
  forall ins, traceB (mstepZ_rst a l rs_all (lower p)) minitZ ins = traceB (ref_step_rst a l p) rinit ins.
Proof. intros Hg. exact (lower_rst_correct_gen a l _ 0%Z p Hg). Qed.

(** ** reset from any configuration *)
Definition active (rv : value) (active_low : bool) : bool :=
  xorb (match rv with VL b => b | _ => false end) active_low.

Lemma mstepZ_rst_reset a l rs m n v c k wc rv rest : active rv l = true ->
  fst (mstepZ_rst a l rs m [n; v; c; k; wc] (rv :: rest)) = 0%Z :: apply_reset rs [v; c; k; wc].
Proof. unfold active. intros H. unfold mstepZ_rst. rewrite H. reflexivity. Qed.

(** objects without a default / marked noreset keep their value, the others take their default *)
Lemma apply_reset_nth rs : forall st i d dr, (i < length rs)%nat -> (i < length st)%nat ->
  nth i (apply_reset rs st) d = if r_rst (nth i rs dr) then r_def (nth i rs dr) else nth i st d.
Proof.
  induction rs as [|r rs IH]; intros st i d dr Hr Hs; [cbn in Hr; lia|].
  destruct st as [|x st]; [cbn in Hs; lia|]. destruct i as [|i]; cbn; [reflexivity|].
  apply IH; cbn in Hr, Hs; lia.
Qed.

(** all objects resettable (the generated sources): the successor is the power-up configuration,
    whatever the state register and the objects held - also values no run can reach; a wait counter
    without default keeps its value *)
Theorem reset_from_any_config a l rw m n v c k wc rv rest : active rv l = true ->
  fst (mstepZ_rst a l (rs_with rw) m [n; v; c; k; wc] (rv :: rest))
  = [0; 0; 0; 0; if r_rst rw then r_def rw else wc]%Z.
Proof. intros H. rewrite (mstepZ_rst_reset a l _ m n v c k wc rv rest H). reflexivity. Qed.

Theorem reset_from_any_config_all a l m n v c k wc rv rest : active rv l = true ->
  fst (mstepZ_rst a l rs_all m [n; v; c; k; wc] (rv :: rest)) = minitZ.
Proof. intros H. unfold rs_all. rewrite (reset_from_any_config a l _ m n v c k wc rv rest H). reflexivity. Qed.

Theorem reset_then_powerup_trace a l rw p : in_grammar p = true ->
  forall n v c k wc rv rest, active rv l = true ->
  forall ins,
    traceB (mstepZ_rst a l (rs_with rw) (lower p))
           (fst (mstepZ_rst a l (rs_with rw) (lower p) [n; v; c; k; wc] (rv :: rest))) ins
    = traceB (ref_step_rst a l p) rinit ins.
Proof.
  intros Hg n v c k wc rv rest H ins. rewrite (reset_from_any_config a l rw (lower p) n v c k wc rv rest H).
  apply lower_rst_correct_gen. exact Hg.
Qed.

(** arbitrary declarations: two configurations that agree on the objects the reset does not touch
    are indistinguishable after one clock of reset *)
Theorem reset_merges_configs a l rs m n1 v1 c1 k1 w1 n2 v2 c2 k2 w2 rv rest : active rv l = true ->
  apply_reset rs [v1; c1; k1; w1] = apply_reset rs [v2; c2; k2; w2] ->
  forall ins,
    traceB (mstepZ_rst a l rs m) (fst (mstepZ_rst a l rs m [n1; v1; c1; k1; w1] (rv :: rest))) ins
    = traceB (mstepZ_rst a l rs m) (fst (mstepZ_rst a l rs m [n2; v2; c2; k2; w2] (rv :: rest))) ins.
Proof. intros H He ins. rewrite !mstepZ_rst_reset by exact H. rewrite He. reflexivity. Qed.

(** non-vacuity *)
Lemma reset_example :
  in_grammar ex_prog = true /\
  fst (mstepZ_rst true true rs_all (lower ex_prog) [5; 3; 2; 9; 4]%Z [VL false; VL true; VL true]) = minitZ.
Proof. split; vm_compute; reflexivity. Qed.
