(** * Abstract specifications of cohdl.std components (C14, C15, C16) as reference
    machines over [list Z] states, in the observation format of [Equiv.RefTS]. *)
From Coq Require Import ZArith NArith List Bool Lia.
From Cohdl Require Import Base.Bits Vhdl.Value Equiv.RefTS.
Import ListNotations.
Local Open Scope Z_scope.

Definition is_nil {A} (l : list A) : bool := match l with [] => true | _ => false end.

(** ** C14: bounded FIFO queue of capacity N-1.  state = dout :: queue (oldest first).
    inputs [push; pop; din], outputs [dout; empty; full] *)
Definition queue_step (cap : nat) (w : BinNums.N) : rstep := fun st inp =>
  match st, inp with
  | dout :: q, [p; o; dv] =>
      let '(dout', q1) :=
        if vbit o then match q with x :: r => (x, r) | [] => (dout, []) end else (dout, q) in
      let q2 := if vbit p then q1 ++ [vnum dv] else q1 in
      (dout' :: q2, Ok [ouns w dout'; obit (is_nil q2); obit (Nat.eqb (length q2) (cap - 1))])
  | _, _ => (st, Err ETypeError)
  end.

(** documented preconditions: no push when full, no pop when empty (as observed before the clock) *)
Definition queue_assume (cap : nat) : list Z -> list value -> bool := fun st inp =>
  match st, inp with
  | _ :: q, [p; o; _] =>
      implb (vbit p) (Nat.ltb (length q) (cap - 1)) && implb (vbit o) (negb (is_nil q))
  | _, _ => false
  end.

(** ** C14: bounded stack.  state = dout :: stack (top first).
    inputs [push; pop; reset; din] (at most one of push/pop/reset per clock),
    outputs [dout; empty; full; size] *)
Fixpoint drop_last {A} (l : list A) : list A :=
  match l with [] => [] | [_] => [] | x :: r => x :: drop_last r end.

Definition stack_step (cap : nat) (w sw : BinNums.N) (drop_old : bool) : rstep := fun st inp =>
  match st, inp with
  | dout :: s, [p; o; r; dv] =>
      let '(dout', s') :=
        if vbit r then (dout, [])
        else if vbit p then
          (dout, if Nat.ltb (length s) cap then vnum dv :: s
                 else if drop_old then vnum dv :: drop_last s else s)
        else if vbit o then match s with x :: t => (x, t) | [] => (dout, []) end
        else (dout, s) in
      (dout' :: s', Ok [ouns w dout'; obit (is_nil s'); obit (Nat.eqb (length s') cap);
                        ouns sw (Z.of_nat (length s'))])
  | _, _ => (st, Err ETypeError)
  end.

Definition stack_assume (cap : nat) (drop_old : bool) : list Z -> list value -> bool := fun st inp =>
  match st, inp with
  | _ :: s, [p; o; r; _] =>
      let n := (zb (vbit p) + zb (vbit o) + zb (vbit r)) in
      (n <=? 1)
      && implb (vbit p) (drop_old || Nat.ltb (length s) cap)
      && implb (vbit o) (negb (is_nil s))
  | _, _ => false
  end.

(** ** C16: delay line of n steps over w-bit values with initial value i.
    state = the n stored values, newest first; input [x]; output [x delayed by n] *)
Definition delay_step (w : BinNums.N) : rstep := fun st inp =>
  match inp with
  | [x] =>
      let st' := vnum x :: drop_last st in
      (st', Ok [ouns w (last st' 0)])
  | _ => (st, Err ETypeError)
  end.
