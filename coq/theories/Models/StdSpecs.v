(** * Abstract specifications of cohdl.std components (C14, C15, C16) as reference
    machines over [list Z] states, in the observation format of [Equiv.RefTS]. *)
From Coq Require Import ZArith NArith List Bool Lia.
From Cohdl Require Import Base.Bits Vhdl.Value Equiv.RefTS.
Import ListNotations.
Local Open Scope Z_scope.

Definition is_nil {A} (l : list A) : bool := match l with [] => true | _ => false end.

(** ** C14: bounded FIFO queue of capacity N-1.  state = dout :: queue (oldest first).
    inputs [push; pop; din], outputs [dout; empty; full] *)
Definition queue_step (cap : nat) (w : BinNums.N) : rstep := fun st inp =>
  match st, inp with
  | dout :: q, [p; o; dv] =>
      let '(dout', q1) :=
        if vbit o then match q with x :: r => (x, r) | [] => (dout, []) end else (dout, q) in
      let q2 := if vbit p then q1 ++ [vnum dv] else q1 in
      (dout' :: q2, Ok [ouns w dout'; obit (is_nil q2); obit (Nat.eqb (length q2) (cap - 1))])
  | _, _ => (st, Err ETypeError)
  end.

(** documented preconditions: no push when full, no pop when empty (as observed before the clock) *)
Definition queue_assume (cap : nat) : list Z -> list value -> bool := fun st inp =>
  match st, inp with
  | _ :: q, [p; o; _] =>
      implb (vbit p) (Nat.ltb (length q) (cap - 1)) && implb (vbit o) (negb (is_nil q))
  | _, _ => false
  end.

(** ** C14: bounded stack.  state = dout :: stack (top first).
    inputs [push; pop; reset; din] (at most one of push/pop/reset per clock),
    outputs [dout; empty; full; size] *)
Fixpoint drop_last {A} (l : list A) : list A :=
  match l with [] => [] | [_] => [] | x :: r => x :: drop_last r end.

Definition stack_step (cap : nat) (w sw : BinNums.N) (drop_old : bool) : rstep := fun st inp =>
  match st, inp with
  | dout :: s, [p; o; r; dv] =>
      let '(dout', s') :=
        if vbit r then (dout, [])
        else if vbit p then
          (dout, if Nat.ltb (length s) cap then vnum dv :: s
                 else if drop_old then vnum dv :: drop_last s else s)
        else if vbit o then match s with x :: t => (x, t) | [] => (dout, []) end
        else (dout, s) in
      (dout' :: s', Ok [ouns w dout'; obit (is_nil s'); obit (Nat.eqb (length s') cap);
                        ouns sw (Z.of_nat (length s'))])
  | _, _ => (st, Err ETypeError)
  end.

Definition stack_assume (cap : nat) (drop_old : bool) : list Z -> list value -> bool := fun st inp =>
  match st, inp with
  | _ :: s, [p; o; r; _] =>
      let n := (zb (vbit p) + zb (vbit o) + zb (vbit r)) in
      (n <=? 1)
      && implb (vbit p) (drop_old || Nat.ltb (length s) cap)
      && implb (vbit o) (negb (is_nil s))
  | _, _ => false
  end.

(** ** C16: delay line of n steps over w-bit values with initial value i.
    state = the n stored values, newest first; input [x]; output [x delayed by n] *)
Definition delay_step (w : BinNums.N) : rstep := fun st inp =>
  match inp with
  | [x] =>
      let st' := vnum x :: drop_last st in
      (st', Ok [ouns w (last st' 0)])
  | _ => (st, Err ETypeError)
  end.

(** ** C15: one-slot hand-over channel, as a safety monitor with bounded response.
    monitor state [full; data; wait_rx; wait_tx]
    inputs  [send; want; din]   (producer asks to send din / consumer is willing)
    outputs [sent; got; dout]   (pulses raised by the wrapper when it issued set/send resp. consumed)
    rules: a send is only issued when the slot was empty before this clock (a set while set is
    never issued / has no effect); a receive only happens when the slot was full, exactly once per
    send, with the payload unmodified; and (bounded response, bound K) a willing consumer gets a
    pending payload within K clocks, a requesting producer is served within K clocks once the slot
    is empty.  [strict] = the consumer only consumes in a clock in which it is asked to (false for a
    coroutine consumer that stays willing once started). *)
Definition chan_monitor (K : Z) (strict : bool) : list Z -> list value -> list value -> list Z * bool := fun st inp outs =>
  match st, inp, outs with
  | [full; data; wrx; wtx], [send; want; din], [sent; got; dout] =>
      let f := (full =? 1) in
      let bad_sent := vbit sent && f in
      let bad_got := vbit got && (negb f || negb (vnum dout =? data)) in
      let unasked := (vbit sent && negb (vbit send)) || (strict && vbit got && negb (vbit want)) in
      let full1 := if vbit got then 0 else full in
      let '(full2, data2) := if vbit sent then (1, vnum din) else (full1, data) in
      let wrx' := if vbit got then 0 else if f && vbit want then wrx + 1 else 0 in
      let wtx' := if vbit sent then 0 else if negb f && vbit send then wtx + 1 else 0 in
      ([full2; data2; wrx'; wtx'],
       negb bad_sent && negb bad_got && negb unasked && (wrx' <=? K) && (wtx' <=? K))
  | _, _, _ => (st, false)
  end.

(** ** C16: periodic utilities.  All reference machines observe after the clock. *)

(** continuous_counter(ctx, limit): counts 0,1,..,limit,0,...  state [c]; no inputs; output [c] *)
Definition counter_step (w : BinNums.N) (limit : Z) : rstep := fun st _ =>
  match st with
  | [c] => let c' := if c =? limit then 0 else c + 1 in ([c'], Ok [ouns w c'])
  | _ => (st, Err ETypeError)
  end.

(** run-time limit (input [limit]): wraps when the counter has reached or passed the limit *)
Definition counter_rt_step (w : BinNums.N) : rstep := fun st inp =>
  match st, inp with
  | [c], [l] => let c' := if vnum l <=? c then 0 else c + 1 in ([c'], Ok [ouns w c'])
  | _, _ => (st, Err ETypeError)
  end.

(** ClockDivider(ctx, D) with enable/disable requests as inputs [en; dis]:
    the divider is active unless disabled (request registered: takes effect one clock later);
    while active a counter runs modulo D and [state] is the non-default level exactly in the
    step where the counter is 0; [rising]/[falling] are one-step pulses on the edges of [state];
    while disabled everything rests at its default.
    state [off; c; s]   outputs [state; rising; falling] *)
Definition divider_step (D : Z) (default_state tick_at_start : bool) : rstep := fun st inp =>
  match st, inp with
  | [off; c; s], [en; dis] =>
      let off' := if vbit dis then 1 else if vbit en then 0 else off in
      if off =? 1 then
        ([off'; (if tick_at_start then D - 1 else 0); zb default_state],
         Ok [obit default_state; obit false; obit false])
      else
        let c' := if c =? D - 1 then 0 else c + 1 in
        let s' := if c' =? 0 then negb default_state else default_state in
        let sb := (s =? 1) in
        ([off'; c'; zb s'], Ok [obit s'; obit (negb sb && s'); obit (sb && negb s')])
  | _, _ => (st, Err ETypeError)
  end.

(** ToggleSignal(ctx, first, second): [state] holds first_state for [first] steps, then the
    opposite level for [second] steps, periodically; pulses on its edges.
    state [c; s]   no inputs   outputs [state; rising; falling] *)
Definition toggle_step (first second : Z) (default_state first_state : bool) : rstep := fun st _ =>
  match st with
  | [c; s] =>
      let c' := if c =? first + second - 1 then 0 else c + 1 in
      let s' := if c' <? first then first_state else negb first_state in
      let sb := (s =? 1) in
      ([c'; zb s'], Ok [obit s'; obit (negb sb && s'); obit (sb && negb s')])
  | _ => (st, Err ETypeError)
  end.

(** debounce(ctx, inp, period): saturating up/down counter starting at period/2; the output
    becomes '1' in a step with inp='1' and the counter at [period], '0' in a step with inp='0'
    and the counter at 0.  state [cnt; out]  input [inp]  output [out] *)
Definition debounce_step (period : Z) : rstep := fun st inp =>
  match st, inp with
  | [cnt; out], [i] =>
      let '(cnt', out') :=
        if vbit i then (if cnt =? period then (cnt, 1) else (cnt + 1, out))
        else (if cnt =? 0 then (cnt, 0) else (cnt - 1, out)) in
      ([cnt'; out'], Ok [obit (out' =? 1)])
  | _, _ => (st, Err ETypeError)
  end.

(** ** C14: a Fifo whose producer and consumer sit in different contexts (delays configured),
    as a safety monitor.  The wrapper raises [pushed] in a clock in which it accepted a push of
    [din] (it only pushes when it observes not-full) and [popped] in a clock in which it popped
    into [dout] (only when it observes not-empty).
    monitor state: [wait_push; wait_pop] ++ queue (oldest first)
    inputs [push; pop; din]   outputs [pushed; popped; dout]
    rules: elements leave in exactly the order they entered, unmodified, none lost or duplicated;
    a pop never happens on an empty queue; the queue never holds more than [cap-1] elements;
    nothing happens unasked; bounded response: a requested push (pop) is served within K clocks
    while the queue is not full (not empty). *)
Definition fifo_monitor (cap : nat) (K : Z) : list Z -> list value -> list value -> list Z * bool := fun st inp outs =>
  match st, inp, outs with
  | wpu :: wpo :: q, [push; pop; din], [pushed; popped; dout] =>
      let bad_pop := vbit popped && match q with [] => true | x :: _ => negb (x =? vnum dout) end in
      let q1 := if vbit popped then tl q else q in
      let q2 := if vbit pushed then q1 ++ [vnum din] else q1 in
      let over := Nat.ltb (cap - 1) (length q2) in
      let unasked := (vbit pushed && negb (vbit push)) || (vbit popped && negb (vbit pop)) in
      let wpu' := if vbit pushed then 0 else if vbit push && Nat.ltb (length q) (cap - 1) then wpu + 1 else 0 in
      let wpo' := if vbit popped then 0 else if vbit pop && negb (is_nil q) then wpo + 1 else 0 in
      (wpu' :: wpo' :: q2, negb bad_pop && negb over && negb unasked && (wpu' <=? K) && (wpo' <=? K))
  | _, _, _ => (st, false)
  end.

(** ToggleSignal with run-time durations (inputs [first; second], first + second >= 1):
    the counter runs 0 .. first+second-1 (it wraps as soon as it has reached or passed the current
    end), [state] is [first_state] while the counter is below [first].
    state [c; s]   outputs [state; rising; falling] *)
Definition toggle_rt_step (default_state first_state : bool) : rstep := fun st inp =>
  match st, inp with
  | [c; s], [f; g] =>
      let e := vnum f + vnum g - 1 in
      let c' := if e <=? c then 0 else c + 1 in
      let s' := if c' <? vnum f then first_state else negb first_state in
      let sb := (s =? 1) in
      ([c'; zb s'], Ok [obit s'; obit (negb sb && s'); obit (sb && negb s')])
  | _, _ => (st, Err ETypeError)
  end.
Definition toggle_rt_assume : list Z -> list value -> bool := fun _ inp =>
  match inp with [f; g] => 1 <=? vnum f + vnum g | _ => false end.

(** ClockDivider with a run-time period (input [p], p >= 1): counter 0 .. p-1 (wraps when it has
    reached or passed the current end), [state] high exactly in the step where the counter is 0.
    state [c; s]  outputs [state; rising] *)
Definition divider_rt_step : rstep := fun st inp =>
  match st, inp with
  | [c; s], [p] =>
      let e := vnum p - 1 in
      let c' := if e <=? c then 0 else c + 1 in
      let s' := (c' =? 0) in
      ([c'; zb s'], Ok [obit s'; obit (negb (s =? 1) && s')])
  | _, _ => (st, Err ETypeError)
  end.
Definition divider_rt_assume : list Z -> list value -> bool := fun _ inp =>
  match inp with [p] => 1 <=? vnum p | _ => false end.
