(** * Coro: reference semantics of an async process body (property C01).

    "Executing the Python source directly as a coroutine": statements run in
    program order; an await polls once per clock starting the clock after it is
    reached (immediately when it is the very first action of the process); loop
    entry and loop back-edge cost one clock; continue/break/return cost none; a
    finished coroutine restarts on the next clock.  (DESIGN.md, Appendix A.)

    The observable effect statement [Eff k] stands for the source lines
      v @= v + 1 ; self.cnt <<= v ; self.mark <<= k
    (a variable incremented at once, two registered outputs), so a skipped or
    doubled statement changes the trace. *)
From Coq Require Import ZArith NArith List Bool Lia.
From Cohdl Require Import Base.Bits Vhdl.Value.
Import ListNotations.
Local Open Scope Z_scope.

Inductive cond :=
| CIn (i : nat)              (* input bit i is '1' *)
| CNot (c : cond)
| CAnd (a b : cond)
| COr (a b : cond)
| CVar (n : Z).              (* the counter variable equals n *)

Inductive wcond := WTrue | WCond (c : cond).   (* while True / while c *)

Inductive acond := ACond (c : cond) | ATrue | AFalse.   (* await c / await cohdl.true / await cohdl.false *)

Inductive stmt :=
| Skip
| Eff (k : Z)
| Seq (a b : stmt)
| If (c : cond) (t e : stmt)
| While (c : wcond) (b : stmt)
| WhileFalse (b : stmt)                  (* always-false loop: one clock *)
| Await (c : acond)
| Break | Continue | Return
| Call (b : stmt)                        (* await sub_coroutine() *)
| Wait (n : Z)                           (* await std.wait_for(n), n >= 1 a constant (C16) *)
| WaitIn (allow_zero : bool).            (* await std.wait_for(self.dur [, allow_zero=True]), run-time duration *)

Inductive kont :=
| KStop
| KSeq (s : stmt) (k : kont)
| KLoop (c : wcond) (b : stmt) (k : kont)
| KCall (k : kont).

(** where the process sleeps between clocks *)
Inductive ctrl :=
| AtStart
| Polling (c : cond) (k : kont)
| Delay (k : kont)                       (* await true reached in mid-run: resume next clock *)
| LoopHead (c : wcond) (b : stmt) (k : kont)
| Waiting (m : Z) (k : kont)             (* m more clocks to sleep after the next one *)
| Halted
| Stuck.                                 (* ill-formed program (break outside loop ...) or out of fuel *)

Scheme Equality for cond.
Scheme Equality for wcond.
Scheme Equality for acond.
Scheme Equality for stmt.
Scheme Equality for kont.
Scheme Equality for ctrl.

(** widths of the observable objects *)
Definition vw : N := 2.    (* counter variable and cnt output *)
Definition mw : N := 4.    (* mark output *)

Record work := { w_v : Z; w_cnt : Z; w_mark : Z }.

(** inputs of one clock: the condition bits and (C16) the run-time duration port *)
Record cinp := { i_bits : list bool; i_dur : Z }.

Fixpoint ceval (inp : cinp) (v : Z) (c : cond) : bool :=
  match c with
  | CIn i => nth i inp.(i_bits) false
  | CNot a => negb (ceval inp v a)
  | CAnd a b => ceval inp v a && ceval inp v b
  | COr a b => ceval inp v a || ceval inp v b
  | CVar n => v =? n
  end.

Definition oceval (inp : cinp) (v : Z) (c : wcond) : bool :=
  match c with WTrue => true | WCond c => ceval inp v c end.

Definition do_eff (k : Z) (w : work) : work :=
  let v' := wrap vw (w.(w_v) + 1) in {| w_v := v'; w_cnt := v'; w_mark := wrap mw k |}.

(** unwinding the continuation *)
Fixpoint unwind_loop (k : kont) : option (wcond * stmt * kont) :=
  match k with
  | KSeq _ k' => unwind_loop k'
  | KLoop c b k' => Some (c, b, k')
  | KStop | KCall _ => None
  end.

Fixpoint unwind_call (k : kont) : option kont :=
  match k with
  | KSeq _ k' | KLoop _ _ k' => unwind_call k'
  | KCall k' => Some k'
  | KStop => None
  end.

(** [first] = nothing has been placed in the first state yet *)
Fixpoint exec (fuel : nat) (inp : cinp) (s : stmt) (k : kont) (first : bool) (w : work) {struct fuel}
  : ctrl * work :=
  match fuel with
  | O => (Stuck, w)
  | S f =>
    match s with
    | Skip => cont f inp k first w
    | Eff e => cont f inp k false (do_eff e w)
    | Seq a b => exec f inp a (KSeq b k) first w
    | If c t e => exec f inp (if ceval inp w.(w_v) c then t else e) k false w
    | Await (ACond c) =>
        if first then (if ceval inp w.(w_v) c then cont f inp k false w else (Polling c k, w))
        else (Polling c k, w)
    | Await ATrue => if first then cont f inp k true w else (Delay k, w)
    | Await AFalse => (Halted, w)
    | WhileFalse _ => if first then cont f inp k true w else (Delay k, w)
    | While c b =>
        if first then
          (if oceval inp w.(w_v) c then exec f inp b (KLoop c b k) false w else cont f inp k false w)
        else (LoopHead c b k, w)
    | Call b => exec f inp b (KCall k) first w
    | Wait n => if n <=? 1 then (Delay k, w) else (Waiting (n - 2) k, w)
    | WaitIn az =>
        let n := inp.(i_dur) in
        if n =? 0 then (if az then cont f inp k false w else (Stuck, w))
        else if n =? 1 then (Delay k, w) else (Waiting (n - 2) k, w)
    | Break =>
        match unwind_loop k with
        | Some (_, _, k') => cont f inp k' false w
        | None => (Stuck, w)
        end
    | Continue =>
        match unwind_loop k with
        | Some (c, b, k') =>
            if oceval inp w.(w_v) c then exec f inp b (KLoop c b k') false w else cont f inp k' false w
        | None => (Stuck, w)
        end
    | Return =>
        match unwind_call k with
        | Some k' => cont f inp k' false w
        | None => (Stuck, w)
        end
    end
  end
with cont (fuel : nat) (inp : cinp) (k : kont) (first : bool) (w : work) {struct fuel} : ctrl * work :=
  match fuel with
  | O => (Stuck, w)
  | S f =>
    match k with
    | KStop => (AtStart, w)
    | KSeq s k' => exec f inp s k' first w
    | KLoop c b k' => (LoopHead c b k', w)
    | KCall k' => cont f inp k' first w
    end
  end.

Record rstate := { r_ctrl : ctrl; r_v : Z; r_cnt : Z; r_mark : Z }.

Definition ref_fuel : nat := 4096.

Definition clock (prog : stmt) (st : rstate) (inp : cinp) : rstate :=
  let w := {| w_v := st.(r_v); w_cnt := st.(r_cnt); w_mark := st.(r_mark) |} in
  let '(c', w') :=
    match st.(r_ctrl) with
    | AtStart => exec ref_fuel inp prog KStop true w
    | Polling c k => if ceval inp w.(w_v) c then cont ref_fuel inp k false w else (Polling c k, w)
    | Delay k => cont ref_fuel inp k false w
    | Waiting m k => if m <=? 0 then (Delay k, w) else (Waiting (m - 1) k, w)
    | LoopHead c b k =>
        if oceval inp w.(w_v) c then exec ref_fuel inp b (KLoop c b k) false w
        else cont ref_fuel inp k false w
    | Halted => (Halted, w)
    | Stuck => (Stuck, w)
    end in
  {| r_ctrl := c'; r_v := w'.(w_v); r_cnt := w'.(w_cnt); r_mark := w'.(w_mark) |}.

Definition rinit : rstate := {| r_ctrl := AtStart; r_v := 0; r_cnt := 0; r_mark := 0 |}.

(** the reference as a transition system with the same observation type as [Sem.vstep] *)
Definition in_bits (inp : list value) : cinp :=
  {| i_bits := map (fun v => match v with VL b => b | _ => false end) inp;
     i_dur := fold_right (fun v acc => match v with VV _ _ z => z | _ => acc end) 0 inp |}.

Definition ref_step (prog : stmt) (st : rstate) (inp : list value) : rstate * res (list value) :=
  let st' := clock prog st (in_bits inp) in
  (st', match st'.(r_ctrl) with
        | Stuck => Err EFuel
        | _ => Ok [VV KUns vw st'.(r_cnt); VV KUns mw st'.(r_mark)]
        end).

Definition rstate_eqb (a b : rstate) : bool :=
  ctrl_beq a.(r_ctrl) b.(r_ctrl) && (a.(r_v) =? b.(r_v)) && (a.(r_cnt) =? b.(r_cnt)) && (a.(r_mark) =? b.(r_mark)).

Lemma ctrl_beq_ok a b : ctrl_beq a b = true <-> a = b.
Proof. split; [apply internal_ctrl_dec_bl|apply internal_ctrl_dec_lb]. Qed.

Lemma rstate_eqb_ok a b : rstate_eqb a b = true <-> a = b.
Proof.
  destruct a, b; unfold rstate_eqb; cbn.
  rewrite !andb_true_iff, ctrl_beq_ok, !Z.eqb_eq.
  split; [intros [[[-> ->] ->] ->]; reflexivity|intros [= -> -> -> ->]; auto].
Qed.

Definition ctrl_tag (c : ctrl) : Z :=
  match c with AtStart => 0 | Polling _ _ => 1 | Delay _ => 2 | LoopHead _ _ _ => 3 | Halted => 4 | Stuck => 5 | Waiting m _ => 6 + m end.

Definition rhash (s : rstate) : positive :=
  Z.to_pos (1 + ctrl_tag s.(r_ctrl) + 8 * (s.(r_v) + 4 * (s.(r_cnt) + 4 * s.(r_mark)))).
