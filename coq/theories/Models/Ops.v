(** * Ops: compile-time evaluation of the CoHDL primitives (the Python methods AS CODED in
    cohdl/_core/_unsigned.py, _signed.py, _bit_vector.py, _bit.py, _integer.py, _op.py) and the value the
    emitted VHDL computes for the same operation on run-time operands (numeric_std through Vhdl/NumStd.v).

    Operands are (type, Z):  TU n: the unsigned value, TS n: the SIGNED value (to_int), TBV n: the bit
    pattern read as an unsigned number, TBit / TBool: 0 or 1, TInt: a cohdl.Integer, TPy: a Python int. *)
From Coq Require Import ZArith NArith List Bool Lia.
From Cohdl Require Import Base.Bits Vhdl.Value Vhdl.NumStd.
Import ListNotations.
Local Open Scope Z_scope.

Inductive oty := TBit | TBool | TBV (n : N) | TU (n : N) | TS (n : N) | TInt | TPy.

Definition operand := (oty * Z)%type.

(** result of evaluating the Python code *)
Inductive pres :=
| Value (t : oty) (v : Z)
| Undef (t : oty)       (* a freshly constructed, uninitialised object (the division-by-zero result of the vector methods) *)
| Reject                (* AssertionError *)
| NoImpl                (* TypeError / AttributeError / NotImplemented *)
| Raise                 (* any other exception (ValueError: negative shift count, ZeroDivisionError, RuntimeError) *)
| Inexact.              (* float division int(lhs / rhs) outside the range where it is modelled exactly *)

Inductive bop :=
| PAdd | PSub | PMul | PFloorDiv | PTruncDiv | PMod | PRem | PShl | PShr
| PAnd | POr | PXor | PConcat | PEq | PNe | PLt | PLe | PGt | PGe.

Inductive uop :=
| MNeg | MAbs | MInv | MPos | MToBool | MAsU | MAsS | MAsBV | MMsb | MLsb | MToInt | MFromIntU | MFromIntS
| MResize (tw zeros : N) | MMsbN (n : Z) | MLsbN (n : Z) | MIndex (i : Z) | MSlice (hi lo : Z) | MCtor (t : oty).

(** per-defect switches.  Each of the four C09 defects of the round-0 tree has a two-valued switch:
    [Coded] = the method as it was coded in the round-0 tree, [Fixed] = with the corresponding patch
    (/verif/seeded/_proposed_fixes/C09_*.diff).  [current] is the rendering of the CURRENT tree. *)
Inductive mode := Coded | Fixed.

Record cfg := {
  k_rmul : mode;      (* Unsigned.__rmul__: lhs = int(rhs)  ->  int(lhs)                        (fix cdec138) *)
  k_sub : mode;       (* sub negated a narrower right operand at its own width                 (fix 648268b) *)
  k_div : mode;       (* truncdiv / rem through float division int(lhs / rhs) -> exact integers (fix 54fd6e4) *)
  k_mulrange : mode   (* range assertion on an int factor of __mul__/__rmul__: NOT applied (upstream tests fix the
                         width of vector * out-of-range int), the disagreement with numeric_std is a known finding *)
}.
Definition current : cfg := {| k_rmul := Fixed; k_sub := Fixed; k_div := Fixed; k_mulrange := Coded |}.
Definition pinned : cfg := {| k_rmul := Coded; k_sub := Coded; k_div := Coded; k_mulrange := Coded |}.
Definition patched : cfg := {| k_rmul := Fixed; k_sub := Fixed; k_div := Fixed; k_mulrange := Fixed |}.

Definition oty_eqb (a b : oty) : bool :=
  match a, b with
  | TBit, TBit | TBool, TBool | TInt, TInt | TPy, TPy => true
  | TBV n, TBV m | TU n, TU m | TS n, TS m => (n =? m)%N
  | _, _ => false
  end.

Definition pres_eqb (a b : pres) : bool :=
  match a, b with
  | Value t v, Value t' v' => oty_eqb t t' && (v =? v')
  | Undef t, Undef t' => oty_eqb t t'
  | Reject, Reject | NoImpl, NoImpl | Raise, Raise | Inexact, Inexact => true
  | _, _ => false
  end.

Definition is_num (t : oty) : bool := match t with TInt | TPy => true | _ => false end.
Definition is_vec (t : oty) : bool := match t with TBV _ | TU _ | TS _ => true | _ => false end.
Definition vwidth (t : oty) : N := match t with TBV n | TU n | TS n => n | _ => 0%N end.

(** bit pattern of a vector operand *)
Definition rep (t : oty) (v : Z) : Z := match t with TS n => wrap n v | _ => v end.
(** value of a vector of type t with bit pattern r *)
Definition unrep (t : oty) (r : Z) : Z := match t with TS n => sval n r | _ => r end.

(** constructors with their range assertion *)
Definition mkUv (w : N) (z : Z) : pres := if (0 <=? z) && (z <? pow2 w) then Value (TU w) z else Reject.
Definition mkSv (w : N) (z : Z) : pres :=
  if (- pow2 (w - 1) <=? z) && (z <? pow2 (w - 1)) then Value (TS w) z else Reject.

(** int(a / b), b <> 0: exact (= truncation) while both operands convert exactly to a double *)
Definition exact53 (a b : Z) : bool := (Z.abs a <? 2 ^ 53) && (Z.abs b <? 2 ^ 53).
Definition fdiv (m : mode) (a b : Z) : option Z :=
  match m with
  | Fixed => Some (Z.quot a b)
  | Coded => if exact53 a b then Some (Z.quot a b) else None
  end.
Definition frem (m : mode) (a b : Z) : option Z :=
  match fdiv m a b with Some q => Some (a - b * q) | None => None end.

(** *** Unsigned / Signed helpers *)
(* Unsigned.add with an int: rhs % 2**w, from_int never exceeds the width *)
Definition u_add_int (w : N) (a n : Z) : pres := Value (TU w) (wrap w (a + wrap w n)).
(* -x = ~x + 1 at the width of x *)
Definition u_neg (w : N) (a : Z) : Z := wrap w (pow2 w - a).
Definition bit_length (n : Z) : Z := if n =? 0 then 0 else Z.log2 (Z.abs n) + 1.
Definition is_pow2 (n : Z) : bool := (0 <? n) && (2 ^ Z.log2 n =? n).
(* width chosen by Signed.from_int *)
Definition s_from_int_width (n : Z) : Z :=
  if (0 <=? n) || negb (is_pow2 (Z.abs n)) then bit_length n + 1 else bit_length n.
(* Signed.add with an int: the width assertion applies only without an explicit target width *)
Definition s_add_int (w : N) (a n : Z) (explicit_tw : bool) : pres :=
  if explicit_tw || (s_from_int_width n <=? Z.of_N w) then Value (TS w) (sval w (wrap w (a + n))) else Reject.
(* Signed.__neg__: a copy for width 1, otherwise ~x + 1 *)
Definition s_neg (w : N) (a : Z) : Z := if (w =? 1)%N then a else sval w (wrap w (- a)).

Definition u_truncdiv (m : mode) (w : N) (a n : Z) : pres :=
  if n =? 0 then Undef (TU w) else mkUv w (a / n).       (* lhs // rhs: exact integer arithmetic in both modes *)
Definition s_truncdiv (m : mode) (w : N) (a n : Z) : pres :=
  if n =? 0 then Undef (TS w)
  else match fdiv m a n with Some q => mkSv w q | None => Inexact end.
Definition u_rem (m : mode) (w : N) (a n : Z) : pres :=
  if n =? 0 then Undef (TU w) else match frem m a n with Some r => mkUv w r | None => Inexact end.
Definition s_rem (m : mode) (w : N) (a n : Z) : pres :=
  if n =? 0 then Undef (TS w) else match frem m a n with Some r => mkSv w r | None => Inexact end.
Definition u_mod (w : N) (a n : Z) : pres := if n =? 0 then Undef (TU w) else mkUv w (a mod n).
Definition s_mod (w : N) (a n : Z) : pres := if n =? 0 then Undef (TS w) else mkSv w (a mod n).

(** *** binary operators *)
Definition py_add (a b : operand) : pres :=
  let '(ta, va) := a in let '(tb, vb) := b in
  match ta, tb with
  | TU w, (TInt | TPy) => u_add_int w va vb
  | TU w, TU w2 => Value (TU (N.max w w2)) (wrap (N.max w w2) (va + vb))
  | TS w, (TInt | TPy) => s_add_int w va vb false
  | TS w, TS w2 => Value (TS (N.max w w2)) (sval (N.max w w2) (wrap (N.max w w2) (va + vb)))
  | TInt, (TInt | TPy) | TPy, TInt => Value TInt (va + vb)
  | (TInt | TPy), TU w => u_add_int w vb va          (* __radd__ *)
  | (TInt | TPy), TS w => s_add_int w vb va false
  | _, _ => NoImpl
  end.

(* n - b = lhs + -self *)
Definition py_rsub (tb : oty) (vb n : Z) : pres :=
  match tb with
  | TU w => u_add_int w (u_neg w vb) n
  | TS w => s_add_int w (s_neg w vb) n false
  | _ => NoImpl
  end.

Definition py_sub (m : mode) (a b : operand) : pres :=
  let '(ta, va) := a in let '(tb, vb) := b in
  match ta, tb with
  | TU w, (TInt | TPy) => u_add_int w va (- wrap w vb)
  | TU w, TU w2 =>
      let tw := N.max w w2 in
      match m with
      | Coded => Value (TU tw) (wrap tw (va + u_neg w2 vb))     (* the negation happens at the rhs width *)
      | Fixed => Value (TU tw) (wrap tw (va - vb))
      end
  | TS w, (TInt | TPy) => s_add_int w va (- vb) true
  | TS w, TS w2 =>
      let tw := N.max w w2 in
      match m with
      | Coded => Value (TS tw) (sval tw (wrap tw (va + s_neg w2 vb)))
      | Fixed => Value (TS tw) (sval tw (wrap tw (va - vb)))
      end
  | TInt, (TInt | TPy) | TPy, TInt => Value TInt (va - vb)
  | (TInt | TPy), (TU _ | TS _) => py_rsub tb vb va
  | _, _ => NoImpl
  end.

(** [k_mulrange = Fixed]: an int factor must be representable at the vector's width (numeric_std converts it to that width) *)
Definition int_fits_u (w : N) (n : Z) : bool := (0 <=? n) && (n <? pow2 w).
Definition int_fits_s (w : N) (n : Z) : bool := (- pow2 (w - 1) <=? n) && (n <? pow2 (w - 1)).

Definition py_mul (mr m : mode) (a b : operand) : pres :=
  let '(ta, va) := a in let '(tb, vb) := b in
  match ta, tb with
  | TU w, TU w2 => mkUv (w + w2) (va * vb)
  | TU w, (TInt | TPy) =>
      match m with Coded => mkUv (w + w) (va * vb)
                 | Fixed => if int_fits_u w vb then mkUv (w + w) (va * vb) else Reject end
  | TS w, TS w2 => mkSv (w + w2) (va * vb)
  | TS w, (TInt | TPy) =>
      match m with Coded => mkSv (w + w) (va * vb)
                 | Fixed => if int_fits_s w vb then mkSv (w + w) (va * vb) else Reject end
  | TInt, (TInt | TPy) => Value TInt (va * vb)
  | (TInt | TPy), TU w =>
      let prod := match mr with Coded => vb * vb                 (* __rmul__: lhs = int(rhs) *)
                              | Fixed => va * vb end in
      match m with Coded => mkUv (w + w) prod
                 | Fixed => if int_fits_u w va then mkUv (w + w) prod else Reject end
  | (TInt | TPy), TS w =>
      match m with Coded => mkSv (w + w) (va * vb)
                 | Fixed => if int_fits_s w va then mkSv (w + w) (va * vb) else Reject end
  | _, _ => NoImpl      (* including int * Integer: Integer has no __rmul__ *)
  end.

Definition int_div (m : mode) (t : oty) (va vb : Z) : pres :=
  match fdiv m va vb with Some q => Value t q | None => Inexact end.

Definition py_truncdiv (m : mode) (a b : operand) : pres :=
  let '(ta, va) := a in let '(tb, vb) := b in
  match ta, tb with
  | TPy, TPy => if vb =? 0 then Raise else int_div m TPy va vb
  | TU w, (TU _ | TInt | TPy) => u_truncdiv m w va vb
  | TS w, (TS _ | TInt | TPy) => s_truncdiv m w va vb
  | TInt, (TInt | TPy) => if vb =? 0 then Value TInt 0 else int_div m TInt va vb
  | (TInt | TPy), TU w => u_truncdiv m w va vb       (* _cohdl_rtruncdiv_ *)
  | (TInt | TPy), TS w => s_truncdiv m w va vb
  | _, _ => NoImpl
  end.

Definition py_floordiv (m : mode) (a b : operand) : pres :=
  let '(ta, va) := a in let '(tb, vb) := b in
  match ta, tb with
  | TU w, (TInt | TPy | TS _) => Reject
  | TU w, TU _ => u_truncdiv m w va vb
  | TU _, _ => NoImpl
  | (TS _ | TInt), _ => Reject
  | _, (TS _ | TInt) => Reject                        (* reflected __rfloordiv__ *)
  | TPy, TU _ => Reject
  | _, _ => NoImpl
  end.

Definition py_mod (a b : operand) : pres :=
  let '(ta, va) := a in let '(tb, vb) := b in
  match ta, tb with
  | TU w, TU w2 => u_mod w2 va vb
  | TU w, (TInt | TPy) => u_mod w va vb
  | TS w, TS w2 => s_mod w2 va vb
  | TS w, (TInt | TPy) => s_mod w va vb
  | TInt, (TInt | TPy) => if vb =? 0 then Value TInt 0 else Value TInt (va mod vb)
  | (TInt | TPy), TU w => u_mod w va vb
  | (TInt | TPy), TS w => s_mod w va vb
  | _, _ => NoImpl
  end.

Definition py_rem (m : mode) (a b : operand) : pres :=
  let '(ta, va) := a in let '(tb, vb) := b in
  match ta, tb with
  | TPy, TPy => if vb =? 0 then Raise else match frem m va vb with Some r => Value TPy r | None => Inexact end
  | TU w, TU w2 => u_rem m w2 va vb
  | TU w, (TInt | TPy) => u_rem m w va vb
  | TS w, TS w2 => s_rem m w2 va vb
  | TS w, (TInt | TPy) => s_rem m w va vb
  | TInt, (TInt | TPy) =>
      if vb =? 0 then Value TInt 0 else match frem m va vb with Some r => Value TInt r | None => Inexact end
  | (TInt | TPy), TU w => u_rem m w va vb
  | (TInt | TPy), TS w => s_rem m w va vb
  | _, _ => NoImpl
  end.

(** shifts: int(rhs) works for int, Integer and Unsigned (__index__) *)
Definition shift_count (b : operand) : option Z :=
  match fst b with TPy | TInt | TU _ => Some (snd b) | _ => None end.

Definition py_shl (a b : operand) : pres :=
  let '(ta, va) := a in
  match ta, shift_count b with
  | (TU w | TS w), Some n =>
      if n <? 0 then Raise
      else let r := wrap w (shl_z w va n) in Value ta (unrep ta r)
  | _, _ => NoImpl
  end.

Definition py_shr (a b : operand) : pres :=
  let '(ta, va) := a in
  match ta, shift_count b with
  | (TU w | TS w), Some n => if n <? 0 then Raise else Value ta (shr_z w va n)
  | _, _ => NoImpl
  end.

Definition py_logic (op : binop) (a b : operand) : pres :=
  let '(ta, va) := a in let '(tb, vb) := b in
  match ta, tb with
  | (TBV _ | TU _ | TS _), (TBV _ | TU _ | TS _) =>
      if oty_eqb ta tb then Value ta (unrep ta (logic_z op (rep ta va) (rep tb vb))) else Reject
  | TBit, TBit => Value TBit (logic_z op va vb)
  | TBit, TInt =>
      (* BitState op int through Integer._val: an accident of duck typing *)
      Value TBit (match op with OAnd | OOr => va | _ => 1 end)
  | TInt, (TInt | TPy) | TPy, TInt => Value TInt (logic_z op va vb)
  | _, _ => NoImpl
  end.

Definition py_concat (a b : operand) : pres :=
  let '(ta, va) := a in let '(tb, vb) := b in
  match ta, tb with
  | (TBV w | TU w | TS w), TBit => Value (TBV (w + 1)) (rep ta va * 2 + vb)
  | (TBV w | TU w | TS w), (TBV w2 | TU w2 | TS w2) => Value (TBV (w + w2)) (rep ta va * pow2 w2 + rep tb vb)
  | TBit, TBit => Value (TBV 2) (va * 2 + vb)
  | TBit, (TBV w2 | TU w2 | TS w2) => Value (TBV (w2 + 1)) (va * pow2 w2 + rep tb vb)
  | (TBV _ | TU _ | TS _ | TBit), _ => NoImpl
  | _, (TBV _ | TU _ | TS _) => Reject               (* reflected __rmatmul__ asserts a Bit *)
  | _, _ => NoImpl
  end.

Definition bz (b : bool) : Z := if b then 1 else 0.

Definition py_cmp (op : binop) (a b : operand) : pres :=
  let '(ta, va) := a in let '(tb, vb) := b in
  let iseq := is_eqop op in
  let ident := Value TBool (match op with OEq => 0 | _ => 1 end) in    (* identity fallback of == and != *)
  let num := Value TBool (bz (cmp_z op va vb)) in
  match ta, tb with
  | TPy, TPy => NoImpl                                (* plain Python, not generated *)
  | TU _, (TU _ | TInt | TPy) | TS _, (TS _ | TInt | TPy) => num
  | (TInt | TPy), (TU _ | TS _ | TInt) | TInt, TPy => num
  | TBV w, TBV w2 => if iseq then (if (w =? w2)%N then num else Reject) else NoImpl
  | TBV _, _ | _, TBV _ => if iseq then Reject else NoImpl
  | TBit, TBit => if iseq then num else NoImpl
  | TBool, TBool => num                               (* Python bools compare as the numbers 0 / 1 *)
  | TBit, TPy | TPy, TBit => if iseq then Reject else NoImpl
  | _, _ => if iseq then ident else NoImpl
  end.

Definition py_bin (c : cfg) (op : bop) (a b : operand) : pres :=
  match op with
  | PAdd => py_add a b
  | PSub => py_sub (k_sub c) a b
  | PMul => py_mul (k_rmul c) (k_mulrange c) a b
  | PFloorDiv => py_floordiv (k_div c) a b
  | PTruncDiv => py_truncdiv (k_div c) a b
  | PMod => py_mod a b
  | PRem => py_rem (k_div c) a b
  | PShl => py_shl a b
  | PShr => py_shr a b
  | PAnd => py_logic OAnd a b
  | POr => py_logic OOr a b
  | PXor => py_logic OXor a b
  | PConcat => py_concat a b
  | PEq => py_cmp OEq a b
  | PNe => py_cmp ONe a b
  | PLt => py_cmp OLt a b
  | PLe => py_cmp OLe a b
  | PGt => py_cmp OGt a b
  | PGe => py_cmp OGe a b
  end.

(** *** unary operators, views, methods, constructors *)
Definition py_ctor (t : oty) (a : operand) : pres :=
  let '(ta, va) := a in
  match t, ta with
  | TU w, (TInt | TPy) => mkUv w va
  | TU w, TU w2 => if (w2 <=? w)%N then Value (TU w) va else Reject
  | TU w, TBV w2 => if (w2 =? w)%N then Value (TU w) va else Reject
  | TS w, (TInt | TPy) => mkSv w va
  | TS w, TS w2 => if (w2 <=? w)%N then Value (TS w) va else Reject
  | TS w, TU w2 => if (w2 <? w)%N then Value (TS w) va else Reject
  | TS w, TBV w2 => if (w2 =? w)%N then Value (TS w) (sval w va) else Reject
  | TBV w, (TBV w2 | TU w2 | TS w2) => if (w2 =? w)%N then Value (TBV w) (rep ta va) else Reject
  | TBit, TBit => Value TBit va
  | TBit, (TInt | TPy) => if (va =? 0) || (va =? 1) then Value TBit va else Reject
  | TInt, (TInt | TPy) => Value TInt va
  | _, _ => Reject
  end.

Definition py_un (op : uop) (a : operand) : pres :=
  let '(ta, va) := a in
  match op with
  | MNeg => match ta with
           | TU w => Value ta (u_neg w va) | TS w => Value ta (s_neg w va) | TInt => Value TInt (- va)
           | _ => NoImpl end
  | MAbs => match ta with TS w => Value ta (if 0 <=? va then va else s_neg w va) | _ => NoImpl end
  | MInv => match ta with
           | TBV w | TU w | TS w => Value ta (unrep ta (ones w - rep ta va))
           | TBit => Value TBit (1 - va)
           | _ => NoImpl end
  | MPos => match ta with TInt => Value TInt va | _ => NoImpl end
  | MToBool => Value TBool (bz (negb (va =? 0)))
  | MAsU => match ta with TBV w | TU w | TS w => Value (TU w) (rep ta va) | _ => NoImpl end
  | MAsS => match ta with TBV w | TU w | TS w => Value (TS w) (sval w (rep ta va)) | _ => NoImpl end
  | MAsBV => match ta with TBV w | TU w | TS w => Value (TBV w) (rep ta va) | _ => NoImpl end
  | MMsb => match ta with TBV w | TU w | TS w => Value TBit (getslice (rep ta va) (w - 1) 1) | _ => NoImpl end
  | MLsb => match ta with TBV w | TU w | TS w => Value TBit (getslice (rep ta va) 0 1) | _ => NoImpl end
  | MToInt => match ta with TU _ | TS _ => Value TPy va | _ => NoImpl end
  | MFromIntU => if is_num ta then (if va <? 0 then Reject else Value (TU (Z.to_N (bit_length (Z.max va 1)))) va)
                else Reject
  | MFromIntS => if is_num ta then Value (TS (Z.to_N (s_from_int_width va))) va else NoImpl
  | MResize tw z =>
      match ta with
      | TU w | TS w => if (w + z <=? tw)%N then Value (match ta with TU _ => TU tw | _ => TS tw end) (va * pow2 z)
                       else Reject
      | _ => NoImpl end
  | MMsbN n =>
      match ta with
      | TBV w | TU w | TS w =>
          if (1 <=? n) && (n <=? Z.of_N w) then Value (TBV (Z.to_N n)) (getslice (rep ta va) (w - Z.to_N n) (Z.to_N n))
          else Reject
      | _ => NoImpl end
  | MLsbN n =>
      match ta with
      | TBV w | TU w | TS w =>
          if (1 <=? n) && (n <=? Z.of_N w) then Value (TBV (Z.to_N n)) (getslice (rep ta va) 0 (Z.to_N n)) else Reject
      | _ => NoImpl end
  | MIndex i =>
      match ta with
      | TBV w | TU w | TS w =>
          if (0 <=? i) && (i <? Z.of_N w) then Value TBit (getslice (rep ta va) (Z.to_N i) 1) else Reject
      | _ => NoImpl end
  | MSlice hi lo =>
      match ta with
      | TBV w | TU w | TS w =>
          if hi <? lo then Raise
          else if (0 <=? lo) && (hi <? Z.of_N w)
               then Value (TBV (Z.to_N (hi - lo + 1))) (getslice (rep ta va) (Z.to_N lo) (Z.to_N (hi - lo + 1)))
               else Reject
      | _ => NoImpl end
  | MCtor t => py_ctor t a
  end.

(** ** the run-time side: what the emitted VHDL computes (BinOp / UnaryOp / Compare / format_cast of
    cohdl/_compiler/backend/vhdl/_vhdl_repr.py) on signals holding the operand values *)
Definition to_v (a : operand) : value :=
  let '(t, v) := a in
  match t with
  | TU n => VV KUns n v
  | TS n => VV KSgn n (wrap n v)
  | TBV n => VV KSlv n v
  | TBit => VL (negb (v =? 0))
  | TBool => VB (negb (v =? 0))
  | TInt | TPy => VI v
  end.

Definition slv (x : value) : res value := match x with VV _ _ _ => eval_fn1 FConvSlv x | _ => Ok x end.

Definition rt_bin (op : bop) (a b : operand) : res value :=
  let x := to_v a in let y := to_v b in
  match op with
  | PAdd => eval_binop OAdd x y
  | PSub => eval_binop OSub x y
  | PMul => eval_binop OMul x y
  | PTruncDiv => eval_binop ODiv x y
  | PFloorDiv => match x, y with VV KUns _ _, VV KUns _ _ => eval_binop ODiv x y | _, _ => Err ETypeError end
  | PMod => eval_binop OMod x y
  | PRem => eval_binop ORem x y
  | PShl => do n <- (match y with VI _ => Ok y | _ => eval_fn1 FToInteger y end); eval_fn2 FShl x n
  | PShr => do n <- (match y with VI _ => Ok y | _ => eval_fn1 FToInteger y end); eval_fn2 FShr x n
  | PAnd => eval_binop OAnd x y
  | POr => eval_binop OOr x y
  | PXor => eval_binop OXor x y
  | PConcat => do x' <- slv x; do y' <- slv y; eval_binop OConcat x' y'      (* the .bitvector casts of BinOp.write *)
  | PEq => eval_binop OEq x y
  | PNe => eval_binop ONe x y
  | PLt => eval_binop OLt x y
  | PLe => eval_binop OLe x y
  | PGt => eval_binop OGt x y
  | PGe => eval_binop OGe x y
  end.

Definition rt_slice (x : value) (lo len : Z) : res value :=
  match x with
  | VV _ w v => if (0 <=? lo) && (1 <=? len) && (lo + len <=? Z.of_N w)
                then Ok (VV KSlv (Z.to_N len) (getslice v (Z.to_N lo) (Z.to_N len))) else Err ERange
  | _ => Err ETypeError
  end.
Definition rt_bit (x : value) (i : Z) : res value :=
  match x with
  | VV _ w v => if (0 <=? i) && (i <? Z.of_N w) then Ok (VL (negb (getslice v (Z.to_N i) 1 =? 0))) else Err ERange
  | _ => Err ETypeError
  end.

Definition rt_ctor (t : oty) (x : value) : res value :=
  match t, x with
  | TU w, VI _ => eval_fn2 FToUnsigned x (VI (Z.of_N w))
  | TU w, VV KUns _ _ => eval_fn2 FResize x (VI (Z.of_N w))
  | TU w, VV KSlv w2 _ => if (w2 =? w)%N then eval_fn1 FConvUns x else Err EWidth
  | TS w, VI _ => eval_fn2 FToSigned x (VI (Z.of_N w))
  | TS w, VV KSgn _ _ => eval_fn2 FResize x (VI (Z.of_N w))
  | TS w, VV KUns _ _ => do r <- eval_fn2 FResize x (VI (Z.of_N w)); eval_fn1 FConvSgn r
  | TS w, VV KSlv w2 _ => if (w2 =? w)%N then eval_fn1 FConvSgn x else Err EWidth
  | TBV w, VV _ w2 _ => if (w2 =? w)%N then eval_fn1 FConvSlv x else Err EWidth
  | TBit, VL _ => Ok x
  | TInt, VI _ => Ok x
  | _, _ => Err ETypeError
  end.

Definition rt_un (op : uop) (a : operand) : res value :=
  let x := to_v a in
  match op with
  | MNeg => eval_unop UNeg x
  | MAbs => eval_unop UAbs x
  | MInv => eval_unop UNot x
  | MPos => match x with VI _ => Ok x | _ => Err ETypeError end
  | MToBool =>                                        (* format_cast to bool *)
      match x with
      | VV KSlv w _ => eval_binop ONe x (VV KSlv w 0)
      | VV _ _ _ | VI _ => eval_binop ONe x (VI 0)
      | VL _ => eval_binop OEq x (VL true)
      | _ => Err ETypeError
      end
  | MAsU => eval_fn1 FConvUns x
  | MAsS => eval_fn1 FConvSgn x
  | MAsBV => eval_fn1 FConvSlv x
  | MMsb => rt_bit x (Z.of_N (vwidth (fst a)) - 1)
  | MLsb => rt_bit x 0
  | MToInt => eval_fn1 FToInteger x
  | MFromIntU | MFromIntS => Err ETypeError             (* the width depends on the value: compile time only *)
  | MResize tw z =>
      match x with
      | VV KSlv _ _ => Err ETypeError
      | VV k _ _ =>
          if (z =? 0)%N then eval_fn2 FResize x (VI (Z.of_N tw))
          else do s <- slv x; do p <- eval_binop OConcat s (VV KSlv z 0);
               do q <- eval_fn1 (match k with KUns => FConvUns | _ => FConvSgn end) p;
               eval_fn2 FResize q (VI (Z.of_N tw))
      | _ => Err ETypeError
      end
  | MMsbN n => rt_slice x (Z.of_N (vwidth (fst a)) - n) n
  | MLsbN n => rt_slice x 0 n
  | MIndex i => rt_bit x i
  | MSlice hi lo => rt_slice x lo (hi - lo + 1)
  | MCtor t => rt_ctor t x
  end.

(** ** the documented result type *)
Definition spec_ty (op : bop) (ta tb : oty) : option oty :=
  match op with
  | PAdd | PSub =>
      match ta, tb with
      | TU w, TU w2 => Some (TU (N.max w w2)) | TS w, TS w2 => Some (TS (N.max w w2))
      | TU w, (TInt | TPy) | (TInt | TPy), TU w => Some (TU w)
      | TS w, (TInt | TPy) | (TInt | TPy), TS w => Some (TS w)
      | (TInt | TPy), (TInt | TPy) => Some TInt
      | _, _ => None end
  | PMul =>
      match ta, tb with
      | TU w, TU w2 => Some (TU (w + w2)) | TS w, TS w2 => Some (TS (w + w2))
      | TU w, (TInt | TPy) | (TInt | TPy), TU w => Some (TU (w + w))
      | TS w, (TInt | TPy) | (TInt | TPy), TS w => Some (TS (w + w))
      | (TInt | TPy), (TInt | TPy) => Some TInt
      | _, _ => None end
  | PFloorDiv | PTruncDiv =>                           (* width of the dividend *)
      match ta, tb with
      | TU w, (TU _ | TInt | TPy) => Some (TU w) | TS w, (TS _ | TInt | TPy) => Some (TS w)
      | (TInt | TPy), TU w => Some (TU w) | (TInt | TPy), TS w => Some (TS w)
      | TPy, TPy => Some TPy
      | TInt, (TInt | TPy) | TPy, TInt => Some TInt
      | _, _ => None end
  | PMod | PRem =>                                     (* width of the divisor *)
      match ta, tb with
      | TU _, TU w | (TInt | TPy), TU w | TU w, (TInt | TPy) => Some (TU w)
      | TS _, TS w | (TInt | TPy), TS w | TS w, (TInt | TPy) => Some (TS w)
      | TPy, TPy => Some TPy
      | TInt, (TInt | TPy) | TPy, TInt => Some TInt
      | _, _ => None end
  | PShl | PShr => match ta with TU _ | TS _ => Some ta | _ => None end
  | PAnd | POr | PXor => if oty_eqb ta tb then Some ta else match ta, tb with TInt, TPy | TPy, TInt => Some TInt | _, _ => None end
  | PConcat =>
      match ta, tb with
      | (TBV w | TU w | TS w), (TBV w2 | TU w2 | TS w2) => Some (TBV (w + w2))
      | (TBV w | TU w | TS w), TBit => Some (TBV (w + 1))
      | TBit, (TBV w | TU w | TS w) => Some (TBV (w + 1))
      | TBit, TBit => Some (TBV 2)
      | _, _ => None end
  | PEq | PNe | PLt | PLe | PGt | PGe => Some TBool
  end.

(** ** cases of the correspondence run (harness/c09.py) *)
Inductive ccase :=
| CB (op : bop) (a b : operand) (r : pres)
| CU (op : uop) (a : operand) (r : pres).

(** the model predicts the recorded result (anything is accepted where the model says [Inexact]) *)
Definition model_ok (m : cfg) (c : ccase) : bool :=
  match c with
  | CB op a b r => match py_bin m op a b with Inexact => true | p => pres_eqb p r end
  | CU op a r => match py_un op a with Inexact => true | p => pres_eqb p r end
  end.

(** the property on the recorded result: a folded value equals what the hardware computes
    (vacuous where the emitted operation is an error at run time) *)
Definition agrees (r : pres) (h : res value) : bool :=
  match r, h with
  | Value t v, Ok x => value_eqb (to_v (t, v)) x
  | _, _ => true
  end.
Definition spec_ok (c : ccase) : bool :=
  match c with
  | CB op a b r => agrees r (rt_bin op a b)
  | CU op a r => agrees r (rt_un op a)
  end.
(** folded to a value although the run-time operation is an error *)
Definition rt_undefined (c : ccase) : bool :=
  match c with
  | CB op a b (Value _ _) => match rt_bin op a b with Err _ => true | _ => false end
  | CU op a (Value _ _) => match rt_un op a with Err _ => true | _ => false end
  | _ => false
  end.
(** the documented result type *)
Definition type_ok (c : ccase) : bool :=
  match c with
  | CB op a b (Value t _) =>
      match spec_ty op (fst a) (fst b) with
      | Some t' => oty_eqb t t' || (match t, t' with TInt, TPy | TPy, TInt => true | _, _ => false end)
      | None => true end
  | _ => true
  end.

(** well-formed operands *)
Definition wf (a : operand) : Prop :=
  let '(t, v) := a in
  match t with
  | TU n | TBV n => (0 < n)%N /\ 0 <= v < pow2 n
  | TS n => (0 < n)%N /\ - pow2 (n - 1) <= v < pow2 (n - 1)
  | TBit | TBool => v = 0 \/ v = 1
  | TInt | TPy => True
  end.
