(** * TimingRtProofs: for EVERY period (debounce), every port width and every admissible input sequence
    (run-time limit of continuous_counter, run-time durations of ToggleSignal / ClockDivider) the as-coded
    models of [Models.TimingRt] coincide with the specification machines of [Models.StdSpecs]
    ([debounce_step], [counter_rt_step], [toggle_rt_step], [divider_rt_step]); the register widths chosen by
    the code suffice (no wrap ever happens); exactness corollaries in the words of property C16. *)
From Coq Require Import ZArith NArith List Bool Lia.
From Cohdl Require Import Base.Bits Vhdl.Value Equiv.Explore Equiv.RefTS Models.StdSpecs Models.Ring
  Models.RingProofs Models.TimingAll Models.TimingAllProofs Models.TimingRt.
Import ListNotations.
Local Open Scope Z_scope.

(** ** generic *)

(** refinement by invariant + abstraction, for input sequences all of whose elements satisfy [P] *)
Lemma sim_traces_in (stepM stepS : rstep) (P : list value -> Prop) (Inv : list Z -> Prop) (abs : list Z -> list Z) :
  (forall st inp, Inv st -> P inp ->
     Inv (fst (stepM st inp)) /\ abs (fst (stepM st inp)) = fst (stepS (abs st) inp) /\
     snd (stepM st inp) = snd (stepS (abs st) inp)) ->
  forall ins st, Inv st -> Forall P ins -> traceB stepM st ins = traceB stepS (abs st) ins.
Proof.
  intros Hsim. induction ins as [|i r IH]; intros st Hinv HP; [reflexivity|].
  inversion HP as [|? ? Hi Hr]; subst.
  destruct (Hsim st i Hinv Hi) as (Hinv' & Habs & Hout). cbn [traceB].
  destruct (stepM st i) as [st' o] eqn:E1. destruct (stepS (abs st) i) as [q' o'] eqn:E2.
  cbn [fst snd] in *. subst. f_equal. apply IH; assumption.
Qed.

(** the state after an input sequence *)
Fixpoint runB (step : rstep) (st : list Z) (ins : list (list value)) : list Z :=
  match ins with [] => st | i :: r => runB step (fst (step st i)) r end.

Lemma traceB_app (step : rstep) : forall a b st,
  traceB step st (a ++ b) = traceB step st a ++ traceB step (runB step st a) b.
Proof.
  induction a as [|i r IH]; intros b st; [reflexivity|].
  cbn [app traceB runB]. destruct (step st i) as [st' o]. cbn [fst]. rewrite IH. reflexivity.
Qed.

Lemma runB_inv (step : rstep) (P : list value -> Prop) (Inv : list Z -> Prop) :
  (forall st inp, Inv st -> P inp -> Inv (fst (step st inp))) ->
  forall ins st, Inv st -> Forall P ins -> Inv (runB step st ins).
Proof.
  intros H. induction ins as [|i r IH]; intros st Hi HP; [exact Hi|].
  inversion HP; subst. cbn [runB]. apply IH; [apply H|]; assumption.
Qed.

(** ** widths *)

(** a value up to [n] fits the type [Unsigned.upto(n)] *)
Lemma upto_wrap_small n x : 0 <= x <= n -> wrap (upto_width n) x = x.
Proof.
  intros Hx. apply wrap_small. unfold upto_width. destruct (Z.eqb_spec n 0) as [->|Hn].
  - assert (x = 0) by lia. subst x. split; [lia|reflexivity].
  - pose proof (bit_length_gt n ltac:(lia)). lia.
Qed.

Lemma upto_width_ge1 n : 0 <= n -> (1 <= upto_width n)%N.
Proof.
  intros Hn. unfold upto_width. destruct (Z.eqb_spec n 0) as [->|H0]; [cbn; lia|].
  destruct n as [|p|p]; try lia. unfold bit_length. lia.
Qed.

Lemma pow2_ge2 w : (1 <= w)%N -> 2 <= pow2 w.
Proof. intros Hw. pose proof (pow2_le 1 w Hw) as H. change (pow2 1) with 2 in H. exact H. Qed.

(** [Unsigned.upto(max_int(Unsigned[w]))] is [Unsigned[w]] again: [(2**w - 1).bit_length() = w] *)
Lemma upto_pow2_width w : (1 <= w)%N -> upto_width (pow2 w - 1) = w.
Proof.
  intros Hw. pose proof (pow2_ge2 w Hw) as H2. unfold upto_width.
  destruct (Z.eqb_spec (pow2 w - 1) 0) as [E|_]; [lia|].
  destruct (pow2 w - 1) as [|p|p] eqn:Ep; try lia.
  pose proof (bit_length_gt (Zpos p) ltac:(lia)) as Hgt. pose proof (bit_length_le p) as Hle.
  set (b := bit_length (Zpos p)) in *.
  destruct (N.lt_trichotomy b w) as [Hlt|[Heq|Hlt]]; [|exact Heq|].
  - pose proof (pow2_le (N.succ b) w ltac:(lia)) as H. rewrite pow2_succ in H. pose proof (pow2_pos b). lia.
  - pose proof (pow2_le (N.succ w) b ltac:(lia)) as H. rewrite pow2_succ in H. lia.
Qed.

Lemma ccrt_width_eq w : (1 <= w)%N -> ccrt_width w = w.
Proof. exact (upto_pow2_width w). Qed.

(** the next value of a run-time-limit counter of [k] bits: its own type suffices, no overflow *)
Lemma ccrt_next_spec k e c : (1 <= k)%N -> 0 <= c < pow2 k -> e < pow2 k ->
  ccrt_next (ccrt_width k) e c = (if e <=? c then 0 else c + 1) /\
  0 <= ccrt_next (ccrt_width k) e c < pow2 k.
Proof.
  intros Hk Hc He. unfold ccrt_next. rewrite ccrt_width_eq by exact Hk.
  destruct (Z.leb_spec e c); [lia|]. rewrite wrap_small by lia. lia.
Qed.

(** ** debounce *)

Definition db_inv (period : Z) (st : list Z) : Prop :=
  exists cnt out, st = [cnt; out] /\ 0 <= cnt <= period.

Lemma dbm_step_eq period cnt out inp : 1 <= period -> 0 <= cnt <= period ->
  dbm_step period [cnt; out] inp = debounce_step period [cnt; out] inp /\
  db_inv period (fst (dbm_step period [cnt; out] inp)).
Proof.
  intros Hp Hc. destruct inp as [|i [|? ?]]; try (split; [reflexivity|exists cnt, out; auto]).
  unfold dbm_step, debounce_step, dbm_width.
  destruct (vbit i).
  - destruct (Z.eqb_spec cnt period).
    + split; [reflexivity|]. exists cnt, 1. auto.
    + rewrite upto_wrap_small by lia. split; [reflexivity|]. exists (cnt + 1), out. split; [reflexivity|lia].
  - destruct (Z.eqb_spec cnt 0).
    + split; [reflexivity|]. exists cnt, 0. auto.
    + rewrite upto_wrap_small by lia. split; [reflexivity|]. exists (cnt - 1), out. split; [reflexivity|lia].
Qed.

(** "starts at period/2": the initial register value is not truncated by the register type *)
Theorem dbm_init_eq : forall (period : Z) (initial : bool), 1 <= period ->
  dbm_init period initial = [period / 2; zb initial].
Proof.
  intros period initial Hp. unfold dbm_init, dbm_width. rewrite upto_wrap_small; [reflexivity|].
  split; [apply Z.div_pos; lia|]. apply Z.div_le_upper_bound; lia.
Qed.

Lemma db_inv_init period initial : 1 <= period -> db_inv period (dbm_init period initial).
Proof.
  intros Hp. rewrite dbm_init_eq by exact Hp. exists (period / 2), (zb initial). split; [reflexivity|].
  split; [apply Z.div_pos; lia|]. apply Z.div_le_upper_bound; lia.
Qed.

(** from every state with the counter in 0..period the as-coded machine IS the specification machine *)
Theorem dbm_refines_from : forall (period : Z) ins st, 1 <= period -> db_inv period st ->
  traceB (dbm_step period) st ins = traceB (debounce_step period) st ins.
Proof.
  intros period ins st Hp Hinv.
  apply (sim_traces (dbm_step period) (debounce_step period) (db_inv period) (fun st => st)); [|exact Hinv].
  intros s inp (cnt & out & -> & Hc). destruct (dbm_step_eq period cnt out inp Hp Hc) as [E Hi].
  rewrite <- E. auto.
Qed.

(** every period >= 1, both initial levels, every input sequence of every length *)
Theorem dbm_refines : forall (period : Z) (initial : bool) ins, 1 <= period ->
  traceB (dbm_step period) (dbm_init period initial) ins =
  traceB (debounce_step period) [period / 2; zb initial] ins.
Proof.
  intros period initial ins Hp. rewrite <- (dbm_init_eq period initial Hp).
  apply dbm_refines_from; [exact Hp|apply db_inv_init; exact Hp].
Qed.

(** the counter register never leaves 0..period (so [Unsigned.upto(period)] never wraps), whatever the inputs *)
Theorem dbm_counter_bounded : forall (period : Z) (initial : bool) ins, 1 <= period ->
  exists cnt out, runB (dbm_step period) (dbm_init period initial) ins = [cnt; out] /\ 0 <= cnt <= period.
Proof.
  intros period initial ins Hp.
  apply (runB_inv (dbm_step period) (fun _ => True) (db_inv period)); [| |apply Forall_True].
  - intros st inp (cnt & out & -> & Hc) _. apply (dbm_step_eq period cnt out inp Hp Hc).
  - apply db_inv_init; exact Hp.
Qed.

(** one clock, exactly: the output is set exactly in a clock with input '1' and the counter AT the period,
    cleared exactly in a clock with input '0' and the counter AT zero, unchanged in every other clock; the
    counter moves by one towards the input and saturates at period / 0 *)
Theorem dbm_step_exact : forall (period cnt out : Z) (i : value), 1 <= period -> 0 <= cnt <= period ->
  let cnt' := if vbit i then Z.min (cnt + 1) period else Z.max (cnt - 1) 0 in
  let out' := if vbit i && (cnt =? period) then 1
              else if negb (vbit i) && (cnt =? 0) then 0 else out in
  dbm_step period [cnt; out] [i] = ([cnt'; out'], Ok [obit (out' =? 1)]).
Proof.
  intros period cnt out i Hp Hc. cbv zeta.
  destruct (dbm_step_eq period cnt out [i] Hp Hc) as [E _]. rewrite E. unfold debounce_step.
  destruct (vbit i); cbn [andb negb].
  - destruct (Z.eqb_spec cnt period); [subst cnt; rewrite Z.min_r by lia|rewrite Z.min_l by lia]; reflexivity.
  - destruct (Z.eqb_spec cnt 0); [subst cnt; rewrite Z.max_r by lia|rewrite Z.max_l by lia]; reflexivity.
Qed.

Definition is_bit (b : bool) (inp : list value) : Prop :=
  match inp with [i] => vbit i = b | _ => False end.

(** exact to the clock, input held at '1': from a state with counter c the output rises in clock number
    period - c (counted from 0), not earlier and not later, and stays *)
Theorem debounce_hold_high : forall (period c out : Z) ins, 1 <= period -> 0 <= c <= period ->
  Forall (is_bit true) ins ->
  traceB (debounce_step period) [c; out] ins =
  map (fun t => Ok [obit ((if period - c <? Z.of_nat (S t) then 1 else out) =? 1)]) (seq 0 (length ins)).
Proof.
  intros period c out ins Hp Hc Hins.
  pose (St := fun t : nat => [Z.min (c + Z.of_nat t) period; if period - c <? Z.of_nat t then 1 else out]).
  assert (H0 : [c; out] = St 0%nat).
  { unfold St. cbn [Z.of_nat]. rewrite Z.add_0_r, Z.min_l by lia. destruct (Z.ltb_spec (period - c) 0); [lia|reflexivity]. }
  rewrite H0.
  refine (trace_closed _ (is_bit true) St _ _ ins 0%nat Hins).
  intros t inp Hinp. unfold St. destruct inp as [|i [|? ?]]; try contradiction. cbn [is_bit] in Hinp.
  unfold debounce_step. rewrite Hinp. rewrite Nat2Z.inj_succ.
  destruct (Z.eqb_spec (Z.min (c + Z.of_nat t) period) period) as [E|E].
  - destruct (Z.ltb_spec (period - c) (Z.succ (Z.of_nat t))); [|lia].
    rewrite E. rewrite Z.min_r by lia. reflexivity.
  - destruct (Z.ltb_spec (period - c) (Z.succ (Z.of_nat t))); [lia|].
    destruct (Z.ltb_spec (period - c) (Z.of_nat t)); [lia|].
    rewrite (Z.min_l (c + Z.of_nat t)) by lia. rewrite Z.min_l by lia.
    replace (c + Z.succ (Z.of_nat t)) with (c + Z.of_nat t + 1) by lia. reflexivity.
Qed.

(** input held at '0': the output falls in clock number c (counted from 0), exactly *)
Theorem debounce_hold_low : forall (period c out : Z) ins, 1 <= period -> 0 <= c <= period ->
  Forall (is_bit false) ins ->
  traceB (debounce_step period) [c; out] ins =
  map (fun t => Ok [obit ((if c <? Z.of_nat (S t) then 0 else out) =? 1)]) (seq 0 (length ins)).
Proof.
  intros period c out ins Hp Hc Hins.
  pose (St := fun t : nat => [Z.max (c - Z.of_nat t) 0; if c <? Z.of_nat t then 0 else out]).
  assert (H0 : [c; out] = St 0%nat).
  { unfold St. cbn [Z.of_nat]. rewrite Z.sub_0_r, Z.max_l by lia. destruct (Z.ltb_spec c 0); [lia|reflexivity]. }
  rewrite H0.
  refine (trace_closed _ (is_bit false) St _ _ ins 0%nat Hins).
  intros t inp Hinp. unfold St. destruct inp as [|i [|? ?]]; try contradiction. cbn [is_bit] in Hinp.
  unfold debounce_step. rewrite Hinp. rewrite Nat2Z.inj_succ.
  destruct (Z.eqb_spec (Z.max (c - Z.of_nat t) 0) 0) as [E|E].
  - destruct (Z.ltb_spec c (Z.succ (Z.of_nat t))); [|lia].
    rewrite E. rewrite Z.max_r by lia. reflexivity.
  - destruct (Z.ltb_spec c (Z.succ (Z.of_nat t))); [lia|].
    destruct (Z.ltb_spec c (Z.of_nat t)); [lia|].
    rewrite (Z.max_l (c - Z.of_nat t)) by lia. rewrite Z.max_l by lia.
    replace (c - Z.succ (Z.of_nat t)) with (c - Z.of_nat t - 1) by lia. reflexivity.
Qed.

(** the as-coded debounce from power-up, every period >= 1: with the input held at '1' the output keeps its
    initial level for exactly period - period/2 clocks and is '1' from then on; with the input held at '0' it
    keeps it for exactly period/2 clocks and is '0' from then on *)
Theorem dbm_hold_high_exact : forall (period : Z) (initial : bool) ins, 1 <= period ->
  Forall (is_bit true) ins ->
  traceB (dbm_step period) (dbm_init period initial) ins =
  map (fun t => Ok [obit (if period - period / 2 <? Z.of_nat (S t) then true else initial)]) (seq 0 (length ins)).
Proof.
  intros period initial ins Hp Hins. rewrite dbm_refines by exact Hp.
  rewrite debounce_hold_high; [|exact Hp| |exact Hins].
  - apply map_ext. intros t. destruct (period - period / 2 <? Z.of_nat (S t)); [reflexivity|].
    rewrite zb_eqb. reflexivity.
  - split; [apply Z.div_pos; lia|]. apply Z.div_le_upper_bound; lia.
Qed.

Theorem dbm_hold_low_exact : forall (period : Z) (initial : bool) ins, 1 <= period ->
  Forall (is_bit false) ins ->
  traceB (dbm_step period) (dbm_init period initial) ins =
  map (fun t => Ok [obit (if period / 2 <? Z.of_nat (S t) then false else initial)]) (seq 0 (length ins)).
Proof.
  intros period initial ins Hp Hins. rewrite dbm_refines by exact Hp.
  rewrite debounce_hold_low; [|exact Hp| |exact Hins].
  - apply map_ext. intros t. destruct (period / 2 <? Z.of_nat (S t)); [reflexivity|].
    rewrite zb_eqb. reflexivity.
  - split; [apply Z.div_pos; lia|]. apply Z.div_le_upper_bound; lia.
Qed.

(** ** continuous_counter with a run-time limit *)

(** the limit is the value of a w-bit unsigned port *)
Definition lim_ok (w : BinNums.N) (inp : list value) : Prop :=
  match inp with [l] => 0 <= vnum l < pow2 w | _ => True end.

Definition ccrt_inv (w : BinNums.N) (st : list Z) : Prop := exists c, st = [c] /\ 0 <= c < pow2 w.

Lemma ccrt_step_eq w c inp : (1 <= w)%N -> 0 <= c < pow2 w -> lim_ok w inp ->
  ccrt_step w [c] inp = counter_rt_step w [c] inp /\ ccrt_inv w (fst (ccrt_step w [c] inp)).
Proof.
  intros Hw Hc Hl. destruct inp as [|l [|? ?]]; try (split; [reflexivity|exists c; auto]).
  cbn [lim_ok] in Hl. unfold ccrt_step, counter_rt_step.
  destruct (ccrt_next_spec w (vnum l) c Hw Hc ltac:(lia)) as [E Hr].
  rewrite E in *. rewrite ccrt_width_eq by exact Hw. split; [reflexivity|].
  eexists; split; [reflexivity|exact Hr].
Qed.

(** every port width w >= 1, every sequence of w-bit limits of every length *)
Theorem ccrt_refines : forall (w : BinNums.N) ins, (1 <= w)%N -> Forall (lim_ok w) ins ->
  traceB (ccrt_step w) [0] ins = traceB (counter_rt_step w) [0] ins.
Proof.
  intros w ins Hw Hins.
  apply (sim_traces_in (ccrt_step w) (counter_rt_step w) (lim_ok w) (ccrt_inv w) (fun st => st)); [| |exact Hins].
  - intros st inp (c & -> & Hc) Hl. destruct (ccrt_step_eq w c inp Hw Hc Hl) as [E Hi].
    rewrite <- E. auto.
  - exists 0. split; [reflexivity|]. pose proof (pow2_pos w). lia.
Qed.

(** the counter register never overflows its type, whatever the limits *)
Theorem ccrt_counter_bounded : forall (w : BinNums.N) ins, (1 <= w)%N -> Forall (lim_ok w) ins ->
  exists c, runB (ccrt_step w) [0] ins = [c] /\ 0 <= c < pow2 w.
Proof.
  intros w ins Hw Hins.
  apply (runB_inv (ccrt_step w) (lim_ok w) (ccrt_inv w)); [| |exact Hins].
  - intros st inp (c & -> & Hc) Hl. apply (ccrt_step_eq w c inp Hw Hc Hl).
  - exists 0. split; [reflexivity|]. pose proof (pow2_pos w). lia.
Qed.

(** one clock: below the limit the counter counts up by exactly one; at or above it, it returns to 0 *)
Theorem ccrt_step_exact : forall (w : BinNums.N) (c : Z) (l : value), (1 <= w)%N -> 0 <= c < pow2 w ->
  0 <= vnum l < pow2 w ->
  let c' := if vnum l <=? c then 0 else c + 1 in
  ccrt_step w [c] [l] = ([c'], Ok [ouns w c']).
Proof.
  intros w c l Hw Hc Hl. cbv zeta. destruct (ccrt_step_eq w c [l] Hw Hc Hl) as [E _]. rewrite E. reflexivity.
Qed.

(** "wraps within one step after the limit is lowered below the count": whatever happened before (input
    prefix [pre], count c reached), a clock whose limit is <= c gives 0 in THAT clock, and the counter is then
    in its power-up state: everything after repeats the behaviour from power-up *)
Theorem ccrt_wraps_within_one_step : forall (w : BinNums.N) pre (l : value) rest (c : Z), (1 <= w)%N ->
  runB (ccrt_step w) [0] pre = [c] -> vnum l <= c ->
  traceB (ccrt_step w) [0] (pre ++ [l] :: rest) =
  traceB (ccrt_step w) [0] pre ++ Ok [ouns w 0] :: traceB (ccrt_step w) [0] rest.
Proof.
  intros w pre l rest c Hw Hrun Hl. rewrite traceB_app, Hrun. f_equal.
  cbn [traceB]. unfold ccrt_step at 1, ccrt_next. rewrite ccrt_width_eq by exact Hw.
  destruct (Z.leb_spec (vnum l) c); [reflexivity|lia].
Qed.

(** limit held at L: exact period L + 1 (the value after clock t is (t+1) mod (L+1)), every 0 <= L < 2^w *)
Theorem ccrt_const_limit_period : forall (w : BinNums.N) (l : value) (n : nat), (1 <= w)%N -> 0 <= vnum l < pow2 w ->
  traceB (ccrt_step w) [0] (repeat [l] n) =
  map (fun t => Ok [ouns w (Z.of_nat (S t) mod (vnum l + 1))]) (seq 0 n).
Proof.
  intros w l n Hw Hl.
  assert (Hins : Forall (lim_ok w) (repeat [l] n)).
  { apply Forall_forall. intros x Hx. apply repeat_spec in Hx. subst x. exact Hl. }
  rewrite ccrt_refines by assumption.
  assert (E : traceB (counter_rt_step w) [0] (repeat [l] n) = traceB (counter_step w (vnum l)) [0] (repeat [l] n)).
  { apply (sim_traces_in (counter_rt_step w) (counter_step w (vnum l)) (fun inp => inp = [l])
             (fun st => exists c, st = [c] /\ 0 <= c <= vnum l) (fun st => st)).
    - intros st inp (c & -> & Hc) ->. unfold counter_rt_step, counter_step. cbn [fst snd].
      assert (Hb : (vnum l <=? c) = (c =? vnum l)).
      { destruct (Z.leb_spec (vnum l) c), (Z.eqb_spec c (vnum l)); lia. }
      rewrite Hb. repeat split. eexists; split; [reflexivity|]. destruct (Z.eqb_spec c (vnum l)); lia.
    - exists 0. split; [reflexivity|lia].
    - apply Forall_forall. intros x Hx. apply repeat_spec in Hx. exact Hx. }
  rewrite E, counter_closed_form by lia. rewrite repeat_length. reflexivity.
Qed.

(** ** ToggleSignal with run-time durations *)

(** the durations are the values of a wf-bit and a ws-bit unsigned port; their sum is at least 1
    (the library asserts "counter end was set to 0" otherwise) *)
Definition dur_ok (wf ws : BinNums.N) (inp : list value) : Prop :=
  match inp with
  | [f; g] => 0 <= vnum f < pow2 wf /\ 0 <= vnum g < pow2 ws /\ 1 <= vnum f + vnum g
  | _ => True
  end.

(** the concurrent signal [counter_end] holds first + second - 1 exactly: [CounterType] suffices
    (the SUM first + second may overflow [CounterType] - e.g. two 1-bit durations both 1 - but then
    [sum - 1] wraps back to the right value) *)
Lemma tgrt_end_eq wf ws f g : (1 <= wf)%N -> (1 <= ws)%N ->
  0 <= f < pow2 wf -> 0 <= g < pow2 ws -> 1 <= f + g ->
  tgrt_end wf ws f g = f + g - 1 /\ f + g - 1 < pow2 (tgrt_end_width wf ws).
Proof.
  intros Hwf Hws Hf Hg Hs. unfold tgrt_end, tgrt_end_width.
  pose proof (pow2_ge2 wf Hwf). pose proof (pow2_ge2 ws Hws).
  set (mce := pow2 wf - 1 + (pow2 ws - 1) - 1).
  rewrite (upto_wrap_small mce f) by (unfold mce; lia).
  rewrite (upto_wrap_small mce g) by (unfold mce; lia).
  rewrite wrap_sub_l.
  pose proof (upto_wrap_small mce (f + g - 1) ltac:(unfold mce; lia)) as E. rewrite E.
  split; [reflexivity|]. rewrite <- E. apply wrap_range.
Qed.

Definition tgrt_inv (k : BinNums.N) (st : list Z) : Prop :=
  exists c s ri fa, st = [c; s; ri; fa] /\ 0 <= c < pow2 k.

(** every pair of port widths, both polarities, every admissible duration sequence of every length *)
Theorem togglert_refines : forall (wf ws : BinNums.N) (ds fs : bool) ins, (1 <= wf)%N -> (1 <= ws)%N ->
  Forall (dur_ok wf ws) ins ->
  traceB (togglert_step wf ws ds fs) (togglert_init ds) ins =
  traceB (toggle_rt_step ds fs) [0; zb ds] ins.
Proof.
  intros wf ws ds fs ins Hwf Hws Hins.
  change [0; zb ds] with (tg_abs (togglert_init ds)).
  set (k := tgrt_end_width wf ws).
  assert (Hk : (1 <= k)%N).
  { apply upto_width_ge1. pose proof (pow2_ge2 wf Hwf). pose proof (pow2_ge2 ws Hws). lia. }
  apply (sim_traces_in (togglert_step wf ws ds fs) (toggle_rt_step ds fs) (dur_ok wf ws) (tgrt_inv k) tg_abs);
    [| |exact Hins].
  - intros st inp (c & s & ri & fa & -> & Hc) Hd.
    destruct inp as [|f [|g [|? ?]]];
      try (cbn; repeat split; do 4 eexists; split; [reflexivity|exact Hc]).
    cbn [dur_ok] in Hd. destruct Hd as (Hf & Hg & Hs).
    destruct (tgrt_end_eq wf ws (vnum f) (vnum g) Hwf Hws Hf Hg Hs) as [Ee Hlt].
    unfold togglert_step, toggle_rt_step, tg_abs. cbn [fst snd]. rewrite Ee. fold k in Hlt |- *.
    destruct (ccrt_next_spec k (vnum f + vnum g - 1) c Hk Hc Hlt) as [E Hr].
    rewrite E in *. set (c' := if vnum f + vnum g - 1 <=? c then 0 else c + 1) in *.
    assert (Hs' : (if fs then c' <? vnum f else negb (c' <? vnum f)) = (if c' <? vnum f then fs else negb fs))
      by (destruct fs, (c' <? vnum f); reflexivity).
    rewrite Hs'. repeat split. do 4 eexists; split; [reflexivity|exact Hr].
  - exists 0, (zb ds), 0, 0. split; [reflexivity|]. pose proof (pow2_pos k). lia.
Qed.

(** ** ClockDivider with a run-time duration *)

Definition per_ok (w : BinNums.N) (inp : list value) : Prop :=
  match inp with [p] => 1 <= vnum p < pow2 w | _ => True end.

Lemma dvrt_end_eq w p : (1 <= w)%N -> 1 <= p < pow2 w ->
  dvrt_end w p = p - 1 /\ p - 1 < pow2 (dvrt_end_width w).
Proof.
  intros Hw Hp. unfold dvrt_end, dvrt_end_width. pose proof (pow2_ge2 w Hw).
  rewrite (wrap_small w) by lia.
  pose proof (upto_wrap_small (pow2 w - 1 - 1) (p - 1) ltac:(lia)) as E. rewrite E.
  split; [reflexivity|]. rewrite <- E. apply wrap_range.
Qed.

(** every port width, every sequence of periods >= 1 of every length (default_state = False, which is what
    the specification machine [divider_rt_step] describes) *)
Theorem dividerrt_refines : forall (w : BinNums.N) ins, (1 <= w)%N -> Forall (per_ok w) ins ->
  traceB (dividerrt_step w false) (dividerrt_init false) ins = traceB divider_rt_step [0; 0] ins.
Proof.
  intros w ins Hw Hins.
  change [0; 0] with (tg_abs (dividerrt_init false)).
  set (k := dvrt_end_width w).
  assert (Hk : (1 <= k)%N) by (apply upto_width_ge1; pose proof (pow2_ge2 w Hw); lia).
  apply (sim_traces_in (dividerrt_step w false) divider_rt_step (per_ok w) (tgrt_inv k) tg_abs); [| |exact Hins].
  - intros st inp (c & s & ri & fa & -> & Hc) Hd.
    destruct inp as [|p [|? ?]]; try (cbn; repeat split; do 4 eexists; split; [reflexivity|exact Hc]).
    cbn [per_ok] in Hd. destruct (dvrt_end_eq w (vnum p) Hw Hd) as [Ee Hlt].
    unfold dividerrt_step, divider_rt_step, tg_abs. cbn [fst snd]. rewrite Ee. fold k in Hlt |- *.
    destruct (ccrt_next_spec k (vnum p - 1) c Hk Hc Hlt) as [E Hr].
    rewrite E in *. set (c' := if vnum p - 1 <=? c then 0 else c + 1) in *.
    assert (Hs' : (if c' =? 0 then negb false else false) = (c' =? 0)) by (destruct (c' =? 0); reflexivity).
    rewrite Hs'. repeat split. do 4 eexists; split; [reflexivity|exact Hr].
  - exists 0, 0, 0, 0. split; [reflexivity|]. pose proof (pow2_pos k). lia.
Qed.

(** ** the tie to the emitted VHDL, for every configuration at once (as in [TimingAllProofs]): whenever the
    per-configuration check of harness/c16.py against the specification machine succeeds for a parsed design
    [d], the design has the trace of the as-coded model with the same numbers on every input sequence over the
    explored alphabet *)
From Cohdl Require Import Vhdl.Syntax Vhdl.Sem Vhdl.DefAssign Vhdl.DeadVars Equiv.VhdlTS Equiv.StoreTS.

Theorem dbm_code_tie : forall d mid alphabet fuel (period : Z) (initial : bool), 1 <= period ->
  conc_all_ok (auto_Ts d) d = true ->
  is_ok (rcheck_s d mid (debounce_step period) alphabet (fun _ _ => true) fuel [period / 2; zb initial]) = true ->
  forall ins, Forall (fun x => In x alphabet) ins ->
    traceA (sstep d mid) (power_up_s d) ins = traceB (dbm_step period) (dbm_init period initial) ins.
Proof.
  intros d mid alphabet fuel period initial Hp. apply code_tie_gen. intros ins. apply dbm_refines. exact Hp.
Qed.

Theorem ccrt_code_tie : forall d mid alphabet fuel (w : BinNums.N), (1 <= w)%N ->
  Forall (lim_ok w) alphabet ->
  conc_all_ok (auto_Ts d) d = true ->
  is_ok (rcheck_s d mid (counter_rt_step w) alphabet (fun _ _ => true) fuel [0]) = true ->
  forall ins, Forall (fun x => In x alphabet) ins ->
    traceA (sstep d mid) (power_up_s d) ins = traceB (ccrt_step w) [0] ins.
Proof.
  intros d mid alphabet fuel w Hw Hal Hd Hc ins Hins.
  rewrite ccrt_refines; [|exact Hw|].
  - apply (rcheck_s_sound d mid (counter_rt_step w) alphabet (fun _ _ => true) fuel [0] Hd Hc).
    apply admissible_adm. split; [apply adm_true|exact Hins].
  - rewrite Forall_forall in *. intros x Hx. apply Hal. apply Hins. exact Hx.
Qed.
