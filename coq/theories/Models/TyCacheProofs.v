(** C13 - proofs about Models/TyCache.v *)
From Coq Require Import ZArith NArith PArith List Bool Lia.
Import ListNotations.
From Cohdl Require Import Models.TyCache.

(** * decidable equalities *)
Lemma fam_eqb_eq a b : fam_eqb a b = true <-> a = b.
Proof. destruct a, b; cbn; split; congruence. Qed.
Lemma ord_eqb_eq a b : ord_eqb a b = true <-> a = b.
Proof. destruct a, b; cbn; split; congruence. Qed.
Lemma leaf_eqb_eq a b : leaf_eqb a b = true <-> a = b.
Proof. destruct a, b; cbn; split; congruence. Qed.
Lemma qfam_eqb_eq a b : qfam_eqb a b = true <-> a = b.
Proof. destruct a, b; cbn; split; congruence. Qed.
Lemma dir_eqb_eq a b : dir_eqb a b = true <-> a = b.
Proof. destruct a, b; cbn; split; congruence. Qed.
Lemma odir_eqb_eq a b : odir_eqb a b = true <-> a = b.
Proof.
  destruct a, b; cbn; try (split; congruence).
  rewrite dir_eqb_eq. split; congruence.
Qed.
Lemma prim_eqb_eq a : forall b, prim_eqb a b = true <-> a = b.
Proof.
  induction a; destruct b; cbn; try (split; congruence).
  - rewrite leaf_eqb_eq; split; congruence.
  - rewrite fam_eqb_eq; split; congruence.
  - rewrite !andb_true_iff, fam_eqb_eq, ord_eqb_eq, Pos.eqb_eq. split; [intros [[-> ->] ->]; reflexivity | intros H; injection H; auto].
  - rewrite andb_true_iff, IHa, Z.eqb_eq. split; [intros [-> ->]; reflexivity | intros H; injection H; auto].
Qed.
Lemma cname_eqb_eq a b : cname_eqb a b = true <-> a = b.
Proof.
  destruct a, b; cbn; try (split; congruence).
  - rewrite prim_eqb_eq; split; congruence.
  - rewrite qfam_eqb_eq; split; congruence.
  - rewrite !andb_true_iff, qfam_eqb_eq, odir_eqb_eq, prim_eqb_eq.
    split; [intros [[-> ->] ->]; reflexivity | intros H; injection H; auto].
  - rewrite !andb_true_iff, qfam_eqb_eq, odir_eqb_eq, fam_eqb_eq, ord_eqb_eq, Pos.eqb_eq.
    split; [intros [[[[-> ->] ->] ->] ->]; reflexivity | intros H; injection H; auto].
Qed.
Lemma cname_eqb_refl a : cname_eqb a a = true.
Proof. apply cname_eqb_eq; reflexivity. Qed.
Lemma prim_eqb_refl a : prim_eqb a a = true.
Proof. apply prim_eqb_eq; reflexivity. Qed.
Lemma cname_eqb_neq a b : a <> b -> cname_eqb a b = false.
Proof. intros H. destruct (cname_eqb a b) eqn:E; [apply cname_eqb_eq in E; contradiction | reflexivity]. Qed.

(** * the invariant of the caches *)
Definition name_at st i := option_map cnm (nth_error (tbl st) i).
Definition cacheable c := match owner_of c with Some _ => true | None => false end.
Definition isanon c := match c with CAnon _ _ _ _ _ => true | _ => false end.
Definition dyn c := cacheable c || isanon c.

Record Inv (st : state) : Prop := {
  inv_fix : exists l, tbl st = tbl0 ++ l /\ Forall (fun c => dyn (cnm c) = true) l;
  (** the bases of every class are a function of its name (= its parameters) only, and every base exists *)
  inv_bases : forall i c, nth_error (tbl st) i = Some c ->
                          map (name_at st) (cbs c) = map Some (doc_bases (cnm c));
  inv_c1 : forall nm i, lookup st nm = Some i -> name_at st i = Some nm /\ cacheable nm = true;
  inv_c2 : forall i c, nth_error (tbl st) i = Some c -> cacheable (cnm c) = true -> lookup st (cnm c) = Some i }.

Lemma Inv0 : Inv st0.
Proof.
  split.
  - exists []. split; [now rewrite app_nil_r | constructor].
  - intros i c H.
    do 15 (destruct i as [|i]; [cbn in H; injection H as <-; reflexivity|]).
    cbn in H. destruct i; discriminate.
  - intros nm i H; discriminate.
  - intros i c H Hc.
    do 15 (destruct i as [|i]; [cbn in H; injection H as <-; discriminate|]).
    cbn in H. destruct i; discriminate.
Qed.

Fixpoint psize p := match p with PVec FBV _ _ => 1 | PVec _ _ _ => 2 | PArr e _ => 3 + psize e | _ => 0 end.
Definition qbase q := match q with QPort => 20 | _ => 10 end.
Definition wrank p := match p with PVecAny FBV => 1 | PVecAny _ => 2 | PVec FBV _ _ => 3 | PVec _ _ _ => 5 | _ => 1 end.
Definition rank c := match c with CP p => psize p | CQ q _ p => qbase q + wrank p | CAnon q _ _ _ _ => qbase q + 4 | _ => 0 end.

(** [st'] extends [st] by classes of rank at most [k] *)
Definition ext k st st' := exists l, tbl st' = tbl st ++ l /\ Forall (fun c => rank (cnm c) <= k) l.

Lemma ext_refl k st : ext k st st.
Proof. exists []. split; [now rewrite app_nil_r | constructor]. Qed.
Lemma ext_trans k1 k2 k a b c : ext k1 a b -> ext k2 b c -> k1 <= k -> k2 <= k -> ext k a c.
Proof.
  intros (l1 & E1 & F1) (l2 & E2 & F2) H1 H2. exists (l1 ++ l2). split.
  - rewrite E2, E1, app_assoc; reflexivity.
  - apply Forall_app; split; eapply Forall_impl; try eassumption; cbn; intros; lia.
Qed.
Lemma ext_weaken k1 k a b : ext k1 a b -> k1 <= k -> ext k a b.
Proof. intros H L. eapply ext_trans; [exact H | apply (ext_refl k1) | lia | lia]. Qed.
Lemma name_at_ext k st st' i n : ext k st st' -> name_at st i = Some n -> name_at st' i = Some n.
Proof.
  intros (l & E & _) H. unfold name_at in *. rewrite E.
  destruct (nth_error (tbl st) i) eqn:N; [|discriminate].
  rewrite nth_error_app1; [rewrite N; exact H | apply nth_error_Some; congruence].
Qed.

Lemma lookup_none_ext k st st' nm :
  Inv st -> Inv st' -> ext k st st' -> lookup st nm = None -> k < rank nm -> lookup st' nm = None.
Proof.
  intros I I' (l & E & F) HN HR.
  destruct (lookup st' nm) as [i|] eqn:L; [|reflexivity]. exfalso.
  destruct (inv_c1 _ I' _ _ L) as [Hn Hc]. unfold name_at in Hn. rewrite E in Hn.
  destruct (Nat.lt_ge_cases i (length (tbl st))) as [Hi|Hi].
  - rewrite nth_error_app1 in Hn by exact Hi.
    destruct (nth_error (tbl st) i) as [c|] eqn:N; [|discriminate]. cbn in Hn. injection Hn as <-.
    rewrite (inv_c2 _ I _ _ N Hc) in HN. discriminate.
  - rewrite nth_error_app2 in Hn by exact Hi.
    destruct (nth_error l (i - length (tbl st))) as [c|] eqn:N; [|discriminate]. cbn in Hn. injection Hn as <-.
    apply nth_error_In in N. rewrite Forall_forall in F. specialize (F _ N). lia.
Qed.

Lemma fixed_name st i : Inv st -> i < 15 -> name_at st i = option_map cnm (nth_error tbl0 i).
Proof.
  intros I H. destruct (inv_fix _ I) as (l & E & _). unfold name_at. rewrite E.
  rewrite nth_error_app1; [reflexivity | exact H].
Qed.

(** result of a lookup-or-create function: invariant kept, only ranks <= k added, the result has name [nm] *)
Definition R st k nm (r : state * nat) := Inv (fst r) /\ ext k st (fst r) /\ name_at (fst r) (snd r) = Some nm.

Lemma R_hit st k nm i : Inv st -> lookup st nm = Some i -> R st k nm (st, i).
Proof. intros I L. split; [exact I | split; [apply ext_refl | exact (proj1 (inv_c1 _ I _ _ L))]]. Qed.

Lemma name_at_app_old st c i n : name_at st i = Some n -> name_at (mkst (tbl st ++ [c]) (cache st)) i = Some n.
Proof.
  unfold name_at; cbn. intros H. destruct (nth_error (tbl st) i) eqn:N; [|discriminate].
  rewrite nth_error_app1; [rewrite N; exact H | apply nth_error_Some; congruence].
Qed.

Lemma map_name_at_mono (f g : nat -> option cname) bs l :
  (forall i n, f i = Some n -> g i = Some n) -> map f bs = map Some l -> map g bs = map Some l.
Proof.
  intros H. revert l; induction bs as [|b r IH]; intros [|x l] E; cbn in *; try discriminate; [reflexivity|].
  injection E as E1 E2. rewrite (H _ _ E1), (IH _ E2). reflexivity.
Qed.

Lemma alloc_gen_Inv st nm bs ch :
  Inv st -> dyn nm = true ->
  map (name_at st) bs = map Some (doc_bases nm) ->
  (ch = cache st /\ cacheable nm = false \/ ch = (nm, nxt st) :: cache st /\ cacheable nm = true /\ lookup st nm = None) ->
  Inv (mkst (tbl st ++ [mkcls nm bs]) ch).
Proof.
  intros I D B C.
  assert (MONO : forall i n, name_at st i = Some n -> name_at (mkst (tbl st ++ [mkcls nm bs]) ch) i = Some n).
  { intros i n H. unfold name_at in *; cbn. destruct (nth_error (tbl st) i) eqn:N; [|discriminate].
    rewrite nth_error_app1; [rewrite N; exact H | apply nth_error_Some; congruence]. }
  assert (NEW : name_at (mkst (tbl st ++ [mkcls nm bs]) ch) (nxt st) = Some nm).
  { unfold name_at, nxt; cbn. rewrite nth_error_app2 by lia. rewrite Nat.sub_diag. reflexivity. }
  split.
  - destruct (inv_fix _ I) as (l & E & F). exists (l ++ [mkcls nm bs]). cbn [tbl]. split.
    + rewrite E, app_assoc; reflexivity.
    + apply Forall_app; split; [exact F | constructor; [exact D | constructor]].
  - intros i c H. cbn in H.
    destruct (Nat.lt_ge_cases i (length (tbl st))) as [Hi|Hi].
    + rewrite nth_error_app1 in H by exact Hi.
      eapply map_name_at_mono; [exact MONO | exact (inv_bases _ I _ _ H)].
    + rewrite nth_error_app2 in H by exact Hi.
      destruct (i - length (tbl st)) as [|j] eqn:J; cbn in H; [|destruct j; discriminate].
      injection H as <-. cbn. eapply map_name_at_mono; [exact MONO | exact B].
  - intros k i L. unfold lookup in L; cbn in L.
    destruct C as [[-> Hc] | (-> & Hc & HN)].
    + destruct (inv_c1 _ I _ _ L) as [A1 A2]. split; [apply MONO; exact A1 | exact A2].
    + cbn in L. destruct (cname_eqb k nm) eqn:E.
      * apply cname_eqb_eq in E; subst k. injection L as <-. split; [exact NEW | exact Hc].
      * destruct (inv_c1 _ I _ _ L) as [A1 A2]. split; [apply MONO; exact A1 | exact A2].
  - intros i c H Hc. cbn in H. unfold lookup; cbn.
    destruct (Nat.lt_ge_cases i (length (tbl st))) as [Hi|Hi].
    + rewrite nth_error_app1 in H by exact Hi.
      pose proof (inv_c2 _ I _ _ H Hc) as L.
      destruct C as [[-> _] | (-> & Hc' & HN)]; [exact L|].
      cbn. destruct (cname_eqb (cnm c) nm) eqn:E; [|exact L].
      apply cname_eqb_eq in E. rewrite E in L. rewrite L in HN. discriminate.
    + rewrite nth_error_app2 in H by exact Hi.
      destruct (i - length (tbl st)) as [|j] eqn:J; cbn in H; [|destruct j; discriminate].
      injection H as <-. cbn in *.
      destruct C as [[-> Hc'] | (-> & Hc' & HN)]; [congruence|].
      cbn. rewrite cname_eqb_refl. f_equal. unfold nxt. lia.
Qed.

Lemma ext_alloc k st nm bs ch : rank nm <= k -> ext k st (mkst (tbl st ++ [mkcls nm bs]) ch).
Proof. intros H. exists [mkcls nm bs]. split; [reflexivity | constructor; [exact H | constructor]]. Qed.

Lemma alloc_cached_R st k nm bs :
  Inv st -> cacheable nm = true -> lookup st nm = None ->
  map (name_at st) bs = map Some (doc_bases nm) -> rank nm <= k ->
  R st k nm (alloc_cached st nm bs).
Proof.
  intros I C L B HR. unfold alloc_cached, R; cbn [fst snd]. split; [|split].
  - apply alloc_gen_Inv; auto. unfold dyn; rewrite C; reflexivity.
  - apply ext_alloc; exact HR.
  - unfold name_at, nxt; cbn. rewrite nth_error_app2 by lia. rewrite Nat.sub_diag. reflexivity.
Qed.

Lemma alloc_anon_R st k q d f o w bs :
  Inv st -> map (name_at st) bs = map Some (doc_bases (CAnon q d f o w)) -> qbase q + 4 <= k ->
  R st k (CAnon q d f o w) (alloc st (CAnon q d f o w) bs).
Proof.
  intros I B HR. unfold alloc, R; cbn [fst snd]. split; [|split].
  - apply alloc_gen_Inv; auto.
  - apply ext_alloc; exact HR.
  - unfold name_at, nxt; cbn. rewrite nth_error_app2 by lia. rewrite Nat.sub_diag. reflexivity.
Qed.

(** * _BitVector.__getitem__ and _MetaArray.__getitem__ *)
Lemma getbv_R st o w : Inv st -> R st 1 (CP (PVec FBV o w)) (getbv st o w).
Proof.
  intros I. unfold getbv. destruct (lookup st _) as [i|] eqn:L.
  - apply R_hit; assumption.
  - apply alloc_cached_R; auto. cbn. rewrite (fixed_name _ 5 I) by lia. reflexivity.
Qed.

Lemma getvec_us_R st f o w : f <> FBV -> Inv st -> lookup st (CP (PVec f o w)) = None ->
  R st 2 (CP (PVec f o w)) (let '(st1, b) := getbv st Down w in alloc_cached st1 (CP (PVec f o w)) [fam_id f; b]).
Proof.
  intros F I L.
  destruct (getbv st Down w) as [st1 b] eqn:G. pose proof (getbv_R st Down w I) as (I1 & E1 & N1). rewrite G in *; cbn [fst snd] in *.
  assert (RK : 1 < rank (CP (PVec f o w))) by (destruct f; [congruence | cbn; lia | cbn; lia]).
  assert (L1 : lookup st1 (CP (PVec f o w)) = None) by (eapply lookup_none_ext; [exact I | exact I1 | exact E1 | exact L | exact RK]).
  assert (CA : cacheable (CP (PVec f o w)) = true) by (destruct f; reflexivity).
  assert (BS : map (name_at st1) [fam_id f; b] = map Some (doc_bases (CP (PVec f o w)))).
  { destruct f; [congruence | |]; cbn; rewrite (fixed_name _ _ I1) by (cbn; lia); cbn; rewrite N1; reflexivity. }
  assert (RK2 : rank (CP (PVec f o w)) <= 2) by (destruct f; cbn; lia).
  pose proof (alloc_cached_R st1 2 (CP (PVec f o w)) [fam_id f; b] I1 CA L1 BS RK2) as (A & B & C).
  split; [exact A | split; [eapply ext_trans; [exact E1 | exact B | lia | lia] | exact C]].
Qed.

Lemma getvec_R st f o w : Inv st -> R st 2 (CP (PVec f o w)) (getvec st f o w).
Proof.
  intros I. unfold getvec.
  assert (BV : R st 2 (CP (PVec FBV o w)) (getbv st o w)).
  { destruct (getbv_R st o w I) as (A & B & C). split; [exact A | split; [eapply ext_weaken; [exact B | lia] | exact C]]. }
  destruct f; [exact BV | |].
  all: destruct (lookup st _) as [i|] eqn:L; [apply R_hit; assumption|].
  all: apply getvec_us_R; [discriminate | exact I | exact L].
Qed.

Lemma psize_rank p : rank (CP p) = psize p.
Proof. reflexivity. Qed.

Lemma getprim_R p : forall st, Inv st -> R st (psize p) (CP p) (getprim st p).
Proof.
  induction p as [l | f | f o w | | e IH n]; intros st I.
  - split; [exact I | split; [apply ext_refl|]]. cbn [fst snd getprim]. destruct l; cbn; rewrite (fixed_name _ _ I) by lia; reflexivity.
  - split; [exact I | split; [apply ext_refl|]]. cbn [fst snd getprim]. destruct f; cbn; rewrite (fixed_name _ _ I) by lia; reflexivity.
  - cbn [getprim]. destruct (getvec_R st f o w I) as (A & B & C).
    split; [exact A | split; [|exact C]].
    destruct f; cbn [psize]; [|exact B|exact B].
    unfold getvec. destruct (getbv_R st o w I) as (_ & B' & _). exact B'.
  - split; [exact I | split; [apply ext_refl|]]. cbn. unfold arr_id. rewrite (fixed_name _ 8 I) by lia; reflexivity.
  - cbn [getprim]. destruct (getprim st e) as [st1 ie] eqn:G.
    pose proof (IH st I) as (I1 & E1 & N1). rewrite G in *; cbn [fst snd] in *.
    destruct (lookup st1 _) as [i|] eqn:L.
    + split; [exact I1 | split; [eapply ext_weaken; [exact E1 | cbn; lia] | exact (proj1 (inv_c1 _ I1 _ _ L))]].
    + pose proof (alloc_cached_R st1 (psize (PArr e n)) (CP (PArr e n)) [arr_id] I1 eq_refl L) as (A & B & C);
        [cbn; unfold arr_id; rewrite (fixed_name _ 8 I1) by lia; reflexivity | cbn; lia |].
      split; [exact A | split; [eapply ext_trans; [exact E1 | exact B | cbn; lia | lia] | exact C]].
Qed.

(** * _TypeQualifier.__getitem__ *)
Section QProofs.
  Variable sigget : state -> prim -> state * nat.
  Definition SigOK q := q = QPort -> forall st p, Inv st -> R st 15 (CQ QSig None p) (sigget st p).

  (** the first base (parent_cls) of  q[p]  *)
  Definition parent_name q d p :=
    match p with
    | PVecAny FBV => CQAny q
    | PVecAny f => CQ q d (PVecAny FBV)
    | PVec FBV o w => CQ q d (PVecAny FBV)
    | PVec f o w => CAnon q d f o w
    | _ => CQAny q
    end.
  Lemma doc_bases_CQ q d p :
    doc_bases (CQ q d p) = parent_name q d p :: match q with QPort => [CQ QSig None p] | _ => [] end.
  Proof. reflexivity. Qed.

  Lemma cacheable_CQ q d p : cacheable (CQ q d p) = true.
  Proof. destruct q; reflexivity. Qed.

  Lemma finish_R st q d p par :
    Inv st -> SigOK q -> lookup st (CQ q d p) = None -> name_at st par = Some (parent_name q d p) ->
    R st (qbase q + wrank p) (CQ q d p) (finish sigget st q d p par).
  Proof.
    intros I S L P. unfold finish.
    destruct q.
    1-3: apply alloc_cached_R; auto; cbn [map]; rewrite P; reflexivity.
    destruct (sigget st p) as [st1 s] eqn:G.
    pose proof (S eq_refl st p I) as (I1 & E1 & N1). rewrite G in *; cbn [fst snd] in *.
    assert (L1 : lookup st1 (CQ QPort d p) = None)
      by (eapply lookup_none_ext; [exact I | exact I1 | exact E1 | exact L | cbn; lia]).
    pose proof (alloc_cached_R st1 (qbase QPort + wrank p) (CQ QPort d p) [par; s] I1 eq_refl L1) as (A & B & C);
      [cbn [map]; rewrite (name_at_ext _ _ _ _ _ E1 P), N1; reflexivity | cbn; lia |].
    split; [exact A | split; [eapply ext_trans; [exact E1 | exact B | cbn; lia | lia] | exact C]].
  Qed.

  Lemma qfam_name st q : Inv st -> name_at st (qfam_id q) = Some (CQAny q).
  Proof. intros I. destruct q; cbn; rewrite (fixed_name _ _ I) by lia; reflexivity. Qed.

  Lemma getq_bvany_R st q d : Inv st -> SigOK q -> R st (qbase q + 1) (CQ q d (PVecAny FBV)) (getq_bvany sigget st q d).
  Proof.
    intros I S. unfold getq_bvany. destruct (lookup st _) as [i|] eqn:L; [apply R_hit; assumption|].
    apply (finish_R st q d (PVecAny FBV)); auto. apply qfam_name; exact I.
  Qed.

  (** lookup-or-(parent then finish) *)
  Lemma step_R st q d p k (getpar : state -> state * nat) :
    Inv st -> SigOK q -> k < qbase q + wrank p ->
    R st k (parent_name q d p) (getpar st) ->
    lookup st (CQ q d p) = None ->
    R st (qbase q + wrank p) (CQ q d p) (let '(st1, par) := getpar st in finish sigget st1 q d p par).
  Proof.
    intros I S K (I1 & E1 & N1) L. destruct (getpar st) as [st1 par]; cbn [fst snd] in *.
    assert (L1 : lookup st1 (CQ q d p) = None)
      by (eapply lookup_none_ext; [exact I | exact I1 | exact E1 | exact L | cbn; lia]).
    destruct (finish_R st1 q d p par I1 S L1 N1) as (A & B & C).
    split; [exact A | split; [eapply ext_trans; [exact E1 | exact B | lia | lia] | exact C]].
  Qed.

  Lemma getq_usany_R st q d f : Inv st -> SigOK q -> f <> FBV ->
    R st (qbase q + 2) (CQ q d (PVecAny f)) (getq_usany sigget st q d f).
  Proof.
    intros I S F. unfold getq_usany. destruct (lookup st _) as [i|] eqn:L; [apply R_hit; assumption|].
    assert (W : wrank (PVecAny f) = 2) by (destruct f; [congruence | reflexivity | reflexivity]).
    rewrite <- W.
    apply (step_R st q d (PVecAny f) (qbase q + 1) (fun st => getq_bvany sigget st q d)); auto; [lia|].
    assert (P : parent_name q d (PVecAny f) = CQ q d (PVecAny FBV)) by (destruct f; [congruence | reflexivity | reflexivity]).
    rewrite P. apply getq_bvany_R; assumption.
  Qed.

  Lemma getq_bvw_R st q d o w : Inv st -> SigOK q ->
    R st (qbase q + 3) (CQ q d (PVec FBV o w)) (getq_bvw sigget st q d o w).
  Proof.
    intros I S. unfold getq_bvw. destruct (lookup st _) as [i|] eqn:L; [apply R_hit; assumption|].
    apply (step_R st q d (PVec FBV o w) (qbase q + 1) (fun st => getq_bvany sigget st q d)); auto; [cbn; lia|].
    apply getq_bvany_R; assumption.
  Qed.

  Lemma getq_usw_R st q d f o w : Inv st -> SigOK q -> f <> FBV ->
    R st (qbase q + 5) (CQ q d (PVec f o w)) (getq_usw sigget st q d f o w).
  Proof.
    intros I S F. unfold getq_usw. destruct (lookup st _) as [i|] eqn:L; [apply R_hit; assumption|].
    assert (W : wrank (PVec f o w) = 5) by (destruct f; [congruence | reflexivity | reflexivity]).
    assert (P : parent_name q d (PVec f o w) = CAnon q d f o w) by (destruct f; [congruence | reflexivity | reflexivity]).
    destruct (getq_usany sigget st q d f) as [st1 a] eqn:G1.
    pose proof (getq_usany_R st q d f I S F) as (I1 & E1 & N1). rewrite G1 in *; cbn [fst snd] in *.
    destruct (getbv st1 Down w) as [st2 x] eqn:G2.
    pose proof (getbv_R st1 Down w I1) as (I2 & E2 & N2). rewrite G2 in *; cbn [fst snd] in *.
    destruct (getq_bvw sigget st2 q d Down w) as [st3 b] eqn:G3.
    pose proof (getq_bvw_R st2 q d Down w I2 S) as (I3 & E3 & N3). rewrite G3 in *; cbn [fst snd] in *.
    assert (E13 : ext (qbase q + 3) st1 st3) by (eapply ext_trans; [exact E2 | exact E3 | destruct q; cbn; lia | lia]).
    pose proof (alloc_anon_R st3 (qbase q + 4) q d f o w [a; b] I3) as (A & B & C);
      [cbn [map doc_bases]; rewrite (name_at_ext _ _ _ _ _ E13 N1), N3; reflexivity | lia |].
    destruct (alloc st3 (CAnon q d f o w) [a; b]) as [st4 par] eqn:G4; cbn [fst snd] in *.
    assert (E04 : ext (qbase q + 4) st st4).
    { apply (ext_trans (qbase q + 2) (qbase q + 4) _ st st1 st4);
        [exact E1 | apply (ext_trans (qbase q + 3) (qbase q + 4) _ st1 st3 st4); [exact E13 | exact B | lia | lia] | lia | lia]. }
    assert (L4 : lookup st4 (CQ q d (PVec f o w)) = None)
      by (eapply lookup_none_ext; [exact I | exact A | exact E04 | exact L | cbn [rank]; lia]).
    rewrite <- P in C.
    destruct (finish_R st4 q d (PVec f o w) par A S L4 C) as (A5 & B5 & C5).
    split; [exact A5 | split; [eapply ext_trans; [exact E04 | exact B5 | lia | lia] | exact C5]].
  Qed.

  Lemma getq_core_R st q d p : Inv st -> SigOK q ->
    R st (qbase q + 5) (CQ q d p) (getq_core sigget st q d p).
  Proof.
    intros I S.
    assert (WK : forall k r, R st k (CQ q d p) r -> k <= qbase q + 5 -> R st (qbase q + 5) (CQ q d p) r).
    { intros k r (A & B & C) K. split; [exact A | split; [eapply ext_weaken; eassumption | exact C]]. }
    assert (OTHER : parent_name q d p = CQAny q -> wrank p = 1 ->
                    R st (qbase q + 5) (CQ q d p)
                      (match lookup st (CQ q d p) with Some i => (st, i) | None => finish sigget st q d p (qfam_id q) end)).
    { intros P W. destruct (lookup st _) as [i|] eqn:L; [apply R_hit; assumption|].
      eapply WK; [apply finish_R; auto; rewrite P; apply qfam_name; exact I | lia]. }
    destruct p as [l | f | f o w | | e n]; cbn [getq_core].
    - apply OTHER; reflexivity.
    - destruct f.
      + eapply WK; [apply getq_bvany_R; assumption | lia].
      + eapply WK; [apply getq_usany_R; [assumption | assumption | discriminate] | lia].
      + eapply WK; [apply getq_usany_R; [assumption | assumption | discriminate] | lia].
    - destruct f.
      + eapply WK; [apply getq_bvw_R; assumption | lia].
      + apply getq_usw_R; [assumption | assumption | discriminate].
      + apply getq_usw_R; [assumption | assumption | discriminate].
    - apply OTHER; reflexivity.
    - apply OTHER; reflexivity.
  Qed.
End QProofs.

Lemma getq_sig_R st p : Inv st -> R st 15 (CQ QSig None p) (getq_sig st p).
Proof. intros I. unfold getq_sig. apply (getq_core_R (fun st _ => (st, 0)) st QSig None p I). intros H; discriminate. Qed.

Lemma getq_R st q d p : Inv st -> R st (qbase q + 5) (CQ q d p) (getq st q d p).
Proof. intros I. unfold getq. apply (getq_core_R getq_sig st q d p I). intros _ st' p' I'. apply getq_sig_R; exact I'. Qed.

(** * sequences of first uses *)
Definition extw st st' := exists l, tbl st' = tbl st ++ l.
Lemma ext_extw k a b : ext k a b -> extw a b.
Proof. intros (l & E & _); exists l; exact E. Qed.
Lemma extw_refl a : extw a a.
Proof. exists []; now rewrite app_nil_r. Qed.
Lemma extw_trans a b c : extw a b -> extw b c -> extw a c.
Proof. intros (l & E) (l' & E'). exists (l ++ l'). rewrite E', E, app_assoc; reflexivity. Qed.
Lemma name_at_extw st st' i n : extw st st' -> name_at st i = Some n -> name_at st' i = Some n.
Proof.
  intros (l & E) H. unfold name_at in *. rewrite E.
  destruct (nth_error (tbl st) i) eqn:N; [|discriminate].
  rewrite nth_error_app1; [rewrite N; exact H | apply nth_error_Some; congruence].
Qed.

Definition res_ok st' (e : texpr) (oi : option nat) :=
  match oi with
  | Some i => name_at st' i = Some (name_of e) /\ accepted e = true
  | None => accepted e = false
  end.

Lemma getitem_ok st e : Inv st ->
  Inv (fst (getitem st e)) /\ extw st (fst (getitem st e)) /\ res_ok (fst (getitem st e)) e (snd (getitem st e)).
Proof.
  intros I. destruct e as [p | q | q d p]; cbn [getitem].
  - destruct (getprim st p) as [st1 i] eqn:G. pose proof (getprim_R p st I) as (A & B & C). rewrite G in *; cbn [fst snd] in *.
    split; [exact A | split; [eapply ext_extw; exact B | split; [exact C | reflexivity]]].
  - cbn [fst snd]. split; [exact I | split; [apply extw_refl | split; [apply qfam_name; exact I | reflexivity]]].
  - destruct (getprim st p) as [st1 i] eqn:G. pose proof (getprim_R p st I) as (A & B & C). rewrite G in *; cbn [fst snd] in *.
    destruct (rejected q d) eqn:RJ; cbn [fst snd].
    + split; [exact A | split; [eapply ext_extw; exact B | cbn; rewrite RJ; reflexivity]].
    + destruct (getq st1 q d p) as [st2 j] eqn:G2. pose proof (getq_R st1 q d p A) as (A2 & B2 & C2). rewrite G2 in *; cbn [fst snd] in *.
      split; [exact A2 | split; [eapply extw_trans; eapply ext_extw; eassumption | split; [exact C2 | cbn; rewrite RJ; reflexivity]]].
Qed.

Lemma run_ids_ok ops : forall st st' ids, Inv st -> run_ids st ops = (st', ids) ->
  Inv st' /\ extw st st' /\ Forall2 (res_ok st') ops ids.
Proof.
  induction ops as [|e r IH]; intros st st' ids I H; cbn in H.
  - injection H as <- <-. split; [exact I | split; [apply extw_refl | constructor]].
  - destruct (getitem st e) as [st1 i] eqn:G. destruct (run_ids st1 r) as [st2 l] eqn:G2.
    injection H as <- <-.
    pose proof (getitem_ok st e I) as (A & B & C). rewrite G in *; cbn [fst snd] in *.
    destruct (IH _ _ _ A G2) as (A2 & B2 & C2).
    split; [exact A2 | split; [eapply extw_trans; eassumption | constructor; [|exact C2]]].
    destruct i as [i|]; [|exact C]. destruct C as [C1 C3]. split; [eapply name_at_extw; eassumption | exact C3].
Qed.

Lemma run_fst_run_ids ops : forall st, fst (run_ids st ops) = run st ops.
Proof.
  induction ops as [|e r IH]; intros st; cbn; [reflexivity|].
  destruct (getitem st e) as [st1 i]. specialize (IH st1). destruct (run_ids st1 r). cbn in *. exact IH.
Qed.

Lemma run_Inv ops : Inv (run st0 ops).
Proof.
  rewrite <- run_fst_run_ids. destruct (run_ids st0 ops) as [st ids] eqn:G.
  exact (proj1 (run_ids_ok ops _ _ _ Inv0 G)).
Qed.

(** * names identify classes (anonymous intermediates excepted) *)
Fixpoint idx_of (nm : cname) (l : list cls) (i : nat) : option nat :=
  match l with [] => None | c :: r => if cname_eqb nm (cnm c) then Some i else idx_of nm r (S i) end.

Lemma tbl0_idx i c : nth_error tbl0 i = Some c -> idx_of (cnm c) tbl0 0 = Some i.
Proof.
  intros H. do 15 (destruct i as [|i]; [cbn in H; injection H as <-; reflexivity|]).
  cbn in H. destruct i; discriminate.
Qed.

Lemma name_unique st i j nm :
  Inv st -> name_at st i = Some nm -> name_at st j = Some nm -> isanon nm = false -> i = j.
Proof.
  intros I Hi Hj NA. unfold name_at in *.
  destruct (nth_error (tbl st) i) as [ci|] eqn:Ni; [|discriminate].
  destruct (nth_error (tbl st) j) as [cj|] eqn:Nj; [|discriminate].
  cbn in Hi, Hj. injection Hi as Hi. injection Hj as Hj.
  destruct (cacheable nm) eqn:C.
  - pose proof (inv_c2 _ I _ _ Ni) as A. pose proof (inv_c2 _ I _ _ Nj) as B.
    rewrite Hi in A. rewrite Hj in B. specialize (A C). specialize (B C). congruence.
  - destruct (inv_fix _ I) as (l & E & F). rewrite E in Ni, Nj.
    assert (OLD : forall k c, nth_error (tbl0 ++ l) k = Some c -> cnm c = nm -> nth_error tbl0 k = Some c).
    { intros k c N Hc. destruct (Nat.lt_ge_cases k (length tbl0)) as [Hk|Hk].
      - rewrite nth_error_app1 in N by exact Hk. exact N.
      - rewrite nth_error_app2 in N by exact Hk. apply nth_error_In in N.
        rewrite Forall_forall in F. specialize (F _ N). unfold dyn in F. rewrite Hc, C, NA in F. discriminate. }
    pose proof (tbl0_idx _ _ (OLD _ _ Ni Hi)) as A. pose proof (tbl0_idx _ _ (OLD _ _ Nj Hj)) as B.
    rewrite Hi in A. rewrite Hj in B. congruence.
Qed.

Lemma name_of_nonanon e : isanon (name_of e) = false.
Proof. destruct e; reflexivity. Qed.
Lemma name_of_inj a b : name_of a = name_of b -> a = b.
Proof. destruct a, b; cbn; intros H; try discriminate; injection H; intros; subst; reflexivity. Qed.

(** ** canonical *)
Theorem canonical ops st ids k1 k2 e1 e2 i j :
  run_ids st0 ops = (st, ids) ->
  nth_error ops k1 = Some e1 -> nth_error ops k2 = Some e2 ->
  nth_error ids k1 = Some (Some i) -> nth_error ids k2 = Some (Some j) ->
  (i = j <-> e1 = e2).
Proof.
  intros H O1 O2 I1 I2.
  destruct (run_ids_ok ops _ _ _ Inv0 H) as (I & _ & F).
  assert (N : forall k e x, nth_error ops k = Some e -> nth_error ids k = Some (Some x) -> name_at st x = Some (name_of e)).
  { clear -F. induction F as [|e oi ops' ids' HR F IH]; intros k e0 x A B; [destruct k; discriminate|].
    destruct k; cbn in A, B.
    - injection A as <-. injection B as ->. exact (proj1 HR).
    - eapply IH; eassumption. }
  pose proof (N _ _ _ O1 I1) as N1. pose proof (N _ _ _ O2 I2) as N2.
  split.
  - intros <-. rewrite N1 in N2. injection N2 as N2. apply name_of_inj; exact N2.
  - intros <-. eapply name_unique; [exact I | exact N1 | exact N2 | apply name_of_nonanon].
Qed.

Theorem accepted_iff ops st ids k e oi :
  run_ids st0 ops = (st, ids) -> nth_error ops k = Some e -> nth_error ids k = Some oi ->
  (oi <> None <-> accepted e = true).
Proof.
  intros H O1 I1.
  destruct (run_ids_ok ops _ _ _ Inv0 H) as (_ & _ & F). clear H.
  revert k O1 I1. induction F as [|e' oi' ops' ids' HR F IH]; intros k A B; [destruct k; discriminate|].
  destruct k; cbn in A, B.
  - injection A as <-. injection B as <-. destruct oi' as [x|]; cbn in HR.
    + split; [intros _; exact (proj2 HR) | intros _; discriminate].
    + rewrite HR. split; [congruence | discriminate].
  - eapply IH; eassumption.
Qed.

(** * issubclass = closure of the name-level bases *)
Fixpoint nle_f fuel (a b : cname) : bool :=
  cname_eqb a b || match fuel with O => false | S f => existsb (fun c => nle_f f c b) (doc_bases a) end.

Definition qd q := match q with QPort => 10 | _ => 3 end.
Definition wd p := match p with PVecAny FBV => 1 | PVecAny _ => 2 | PVec FBV _ _ => 2 | PVec _ _ _ => 4 | _ => 1 end.
Definition depth (c : cname) : nat :=
  match c with
  | CObject => 0 | CPrimT => 1 | CTQBase => 1 | CTQ => 2
  | CP (PLeaf _) => 2 | CP (PVecAny FBV) => 2 | CP (PVecAny _) => 3 | CP PArrAny => 2
  | CP (PVec FBV _ _) => 3 | CP (PVec _ _ _) => 4 | CP (PArr _ _) => 3
  | CQAny QPort => 4 | CQAny _ => 3
  | CQ q _ p => qd q + wd p
  | CAnon q _ _ _ _ => qd q + 3
  end.

Lemma depth_bases a c : In c (doc_bases a) -> depth c < depth a.
Proof.
  destruct a as [ | | | | p | q | q d p | q d f o w]; cbn [doc_bases].
  1-4: cbn; intuition (subst; cbn; lia).
  - destruct p as [l | f | f o w | | e n]; try destruct f; cbn; intuition (subst; cbn; lia).
  - destruct q; cbn; intuition (subst; cbn; lia).
  - destruct q; destruct p as [l | f | f o w | | e n]; try destruct f; cbn; intuition (subst; cbn; lia).
  - destruct q, f; cbn; intuition (subst; cbn; lia).
Qed.

Lemma depth_le_14 a : depth a <= 14.
Proof.
  destruct a as [ | | | | p | q | q d p | q d f o w]; cbn; try lia.
  - destruct p as [l | f | f o w | | e n]; try destruct f; cbn; lia.
  - destruct q; lia.
  - destruct q; destruct p as [l | f | f o w | | e n]; try destruct f; cbn; lia.
  - destruct q; cbn; lia.
Qed.

Lemma existsb_ext_in {A} (f g : A -> bool) l : (forall x, In x l -> f x = g x) -> existsb f l = existsb g l.
Proof.
  induction l as [|x r IH]; intros H; cbn; [reflexivity|].
  rewrite (H x (or_introl eq_refl)), IH; [reflexivity | intros y Hy; apply H; right; exact Hy].
Qed.


Lemma nle_f_stable : forall fuel a b, depth a <= fuel -> nle_f fuel a b = nle_f (depth a) a b.
Proof.
  assert (G : forall n fuel a b, depth a <= n -> depth a <= fuel -> nle_f fuel a b = nle_f (depth a) a b).
  { induction n as [|n IH]; intros fuel a b Hn Hf.
    - assert (D : depth a = 0) by lia. rewrite D.
      destruct fuel; [reflexivity|]. cbn [nle_f]. f_equal.
      destruct (doc_bases a) as [|c r] eqn:B; [reflexivity|].
      pose proof (depth_bases a c) as X. rewrite B in X. specialize (X (or_introl eq_refl)). lia.
    - destruct (depth a) as [|da] eqn:D.
      + destruct fuel; [reflexivity|]. cbn [nle_f]. f_equal.
        destruct (doc_bases a) as [|c r] eqn:B; [reflexivity|].
        pose proof (depth_bases a c) as X. rewrite B in X. specialize (X (or_introl eq_refl)). lia.
      + destruct fuel as [|f]; [lia|]. cbn [nle_f]. f_equal. apply existsb_ext_in. intros c Hc.
        pose proof (depth_bases a c Hc) as X.
        rewrite (IH f c b) by lia. rewrite (IH da c b) by lia. reflexivity. }
  intros fuel a b H. apply (G (depth a)); [lia | exact H].
Qed.

Lemma existsb_map2 {A B} (f : A -> bool) (g : B -> bool) (la : list A) (lb : list B) (F : A -> option B) :
  map F la = map Some lb -> (forall a b, F a = Some b -> f a = g b) -> existsb f la = existsb g lb.
Proof.
  revert lb; induction la as [|a r IH]; intros [|b s] E H; cbn in *; try discriminate; [reflexivity|].
  injection E as E1 E2. rewrite (H _ _ E1), (IH _ E2 H). reflexivity.
Qed.

Lemma issub_f_nle st j nb : Inv st -> name_at st j = Some nb -> isanon nb = false ->
  forall fuel i na, name_at st i = Some na -> issub_f fuel st i j = nle_f fuel na nb.
Proof.
  intros I Hj NA. induction fuel as [|f IH]; intros i na Hi; cbn [issub_f nle_f].
  - rewrite !orb_false_r. destruct (Nat.eqb i j) eqn:E.
    + apply Nat.eqb_eq in E; subst. rewrite Hi in Hj. injection Hj as ->. symmetry; apply cname_eqb_refl.
    + destruct (cname_eqb na nb) eqn:E2; [|reflexivity]. apply cname_eqb_eq in E2; subst.
      rewrite (name_unique st i j nb I Hi Hj NA) in E. rewrite Nat.eqb_refl in E. discriminate.
  - f_equal.
    + destruct (Nat.eqb i j) eqn:E.
      * apply Nat.eqb_eq in E; subst. rewrite Hi in Hj. injection Hj as ->. symmetry; apply cname_eqb_refl.
      * destruct (cname_eqb na nb) eqn:E2; [|reflexivity]. apply cname_eqb_eq in E2; subst.
        rewrite (name_unique st i j nb I Hi Hj NA) in E. rewrite Nat.eqb_refl in E. discriminate.
    + unfold name_at in Hi. destruct (nth_error (tbl st) i) as [c|] eqn:N; [|discriminate].
      cbn in Hi. injection Hi as <-. unfold bases. rewrite N.
      apply (existsb_map2 _ _ _ _ (name_at st)); [exact (inv_bases _ I _ _ N) | intros a b H; apply IH; exact H].
Qed.

Definition nle a b := nle_f 14 a b.

Lemma nxt_ge_15 st : Inv st -> 15 <= nxt st.
Proof. intros I. destruct (inv_fix _ I) as (l & E & _). unfold nxt. rewrite E, app_length. cbn. lia. Qed.

Lemma issub_nle st i j na nb : Inv st -> name_at st i = Some na -> name_at st j = Some nb -> isanon nb = false ->
  issub st i j = nle na nb.
Proof.
  intros I Hi Hj NA. unfold issub, nle.
  rewrite (issub_f_nle st j nb I Hj NA _ i na Hi).
  pose proof (nxt_ge_15 st I). pose proof (depth_le_14 na).
  rewrite nle_f_stable by lia. rewrite (nle_f_stable 14) by lia. reflexivity.
Qed.

(** * the closed-form documented relation = closure of the coded bases, for all type expressions *)
Ltac dprim p := destruct p as [[]|[]|[] [] ?| |? ?].
Ltac atoms :=
  repeat match goal with
  | |- context [match ?d with Some _ => _ | None => _ end] => destruct d; cbn
  | |- context [odir_eqb ?a None] => destruct a; cbn
  | |- context [Pos.eqb ?a ?b] => destruct (Pos.eqb a b)
  | |- context [Z.eqb ?a ?b] => destruct (Z.eqb a b)
  | |- context [prim_eqb ?a ?b] => destruct (prim_eqb a b)
  | |- context [odir_eqb ?a ?b] => destruct (odir_eqb a b)
  end.

Lemma nle_doc a b : nle (name_of a) (name_of b) = doc_lattice a b.
Proof.
  destruct a as [p | q | q d p]; [dprim p | destruct q | destruct q; dprim p];
  (destruct b as [p' | q' | q' d' p']; [dprim p' | destruct q' | destruct q'; dprim p']);
  unfold nle, doc_lattice, wle, qany_le, ple; cbn; atoms; reflexivity.
Qed.

Theorem lattice_names st a b i j :
  Inv st -> name_at st i = Some (name_of a) -> name_at st j = Some (name_of b) ->
  issub st i j = doc_lattice a b.
Proof.
  intros I Hi Hj. rewrite (issub_nle st i j _ _ I Hi Hj (name_of_nonanon b)). apply nle_doc.
Qed.

Lemma run_ids_name ops st ids k e x :
  run_ids st0 ops = (st, ids) -> nth_error ops k = Some e -> nth_error ids k = Some (Some x) ->
  name_at st x = Some (name_of e).
Proof.
  intros H. destruct (run_ids_ok ops _ _ _ Inv0 H) as (_ & _ & F). clear H.
  revert k. induction F as [|e' oi ops' ids' HR F IH]; intros k A B; [destruct k; discriminate|].
  destruct k; cbn in A, B.
  - injection A as <-. injection B as ->. exact (proj1 HR).
  - eapply IH; eassumption.
Qed.

Theorem lattice ops st ids k1 k2 a b i j :
  run_ids st0 ops = (st, ids) ->
  nth_error ops k1 = Some a -> nth_error ops k2 = Some b ->
  nth_error ids k1 = Some (Some i) -> nth_error ids k2 = Some (Some j) ->
  issub st i j = doc_lattice a b.
Proof.
  intros H O1 O2 I1 I2.
  apply lattice_names; [exact (proj1 (run_ids_ok ops _ _ _ Inv0 H)) | eapply run_ids_name; eassumption | eapply run_ids_name; eassumption].
Qed.

Lemma cached_name st e i : Inv st -> cached st e = Some i -> name_at st i = Some (name_of e).
Proof.
  intros I H. destruct e as [p | q | q d p]; cbn [cached] in H.
  - destruct p as [l | f | f o w | | e n]; try (exact (proj1 (inv_c1 _ I _ _ H))); injection H as <-.
    + destruct l; cbn; rewrite (fixed_name _ _ I) by lia; reflexivity.
    + destruct f; cbn; rewrite (fixed_name _ _ I) by lia; reflexivity.
    + cbn. unfold arr_id. rewrite (fixed_name _ 8 I) by lia; reflexivity.
  - injection H as <-. apply qfam_name; exact I.
  - exact (proj1 (inv_c1 _ I _ _ H)).
Qed.

(** between ALL classes present in the caches after any history (implicitly created ones included) *)
Theorem lattice_cached ops a b i j :
  cached (run st0 ops) a = Some i -> cached (run st0 ops) b = Some j ->
  issub (run st0 ops) i j = doc_lattice a b.
Proof.
  intros A B. pose proof (run_Inv ops) as I.
  apply lattice_names; [exact I | apply cached_name; assumption | apply cached_name; assumption].
Qed.

Theorem ports_are_signals ops d p i :
  cached (run st0 ops) (TQ QPort (Some d) p) = Some i ->
  exists j, cached (run st0 ops) (TQ QSig None p) = Some j /\ issub (run st0 ops) i j = true /\ issub (run st0 ops) j i = false.
Proof.
  intros H. pose proof (run_Inv ops) as I. set (st := run st0 ops) in *.
  pose proof (cached_name _ _ _ I H) as N. cbn [name_of] in N.
  unfold name_at in N. destruct (nth_error (tbl st) i) as [c|] eqn:E; [|discriminate].
  cbn in N. injection N as N.
  pose proof (inv_bases _ I _ _ E) as B. rewrite N in B. cbn [doc_bases] in B.
  destruct (cbs c) as [|x [|j [|y r]]]; cbn in B; try discriminate.
  injection B as _ Bj.
  assert (C : cached st (TQ QSig None p) = Some j).
  { cbn [cached name_of]. unfold name_at in Bj. destruct (nth_error (tbl st) j) as [cj|] eqn:Ej; [|discriminate].
    cbn in Bj. injection Bj as Bj. pose proof (inv_c2 _ I _ _ Ej) as L. rewrite Bj in L. exact (L eq_refl). }
  subst st. exists j. split; [exact C | split].
  - rewrite (lattice_cached ops _ _ _ _ H C). unfold doc_lattice, wle. cbn. rewrite prim_eqb_refl. reflexivity.
  - rewrite (lattice_cached ops _ _ _ _ C H). reflexivity.
Qed.

(** what the documented relation excludes *)
Lemma doc_lattice_q_sound q d p q' d' p' :
  doc_lattice (TQ q d p) (TQ q' d' p') = true ->
  (q' = q /\ d' = d \/ q = QPort /\ q' = QSig /\ d' = None) /\
  (p = p' \/ is_vec p = true /\ is_vec p' = true /\ ple p p' = true).
Proof.
  unfold doc_lattice, wle. rewrite andb_true_iff, !orb_true_iff, !andb_true_iff.
  rewrite !qfam_eqb_eq, !odir_eqb_eq, prim_eqb_eq.
  intros [[[-> ->] | [[-> ->] ->]] [-> | [[A B] C]]]; split; auto.
Qed.
Lemma ple_vec_sound f o w f' o' w' :
  ple (PVec f o w) (PVec f' o' w') = true -> w = w' /\ (f' = f /\ o' = o \/ f' = FBV /\ f <> FBV /\ o' = Down).
Proof.
  unfold ple. rewrite orb_true_iff. intros [H | H].
  - apply prim_eqb_eq in H. injection H as -> -> ->. auto.
  - destruct f', o'; try discriminate. rewrite andb_true_iff, negb_true_iff in H. destruct H as [A B].
    apply Pos.eqb_eq in B. split; [exact B | right; split; [reflexivity | split; [|reflexivity]]].
    intros ->. discriminate.
Qed.
Lemma ple_vecany_sound f o w f' : ple (PVec f o w) (PVecAny f') = true -> f' = FBV \/ f' = f.
Proof.
  unfold ple. cbn. rewrite orb_true_iff, !fam_eqb_eq. intros [A | A]; auto.
Qed.
Lemma doc_lattice_mixed_false p q d p' : doc_lattice (TP p) (TQ q d p') = false /\ doc_lattice (TQ q d p') (TP p) = false
   /\ doc_lattice (TP p) (TQAny q) = false /\ doc_lattice (TQAny q) (TP p) = false.
Proof. repeat split; reflexivity. Qed.

Theorem unrelated_never_sub ops q d f o w q' d' f' o' w' i j :
  cached (run st0 ops) (TQ q d (PVec f o w)) = Some i ->
  cached (run st0 ops) (TQ q' d' (PVec f' o' w')) = Some j ->
  issub (run st0 ops) i j = true ->
  w = w' /\ (f' = f /\ o' = o \/ f' = FBV /\ f <> FBV /\ o' = Down) /\ (q' = q /\ d' = d \/ q = QPort /\ q' = QSig /\ d' = None).
Proof.
  intros A B S. rewrite (lattice_cached ops _ _ _ _ A B) in S.
  apply doc_lattice_q_sound in S. destruct S as [Q [P | (_ & _ & P)]].
  - injection P as <- <- <-. auto.
  - apply ple_vec_sound in P. destruct P as [P1 P2]. auto.
Qed.

Theorem unrelated_prims_never_sub ops f o w f' o' w' i j :
  cached (run st0 ops) (TP (PVec f o w)) = Some i ->
  cached (run st0 ops) (TP (PVec f' o' w')) = Some j ->
  issub (run st0 ops) i j = true ->
  w = w' /\ (f' = f /\ o' = o \/ f' = FBV /\ f <> FBV /\ o' = Down).
Proof.
  intros A B S. rewrite (lattice_cached ops _ _ _ _ A B) in S. apply ple_vec_sound; exact S.
Qed.

(** * views *)
Import View.

Lemma cast_root v f v' : cast v f = Some v' -> vroot v' = vroot v /\ vq v' = vq v /\ vcells v' = vcells v.
Proof.
  unfold cast. destruct (vkind_ v) as [g|].
  - destruct (fam_eqb f g); intros H; injection H as <-; auto.
  - destruct f; intros H; try discriminate; injection H as <-; auto.
Qed.

Lemma vstep_root v s v' : vstep v s = Some v' -> vroot v' = vroot v /\ vq v' = vq v.
Proof.
  destruct s as [ | | | hi lo | i | k]; cbn [vstep].
  1-3: intros H; apply cast_root in H; tauto.
  - destruct (vkind_ v); [|discriminate]. destruct (lo <=? hi)%Z; [|discriminate].
    destruct (_ && _)%bool; [|discriminate]. intros H; injection H as <-; auto.
  - destruct (vkind_ v); [|discriminate]. destruct (_ && _)%bool; [|discriminate].
    destruct (nth_error _ _); [|discriminate]. intros H; injection H as <-; auto.
  - destruct (vkind_ v); [|discriminate]. destruct (nth_error _ _); [|discriminate]. intros H; injection H as <-; auto.
Qed.

Theorem derive_root ch : forall v v', derive v ch = Some v' -> vroot v' = vroot v /\ vq v' = vq v.
Proof.
  induction ch as [|s r IH]; intros v v' H; cbn in H.
  - injection H as <-; auto.
  - destruct (vstep v s) as [v1|] eqn:E; [|discriminate].
    destruct (vstep_root _ _ _ E) as [A B]. destruct (IH _ _ H) as [C D]. split; congruence.
Qed.

(** cells of a view are a sub-list (in order) of the cells of the view it was taken from *)
Inductive sublist {A} : list A -> list A -> Prop :=
| sub_nil l : sublist [] l
| sub_keep x a b : sublist a b -> sublist (x :: a) (x :: b)
| sub_skip x a b : sublist a b -> sublist a (x :: b).
Lemma sublist_refl {A} (l : list A) : sublist l l.
Proof. induction l; constructor; assumption. Qed.
Lemma sublist_trans {A} (a b c : list A) : sublist a b -> sublist b c -> sublist a c.
Proof.
  intros H1 H2. revert a H1. induction H2 as [l | x b c H IH | x b c H IH]; intros a H1.
  - inversion H1; constructor.
  - inversion H1; subst; [constructor | constructor; apply IH; assumption | apply sub_skip; apply IH; assumption].
  - apply sub_skip. apply IH. exact H1.
Qed.
Lemma sublist_firstn {A} n (l : list A) : sublist (firstn n l) l.
Proof. revert n; induction l as [|x r IH]; intros [|n]; cbn; constructor; apply IH. Qed.
Lemma sublist_skipn {A} n (l : list A) : sublist (skipn n l) l.
Proof. revert n; induction l as [|x r IH]; intros [|n]; cbn; try constructor; [apply sublist_refl | apply IH]. Qed.
Lemma sublist_In {A} (a b : list A) x : sublist a b -> In x a -> In x b.
Proof. induction 1; cbn; intuition. Qed.
Lemma sublist_NoDup {A} (a b : list A) : sublist a b -> NoDup b -> NoDup a.
Proof.
  induction 1 as [l | x a b H IH | x a b H IH]; intros ND.
  - constructor.
  - inversion ND; subst. constructor; [intros HI; apply H2; eapply sublist_In; eassumption | apply IH; assumption].
  - inversion ND; subst. apply IH; assumption.
Qed.
Lemma sublist_single {A} (l : list A) n c : nth_error l n = Some c -> sublist [c] l.
Proof.
  revert n; induction l as [|x r IH]; intros [|n] H; cbn in H; try discriminate.
  - injection H as ->. constructor. constructor.
  - apply sub_skip. eapply IH; eassumption.
Qed.

Lemma vstep_cells v s v' : vstep v s = Some v' -> sublist (vcells v') (vcells v).
Proof.
  destruct s as [ | | | hi lo | i | k]; cbn [vstep].
  1-3: intros H; apply cast_root in H; destruct H as (_ & _ & ->); apply sublist_refl.
  - destruct (vkind_ v); [|discriminate]. destruct (lo <=? hi)%Z; [|discriminate].
    destruct (_ && _)%bool; [|discriminate]. intros H; injection H as <-; cbn.
    unfold subrange. eapply sublist_trans; [apply sublist_firstn | apply sublist_skipn].
  - destruct (vkind_ v); [|discriminate]. destruct (_ && _)%bool; [|discriminate].
    destruct (nth_error _ _) eqn:E; [|discriminate]. intros H; injection H as <-; cbn. eapply sublist_single; exact E.
  - destruct (vkind_ v); [|discriminate]. destruct (nth_error _ _) eqn:E; [|discriminate].
    intros H; injection H as <-; cbn. eapply sublist_single; exact E.
Qed.

Lemma derive_cells ch : forall v v', derive v ch = Some v' -> sublist (vcells v') (vcells v).
Proof.
  induction ch as [|s r IH]; intros v v' H; cbn in H.
  - injection H as <-; apply sublist_refl.
  - destruct (vstep v s) as [v1|] eqn:E; [|discriminate].
    eapply sublist_trans; [apply IH; exact H | eapply vstep_cells; exact E].
Qed.

(** every view of a width-w root: distinct cells of the root's storage *)
Lemma derive_wf id q f w ch v : derive (root_view id q f w) ch = Some v ->
  NoDup (vcells v) /\ forall c, In c (vcells v) -> c < w.
Proof.
  intros H. apply derive_cells in H. cbn in H. split.
  - eapply sublist_NoDup; [exact H | apply seq_NoDup].
  - intros c Hc. pose proof (sublist_In _ _ _ H Hc) as X. apply in_seq in X. lia.
Qed.

(** storage *)
Lemma upd_length st i b : length (upd st i b) = length st.
Proof. revert i; induction st as [|x r IH]; intros [|i]; cbn; auto. Qed.
Lemma nth_upd st i b c : i < length st -> nth c (upd st i b) false = if Nat.eqb c i then b else nth c st false.
Proof.
  revert i c; induction st as [|x r IH]; intros i c H; cbn in H; [lia|].
  destruct i, c; cbn; try reflexivity. apply IH. lia.
Qed.

Fixpoint pos_of (c : nat) (cs : list nat) : option nat :=
  match cs with [] => None | x :: r => if Nat.eqb c x then Some 0 else option_map S (pos_of c r) end.

Lemma write_cells_length cs : forall bs st, length (write_cells st cs bs) = length st.
Proof. induction cs as [|c r IH]; intros [|b bs] st; cbn; auto. rewrite IH. apply upd_length. Qed.

Lemma nth_write_cells cs : forall bs st c,
  NoDup cs -> length bs = length cs -> (forall x, In x cs -> x < length st) ->
  nth c (write_cells st cs bs) false =
  match pos_of c cs with Some k => nth k bs false | None => nth c st false end.
Proof.
  induction cs as [|x r IH]; intros bs st c ND L R; cbn.
  - destruct bs; reflexivity.
  - destruct bs as [|b bs]; [discriminate|]. cbn in L. injection L as L. inversion ND; subst.
    rewrite IH; [| assumption | exact L | intros y Hy; rewrite upd_length; apply R; right; exact Hy].
    destruct (Nat.eqb c x) eqn:E.
    + apply Nat.eqb_eq in E; subst c.
      assert (P : pos_of x r = None).
      { clear -H1. induction r as [|y r IH]; cbn; [reflexivity|].
        destruct (Nat.eqb x y) eqn:E; [apply Nat.eqb_eq in E; subst; exfalso; apply H1; left; reflexivity|].
        rewrite IH; [reflexivity | intros H; apply H1; right; exact H]. }
      rewrite P. cbn. rewrite nth_upd by (apply R; left; reflexivity). rewrite Nat.eqb_refl. reflexivity.
    + destruct (pos_of c r) as [k|]; cbn; [reflexivity|].
      rewrite nth_upd by (apply R; left; reflexivity). rewrite E. reflexivity.
Qed.

(** a write through any view v1 of the root is seen through every view v2 of the same root: cell by cell, v2 reads
    the written bit where it shares the cell with v1 and the old content elsewhere *)
Theorem views_alias id q f (st : store) ch1 ch2 v1 v2 bs :
  derive (root_view id q f (length st)) ch1 = Some v1 ->
  derive (root_view id q f (length st)) ch2 = Some v2 ->
  length bs = length (vcells v1) ->
  read (write st v1 bs) v2 =
    map (fun c => match pos_of c (vcells v1) with Some k => nth k bs false | None => nth c st false end) (vcells v2)
  /\ vroot v1 = id /\ vroot v2 = id /\ vq v1 = q /\ vq v2 = q.
Proof.
  intros D1 D2 L. destruct (derive_wf _ _ _ _ _ _ D1) as [ND R].
  split.
  - unfold read, write. apply map_ext. intros c. apply nth_write_cells; assumption.
  - destruct (derive_root _ _ _ D1) as [A B]. destruct (derive_root _ _ _ D2) as [C D]. cbn in *. auto.
Qed.

(** * the compile-time address (_ref_spec) of every view denotes exactly its storage cells *)
Lemma skipn_seq k : forall a n, skipn k (seq a n) = seq (a + k) (n - k).
Proof.
  induction k as [|k IH]; intros a n.
  - rewrite Nat.add_0_r, Nat.sub_0_r. reflexivity.
  - destruct n as [|n]; cbn [seq skipn]; [reflexivity|]. rewrite IH. f_equal. lia.
Qed.
Lemma firstn_seq k : forall a n, firstn k (seq a n) = seq a (Nat.min k n).
Proof.
  induction k as [|k IH]; intros a n; [reflexivity|].
  destruct n as [|n]; cbn [seq firstn Nat.min]; [reflexivity|]. rewrite IH. reflexivity.
Qed.
Lemma nth_error_seq k : forall a n, k < n -> nth_error (seq a n) k = Some (a + k).
Proof.
  induction k as [|k IH]; intros a n H; destruct n as [|n]; try lia; cbn.
  - f_equal; lia.
  - rewrite IH by lia. f_equal; lia.
Qed.
Lemma nth_error_seq_inv k a n c : nth_error (seq a n) k = Some c -> k < n /\ c = a + k.
Proof.
  intros H. assert (L : k < n) by (rewrite <- (seq_length n a); apply nth_error_Some; congruence).
  rewrite nth_error_seq in H by exact L. injection H as <-. auto.
Qed.
Lemma zsum_app l x : zsum (l ++ [x]) = (zsum l + x)%Z.
Proof. induction l as [|y r IH]; cbn; [lia|]. unfold zsum in IH. cbn in IH. rewrite IH. lia. Qed.

(** cells are a contiguous ascending range whose start and length are what the ref-spec says *)
Definition vinv (w : nat) (v : view) : Prop :=
  exists a n, vcells v = seq a n /\
  match vspec v with
  | RNone => a = 0 /\ n = w
  | RSlice hi lo base => Z.of_nat a = (lo + zsum base)%Z /\ Z.of_nat n = (hi - lo + 1)%Z
  | ROffset o base => Z.of_nat a = (o + zsum base)%Z /\ n = 1 /\ vkind_ v = KBit
  end.

Lemma vinv_base w v a n f :
  match vspec v with
  | RNone => a = 0 /\ n = w
  | RSlice hi lo base => Z.of_nat a = (lo + zsum base)%Z /\ Z.of_nat n = (hi - lo + 1)%Z
  | ROffset o base => Z.of_nat a = (o + zsum base)%Z /\ n = 1 /\ vkind_ v = KBit
  end -> vkind_ v = KVec f -> Z.of_nat a = zsum (next_base (vspec v)).
Proof.
  intros H K. destruct (vspec v) as [|hi lo base|o base]; cbn [next_base].
  - destruct H as [-> _]. reflexivity.
  - rewrite zsum_app. lia.
  - destruct H as (_ & _ & H). congruence.
Qed.

Lemma vstep_vinv w v s v' : vinv w v -> vstep v s = Some v' -> vinv w v'.
Proof.
  intros I H. pose proof I as (a & n & E & S).
  destruct s as [ | | | hi lo | i | k]; cbn [vstep] in H.
  1-3: unfold cast in H; destruct (vkind_ v) as [g|] eqn:K;
    [ destruct (fam_eqb _ g); injection H as <-; [exact I|];
      exists a, n; cbn; split; [exact E|]; destruct (vspec v); [exact S | exact S | destruct S as (_ & _ & S); congruence]
    | try discriminate; try (injection H as <-; exact I) ].
  - destruct (vkind_ v) as [g|] eqn:K; [|discriminate].
    destruct (lo <=? hi)%Z eqn:L1; [|discriminate].
    destruct ((0 <=? lo) && (hi <? Z.of_nat (length (vcells v))))%Z eqn:L2; [|discriminate].
    injection H as <-. apply Z.leb_le in L1. apply andb_true_iff in L2. destruct L2 as [L2 L3].
    apply Z.leb_le in L2. apply Z.ltb_lt in L3. rewrite E, seq_length in L3.
    rewrite <- K in S; pose proof (vinv_base w v a n g S K) as B.
    exists (a + Z.to_nat lo), (Z.to_nat (hi - lo + 1)). cbn. split.
    + unfold subrange. rewrite E, skipn_seq, firstn_seq. f_equal. lia.
    + lia.
  - destruct (vkind_ v) as [g|] eqn:K; [|discriminate].
    destruct ((0 <=? i) && (i <? Z.of_nat (length (vcells v))))%Z eqn:L2; [|discriminate].
    destruct (nth_error (vcells v) (Z.to_nat i)) as [c|] eqn:N; [|discriminate].
    injection H as <-. apply andb_true_iff in L2. destruct L2 as [L2 L3]. apply Z.leb_le in L2.
    rewrite <- K in S; pose proof (vinv_base w v a n g S K) as B.
    rewrite E in N. apply nth_error_seq_inv in N. destruct N as [N1 ->].
    exists (a + Z.to_nat i), 1. cbn. split; [reflexivity | split; [lia | auto]].
  - destruct (vkind_ v) as [g|] eqn:K; [|discriminate].
    destruct (nth_error (vcells v) k) as [c|] eqn:N; [|discriminate].
    injection H as <-.
    rewrite <- K in S; pose proof (vinv_base w v a n g S K) as B.
    rewrite E in N. apply nth_error_seq_inv in N. destruct N as [N1 ->].
    exists (a + k), 1. cbn. split; [reflexivity | split; [lia | auto]].
Qed.

Lemma derive_vinv w ch : forall v v', vinv w v -> derive v ch = Some v' -> vinv w v'.
Proof.
  induction ch as [|s r IH]; intros v v' I H; cbn in H.
  - injection H as <-; exact I.
  - destruct (vstep v s) as [v1|] eqn:E; [|discriminate]. eapply IH; [eapply vstep_vinv; eassumption | exact H].
Qed.

(** for EVERY chain of casts, slices, indices and iteration: the recorded _ref_spec denotes exactly the storage cells *)
Theorem refspec_cells id q f w ch v :
  derive (root_view id q f w) ch = Some v ->
  (0 <= fst (resolve w (vspec v)))%Z /\
  vcells v = seq (Z.to_nat (fst (resolve w (vspec v))))
                 (Z.to_nat (snd (resolve w (vspec v)) - fst (resolve w (vspec v)) + 1)).
Proof.
  intros D.
  assert (I0 : vinv w (root_view id q f w)) by (exists 0, w; cbn; auto).
  destruct (derive_vinv w ch _ _ I0 D) as (a & n & E & S). rewrite E.
  destruct (vspec v) as [|hi lo base|o base]; cbn [resolve fst snd].
  - destruct S as [-> ->]. split; [lia | f_equal; lia].
  - destruct S as [S1 S2]. split; [lia | f_equal; lia].
  - destruct S as (S1 & -> & _). split; [lia | f_equal; lia].
Qed.

(** the element reached by iteration and the one reached by indexing have the same address and the same cell *)
Example iter_equals_index :
  exists v v', derive (root_view 0 (QSig, None) FBV 8) [SSlice 7 2; SSlice 3 1; SIter 0] = Some v /\
               derive (root_view 0 (QSig, None) FBV 8) [SSlice 7 2; SSlice 3 1; SIndex 0] = Some v' /\
               vcells v = [3] /\ vcells v' = [3] /\ resolve 8 (vspec v) = (3, 3)%Z /\ resolve 8 (vspec v') = (3, 3)%Z.
Proof. eexists; eexists. repeat split; vm_compute; reflexivity. Qed.
