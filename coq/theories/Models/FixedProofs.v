(** * FixedProofs: lemmas about Models/Fixed.v (property C19) *)
From Coq Require Import ZArith List Bool Lia.
From Cohdl Require Import Models.Fixed.
Import ListNotations.
Local Open Scope Z_scope.

(* ------------------------------------------------------------------------- *)
(** ** powers of two *)

Lemma p2_pos k : 0 <= k -> 0 < p2 k.
Proof. intros. unfold p2. apply Z.pow_pos_nonneg; lia. Qed.

Lemma p2_0 : p2 0 = 1.
Proof. reflexivity. Qed.

Lemma p2_1 : p2 1 = 2.
Proof. reflexivity. Qed.

Lemma p2_add a b : 0 <= a -> 0 <= b -> p2 (a + b) = p2 a * p2 b.
Proof. intros. unfold p2. apply Z.pow_add_r; lia. Qed.

Lemma p2_S k : 0 <= k -> p2 (k + 1) = 2 * p2 k.
Proof. intros. rewrite p2_add by lia. rewrite p2_1. lia. Qed.

Lemma p2_pred k : 1 <= k -> p2 k = 2 * p2 (k - 1).
Proof. intros. replace k with ((k - 1) + 1) at 1 by lia. apply p2_S. lia. Qed.

Lemma p2_split a b : 0 <= b <= a -> p2 a = p2 b * p2 (a - b).
Proof. intros. rewrite <- p2_add by lia. f_equal. lia. Qed.

Lemma p2_mono a b : 0 <= a <= b -> p2 a <= p2 b.
Proof. intros. unfold p2. apply Z.pow_le_mono_r; lia. Qed.

Lemma p2_mono_lt a b : 0 <= a < b -> p2 a < p2 b.
Proof. intros. unfold p2. apply Z.pow_lt_mono_r; lia. Qed.

Lemma p2_ge1 k : 0 <= k -> 1 <= p2 k.
Proof. intros. pose proof (p2_pos k). lia. Qed.

(** x in the signed range of a+1 bits, shifted left by z, fits b+1 bits when a + z <= b *)
Lemma scale_bound x a zz b :
  0 <= a -> 0 <= zz -> a + zz <= b -> - p2 a <= x < p2 a ->
  - p2 b <= x * p2 zz /\ x * p2 zz <= p2 b - p2 zz.
Proof.
  intros Ha Hz Hab Hx.
  pose proof (p2_pos zz Hz) as Pz.
  pose proof (p2_mono (a + zz) b ltac:(lia)) as Hm.
  rewrite p2_add in Hm by lia.
  split; nia.
Qed.

Lemma uscale_bound x a zz b :
  0 <= a -> 0 <= zz -> a + zz <= b -> 0 <= x < p2 a ->
  0 <= x * p2 zz /\ x * p2 zz <= p2 b - p2 zz.
Proof.
  intros Ha Hz Hab Hx.
  pose proof (p2_pos zz Hz) as Pz.
  pose proof (p2_mono (a + zz) b ltac:(lia)) as Hm.
  rewrite p2_add in Hm by lia.
  split; nia.
Qed.

(* ------------------------------------------------------------------------- *)
(** ** signed reading *)

(** the two's complement wrap of z into n bits *)
Definition swrap (n z : Z) : Z := (z + p2 (n - 1)) mod p2 n - p2 (n - 1).

Lemma sv_mod n z : 1 <= n -> sv (n, z mod p2 n) = swrap n z.
Proof.
  intros Hn. unfold sv, swrap.
  rewrite (p2_pred n Hn).
  pose proof (p2_pos (n - 1) ltac:(lia)) as Hh.
  set (h := p2 (n - 1)) in *.
  pose proof (Z.div_mod z (2 * h) ltac:(lia)) as E.
  pose proof (Z.mod_pos_bound z (2 * h) ltac:(lia)) as B.
  set (m := z mod (2 * h)) in *. set (q := z / (2 * h)) in *.
  destruct (Z.ltb_spec m h).
  - assert ((z + h) mod (2 * h) = m + h) as ->; [|lia].
    symmetry. apply (Z.mod_unique _ _ q); lia.
  - assert ((z + h) mod (2 * h) = m - h) as ->; [|lia].
    symmetry. apply (Z.mod_unique _ _ (q + 1)); lia.
Qed.

Lemma swrap_small n z : 1 <= n -> - p2 (n - 1) <= z < p2 (n - 1) -> swrap n z = z.
Proof.
  intros Hn Hz. unfold swrap. rewrite (p2_pred n Hn).
  rewrite Z.mod_small; lia.
Qed.

Lemma swrap_range n z : 1 <= n -> - p2 (n - 1) <= swrap n z < p2 (n - 1).
Proof.
  intros Hn. unfold swrap. rewrite (p2_pred n Hn).
  pose proof (p2_pos (n - 1) ltac:(lia)).
  pose proof (Z.mod_pos_bound (z + p2 (n - 1)) (2 * p2 (n - 1)) ltac:(lia)). lia.
Qed.

Lemma swrap_swrap_add n a b : 1 <= n -> swrap n (swrap n a + b) = swrap n (a + b).
Proof.
  intros Hn. unfold swrap.
  pose proof (p2_pos n ltac:(lia)).
  f_equal.
  replace ((a + p2 (n - 1)) mod p2 n - p2 (n - 1) + b + p2 (n - 1))
    with ((a + p2 (n - 1)) mod p2 n + b) by lia.
  rewrite Zplus_mod_idemp_l. f_equal. lia.
Qed.

Lemma sv_small n z : 1 <= n -> - p2 (n - 1) <= z < p2 (n - 1) -> sv (n, z mod p2 n) = z.
Proof. intros. rewrite sv_mod by lia. apply swrap_small; lia. Qed.

Lemma sv_vecS w raw : 1 <= w -> - p2 (w - 1) <= raw < p2 (w - 1) -> sv (vecS w raw) = raw.
Proof. intros. unfold vecS. apply sv_small; lia. Qed.

(* ------------------------------------------------------------------------- *)
(** ** constructors of vectors *)

Lemma mkS_ok w zz : 1 <= w -> - p2 (w - 1) <= zz < p2 (w - 1) -> mkS w zz = Ok (w, zz mod p2 w).
Proof.
  intros Hw Hz. unfold mkS.
  destruct (Z.ltb_spec w 1); [lia|].
  destruct (Z.leb_spec (- p2 (w - 1)) zz); [|lia].
  destruct (Z.ltb_spec zz (p2 (w - 1))); [|lia]. reflexivity.
Qed.

Lemma mkU_ok w zz : 1 <= w -> 0 <= zz < p2 w -> mkU w zz = Ok (w, zz).
Proof.
  intros Hw Hz. unfold mkU.
  destruct (Z.ltb_spec w 1); [lia|].
  destruct (Z.leb_spec 0 zz); [|lia].
  destruct (Z.ltb_spec zz (p2 w)); [|lia]. reflexivity.
Qed.

Lemma fin_s_ok l r w u : w = l - r + 1 -> fin_s l r (w, u) = Ok (l, r, sv (w, u)).
Proof. intros ->. unfold fin_s, vw, fst. rewrite Z.eqb_refl. reflexivity. Qed.

Lemma fin_u_ok l r w u : w = l - r + 1 -> fin_u l r (w, u) = Ok (l, r, u).
Proof. intros ->. unfold fin_u, vw, vu, fst, snd. rewrite Z.eqb_refl. reflexivity. Qed.

(** [Signed.resize] of a well formed value *)
Lemma s_resize_ok w raw tw zz :
  1 <= w -> - p2 (w - 1) <= raw < p2 (w - 1) -> 0 <= zz -> w + zz <= tw ->
  s_resize (vecS w raw) tw zz = Ok (tw, (raw * p2 zz) mod p2 tw).
Proof.
  intros Hw Hr Hz Ht. unfold s_resize.
  replace (vw (vecS w raw)) with w by reflexivity.
  destruct (Z.gtb_spec (w + zz) tw); [lia|].
  rewrite sv_vecS by lia.
  apply mkS_ok; [lia|].
  pose proof (scale_bound raw (w - 1) zz (tw - 1) ltac:(lia) ltac:(lia) ltac:(lia) Hr).
  pose proof (p2_pos zz Hz). lia.
Qed.

Lemma u_resize_ok w raw tw zz :
  1 <= w -> 0 <= raw < p2 w -> 0 <= zz -> w + zz <= tw ->
  u_resize (vecU w raw) tw zz = Ok (tw, raw * p2 zz).
Proof.
  intros Hw Hr Hz Ht. unfold u_resize.
  replace (vw (vecU w raw)) with w by reflexivity.
  replace (vu (vecU w raw)) with raw by reflexivity.
  destruct (Z.gtb_spec (w + zz) tw); [lia|].
  apply mkU_ok; [lia|].
  pose proof (uscale_bound raw w zz tw ltac:(lia) ltac:(lia) ltac:(lia) Hr).
  pose proof (p2_pos zz Hz). lia.
Qed.

(* ------------------------------------------------------------------------- *)
(** ** + - * are exact *)

Lemma wf_S l r raw : wf SFixed (l, r, raw) ->
  1 <= l - r + 1 /\ - p2 (l - r + 1 - 1) <= raw < p2 (l - r + 1 - 1).
Proof. unfold wf, min_raw, max_raw. lia. Qed.

Lemma wf_U l r raw : wf UFixed (l, r, raw) -> 1 <= l - r + 1 /\ 0 <= raw < p2 (l - r + 1).
Proof. unfold wf, min_raw, max_raw. lia. Qed.

Lemma neg_mod m b : 0 < m -> (m - 1 - b mod m + 1) mod m = (- b) mod m.
Proof.
  intros Hm. replace (m - 1 - b mod m + 1) with (m - b mod m) by lia.
  rewrite Zminus_mod_idemp_r.
  replace (m - b) with (- b + 1 * m) by lia. apply Z_mod_plus_full.
Qed.

Section Arith.
  Variables (l1 r1 a l2 r2 b : Z).
  Let tr := Z.min r1 r2.
  Let tl := Z.max l1 l2 + 1.
  Let tw := tl - tr + 1.
  Let A := a * p2 (r1 - tr).
  Let B := b * p2 (r2 - tr).

  Lemma add_exact_S : wf SFixed (l1, r1, a) -> wf SFixed (l2, r2, b) ->
    add SFixed (l1, r1, a) (l2, r2, b) = Ok (tl, tr, A + B) /\
    sub SFixed (l1, r1, a) (l2, r2, b) = Ok (tl, tr, A - B).
  Proof.
    intros Ha Hb. apply wf_S in Ha, Hb. destruct Ha as [Wa Ra], Hb as [Wb Rb].
    unfold add, sub, addsub. cbn [k_resize to_vec fin k_add k_neg].
    fold tr tl tw.
    assert (Htw : 2 <= tw) by (unfold tw, tl, tr; lia).
    rewrite (s_resize_ok (l1 - r1 + 1) a tw (r1 - tr)) by (unfold tw, tl, tr; lia).
    rewrite (s_resize_ok (l2 - r2 + 1) b tw (r2 - tr)) by (unfold tw, tl, tr; lia).
    fold A B. cbn [bind].
    pose proof (scale_bound a (l1 - r1) (r1 - tr) (tw - 2) ltac:(lia) ltac:(unfold tr; lia)
                  ltac:(unfold tw, tl, tr; lia) ltac:(replace (l1 - r1) with (l1 - r1 + 1 - 1) by lia; exact Ra)) as BA.
    pose proof (scale_bound b (l2 - r2) (r2 - tr) (tw - 2) ltac:(lia) ltac:(unfold tr; lia)
                  ltac:(unfold tw, tl, tr; lia) ltac:(replace (l2 - r2) with (l2 - r2 + 1 - 1) by lia; exact Rb)) as BB.
    fold A in BA. fold B in BB.
    pose proof (p2_pos (r1 - tr) ltac:(unfold tr; lia)) as P1.
    pose proof (p2_pos (r2 - tr) ltac:(unfold tr; lia)) as P2.
    pose proof (p2_pred (tw - 1) ltac:(lia)) as E. replace (tw - 1 - 1) with (tw - 2) in E by lia.
    pose proof (p2_pos tw ltac:(lia)) as Ptw.
    assert (SA : sv (tw, A mod p2 tw) = A) by (apply sv_small; lia).
    assert (SB : sv (tw, B mod p2 tw) = B) by (apply sv_small; lia).
    split.
    - unfold s_add. cbn [vw fst]. rewrite Z.max_id, SA, SB.
      rewrite fin_s_ok by reflexivity. rewrite sv_small by lia. reflexivity.
    - unfold s_neg. destruct (Z.eqb_spec tw 1); [lia|].
      rewrite neg_mod by lia.
      unfold s_add. cbn [vw fst]. rewrite Z.max_id, SA.
      rewrite (sv_small tw (- B)) by lia.
      rewrite fin_s_ok by reflexivity. rewrite sv_small by lia. f_equal.
  Qed.

  Lemma add_exact_U : wf UFixed (l1, r1, a) -> wf UFixed (l2, r2, b) ->
    add UFixed (l1, r1, a) (l2, r2, b) = Ok (tl, tr, A + B) /\
    sub UFixed (l1, r1, a) (l2, r2, b) = Ok (tl, tr, (A - B) mod p2 tw).
  Proof.
    intros Ha Hb. apply wf_U in Ha, Hb. destruct Ha as [Wa Ra], Hb as [Wb Rb].
    unfold add, sub, addsub. cbn [k_resize to_vec fin k_add k_neg].
    fold tr tl tw.
    assert (Htw : 2 <= tw) by (unfold tw, tl, tr; lia).
    rewrite (u_resize_ok (l1 - r1 + 1) a tw (r1 - tr)) by (unfold tw, tl, tr; lia).
    rewrite (u_resize_ok (l2 - r2 + 1) b tw (r2 - tr)) by (unfold tw, tl, tr; lia).
    fold A B. cbn [bind].
    pose proof (uscale_bound a (l1 - r1 + 1) (r1 - tr) (tw - 1) ltac:(lia) ltac:(unfold tr; lia)
                  ltac:(unfold tw, tl, tr; lia) Ra) as BA.
    pose proof (uscale_bound b (l2 - r2 + 1) (r2 - tr) (tw - 1) ltac:(lia) ltac:(unfold tr; lia)
                  ltac:(unfold tw, tl, tr; lia) Rb) as BB.
    fold A in BA. fold B in BB.
    pose proof (p2_pos (r1 - tr) ltac:(unfold tr; lia)) as P1.
    pose proof (p2_pos (r2 - tr) ltac:(unfold tr; lia)) as P2.
    pose proof (p2_pred tw ltac:(lia)) as E.
    split.
    - unfold u_add. cbn [vw vu fst snd]. rewrite Z.max_id.
      rewrite fin_u_ok by reflexivity. rewrite Z.mod_small by lia. reflexivity.
    - unfold u_neg, u_add. cbn [vw vu fst snd]. rewrite Z.max_id.
      rewrite fin_u_ok by reflexivity.
      replace (p2 tw - 1 - B + 1) with (p2 tw - B) by lia.
      rewrite Zplus_mod_idemp_r.
      replace (A + (p2 tw - B)) with (A - B + 1 * p2 tw) by lia.
      rewrite Z_mod_plus_full. reflexivity.
  Qed.
End Arith.

Lemma mul_exact_S l1 r1 a l2 r2 b : wf SFixed (l1, r1, a) -> wf SFixed (l2, r2, b) ->
  mul SFixed (l1, r1, a) (l2, r2, b) = Ok (l1 + l2 + 1, r1 + r2, a * b).
Proof.
  intros Ha Hb. apply wf_S in Ha, Hb. destruct Ha as [Wa Ra], Hb as [Wb Rb].
  unfold mul. cbn [to_vec k_mk k_val fin].
  rewrite !sv_vecS by lia. cbn [vw vecS fst].
  set (w1 := l1 - r1 + 1) in *. set (w2 := l2 - r2 + 1) in *.
  assert (R : - p2 (w1 + w2 - 1) <= a * b < p2 (w1 + w2 - 1)).
  { replace (w1 + w2 - 1) with ((w1 - 1) + (w2 - 1) + 1) by lia.
    rewrite p2_S by lia. rewrite p2_add by lia.
    pose proof (p2_pos (w1 - 1) ltac:(lia)). pose proof (p2_pos (w2 - 1) ltac:(lia)). nia. }
  rewrite mkS_ok by lia. cbn [bind].
  rewrite fin_s_ok by (unfold w1, w2; lia). rewrite sv_small by lia. reflexivity.
Qed.

Lemma mul_exact_U l1 r1 a l2 r2 b : wf UFixed (l1, r1, a) -> wf UFixed (l2, r2, b) ->
  mul UFixed (l1, r1, a) (l2, r2, b) = Ok (l1 + l2 + 1, r1 + r2, a * b).
Proof.
  intros Ha Hb. apply wf_U in Ha, Hb. destruct Ha as [Wa Ra], Hb as [Wb Rb].
  unfold mul. cbn [to_vec k_mk k_val fin vecU vw vu fst snd].
  set (w1 := l1 - r1 + 1) in *. set (w2 := l2 - r2 + 1) in *.
  assert (R : 0 <= a * b < p2 (w1 + w2)).
  { rewrite p2_add by lia. nia. }
  rewrite mkU_ok by lia. cbn [bind].
  rewrite fin_u_ok by (unfold w1, w2; lia). reflexivity.
Qed.

(* ------------------------------------------------------------------------- *)
(** ** slicing lemmas *)

Lemma mod_mod_narrow x a b : 0 <= a <= b -> (x mod p2 b) mod p2 a = x mod p2 a.
Proof.
  intros H. rewrite (p2_split b a H).
  pose proof (p2_pos a ltac:(lia)). pose proof (p2_pos (b - a) ltac:(lia)).
  rewrite Z.rem_mul_r by lia.
  rewrite Z.mul_comm, Z_mod_plus_full. apply Z.mod_mod. lia.
Qed.

Lemma mod_div x c n : 0 <= c -> 0 <= n -> (x mod p2 (c + n)) / p2 c = (x / p2 c) mod p2 n.
Proof.
  intros Hc Hn. rewrite p2_add by lia.
  pose proof (p2_pos c Hc). pose proof (p2_pos n Hn).
  rewrite Z.rem_mul_r by lia.
  rewrite (Z.mul_comm (p2 c)), Z.div_add by lia.
  rewrite Z.div_small by (apply Z.mod_pos_bound; lia). lia.
Qed.

Lemma div_mod_narrow x W c n : 0 <= c -> 0 <= n -> c + n <= W ->
  ((x mod p2 W) / p2 c) mod p2 n = (x / p2 c) mod p2 n.
Proof.
  intros Hc Hn HW.
  replace W with (c + (W - c)) at 1 by lia.
  rewrite mod_div by lia. apply mod_mod_narrow. lia.
Qed.

Lemma slice_mod x W c n : 0 <= c -> 0 <= n -> c + n <= W ->
  ((x mod p2 W) mod p2 (c + n)) / p2 c = (x / p2 c) mod p2 n.
Proof.
  intros. rewrite mod_mod_narrow by lia. apply mod_div; lia.
Qed.

Lemma bitz_mod x W i : 0 <= i < W -> bitz (x mod p2 W) i = bitz x i.
Proof.
  intros H. unfold bitz. change 2 with (p2 1).
  rewrite div_mod_narrow by lia. reflexivity.
Qed.

Lemma div_range x a c : 0 <= c <= a -> - p2 a <= x < p2 a ->
  - p2 (a - c) <= x / p2 c < p2 (a - c).
Proof.
  intros H Hx. rewrite (p2_split a c H) in Hx.
  pose proof (p2_pos c ltac:(lia)). pose proof (p2_pos (a - c) ltac:(lia)).
  split.
  - apply Z.div_le_lower_bound; lia.
  - apply Z.div_lt_upper_bound; lia.
Qed.

Lemma udiv_range x a c : 0 <= c <= a -> 0 <= x < p2 a -> 0 <= x / p2 c < p2 (a - c).
Proof.
  intros H Hx. rewrite (p2_split a c H) in Hx.
  pose proof (p2_pos c ltac:(lia)). pose proof (p2_pos (a - c) ltac:(lia)).
  split.
  - apply Z.div_pos; lia.
  - apply Z.div_lt_upper_bound; lia.
Qed.

(* ------------------------------------------------------------------------- *)
(** ** rounding increment *)

Definition rnd_inc (x c : Z) : Z :=
  let rem := x mod p2 c in
  let fl := x / p2 c in
  if 2 * rem <? p2 c then 0
  else if 2 * rem >? p2 c then 1
  else if Z.even fl then 0 else 1.

Lemma rnd_inc_range x c : 0 <= rnd_inc x c <= 1.
Proof. unfold rnd_inc. repeat destruct (_ : bool); lia. Qed.

Lemma rnd_inc_mod x W c : 1 <= c < W -> rnd_inc (x mod p2 W) c = rnd_inc x c.
Proof.
  intros H. unfold rnd_inc.
  rewrite mod_mod_narrow by lia.
  replace (Z.even (x mod p2 W / p2 c)) with (Z.even (x / p2 c)); [reflexivity|].
  rewrite !Zeven_mod. change 2 with (p2 1).
  rewrite div_mod_narrow by lia. reflexivity.
Qed.

Lemma spec_round_ge rs sr r raw : r <= sr -> spec_round rs sr r raw = raw * p2 (sr - r).
Proof. intros. unfold spec_round. destruct (Z.geb_spec sr r); [reflexivity|lia]. Qed.

Lemma spec_round_trunc sr r raw : sr < r -> spec_round Truncate sr r raw = raw / p2 (r - sr).
Proof. intros. unfold spec_round. destruct (Z.geb_spec sr r); [lia|reflexivity]. Qed.

Lemma spec_round_round sr r raw : sr < r ->
  spec_round Round sr r raw = raw / p2 (r - sr) + rnd_inc raw (r - sr).
Proof.
  intros. unfold spec_round, rnd_inc. destruct (Z.geb_spec sr r); [lia|].
  repeat destruct (_ : bool); lia.
Qed.

(** the [do_round] expression computes the nearest-even increment *)
Lemma do_round_ok W u c : 1 <= c < W -> do_round (W, u) c = Ok (rnd_inc u c).
Proof.
  intros H. unfold do_round, vbit.
  pose proof (p2_pos (c - 1) ltac:(lia)) as Pc.
  assert (Ec : p2 c = p2 (c - 1) * 2) by (rewrite (p2_pred c) by lia; lia).
  (* u mod 2^c = h * 2^(c-1) + t *)
  assert (Er : u mod p2 c = u mod p2 (c - 1) + p2 (c - 1) * ((u / p2 (c - 1)) mod 2)).
  { rewrite Ec. apply Z.rem_mul_r; lia. }
  pose proof (Z.mod_pos_bound u (p2 (c - 1)) ltac:(lia)) as Bt.
  pose proof (Z.mod_pos_bound (u / p2 (c - 1)) 2 ltac:(lia)) as Bh.
  assert (Ev : Z.even (u / p2 c) = negb (bitz u c)).
  { unfold bitz. rewrite Zmod_even. destruct (Z.even (u / p2 c)); reflexivity. }
  unfold rnd_inc. rewrite Ev, Er.
  set (t := u mod p2 (c - 1)) in *. set (h := (u / p2 (c - 1)) mod 2) in *.
  assert (Hb : bitz u (c - 1) = (h =? 1)) by reflexivity.
  destruct (Z.eqb_spec c 1) as [->|Hc1].
  - replace (1 - 1) with 0 in * by lia. rewrite p2_0 in *.
    assert (t = 0) by lia.
    destruct (Z.leb_spec 0 0); [|lia]. destruct (Z.ltb_spec 0 W); [|lia]. cbn [andb bind].
    rewrite Hb. destruct (Z.ltb_spec 1 W); [|lia]. destruct (Z.leb_spec 0 1); [|lia]. cbn [andb bind].
    rewrite Ec.
    destruct (Z.eqb_spec h 1).
    + destruct (Z.ltb_spec (2 * (t + 1 * h)) (1 * 2)); [lia|].
      destruct (Z.gtb_spec (2 * (t + 1 * h)) (1 * 2)); [lia|].
      destruct (bitz u 1); reflexivity.
    + destruct (Z.ltb_spec (2 * (t + 1 * h)) (1 * 2)); [reflexivity|lia].
  - destruct (Z.leb_spec 0 (c - 1)); [|lia]. destruct (Z.ltb_spec (c - 1) W); [|lia]. cbn [andb bind].
    rewrite Hb.
    destruct (Z.leb_spec 0 c); [|lia]. destruct (Z.ltb_spec c W); [|lia]. cbn [andb bind].
    cbn [vu snd]. fold t.
    rewrite Ec.
    destruct (Z.eqb_spec h 1).
    + destruct (Z.ltb_spec (2 * (t + p2 (c - 1) * h)) (p2 (c - 1) * 2)); [nia|].
      destruct (bitz u c); cbn [negb].
      * destruct (Z.gtb_spec (2 * (t + p2 (c - 1) * h)) (p2 (c - 1) * 2)); reflexivity.
      * destruct (Z.eqb_spec t 0);
        destruct (Z.gtb_spec (2 * (t + p2 (c - 1) * h)) (p2 (c - 1) * 2)); try reflexivity; nia.
    + assert (h = 0) by lia.
      destruct (Z.ltb_spec (2 * (t + p2 (c - 1) * h)) (p2 (c - 1) * 2)); [reflexivity|nia].
Qed.

(* ------------------------------------------------------------------------- *)
(** ** resize: vector level lemmas *)

Lemma lsbr_ok W u ov : 0 <= ov < W -> lsbr (W, u) ov = Ok (W - ov, u mod p2 (W - ov)).
Proof.
  intros H. unfold lsbr.
  destruct (Z.leb_spec 1 (W - ov)); [|lia]. destruct (Z.leb_spec (W - ov) W); [|lia]. reflexivity.
Qed.

Lemma msbr_ok W u c : 0 <= c < W -> msbr (W, u) c = Ok (W - c, u / p2 c).
Proof.
  intros H. unfold msbr.
  destruct (Z.leb_spec 1 (W - c)); [|lia]. destruct (Z.leb_spec (W - c) W); [|lia]. cbn [andb].
  replace (W - (W - c)) with c by lia. reflexivity.
Qed.

(** lsb(rest=ov).msb(rest=c) of a vector holding x mod 2^W *)
Lemma slice_ok W x ov c : 0 <= ov -> 0 <= c -> 1 <= W - ov - c ->
  (y <- lsbr (W, x mod p2 W) ov ;; msbr y c) = Ok (W - ov - c, (x / p2 c) mod p2 (W - ov - c)).
Proof.
  intros Ho Hc Hn. rewrite lsbr_ok by lia. cbn [bind].
  rewrite msbr_ok by lia. rewrite mod_mod_narrow by lia.
  replace (W - ov) with (c + (W - ov - c)) at 2 by lia.
  rewrite mod_div by lia. reflexivity.
Qed.

Lemma conv_fin_S n x l r : 1 <= n <= l - r + 1 ->
  (z <- s_conv (l - r + 1) (n, x mod p2 n) ;; fin_s l r z) = Ok (l, r, swrap n x).
Proof.
  intros H. unfold s_conv. cbn [vw fst].
  destruct (Z.gtb_spec n (l - r + 1)); [lia|].
  rewrite sv_mod by lia.
  pose proof (swrap_range n x ltac:(lia)).
  pose proof (p2_mono (n - 1) (l - r + 1 - 1) ltac:(lia)).
  rewrite mkS_ok by lia. cbn [bind].
  rewrite fin_s_ok by reflexivity. rewrite sv_small by lia. reflexivity.
Qed.

Lemma conv_fin_U n x l r : 1 <= n <= l - r + 1 -> 0 <= x < p2 n ->
  (z <- u_conv (l - r + 1) (n, x) ;; fin_u l r z) = Ok (l, r, x).
Proof.
  intros H Hx. unfold u_conv. cbn [vw vu fst snd].
  destruct (Z.gtb_spec n (l - r + 1)); [lia|].
  pose proof (p2_mono n (l - r + 1) ltac:(lia)).
  rewrite mkU_ok by lia. cbn [bind]. apply fin_u_ok. reflexivity.
Qed.

Lemma s_add_dr n x dr : 2 <= n -> 0 <= dr <= 1 ->
  s_add (n, x mod p2 n) (2, dr) = (n, (swrap n x + dr) mod p2 n).
Proof.
  intros Hn Hd. unfold s_add. cbn [vw fst].
  rewrite Z.max_l by lia. rewrite sv_mod by lia.
  assert (sv (2, dr) = dr) as ->; [|reflexivity].
  unfold sv. change (p2 (2 - 1)) with 2. destruct (Z.ltb_spec dr 2); lia.
Qed.

Lemma u_add_dr n x dr : 1 <= n -> u_add (n, x) (1, dr) = (n, (x + dr) mod p2 n).
Proof. intros Hn. unfold u_add. cbn [vw vu fst snd]. rewrite Z.max_l by lia. reflexivity. Qed.

(** x / 2^a on a (a+b)-bit value: zero / all ones tests *)
Lemma top_zero x a b : 0 <= a -> 0 <= b -> 0 <= x < p2 (a + b) -> (x / p2 a =? 0) = (x <? p2 a).
Proof.
  intros Ha Hb Hx. pose proof (p2_pos a Ha).
  destruct (Z.ltb_spec x (p2 a)).
  - rewrite Z.div_small by lia. reflexivity.
  - destruct (Z.eqb_spec (x / p2 a) 0) as [E|]; [|reflexivity].
    apply Z.div_small_iff in E; lia.
Qed.

Lemma top_ones x a b : 0 <= a -> 0 <= b -> 0 <= x < p2 (a + b) ->
  (x / p2 a =? p2 b - 1) = (p2 (a + b) - p2 a <=? x).
Proof.
  intros Ha Hb Hx. pose proof (p2_pos a Ha). pose proof (p2_pos b Hb).
  rewrite p2_add in * by lia.
  pose proof (Z.div_mod x (p2 a) ltac:(lia)). pose proof (Z.mod_pos_bound x (p2 a) ltac:(lia)).
  assert (x / p2 a < p2 b) by (apply Z.div_lt_upper_bound; lia).
  destruct (Z.leb_spec (p2 a * p2 b - p2 a) x), (Z.eqb_spec (x / p2 a) (p2 b - 1)); try reflexivity; nia.
Qed.

Lemma spec_wrap_S w zz : spec_overflow SFixed Wrap w zz = swrap w zz.
Proof. unfold spec_overflow, swrap, min_raw. replace (zz - - p2 (w - 1)) with (zz + p2 (w - 1)) by lia. lia. Qed.

Lemma lsbw_ok W u n : 1 <= n <= W -> lsbw (W, u) n = Ok (n, u mod p2 n).
Proof.
  intros H. unfold lsbw.
  destruct (Z.leb_spec 1 n); [|lia]. destruct (Z.leb_spec n W); [|lia]. reflexivity.
Qed.

(** (x.signed + do_round).lsb(n): the sum is formed at width max(n, 2), its low n bits are kept *)
Lemma s_add_dr_lsb n x dr : 1 <= n -> 0 <= dr <= 1 ->
  lsbw (s_add (n, x mod p2 n) (2, dr)) n = Ok (n, (swrap n x + dr) mod p2 n).
Proof.
  intros Hn Hd. unfold s_add. cbn [vw fst]. rewrite sv_mod by lia.
  assert (sv (2, dr) = dr) as ->.
  { unfold sv. change (p2 (2 - 1)) with 2. destruct (Z.ltb_spec dr 2); lia. }
  rewrite lsbw_ok by lia. rewrite mod_mod_narrow by lia. reflexivity.
Qed.

Lemma spec_sat_in k w zz : min_raw k w <= zz <= max_raw k w -> spec_overflow k Saturate w zz = zz.
Proof. unfold spec_overflow. lia. Qed.
Lemma spec_sat_hi k w zz : min_raw k w <= max_raw k w -> max_raw k w <= zz -> spec_overflow k Saturate w zz = max_raw k w.
Proof. unfold spec_overflow. lia. Qed.
Lemma spec_sat_lo k w zz : min_raw k w <= max_raw k w -> zz <= min_raw k w -> spec_overflow k Saturate w zz = min_raw k w.
Proof. unfold spec_overflow. lia. Qed.

Lemma spec_any_in_S os w zz : 1 <= w -> - p2 (w - 1) <= zz < p2 (w - 1) -> spec_overflow SFixed os w zz = zz.
Proof.
  intros. destruct os.
  - rewrite spec_wrap_S. apply swrap_small; lia.
  - apply spec_sat_in. unfold min_raw, max_raw. lia.
Qed.


Lemma mod_half x h : 0 < h -> - h <= x < h -> x mod h = if x <? 0 then x + h else x.
Proof.
  intros Hh Hx. destruct (Z.ltb_spec x 0).
  - symmetry. apply (Z.mod_unique _ _ (-1)); lia.
  - apply Z.mod_small; lia.
Qed.

Lemma swrap_multiple n k : 1 <= n -> swrap n (k * p2 n) = 0.
Proof.
  intros Hn. unfold swrap. pose proof (p2_pos (n - 1) ltac:(lia)).
  rewrite Z.add_comm, Z_mod_plus_full. rewrite (p2_pred n Hn). rewrite Z.mod_small; lia.
Qed.

Lemma swrap_scale n zz x : 1 <= n -> 0 <= zz -> swrap (n + zz) (x * p2 zz) = swrap n x * p2 zz.
Proof.
  intros Hn Hz. unfold swrap.
  replace (n + zz - 1) with ((n - 1) + zz) by lia.
  rewrite !p2_add by lia.
  pose proof (p2_pos zz Hz). pose proof (p2_pos n ltac:(lia)).
  replace (x * p2 zz + p2 (n - 1) * p2 zz) with ((x + p2 (n - 1)) * p2 zz) by lia.
  rewrite Z.mul_mod_distr_r by lia. lia.
Qed.

Lemma msbr_low n x c : 0 <= c -> 1 <= n - c ->
  msbr (n, x mod p2 n) c = Ok (n - c, (x / p2 c) mod p2 (n - c)).
Proof.
  intros. rewrite msbr_ok by lia. replace n with (c + (n - c)) at 2 by lia.
  rewrite mod_div by lia. reflexivity.
Qed.


(* ------------------------------------------------------------------------- *)
(** ** equality and constructors *)


Lemma eq_numeric k l1 r1 a l2 r2 b t s :
  s <= r1 -> s <= r2 ->
  eq_fx k (l1, r1, a) (l2, r2, b) = Ok t ->
  (t = true <-> scaled (l1, r1, a) s = scaled (l2, r2, b) s).
Proof.
  intros H1 H2. unfold eq_fx, scaled.
  destruct (Z.eqb_spec l1 l2); cbn [andb]; [|discriminate].
  destruct (Z.eqb_spec r1 r2); [|discriminate].
  intros [= <-]. subst.
  pose proof (p2_pos (r2 - s) ltac:(lia)).
  destruct (Z.eqb_spec a b); split; intros; try nia; try reflexivity; try discriminate.
Qed.

(** the number m*2^e is the value of raw q in a format with right bound r *)
Definition num_is (m e r q : Z) : Prop :=
  m * p2 (e - Z.min e r) = q * p2 (r - Z.min e r).

Lemma ctor_num_preserves k l r m e q :
  1 <= l - r + 1 -> num_is m e r q -> min_raw k (l - r + 1) <= q <= max_raw k (l - r + 1) ->
  ctor_num k l r m e = Ok (l, r, q).
Proof.
  intros HW HN HR. unfold ctor_num, num_is in *.
  destruct (Z.ltb_spec (l - r + 1) 1); [lia|].
  set (s := Z.min e r) in *. rewrite HN.
  pose proof (p2_pos (r - s) ltac:(unfold s; lia)) as P.
  destruct (Z.leb_spec (min_raw k (l - r + 1) * p2 (r - s)) (q * p2 (r - s))); [|nia].
  destruct (Z.leb_spec (q * p2 (r - s)) (max_raw k (l - r + 1) * p2 (r - s))); [|nia].
  cbn [andb]. rewrite Z.quot_mul by lia. reflexivity.
Qed.

Lemma ctor_vec_unsigned_U l r w val :
  1 <= l - r + 1 -> r <= 0 -> 1 <= w -> w - r <= l - r + 1 -> 0 <= val < p2 w ->
  ctor_vec UFixed l r false w val = Ok (l, r, val * p2 (- r)).
Proof.
  intros HW Hr Hw Hfit Hv. unfold ctor_vec.
  destruct (Z.ltb_spec (l - r + 1) 1); [lia|].
  destruct (Z.ltb_spec (- r) 0); [lia|].
  rewrite u_resize_ok by lia. cbn [bind].
  unfold u_conv. cbn [vw vu fst snd].
  destruct (Z.gtb_spec (l - r + 1) (l - r + 1)); [lia|].
  pose proof (uscale_bound val w (- r) (l - r + 1) ltac:(lia) ltac:(lia) ltac:(lia) Hv).
  pose proof (p2_pos (- r) ltac:(lia)).
  rewrite mkU_ok by lia. cbn [bind]. apply fin_u_ok. reflexivity.
Qed.

Lemma ctor_vec_unsigned_S l r w val :
  1 <= l - r + 1 -> r <= 0 -> 1 <= w -> w - r <= l - r -> 0 <= val < p2 w ->
  ctor_vec SFixed l r false w val = Ok (l, r, val * p2 (- r)).
Proof.
  intros HW Hr Hw Hfit Hv. unfold ctor_vec.
  destruct (Z.ltb_spec (l - r + 1) 1); [lia|].
  destruct (Z.ltb_spec (- r) 0); [lia|].
  rewrite u_resize_ok by lia. cbn [bind vw vu fst snd].
  destruct (Z.ltb_spec (l - r + 1 - 1) (l - r + 1)); [|lia].
  pose proof (uscale_bound val w (- r) (l - r) ltac:(lia) ltac:(lia) ltac:(lia) Hv).
  pose proof (p2_pos (- r) ltac:(lia)).
  replace (l - r + 1 - 1) with (l - r) in * by lia.
  rewrite mkS_ok by (replace (l - r + 1 - 1) with (l - r) by lia; lia).
  cbn [bind]. rewrite fin_s_ok by reflexivity.
  rewrite sv_small by (replace (l - r + 1 - 1) with (l - r) by lia; lia). reflexivity.
Qed.

(** DEFECT (as coded): SFixed(Signed) never succeeds *)
Lemma ctor_vec_signed_S l r w val :
  1 <= l - r + 1 -> r <= 0 -> 1 <= w -> w - r <= l - r + 1 -> - p2 (w - 1) <= val < p2 (w - 1) ->
  ctor_vec SFixed l r true w val = Ok (l, r, val * p2 (- r)).
Proof.
  intros HW Hr Hw Hfit Hv. unfold ctor_vec.
  destruct (Z.ltb_spec (l - r + 1) 1); [lia|].
  destruct (Z.ltb_spec (- r) 0); [lia|].
  rewrite s_resize_ok by lia. cbn [bind].
  rewrite conv_fin_S by lia.
  pose proof (scale_bound val (w - 1) (- r) (l - r + 1 - 1) ltac:(lia) ltac:(lia) ltac:(lia) Hv).
  pose proof (p2_pos (- r) ltac:(lia)).
  rewrite swrap_small by lia. reflexivity.
Qed.

(** T(x) for an object of a contained format (left >= source left, right <= source right) *)
Lemma ctor_fix_contained k l r sl sr raw :
  wf k (sl, sr, raw) -> sl <= l -> r <= sr ->
  ctor_fix k l r (sl, sr, raw) = Ok (l, r, raw * p2 (sr - r)).
Proof.
  intros Hwf Hl Hr. unfold ctor_fix.
  destruct (Z.ltb_spec (l - r + 1) 1); [unfold wf in Hwf; lia|].
  destruct ((l =? sl) && (r =? sr)) eqn:E.
  - apply andb_true_iff in E. destruct E as [E1 E2]. apply Z.eqb_eq in E1, E2. subst.
    replace (sr - sr) with 0 by lia. rewrite p2_0, Z.mul_1_r. reflexivity.
  - destruct (Z.ltb_spec l sl); [lia|]. destruct (Z.gtb_spec r sr); [lia|].
    pose proof (p2_pos (sr - r) ltac:(lia)) as Pz.
    destruct k; cbn [k_resize to_vec k_conv fin].
    + apply wf_S in Hwf. destruct Hwf as [W R].
      rewrite s_resize_ok by lia. cbn [bind]. rewrite conv_fin_S by lia.
      pose proof (scale_bound raw (sl - sr + 1 - 1) (sr - r) (l - r + 1 - 1) ltac:(lia) ltac:(lia) ltac:(lia) R).
      rewrite swrap_small by lia. reflexivity.
    + apply wf_U in Hwf. destruct Hwf as [W R].
      rewrite u_resize_ok by lia. cbn [bind].
      pose proof (uscale_bound raw (sl - sr + 1) (sr - r) (l - r + 1) ltac:(lia) ltac:(lia) ltac:(lia) R).
      rewrite conv_fin_U by lia. reflexivity.
Qed.

(** [==] against a number: numeric whenever it answers ... *)
Lemma eq_num_numeric k l r raw m e t :
  let s := Z.min e r in
  eq_num k (l, r, raw) m e = Ok t -> t = (m * p2 (e - s) =? raw * p2 (r - s)).
Proof.
  intros s. unfold eq_num, ctor_num. fold s.
  pose proof (p2_pos (r - s) ltac:(unfold s; lia)) as P.
  destruct (Z.eqb_spec ((m * p2 (e - s)) mod p2 (r - s)) 0) as [E|E].
  - apply Z.mod_divide in E; [|lia]. destruct E as [q E]. rewrite E.
    destruct (l - r + 1 <? 1); [discriminate|].
    destruct (_ && _); cbn [bind]; [|discriminate].
    rewrite Z.quot_mul by lia. unfold eq_fx. rewrite !Z.eqb_refl. cbn [andb].
    intros [= <-].
    destruct (Z.eqb_spec q raw), (Z.eqb_spec (q * p2 (r - s)) (raw * p2 (r - s))); try reflexivity; nia.
  - intros [= <-].
    destruct (Z.eqb_spec (m * p2 (e - s)) (raw * p2 (r - s))) as [E2|]; [|reflexivity].
    exfalso. apply E. rewrite E2. apply Z_mod_mult.
Qed.

(** ... it answers for every number inside the range of the format and for every number that
    is not a multiple of 2^right; the remaining numbers (values of the grid outside the range)
    are rejected by the constructor's static_assert *)
Lemma eq_num_answers k l r raw m e :
  1 <= l - r + 1 ->
  let s := Z.min e r in
  let M := m * p2 (e - s) in let P := p2 (r - s) in
  eq_num k (l, r, raw) m e =
    if (min_raw k (l - r + 1) * P <=? M) && (M <=? max_raw k (l - r + 1) * P) then Ok (M =? raw * P)
    else if M mod P =? 0 then Err ERange else Ok false.
Proof.
  intros HW s M P0.
  pose proof (p2_pos (r - s) ltac:(unfold s; lia)) as P.
  destruct (eq_num k (l, r, raw) m e) as [t|er] eqn:E.
  - pose proof (eq_num_numeric k l r raw m e t E) as Ht. fold s in Ht. fold M P0 in Ht.
    revert E. unfold eq_num, ctor_num. fold s. fold M P0.
    destruct (Z.ltb_spec (l - r + 1) 1); [lia|].
    destruct (M mod P0 =? 0) eqn:Ex.
    + destruct (_ && _); cbn [bind]; [|discriminate]. intros _. rewrite Ht. reflexivity.
    + intros [= <-]. destruct (_ && _); [|reflexivity].
      destruct (Z.eqb_spec M (raw * P0)) as [E2|]; [|reflexivity].
      exfalso. rewrite E2 in Ex. unfold P0 in Ex. rewrite Z_mod_mult in Ex. discriminate.
  - revert E. unfold eq_num, ctor_num. fold s. fold M P0.
    destruct (Z.ltb_spec (l - r + 1) 1); [lia|].
    destruct (M mod P0 =? 0); [|discriminate].
    destruct (_ && _); cbn [bind].
    + unfold eq_fx. rewrite !Z.eqb_refl. discriminate.
    + intros [= <-]. reflexivity.
Qed.

(* ------------------------------------------------------------------------- *)
(** ** resize: the coded tree equals round-then-overflow *)

Section S.
  Variables (sl sr raw l r : Z).
  Let W := sl - sr + 1.
  Let Wt := l - r + 1.
  Hypothesis HW : 1 <= W.
  Hypothesis HR : - p2 (W - 1) <= raw < p2 (W - 1).
  Hypothesis HWt : 1 <= Wt.

  Lemma lsbr_S ov : 0 <= ov < W -> lsbr (vecS W raw) ov = Ok (W - ov, raw mod p2 (W - ov)).
  Proof. intros. unfold vecS. rewrite lsbr_ok by lia. rewrite mod_mod_narrow by lia. reflexivity. Qed.

  Lemma ext_S n x : 1 <= n <= Wt -> - p2 (n - 1) <= x < p2 (n - 1) ->
    s_resize (n, x mod p2 n) Wt 0 = Ok (Wt, x mod p2 Wt).
  Proof.
    intros Hn Hx. unfold s_resize. cbn [vw fst].
    destruct (Z.gtb_spec (n + 0) Wt); [lia|].
    rewrite sv_small by lia. rewrite p2_0, Z.mul_1_r.
    pose proof (p2_mono (n - 1) (Wt - 1) ltac:(lia)).
    apply mkS_ok; lia.
  Qed.

  Lemma cf n x : 1 <= n <= Wt ->
    (z <- s_conv Wt (n, x mod p2 n) ;; fin_s l r z) = Ok (l, r, swrap n x).
  Proof. exact (conv_fin_S n x l r). Qed.

  Hypothesis Hgt : l < sl.

  Lemma sign_S : vbit (vecS W raw) (W - 1) = Ok (raw <? 0).
  Proof.
    unfold vecS, vbit.
    destruct (Z.leb_spec 0 (W - 1)); [|lia]. destruct (Z.ltb_spec (W - 1) W); [|lia]. cbn [andb].
    f_equal. unfold bitz.
    pose proof (p2_pos (W - 1) ltac:(lia)) as Ph. pose proof (p2_pred W HW) as EW.
    destruct (Z.ltb_spec raw 0).
    - assert (raw mod p2 W = raw + p2 W) as ->.
      { symmetry. apply (Z.mod_unique _ _ (-1)); lia. }
      assert ((raw + p2 W) / p2 (W - 1) = 1) as ->.
      { symmetry. apply (Z.div_unique _ _ 1 (raw + p2 (W - 1))); lia. }
      reflexivity.
    - rewrite (Z.mod_small raw (p2 W)) by lia. rewrite (Z.div_small raw) by lia. reflexivity.
  Qed.

  (** the saturation flags of the SFixed tree, for obc overflow bits below the sign *)
  Lemma flags_S obc : 2 <= W -> 1 <= obc <= W - 1 ->
    let x := raw mod p2 (W - 1) in
    let T := W - 1 - obc in
    msbw (W - 1, x) obc = Ok (obc, x / p2 T) /\
    (negb (raw <? 0) && nonzero (obc, x / p2 T)) = (p2 T <=? raw) /\
    ((raw <? 0) && negb (all_ones (obc, x / p2 T))) = (raw <? - p2 T).
  Proof.
    intros H2 Ho x T.
    pose proof (p2_pos (W - 1) ltac:(lia)) as Ph. pose proof (p2_pos T ltac:(unfold T; lia)) as PT.
    pose proof (p2_mono T (W - 1) ltac:(unfold T; lia)) as PM.
    assert (EX : x = if raw <? 0 then raw + p2 (W - 1) else raw) by (apply mod_half; lia).
    assert (BX : 0 <= x < p2 (T + obc)).
    { replace (T + obc) with (W - 1) by (unfold T; lia). apply Z.mod_pos_bound; lia. }
    split; [|split].
    - unfold msbw. destruct (Z.leb_spec 1 obc); [|lia]. destruct (Z.leb_spec obc (W - 1)); [|lia]. reflexivity.
    - unfold nonzero. cbn [vu snd]. rewrite (top_zero x T obc) by (try exact BX; unfold T; lia).
      destruct (Z.ltb_spec raw 0); cbn [negb andb].
      + destruct (Z.leb_spec (p2 T) raw); [lia|reflexivity].
      + rewrite EX. destruct (Z.ltb_spec raw (p2 T)), (Z.leb_spec (p2 T) raw); try reflexivity; lia.
    - unfold all_ones. cbn [vu vw fst snd]. rewrite (top_ones x T obc) by (try exact BX; unfold T; lia).
      replace (T + obc) with (W - 1) by (unfold T; lia).
      destruct (Z.ltb_spec raw 0); cbn [negb andb].
      + rewrite EX.
        destruct (Z.leb_spec (p2 (W - 1) - p2 T) (raw + p2 (W - 1))), (Z.ltb_spec raw (- p2 T));
          try reflexivity; lia.
      + destruct (Z.ltb_spec raw (- p2 T)); [lia|reflexivity].
  Qed.

  Lemma mn_ok : mkS Wt (- p2 (Wt - 1)) = Ok (Wt, (- p2 (Wt - 1)) mod p2 Wt).
  Proof. pose proof (p2_pos (Wt - 1) ltac:(lia)). apply mkS_ok; lia. Qed.
  Lemma mx_ok : mkS Wt (p2 (Wt - 1) - 1) = Ok (Wt, (p2 (Wt - 1) - 1) mod p2 Wt).
  Proof. pose proof (p2_pos (Wt - 1) ltac:(lia)). apply mkS_ok; lia. Qed.

  (** the final selection: every alternative is a Wt bit vector holding some z mod 2^Wt *)
  Lemma choose_S c1 c2 d :
    (z <- s_conv Wt (choose c1 (Wt, (- p2 (Wt - 1)) mod p2 Wt) c2 (Wt, (p2 (Wt - 1) - 1) mod p2 Wt) (Wt, d mod p2 Wt)) ;;
     fin_s l r z)
    = Ok (l, r, if c1 then - p2 (Wt - 1) else if c2 then p2 (Wt - 1) - 1 else swrap Wt d).
  Proof.
    pose proof (p2_pos (Wt - 1) ltac:(lia)).
    unfold choose. destruct c1; [|destruct c2]; rewrite cf by lia; try reflexivity;
      rewrite swrap_small by lia; reflexivity.
  Qed.


  Lemma vecS_zero : (vu (vecS W raw) =? 0) = (raw =? 0).
  Proof.
    unfold vecS. cbn [vu snd].
    pose proof (p2_pos (W - 1) ltac:(lia)) as Ph. pose proof (p2_pred W HW) as EW.
    destruct (Z.ltb_spec raw 0).
    - assert (raw mod p2 W = raw + p2 W) as -> by (symmetry; apply (Z.mod_unique _ _ (-1)); lia).
      destruct (Z.eqb_spec (raw + p2 W) 0), (Z.eqb_spec raw 0); try reflexivity; lia.
    - rewrite Z.mod_small by lia. reflexivity.
  Qed.

  (** subtree [selfleft > left], WRAP *)
  Lemma resize_S_gt_wrap rs :
    resize_s_gt (sl, sr, raw) l r rs Wrap = Ok (spec_resize SFixed (sl, sr, raw) l r rs Wrap).
  Proof.
    unfold resize_s_gt, spec_resize. fold W Wt.
    rewrite spec_wrap_S.
    destruct (Z.geb_spec sr r) as [Hsr|Hsr].
    - rewrite spec_round_ge by lia.
      destruct (Z.geb_spec (sl - l) W) as [Hov|Hov].
      + rewrite mkS_ok by (pose proof (p2_pos (Wt - 1) ltac:(lia)); lia). cbn [bind].
        rewrite fin_s_ok by reflexivity.
        rewrite sv_small by (pose proof (p2_pos (Wt - 1) ltac:(lia)); lia).
        replace (sr - r) with ((sr - r - Wt) + Wt) by lia.
        rewrite p2_add by (unfold W, Wt in *; lia).
        rewrite Z.mul_assoc. rewrite swrap_multiple by lia. reflexivity.
      + rewrite lsbr_S by lia. cbn [bind].
        unfold s_resize. cbn [vw fst].
        destruct (Z.gtb_spec (W - (sl - l) + (sr - r)) (W - (sl - l) + (sr - r))); [lia|].
        rewrite sv_mod by lia.
        pose proof (swrap_range (W - (sl - l)) raw ltac:(lia)) as SR.
        pose proof (scale_bound _ (W - (sl - l) - 1) (sr - r) (W - (sl - l) + (sr - r) - 1)
                      ltac:(lia) ltac:(lia) ltac:(lia) SR) as B.
        pose proof (p2_pos (sr - r) ltac:(lia)).
        rewrite mkS_ok by lia. cbn [bind].
        rewrite fin_s_ok by (unfold W, Wt; lia).
        rewrite sv_small by lia.
        replace Wt with ((W - (sl - l)) + (sr - r)) by (unfold W, Wt; lia).
        rewrite swrap_scale by lia. reflexivity.
    - set (c := r - sr) in *. set (ov := sl - l) in *. set (f := raw / p2 c) in *.
      assert (EW : W - ov - c = Wt) by (unfold W, Wt, ov, c; lia).
      assert (Hdo : do_round (vecS W raw) c = Ok (rnd_inc raw c)).
      { unfold vecS. rewrite do_round_ok by lia. rewrite rnd_inc_mod by lia. reflexivity. }
      pose proof (rnd_inc_range raw c) as RI.
      destruct rs.
      + rewrite lsbr_S by lia. cbn [bind]. rewrite msbr_low by lia. cbn [bind].
        rewrite EW. fold f. rewrite cf by lia.
        rewrite spec_round_trunc by lia. reflexivity.
      + rewrite Hdo. cbn [bind].
        rewrite lsbr_S by lia. cbn [bind]. rewrite msbr_low by lia. cbn [bind].
        rewrite EW. fold f.
        rewrite s_add_dr_lsb by lia. cbn [bind]. rewrite cf by lia.
        rewrite swrap_swrap_add by lia.
        rewrite spec_round_round by lia. reflexivity.
  Qed.

  (** subtree [selfleft > left], SATURATE *)
  Lemma resize_S_gt_sat rs :
    resize_s_gt (sl, sr, raw) l r rs Saturate = Ok (spec_resize SFixed (sl, sr, raw) l r rs Saturate).
  Proof.
    unfold resize_s_gt, spec_resize. fold W Wt.
    set (ov := sl - l) in *.
    rewrite sign_S. cbn [bind].
    pose proof (p2_pos (Wt - 1) ltac:(lia)) as PWt.
    assert (Hmm : min_raw SFixed Wt <= max_raw SFixed Wt) by (unfold min_raw, max_raw; lia).
    destruct (Z.geb_spec ov W) as [Hfar|Hnear].
    - (* the target lies below the source LSB: any non zero value saturates *)
      cbn [bind]. unfold nonzero. rewrite vecS_zero.
      destruct (Z.geb_spec sr r) as [Hsr|Hsr]; [|unfold W, Wt, ov in *; lia].
      rewrite spec_round_ge by lia.
      set (zz := sr - r) in *. pose proof (p2_pos zz ltac:(unfold zz; lia)) as Pz.
      destruct (Z.leb_spec W ov); [|lia].
      rewrite mkS_ok by lia. cbn [bind]. rewrite mn_ok, mx_ok. cbn [bind].
      rewrite choose_S.
      assert (Hz : Wt <= zz) by (unfold Wt, zz, W, ov in *; lia).
      pose proof (p2_mono (Wt - 1) zz ltac:(lia)).
      destruct (Z.ltb_spec raw 0); cbn [negb andb].
      + rewrite spec_sat_lo by (unfold min_raw; try exact Hmm; nia). reflexivity.
      + destruct (Z.eqb_spec raw 0) as [->|]; cbn [negb].
        * rewrite Z.mul_0_l. rewrite swrap_small by lia.
          rewrite spec_sat_in by (unfold min_raw, max_raw; lia). reflexivity.
        * rewrite spec_sat_hi by (unfold max_raw; try exact Hmm; nia). reflexivity.
    - assert (H2 : 2 <= W) by (unfold ov in *; lia).
      assert (Hobc : 1 <= ov <= W - 1) by (unfold ov in *; lia).
      destruct (flags_S ov H2 Hobc) as (EM & EO & EU).
      rewrite lsbr_S by lia. cbn [bind].
      rewrite EM. cbn [bind]. rewrite EO, EU. clear EM EO EU.
      set (T := W - 1 - ov) in *.
      pose proof (p2_pos T ltac:(unfold T; lia)) as PT.
      destruct (Z.geb_spec sr r) as [Hsr|Hsr].
      + rewrite spec_round_ge by lia.
        set (zz := sr - r) in *. pose proof (p2_pos zz ltac:(unfold zz; lia)) as Pz.
        destruct (Z.leb_spec W ov) as [Hov|Hov]; [lia|].
        assert (ET : T + 1 = W - ov) by (unfold T; lia).
        assert (ETz : T + zz = Wt - 1) by (unfold T, zz, Wt, W, ov in *; lia).
        rewrite lsbr_S by lia. cbn [bind].
        unfold s_resize. cbn [vw fst].
        destruct (Z.gtb_spec (W - ov + zz) Wt); [unfold T, zz, Wt, W, ov in *; lia|].
        rewrite sv_mod by lia.
        pose proof (swrap_range (W - ov) raw ltac:(lia)) as SR.
        pose proof (scale_bound _ (W - ov - 1) zz (Wt - 1) ltac:(lia) ltac:(unfold zz; lia) ltac:(lia) SR) as B.
        rewrite mkS_ok by lia. cbn [bind]. rewrite mn_ok, mx_ok. cbn [bind].
        rewrite choose_S.
        pose proof (p2_add T zz ltac:(unfold T; lia) ltac:(unfold zz; lia)) as EP. rewrite ETz in EP.
        destruct (Z.ltb_spec raw (- p2 T)).
        * rewrite spec_sat_lo by (unfold min_raw; try exact Hmm; nia). reflexivity.
        * destruct (Z.leb_spec (p2 T) raw).
          -- rewrite spec_sat_hi by (unfold max_raw; try exact Hmm; nia). reflexivity.
          -- rewrite (swrap_small (W - ov) raw) by (replace (W - ov - 1) with T by lia; lia).
             rewrite swrap_small by nia.
             rewrite spec_sat_in by (unfold min_raw, max_raw; nia). reflexivity.
      + set (c := r - sr) in *. set (f := raw / p2 c) in *.
        assert (EW : W - ov - c = Wt) by (unfold W, Wt, ov, c; lia).
        assert (ETc : T = c + (Wt - 1)) by (unfold T; lia).
        pose proof (p2_pos c ltac:(unfold c; lia)) as Pc.
        pose proof (p2_add c (Wt - 1) ltac:(unfold c; lia) ltac:(lia)) as EP. rewrite <- ETc in EP.
        assert (Hdo : do_round (vecS W raw) c = Ok (rnd_inc raw c)).
        { unfold vecS. rewrite do_round_ok by lia. rewrite rnd_inc_mod by lia. reflexivity. }
        pose proof (rnd_inc_range raw c) as RI.
        assert (FU : raw < - p2 T -> f < - p2 (Wt - 1)).
        { intros. apply Z.div_lt_upper_bound; nia. }
        assert (FO : p2 T <= raw -> p2 (Wt - 1) <= f).
        { intros. apply Z.div_le_lower_bound; nia. }
        assert (FI : - p2 T <= raw < p2 T -> - p2 (Wt - 1) <= f < p2 (Wt - 1)).
        { intros HI. rewrite ETc in HI. pose proof (div_range raw (c + (Wt - 1)) c ltac:(lia) HI) as D.
          replace (c + (Wt - 1) - c) with (Wt - 1) in D by lia. exact D. }
        destruct rs.
        * rewrite mn_ok, mx_ok. cbn [bind].
          rewrite lsbr_S by lia. cbn [bind]. rewrite msbr_low by lia. cbn [bind].
          rewrite EW. fold f. rewrite choose_S.
          rewrite spec_round_trunc by lia. fold c f.
          destruct (Z.ltb_spec raw (- p2 T)).
          -- rewrite spec_sat_lo by (unfold min_raw; try exact Hmm; lia). reflexivity.
          -- destruct (Z.leb_spec (p2 T) raw).
             ++ rewrite spec_sat_hi by (unfold max_raw; try exact Hmm; lia). reflexivity.
             ++ rewrite swrap_small by lia.
                rewrite spec_sat_in by (unfold min_raw, max_raw; lia). reflexivity.
        * rewrite Hdo. cbn [bind].
          rewrite lsbr_S by lia. cbn [bind]. rewrite msbr_low by lia. cbn [bind].
          rewrite EW. fold f.
          rewrite mx_ok. cbn [bind]. rewrite mn_ok. cbn [bind].
          rewrite s_add_dr_lsb by lia. cbn [bind]. rewrite choose_S.
          rewrite swrap_swrap_add by lia.
          rewrite sv_mod by lia. rewrite (sv_small Wt (p2 (Wt - 1) - 1)) by lia.
          rewrite spec_round_round by lia. fold c f.
          destruct (Z.ltb_spec raw (- p2 T)).
          -- rewrite spec_sat_lo by (unfold min_raw; try exact Hmm; lia). reflexivity.
          -- destruct (Z.leb_spec (p2 T) raw); cbn [orb].
             ++ rewrite spec_sat_hi by (unfold max_raw; try exact Hmm; lia). reflexivity.
             ++ specialize (FI ltac:(lia)).
                rewrite (swrap_small Wt f) by lia.
                destruct (Z.eqb_spec f (p2 (Wt - 1) - 1)).
                ** rewrite spec_sat_hi by (unfold max_raw; try exact Hmm; lia). reflexivity.
                ** rewrite swrap_small by lia.
                   rewrite spec_sat_in by (unfold min_raw, max_raw; lia). reflexivity.
  Qed.
End S.

(** SFixed.resize_fn = round then overflow, for every well formed object and valid target *)
Theorem resize_S_spec sl sr raw l r rs os :
  wf SFixed (sl, sr, raw) -> 1 <= l - r + 1 ->
  resize_s (sl, sr, raw) l r rs os = Ok (spec_resize SFixed (sl, sr, raw) l r rs os).
Proof.
  intros Hwf HWt. apply wf_S in Hwf. destruct Hwf as [HW HR].
  unfold resize_s.
  destruct ((sl =? l) && (sr =? r)) eqn:E.
  - apply andb_true_iff in E. destruct E as [E1 E2]. apply Z.eqb_eq in E1, E2. subst l r.
    unfold spec_resize. rewrite spec_round_ge by lia.
    replace (sr - sr) with 0 by lia. rewrite p2_0, Z.mul_1_r.
    rewrite spec_any_in_S by lia. reflexivity.
  - destruct (Z.ltb_spec (l - r + 1) 1); [lia|].
    destruct (Z.gtb_spec sl l) as [Hgt|Hle].
    + destruct os; [apply resize_S_gt_wrap | apply resize_S_gt_sat]; assumption || lia.
    + destruct (Z.geb_spec sr r) as [Hsr|Hsr].
      * rewrite s_resize_ok by lia. cbn [bind]. rewrite fin_s_ok by reflexivity.
        pose proof (scale_bound raw (sl - sr + 1 - 1) (sr - r) (l - r + 1 - 1) ltac:(lia) ltac:(lia) ltac:(lia) HR) as B.
        pose proof (p2_pos (sr - r) ltac:(lia)).
        rewrite sv_small by lia. unfold spec_resize.
        rewrite spec_round_ge by lia. rewrite spec_any_in_S by lia. reflexivity.
      * (* widened by one integer bit, then the subtree for selfleft > left *)
        rewrite s_resize_ok by lia. cbn [bind]. rewrite p2_0, Z.mul_1_r.
        rewrite fin_s_ok by lia.
        pose proof (p2_mono (sl - sr + 1 - 1) (l + 2 - sr - 1) ltac:(lia)) as PM.
        rewrite sv_small by lia. cbn [bind].
        assert (HR' : - p2 (l + 1 - sr + 1 - 1) <= raw < p2 (l + 1 - sr + 1 - 1)).
        { replace (l + 1 - sr + 1 - 1) with (l + 2 - sr - 1) by lia. lia. }
        change (spec_resize SFixed (sl, sr, raw) l r rs os) with (spec_resize SFixed (l + 1, sr, raw) l r rs os).
        destruct os; [apply resize_S_gt_wrap | apply resize_S_gt_sat]; assumption || lia.
Qed.

Lemma spec_wrap_U w zz : spec_overflow UFixed Wrap w zz = zz mod p2 w.
Proof. unfold spec_overflow, min_raw. rewrite Z.sub_0_r, Z.add_0_r. reflexivity. Qed.

Lemma spec_any_in_U os w zz : 0 <= w -> 0 <= zz < p2 w -> spec_overflow UFixed os w zz = zz.
Proof.
  intros. destruct os.
  - rewrite spec_wrap_U. apply Z.mod_small; lia.
  - apply spec_sat_in. unfold min_raw, max_raw. lia.
Qed.

Section U.
  Variables (sl sr raw l r : Z).
  Let W := sl - sr + 1.
  Let Wt := l - r + 1.
  Hypothesis HW : 1 <= W.
  Hypothesis HR : 0 <= raw < p2 W.
  Hypothesis HWt : 1 <= Wt.

  Lemma cfu n x : 1 <= n <= Wt -> 0 <= x < p2 n ->
    (z <- u_conv Wt (n, x) ;; fin_u l r z) = Ok (l, r, x).
  Proof. exact (conv_fin_U n x l r). Qed.

  Lemma mxu_ok : mkU Wt (p2 Wt - 1) = Ok (Wt, p2 Wt - 1).
  Proof. pose proof (p2_pos Wt ltac:(lia)). apply mkU_ok; lia. Qed.

  Lemma lsbr_U ov : 0 <= ov < W -> lsbr (vecU W raw) ov = Ok (W - ov, raw mod p2 (W - ov)).
  Proof. intros. unfold vecU. apply lsbr_ok; lia. Qed.

  Lemma do_U c : 1 <= c < W -> do_round (vecU W raw) c = Ok (rnd_inc raw c).
  Proof. intros. unfold vecU. apply do_round_ok; lia. Qed.

  Hypothesis Hgt : l < sl.

  Lemma resize_U_gt_wrap rs :
    resize_u_gt (sl, sr, raw) l r rs Wrap = Ok (spec_resize UFixed (sl, sr, raw) l r rs Wrap).
  Proof.
    unfold resize_u_gt, spec_resize. fold W Wt.
    rewrite spec_wrap_U.
    pose proof (p2_pos Wt ltac:(lia)) as PWt.
    destruct (Z.geb_spec sr r) as [Hsr|Hsr].
    - rewrite spec_round_ge by lia.
      destruct (Z.geb_spec (sl - l) W) as [Hov|Hov].
      + rewrite mkU_ok by lia. cbn [bind]. rewrite fin_u_ok by reflexivity.
        replace (sr - r) with ((sr - r - Wt) + Wt) by lia.
        rewrite p2_add by (unfold W, Wt in *; lia).
        rewrite Z.mul_assoc, Z_mod_mult. reflexivity.
      + rewrite lsbr_U by lia. cbn [bind].
        unfold u_resize. cbn [vw vu fst snd].
        destruct (Z.gtb_spec (W - (sl - l) + (sr - r)) (W - (sl - l) + (sr - r))); [lia|].
        pose proof (p2_pos (W - (sl - l)) ltac:(lia)).
        pose proof (Z.mod_pos_bound raw (p2 (W - (sl - l))) ltac:(lia)) as MB.
        pose proof (uscale_bound _ (W - (sl - l)) (sr - r) (W - (sl - l) + (sr - r))
                      ltac:(lia) ltac:(lia) ltac:(lia) MB) as B.
        pose proof (p2_pos (sr - r) ltac:(lia)).
        rewrite mkU_ok by lia. cbn [bind].
        rewrite fin_u_ok by (unfold W, Wt; lia).
        replace Wt with ((W - (sl - l)) + (sr - r)) by (unfold W, Wt; lia).
        rewrite p2_add by lia. rewrite Z.mul_mod_distr_r by lia. reflexivity.
    - set (c := r - sr) in *. set (ov := sl - l) in *. set (f := raw / p2 c) in *.
      assert (EW : W - ov - c = Wt) by (unfold W, Wt, ov, c; lia).
      pose proof (rnd_inc_range raw c) as RI.
      destruct rs.
      + rewrite lsbr_U by lia. cbn [bind]. rewrite msbr_low by lia. cbn [bind].
        rewrite EW. fold f. rewrite cfu by (try apply Z.mod_pos_bound; lia).
        rewrite spec_round_trunc by lia. reflexivity.
      + rewrite do_U by lia. cbn [bind].
        rewrite lsbr_U by lia. cbn [bind]. rewrite msbr_low by lia. cbn [bind].
        rewrite EW. fold f.
        rewrite u_add_dr by lia. rewrite cfu by (try apply Z.mod_pos_bound; lia).
        rewrite Zplus_mod_idemp_l.
        rewrite spec_round_round by lia. reflexivity.
  Qed.

  Lemma resize_U_gt_sat rs :
    resize_u_gt (sl, sr, raw) l r rs Saturate = Ok (spec_resize UFixed (sl, sr, raw) l r rs Saturate).
  Proof.
    unfold resize_u_gt, spec_resize. fold W Wt.
    set (ov := sl - l) in *.
    set (obc := Z.min ov W).
    set (T := W - obc) in *.
    assert (Hobc : 1 <= obc <= W) by (unfold obc, ov; lia).
    pose proof (p2_pos T ltac:(unfold T; lia)) as PT.
    pose proof (p2_pos Wt ltac:(lia)) as PWt.
    assert (Hmm : min_raw UFixed Wt <= max_raw UFixed Wt) by (unfold min_raw, max_raw; lia).
    assert (EM : msbw (vecU W raw) obc = Ok (obc, raw / p2 T)).
    { unfold vecU, msbw. destruct (Z.leb_spec 1 obc); [|lia]. destruct (Z.leb_spec obc W); [|lia]. reflexivity. }
    assert (EN : nonzero (obc, raw / p2 T) = (p2 T <=? raw)).
    { unfold nonzero. cbn [vu snd].
      rewrite (top_zero raw T obc) by (try (replace (T + obc) with W by (unfold T; lia); exact HR); unfold T; lia).
      destruct (Z.ltb_spec raw (p2 T)), (Z.leb_spec (p2 T) raw); try reflexivity; lia. }
    rewrite EM. cbn [bind]. rewrite EN. clear EM EN.
    destruct (Z.geb_spec sr r) as [Hsr|Hsr].
    - rewrite spec_round_ge by lia.
      set (zz := sr - r) in *. pose proof (p2_pos zz ltac:(unfold zz; lia)) as Pz.
      assert (ETz : Wt <= T + zz) by (unfold T, obc, zz, Wt, W, ov in *; lia).
      pose proof (p2_add T zz ltac:(unfold T; lia) ltac:(unfold zz; lia)) as EP.
      pose proof (p2_mono Wt (T + zz) ltac:(lia)) as PM.
      assert (ED : (if W <=? ov then mkU Wt 0 else y <- lsbr (vecU W raw) ov ;; u_resize y Wt zz)
                   = Ok (Wt, (raw mod p2 T) * p2 zz)).
      { destruct (Z.leb_spec W ov).
        - assert (T = 0) as E0 by (unfold T, obc; lia). rewrite E0, p2_0, Z.mod_1_r, Z.mul_0_l.
          apply mkU_ok; lia.
        - assert (ET : T = W - ov) by (unfold T, obc; lia).
          rewrite lsbr_U by lia. cbn [bind]. rewrite <- ET.
          unfold u_resize. cbn [vw vu fst snd].
          destruct (Z.gtb_spec (T + zz) Wt); [unfold T, obc, zz, Wt, W, ov in *; lia|].
          pose proof (Z.mod_pos_bound raw (p2 T) ltac:(lia)) as MB.
          assert (T + zz = Wt) as EE by (unfold T, obc, zz, Wt, W, ov in *; lia). rewrite EE in EP.
          apply mkU_ok; [lia|]. nia. }
      rewrite ED. cbn [bind]. rewrite mxu_ok. cbn [bind].
      destruct (Z.leb_spec (p2 T) raw).
      + rewrite cfu by lia.
        rewrite spec_sat_hi by (unfold max_raw; try exact Hmm; nia). reflexivity.
      + rewrite (Z.mod_small raw (p2 T)) by lia.
        destruct (Z.leb_spec W ov).
        * assert (T = 0) as E0 by (unfold T, obc; lia). rewrite E0, p2_0 in *.
          assert (raw = 0) as -> by lia. rewrite Z.mul_0_l.
          rewrite cfu by lia. rewrite spec_sat_in by (unfold min_raw, max_raw; lia). reflexivity.
        * assert (T + zz = Wt) as EE by (unfold T, obc, zz, Wt, W, ov in *; lia). rewrite EE in EP.
          rewrite cfu by nia.
          rewrite spec_sat_in by (unfold min_raw, max_raw; nia). reflexivity.
    - set (c := r - sr) in *. set (f := raw / p2 c) in *.
      assert (EW : W - ov - c = Wt) by (unfold W, Wt, ov, c; lia).
      assert (ETc : T = c + Wt) by (unfold T, obc; lia).
      pose proof (p2_pos c ltac:(unfold c; lia)) as Pc.
      pose proof (p2_add c Wt ltac:(unfold c; lia) ltac:(lia)) as EP. rewrite <- ETc in EP.
      pose proof (rnd_inc_range raw c) as RI.
      assert (F0 : 0 <= f) by (apply Z.div_pos; lia).
      assert (FO : p2 T <= raw -> p2 Wt <= f).
      { intros. apply Z.div_le_lower_bound; nia. }
      assert (FI : raw < p2 T -> f < p2 Wt).
      { intros. apply Z.div_lt_upper_bound; nia. }
      pose proof (Z.mod_pos_bound f (p2 Wt) ltac:(lia)) as MB.
      destruct rs.
      + rewrite mxu_ok. cbn [bind].
        rewrite lsbr_U by (unfold c in *; lia). cbn [bind]. rewrite msbr_low by lia. cbn [bind].
        rewrite EW. fold f.
        rewrite spec_round_trunc by lia. fold c f.
        destruct (Z.leb_spec (p2 T) raw).
        * rewrite cfu by lia. rewrite spec_sat_hi by (unfold max_raw; try exact Hmm; lia). reflexivity.
        * rewrite cfu by lia. rewrite Z.mod_small by lia.
          rewrite spec_sat_in by (unfold min_raw, max_raw; lia). reflexivity.
      + rewrite do_U by (unfold c in *; lia). cbn [bind].
        rewrite lsbr_U by (unfold c in *; lia). cbn [bind]. rewrite msbr_low by lia. cbn [bind].
        rewrite EW. fold f. rewrite mxu_ok. cbn [bind].
        rewrite u_add_dr by lia.
        rewrite spec_round_round by lia. fold c f.
        unfold all_ones. cbn [vu vw fst snd].
        destruct (Z.leb_spec (p2 T) raw); cbn [orb].
        * rewrite cfu by lia. rewrite spec_sat_hi by (unfold max_raw; try exact Hmm; lia). reflexivity.
        * specialize (FI ltac:(lia)). rewrite (Z.mod_small f) by lia.
          destruct (Z.eqb_spec f (p2 Wt - 1)).
          -- rewrite cfu by lia. rewrite spec_sat_hi by (unfold max_raw; try exact Hmm; lia). reflexivity.
          -- rewrite cfu by (try apply Z.mod_pos_bound; lia). rewrite Z.mod_small by lia.
             rewrite spec_sat_in by (unfold min_raw, max_raw; lia). reflexivity.
  Qed.
End U.

Theorem resize_U_spec sl sr raw l r rs os :
  wf UFixed (sl, sr, raw) -> 1 <= l - r + 1 ->
  resize_u (sl, sr, raw) l r rs os = Ok (spec_resize UFixed (sl, sr, raw) l r rs os).
Proof.
  intros Hwf HWt. apply wf_U in Hwf. destruct Hwf as [HW HR].
  unfold resize_u.
  destruct ((sl =? l) && (sr =? r)) eqn:E.
  - apply andb_true_iff in E. destruct E as [E1 E2]. apply Z.eqb_eq in E1, E2. subst l r.
    unfold spec_resize. rewrite spec_round_ge by lia.
    replace (sr - sr) with 0 by lia. rewrite p2_0, Z.mul_1_r.
    rewrite spec_any_in_U by lia. reflexivity.
  - destruct (Z.ltb_spec (l - r + 1) 1); [lia|].
    destruct (Z.gtb_spec sl l) as [Hgt|Hle].
    + destruct os; [apply resize_U_gt_wrap | apply resize_U_gt_sat]; assumption || lia.
    + destruct (Z.geb_spec sr r) as [Hsr|Hsr].
      * rewrite u_resize_ok by lia. cbn [bind]. rewrite fin_u_ok by reflexivity.
        pose proof (uscale_bound raw (sl - sr + 1) (sr - r) (l - r + 1) ltac:(lia) ltac:(lia) ltac:(lia) HR) as B.
        pose proof (p2_pos (sr - r) ltac:(lia)).
        unfold spec_resize.
        rewrite spec_round_ge by lia. rewrite spec_any_in_U by lia. reflexivity.
      * rewrite u_resize_ok by lia. cbn [bind]. rewrite p2_0, Z.mul_1_r.
        rewrite fin_u_ok by lia. cbn [bind].
        pose proof (p2_mono (sl - sr + 1) (l + 1 - sr + 1) ltac:(lia)) as PM.
        change (spec_resize UFixed (sl, sr, raw) l r rs os) with (spec_resize UFixed (l + 1, sr, raw) l r rs os).
        destruct os; [apply resize_U_gt_wrap | apply resize_U_gt_sat]; assumption || lia.
Qed.

Theorem resize_spec_full k x l r rs os :
  wf k x -> 1 <= l - r + 1 -> resize k x l r rs os = Ok (spec_resize k x l r rs os).
Proof.
  destruct x as [[sl sr] raw]. destruct k; cbn [resize]; [apply resize_S_spec | apply resize_U_spec].
Qed.

(** the only rejection of the code: a target format with left < right *)
Lemma resize_rejects_malformed k sl sr raw l r rs os :
  1 <= sl - sr + 1 -> l - r + 1 < 1 -> resize k (sl, sr, raw) l r rs os = Err EAssert.
Proof.
  intros H0 H. destruct k; cbn [resize]; unfold resize_s, resize_u;
    (destruct ((sl =? l) && (sr =? r)) eqn:E;
     [apply andb_true_iff in E; destruct E as [E1 E2]; apply Z.eqb_eq in E1, E2; subst;
      lia | destruct (Z.ltb_spec (l - r + 1) 1); [reflexivity|lia]]).
Qed.

(** regressions: the inputs that failed before the C19 fix commits now give the spec value *)
Lemma regressions :
  resize SFixed (3, -1, 15) 3 0 Round Saturate = Ok (3, 0, 7) /\
  resize UFixed (2, -1, 15) 2 0 Round Saturate = Ok (2, 0, 7) /\
  resize SFixed (1, 0, 1) 5 3 Round Wrap = Ok (5, 3, 0) /\
  resize UFixed (1, 0, 1) 5 3 Truncate Wrap = Ok (5, 3, 0) /\
  resize SFixed (0, -1, 0) 0 0 Round Wrap = Ok (0, 0, 0) /\
  resize SFixed (0, 0, 0) (-1) (-1) Truncate Saturate = Ok (-1, -1, 0) /\
  resize UFixed (0, 0, 0) (-2) (-2) Truncate Saturate = Ok (-2, -2, 0) /\
  resize SFixed (1, 0, -1) (-1) (-1) Truncate Saturate = Ok (-1, -1, -1) /\
  resize SFixed (1, -2, -1) 0 (-1) Round Saturate = Ok (0, -1, 0) /\
  ctor_vec SFixed 3 (-1) true 3 (-2) = Ok (3, -1, -4) /\
  ctor_fix SFixed 4 (-2) (3, -1, -5) = Ok (4, -2, -10) /\
  ctor_fix UFixed 4 (-2) (3, -1, 5) = Ok (4, -2, 10) /\
  ctor_num SFixed 60 0 (2 ^ 59 + 1) 0 = Ok (60, 0, 2 ^ 59 + 1) /\
  eq_num SFixed (1, 0, 1) 3 (-1) = Ok false /\
  eq_num UFixed (0, 0, 0) 1 (-1) = Ok false.
Proof. vm_compute. repeat split. Qed.

(* ------------------------------------------------------------------------- *)
(** ** the spec says what the property says *)

(** truncation is the floor: z*2^c <= raw < (z+1)*2^c *)
Lemma spec_round_is_floor sr r raw : sr < r ->
  let zz := spec_round Truncate sr r raw in
  zz * p2 (r - sr) <= raw < (zz + 1) * p2 (r - sr).
Proof.
  intros H zz. unfold zz. rewrite spec_round_trunc by lia.
  pose proof (p2_pos (r - sr) ltac:(lia)) as P.
  pose proof (Z.div_mod raw (p2 (r - sr)) ltac:(lia)).
  pose proof (Z.mod_pos_bound raw (p2 (r - sr)) ltac:(lia)). nia.
Qed.

(** rounding is to nearest (distance at most half a unit), and a tie goes to the even neighbour *)
Lemma spec_round_is_nearest_even sr r raw : sr < r ->
  let zz := spec_round Round sr r raw in
  let d := zz * p2 (r - sr) - raw in
  2 * Z.abs d <= p2 (r - sr) /\ (2 * Z.abs d = p2 (r - sr) -> Z.even zz = true).
Proof.
  intros H zz d. unfold d, zz. unfold spec_round.
  destruct (Z.geb_spec sr r); [lia|].
  pose proof (p2_pos (r - sr) ltac:(lia)) as P.
  pose proof (Z.div_mod raw (p2 (r - sr)) ltac:(lia)) as E.
  pose proof (Z.mod_pos_bound raw (p2 (r - sr)) ltac:(lia)) as B.
  set (c := p2 (r - sr)) in *. set (f := raw / c) in *. set (m := raw mod c) in *.
  destruct (Z.ltb_spec (2 * m) c).
  - split; [nia|]. intros; nia.
  - destruct (Z.gtb_spec (2 * m) c).
    + split; [nia|]. intros; nia.
    + destruct (Z.even f) eqn:Ev.
      * split; [nia|]. intros; exact Ev.
      * split; [nia|]. intros _. rewrite Z.even_add. rewrite Ev. reflexivity.
Qed.

(** wrap stays congruent modulo 2^w and lands in the range; saturate clamps *)
Lemma spec_wrap_congruent k w zz : 1 <= w ->
  min_raw k w <= spec_overflow k Wrap w zz <= max_raw k w /\
  (spec_overflow k Wrap w zz - zz) mod p2 w = 0.
Proof.
  intros Hw. unfold spec_overflow.
  pose proof (p2_pos w ltac:(lia)) as P.
  pose proof (Z.mod_pos_bound (zz - min_raw k w) (p2 w) P) as B.
  split.
  - destruct k; unfold min_raw, max_raw in *; [rewrite (p2_pred w Hw) in *|]; lia.
  - pose proof (Z.div_mod (zz - min_raw k w) (p2 w) ltac:(lia)) as E.
    replace ((zz - min_raw k w) mod p2 w + min_raw k w - zz)
      with ((- ((zz - min_raw k w) / p2 w)) * p2 w) by lia.
    apply Z_mod_mult.
Qed.
