(** * ExprEmitMore: extension of ExprEmitProofs.emit_correct_partial to more operator shapes (C02).

    [proved_part2] extends [ExprEmitProofs.proved_part] by: bitwise & | ^, concatenation, resize (with and without zero
    padding), and the six arithmetic operators with an int literal operand on the right or on the left.  The induction
    of ExprEmitProofs.emit_den is restated (its case lemmas are re-used as they are). *)
From Coq Require Import ZArith NArith PArith List Bool Lia.
From Cohdl Require Import Base.Bits Vhdl.Value Vhdl.NumStd Vhdl.Syntax Vhdl.Sem Equiv.RefTS
  Models.ExprRef Models.ExprRefProofs Models.ExprEmit Models.ExprEmitProofs.
Import ListNotations.
Local Open Scope Z_scope.

(** ** bitwise operators *)
Definition is_logic (op : bop) : bool := match op with BAnd | BOr | BXor => true | _ => false end.
Definition is_concat (op : bop) : bool := match op with BConcat => true | _ => false end.

Definition lop (op : bop) : binop := match op with BAnd => OAnd | BOr => OOr | _ => OXor end.

Lemma wrap_logic o w a b : wrap w (logic_z o a b) = logic_z o (wrap w a) (wrap w b).
Proof.
  unfold wrap, pow2. apply Z.bits_inj'. intros n Hn. destruct (Z.ltb_spec n (Z.of_N w)).
  - rewrite Z.mod_pow2_bits_low by lia.
    destruct o; cbn [logic_z]; rewrite ?Z.land_spec, ?Z.lor_spec, ?Z.lxor_spec, !Z.mod_pow2_bits_low by lia; reflexivity.
  - rewrite Z.mod_pow2_bits_high by lia.
    destruct o; cbn [logic_z]; rewrite ?Z.land_spec, ?Z.lor_spec, ?Z.lxor_spec, !Z.mod_pow2_bits_high by lia; reflexivity.
Qed.

Lemma logic_agrees op k w a b :
  is_logic op = true -> (k = KBit \/ k = KBV \/ k = KU \/ k = KS) -> rng k w a -> rng k w b ->
  eval_binop (lop op) (scalar_value k w a) (scalar_value k w b)
  = Ok (scalar_value k w (norm k w (logic_z (lop op) a b))).
Proof.
  intros Hop Hk Ra Rb.
  assert (E : eval_binop (lop op) = logic (lop op)) by (destruct op; try discriminate Hop; reflexivity).
  rewrite E. clear E.
  destruct Hk as [-> | [-> | [-> | ->]]].
  - destruct (rng_w1 KBit w a (or_introl eq_refl) Ra) as [W1 Ha];
      destruct (rng_w1 KBit w b (or_introl eq_refl) Rb) as [_ Hb]; subst w;
      destruct Ha; destruct Hb; subst a b; destruct op; try discriminate Hop; reflexivity.
  - cbn [scalar_value logic vkind_eqb norm]. rewrite N.eqb_refl. cbn. f_equal. f_equal.
    rewrite wrap_logic. rewrite !wrap_small by (apply (rng_bits KBV); [assumption|reflexivity]). reflexivity.
  - cbn [scalar_value logic vkind_eqb norm]. rewrite N.eqb_refl. cbn. f_equal. f_equal.
    rewrite wrap_logic. rewrite !wrap_small by (apply rng_U; assumption). reflexivity.
  - cbn [scalar_value logic vkind_eqb norm]. rewrite N.eqb_refl. cbn. f_equal. f_equal.
    rewrite wrap_sval_wrap. rewrite wrap_logic. reflexivity.
Qed.

Lemma bin_val_logic op ka wa za kb wb zb' : is_logic op = true ->
  bin_val op ka wa za kb wb zb' = Some (logic_z (lop op) za zb').
Proof. destruct op; try discriminate; reflexivity. Qed.

(** ** literal operands of arithmetic *)
Lemma fmt_adj_lit op z o k w : oty o = Ty k w -> fmt (adj_neg op (OInt z) o) = ELit (VI (adjz op k w z)).
Proof. intros T. unfold adj_neg, adjz. rewrite T. destruct op, k; try reflexivity; destruct (z <? 0); reflexivity. Qed.


(** ** concatenation *)
Definition bv_val (k : kind) (w : N) (z : Z) : tval := if is_vec k then TV KBV w (pat k w z) else TV k w z.

Lemma rng_bv k w z : is_vec k = true -> rng k w z -> rng KBV w (pat k w z).
Proof.
  intros V R. pose proof (rng_bits _ _ _ R V) as P. destruct R as [W _]. pose proof (wf_pos _ _ W V) as Wp.
  split; cbn; [apply N.ltb_lt; exact Wp|apply andb_true_iff; split; [apply Z.leb_le|apply Z.ltb_lt]; lia].
Qed.

Lemma concat_agrees ka wa za kb wb zb' :
  (is_vec ka || kind_eqb ka KBit) = true -> (is_vec kb || kind_eqb kb KBit) = true -> rng ka wa za -> rng kb wb zb' ->
  eval_binop OConcat (to_value (bv_val ka wa za)) (to_value (bv_val kb wb zb'))
  = Ok (scalar_value KBV (wa + wb) (norm KBV (wa + wb) (pat ka wa za * pow2 wb + pat kb wb zb'))).
Proof.
  intros Ca Cb Ra Rb.
  assert (Pa : 0 <= pat ka wa za < pow2 wa).
  { destruct (is_vec ka) eqn:V; [apply rng_bits; assumption|]. destruct ka; try discriminate Ca; try discriminate V.
    destruct (rng_w1 KBit wa za (or_introl eq_refl) Ra) as [-> [-> | ->]]; cbn; lia. }
  assert (Pb : 0 <= pat kb wb zb' < pow2 wb).
  { destruct (is_vec kb) eqn:V; [apply rng_bits; assumption|]. destruct kb; try discriminate Cb; try discriminate V.
    destruct (rng_w1 KBit wb zb' (or_introl eq_refl) Rb) as [-> [-> | ->]]; cbn; lia. }
  cbn [norm]. rewrite wrap_small by (apply concat_range; assumption).
  unfold bv_val. destruct (is_vec ka) eqn:Va; destruct (is_vec kb) eqn:Vb.
  - reflexivity.
  - destruct kb; try discriminate Cb; try discriminate Vb.
    destruct (rng_w1 KBit wb zb' (or_introl eq_refl) Rb) as [-> [-> | ->]];
      cbn [to_value scalar_value eval_binop concat pat]; unfold truthy; cbn [Z.eqb negb]; change (pow2 1) with 2;
      rewrite ?Z.add_0_r; reflexivity.
  - destruct ka; try discriminate Ca; try discriminate Va.
    destruct (rng_w1 KBit wa za (or_introl eq_refl) Ra) as [-> [-> | ->]];
      cbn [to_value scalar_value eval_binop concat pat]; unfold truthy; cbn [Z.eqb negb];
      rewrite ?Z.mul_1_l, ?Z.mul_0_l; reflexivity.
  - destruct ka; try discriminate Ca; try discriminate Va. destruct kb; try discriminate Cb; try discriminate Vb.
    destruct (rng_w1 KBit wa za (or_introl eq_refl) Ra) as [-> [-> | ->]];
      destruct (rng_w1 KBit wb zb' (or_introl eq_refl) Rb) as [-> [-> | ->]]; reflexivity.
Qed.

(** ** resize *)
Lemma resize_val k w a n : (k = KU \/ k = KS) -> rng k w a -> (w <= n)%N -> Z.of_N n <= int_max ->
  eval_fn2 FResize (scalar_value k w a) (VI (Z.of_N n)) = Ok (scalar_value k n (norm k n (a * pow2 0))).
Proof.
  intros Hk Ra Hwn Hn. pose proof (resize_agrees k w a n Hk Ra Hwn Hn) as R. destruct Ra as [Wf Ra].
  assert (C : (w + 0 <=? n)%N = true) by (apply N.leb_le; lia).
  destruct Hk; subst k; cbn [xeval] in R; rewrite Wf, Ra in R; cbn [andb] in R; rewrite C in R; exact R.
Qed.


(** resize with zero padding: resize(k(std_logic_vector(x) & "0..0"), n) *)
Lemma wrap_shift w m z : wrap (w + m) (z * pow2 m) = wrap w z * pow2 m.
Proof.
  unfold wrap. rewrite pow2_add. pose proof (pow2_pos w). pose proof (pow2_pos m). apply Z.mul_mod_distr_r; lia.
Qed.

Lemma resize_pad_agrees k w z n zeros : (k = KU \/ k = KS) -> rng k w z -> (w + zeros <= n)%N -> Z.of_N n <= int_max ->
  (if (n =? w + zeros)%N then Ok (VV (vk_of k) (w + zeros) (pat k w z * pow2 zeros + 0))
   else eval_fn2 FResize (VV (vk_of k) (w + zeros) (pat k w z * pow2 zeros + 0)) (VI (Z.of_N n)))
  = Ok (scalar_value k n (norm k n (z * pow2 zeros))).
Proof.
  intros Hk R Hwn Hn. assert (E : nat_ok (Z.of_N n) = true) by (apply nat_ok_of; lia).
  pose proof (pow2_pos zeros) as Pz. rewrite Z.add_0_r.
  destruct Hk; subst k; cbn [vk_of pat scalar_value norm].
  - pose proof (rng_U _ _ R) as U.
    assert (Rg : 0 <= z * pow2 zeros < pow2 (w + zeros)) by (rewrite pow2_add; nia).
    destruct (N.eqb_spec n (w + zeros)) as [->|NE].
    + rewrite wrap_small by exact Rg. reflexivity.
    + cbn [eval_fn2]. rewrite E, N2Z.id. reflexivity.
  - destruct (rng_S _ _ R) as [W S]. rewrite wrap_sval_wrap. rewrite <- wrap_shift.
    destruct (N.eqb_spec n (w + zeros)) as [->|NE]; [reflexivity|].
    cbn [eval_fn2]. rewrite E, N2Z.id. unfold sresize.
    destruct (N.eqb_spec n 0); [lia|]. destruct (N.leb_spec (w + zeros) n); [|lia].
    rewrite sval_wrap; [reflexivity|lia|].
    replace (w + zeros - 1)%N with ((w - 1) + zeros)%N by lia. rewrite pow2_add. pose proof (pow2_pos (w - 1)). nia.
Qed.

(** ** arithmetic with an int literal on the LEFT *)
Lemma adj_wrap' w z : wrap w (if z <? 0 then z mod pow2 w else z) = wrap w z.
Proof. destruct (z <? 0); [apply wrap_wrap|reflexivity]. Qed.

Lemma arith_lit_left op o k w b z v :
  arith_op op = Some o -> (k = KU \/ k = KS) -> rng k w b -> arith_lit_ok op k w z = true ->
  bin_val op KInt 0 z k w b = Some v ->
  eval_binop o (VI (adjz op k w z)) (scalar_value k w b)
  = Ok (scalar_value k (arith_width_int op w) (norm k (arith_width_int op w) v)).
Proof.
  intros Ho Hk R L BV. pose proof (lit_ok_parts _ _ _ _ L) as P.
  destruct Hk; subst k.
  - pose proof (rng_U _ _ R) as U.
    destruct op; try discriminate Ho; inversion Ho; subst o; cbn [adjz] in *; cbn in BV.
    + inversion BV; subst v. cbn [eval_binop arith scalar_value]. rewrite P. unfold mkU, norm, arith_width_int. f_equal. f_equal.
      rewrite <- (wrap_add_l w (if z <? 0 then z mod pow2 w else z) b), adj_wrap', wrap_add_l. reflexivity.
    + inversion BV; subst v. cbn [eval_binop arith scalar_value]. rewrite P. unfold mkU, norm, arith_width_int. f_equal. f_equal.
      rewrite <- (wrap_sub_l w (if z <? 0 then z mod pow2 w else z) b), adj_wrap', wrap_sub_l. reflexivity.
    + inversion BV; subst v. destruct P as [P Rz]. cbn. rewrite P. unfold mkU, to_u. rewrite (wrap_small w z) by exact Rz. reflexivity.
    + destruct (b =? 0) eqn:Z0; [discriminate BV|]. inversion BV; subst v. destruct P as [P Rz]. cbn. rewrite P, Z0.
      unfold mkU. rewrite Z.quot_div_nonneg by (apply Z.eqb_neq in Z0; lia). reflexivity.
    + destruct (b =? 0) eqn:Z0; [discriminate BV|]. inversion BV; subst v. destruct P as [P Rz]. cbn. rewrite P, Z0. reflexivity.
    + destruct (b =? 0) eqn:Z0; [discriminate BV|]. inversion BV; subst v. destruct P as [P Rz]. cbn. rewrite P, Z0.
      unfold mkU. rewrite Z.rem_mod_nonneg by (apply Z.eqb_neq in Z0; lia). reflexivity.
  - pose proof (sval_in _ _ R) as Eb.
    destruct op; try discriminate Ho; inversion Ho; subst o; cbn [adjz] in *; cbn in BV.
    + inversion BV; subst v. cbn. rewrite Eb. unfold mkS. rewrite wrap_sval_wrap. reflexivity.
    + inversion BV; subst v. cbn. rewrite Eb. unfold mkS. rewrite wrap_sval_wrap. reflexivity.
    + inversion BV; subst v. cbn. rewrite Eb. unfold mkS, to_s. rewrite (sval_in w z) by (split; [apply R|exact P]).
      rewrite wrap_sval_wrap. reflexivity.
    + destruct (b =? 0) eqn:Z0; [discriminate BV|]. inversion BV; subst v. cbn.
      rewrite (wrap_nz w b R) by (apply Z.eqb_neq; exact Z0). rewrite Eb. unfold mkS. rewrite wrap_sval_wrap. reflexivity.
    + destruct (b =? 0) eqn:Z0; [discriminate BV|]. inversion BV; subst v. cbn.
      rewrite (wrap_nz w b R) by (apply Z.eqb_neq; exact Z0). rewrite Eb. unfold mkS. rewrite wrap_sval_wrap. reflexivity.
    + destruct (b =? 0) eqn:Z0; [discriminate BV|]. inversion BV; subst v. cbn.
      rewrite (wrap_nz w b R) by (apply Z.eqb_neq; exact Z0). rewrite Eb. unfold mkS. rewrite wrap_sval_wrap. reflexivity.
Qed.

Section Bin2.
Variables (sg vr : store) (ev : PS.t).
Notation den := (den sg vr ev).

Lemma den_bin_logic op oa ob o' ka wa za kb wb zb' :
  is_logic op = true ->
  den oa (TV ka wa za) -> den ob (TV kb wb zb') -> o_bin op oa ob = Some o' ->
  den o' (bin_eval op (TV ka wa za) (TV kb wb zb')).
Proof.
  intros Hop Da Db Hb.
  destruct (den_typed _ _ _ _ _ Da) as (k1 & w1 & z1 & E1 & Ta & Ra). inversion E1; subst k1 w1 z1.
  destruct (den_typed _ _ _ _ _ Db) as (k2 & w2 & z2 & E2 & Tb & Rb). inversion E2; subst k2 w2 z2.
  pose proof (fmt_ok _ _ _ _ _ Da) as Fa. pose proof (fmt_ok _ _ _ _ _ Db) as Fb. cbn [to_value] in Fa, Fb.
  unfold o_bin in Hb. destruct (negb (is_ref oa || is_ref ob)); [discriminate|].
  rewrite Ta, Tb in Hb. unfold bin_eval.
  destruct (bin_ty op (Ty ka wa) (Ty kb wb)) as [[kr wr|]|] eqn:BT; try discriminate Hb.
  assert (K : kb = ka /\ wb = wa /\ kr = ka /\ wr = wa /\ (ka = KBit \/ ka = KBV \/ ka = KU \/ ka = KS)).
  { destruct op; try discriminate Hop; cbn in BT; destruct ka; try discriminate BT;
      match type of BT with (if ?c then _ else _) = _ => destruct c eqn:C; [|discriminate BT] end;
      apply andb_true_iff in C; destruct C as [C1 C2]; apply kind_eqb_ok in C1; apply N.eqb_eq in C2;
      inversion BT; subst; auto 10. }
  destruct K as (-> & -> & -> & -> & Hk).
  assert (NI : ka <> KInt) by (destruct Hk as [-> | [-> | [-> | ->]]]; discriminate).
  rewrite (adj_neg_vec op oa ob ka wa Ta NI), (adj_neg_vec op ob oa ka wa Tb NI) in Hb.
  assert (Hb' : Some (tmp (EBin (lop op) (fmt oa) (fmt ob)) ka wa) = Some o')
    by (destruct op; try discriminate Hop; exact Hb).
  inversion Hb'; subst o'. clear Hb Hb'.
  rewrite (bin_val_logic op _ _ _ _ _ _ Hop).
  assert (Wr : wf_scalar ka wa = true) by apply Ra.
  unfold mk. apply den_tmp; [|split; [exact Wr|apply norm_ok; exact Wr]|exact NI].
  cbn [eval]. rewrite Fa, Fb. cbn [bind]. apply logic_agrees; assumption.
Qed.

(** arithmetic with an int literal on the right (all six operators) *)
Lemma den_bin_lit_right op o oa o' k wa za z :
  (k = KU \/ k = KS) -> arith_op op = Some o ->
  den oa (TV k wa za) -> o_bin op oa (OInt z) = Some o' ->
  arith_lit_ok op k wa z = true ->
  defined (bin_eval op (TV k wa za) (TV KInt 0 z)) = true ->
  den o' (bin_eval op (TV k wa za) (TV KInt 0 z)).
Proof.
  intros Hk Ho Da Hb L Df.
  destruct (den_typed _ _ _ _ _ Da) as (k1 & w1 & z1 & E1 & Ta & Ra). inversion E1; subst k1 w1 z1.
  pose proof (fmt_ok _ _ _ _ _ Da) as Fa. cbn [to_value] in Fa.
  assert (NI : k <> KInt) by (destruct Hk; subst; discriminate).
  unfold o_bin in Hb. destruct (negb (is_ref oa || is_ref (OInt z))); [discriminate|].
  rewrite Ta in Hb. cbn [oty] in Hb.
  rewrite (adj_neg_vec op oa (OInt z) k wa Ta NI), (fmt_adj_lit op z oa k wa Ta) in Hb.
  assert (AB : arith_binop op = Some o) by (destruct op; try discriminate Ho; exact Ho).
  assert (BT : bin_ty op (Ty k wa) (Ty KInt 0) = Some (Ty k (arith_width_int op wa)))
    by (destruct Hk; subst k; destruct op; try discriminate Ho; reflexivity).
  unfold bin_eval in *. rewrite BT in *.
  assert (Hb' : Some (tmp (EBin o (fmt oa) (ELit (VI (adjz op k wa z)))) k (arith_width_int op wa)) = Some o').
  { destruct op; try discriminate Ho; rewrite AB in Hb; exact Hb. }
  inversion Hb'; subst o'. clear Hb Hb'.
  assert (Wr : wf_scalar k (arith_width_int op wa) = true).
  { eapply bin_ty_wf; [exact BT|apply Ra|reflexivity]. }
  destruct (bin_val op k wa za KInt 0 z) as [v|] eqn:BV; [|discriminate Df].
  unfold mk. apply den_tmp; [|split; [exact Wr|apply norm_ok; exact Wr]|exact NI].
  cbn [eval]. rewrite Fa. cbn [bind]. eapply arith_lit_right; eauto.
Qed.

(** arithmetic with an int literal on the left (all six operators) *)
Lemma den_bin_lit_left op o ob o' k wb zb' z :
  (k = KU \/ k = KS) -> arith_op op = Some o ->
  den ob (TV k wb zb') -> o_bin op (OInt z) ob = Some o' ->
  arith_lit_ok op k wb z = true ->
  defined (bin_eval op (TV KInt 0 z) (TV k wb zb')) = true ->
  den o' (bin_eval op (TV KInt 0 z) (TV k wb zb')).
Proof.
  intros Hk Ho Db Hb L Df.
  destruct (den_typed _ _ _ _ _ Db) as (k1 & w1 & z1 & E1 & Tb & Rb). inversion E1; subst k1 w1 z1.
  pose proof (fmt_ok _ _ _ _ _ Db) as Fb. cbn [to_value] in Fb.
  assert (NI : k <> KInt) by (destruct Hk; subst; discriminate).
  unfold o_bin in Hb. destruct (negb (is_ref (OInt z) || is_ref ob)); [discriminate|].
  rewrite Tb in Hb. cbn [oty] in Hb.
  rewrite (adj_neg_vec op ob (OInt z) k wb Tb NI), (fmt_adj_lit op z ob k wb Tb) in Hb.
  assert (AB : arith_binop op = Some o) by (destruct op; try discriminate Ho; exact Ho).
  assert (BT : bin_ty op (Ty KInt 0) (Ty k wb) = Some (Ty k (arith_width_int op wb)))
    by (destruct Hk; subst k; destruct op; try discriminate Ho; reflexivity).
  unfold bin_eval in *. rewrite BT in *.
  assert (Hb' : Some (tmp (EBin o (ELit (VI (adjz op k wb z))) (fmt ob)) k (arith_width_int op wb)) = Some o').
  { destruct op; try discriminate Ho; rewrite AB in Hb; exact Hb. }
  inversion Hb'; subst o'. clear Hb Hb'.
  assert (Wr : wf_scalar k (arith_width_int op wb) = true).
  { eapply bin_ty_wf; [exact BT|reflexivity|apply Rb]. }
  destruct (bin_val op KInt 0 z k wb zb') as [v|] eqn:BV; [|discriminate Df].
  unfold mk. apply den_tmp; [|split; [exact Wr|apply norm_ok; exact Wr]|exact NI].
  cbn [eval]. rewrite Fb. cbn [bind]. eapply arith_lit_left; eauto.
Qed.

(** operands of [&] seen through [.bitvector] *)
Lemma den_as_bv o o' k w z : den o (TV k w z) -> as_bv o = Some o' -> den o' (bv_val k w z).
Proof.
  intros D Ho. destruct (den_typed _ _ _ _ _ D) as (k1 & w1 & z1 & E1 & T & R). inversion E1; subst k1 w1 z1.
  unfold bv_val. destruct o as [z'|k' w' z'|root rk rw s vk vw]; cbn [as_bv] in Ho; [discriminate Ho| |].
  - cbn [oty] in T. inversion T; subst k' w'. cbn in D. destruct D as (E & _ & NI). inversion E; subst z'.
    destruct (is_vec k) eqn:V; inversion Ho; subst o'.
    + cbn. split; [reflexivity|]. split; [apply rng_bv; assumption|discriminate].
    + cbn. split; [reflexivity|]. split; assumption.
  - cbn [oty] in T. inversion T; subst vk vw.
    destruct (is_vec k) eqn:V; [|inversion Ho; subst o'; exact D].
    destruct (den_view _ _ _ _ _ _ _ D Ho) as (k2 & w2 & z2 & E2 & _ & D'). inversion E2; subst k2 w2 z2.
    unfold mk in D'. cbn [view_kind norm] in D'. rewrite wrap_small in D' by (apply rng_bits; assumption). exact D'.
Qed.

Lemma den_bin_concat oa ob o' ka wa za kb wb zb' :
  den oa (TV ka wa za) -> den ob (TV kb wb zb') -> o_bin BConcat oa ob = Some o' ->
  den o' (bin_eval BConcat (TV ka wa za) (TV kb wb zb')).
Proof.
  intros Da Db Hb.
  destruct (den_typed _ _ _ _ _ Da) as (k1 & w1 & z1 & E1 & Ta & Ra). inversion E1; subst k1 w1 z1.
  destruct (den_typed _ _ _ _ _ Db) as (k2 & w2 & z2 & E2 & Tb & Rb). inversion E2; subst k2 w2 z2.
  unfold o_bin in Hb. destruct (negb (is_ref oa || is_ref ob)); [discriminate|].
  rewrite Ta, Tb in Hb. unfold bin_eval.
  destruct (bin_ty BConcat (Ty ka wa) (Ty kb wb)) as [[kr wr|]|] eqn:BT; try discriminate Hb.
  cbn [bin_ty] in BT.
  destruct ((is_vec ka || kind_eqb ka KBit) && (is_vec kb || kind_eqb kb KBit)) eqn:C; [|discriminate BT].
  inversion BT; subst kr wr. apply andb_true_iff in C. destruct C as [Ca Cb].
  destruct (as_bv oa) as [oa'|] eqn:Aa; [|discriminate Hb]. destruct (as_bv ob) as [ob'|] eqn:Ab; [|discriminate Hb].
  inversion Hb; subst o'.
  pose proof (fmt_ok _ _ _ _ _ (den_as_bv _ _ _ _ _ Da Aa)) as Fa.
  pose proof (fmt_ok _ _ _ _ _ (den_as_bv _ _ _ _ _ Db Ab)) as Fb.
  cbn [bin_val].
  assert (Wr : wf_scalar KBV (wa + wb) = true).
  { cbn. apply N.ltb_lt. destruct Ra as [Wa _].
    assert (0 < wa)%N; [|lia]. destruct ka; cbn in Wa; try discriminate Ca; rewrite ?N.ltb_lt, ?N.eqb_eq in Wa; lia. }
  unfold mk. apply den_tmp; [|split; [exact Wr|apply norm_ok; exact Wr]|discriminate].
  cbn [eval]. rewrite Fa, Fb. cbn [bind]. apply concat_agrees; assumption.
Qed.

(** resize without zero padding *)
Lemma den_resize0 n o o' k w z : den o (TV k w z) -> o_resize n 0 o = Some o' -> Z.of_N n <= int_max ->
  (k = KU \/ k = KS) /\ (w + 0 <=? n)%N = true /\ den o' (mk k n (z * pow2 0)).
Proof.
  intros D Ho Hn.
  destruct (den_typed _ _ _ _ _ D) as (k1 & w1 & z1 & E1 & T & R). inversion E1; subst k1 w1 z1.
  pose proof (fmt_ok _ _ _ _ _ D) as F. cbn [to_value] in F.
  destruct o as [z'|k' w' z'|root rk rw s vk vw]; cbn [o_resize] in Ho; try discriminate Ho.
  cbn [oty] in T. inversion T; subst vk vw.
  assert (Hk : k = KU \/ k = KS) by (destruct k; try discriminate Ho; auto).
  assert (Ho' : (if (w + 0 <=? n)%N
                 then Some (tmp (if (n =? w)%N then fmt (ORef root rk rw s k w)
                                 else EF2 FResize (fmt (ORef root rk rw s k w)) (ELit (VI (Z.of_N n)))) k n)
                 else None) = Some o') by (destruct Hk; subst k; exact Ho).
  clear Ho. destruct (w + 0 <=? n)%N eqn:C; [|discriminate Ho'].
  split; [exact Hk|]. split; [reflexivity|]. inversion Ho'; subst o'. clear Ho'.
  apply N.leb_le in C.
  assert (NI : k <> KInt) by (destruct Hk; subst; discriminate).
  assert (Wn : wf_scalar k n = true).
  { destruct R as [W _]. destruct Hk; subst k; cbn in *; apply N.ltb_lt in W; apply N.ltb_lt; lia. }
  unfold mk. apply den_tmp; [|split; [exact Wn|apply norm_ok; exact Wn]|exact NI].
  cbn [fmt] in F |- *.
  destruct (N.eqb_spec n w) as [->|NE].
  - cbv beta iota. rewrite F. rewrite pow2_0, Z.mul_1_r. rewrite norm_id by apply R. reflexivity.
  - cbv beta iota. cbn [eval]. rewrite F. cbn [bind]. apply resize_val; auto. lia.
Qed.

(** resize, with or without zero padding *)
Lemma den_resize n zeros o o' k w z : den o (TV k w z) -> o_resize n zeros o = Some o' -> Z.of_N n <= int_max ->
  (k = KU \/ k = KS) /\ (w + zeros <=? n)%N = true /\ den o' (mk k n (z * pow2 zeros)).
Proof.
  destruct (N.eqb_spec zeros 0) as [->|NZ]; [apply den_resize0|].
  intros D Ho Hn.
  destruct (den_typed _ _ _ _ _ D) as (k1 & w1 & z1 & E1 & T & R). inversion E1; subst k1 w1 z1.
  destruct o as [z'|k' w' z'|root rk rw s vk vw]; cbn [o_resize] in Ho; try discriminate Ho.
  cbn [oty] in T. inversion T; subst vk vw.
  assert (Hk : k = KU \/ k = KS) by (destruct k; try discriminate Ho; auto).
  assert (V : is_vec k = true) by (destruct Hk; subst k; reflexivity).
  destruct (den_view sg vr ev VwBV _ (ORef root rk rw s KBV w) _ D) as (k2 & w2 & z2 & E2 & _ & D').
  { cbn [o_view]. rewrite V. reflexivity. }
  inversion E2; subst k2 w2 z2.
  pose proof (fmt_ok _ _ _ _ _ D') as F. unfold mk in F. cbn [view_kind norm to_value scalar_value] in F.
  rewrite wrap_small in F by (apply rng_bits; assumption).
  assert (Ho' : (if (w + zeros <=? n)%N
                 then Some (tmp (if (n =? w + zeros)%N
                                 then cv k (EBin OConcat (fmt (ORef root rk rw s KBV w)) (ELit (VV KSlv zeros 0)))
                                 else EF2 FResize (cv k (EBin OConcat (fmt (ORef root rk rw s KBV w)) (ELit (VV KSlv zeros 0))))
                                          (ELit (VI (Z.of_N n)))) k n)
                 else None) = Some o').
  { apply N.eqb_neq in NZ. destruct Hk; subst k; cbn [o_view is_vec view_kind] in Ho; rewrite NZ in Ho; exact Ho. }
  clear Ho. destruct (w + zeros <=? n)%N eqn:C; [|discriminate Ho'].
  split; [exact Hk|]. split; [reflexivity|]. inversion Ho'; subst o'. clear Ho'.
  apply N.leb_le in C.
  assert (NI : k <> KInt) by (destruct Hk; subst; discriminate).
  assert (Wn : wf_scalar k n = true).
  { destruct R as [W _]. destruct Hk; subst k; cbn in *; apply N.ltb_lt in W; apply N.ltb_lt; lia. }
  unfold mk. apply den_tmp; [|split; [exact Wn|apply norm_ok; exact Wn]|exact NI].
  cbn [fmt] in F |- *.
  pose proof (resize_pad_agrees k w z n zeros Hk R C Hn) as G. revert G.
  assert (EC : forall x, eval sg vr ev (cv k x) = (do a <- eval sg vr ev x; eval_fn1 (match k with KU => FConvUns | KS => FConvSgn | _ => FConvSlv end) a))
    by (intros x; destruct k; reflexivity).
  assert (EV : eval sg vr ev (cv k (EBin OConcat
                 match s with
                 | ExprEmit.RNone => if is_vec rk then vcast rk KBV root else root
                 | ExprEmit.RSlice hi lo => vcast_ref rk KBV w (cv rk (ESlice root hi lo))
                 | ExprEmit.RIdx i => EIdx root (ELit (VI (Z.of_N i)))
                 end (ELit (VV KSlv zeros 0))))
               = Ok (VV (vk_of k) (w + zeros) (pat k w z * pow2 zeros + 0))).
  { rewrite EC. cbn [eval]. rewrite F. cbn [bind eval_binop concat vkind_eqb].
    destruct Hk; subst k; reflexivity. }
  destruct (n =? w + zeros)%N.
  - intros G. rewrite EV. exact G.
  - intros G. cbn [eval]. rewrite EV. cbn [bind]. exact G.
Qed.
End Bin2.

(** ** the extended proved part *)
Definition vec_int (a b : option ty) : bool :=
  match a, b with
  | Some (Ty (KU | KS) _), Some (Ty KInt _) => true
  | _, _ => false
  end.

Fixpoint proved_part2 (e : texp) : bool :=
  match e with
  | XIn _ _ | XConst _ _ _ => true
  | XUn _ a | XIdxC a _ | XSlice a _ _ | XView _ a => proved_part2 a
  | XCmp _ a b => proved_part2 a && proved_part2 b
  | XBin op a b =>
      ((is_arith op && (same_vec (tyof a) (tyof b) || vec_int (tyof a) (tyof b) || vec_int (tyof b) (tyof a)))
       || is_shift op || is_logic op || is_concat op)
      && proved_part2 a && proved_part2 b
  | XResize a _ _ => proved_part2 a
  | _ => false
  end.

Lemma proved_part_incl e : proved_part e = true -> proved_part2 e = true.
Proof.
  induction e using texp_ind'; cbn [proved_part proved_part2]; try discriminate; auto.
  - intros H. apply andb_true_iff in H. destruct H as [H P2]. apply andb_true_iff in H. destruct H as [H P1].
    rewrite IHe1, IHe2 by assumption. rewrite !andb_true_r.
    apply orb_true_iff in H. destruct H as [H | H].
    + apply andb_true_iff in H. destruct H as [A B]. rewrite A, B. reflexivity.
    + rewrite H. rewrite orb_true_r. reflexivity.
  - intros H. apply andb_true_iff in H. destruct H as [P1 P2]. rewrite IHe1, IHe2 by assumption. reflexivity.
Qed.

Section Main2.
Variables (pos : nat -> positive) (en : env) (sg vr : store) (ev : PS.t).
Hypothesis SM : store_matches pos en sg.
Notation den := (den sg vr ev).

(** kind / width of a defined value against the static type *)
Lemma xeval_ty e k w z t : xeval en e = TV k w z -> tyof e = Some t -> t = Ty k w.
Proof.
  intros X T. pose proof (type_width e t en T) as V. rewrite X in V. apply vok_TV in V. tauto.
Qed.

Theorem emit_den2 : forall e o, emo pos e = Some o -> in_emit_grammar e = true -> proved_part2 e = true ->
  defined (xeval en e) = true -> den o (xeval en e).
Proof.
  induction e using texp_ind'; intros o He Hg Hp Hd; cbn [emo] in He; try discriminate He; try discriminate Hp.
  - (* XIn *)
    destruct ti as [kd w|]; [|discriminate He]. destruct (wf_scalar kd w) eqn:W; [|discriminate He].
    inversion He; subst o. cbn [in_emit_grammar node_ok] in Hg. rewrite andb_true_r in Hg.
    assert (NI : kd <> KInt) by (intros ->; discriminate Hg).
    cbn [xeval] in Hd |- *. pose proof (SM k) as S.
    destruct (wf_ty (Ty kd w) && vok (Ty kd w) (nth k en TUndef)) eqn:C; [|discriminate Hd].
    apply andb_true_iff in C. destruct C as [_ V].
    destruct (nth k en TUndef) as [k' w' z|k' w' l|] eqn:Ev; [| |discriminate Hd].
    + apply vok_TV in V. destruct V as (T & W' & R). inversion T; subst k' w'.
      apply den_tmp; [|split; assumption|exact NI]. cbn [eval]. rewrite S by discriminate. reflexivity.
    + cbn in V. discriminate V.
  - (* XConst *)
    destruct k.
    all: try (destruct (_ && _) eqn:C in He; [|discriminate He]; inversion He; subst o; cbn [xeval]; rewrite C;
              apply andb_true_iff in C; destruct C; cbn [ExprEmitProofs.den]; split; [reflexivity|]; split; [split; assumption|discriminate]).
    inversion He; subst o. cbn [xeval] in *. destruct (wf_scalar KInt w && in_range KInt w z) eqn:C; [|discriminate Hd].
    apply andb_true_iff in C. destruct C as [W _]. cbn in W. apply N.eqb_eq in W. subst w. reflexivity.
  - (* XUn *)
    destruct (emo pos e) as [oa|] eqn:Ea; [|discriminate He].
    cbn [in_emit_grammar node_ok andb] in Hg. cbn [proved_part2] in Hp. cbn [xeval] in *.
    pose proof (IHe oa eq_refl Hg Hp) as Da.
    destruct (xeval en e) as [ka wa za| |] eqn:Xa; try discriminate Hd.
    exact (den_un _ _ _ op oa o _ (Da eq_refl) He).
  - (* XBin *)
    destruct (emo pos e1) as [oa|] eqn:Ea; [|discriminate He]. destruct (emo pos e2) as [ob|] eqn:Eb; [|discriminate He].
    cbn [in_emit_grammar] in Hg. apply andb_true_iff in Hg. destruct Hg as [Hn Hg]. apply andb_true_iff in Hg. destruct Hg as [G1 G2].
    cbn [proved_part2] in Hp. apply andb_true_iff in Hp. destruct Hp as [Hp P2]. apply andb_true_iff in Hp. destruct Hp as [Hp P1].
    cbn [xeval] in *.
    pose proof (IHe1 oa eq_refl G1 P1) as Da. pose proof (IHe2 ob eq_refl G2 P2) as Db.
    pose proof (type_width e1) as T1. pose proof (type_width e2) as T2.
    destruct (xeval en e1) as [ka wa za| |] eqn:Xa; try discriminate Hd.
    destruct (xeval en e2) as [kb wb zb'| |] eqn:Xb; try discriminate Hd.
    specialize (Da eq_refl). specialize (Db eq_refl).
    apply orb_true_iff in Hp.
    destruct Hp as [Hp | Cc];
      [apply orb_true_iff in Hp; destruct Hp as [Hp | Lg]; [apply orb_true_iff in Hp; destruct Hp as [Hp | Sh]|]|].
    + apply andb_true_iff in Hp. destruct Hp as [Ar SV].
      assert (AO : exists o', arith_op op = Some o') by (destruct op; try discriminate Ar; cbn; eauto).
      destruct AO as [o' AO].
      apply orb_true_iff in SV. destruct SV as [SV | VI2]; [apply orb_true_iff in SV; destruct SV as [SV | VI]|].
      * assert (K : (ka = KU \/ ka = KS) /\ kb = ka).
        { unfold same_vec in SV. destruct (tyof e1) as [[k1 w1|]|] eqn:Ty1; try discriminate SV.
          destruct (tyof e2) as [[k2 w2|]|] eqn:Ty2; try (destruct k1; discriminate SV).
          specialize (T1 _ en eq_refl). specialize (T2 _ en eq_refl). rewrite Xa in T1. rewrite Xb in T2.
          apply vok_TV in T1. apply vok_TV in T2. destruct T1 as [T1 _]. destruct T2 as [T2 _].
          inversion T1; inversion T2; subst. destruct ka, kb; try discriminate SV; auto. }
        destruct K as [Hk ->].
        eapply den_bin_arith; eauto.
      * (* int literal on the right *)
        unfold vec_int in VI. destruct (tyof e1) as [[k1 w1|]|] eqn:Ty1; try discriminate VI.
        destruct (tyof e2) as [[k2 w2|]|] eqn:Ty2; try (destruct k1; discriminate VI).
        pose proof (xeval_ty _ _ _ _ _ Xa Ty1) as Q1. pose proof (xeval_ty _ _ _ _ _ Xb Ty2) as Q2.
        inversion Q1; inversion Q2; subst k1 w1 k2 w2.
        assert (K : (ka = KU \/ ka = KS) /\ kb = KInt) by (destruct ka, kb; try discriminate VI; auto).
        destruct K as [Hk ->].
        pose proof (den_int _ _ _ _ _ _ Db) as Ob. subst ob.
        assert (W0 : wb = 0%N) by (cbn in Db; inversion Db; reflexivity). subst wb.
        pose proof (int_opnd_lit _ _ _ Eb) as L2.
        assert (L1 : lit_of e1 = None).
        { destruct (lit_of e1) as [z1|] eqn:L; [|reflexivity]. exfalso. destruct (lit_of_inv _ _ L) as [w ->].
          cbn [tyof] in Ty1. destruct (wf_scalar KInt w && in_range KInt w z1); [|discriminate Ty1].
          inversion Ty1; subst. destruct Hk; discriminate. }
        assert (AL : arith_lit_ok op ka wa zb' = true).
        { cbn [node_ok] in Hn. rewrite Ty1, Ty2, L1, L2 in Hn. destruct op; try discriminate Ar; exact Hn. }
        eapply den_bin_lit_right; eauto.
      * (* int literal on the left *)
        unfold vec_int in VI2. destruct (tyof e2) as [[k2 w2|]|] eqn:Ty2; try discriminate VI2.
        destruct (tyof e1) as [[k1 w1|]|] eqn:Ty1; try (destruct k2; discriminate VI2).
        pose proof (xeval_ty _ _ _ _ _ Xa Ty1) as Q1. pose proof (xeval_ty _ _ _ _ _ Xb Ty2) as Q2.
        inversion Q1; inversion Q2; subst k1 w1 k2 w2.
        assert (K : (kb = KU \/ kb = KS) /\ ka = KInt) by (destruct ka, kb; try discriminate VI2; auto).
        destruct K as [Hk ->].
        pose proof (den_int _ _ _ _ _ _ Da) as Oa. subst oa.
        assert (W0 : wa = 0%N) by (cbn in Da; inversion Da; reflexivity). subst wa.
        pose proof (int_opnd_lit _ _ _ Ea) as L1.
        assert (L2 : lit_of e2 = None).
        { destruct (lit_of e2) as [z2|] eqn:L; [|reflexivity]. exfalso. destruct (lit_of_inv _ _ L) as [w ->].
          cbn [tyof] in Ty2. destruct (wf_scalar KInt w && in_range KInt w z2); [|discriminate Ty2].
          inversion Ty2; subst. destruct Hk; discriminate. }
        assert (AL : arith_lit_ok op kb wb za = true).
        { cbn [node_ok] in Hn. rewrite Ty1, Ty2, L1, L2 in Hn. destruct op; try discriminate Ar; exact Hn. }
        eapply den_bin_lit_left; eauto.
    + assert (Hop : op = BShl \/ op = BShr) by (destruct op; try discriminate Sh; auto).
      assert (Hn' : match lit_of e2, tyof e2 with
                    | Some z, _ => z <=? int_max
                    | None, Some (Ty KU w) => (w <=? 31)%N
                    | _, _ => false
                    end = true) by (destruct Hop; subst op; exact Hn).
      eapply den_shift; eauto.
      * intros ->. rewrite (den_int _ _ _ _ _ _ Db) in Eb. apply int_opnd_lit in Eb. rewrite Eb in Hn'.
        apply Z.leb_le in Hn'. exact Hn'.
      * intros ->. destruct (lit_of e2) as [z|] eqn:L.
        { exfalso. destruct (lit_of_inv _ _ L) as [w ->]. cbn [xeval] in Xb.
          destruct (wf_scalar KInt w && in_range KInt w z); discriminate Xb. }
        destruct (tyof e2) as [[k2 w2|]|] eqn:Ty2; try discriminate Hn'.
        specialize (T2 _ en eq_refl). rewrite Xb in T2. apply vok_TV in T2. destruct T2 as [T2 _]. inversion T2; subst.
        apply N.leb_le. exact Hn'.
    + eapply den_bin_logic; eauto.
    + assert (op = BConcat) by (destruct op; try discriminate Cc; reflexivity). subst op.
      eapply den_bin_concat; eauto.
  - (* XCmp *)
    destruct (emo pos e1) as [oa|] eqn:Ea; [|discriminate He]. destruct (emo pos e2) as [ob|] eqn:Eb; [|discriminate He].
    cbn [in_emit_grammar] in Hg. apply andb_true_iff in Hg. destruct Hg as [Hn Hg]. apply andb_true_iff in Hg. destruct Hg as [G1 G2].
    cbn [proved_part2] in Hp. apply andb_true_iff in Hp. destruct Hp as [P1 P2].
    cbn [xeval] in *.
    pose proof (IHe1 oa eq_refl G1 P1) as Da. pose proof (IHe2 ob eq_refl G2 P2) as Db.
    destruct (xeval en e1) as [ka wa za| |] eqn:Xa; try discriminate Hd.
    destruct (xeval en e2) as [kb wb zb'| |] eqn:Xb; try discriminate Hd.
    specialize (Da eq_refl). specialize (Db eq_refl). cbn [node_ok] in Hn.
    eapply den_cmp; eauto.
    + intros ->. rewrite (den_int _ _ _ _ _ _ Da) in Ea. apply int_opnd_lit in Ea. rewrite Ea in Hn.
      destruct (lit_of e2); [discriminate Hn|exact Hn].
    + intros ->. rewrite (den_int _ _ _ _ _ _ Db) in Eb. apply int_opnd_lit in Eb. rewrite Eb in Hn.
      destruct (lit_of e1); [discriminate Hn|exact Hn].
  - (* XIdxC *)
    destruct (emo pos e) as [oa|] eqn:Ea; [|discriminate He].
    cbn [in_emit_grammar node_ok andb] in Hg. cbn [proved_part2] in Hp. cbn [xeval] in *.
    pose proof (IHe oa eq_refl Hg Hp) as Da.
    destruct (xeval en e) as [ka wa za| |] eqn:Xa; try discriminate Hd.
    destruct (den_idx _ _ _ _ _ _ _ (Da eq_refl) He) as (k & w & z & E & C & D). inversion E; subst ka wa za.
    rewrite C. exact D.
  - (* XSlice *)
    destruct (emo pos e) as [oa|] eqn:Ea; [|discriminate He].
    cbn [in_emit_grammar node_ok] in Hg. apply andb_true_iff in Hg. destruct Hg as [Hn Hg]. apply Z.ltb_lt in Hn.
    cbn [proved_part2] in Hp. cbn [xeval] in *.
    pose proof (IHe oa eq_refl Hg Hp) as Da.
    destruct (xeval en e) as [ka wa za| |] eqn:Xa; try discriminate Hd.
    destruct (den_slice _ _ _ _ _ _ _ _ (Da eq_refl) He Hn) as (k & w & z & E & C & D). inversion E; subst ka wa za.
    rewrite C. exact D.
  - (* XView *)
    destruct (emo pos e) as [oa|] eqn:Ea; [|discriminate He].
    cbn [in_emit_grammar node_ok andb] in Hg. cbn [proved_part2] in Hp. cbn [xeval] in *.
    pose proof (IHe oa eq_refl Hg Hp) as Da.
    destruct (xeval en e) as [ka wa za| |] eqn:Xa; try discriminate Hd.
    destruct (den_view _ _ _ _ _ _ _ (Da eq_refl) He) as (k & w & z & E & C & D). inversion E; subst ka wa za.
    rewrite C. exact D.
  - (* XResize *)
    destruct (emo pos e) as [oa|] eqn:Ea; [|discriminate He].
    cbn [in_emit_grammar node_ok] in Hg. apply andb_true_iff in Hg. destruct Hg as [Hn Hg]. apply Z.leb_le in Hn.
    cbn [proved_part2] in Hp.
    cbn [xeval] in *.
    pose proof (IHe oa eq_refl Hg Hp) as Da.
    destruct (xeval en e) as [ka wa za| |] eqn:Xa; try discriminate Hd.
    destruct (den_resize _ _ _ _ _ _ _ _ _ _ (Da eq_refl) He Hn) as (Hk & C & D).
    destruct Hk; subst ka; rewrite C; exact D.
Qed.

Theorem emit_correct_more0 : forall e ex t,
  emit pos e = Some ex -> tyof e = Some t -> in_emit_grammar e = true -> proved_part2 e = true ->
  defined (xeval en e) = true -> eval sg vr ev ex = Ok (to_value (xeval en e)).
Proof.
  intros e ex t He _ Hg Hp Hd. unfold emit in He.
  destruct (emo pos e) as [o|] eqn:Eo; [|discriminate He].
  destruct o as [z|k w z|root rk rw s vk vw]; try discriminate He. inversion He; subst ex.
  apply (fmt_ok sg vr ev (ORef root rk rw s vk vw)). apply emit_den2; assumption.
Qed.
Theorem emit_den_full : forall e o, emo pos e = Some o -> in_emit_grammar e = true ->
  defined (xeval en e) = true -> den o (xeval en e).
Proof.
  induction e using texp_ind'; intros o He Hg Hd; cbn [emo] in He; try discriminate He.
  - (* XIn *)
    destruct ti as [kd w|]; [|discriminate He]. destruct (wf_scalar kd w) eqn:W; [|discriminate He].
    inversion He; subst o. cbn [in_emit_grammar node_ok] in Hg. rewrite andb_true_r in Hg.
    assert (NI : kd <> KInt) by (intros ->; discriminate Hg).
    cbn [xeval] in Hd |- *. pose proof (SM k) as S.
    destruct (wf_ty (Ty kd w) && vok (Ty kd w) (nth k en TUndef)) eqn:C; [|discriminate Hd].
    apply andb_true_iff in C. destruct C as [_ V].
    destruct (nth k en TUndef) as [k' w' z|k' w' l|] eqn:Ev; [| |discriminate Hd].
    + apply vok_TV in V. destruct V as (T & W' & R). inversion T; subst k' w'.
      apply den_tmp; [|split; assumption|exact NI]. cbn [eval]. rewrite S by discriminate. reflexivity.
    + cbn in V. discriminate V.
  - (* XConst *)
    destruct k.
    all: try (destruct (_ && _) eqn:C in He; [|discriminate He]; inversion He; subst o; cbn [xeval]; rewrite C;
              apply andb_true_iff in C; destruct C; cbn [ExprEmitProofs.den]; split; [reflexivity|]; split; [split; assumption|discriminate]).
    inversion He; subst o. cbn [xeval] in *. destruct (wf_scalar KInt w && in_range KInt w z) eqn:C; [|discriminate Hd].
    apply andb_true_iff in C. destruct C as [W _]. cbn in W. apply N.eqb_eq in W. subst w. reflexivity.
  - (* XUn *)
    destruct (emo pos e) as [oa|] eqn:Ea; [|discriminate He].
    cbn [in_emit_grammar node_ok andb] in Hg. cbn [xeval] in *.
    pose proof (IHe oa eq_refl Hg) as Da.
    destruct (xeval en e) as [ka wa za| |] eqn:Xa; try discriminate Hd.
    exact (den_un _ _ _ op oa o _ (Da eq_refl) He).
  - (* XBin *)
    destruct (emo pos e1) as [oa|] eqn:Ea; [|discriminate He]. destruct (emo pos e2) as [ob|] eqn:Eb; [|discriminate He].
    cbn [in_emit_grammar] in Hg. apply andb_true_iff in Hg. destruct Hg as [Hn Hg]. apply andb_true_iff in Hg. destruct Hg as [G1 G2].
    cbn [xeval] in *.
    pose proof (IHe1 oa eq_refl G1) as Da. pose proof (IHe2 ob eq_refl G2) as Db.
    pose proof (type_width e1) as T1. pose proof (type_width e2) as T2.
    destruct (xeval en e1) as [ka wa za| |] eqn:Xa; try discriminate Hd.
    destruct (xeval en e2) as [kb wb zb'| |] eqn:Xb; try discriminate Hd.
    specialize (Da eq_refl). specialize (Db eq_refl).
    assert (BT : exists kr wr, bin_ty op (Ty ka wa) (Ty kb wb) = Some (Ty kr wr)).
    { unfold bin_eval in Hd. destruct (bin_ty op (Ty ka wa) (Ty kb wb)) as [[kr wr|]|]; try discriminate Hd; eauto. }
    destruct BT as (kr & wr & BT).
    assert (RR : is_ref oa || is_ref ob = true).
    { unfold o_bin in He. destruct (is_ref oa || is_ref ob); [reflexivity|discriminate He]. }
    destruct (is_arith op) eqn:Ar; [|destruct (is_shift op) eqn:Sh; [|destruct (is_logic op) eqn:Lg; [|destruct (is_concat op) eqn:Cc]]].
    + assert (AO : exists o', arith_op op = Some o') by (destruct op; try discriminate Ar; cbn; eauto).
      destruct AO as [o' AO].
      assert (TT : tyof e1 = Some (Ty ka wa) /\ tyof e2 = Some (Ty kb wb)).
      { assert (Q : exists t1 t2, tyof e1 = Some t1 /\ tyof e2 = Some t2).
        { cbn [node_ok] in Hn. destruct op; try discriminate Ar;
            destruct (tyof e1) as [[? ?|? ? ?]|]; try discriminate Hn;
            destruct (tyof e2) as [[? ?|? ? ?]|]; try discriminate Hn; eauto. }
        destruct Q as (t1 & t2 & Q1 & Q2).
        rewrite Q1, Q2. rewrite (xeval_ty _ _ _ _ _ Xa Q1), (xeval_ty _ _ _ _ _ Xb Q2). auto. }
      destruct TT as [Ty1 Ty2].
      assert (KK : (ka = KU /\ kb = KU) \/ (ka = KS /\ kb = KS) \/ ((ka = KU \/ ka = KS) /\ kb = KInt) \/
                   (ka = KInt /\ (kb = KU \/ kb = KS)) \/ (ka = KInt /\ kb = KInt)).
      { destruct op; try discriminate Ar; destruct ka, kb; try discriminate BT; auto 12. }
      destruct KK as [[-> ->] | [[-> ->] | [[Hk ->] | [[-> Hk] | [-> ->]]]]].
      * eapply den_bin_arith; eauto.
      * eapply den_bin_arith; eauto.
      * (* int literal on the right *)
        pose proof (den_int _ _ _ _ _ _ Db) as Ob. subst ob.
        assert (W0 : wb = 0%N) by (cbn in Db; inversion Db; reflexivity). subst wb.
        pose proof (int_opnd_lit _ _ _ Eb) as L2.
        assert (L1 : lit_of e1 = None).
        { destruct (lit_of e1) as [z1|] eqn:L; [|reflexivity]. exfalso. destruct (lit_of_inv _ _ L) as [w ->].
          cbn [tyof] in Ty1. destruct (wf_scalar KInt w && in_range KInt w z1); [|discriminate Ty1].
          inversion Ty1; subst. destruct Hk; discriminate. }
        assert (AL : arith_lit_ok op ka wa zb' = true).
        { cbn [node_ok] in Hn. rewrite Ty1, Ty2, L1, L2 in Hn. destruct op; try discriminate Ar; exact Hn. }
        eapply den_bin_lit_right; eauto.
      * (* int literal on the left *)
        pose proof (den_int _ _ _ _ _ _ Da) as Oa. subst oa.
        assert (W0 : wa = 0%N) by (cbn in Da; inversion Da; reflexivity). subst wa.
        pose proof (int_opnd_lit _ _ _ Ea) as L1.
        assert (L2 : lit_of e2 = None).
        { destruct (lit_of e2) as [z2|] eqn:L; [|reflexivity]. exfalso. destruct (lit_of_inv _ _ L) as [w ->].
          cbn [tyof] in Ty2. destruct (wf_scalar KInt w && in_range KInt w z2); [|discriminate Ty2].
          inversion Ty2; subst. destruct Hk; discriminate. }
        assert (AL : arith_lit_ok op kb wb za = true).
        { cbn [node_ok] in Hn. rewrite Ty1, Ty2, L1, L2 in Hn. destruct op; try discriminate Ar; exact Hn. }
        eapply den_bin_lit_left; eauto.
      * (* two ints: folded before the compiler sees them, not printed *)
        exfalso. apply orb_true_iff in RR. destruct RR as [RR | RR].
        -- exact (ref_kind _ _ _ _ _ _ _ Da RR eq_refl).
        -- exact (ref_kind _ _ _ _ _ _ _ Db RR eq_refl).
    + assert (Hop : op = BShl \/ op = BShr) by (destruct op; try discriminate Sh; auto).
      assert (Hn' : match lit_of e2, tyof e2 with
                    | Some z, _ => z <=? int_max
                    | None, Some (Ty KU w) => (w <=? 31)%N
                    | _, _ => false
                    end = true) by (destruct Hop; subst op; exact Hn).
      eapply den_shift; eauto.
      * intros ->. rewrite (den_int _ _ _ _ _ _ Db) in Eb. apply int_opnd_lit in Eb. rewrite Eb in Hn'.
        apply Z.leb_le in Hn'. exact Hn'.
      * intros ->. destruct (lit_of e2) as [z|] eqn:L.
        { exfalso. destruct (lit_of_inv _ _ L) as [w ->]. cbn [xeval] in Xb.
          destruct (wf_scalar KInt w && in_range KInt w z); discriminate Xb. }
        destruct (tyof e2) as [[k2 w2|]|] eqn:Ty2; try discriminate Hn'.
        specialize (T2 _ en eq_refl). rewrite Xb in T2. apply vok_TV in T2. destruct T2 as [T2 _]. inversion T2; subst.
        apply N.leb_le. exact Hn'.
    + eapply den_bin_logic; eauto.
    + assert (op = BConcat) by (destruct op; try discriminate Cc; reflexivity). subst op.
      eapply den_bin_concat; eauto.
    + exfalso. destruct op; try discriminate Ar; try discriminate Sh; try discriminate Lg; try discriminate Cc;
        cbn [node_ok] in Hn; discriminate Hn.
  - (* XCmp *)
    destruct (emo pos e1) as [oa|] eqn:Ea; [|discriminate He]. destruct (emo pos e2) as [ob|] eqn:Eb; [|discriminate He].
    cbn [in_emit_grammar] in Hg. apply andb_true_iff in Hg. destruct Hg as [Hn Hg]. apply andb_true_iff in Hg. destruct Hg as [G1 G2].
   
    cbn [xeval] in *.
    pose proof (IHe1 oa eq_refl G1) as Da. pose proof (IHe2 ob eq_refl G2) as Db.
    destruct (xeval en e1) as [ka wa za| |] eqn:Xa; try discriminate Hd.
    destruct (xeval en e2) as [kb wb zb'| |] eqn:Xb; try discriminate Hd.
    specialize (Da eq_refl). specialize (Db eq_refl). cbn [node_ok] in Hn.
    eapply den_cmp; eauto.
    + intros ->. rewrite (den_int _ _ _ _ _ _ Da) in Ea. apply int_opnd_lit in Ea. rewrite Ea in Hn.
      destruct (lit_of e2); [discriminate Hn|exact Hn].
    + intros ->. rewrite (den_int _ _ _ _ _ _ Db) in Eb. apply int_opnd_lit in Eb. rewrite Eb in Hn.
      destruct (lit_of e1); [discriminate Hn|exact Hn].
  - (* XIdxC *)
    destruct (emo pos e) as [oa|] eqn:Ea; [|discriminate He].
    cbn [in_emit_grammar node_ok andb] in Hg. cbn [xeval] in *.
    pose proof (IHe oa eq_refl Hg) as Da.
    destruct (xeval en e) as [ka wa za| |] eqn:Xa; try discriminate Hd.
    destruct (den_idx _ _ _ _ _ _ _ (Da eq_refl) He) as (k & w & z & E & C & D). inversion E; subst ka wa za.
    rewrite C. exact D.
  - (* XSlice *)
    destruct (emo pos e) as [oa|] eqn:Ea; [|discriminate He].
    cbn [in_emit_grammar node_ok] in Hg. apply andb_true_iff in Hg. destruct Hg as [Hn Hg]. apply Z.ltb_lt in Hn.
    cbn [xeval] in *.
    pose proof (IHe oa eq_refl Hg) as Da.
    destruct (xeval en e) as [ka wa za| |] eqn:Xa; try discriminate Hd.
    destruct (den_slice _ _ _ _ _ _ _ _ (Da eq_refl) He Hn) as (k & w & z & E & C & D). inversion E; subst ka wa za.
    rewrite C. exact D.
  - (* XView *)
    destruct (emo pos e) as [oa|] eqn:Ea; [|discriminate He].
    cbn [in_emit_grammar node_ok andb] in Hg. cbn [xeval] in *.
    pose proof (IHe oa eq_refl Hg) as Da.
    destruct (xeval en e) as [ka wa za| |] eqn:Xa; try discriminate Hd.
    destruct (den_view _ _ _ _ _ _ _ (Da eq_refl) He) as (k & w & z & E & C & D). inversion E; subst ka wa za.
    rewrite C. exact D.
  - (* XResize *)
    destruct (emo pos e) as [oa|] eqn:Ea; [|discriminate He].
    cbn [in_emit_grammar node_ok] in Hg. apply andb_true_iff in Hg. destruct Hg as [Hn Hg]. apply Z.leb_le in Hn.
   
    cbn [xeval] in *.
    pose proof (IHe oa eq_refl Hg) as Da.
    destruct (xeval en e) as [ka wa za| |] eqn:Xa; try discriminate Hd.
    destruct (den_resize _ _ _ _ _ _ _ _ _ _ (Da eq_refl) He Hn) as (Hk & C & D).
    destruct Hk; subst ka; rewrite C; exact D.
Qed.


(** the FULL statement (no [proved_part] hypothesis): every tree of the emitted grammar *)
Theorem emit_correct_full0 : forall e ex t,
  emit pos e = Some ex -> tyof e = Some t -> in_emit_grammar e = true ->
  defined (xeval en e) = true -> eval sg vr ev ex = Ok (to_value (xeval en e)).
Proof.
  intros e ex t He _ Hg Hd. unfold emit in He.
  destruct (emo pos e) as [o|] eqn:Eo; [|discriminate He].
  destruct o as [z|k w z|root rk rw s vk vw]; try discriminate He. inversion He; subst ex.
  apply (fmt_ok sg vr ev (ORef root rk rw s vk vw)). apply emit_den_full; assumption.
Qed.
End Main2.

Theorem emit_correct_more : forall pos en sg vr ev, store_matches pos en sg ->
  forall e ex t, emit pos e = Some ex -> tyof e = Some t -> in_emit_grammar e = true -> proved_part2 e = true ->
  defined (xeval en e) = true -> eval sg vr ev ex = Ok (to_value (xeval en e)).
Proof. intros pos en sg vr ev SM. exact (emit_correct_more0 pos en sg vr ev SM). Qed.


(** ** non-vacuity: concrete trees built from the NEW operator shapes satisfy every hypothesis of emit_correct_more
    (and are outside the old [proved_part]); the conclusion is a real evaluation.
    - ex_m1 : (b & "01") @ s.resize(5)            (bitwise and, concatenation, resize without zeros)
    - ex_m2 : 1 - (b * 3)                         (int literal on the left of -, on the right of * )
    - ex_m3 : s ^ (s + (-1))  |  (7 mod s) ...    (xor / or on Signed, negative literal, literal on the left of mod) *)
Definition ex_m1 : texp :=
  XBin BConcat (XBin BAnd (XIn 1 (Ty KU 2)) (XConst KU 2 1)) (XResize (XIn 0 (Ty KS 3)) 5 0).
Definition ex_m2 : texp :=
  XBin BSub (XConst KInt 0 1) (XBin BMul (XIn 1 (Ty KU 2)) (XConst KInt 0 3)).
Definition ex_m3 : texp :=
  XBin BOr (XBin BXor (XIn 0 (Ty KS 3)) (XBin BAdd (XIn 0 (Ty KS 3)) (XConst KInt 0 (-1))))
           (XBin BMod (XConst KInt 0 3) (XIn 0 (Ty KS 3))).

(** ex_m4 : (s.resize(6, zeros=2)) & b.resize(6)   (zero-padded resize of a Signed, resize of an Unsigned ... through views) *)
Definition ex_m4 : texp :=
  XBin BAnd (XView VwU (XResize (XIn 0 (Ty KS 3)) 6 2)) (XResize (XIn 1 (Ty KU 2)) 6 1).

Example emit_correct_more_nonvacuous :
  store_matches ex_pos ex_en ex_sg /\
  (forall e, In e [ex_m1; ex_m2; ex_m3; ex_m4] ->
     (exists ex, emit ex_pos e = Some ex) /\ (exists t, tyof e = Some t) /\ in_emit_grammar e = true /\
     proved_part2 e = true /\ proved_part e = false /\ defined (xeval ex_en e) = true) /\
  emit ex_pos ex_m1 =
    Some (EBin OConcat (EF1 FConvSlv (EBin OAnd (ESig 2) (ELit (VV KUns 2 1))))
                       (EF1 FConvSlv (EF2 FResize (ESig 1) (ELit (VI 5))))) /\
  xeval ex_en ex_m1 = TV KBV 7 61 /\ xeval ex_en ex_m2 = TV KU 4 8 /\ xeval ex_en ex_m3 = TV KS 3 1 /\
  eval ex_sg (PM.empty value) PS.empty
    (EBin OAnd (EF1 FConvUns (EF1 FConvSlv (EF2 FResize (EF1 FConvSgn (EBin OConcat (EF1 FConvSlv (ESig 1)) (ELit (VV KSlv 2 0)))) (ELit (VI 6)))))
               (EF2 FResize (EF1 FConvUns (EBin OConcat (EF1 FConvSlv (ESig 2)) (ELit (VV KSlv 1 0)))) (ELit (VI 6))))
  = Ok (to_value (xeval ex_en ex_m4)) /\
  emit ex_pos ex_m4 <> None /\ xeval ex_en ex_m4 = TV KU 6 4.
Proof.
  split; [exact ex_store_matches|]. split.
  - intros e [<- | [<- | [<- | [<- | []]]]]; (split; [eexists; vm_compute; reflexivity|]); (split; [eexists; vm_compute; reflexivity|]);
      vm_compute; auto.
  - vm_compute. repeat split; try reflexivity. discriminate.
Qed.

Theorem emit_correct_full : forall pos en sg vr ev, store_matches pos en sg ->
  forall e ex t, emit pos e = Some ex -> tyof e = Some t -> in_emit_grammar e = true ->
  defined (xeval en e) = true -> eval sg vr ev ex = Ok (to_value (xeval en e)).
Proof. intros pos en sg vr ev SM. exact (emit_correct_full0 pos en sg vr ev SM). Qed.

Print Assumptions emit_correct_more.
Print Assumptions emit_correct_full.
