(** * TimingAll: executable models of the std timing utilities AS CODED (cohdl/std/utility.py:
    DelayLine/delayed, continuous_counter, ToggleSignal, ClockDivider), for every length / limit /
    period, as reference machines over [list Z] states.  [Models.TimingAllProofs] proves for ALL
    values of these numbers that they coincide with the specification machines of [Models.StdSpecs]
    (which harness/c16.py ties to the emitted VHDL per configuration) and gives their closed forms. *)
From Coq Require Import ZArith NArith List Bool Lia.
From Cohdl Require Import Base.Bits Vhdl.Value Equiv.Explore Equiv.RefTS Models.Ring.
Import ListNotations.
Local Open Scope Z_scope.

(** ** DelayLine(inp, delay, initial): [_steps = [inp, s1 .. s_delay]];
    [for src, target in zip(_steps, _steps[1:]): target <<= src]; [last() = _steps[-1]].
    state = [s1 .. s_delay] (newest first); the new registers are the sources of the zip *)
Definition dl_next (x : Z) (regs : list Z) : list Z := map fst (combine (x :: regs) regs).

Definition dline_step (w : BinNums.N) : rstep := fun st inp =>
  match inp with
  | [x] => let st' := dl_next (vnum x) st in (st', Ok [ouns w (last st' 0)])
  | _ => (st, Err ETypeError)
  end.

Definition dline_init (n : nat) (i : Z) : list Z := repeat i n.

(** ** continuous_counter(ctx, limit) with a constant limit >= 1 (also used with limit 0 by
    ToggleSignal: the code then passes the constant 0 to [on_change]):
    counter type [Unsigned.upto(limit)]; [next_value = 0 if counter == limit else counter + 1] *)
Definition cc_next (limit c : Z) : Z :=
  if c =? limit then 0 else wrap (upto_width limit) (c + 1).

Definition ccounter_step (w : BinNums.N) (limit : Z) : rstep := fun st _ =>
  match st with
  | [c] => let c' := cc_next limit c in ([c'], Ok [ouns w c'])
  | _ => (st, Err ETypeError)
  end.

(** ** ToggleSignal(ctx, first, second, default_state, first_state) with constant durations
    ([require_enable = False], enable/disable not used): [counter_end = first + second - 1];
    [change_handler(next_cnt)]: [next_state = next_cnt < first] (negated unless [first_state]);
    [_state <<= next_state]; [_rising <<= not _state and next_state];
    [_falling <<= _state and not next_state].
    state [counter; _state; _rising; _falling]; outputs [state; rising; falling] *)
Definition togglem_step (first second : Z) (default_state first_state : bool) : rstep := fun st _ =>
  match st with
  | [c; s; ri; fa] =>
      let counter_end := first + second - 1 in
      let next_cnt := cc_next counter_end c in
      let next_state := if first_state then next_cnt <? first else negb (next_cnt <? first) in
      let sb := (s =? 1) in
      let rising := negb sb && next_state in
      let falling := sb && negb next_state in
      ([next_cnt; zb next_state; zb rising; zb falling],
       Ok [obit next_state; obit rising; obit falling])
  | _ => (st, Err ETypeError)
  end.

Definition togglem_init (default_state : bool) : list Z := [0; zb default_state; 0; 0].

(** ** ClockDivider(ctx, D, default_state, tick_at_start) with a constant duration D >= 2 and the
    enable/disable requests of the wrapper DIVIDER of harness/c16.py as inputs [en; dis]:
    [counter_end = D - 1]; [continuous_counter(ctx.or_reset(_reset_counter), counter_end,
    start_at_limit=tick_at_start)]; [change_handler(next_cnt)]:
    [next_state = (not default_state) if next_cnt == 0 else default_state], pulses as above.
    While [_reset_counter] is set every register of the process returns to its initial value
    (the counter to the limit when [start_at_limit]).
    state [_reset_counter; counter; _state; _rising; _falling]; outputs [state; rising; falling] *)
Definition dividerm_step (D : Z) (default_state tick_at_start : bool) : rstep := fun st inp =>
  match st, inp with
  | [off; c; s; ri; fa], [en; dis] =>
      let counter_end := D - 1 in
      let off' := if vbit dis then 1 else if vbit en then 0 else off in
      if off =? 1 then
        ([off'; (if tick_at_start then counter_end else 0); zb default_state; 0; 0],
         Ok [obit default_state; obit false; obit false])
      else
        let next_cnt := cc_next counter_end c in
        let next_state := if next_cnt =? 0 then negb default_state else default_state in
        let sb := (s =? 1) in
        let rising := negb sb && next_state in
        let falling := sb && negb next_state in
        ([off'; next_cnt; zb next_state; zb rising; zb falling],
         Ok [obit next_state; obit rising; obit falling])
  | _, _ => (st, Err ETypeError)
  end.

Definition dividerm_init (D : Z) (default_state tick_at_start : bool) : list Z :=
  [0; (if tick_at_start then D - 1 else 0); zb default_state; 0; 0].
