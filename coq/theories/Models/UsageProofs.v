(** * C07 - proofs about the usage-check model *)
From Coq Require Import ZArith NArith PArith List Bool Lia Arith.
From Cohdl Require Import Models.Usage.
Import ListNotations.

(** the as-coded check accepts the always-block witness although [o] has two drivers *)
Lemma check_refuted :
  exists D root, check D = Accept /\ drivers D root = 2.
Proof. exists witness, 1%positive. vm_compute. split; reflexivity. Qed.
