(** * C07 - proofs about the usage-check model *)
From Coq Require Import ZArith NArith PArith List Bool Lia Arith.
From Cohdl Require Import Models.Usage.
Import ListNotations.

(** ** the as-coded check is refuted by the always-block witness (and two neighbours) *)

Lemma check_old_refuted :
  exists D root, check_old D = Accept /\ drivers D root = 2.
Proof. exists witness, 1%positive. vm_compute. split; reflexivity. Qed.

Lemma check_old_refuted_users :
  exists D root, check_old D = Accept /\ users D root = 2.
Proof. exists witness_var, 2%positive. vm_compute. split; reflexivity. Qed.

Lemma check_old_refuted_input :
  exists D, check_old D = Accept /\ no_input_writtenb D = false.
Proof. exists witness_inst. vm_compute. split; reflexivity. Qed.

(** the corrected discipline rejects all three *)
Lemma check_rejects_witnesses :
  check witness = Reject RMultiWrite /\ check witness_var = Reject RVarInConc
  /\ check witness_inst = Reject RInputWritten.
Proof. vm_compute. repeat split. Qed.

(** ** small facts *)

Definition has (r : positive) (w : omap) : bool :=
  match find r w with Some _ => true | None => false end.

Lemma find_cons r x o w : find r ((x, o) :: w) = if Pos.eqb r x then Some o else find r w.
Proof. reflexivity. Qed.

Lemma nodup_all_eq {A} (dec : forall a b : A, {a = b} + {a <> b}) (l : list A) :
  (forall x y, In x l -> In y l -> x = y) -> length (nodup dec l) <= 1.
Proof.
  intros H. destruct l as [|a l]; [simpl; lia|].
  assert (Hall : forall x, In x (a :: l) -> x = a) by (intros x Hx; apply H; [exact Hx | left; reflexivity]).
  clear H. revert Hall. generalize (a :: l) as m. intros m. induction m as [|b m IH]; intros Hall; [simpl; lia|].
  simpl. destruct (in_dec dec b m) as [Hin|Hnin].
  - apply IH. intros x Hx. apply Hall. right; exact Hx.
  - destruct m as [|c m]; [simpl; lia|].
    exfalso. apply Hnin. left.
    rewrite (Hall c) by (right; left; reflexivity). symmetry. apply Hall. left; reflexivity.
Qed.

(** ** one step of [check_usage] *)

Lemma step_ok st o e st1 :
  step st (o, e) = UOk st1 ->
  (forall r o', find r st.(written_in) = Some o' -> find r st1.(written_in) = Some o') /\
  (forall r o', find r st.(used_in) = Some o' -> find r st1.(used_in) = Some o') /\
  (is_write e.(e_acc) = true -> is_input e.(e_kind) = false /\ find e.(e_root) st1.(written_in) = Some o) /\
  (is_vt e.(e_kind) = true -> find e.(e_root) st1.(used_in) = Some o).
Proof.
  unfold step.
  set (wres := if is_write (e_acc e) then _ else _).
  assert (Hw : forall st', wres = UOk st' ->
     used_in st' = used_in st /\
     (forall r o', find r st.(written_in) = Some o' -> find r st'.(written_in) = Some o') /\
     (is_write e.(e_acc) = true -> is_input e.(e_kind) = false /\ find e.(e_root) st'.(written_in) = Some o)).
  { subst wres. intros st'. destruct (is_write (e_acc e)).
    - destruct (is_input (e_kind e)); [discriminate|].
      destruct (find (e_root e) (written_in st)) as [o'|] eqn:Hf.
      + destruct (owner_eqb o' o) eqn:Ho; [|discriminate].
        apply owner_eqb_ok in Ho. subst o'. intros H; inversion H; subst st'. auto.
      + intros H; inversion H; subst st'; simpl. split; [reflexivity|]. split.
        * intros r o' Hr. destruct (Pos.eqb r (e_root e)) eqn:E; [|exact Hr].
          apply Pos.eqb_eq in E. subst r. congruence.
        * intros _. split; [reflexivity|]. rewrite Pos.eqb_refl. reflexivity.
    - intros H; inversion H; subst st'. split; [reflexivity|]. split; [auto|]. discriminate. }
  destruct wres as [st'|r]; [|discriminate].
  destruct (Hw st' eq_refl) as (Hu & Hmono & Hwr). clear Hw.
  assert (Hw1 : is_write (e_acc e) = true -> is_input (e_kind e) = false) by (intros X; apply Hwr, X).
  assert (Hw2 : is_write (e_acc e) = true -> find (e_root e) (written_in st') = Some o) by (intros X; apply Hwr, X).
  destruct (is_vt (e_kind e)).
  - destruct (find (e_root e) (used_in st')) as [o'|] eqn:Hf.
    + destruct (owner_eqb o' o) eqn:Ho; [|discriminate].
      apply owner_eqb_ok in Ho. subst o'. intros H; inversion H; subst st1.
      split; [exact Hmono|]. split; [intros r o'; rewrite Hu; auto|]. split; [auto|]. intros _; exact Hf.
    + intros H; inversion H; subst st1; simpl.
      split; [exact Hmono|]. split; [|split; [auto|]].
      * intros r o' Hr. rewrite <- Hu in Hr. destruct (Pos.eqb r (e_root e)) eqn:E; [|exact Hr].
        apply Pos.eqb_eq in E. subst r. congruence.
      * intros _. rewrite Pos.eqb_refl. reflexivity.
  - intros H; inversion H; subst st1.
    split; [exact Hmono|]. split; [intros r o'; rewrite Hu; auto|]. split; [auto|]. discriminate.
Qed.

Lemma run_ok l : forall st st',
  run st l = UOk st' ->
  (forall r o', find r st.(written_in) = Some o' -> find r st'.(written_in) = Some o') /\
  (forall r o', find r st.(used_in) = Some o' -> find r st'.(used_in) = Some o') /\
  (forall o e, In (o, e) l -> is_write e.(e_acc) = true ->
      is_input e.(e_kind) = false /\ find e.(e_root) st'.(written_in) = Some o) /\
  (forall o e, In (o, e) l -> is_vt e.(e_kind) = true -> find e.(e_root) st'.(used_in) = Some o).
Proof.
  induction l as [|[o e] l IH]; intros st st' H; cbn [run] in H.
  - inversion H; subst st'. split; [auto|]. split; [auto|]. split; intros o e [].
  - destruct (step st (o, e)) as [st1|] eqn:Hs; [|discriminate].
    destruct (step_ok _ _ _ _ Hs) as (M1 & M2 & W & U).
    destruct (IH _ _ H) as (N1 & N2 & W' & U').
    split; [auto|]. split; [auto|]. split.
    + intros o0 e0 [E|Hin] Hw; [inversion E; subst o0 e0|apply W'; assumption].
      destruct (W Hw) as [A B]. split; [exact A | apply N1, B].
    + intros o0 e0 [E|Hin] Hv; [inversion E; subst o0 e0; auto | apply U'; assumption].
Qed.

(** ** the instance loop *)

Definition cnt (r : positive) (outs : list (positive * okind)) : nat :=
  length (filter (fun rk => Pos.eqb (fst rk) r) outs).

Lemma cnt_app r a b : cnt r (a ++ b) = cnt r a + cnt r b.
Proof. unfold cnt. rewrite filter_app, app_length. reflexivity. Qed.

Lemma inst_ports_ok m n outs : forall w w',
  inst_ports m n outs w = inr w' ->
  (forall r, has r w = true -> has r w' = true) /\
  (forall r, 0 < cnt r outs -> has r w' = true) /\
  (forall r, has r w = true -> cnt r outs = 0) /\
  (forall r, cnt r outs <= 1) /\
  (m = Current -> forall rk, In rk outs -> is_input (snd rk) = false).
Proof.
  induction outs as [|[root k] outs IH]; intros w w' H; simpl in H.
  - inversion H; subst w'. unfold cnt; simpl.
    split; [auto|]. split; [intros; lia|]. split; [auto|]. split; [auto|]. intros _ ? [].
  - assert (Hk : (m = Current -> is_input k = false) /\
                 match find root w with
                 | Some _ => False
                 | None => inst_ports m n outs ((root, OInst n) :: w) = inr w'
                 end).
    { destruct m; destruct (is_input k); try discriminate;
        (split; [intros; (reflexivity || discriminate)|]);
        destruct (find root w); (discriminate || exact H). }
    clear H. destruct Hk as [Hk H]. destruct (find root w) eqn:Hf; [contradiction|].
    destruct (IH _ _ H) as (A & B & C & D & E).
    assert (Hnew : has root ((root, OInst n) :: w) = true)
      by (unfold has; rewrite find_cons, Pos.eqb_refl; reflexivity).
    assert (Hext : forall r, has r w = true -> has r ((root, OInst n) :: w) = true).
    { intros r Hr. unfold has in *. rewrite find_cons. destruct (Pos.eqb r root); [reflexivity | exact Hr]. }
    assert (Hc : forall r, cnt r ((root, k) :: outs) = (if Pos.eqb root r then 1 else 0) + cnt r outs).
    { intros r. unfold cnt. simpl. destruct (Pos.eqb root r); reflexivity. }
    repeat split.
    + intros r Hr. apply A, Hext, Hr.
    + intros r Hr. rewrite Hc in Hr. destruct (Pos.eqb root r) eqn:E0.
      * apply Pos.eqb_eq in E0. subst r. apply A, Hnew.
      * apply B. simpl in Hr. exact Hr.
    + intros r Hr. rewrite Hc. destruct (Pos.eqb root r) eqn:E0.
      * apply Pos.eqb_eq in E0. subst r. unfold has in Hr. rewrite Hf in Hr. discriminate.
      * simpl. apply C, Hext, Hr.
    + intros r. rewrite Hc. destruct (Pos.eqb root r) eqn:E0.
      * apply Pos.eqb_eq in E0. subst r. rewrite (C root Hnew). lia.
      * simpl. apply D.
    + intros Hm rk [E0|Hin]; [subst rk; simpl; auto | apply E; assumption].
Qed.

Lemma inst_loop_ok m insts : forall n w,
  inst_loop m n insts w = Accept ->
  (forall r, has r w = true -> cnt r (concat insts) = 0) /\
  (forall r, cnt r (concat insts) <= 1) /\
  (m = Current -> forall rk, In rk (concat insts) -> is_input (snd rk) = false).
Proof.
  induction insts as [|outs insts IH]; intros n w H; simpl in H.
  - unfold cnt; simpl. split; [auto|]. split; [auto|]. intros _ ? [].
  - destruct (inst_ports m n outs w) as [e|w'] eqn:Hp; [discriminate|].
    destruct (inst_ports_ok _ _ _ _ _ Hp) as (A & B & C & D & E).
    destruct (IH _ _ H) as (A' & B' & C').
    simpl. repeat split.
    + intros r Hr. rewrite cnt_app, (C r Hr), (A' r (A r Hr)). reflexivity.
    + intros r. rewrite cnt_app. destruct (Nat.eq_dec (cnt r outs) 0) as [Z|NZ].
      * rewrite Z. apply B'.
      * rewrite (A' r (B r ltac:(lia))). specialize (D r). lia.
    + intros Hm rk Hin. apply in_app_or in Hin. destruct Hin; [apply E | apply C']; assumption.
Qed.

(** ** soundness of the corrected check *)

Lemma check_with_accept m D :
  check_with m D = Accept ->
  exists st, run ustate0 (visits m 0 (all_contexts D)) = UOk st
             /\ inst_loop m 0 (all_insts D) st.(written_in) = Accept
             /\ locally_ok m D = true.
Proof.
  unfold check_with, locally_ok.
  destruct (first_reason (ci_ctx m) (conv_contexts D)); [discriminate|].
  destruct (run ustate0 (visits m 0 (all_contexts D))) as [st|]; [|discriminate].
  destruct (inst_loop m 0 (all_insts D) (written_in st)) eqn:Hi; [|discriminate].
  destruct (first_reason front_ctx (all_contexts D)); [discriminate|].
  intros _. exists st. auto.
Qed.

Theorem check_sound D :
  check D = Accept ->
  forall root, drivers D root <= 1 /\ (is_var_or_temp D root -> users D root <= 1) /\ no_input_written D.
Proof.
  intros H root. apply check_with_accept in H. destruct H as (st & Hrun & Hinst & _).
  fold (units D) in Hrun.
  destruct (run_ok _ _ _ Hrun) as (_ & _ & W & U).
  destruct (inst_loop_ok _ _ _ _ Hinst) as (A & B & C).
  fold (inst_outs D) in A, B, C.
  split; [|split].
  - (* drivers *)
    unfold drivers. fold (cnt root (inst_outs D)).
    set (ow := map fst (filter (writes_root root) (units D))).
    assert (Hall : forall o, In o ow -> find root st.(written_in) = Some o).
    { intros o Ho. unfold ow in Ho. apply in_map_iff in Ho. destruct Ho as ([o' e] & Eo & Hin).
      simpl in Eo. subst o'. apply filter_In in Hin. destruct Hin as [Hin Hw].
      unfold writes_root in Hw. simpl in Hw. apply andb_prop in Hw. destruct Hw as [Hw Hr].
      apply Pos.eqb_eq in Hr. subst root. apply (W _ _ Hin Hw). }
    assert (Hn : length (nodup owner_eq_dec ow) <= 1).
    { apply nodup_all_eq. intros x y Hx Hy. apply Hall in Hx. apply Hall in Hy. congruence. }
    destruct ow as [|o ow'] eqn:Eow.
    + simpl. apply B.
    + assert (Hh : has root st.(written_in) = true).
      { unfold has. rewrite (Hall o) by (left; reflexivity). reflexivity. }
      rewrite (A root Hh). lia.
  - (* users *)
    intros _. unfold users. apply nodup_all_eq. intros x y Hx Hy.
    assert (Hall : forall o, In o (map fst (filter (uses_root root) (units D))) -> find root st.(used_in) = Some o).
    { intros o Ho. apply in_map_iff in Ho. destruct Ho as ([o' e] & Eo & Hin).
      simpl in Eo. subst o'. apply filter_In in Hin. destruct Hin as [Hin Hw].
      unfold uses_root in Hw. simpl in Hw. apply andb_prop in Hw. destruct Hw as [Hw Hr].
      apply Pos.eqb_eq in Hr. subst root. apply (U _ _ Hin Hw). }
    apply Hall in Hx. apply Hall in Hy. congruence.
  - (* inputs *)
    split.
    + intros [o e] Hin Hw. simpl in *. apply (W _ _ Hin Hw).
    + apply C. reflexivity.
Qed.

(** the converse reading: a conflicting design is rejected *)
Theorem check_complete D root :
  1 < drivers D root \/ 1 < users D root \/ no_input_writtenb D = false ->
  check D <> Accept.
Proof.
  intros H Hacc. destruct (check_sound D Hacc root) as (Hd & Hu & (I1 & I2)).
  destruct H as [H|[H|H]].
  - lia.
  - assert (Hv : is_var_or_temp D root).
    { unfold users in H. destruct (filter (uses_root root) (units D)) as [|oe l] eqn:E; [simpl in H; lia|].
      exists oe. assert (Hin : In oe (filter (uses_root root) (units D))) by (rewrite E; left; reflexivity).
      apply filter_In in Hin. exact Hin. }
    specialize (Hu Hv). lia.
  - unfold no_input_writtenb in H. apply andb_false_iff in H. destruct H as [H|H].
    + assert (Hall : forallb (fun oe => negb (is_write (e_acc (snd oe)) && is_input (e_kind (snd oe)))) (units D) = true).
      { apply forallb_forall. intros oe Hin. destruct (is_write (e_acc (snd oe))) eqn:Hw; [|reflexivity].
        rewrite (I1 oe Hin Hw). reflexivity. }
      congruence.
    + assert (Hall : forallb (fun rk => negb (is_input (snd rk))) (inst_outs D) = true).
      { apply forallb_forall. intros rk Hin. rewrite (I2 rk Hin). reflexivity. }
      congruence.
Qed.

(** the executable spec used by the harness is implied as well *)
Corollary check_conflict_free D : check D = Accept -> conflict_freeb D = true.
Proof.
  intros H. unfold conflict_freeb. apply andb_true_intro. split.
  - apply forallb_forall. intros r _. destruct (check_sound D H r) as (Hd & Hu & _).
    apply andb_true_intro. split; apply Nat.leb_le; [exact Hd|].
    destruct (filter (uses_root r) (units D)) as [|oe l] eqn:E.
    + unfold users. rewrite E. simpl. lia.
    + apply Hu. exists oe. assert (Hin : In oe (filter (uses_root r) (units D))) by (rewrite E; left; reflexivity).
      apply filter_In in Hin. exact Hin.
  - destruct (check_sound D H 1%positive) as (_ & _ & (I1 & I2)).
    unfold no_input_writtenb. apply andb_true_intro. split; apply forallb_forall.
    + intros oe Hin. destruct (is_write (e_acc (snd oe))) eqn:Hw; [|reflexivity]. rewrite (I1 oe Hin Hw). reflexivity.
    + intros rk Hin. rewrite (I2 rk Hin). reflexivity.
Qed.

(** non-vacuity: an accepted design with writers, a variable, an always block and an instance *)
Definition sample_ok : design :=
  {| d_ctxs := [ {| c_kind := Sequential;
                    c_always := Some [ {| e_root := 1; e_acc := AW; e_kind := KPortOut |} ];
                    c_body := [ {| e_root := 2; e_acc := AW; e_kind := KSignal |};
                                {| e_root := 3; e_acc := AW; e_kind := KVariable |};
                                {| e_root := 3; e_acc := AR; e_kind := KVariable |};
                                {| e_root := 2; e_acc := AP; e_kind := KSignal |} ] |};
                 {| c_kind := Concurrent; c_always := None;
                    c_body := [ {| e_root := 4; e_acc := AW; e_kind := KSignal |};
                                {| e_root := 2; e_acc := AR; e_kind := KSignal |} ] |} ];
     d_subs := [ BEntity [ (5%positive, KSignal) ]; BBlock [] [ BEntity [ (6%positive, KPortOut) ] ] ] |}.

Example check_sound_nonvacuous :
  check sample_ok = Accept /\ check_old sample_ok = Accept
  /\ drivers sample_ok 2 = 1 /\ drivers sample_ok 6 = 1 /\ users sample_ok 3 = 1.
Proof. vm_compute. repeat split. Qed.

Example check_complete_nonvacuous :
  1 < drivers witness 1 /\ 1 < users witness_var 2 /\ no_input_writtenb witness_inst = false.
Proof. vm_compute. repeat split; lia. Qed.

(** ** exactness of the corrected check (no over-rejection in the model) *)

Lemma nodup_le1_eq {A} (dec : forall a b : A, {a = b} + {a <> b}) (l : list A) :
  length (nodup dec l) <= 1 -> forall x y, In x l -> In y l -> x = y.
Proof.
  intros H x y Hx Hy.
  apply (nodup_In dec) in Hx. apply (nodup_In dec) in Hy.
  destruct (nodup dec l) as [|a [|b m]]; simpl in *; try lia; try tauto.
  destruct Hx as [|[]], Hy as [|[]]. congruence.
Qed.

(** entries of the maps come from the events visited so far *)
Definition inv (pre : list (owner * event)) (st : ustate) : Prop :=
  (forall r o, find r st.(written_in) = Some o -> exists e, In (o, e) pre /\ writes_root r (o, e) = true) /\
  (forall r o, find r st.(used_in) = Some o -> exists e, In (o, e) pre /\ uses_root r (o, e) = true).

Lemma run_complete (all : list (owner * event)) :
  (forall oe, In oe all -> is_write (snd oe).(e_acc) = true -> is_input (snd oe).(e_kind) = false) ->
  (forall r o o' e e', In (o, e) all -> In (o', e') all ->
       writes_root r (o, e) = true -> writes_root r (o', e') = true -> o = o') ->
  (forall r o o' e e', In (o, e) all -> In (o', e') all ->
       uses_root r (o, e) = true -> uses_root r (o', e') = true -> o = o') ->
  forall suf pre st, all = pre ++ suf -> inv pre st ->
  exists st', run st suf = UOk st' /\ inv all st'.
Proof.
  intros Hin Hw Hu. induction suf as [|[o e] suf IH]; intros pre st E I.
  - rewrite app_nil_r in E. subst pre. exists st. split; [reflexivity | exact I].
  - assert (Hmem : In (o, e) all) by (rewrite E; apply in_or_app; right; left; reflexivity).
    assert (Hpre : forall x, In x pre -> In x all) by (intros x Hx; rewrite E; apply in_or_app; left; exact Hx).
    destruct I as [I1 I2].
    assert (S : exists st1, step st (o, e) = UOk st1 /\ inv (pre ++ [(o, e)]) st1).
    { unfold step.
      assert (W : exists stw,
        (if is_write (e_acc e)
         then if is_input (e_kind e) then UErr RInputWritten
              else match find (e_root e) (written_in st) with
                   | Some o' => if owner_eqb o' o then UOk st else UErr RMultiWrite
                   | None => UOk {| written_in := (e_root e, o) :: written_in st; used_in := used_in st |}
                   end
         else UOk st) = UOk stw /\ used_in stw = used_in st /\
        (forall r o0, find r stw.(written_in) = Some o0 ->
           exists e0, In (o0, e0) (pre ++ [(o, e)]) /\ writes_root r (o0, e0) = true)).
      { destruct (is_write (e_acc e)) eqn:Ew.
        - pose proof (Hin (o, e) Hmem Ew) as Hni. simpl in Hni. rewrite Hni.
          destruct (find (e_root e) (written_in st)) as [o'|] eqn:F.
          + destruct (I1 _ _ F) as (e' & Hi & Hwr).
            assert (o' = o).
            { apply (Hw (e_root e) o' o e' e); auto. unfold writes_root; simpl. rewrite Ew, Pos.eqb_refl. reflexivity. }
            subst o'. assert (X : owner_eqb o o = true) by (apply owner_eqb_ok; reflexivity). rewrite X.
            exists st. split; [reflexivity|]. split; [reflexivity|].
            intros r o0 Hf. destruct (I1 _ _ Hf) as (e0 & A & B). exists e0. split; [apply in_or_app; left; exact A | exact B].
          + eexists. split; [reflexivity|]. split; [reflexivity|]. simpl.
            intros r o0 Hf. destruct (Pos.eqb r (e_root e)) eqn:Er.
            * inversion Hf; subst o0. apply Pos.eqb_eq in Er. subst r. exists e.
              split; [apply in_or_app; right; left; reflexivity|].
              unfold writes_root; simpl. rewrite Ew, Pos.eqb_refl. reflexivity.
            * destruct (I1 _ _ Hf) as (e0 & A & B). exists e0. split; [apply in_or_app; left; exact A | exact B].
        - exists st. split; [reflexivity|]. split; [reflexivity|].
          intros r o0 Hf. destruct (I1 _ _ Hf) as (e0 & A & B). exists e0. split; [apply in_or_app; left; exact A | exact B]. }
      destruct W as (stw & -> & Hus & Hws).
      assert (I2' : forall r o0, find r stw.(used_in) = Some o0 ->
                 exists e0, In (o0, e0) (pre ++ [(o, e)]) /\ uses_root r (o0, e0) = true).
      { intros r o0 Hf. rewrite Hus in Hf. destruct (I2 _ _ Hf) as (e0 & A & B). exists e0. split; [apply in_or_app; left; exact A | exact B]. }
      destruct (is_vt (e_kind e)) eqn:Ev.
      - destruct (find (e_root e) (used_in stw)) as [o'|] eqn:F.
        + rewrite Hus in F. destruct (I2 _ _ F) as (e' & Hi & Hur).
          assert (o' = o).
          { apply (Hu (e_root e) o' o e' e); auto. unfold uses_root; simpl. rewrite Ev, Pos.eqb_refl. reflexivity. }
          subst o'. assert (X : owner_eqb o o = true) by (apply owner_eqb_ok; reflexivity). rewrite X.
          exists stw. split; [reflexivity|]. split; assumption.
        + eexists. split; [reflexivity|]. split; simpl; [exact Hws|].
          intros r o0 Hf. destruct (Pos.eqb r (e_root e)) eqn:Er.
          * inversion Hf; subst o0. apply Pos.eqb_eq in Er. subst r. exists e.
            split; [apply in_or_app; right; left; reflexivity|].
            unfold uses_root; simpl. rewrite Ev, Pos.eqb_refl. reflexivity.
          * apply I2'. exact Hf.
      - exists stw. split; [reflexivity|]. split; assumption. }
    destruct S as (st1 & Hs & I').
    destruct (IH (pre ++ [(o, e)]) st1) as (st' & Hr & If).
    + rewrite <- app_assoc. exact E.
    + exact I'.
    + exists st'. split; [|exact If]. cbn [run]. rewrite Hs. exact Hr.
Qed.

Lemma inst_ports_complete m n outs : forall w,
  (forall rk, In rk outs -> is_input (snd rk) = false) ->
  (forall r, has r w = true -> cnt r outs = 0) ->
  (forall r, cnt r outs <= 1) ->
  exists w', inst_ports m n outs w = inr w' /\
             (forall r, has r w' = true <-> has r w = true \/ 0 < cnt r outs).
Proof.
  induction outs as [|[root k] outs IH]; intros w Hi Hw Hc.
  - exists w. split; [reflexivity|]. intros r. unfold cnt; simpl. split; [auto | intros [H|H]; [exact H | lia]].
  - assert (Hk : is_input k = false) by (apply (Hi (root, k)); left; reflexivity).
    assert (Hcs : forall r, cnt r ((root, k) :: outs) = (if Pos.eqb root r then 1 else 0) + cnt r outs).
    { intros r. unfold cnt. simpl. destruct (Pos.eqb root r); reflexivity. }
    assert (Hf : find root w = None).
    { destruct (find root w) eqn:F; [|reflexivity]. exfalso.
      assert (X : has root w = true) by (unfold has; rewrite F; reflexivity).
      specialize (Hw root X). rewrite Hcs, Pos.eqb_refl in Hw. lia. }
    destruct (IH ((root, OInst n) :: w)) as (w' & Hp & Hh).
    + intros rk Hin. apply Hi. right. exact Hin.
    + intros r Hr. unfold has in Hr. rewrite find_cons in Hr. destruct (Pos.eqb r root) eqn:E.
      * apply Pos.eqb_eq in E. subst r. specialize (Hc root). rewrite Hcs, Pos.eqb_refl in Hc. lia.
      * specialize (Hw r Hr). rewrite Hcs in Hw. lia.
    + intros r. specialize (Hc r). rewrite Hcs in Hc. lia.
    + exists w'. split.
      * simpl. rewrite Hk, Hf. destruct m; exact Hp.
      * intros r. rewrite Hh, Hcs. unfold has at 1. rewrite find_cons.
        destruct (Pos.eqb r root) eqn:E.
        -- apply Pos.eqb_eq in E. subst r. rewrite Pos.eqb_refl. split; intros _; [right; lia | left; reflexivity].
        -- assert (E' : Pos.eqb root r = false) by (rewrite Pos.eqb_sym; exact E). rewrite E'. simpl.
           fold (has r w). tauto.
Qed.

Lemma inst_loop_complete m insts : forall n w,
  (forall rk, In rk (concat insts) -> is_input (snd rk) = false) ->
  (forall r, has r w = true -> cnt r (concat insts) = 0) ->
  (forall r, cnt r (concat insts) <= 1) ->
  inst_loop m n insts w = Accept.
Proof.
  induction insts as [|outs insts IH]; intros n w Hi Hw Hc; [reflexivity|].
  simpl in *.
  destruct (inst_ports_complete m n outs w) as (w' & Hp & Hh).
  - intros rk Hin. apply Hi. apply in_or_app. left. exact Hin.
  - intros r Hr. specialize (Hw r Hr). rewrite cnt_app in Hw. lia.
  - intros r. specialize (Hc r). rewrite cnt_app in Hc. lia.
  - rewrite Hp. apply IH.
    + intros rk Hin. apply Hi. apply in_or_app. right. exact Hin.
    + intros r Hr. apply Hh in Hr. specialize (Hc r). rewrite cnt_app in Hc. destruct Hr as [Hr|Hr].
      * specialize (Hw r Hr). rewrite cnt_app in Hw. lia.
      * lia.
    + intros r. specialize (Hc r). rewrite cnt_app in Hc. lia.
Qed.

(** no over-rejection in the corrected model: a conflict-free design that respects the
    context-local rules of ConvertInstance is accepted *)
Theorem check_exact D :
  (forall root, drivers D root <= 1 /\ users D root <= 1) -> no_input_written D ->
  locally_ok Current D = true -> check D = Accept.
Proof.
  intros Hdu [I1 I2] Hl. unfold check, check_with. unfold locally_ok in Hl.
  destruct (first_reason (ci_ctx Current) (conv_contexts D)); [discriminate|].
  destruct (first_reason front_ctx (all_contexts D)) eqn:Hfront; [discriminate|].
  fold (units D).
  assert (Hown : forall r o o' e e', In (o, e) (units D) -> In (o', e') (units D) ->
            writes_root r (o, e) = true -> writes_root r (o', e') = true -> o = o').
  { intros r o o' e e' H1 H2 W1 W2. destruct (Hdu r) as [Hd _]. unfold drivers in Hd.
    apply (nodup_le1_eq owner_eq_dec (map fst (filter (writes_root r) (units D)))); [lia| |].
    - apply in_map_iff. exists (o, e). split; [reflexivity | apply filter_In; auto].
    - apply in_map_iff. exists (o', e'). split; [reflexivity | apply filter_In; auto]. }
  assert (Huse : forall r o o' e e', In (o, e) (units D) -> In (o', e') (units D) ->
            uses_root r (o, e) = true -> uses_root r (o', e') = true -> o = o').
  { intros r o o' e e' H1 H2 W1 W2. destruct (Hdu r) as [_ Hd]. unfold users in Hd.
    apply (nodup_le1_eq owner_eq_dec (map fst (filter (uses_root r) (units D)))); [lia| |].
    - apply in_map_iff. exists (o, e). split; [reflexivity | apply filter_In; auto].
    - apply in_map_iff. exists (o', e'). split; [reflexivity | apply filter_In; auto]. }
  destruct (run_complete (units D) I1 Hown Huse (units D) [] ustate0 eq_refl) as (st & Hr & [Iw _]).
  { split; intros r o H; discriminate H. }
  rewrite Hr.
  assert (Hacc : inst_loop Current 0 (all_insts D) (written_in st) = Accept); [|rewrite Hacc; reflexivity].
  apply inst_loop_complete.
  - exact I2.
  - intros r Hh. unfold has in Hh. destruct (find r (written_in st)) as [o|] eqn:F; [|discriminate].
    destruct (Iw _ _ F) as (e & Hin & Hw). destruct (Hdu r) as [Hd _]. unfold drivers in Hd.
    fold (inst_outs D). fold (cnt r (inst_outs D)) in Hd.
    assert (Hne : 1 <= length (nodup owner_eq_dec (map fst (filter (writes_root r) (units D))))).
    { assert (X : In o (nodup owner_eq_dec (map fst (filter (writes_root r) (units D))))).
      { apply nodup_In. apply in_map_iff. exists (o, e). split; [reflexivity | apply filter_In; auto]. }
      destruct (nodup owner_eq_dec (map fst (filter (writes_root r) (units D)))); [destruct X | simpl; lia]. }
    lia.
  - intros r. destruct (Hdu r) as [Hd _]. unfold drivers in Hd. fold (inst_outs D). fold (cnt r (inst_outs D)) in Hd. lia.
Qed.

Example check_exact_nonvacuous :
  (forall root, drivers sample_ok root <= 1 /\ users sample_ok root <= 1) /\ locally_ok Current sample_ok = true.
Proof.
  split; [|reflexivity]. intros root.
  assert (H := check_sound sample_ok eq_refl root). destruct H as (Hd & Hu & _).
  split; [exact Hd|].
  destruct (filter (uses_root root) (units sample_ok)) as [|oe l] eqn:E.
  - unfold users. rewrite E. simpl. lia.
  - apply Hu. exists oe. assert (Hin : In oe (filter (uses_root root) (units sample_ok))) by (rewrite E; left; reflexivity).
    apply filter_In in Hin. exact Hin.
Qed.
