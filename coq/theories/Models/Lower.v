(** * Lower: a Gallina model of the compiler's coroutine -> state machine lowering (C01).

    Anchored code: [IrGenerator._apply_impl] in cohdl/_compiler/frontend/_generate_ir.py
    (cases Await / While / Break / Continue / If / list) and [StatemachineContext]
    (cohdl/_core/_ir/_repr.py).  The compiler walks the body forward with a list of
    "open blocks" (the places of the current state's code where the next statement
    is appended); a statement that follows an [if] whose branches contain awaits is
    appended to EVERY open block (the code is duplicated), an await/while allocates ONE
    new state and puts a transition to it into every open block, [break] hands its
    open blocks to the enclosing loop (they become open blocks after the loop),
    [continue] gets the loop head's code (condition + first segment of the body)
    appended, the body of an awaited sub-coroutine is lowered in place and the blocks
    that end in [return] are open again after the call, a while/await that is the very
    first action of the process uses the (still empty) first state instead of a new one,
    and every block open at the end of the body gets a transition to the first state.

    [std.wait_for] / [Waiter.wait_for] are library coroutines ([await true] for the constant 1, otherwise
    a counter signal loaded with n - 1 and [while counter: counter <<= counter - 1]); [Wait n] / [WaitIn]
    are lowered to exactly that, with ONE counter register in the target machine (std.wait_for declares
    one signal per call, Waiter one per object; only one wait is active at a time and the counter is
    written before it is read, so the registers are interchangeable).

    Known structural differences to the emitted machines (not observable, both measured by
    the harness as "lower_state_count"): the compiler lowers the branches of an [if] once
    per open block, so states allocated inside an [if] that follows a construct with several
    open blocks are emitted several times (the model shares them); the compiler allocates
    no state for awaits in dead code after [await false] (the model does).

    The functional rendering below is continuation passing: [ctree s o E first rest]
    is the code placed in the current state for [s] when [rest] is the code that the
    compiler appends afterwards to each block that [s] leaves open; [cstates] are
    the states allocated inside [s].  A state is named by the pre-order position [o]
    of the statement that allocates it (the compiler numbers them in allocation
    order; the numbering is not observable).  [first] is [StatemachineContext.at_start()].

    Target language: a machine is a list of named states, each state a tree of
    guarded actions; one clock runs the tree of the current state. *)
From Coq Require Import ZArith NArith List Bool Lia.
From Cohdl Require Import Base.Bits Vhdl.Value Models.Coro.
Import ListNotations.
Local Open Scope Z_scope.

(** ** target language *)
Inductive tree :=
| TEff (e : Z) (t : tree)          (* the effect statement, then t *)
| TIf (c : cond) (a b : tree)      (* if c then a else b *)
| TGoto (n : nat)                  (* s_proc <= state_n (end of this clock's code) *)
| TStay                            (* no transition assigned: stay in the current state *)
(* the wait counter: a registered signal (std.wait_for: [counter = Signal(n - 1)] per call,
   Waiter: one [_duration_cnt]; only one wait is active at a time and the counter is 0 outside,
   so one register models both) - reads see the value at the clock edge, a write is pending *)
| TSetW (z : Z) (t : tree)         (* counter <= z *)
| TDecW (t : tree)                 (* counter <= counter - 1 *)
| TIfW (a b : tree)                (* if counter /= 0 then a else b *)
(* run-time duration (input port [dur]) *)
| TSetWD (t : tree)                (* counter <= dur - 1 *)
| TIfD0 (a b : tree).              (* if dur = 0 then a else b *)

Definition machine := list (nat * tree).

Fixpoint tree_at (m : machine) (n : nat) : tree :=
  match m with
  | [] => TStay
  | (k, t) :: r => if Nat.eqb k n then t else tree_at r n
  end.

(** one clock of the code of a state: [cur] is the current state, [rc] the counter value at the
    edge, [pc] its pending next value (initially [rc]) *)
Fixpoint run_tree (inp : cinp) (t : tree) (cur : nat) (w : work) (rc pc : Z) : nat * work * Z :=
  match t with
  | TEff e t' => run_tree inp t' cur (do_eff e w) rc pc
  | TIf c a b => if ceval inp w.(w_v) c then run_tree inp a cur w rc pc else run_tree inp b cur w rc pc
  | TGoto n => (n, w, pc)
  | TStay => (cur, w, pc)
  | TSetW z t' => run_tree inp t' cur w rc z
  | TDecW t' => run_tree inp t' cur w rc (rc - 1)
  | TIfW a b => if rc =? 0 then run_tree inp b cur w rc pc else run_tree inp a cur w rc pc
  | TSetWD t' => run_tree inp t' cur w rc (inp.(i_dur) - 1)
  | TIfD0 a b => if inp.(i_dur) =? 0 then run_tree inp a cur w rc pc else run_tree inp b cur w rc pc
  end.

(** state register, objects, wait counter *)
Definition mstate := (nat * work * Z)%type.

Definition mclock (m : machine) (st : mstate) (inp : cinp) : mstate :=
  run_tree inp (tree_at m (fst (fst st))) (fst (fst st)) (snd (fst st)) (snd st) (snd st).

Definition work0 : work := {| w_v := 0; w_cnt := 0; w_mark := 0 |}.
Definition minit : mstate := (O, work0, 0).

Definition mobs (w : work) : res (list value) := Ok [VV KUns vw w.(w_cnt); VV KUns mw w.(w_mark)].

(** the machine as a transition system with the observation type of [Sem.vstep] / [Coro.ref_step] *)
Definition mstep (m : machine) (st : mstate) (inp : list value) : mstate * res (list value) :=
  let st' := mclock m st (in_bits inp) in (st', mobs (snd (fst st'))).

(** the same over [list Z] configurations [state; v; cnt; mark; wait counter] (shape of Equiv/RefTS.v) *)
Definition mstepZ (m : machine) (st : list Z) (inp : list value) : list Z * res (list value) :=
  match st with
  | [n; v; c; k; wc] =>
      let st' := mclock m (Z.to_nat n, {| w_v := v; w_cnt := c; w_mark := k |}, wc) (in_bits inp) in
      let w' := snd (fst st') in
      ([Z.of_nat (fst (fst st')); w'.(w_v); w'.(w_cnt); w'.(w_mark); snd st'], mobs w')
  | _ => (st, Err EFuel)
  end.
Definition minitZ : list Z := [0; 0; 0; 0; 0].

(** ** the lowering *)
Fixpoint size (s : stmt) : nat :=
  match s with
  | Seq a b => S (size a + size b)
  | If _ t e => S (size t + size e)
  | While _ b | WhileFalse b | Call b => S (size b)
  | _ => 1%nat
  end.

(** [at_start()] after [s] when it was [f] before (Coro's [first] flag at fall-through) *)
Fixpoint fo (s : stmt) (f : bool) : bool :=
  match s with
  | Skip => f
  | Seq a b => fo b (fo a f)
  | Await ATrue => f
  | WhileFalse _ => f
  | Call b => fo b f
  | Wait n => (n =? 1) && f          (* wait_for(1) is [await true] *)
  | _ => false
  end.

(** what a [break] / [continue] of the innermost enclosing loop and a [return] of the innermost
    enclosing awaited sub-coroutine are replaced by *)
Record env := { e_brk : tree; e_cnt : tree; e_ret : tree }.
Definition env0 : env := {| e_brk := TStay; e_cnt := TStay; e_ret := TStay |}.


Fixpoint ctree (s : stmt) (o : nat) (E : env) (first : bool) (rest : tree) : tree :=
  match s with
  | Skip => rest
  | Eff e => TEff e rest
  | Seq a b => ctree a (S o) E first (ctree b (S o + size a) E (fo a first) rest)
  | If c t e => TIf c (ctree t (S o) E false rest) (ctree e (S o + size t) E false rest)
  | Await (ACond c) => if first then TIf c rest TStay else TGoto o
  | Await ATrue => if first then rest else TGoto o
  | Await AFalse => if first then TStay else TGoto o
  | WhileFalse _ => if first then rest else TGoto o
  | While c b =>
      if first then
        (* the first state is the loop head *)
        let body := ctree b (S o) {| e_brk := rest; e_cnt := TStay; e_ret := E.(e_ret) |} false (TGoto O) in
        match c with WTrue => body | WCond c => TIf c body rest end
      else TGoto o
  | Break => E.(e_brk)
  | Continue => E.(e_cnt)
  | Return => E.(e_ret)
  (* the body of an awaited sub-coroutine is lowered in place; the blocks that end in [return]
     are open blocks after the call (IrGenerator.returned_blocks) *)
  | Call b => ctree b (S o) {| e_brk := TStay; e_cnt := TStay; e_ret := rest |} first rest
  (* std.wait_for(n) / Waiter.wait_for(n), n a constant: [await true] for n = 1, otherwise
     [counter <<= n - 1; while counter: counter <<= counter - 1] (the loop head is a new state:
     the assignment made the current state non-empty) *)
  | Wait n => if n =? 1 then (if first then rest else TGoto o) else TSetW (n - 1) (TGoto o)
  (* wait_for(self.dur [, allow_zero=True]): [if dur == 0: return] (allow_zero only), then
     [counter <<= dur - 1] and the same loop *)
  | WaitIn az => if az then TIfD0 rest (TSetWD (TGoto o)) else TSetWD (TGoto o)
  end.

(** code of a loop-head state [h]: test, first segment of the body with the back edge to [h]
    (a [continue] cannot occur in that segment: the compiler rejects it) *)
Definition whead (c : wcond) (b : stmt) (o h : nat) (rest rt : tree) : tree :=
  let body := ctree b (S o) {| e_brk := rest; e_cnt := TStay; e_ret := rt |} false (TGoto h) in
  match c with WTrue => body | WCond c => TIf c body rest end.

Fixpoint cstates (s : stmt) (o : nat) (E : env) (first : bool) (rest : tree) : machine :=
  match s with
  | Seq a b =>
      cstates a (S o) E first (ctree b (S o + size a) E (fo a first) rest)
      ++ cstates b (S o + size a) E (fo a first) rest
  | If c t e => cstates t (S o) E false rest ++ cstates e (S o + size t) E false rest
  | Await (ACond c) => if first then [] else [(o, TIf c rest TStay)]
  | Await ATrue => if first then [] else [(o, rest)]
  | Await AFalse => if first then [] else [(o, TStay)]
  | WhileFalse _ => if first then [] else [(o, rest)]
  | While c b =>
      let h := if first then O else o in
      let hd := whead c b o h rest E.(e_ret) in
      (if first then [] else [(o, hd)])
      ++ cstates b (S o) {| e_brk := rest; e_cnt := hd; e_ret := E.(e_ret) |} false (TGoto h)
  | Call b => cstates b (S o) {| e_brk := TStay; e_cnt := TStay; e_ret := rest |} first rest
  | Wait n =>
      if n =? 1 then (if first then [] else [(o, rest)])
      else [(o, TIfW (TDecW (TGoto o)) rest)]
  | WaitIn _ => [(o, TIfW (TDecW (TGoto o)) rest)]
  | _ => []
  end.

(** state 0 is the first state; a block open at the end of the body returns to it *)
Definition lower (p : stmt) : machine :=
  (O, ctree p 1 env0 true (TGoto O)) :: cstates p 1 env0 true (TGoto O).

(** ** the grammar of the all-programs theorem *)

(** may [s] fall through / reach a break / reach a continue of the enclosing loop
    without a clock passing (path-insensitive, like the compiler's own check) *)
Fixpoint zfall (s : stmt) (f : bool) : bool :=
  match s with
  | Skip | Eff _ => true
  | Seq a b => zfall a f && zfall b (fo a f)
  | If _ t e => zfall t false || zfall e false
  | Await (ACond _) | Await ATrue | WhileFalse _ | While _ _ => f
  | Call b => zfall b f || zret b f
  | Wait n => (n =? 1) && f
  | WaitIn az => az
  | _ => false
  end
with zret (s : stmt) (f : bool) : bool :=
  match s with
  | Return => true
  | Seq a b => zret a f || (zfall a f && zret b (fo a f))
  | If _ t e => zret t false || zret e false
  | While _ b => f && zret b false
  | _ => false
  end.

Fixpoint zbrk (s : stmt) (f : bool) : bool :=
  match s with
  | Break => true
  | Seq a b => zbrk a f || (zfall a f && zbrk b (fo a f))
  | If _ t e => zbrk t false || zbrk e false
  | _ => false
  end.

Fixpoint zcnt (s : stmt) (f : bool) : bool :=
  match s with
  | Continue => true
  | Seq a b => zcnt a f || (zfall a f && zcnt b (fo a f))
  | If _ t e => zcnt t false || zcnt e false
  | _ => false
  end.

(** structure: the modelled constructs; break/continue only inside a loop; no continue
    reachable from its loop head without a clock (the compiler's
    "continue-statement cannot be defined in first state of while-loop") *)
Fixpoint wf (s : stmt) (inloop incall first : bool) (da ds : bool) : bool :=
  match s with
  | Skip | Eff _ | Await _ | WhileFalse _ => true
  | Seq a b => wf a inloop incall first da ds && wf b inloop incall (fo a first) da ds
  | If _ t e => wf t inloop incall false da ds && wf e inloop incall false da ds
  | While _ b => wf b true incall false da ds && negb (zcnt b false)
  | Break | Continue => inloop
  (* a [return] that is the very first action of the process is excluded: Coro.exec clears [first]
     there, the compiler's first state is still empty (see the report) *)
  | Return => incall && negb first
  | Call b => wf b false true first da ds
  (* n >= 1 (the library asserts it); wait_for(1) as the very first action of the process is
     excluded: the code resumes in the same clock, Coro.exec one clock later (known finding C16,
     [lower_wait1_first_refuted]) *)
  | Wait n => (1 <=? n) && negb ((n =? 1) && first)
  (* run-time durations: only in the [da] grammars, whose theorem assumes the duration input
     non-negative ([okd]); without allow_zero the duration must be >= 1 ([ds]) *)
  | WaitIn az => da && (az || ds)
  end.

(** the input assumption of the grammars with run-time durations: [da] = the program may read the
    duration input (it is an unsigned port: >= 0), [ds] = it contains a wait_for without allow_zero
    (the library leaves duration 0 undefined there: the counter wraps) *)
Definition okd (da ds : bool) (inp : cinp) : Prop :=
  (da = true -> 0 <= inp.(i_dur)) /\ (ds = true -> 1 <= inp.(i_dur)).

(** fuel: [Coro.exec] is fuelled ([ref_fuel] per clock).  [fneed s nf] bounds the interpreter
    steps of [s] followed by a continuation that needs [nf]; [fchk] checks the bound against
    [ref_fuel] at every point where the process can sleep. *)
Fixpoint fneed (s : stmt) (nf : nat) : nat :=
  match s with
  | Seq a b => S (fneed a (S (fneed b nf)))
  | If _ t e => S (Nat.max (fneed t nf) (fneed e nf))
  | While _ b => S (Nat.max (fneed b (S nf)) nf)
  | Call b => S (fneed b (S nf))
  | _ => S nf
  end.

Fixpoint fchk (s : stmt) (nf : nat) : bool :=
  match s with
  | Seq a b => fchk a (S (fneed b nf)) && fchk b nf
  | If _ t e => fchk t nf && fchk e nf
  | While _ b =>
      let nl := S (S (fneed b (S nf))) in
      Nat.leb (fneed b (S nf)) ref_fuel && Nat.leb nf ref_fuel && fchk b nl
  | Await _ | WhileFalse _ | Wait _ | WaitIn _ => Nat.leb nf ref_fuel
  | Call b => fchk b (S nf)
  | _ => true
  end.

Definition in_grammar (p : stmt) : bool :=
  wf p false false true false false && fchk p 1 && Nat.leb (fneed p 1) ref_fuel.

(** with run-time durations; [ds]: wait_for(self.dur) without allow_zero allowed *)
Definition in_grammar_dur (ds : bool) (p : stmt) : bool :=
  wf p false false true true ds && fchk p 1 && Nat.leb (fneed p 1) ref_fuel.
