(** * RingProofs: for ALL capacities N the as-coded models of std.Fifo / std.Stack ([Models.Ring])
    refine the abstract bounded queue / stack of [Models.StdSpecs]: same outputs at every clock for
    every input sequence admissible under the documented preconditions (any data width, any data). *)
From Coq Require Import ZArith NArith PArith List Bool Lia.
From Cohdl Require Import Base.Bits Vhdl.Value Equiv.Explore Equiv.RefTS Models.StdSpecs Models.Ring.
Import ListNotations.
Local Open Scope Z_scope.
(* [mod] is kept opaque for [lia]: all modular facts go through the range lemmas below *)

(** ** modular arithmetic on in-range operands, proved once *)

Lemma mod_sub_range n a b : 0 <= a < n -> 0 <= b < n ->
  (a - b) mod n = if b <=? a then a - b else a - b + n.
Proof.
  intros Ha Hb. destruct (b <=? a) eqn:E.
  - apply Z.leb_le in E. apply Z.mod_small. lia.
  - apply Z.leb_gt in E. symmetry. apply (Z.mod_unique _ _ (-1)); lia.
Qed.

Lemma mod_succ_range n a : 0 <= a < n -> (a + 1) mod n = if a + 1 =? n then 0 else a + 1.
Proof.
  intros Ha. destruct (a + 1 =? n) eqn:E.
  - apply Z.eqb_eq in E. symmetry. apply (Z.mod_unique _ _ 1); lia.
  - apply Z.eqb_neq in E. apply Z.mod_small. lia.
Qed.

Lemma mod_pred_range n a : 0 <= a < n -> (a - 1) mod n = if a =? 0 then n - 1 else a - 1.
Proof.
  intros Ha. destruct (a =? 0) eqn:E.
  - apply Z.eqb_eq in E. symmetry. apply (Z.mod_unique _ _ (-1)); lia.
  - apply Z.eqb_neq in E. apply Z.mod_small. lia.
Qed.

Lemma mod_add_range n a b : 0 <= a < n -> 0 <= b < n ->
  (a + b) mod n = if a + b <? n then a + b else a + b - n.
Proof.
  intros Ha Hb. destruct (a + b <? n) eqn:E.
  - apply Z.ltb_lt in E. apply Z.mod_small. lia.
  - apply Z.ltb_ge in E. symmetry. apply (Z.mod_unique _ _ 1); lia.
Qed.

Lemma mod_range n a : 0 < n -> 0 <= a mod n < n.
Proof. intros H. apply Z.mod_pos_bound. exact H. Qed.

(** ** widths: [bit_length], [is_pow_two], [Unsigned.upto] *)

Lemma bit_length_gt z : 0 <= z -> z < pow2 (bit_length z).
Proof.
  intros Hz. destruct z as [|p|p]; [reflexivity| |lia].
  unfold bit_length, pow2. cbn [Z.of_N].
  pose proof (Pos.size_gt p) as H.
  apply Pos2Z.pos_lt_pos in H. rewrite Pos2Z.inj_pow in H. exact H.
Qed.

Lemma bit_length_le p : pow2 (bit_length (Zpos p)) <= 2 * Zpos p.
Proof.
  unfold bit_length, pow2. cbn [Z.of_N].
  pose proof (Pos.size_le p) as H.
  apply Pos2Z.pos_le_pos in H. rewrite Pos2Z.inj_pow in H. exact H.
Qed.

Lemma pos_bit_count_pos p : (1 <= pos_bit_count p)%nat.
Proof. induction p; cbn; lia. Qed.

Lemma is_pow_two_shape z : is_pow_two z = true -> exists k : BinNums.N, z = pow2 k.
Proof.
  destruct z as [|p|p]; cbn; try discriminate.
  induction p as [q IH|q IH|]; cbn [pos_bit_count]; intros H.
  - apply Nat.eqb_eq in H. pose proof (pos_bit_count_pos q). lia.
  - destruct (IH H) as [k Hk]. exists (N.succ k). rewrite pow2_succ, <- Hk. reflexivity.
  - exists 0%N. reflexivity.
Qed.

(** the index type of a power-of-two Fifo overflows exactly at N *)
Lemma pow_two_width m : is_pow_two m = true -> 2 <= m -> pow2 (bit_length (m - 1)) = m.
Proof.
  intros Hp Hm. destruct (is_pow_two_shape _ Hp) as [k Hk].
  destruct (m - 1) as [|p|p] eqn:Ep; try lia.
  pose proof (bit_length_le p) as Hle. pose proof (bit_length_gt (Zpos p) ltac:(lia)) as Hgt.
  set (W := bit_length (Zpos p)) in *.
  clearbody W.
  assert (HWk : Z.of_N W < Z.of_N (N.succ k)).
  { apply (Z.pow_lt_mono_r_iff 2); [lia|lia|]. fold (pow2 W). fold (pow2 (N.succ k)). rewrite pow2_succ. lia. }
  assert (HkW : Z.of_N k <= Z.of_N W).
  { apply (Z.pow_le_mono_r_iff 2); [lia|lia|]. fold (pow2 W). fold (pow2 k). lia. }
  assert (W = k) by lia. subst W. lia.
Qed.

(** ** lists and memories *)

Lemma upd_length l i v : length (upd l i v) = length l.
Proof. revert i; induction l as [|x r IH]; intros [|i]; cbn; auto. Qed.

Lemma nth_upd_same l i v d : (i < length l)%nat -> nth i (upd l i v) d = v.
Proof.
  revert i; induction l as [|x r IH]; intros [|i] H; cbn in *; try lia; auto. apply IH; lia.
Qed.

Lemma nth_upd_other l i j v d : i <> j -> nth j (upd l i v) d = nth j l d.
Proof.
  revert i j; induction l as [|x r IH]; intros [|i] [|j] H; cbn; auto; try congruence.
Qed.

Lemma mem_set_length m i v : length (mem_set m i v) = length m.
Proof. apply upd_length. Qed.

Lemma mem_get_set_same m i v : 0 <= i < Z.of_nat (length m) -> mem_get (mem_set m i v) i = v.
Proof. intros H. unfold mem_get, mem_set. apply nth_upd_same. lia. Qed.

Lemma mem_get_set_other m i j v : 0 <= i -> 0 <= j -> i <> j -> mem_get (mem_set m i v) j = mem_get m j.
Proof. intros Hi Hj H. unfold mem_get, mem_set. apply nth_upd_other. lia. Qed.

Lemma is_nil_length {A} (l : list A) : is_nil l = Nat.eqb (length l) 0.
Proof. destruct l; reflexivity. Qed.

Lemma drop_last_snoc {A} (l : list A) x : drop_last (l ++ [x]) = l.
Proof.
  induction l as [|y r IH]; [reflexivity|]. destruct r as [|z r']; [reflexivity|].
  change (drop_last ((y :: z :: r') ++ [x])) with (y :: drop_last ((z :: r') ++ [x])).
  rewrite IH. reflexivity.
Qed.

(** disjunctive forms of the range lemmas (convenient for [lia]) *)
Lemma succ_cases n r : 0 <= r < n ->
  ((r + 1) mod n = r + 1 /\ r + 1 < n) \/ ((r + 1) mod n = 0 /\ r + 1 = n).
Proof.
  intros H. rewrite mod_succ_range by exact H. destruct (Z.eqb_spec (r + 1) n); lia.
Qed.

Lemma pred_cases n r : 0 <= r < n ->
  ((r - 1) mod n = r - 1 /\ 0 < r) \/ ((r - 1) mod n = n - 1 /\ r = 0).
Proof.
  intros H. rewrite mod_pred_range by exact H. destruct (Z.eqb_spec r 0); lia.
Qed.

Lemma sub_cases n a b : 0 <= a < n -> 0 <= b < n ->
  ((a - b) mod n = a - b /\ b <= a) \/ ((a - b) mod n = a - b + n /\ a < b).
Proof.
  intros Ha Hb. rewrite mod_sub_range by assumption. destruct (Z.leb_spec b a); lia.
Qed.

(** the [k] cells from [r] on, going round a memory of [n] cells *)
Fixpoint seg (n : Z) (mem : list Z) (r : Z) (k : nat) : list Z :=
  match k with O => [] | S k' => mem_get mem r :: seg n mem ((r + 1) mod n) k' end.

Lemma seg_length n mem r k : length (seg n mem r k) = k.
Proof. revert r; induction k as [|k IH]; intros r; cbn; auto. Qed.

Lemma seg_snoc n mem : 0 < n -> forall k r, 0 <= r < n ->
  seg n mem r (S k) = seg n mem r k ++ [mem_get mem ((r + Z.of_nat k) mod n)].
Proof.
  intros Hn. induction k as [|k IH]; intros r Hr.
  - cbn [seg app]. rewrite Z.add_0_r, Z.mod_small by exact Hr. reflexivity.
  - change (seg n mem r (S (S k))) with (mem_get mem r :: seg n mem ((r + 1) mod n) (S k)).
    rewrite IH by (apply mod_range; exact Hn).
    cbn [seg app]. rewrite Zplus_mod_idemp_l.
    replace (r + 1 + Z.of_nat k) with (r + Z.of_nat (S k)) by lia. reflexivity.
Qed.

(** a write to a cell outside the segment does not change it *)
Lemma seg_upd n mem wi v : 0 <= wi < n -> forall k r, 0 <= r < n ->
  Z.of_nat k <= (wi - r) mod n -> seg n (mem_set mem wi v) r k = seg n mem r k.
Proof.
  intros Hw. induction k as [|k IH]; intros r Hr Hk; [reflexivity|].
  cbn [seg].
  destruct (sub_cases n wi r Hw Hr) as [[E1 E2]|[E1 E2]];
  destruct (succ_cases n r Hr) as [[F1 F2]|[F1 F2]];
  (rewrite mem_get_set_other by lia; f_equal; apply IH; [lia|];
   destruct (sub_cases n wi ((r + 1) mod n) Hw ltac:(lia)) as [[G1 G2]|[G1 G2]]; lia).
Qed.

Section Fifo.
Variable N : nat.
Hypothesis HN : (2 <= N)%nat.
Let n := Z.of_nat N.

Lemma n_ge2 : 2 <= n.
Proof. unfold n. lia. Qed.

(** [Fifo._next_index] is the successor modulo N on in-range indices, for every N >= 2 *)
Lemma fifo_next_spec i : 0 <= i < n -> fifo_next N i = (i + 1) mod n.
Proof.
  intros Hi. pose proof n_ge2 as Hn. unfold fifo_next. fold n.
  replace (n - 1 + 1) with n by lia.
  assert (Hw : upto_width (n - 1) = bit_length (n - 1)).
  { unfold upto_width. destruct (n - 1 =? 0) eqn:E; [apply Z.eqb_eq in E; lia|reflexivity]. }
  rewrite Hw.
  destruct (is_pow_two n) eqn:Hp.
  - unfold wrap. rewrite (pow_two_width n Hp Hn). reflexivity.
  - rewrite mod_succ_range by exact Hi.
    pose proof (bit_length_gt (n - 1) ltac:(lia)) as Hgt.
    destruct (i =? n - 1) eqn:E; cbn [negb].
    + apply Z.eqb_eq in E. replace (i + 1 =? n) with true by (symmetry; apply Z.eqb_eq; lia). reflexivity.
    + apply Z.eqb_neq in E. replace (i + 1 =? n) with false by (symmetry; apply Z.eqb_neq; lia).
      apply wrap_small. lia.
Qed.

(** abstraction: the queue content is the run of cells from the read index to the write index *)
Definition rabs (st : list Z) : list Z :=
  match st with
  | dout :: rd :: wr :: mem => dout :: seg n mem rd (Z.to_nat ((wr - rd) mod n))
  | _ => st
  end.

(** invariant: N cells, both indices in range *)
Definition RInv (st : list Z) : Prop :=
  exists dout rd wr mem, st = dout :: rd :: wr :: mem /\ length mem = N /\ 0 <= rd < n /\ 0 <= wr < n.

Lemma ring_init_inv : RInv (ring_init N).
Proof.
  pose proof n_ge2. exists 0, 0, 0, (repeat 0 N). rewrite repeat_length. repeat split; lia.
Qed.

Lemma ring_init_abs : rabs (ring_init N) = [0].
Proof. pose proof n_ge2. unfold ring_init, rabs. rewrite Z.sub_diag, Z.mod_0_l by lia. reflexivity. Qed.

(** index arithmetic of one pop / one push *)
Lemma occ_pop rd wr : 0 <= rd < n -> 0 <= wr < n -> rd <> wr ->
  Z.to_nat ((wr - rd) mod n) = S (Z.to_nat ((wr - (rd + 1) mod n) mod n)).
Proof.
  intros Hr Hw Hne.
  destruct (sub_cases n wr rd Hw Hr) as [[E1 E2]|[E1 E2]];
  destruct (succ_cases n rd Hr) as [[F1 F2]|[F1 F2]];
  destruct (sub_cases n wr ((rd + 1) mod n) Hw ltac:(lia)) as [[G1 G2]|[G1 G2]]; lia.
Qed.

Lemma occ_push rd wr : 0 <= rd < n -> 0 <= wr < n -> (wr - rd) mod n < n - 1 ->
  Z.to_nat (((wr + 1) mod n - rd) mod n) = S (Z.to_nat ((wr - rd) mod n)) /\
  (rd + Z.of_nat (Z.to_nat ((wr - rd) mod n))) mod n = wr.
Proof.
  intros Hr Hw Hk.
  assert (Hwr : (rd + Z.of_nat (Z.to_nat ((wr - rd) mod n))) mod n = wr).
  { destruct (sub_cases n wr rd Hw Hr) as [[E1 E2]|[E1 E2]]; rewrite Z2Nat.id by lia; rewrite E1.
    - replace (rd + (wr - rd)) with wr by lia. apply Z.mod_small; lia.
    - symmetry. apply (Z.mod_unique _ _ 1); lia. }
  split; [|exact Hwr].
  destruct (sub_cases n wr rd Hw Hr) as [[E1 E2]|[E1 E2]];
  destruct (succ_cases n wr Hw) as [[F1 F2]|[F1 F2]];
  destruct (sub_cases n ((wr + 1) mod n) rd ltac:(lia) Hr) as [[G1 G2]|[G1 G2]]; lia.
Qed.

Lemma occ_empty rd wr : 0 <= rd < n -> 0 <= wr < n ->
  (wr =? rd) = Nat.eqb (Z.to_nat ((wr - rd) mod n)) 0.
Proof.
  intros Hr Hw.
  destruct (sub_cases n wr rd Hw Hr) as [[E1 E2]|[E1 E2]];
  destruct (Z.eqb_spec wr rd); destruct (Nat.eqb_spec (Z.to_nat ((wr - rd) mod n)) 0); try reflexivity; lia.
Qed.

Lemma occ_full rd wr : 0 <= rd < n -> 0 <= wr < n ->
  ((wr + 1) mod n =? rd) = Nat.eqb (Z.to_nat ((wr - rd) mod n)) (N - 1).
Proof.
  intros Hr Hw. pose proof n_ge2 as Hn. unfold n in *.
  destruct (sub_cases _ wr rd Hw Hr) as [[E1 E2]|[E1 E2]];
  destruct (succ_cases _ wr Hw) as [[F1 F2]|[F1 F2]];
  destruct (Z.eqb_spec ((wr + 1) mod Z.of_nat N) rd);
  destruct (Nat.eqb_spec (Z.to_nat ((wr - rd) mod Z.of_nat N)) (N - 1)); try reflexivity; lia.
Qed.

Lemma occ_lt rd wr : 0 <= rd < n -> 0 <= wr < n -> (Z.to_nat ((wr - rd) mod n) < N)%nat.
Proof. intros Hr Hw. pose proof n_ge2. pose proof (mod_range n (wr - rd) ltac:(lia)). unfold n in *. lia. Qed.

(** the component's own view of the preconditions is the abstract one *)
Lemma ring_assume_abs st inp : RInv st -> ring_assume N st inp = queue_assume N (rabs st) inp.
Proof.
  intros (dout & rd & wr & mem & -> & Hlen & Hr & Hw).
  destruct inp as [|p [|o [|dv [|? ?]]]]; try reflexivity.
  cbn [ring_assume rabs queue_assume].
  rewrite fifo_next_spec by exact Hw. rewrite seg_length, is_nil_length, seg_length.
  rewrite (occ_full rd wr Hr Hw), (occ_empty rd wr Hr Hw).
  pose proof (occ_lt rd wr Hr Hw) as Hlt.
  destruct (Nat.eqb_spec (Z.to_nat ((wr - rd) mod n)) (N - 1));
  destruct (Nat.ltb_spec (Z.to_nat ((wr - rd) mod n)) (N - 1)); try reflexivity; lia.
Qed.

(** one clock: the invariant is kept, the abstraction commutes, the outputs are equal *)
Lemma ring_sim w st inp : RInv st -> queue_assume N (rabs st) inp = true ->
  RInv (fst (ring_step N w st inp)) /\
  rabs (fst (ring_step N w st inp)) = fst (queue_step N w (rabs st) inp) /\
  snd (ring_step N w st inp) = snd (queue_step N w (rabs st) inp).
Proof.
  intros (dout & rd & wr & mem & -> & Hlen & Hr & Hw) Ha. pose proof n_ge2 as Hn.
  destruct inp as [|p [|o [|dv [|? ?]]]]; try discriminate Ha.
  cbn [rabs queue_assume] in Ha. rewrite seg_length, is_nil_length, seg_length in Ha.
  apply andb_true_iff in Ha. destruct Ha as [Hp Ho].
  cbn [ring_step rabs queue_step].
  (* the pop phase *)
  set (rd' := if vbit o then fifo_next N rd else rd).
  set (dout' := if vbit o then mem_get mem rd else dout).
  assert (Hr' : 0 <= rd' < n).
  { subst rd'. destruct (vbit o); [rewrite fifo_next_spec by exact Hr; apply mod_range; lia|exact Hr]. }
  assert (Hpop : (if vbit o then match seg n mem rd (Z.to_nat ((wr - rd) mod n)) with
                                 | x :: r => (x, r) | [] => (dout, []) end
                  else (dout, seg n mem rd (Z.to_nat ((wr - rd) mod n))))
                 = (dout', seg n mem rd' (Z.to_nat ((wr - rd') mod n)))).
  { subst rd' dout'. destruct (vbit o); [|reflexivity].
    cbn [implb negb] in Ho. rewrite <- occ_empty in Ho by assumption.
    apply negb_true_iff, Z.eqb_neq in Ho.
    rewrite fifo_next_spec by exact Hr. rewrite (occ_pop rd wr Hr Hw) by congruence. reflexivity. }
  rewrite Hpop. clear Hpop.
  assert (Hk' : vbit p = true -> (wr - rd') mod n < n - 1).
  { intros Ep. rewrite Ep in Hp. cbn [implb] in Hp. apply Nat.ltb_lt in Hp.
    subst rd'. destruct (vbit o) eqn:Eo; [|unfold n in *; lia].
    cbn [implb negb] in Ho. rewrite <- occ_empty in Ho by assumption.
    apply negb_true_iff, Z.eqb_neq in Ho.
    rewrite fifo_next_spec by exact Hr.
    pose proof (occ_pop rd wr Hr Hw ltac:(congruence)) as Hs. unfold n in *. lia. }
  (* the push phase *)
  set (wr' := if vbit p then fifo_next N wr else wr).
  set (mem' := if vbit p then mem_set mem wr (vnum dv) else mem).
  assert (Hw' : 0 <= wr' < n).
  { subst wr'. destruct (vbit p); [rewrite fifo_next_spec by exact Hw; apply mod_range; lia|exact Hw]. }
  assert (Hpush : (if vbit p then seg n mem rd' (Z.to_nat ((wr - rd') mod n)) ++ [vnum dv]
                   else seg n mem rd' (Z.to_nat ((wr - rd') mod n)))
                  = seg n mem' rd' (Z.to_nat ((wr' - rd') mod n))).
  { subst wr' mem'. destruct (vbit p); [|reflexivity]. specialize (Hk' eq_refl).
    rewrite fifo_next_spec by exact Hw.
    destruct (occ_push rd' wr Hr' Hw Hk') as [E1 E2]. rewrite E1.
    rewrite seg_snoc by (lia || exact Hr'). rewrite E2.
    rewrite mem_get_set_same by (unfold n in *; lia).
    rewrite seg_upd; [reflexivity|exact Hw|exact Hr'|]. pose proof (mod_range n (wr - rd') ltac:(lia)). lia. }
  rewrite Hpush. clear Hpush.
  cbn [fst snd]. split; [|split].
  - exists dout', rd', wr', mem'. repeat split; try lia.
    subst mem'. destruct (vbit p); [rewrite mem_set_length|]; exact Hlen.
  - reflexivity.
  - rewrite fifo_next_spec by exact Hw'.
    rewrite is_nil_length, !seg_length, <- occ_empty, <- occ_full by assumption. reflexivity.
Qed.

(** ** the refinement theorems, for every N >= 2, every width, every admissible input sequence *)

Lemma ring_traces w : forall ins st, RInv st ->
  adm (queue_step N w) (queue_assume N) (rabs st) ins ->
  traceB (ring_step N w) st ins = traceB (queue_step N w) (rabs st) ins.
Proof.
  induction ins as [|i r IH]; intros st Hinv Had; [reflexivity|].
  destruct Had as [Ha Hr]. destruct (ring_sim w st i Hinv Ha) as (Hinv' & Habs & Hout).
  cbn [traceB].
  destruct (ring_step N w st i) as [st' o] eqn:E1. destruct (queue_step N w (rabs st) i) as [q' o'] eqn:E2.
  cbn [fst snd] in *. subst. f_equal. apply IH; assumption.
Qed.

Lemma ring_runs w : forall ins st, RInv st ->
  adm (queue_step N w) (queue_assume N) (rabs st) ins ->
  RInv (run (ring_step N w) st ins) /\
  rabs (run (ring_step N w) st ins) = run (queue_step N w) (rabs st) ins.
Proof.
  unfold run. induction ins as [|i r IH]; intros st Hinv Had; [split; [exact Hinv|reflexivity]|].
  destruct Had as [Ha Hr]. destruct (ring_sim w st i Hinv Ha) as (Hinv' & Habs & Hout).
  cbn [fold_left]. rewrite <- Habs in Hr |- *. apply IH; assumption.
Qed.

Lemma ring_adm w : forall ins st, RInv st ->
  adm (ring_step N w) (ring_assume N) st ins <-> adm (queue_step N w) (queue_assume N) (rabs st) ins.
Proof.
  induction ins as [|i r IH]; intros st Hinv; [reflexivity|].
  cbn [adm]. rewrite ring_assume_abs by exact Hinv.
  split; intros [Ha Hr]; (split; [exact Ha|]);
  destruct (ring_sim w st i Hinv Ha) as (Hinv' & Habs & Hout).
  - rewrite <- Habs. apply IH; assumption.
  - rewrite <- Habs in Hr. apply IH; assumption.
Qed.

End Fifo.

(** ** std.Stack *)

(** the [k] cells below index [i]: [pr i], [pr (pr i)], ... (top of the stack first) *)
Fixpoint bseg (pr : Z -> Z) (mem : list Z) (i : Z) (k : nat) : list Z :=
  match k with O => [] | S k' => mem_get mem (pr i) :: bseg pr mem (pr i) k' end.

Lemma bseg_length pr mem i k : length (bseg pr mem i k) = k.
Proof. revert i; induction k as [|k IH]; intros i; cbn; auto. Qed.

(** dropping the oldest element = taking one cell less *)
Lemma bseg_drop_last pr mem : forall k i, drop_last (bseg pr mem i (S k)) = bseg pr mem i k.
Proof.
  induction k as [|k IH]; intros i; [reflexivity|].
  change (bseg pr mem i (S k)) with (mem_get mem (pr i) :: bseg pr mem (pr i) k).
  rewrite <- (IH (pr i)). reflexivity.
Qed.

Definition prl (i : Z) : Z := i - 1.
Definition prd (n i : Z) : Z := (i - 1) mod n.

Lemma bseg_upd_lin mem j v : forall k i, Z.of_nat k <= i <= j ->
  bseg prl (mem_set mem j v) i k = bseg prl mem i k.
Proof.
  induction k as [|k IH]; intros i H; [reflexivity|].
  cbn [bseg]. unfold prl at 1 3. rewrite mem_get_set_other by lia. f_equal.
  apply IH. unfold prl. lia.
Qed.

Lemma bseg_upd_mod n mem j v : 0 <= j < n -> forall k i, 0 <= i < n ->
  Z.of_nat k <= (prd n i - j) mod n ->
  bseg (prd n) (mem_set mem j v) i k = bseg (prd n) mem i k.
Proof.
  intros Hj. induction k as [|k IH]; intros i Hi Hk; [reflexivity|].
  cbn [bseg]. unfold prd in Hk.
  pose proof (mod_range n (i - 1) ltac:(lia)) as Hp.
  assert (Hne : j <> prd n i /\ Z.of_nat k <= (prd n (prd n i) - j) mod n).
  { unfold prd.
    destruct (sub_cases n ((i - 1) mod n) j Hp Hj) as [[E1 E2]|[E1 E2]];
    destruct (pred_cases n ((i - 1) mod n) Hp) as [[F1 F2]|[F1 F2]];
    destruct (sub_cases n (((i - 1) mod n - 1) mod n) j ltac:(lia) Hj) as [[G1 G2]|[G1 G2]]; lia. }
  destruct Hne as [Hne Hk'].
  rewrite mem_get_set_other by (unfold prd in *; lia). f_equal.
  apply IH; [unfold prd; lia|exact Hk'].
Qed.

Section Stack.
Variable N : nat.
Hypothesis HN : (1 <= N)%nat.
Let n := Z.of_nat N.

Lemma n_ge1 : 1 <= n.
Proof. unfold n. lia. Qed.

(** the counter type [Unsigned.upto(N)] holds 0 .. N *)
Lemma cw_small x : 0 <= x <= n -> wrap (upto_width n) x = x.
Proof.
  intros Hx. pose proof n_ge1 as Hn. apply wrap_small. unfold upto_width.
  destruct (Z.eqb_spec n 0); [lia|]. pose proof (bit_length_gt n ltac:(lia)). lia.
Qed.

Definition sabs (drop : bool) (st : list Z) : list Z :=
  match st with
  | dout :: idx :: cnt :: mem =>
      dout :: bseg (if drop then prd n else prl) mem idx (Z.to_nat cnt)
  | _ => st
  end.

Definition SInv (drop : bool) (st : list Z) : Prop :=
  exists dout idx cnt mem, st = dout :: idx :: cnt :: mem /\ length mem = N /\
    if drop then 0 <= idx < n /\ 0 <= cnt <= n else 0 <= idx <= n /\ cnt = idx.

Lemma stackm_init_inv drop : SInv drop (stackm_init N).
Proof.
  pose proof n_ge1. exists 0, 0, 0, (repeat 0 N). rewrite repeat_length.
  destruct drop; repeat split; lia.
Qed.

Lemma stackm_init_abs drop : sabs drop (stackm_init N) = [0].
Proof. reflexivity. Qed.

Lemma stackm_assume_abs drop st inp : SInv drop st ->
  stackm_assume N drop st inp = stack_assume N drop (sabs drop st) inp.
Proof.
  intros (dout & idx & cnt & mem & -> & Hlen & Hr).
  destruct inp as [|p [|o [|r [|dv [|? ?]]]]]; try reflexivity.
  cbn [stackm_assume sabs stack_assume]. rewrite is_nil_length, bseg_length. fold n.
  assert (Hc : 0 <= cnt <= n) by (destruct drop; lia).
  f_equal; [f_equal|]; f_equal.
  - f_equal. destruct (Z.eqb_spec cnt n); destruct (Nat.ltb_spec (Z.to_nat cnt) N); try reflexivity; unfold n in *; lia.
  - f_equal. destruct (Z.eqb_spec cnt 0); destruct (Nat.eqb_spec (Z.to_nat cnt) 0); try reflexivity; lia.
Qed.

(** the three observations of the occupancy *)
Lemma stack_obs c : 0 <= c <= n ->
  (c =? 0) = Nat.eqb (Z.to_nat c) 0 /\ (c =? n) = Nat.eqb (Z.to_nat c) N /\ Z.of_nat (Z.to_nat c) = c.
Proof.
  intros Hc. unfold n in *. repeat split.
  - destruct (Z.eqb_spec c 0); destruct (Nat.eqb_spec (Z.to_nat c) 0); try reflexivity; lia.
  - destruct (Z.eqb_spec c (Z.of_nat N)); destruct (Nat.eqb_spec (Z.to_nat c) N); try reflexivity; lia.
  - lia.
Qed.

Lemma drop_next idx : 0 <= idx < n ->
  (if negb (idx =? n - 1) then wrap (upto_width n) (idx + 1) else 0) = (idx + 1) mod n.
Proof.
  intros H. rewrite mod_succ_range by exact H.
  destruct (Z.eqb_spec idx (n - 1)); destruct (Z.eqb_spec (idx + 1) n); cbn [negb]; try lia.
  apply cw_small. lia.
Qed.

Lemma drop_prev idx : 0 <= idx < n ->
  (if idx =? 0 then n - 1 else wrap (upto_width n) (idx - 1)) = prd n idx.
Proof.
  intros H. unfold prd. rewrite mod_pred_range by exact H.
  destruct (Z.eqb_spec idx 0); [reflexivity|]. apply cw_small. lia.
Qed.

Lemma prd_next idx : 0 <= idx < n -> prd n ((idx + 1) mod n) = idx.
Proof.
  intros H. unfold prd.
  destruct (succ_cases n idx H) as [[F1 F2]|[F1 F2]];
  destruct (pred_cases n ((idx + 1) mod n) ltac:(lia)) as [[G1 G2]|[G1 G2]]; lia.
Qed.

Lemma prd_self_gap idx : 0 <= idx < n -> (prd n idx - idx) mod n = n - 1.
Proof.
  intros H. unfold prd.
  destruct (pred_cases n idx H) as [[F1 F2]|[F1 F2]];
  destruct (sub_cases n ((idx - 1) mod n) idx ltac:(lia) H) as [[G1 G2]|[G1 G2]]; lia.
Qed.

(** one clock, NO_OVERFLOW mode *)
Lemma stack_sim_normal w sw st inp : SInv false st -> stack_assume N false (sabs false st) inp = true ->
  SInv false (fst (stackm_step N w sw false st inp)) /\
  sabs false (fst (stackm_step N w sw false st inp)) = fst (stack_step N w sw false (sabs false st) inp) /\
  snd (stackm_step N w sw false st inp) = snd (stack_step N w sw false (sabs false st) inp).
Proof.
  intros (dout & idx & cnt & mem & -> & Hlen & Hidx & ->) Ha. pose proof n_ge1 as Hn.
  destruct inp as [|p [|o [|r [|dv [|? ?]]]]]; try discriminate Ha.
  cbn [sabs stack_assume] in Ha. rewrite is_nil_length, bseg_length in Ha.
  cbn [stackm_step sabs stack_step]. fold n. rewrite bseg_length.
  destruct (vbit r) eqn:Er; [|destruct (vbit p) eqn:Ep; [|destruct (vbit o) eqn:Eo]];
    cbn [zb orb implb negb andb] in Ha; cbn [fst snd].
  - (* reset *)
    split; [|split].
    + exists dout, 0, 0, mem. repeat split; try assumption; lia.
    + reflexivity.
    + destruct (stack_obs 0 ltac:(lia)) as (E1 & E2 & E3). rewrite E2. reflexivity.
  - (* push *)
    apply andb_true_iff in Ha. destruct Ha as [Ha _]. apply andb_true_iff in Ha. destruct Ha as [_ Ha].
    rewrite Ha. apply Nat.ltb_lt in Ha. assert (Hlt : idx < n) by (unfold n; lia).
    rewrite cw_small by lia.
    assert (Habs : bseg prl (mem_set mem idx (vnum dv)) (idx + 1) (Z.to_nat (idx + 1))
                   = vnum dv :: bseg prl mem idx (Z.to_nat idx)).
    { replace (Z.to_nat (idx + 1)) with (S (Z.to_nat idx)) by lia. cbn [bseg]. unfold prl at 1 3.
      replace (idx + 1 - 1) with idx by lia.
      rewrite mem_get_set_same by (unfold n in *; lia). f_equal. apply bseg_upd_lin. lia. }
    split; [|split].
    + exists dout, (idx + 1), (idx + 1), (mem_set mem idx (vnum dv)). rewrite mem_set_length. repeat split; try assumption; lia.
    + cbn [sabs]. rewrite Habs. reflexivity.
    + cbn [is_nil length].
      destruct (stack_obs (idx + 1) ltac:(lia)) as (E1 & E2 & E3).
      rewrite E1, E2. replace (S (length (bseg prl mem idx (Z.to_nat idx)))) with (Z.to_nat (idx + 1)) by (rewrite bseg_length; lia).
      rewrite E3. destruct (Z.to_nat (idx + 1)) eqn:E; [lia|reflexivity].
  - (* pop *)
    apply andb_true_iff in Ha. destruct Ha as [_ Ha]. apply negb_true_iff, Nat.eqb_neq in Ha.
    assert (Hpos : 1 <= idx) by lia.
    rewrite cw_small by lia.
    replace (Z.to_nat idx) with (S (Z.to_nat (idx - 1))) by lia. cbn [bseg fst snd]. unfold prl at 1 2 3 4.
    split; [|split].
    + exists (mem_get mem (idx - 1)), (idx - 1), (idx - 1), mem. repeat split; try assumption; lia.
    + reflexivity.
    + rewrite is_nil_length, bseg_length.
      destruct (stack_obs (idx - 1) ltac:(lia)) as (E1 & E2 & E3). rewrite E1, E2, E3. reflexivity.
  - (* idle *)
    split; [|split].
    + exists dout, idx, idx, mem. repeat split; try assumption; lia.
    + reflexivity.
    + rewrite is_nil_length, bseg_length.
      destruct (stack_obs idx ltac:(lia)) as (E1 & E2 & E3). rewrite E1, E2, E3. reflexivity.
Qed.

(** one clock, DROP_OLD mode *)
Lemma stack_sim_drop w sw st inp : SInv true st -> stack_assume N true (sabs true st) inp = true ->
  SInv true (fst (stackm_step N w sw true st inp)) /\
  sabs true (fst (stackm_step N w sw true st inp)) = fst (stack_step N w sw true (sabs true st) inp) /\
  snd (stackm_step N w sw true st inp) = snd (stack_step N w sw true (sabs true st) inp).
Proof.
  intros (dout & idx & cnt & mem & -> & Hlen & Hidx & Hcnt) Ha. pose proof n_ge1 as Hn.
  destruct inp as [|p [|o [|r [|dv [|? ?]]]]]; try discriminate Ha.
  cbn [sabs stack_assume] in Ha. rewrite is_nil_length, bseg_length in Ha.
  cbn [stackm_step sabs stack_step]. fold n. rewrite bseg_length.
  rewrite drop_next, drop_prev by exact Hidx.
  destruct (vbit r) eqn:Er; [|destruct (vbit p) eqn:Ep; [|destruct (vbit o) eqn:Eo]];
    cbn [zb orb implb negb andb] in Ha; cbn [fst snd].
  - (* reset *)
    split; [|split].
    + exists dout, 0, 0, mem. repeat split; try assumption; lia.
    + reflexivity.
    + destruct (stack_obs 0 ltac:(lia)) as (E1 & E2 & E3). rewrite E2. reflexivity.
  - (* push, dropping the oldest element when full *)
    set (cnt' := if cnt =? n then n else wrap (upto_width n) (cnt + 1)).
    set (mem' := mem_set mem idx (vnum dv)).
    assert (Hidx' : 0 <= (idx + 1) mod n < n) by (apply mod_range; lia).
    assert (Hcnt' : 0 <= cnt' <= n /\ Z.to_nat cnt' = S (Z.to_nat (cnt' - 1)) /\
                    (cnt' - 1 = if cnt =? n then n - 1 else cnt)).
    { subst cnt'. destruct (Z.eqb_spec cnt n); [lia|]. rewrite cw_small by lia. lia. }
    destruct Hcnt' as (Hc1 & Hc2 & Hc3).
    assert (Habs : bseg (prd n) mem' ((idx + 1) mod n) (Z.to_nat cnt')
                   = vnum dv :: bseg (prd n) mem idx (Z.to_nat (cnt' - 1))).
    { rewrite Hc2. cbn [bseg]. rewrite prd_next by exact Hidx. subst mem'.
      rewrite mem_get_set_same by (unfold n in *; lia). f_equal.
      apply bseg_upd_mod; [exact Hidx|exact Hidx|]. rewrite prd_self_gap by exact Hidx.
      destruct (Z.eqb_spec cnt n); lia. }
    assert (Hspec : (if (Z.to_nat cnt <? N)%nat then vnum dv :: bseg (prd n) mem idx (Z.to_nat cnt)
                     else vnum dv :: drop_last (bseg (prd n) mem idx (Z.to_nat cnt)))
                    = vnum dv :: bseg (prd n) mem idx (Z.to_nat (cnt' - 1))).
    { rewrite Hc3. destruct (Z.eqb_spec cnt n) as [E|E].
      - replace (Z.to_nat cnt <? N)%nat with false by (symmetry; apply Nat.ltb_ge; unfold n in *; lia).
        replace (Z.to_nat cnt) with (S (Z.to_nat (n - 1))) by lia. rewrite bseg_drop_last. reflexivity.
      - replace (Z.to_nat cnt <? N)%nat with true by (symmetry; apply Nat.ltb_lt; unfold n in *; lia).
        reflexivity. }
    rewrite Hspec.
    split; [|split].
    + exists dout, ((idx + 1) mod n), cnt', mem'. subst mem'. rewrite mem_set_length. repeat split; try assumption; lia.
    + cbn [sabs]. rewrite Habs. reflexivity.
    + cbn [is_nil length]. rewrite bseg_length.
      destruct (stack_obs cnt' Hc1) as (E1 & E2 & E3).
      rewrite E1, E2. rewrite <- Hc2, E3. rewrite Hc2. reflexivity.
  - (* pop *)
    apply andb_true_iff in Ha. destruct Ha as [_ Ha]. apply negb_true_iff, Nat.eqb_neq in Ha.
    assert (Hpos : 1 <= cnt) by lia.
    rewrite cw_small by lia.
    replace (Z.to_nat cnt) with (S (Z.to_nat (cnt - 1))) by lia. cbn [bseg fst snd].
    assert (Hp : 0 <= prd n idx < n) by (apply mod_range; lia).
    split; [|split].
    + exists (mem_get mem (prd n idx)), (prd n idx), (cnt - 1), mem. repeat split; try assumption; lia.
    + reflexivity.
    + rewrite is_nil_length, bseg_length.
      destruct (stack_obs (cnt - 1) ltac:(lia)) as (E1 & E2 & E3). rewrite E1, E2, E3. reflexivity.
  - (* idle *)
    split; [|split].
    + exists dout, idx, cnt, mem. repeat split; try assumption; lia.
    + reflexivity.
    + rewrite is_nil_length, bseg_length.
      destruct (stack_obs cnt Hcnt) as (E1 & E2 & E3). rewrite E1, E2, E3. reflexivity.
Qed.

Lemma stack_sim w sw drop st inp : SInv drop st -> stack_assume N drop (sabs drop st) inp = true ->
  SInv drop (fst (stackm_step N w sw drop st inp)) /\
  sabs drop (fst (stackm_step N w sw drop st inp)) = fst (stack_step N w sw drop (sabs drop st) inp) /\
  snd (stackm_step N w sw drop st inp) = snd (stack_step N w sw drop (sabs drop st) inp).
Proof. destruct drop; [apply stack_sim_drop|apply stack_sim_normal]. Qed.

Lemma stack_traces w sw drop : forall ins st, SInv drop st ->
  adm (stack_step N w sw drop) (stack_assume N drop) (sabs drop st) ins ->
  traceB (stackm_step N w sw drop) st ins = traceB (stack_step N w sw drop) (sabs drop st) ins.
Proof.
  induction ins as [|i r IH]; intros st Hinv Had; [reflexivity|].
  destruct Had as [Ha Hr]. destruct (stack_sim w sw drop st i Hinv Ha) as (Hinv' & Habs & Hout).
  cbn [traceB].
  destruct (stackm_step N w sw drop st i) as [st' o] eqn:E1.
  destruct (stack_step N w sw drop (sabs drop st) i) as [q' o'] eqn:E2.
  cbn [fst snd] in *. subst. f_equal. apply IH; assumption.
Qed.

Lemma stack_runs w sw drop : forall ins st, SInv drop st ->
  adm (stack_step N w sw drop) (stack_assume N drop) (sabs drop st) ins ->
  SInv drop (run (stackm_step N w sw drop) st ins) /\
  sabs drop (run (stackm_step N w sw drop) st ins) = run (stack_step N w sw drop) (sabs drop st) ins.
Proof.
  unfold run. induction ins as [|i r IH]; intros st Hinv Had; [split; [exact Hinv|reflexivity]|].
  destruct Had as [Ha Hr]. destruct (stack_sim w sw drop st i Hinv Ha) as (Hinv' & Habs & Hout).
  cbn [fold_left]. rewrite <- Habs in Hr |- *. apply IH; assumption.
Qed.

Lemma stack_adm w sw drop : forall ins st, SInv drop st ->
  adm (stackm_step N w sw drop) (stackm_assume N drop) st ins <->
  adm (stack_step N w sw drop) (stack_assume N drop) (sabs drop st) ins.
Proof.
  induction ins as [|i r IH]; intros st Hinv; [reflexivity|].
  cbn [adm]. rewrite stackm_assume_abs by exact Hinv.
  split; intros [Ha Hr]; (split; [exact Ha|]);
  destruct (stack_sim w sw drop st i Hinv Ha) as (Hinv' & Habs & Hout).
  - rewrite <- Habs. apply IH; assumption.
  - rewrite <- Habs in Hr. apply IH; assumption.
Qed.

End Stack.

(** ** the theorems, closed over all sizes *)

Lemma admissible_adm step alphabet assume : forall ins st,
  admissible step alphabet assume st ins <->
  adm step assume st ins /\ Forall (fun i => In i alphabet) ins.
Proof.
  induction ins as [|i r IH]; intros st; cbn [admissible adm].
  - split; [intros _; split; [exact I|constructor]|intros _; exact I].
  - rewrite IH. split.
    + intros (Hi & Ha & Hr & Hf). split; [split; assumption|constructor; assumption].
    + intros ((Ha & Hr) & Hf). inversion Hf; subst. repeat split; assumption.
Qed.

(** std.Fifo, all N >= 2, all widths, all admissible input sequences (any data values):
    the as-coded ring buffer shows the outputs of the abstract queue of capacity N-1 at every clock *)
Theorem ring_refines_queue : forall (N : nat) (w : BinNums.N), (2 <= N)%nat ->
  forall ins, adm (queue_step N w) (queue_assume N) [0] ins ->
    traceB (ring_step N w) (ring_init N) ins = traceB (queue_step N w) [0] ins.
Proof.
  intros N w HN ins Had. rewrite <- (ring_init_abs N HN) in Had |- *.
  apply ring_traces; [exact HN|apply ring_init_inv; exact HN|exact Had].
Qed.

(** the invariant and the abstraction function behind it: after every admissible input sequence the
    memory has N cells, both indices are in range, and the abstract queue is the run of
    [(wr - rd) mod N] cells from the read index on *)
Theorem ring_state_abstraction : forall (N : nat) (w : BinNums.N), (2 <= N)%nat ->
  forall ins, adm (queue_step N w) (queue_assume N) [0] ins ->
    exists dout rd wr mem,
      run (ring_step N w) (ring_init N) ins = dout :: rd :: wr :: mem /\
      length mem = N /\ 0 <= rd < Z.of_nat N /\ 0 <= wr < Z.of_nat N /\
      run (queue_step N w) [0] ins =
        dout :: seg (Z.of_nat N) mem rd (Z.to_nat ((wr - rd) mod Z.of_nat N)).
Proof.
  intros N w HN ins Had. rewrite <- (ring_init_abs N HN) in Had |- *.
  destruct (ring_runs N HN w ins (ring_init N) (ring_init_inv N HN) Had) as [(dout & rd & wr & mem & E & Hl & Hr & Hw) Habs].
  exists dout, rd, wr, mem. rewrite <- Habs, E. repeat split; try assumption; lia.
Qed.

(** the preconditions as the component sees them (its own empty/full) are the abstract ones *)
Theorem ring_preconditions_agree : forall (N : nat) (w : BinNums.N), (2 <= N)%nat ->
  forall ins, adm (ring_step N w) (ring_assume N) (ring_init N) ins <->
              adm (queue_step N w) (queue_assume N) [0] ins.
Proof.
  intros N w HN ins. rewrite <- (ring_init_abs N HN).
  apply ring_adm; [exact HN|apply ring_init_inv; exact HN].
Qed.

(** a per-configuration case theorem against the as-coded model carries over to the abstract queue
    (T = the trace function of the compiled design) and back *)
Theorem ring_case_transfer : forall (N : nat) (w : BinNums.N), (2 <= N)%nat ->
  forall (alphabet : list (list value)) (T : list (list value) -> list (res (list value))),
    (forall ins, admissible (ring_step N w) alphabet (ring_assume N) (ring_init N) ins ->
       T ins = traceB (ring_step N w) (ring_init N) ins) <->
    (forall ins, admissible (queue_step N w) alphabet (queue_assume N) [0] ins ->
       T ins = traceB (queue_step N w) [0] ins).
Proof.
  intros N w HN alphabet T. split; intros H ins Had; apply admissible_adm in Had; destruct Had as [Had Hal].
  - rewrite <- (ring_refines_queue N w HN ins Had). apply H. apply admissible_adm. split; [|exact Hal].
    apply ring_preconditions_agree; assumption.
  - apply ring_preconditions_agree in Had; [|exact HN].
    rewrite (ring_refines_queue N w HN ins Had). apply H. apply admissible_adm. split; assumption.
Qed.

(** capacity: N-1 pushes in a row are admissible for every N, and then the buffer holds exactly those
    N-1 elements in push order (non-vacuity of the refinement for every N) *)
Definition push_in (w : BinNums.N) (v : Z) : list value := [VL true; VL false; VV KUns w v].

Lemma queue_fill N w : forall vs dout q, (length q + length vs <= N - 1)%nat ->
  adm (queue_step N w) (queue_assume N) (dout :: q) (map (push_in w) vs) /\
  run (queue_step N w) (dout :: q) (map (push_in w) vs) = dout :: q ++ vs.
Proof.
  unfold run. induction vs as [|v r IH]; intros dout q Hlen.
  - cbn. rewrite app_nil_r. split; [exact I|reflexivity].
  - cbn [map adm fold_left length] in *.
    assert (Hs : fst (queue_step N w (dout :: q) (push_in w v)) = dout :: (q ++ [v])) by reflexivity.
    rewrite Hs. destruct (IH dout (q ++ [v])) as [H1 H2]; [rewrite app_length; cbn [length]; lia|].
    split; [split; [|exact H1]|].
    + cbn [queue_assume push_in vbit implb andb].
      replace (length q <? N - 1)%nat with true by (symmetry; apply Nat.ltb_lt; lia). reflexivity.
    + rewrite H2, <- app_assoc. reflexivity.
Qed.

Theorem ring_holds_N_minus_1 : forall (N : nat) (w : BinNums.N), (2 <= N)%nat ->
  forall vs, length vs = (N - 1)%nat ->
    adm (ring_step N w) (ring_assume N) (ring_init N) (map (push_in w) vs) /\
    exists dout rd wr mem,
      run (ring_step N w) (ring_init N) (map (push_in w) vs) = dout :: rd :: wr :: mem /\
      seg (Z.of_nat N) mem rd (Z.to_nat ((wr - rd) mod Z.of_nat N)) = vs /\
      fifo_next N wr = rd.
Proof.
  intros N w HN vs Hvs.
  destruct (queue_fill N w vs 0 [] ltac:(cbn [length]; lia)) as [Had Hrun]. cbn [app] in Hrun.
  split; [apply ring_preconditions_agree; assumption|].
  destruct (ring_state_abstraction N w HN _ Had) as (dout & rd & wr & mem & E & Hl & Hr & Hw & Habs).
  exists dout, rd, wr, mem. rewrite Hrun in Habs. injection Habs as Hd Hseg.
  split; [exact E|split; [symmetry; exact Hseg|]].
  rewrite fifo_next_spec by assumption.
  pose proof (occ_full N HN rd wr Hr Hw) as Hf.
  assert (Hk : Z.to_nat ((wr - rd) mod Z.of_nat N) = (N - 1)%nat).
  { pose proof (seg_length (Z.of_nat N) mem rd (Z.to_nat ((wr - rd) mod Z.of_nat N))) as Hl2.
    rewrite <- Hseg in Hl2. lia. }
  rewrite Hk, Nat.eqb_refl in Hf. apply Z.eqb_eq in Hf. exact Hf.
Qed.

(** std.Stack, all N >= 1, both modes, all widths, all admissible input sequences *)
Theorem stackm_refines_stack : forall (N : nat) (w sw : BinNums.N) (drop_old : bool), (1 <= N)%nat ->
  forall ins, adm (stack_step N w sw drop_old) (stack_assume N drop_old) [0] ins ->
    traceB (stackm_step N w sw drop_old) (stackm_init N) ins = traceB (stack_step N w sw drop_old) [0] ins.
Proof.
  intros N w sw drop HN ins Had. rewrite <- (stackm_init_abs N drop) in Had |- *.
  apply stack_traces; [exact HN|apply stackm_init_inv; exact HN|exact Had].
Qed.

(** invariant + abstraction: NO_OVERFLOW: [cnt = index <= N], the stack is the cells below the index;
    DROP_OLD: [index < N], [cnt <= N], the stack is the [cnt] cells below the index going round *)
Theorem stackm_state_abstraction : forall (N : nat) (w sw : BinNums.N) (drop_old : bool), (1 <= N)%nat ->
  forall ins, adm (stack_step N w sw drop_old) (stack_assume N drop_old) [0] ins ->
    exists dout idx cnt mem,
      run (stackm_step N w sw drop_old) (stackm_init N) ins = dout :: idx :: cnt :: mem /\
      length mem = N /\
      (if drop_old then 0 <= idx < Z.of_nat N /\ 0 <= cnt <= Z.of_nat N
       else 0 <= idx <= Z.of_nat N /\ cnt = idx) /\
      run (stack_step N w sw drop_old) [0] ins =
        dout :: bseg (if drop_old then prd (Z.of_nat N) else prl) mem idx (Z.to_nat cnt).
Proof.
  intros N w sw drop HN ins Had. rewrite <- (stackm_init_abs N drop) in Had |- *.
  destruct (stack_runs N HN w sw drop ins (stackm_init N) (stackm_init_inv N HN drop) Had)
    as [(dout & idx & cnt & mem & E & Hl & Hr) Habs].
  exists dout, idx, cnt, mem. rewrite <- Habs, E. repeat split; assumption.
Qed.

Theorem stackm_preconditions_agree : forall (N : nat) (w sw : BinNums.N) (drop_old : bool), (1 <= N)%nat ->
  forall ins, adm (stackm_step N w sw drop_old) (stackm_assume N drop_old) (stackm_init N) ins <->
              adm (stack_step N w sw drop_old) (stack_assume N drop_old) [0] ins.
Proof.
  intros N w sw drop HN ins. rewrite <- (stackm_init_abs N drop).
  apply stack_adm; [exact HN|apply stackm_init_inv; exact HN].
Qed.

Theorem stackm_case_transfer : forall (N : nat) (w sw : BinNums.N) (drop_old : bool), (1 <= N)%nat ->
  forall (alphabet : list (list value)) (T : list (list value) -> list (res (list value))),
    (forall ins, admissible (stackm_step N w sw drop_old) alphabet (stackm_assume N drop_old) (stackm_init N) ins ->
       T ins = traceB (stackm_step N w sw drop_old) (stackm_init N) ins) <->
    (forall ins, admissible (stack_step N w sw drop_old) alphabet (stack_assume N drop_old) [0] ins ->
       T ins = traceB (stack_step N w sw drop_old) [0] ins).
Proof.
  intros N w sw drop HN alphabet T. split; intros H ins Had; apply admissible_adm in Had; destruct Had as [Had Hal].
  - rewrite <- (stackm_refines_stack N w sw drop HN ins Had). apply H. apply admissible_adm. split; [|exact Hal].
    apply stackm_preconditions_agree; assumption.
  - apply stackm_preconditions_agree in Had; [|exact HN].
    rewrite (stackm_refines_stack N w sw drop HN ins Had). apply H. apply admissible_adm. split; assumption.
Qed.

(** ** the tie to the emitted VHDL, for every configuration at once: whenever the per-configuration check
    of harness/c14.py against the ABSTRACT machine succeeds for a parsed design [d] (its two computed
    hypotheses are exactly what every generated case file establishes), the design also has the trace of
    the AS-CODED model of that size on every input sequence admissible for the model *)
From Cohdl Require Import Vhdl.Syntax Vhdl.Sem Vhdl.DefAssign Vhdl.DeadVars Equiv.VhdlTS Equiv.StoreTS.

Theorem ring_code_tie : forall d mid alphabet fuel (N : nat) (w : BinNums.N), (2 <= N)%nat ->
  conc_all_ok (auto_Ts d) d = true ->
  is_ok (rcheck_s d mid (queue_step N w) alphabet (queue_assume N) fuel [0]) = true ->
  forall ins, admissible (ring_step N w) alphabet (ring_assume N) (ring_init N) ins ->
    traceA (sstep d mid) (power_up_s d) ins = traceB (ring_step N w) (ring_init N) ins.
Proof.
  intros d mid alphabet fuel N w HN Hd Hc.
  apply (proj2 (ring_case_transfer N w HN alphabet (traceA (sstep d mid) (power_up_s d)))).
  exact (rcheck_s_sound d mid _ alphabet _ fuel _ Hd Hc).
Qed.

Theorem stackm_code_tie : forall d mid alphabet fuel (N : nat) (w sw : BinNums.N) (drop_old : bool), (1 <= N)%nat ->
  conc_all_ok (auto_Ts d) d = true ->
  is_ok (rcheck_s d mid (stack_step N w sw drop_old) alphabet (stack_assume N drop_old) fuel [0]) = true ->
  forall ins, admissible (stackm_step N w sw drop_old) alphabet (stackm_assume N drop_old) (stackm_init N) ins ->
    traceA (sstep d mid) (power_up_s d) ins = traceB (stackm_step N w sw drop_old) (stackm_init N) ins.
Proof.
  intros d mid alphabet fuel N w sw drop HN Hd Hc.
  apply (proj2 (stackm_case_transfer N w sw drop HN alphabet (traceA (sstep d mid) (power_up_s d)))).
  exact (rcheck_s_sound d mid _ alphabet _ fuel _ Hd Hc).
Qed.

(** [Fifo._next_index], every N >= 2 (power of two or not) *)
Theorem fifo_next_index_mod : forall (N : nat) (i : Z), (2 <= N)%nat -> 0 <= i < Z.of_nat N ->
  fifo_next N i = (i + 1) mod Z.of_nat N.
Proof. intros N i HN Hi. apply fifo_next_spec; assumption. Qed.
