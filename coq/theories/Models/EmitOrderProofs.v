(** C12 - theorems about [Models/EmitOrder.v] for ALL instantiation graphs / ALL port dictionaries. *)
From Coq Require Import NArith Arith List Bool Lia Permutation.
From Cohdl Require Import Models.EmitOrder.
Import ListNotations.

(** * small facts *)
Lemma mem_In x l : mem x l = true <-> In x l.
Proof.
  induction l as [|y r IH]; cbn; [split; [discriminate|contradiction]|].
  rewrite orb_true_iff, IH, Nat.eqb_eq. split; intros [H|H]; auto.
Qed.

Lemma mem_false x l : mem x l = false <-> ~ In x l.
Proof. rewrite <- mem_In. destruct (mem x l); split; congruence. Qed.

Lemma NoDup_snoc {A} (l : list A) x : NoDup l -> ~ In x l -> NoDup (l ++ [x]).
Proof.
  induction l as [|y r IH]; cbn; intros Hn Hx; [constructor; [intros []|constructor]|].
  inversion Hn; subst. constructor.
  - rewrite in_app_iff; cbn. intros [H|[H|[]]]; [auto|subst; apply Hx; auto].
  - apply IH; auto.
Qed.

Lemma add_In x y s : In y (add x s) <-> In y s \/ y = x.
Proof.
  unfold add. destruct (mem x s) eqn:E.
  - apply mem_In in E. split; [auto|intros [H| ->]; auto].
  - rewrite in_app_iff; cbn. intuition.
Qed.

(** * (a) the traversal, for every children function with smaller-id children *)
Section CollectProofs.
  Variable ch : nat -> list nat.

  (** [reach p x]: x is p or a sub-entity of p, directly or transitively; [desc p x]: proper sub-entity *)
  Inductive desc : nat -> nat -> Prop :=
  | desc_child p c : In c (ch p) -> desc p c
  | desc_step p c x : In c (ch p) -> desc c x -> desc p x.
  Definition reach (p x : nat) : Prop := x = p \/ desc p x.

  (** [x] stands before [u] in [l] *)
  Definition before (l : list nat) (x u : nat) : Prop := exists l1 l2, l = l1 ++ u :: l2 /\ In x l1.

  Lemma before_In l x u : before l x u -> In x l /\ In u l.
  Proof. intros (l1 & l2 & -> & H). rewrite !in_app_iff; cbn; auto. Qed.

  Lemma before_app l e x u : before l x u -> before (l ++ e) x u.
  Proof. intros (l1 & l2 & -> & H). exists l1, (l2 ++ e). rewrite <- app_assoc; cbn; auto. Qed.

  (** the invariant of the IdSet: every member has all its sub-entities in front of it *)
  Definition Inv (s : list nat) : Prop := forall u, In u s -> forall x, desc u x -> before s x u.

  Lemma Inv_nil : Inv [].
  Proof. intros u []. Qed.

  Lemma Inv_desc_In s u x : Inv s -> In u s -> desc u x -> In x s.
  Proof. intros Hi Hu Hd. exact (proj1 (before_In _ _ _ (Hi u Hu x Hd))). Qed.

  Lemma Inv_add s p : Inv s -> (forall c, In c (ch p) -> In c s) -> Inv (add p s).
  Proof.
    intros Hi Hc. unfold add. destruct (mem p s) eqn:E; [exact Hi|].
    assert (Hd : forall x, desc p x -> In x s).
    { intros x Hx. inversion Hx; subst; [auto|]. eapply Inv_desc_In; eauto. }
    intros u Hu x Hx. apply in_app_iff in Hu. destruct Hu as [Hu|[<-|[]]].
    - apply before_app; auto.
    - exists s, []. split; auto.
  Qed.

  (** a second visit of a collected entity changes nothing (the reason why the missing visited test is harmless) *)
  Lemma collect_idem f : forall c s, Inv s -> In c s -> collect ch f c s = s.
  Proof.
    induction f as [|f IH]; intros c s Hi Hc; [reflexivity|]. cbn.
    assert (Hf : forall cs, (forall x, In x cs -> In x s) -> fold_left (fun s c => collect ch f c s) cs s = s).
    { induction cs as [|x r IHr]; intros Hx; [reflexivity|]. cbn.
      rewrite IH; [apply IHr; intros; apply Hx; cbn; auto|auto|apply Hx; cbn; auto]. }
    rewrite Hf.
    - unfold add. apply mem_In in Hc. rewrite Hc. reflexivity.
    - intros x Hx. eapply Inv_desc_In; eauto. constructor; auto.
  Qed.

  Hypothesis wf : forall p c, In c (ch p) -> c < p.

  Lemma desc_lt p x : desc p x -> x < p.
  Proof. induction 1 as [p c H|p c x H _ IH]; [auto|specialize (wf _ _ H); lia]. Qed.

  Lemma reach_le p x : reach p x -> x <= p.
  Proof. intros [->|H]; [lia|apply desc_lt in H; lia]. Qed.

  Definition Spec (cs : list nat) (s r : list nat) : Prop :=
    (exists ext, r = s ++ ext /\ forall x, In x ext -> exists c, In c cs /\ reach c x)
    /\ NoDup r /\ Inv r /\ forall c, In c cs -> In c r.

  Lemma collect_spec f : forall p s, p < f -> Inv s -> NoDup s ->
    Spec [p] s (collect ch f p s) /\ (~ In p s -> exists m, collect ch f p s = m ++ [p]).
  Proof.
    induction f as [|f IH]; intros p s Hp Hi Hn; [lia|]. cbn.
    assert (Hfold : forall cs s, (forall c, In c cs -> c < f) -> Inv s -> NoDup s ->
              Spec cs s (fold_left (fun s c => collect ch f c s) cs s)).
    { clear s Hi Hn. induction cs as [|c r IHr]; intros s Hc Hi Hn; cbn.
      - repeat split; auto. exists []. rewrite app_nil_r. split; [auto|intros x []]. intros c [].
      - destruct (IH c s (Hc c (or_introl eq_refl)) Hi Hn) as [((e1 & E1 & R1) & N1 & I1 & C1) _].
        destruct (IHr (collect ch f c s) (fun x H => Hc x (or_intror H)) I1 N1) as ((e2 & E2 & R2) & N2 & I2 & C2).
        repeat split; auto.
        + exists (e1 ++ e2). rewrite E2, E1, app_assoc. split; [reflexivity|].
          intros x Hx. apply in_app_iff in Hx. destruct Hx as [Hx|Hx].
          * destruct (R1 x Hx) as (c' & [Hc'|[]] & Hr). subst c'. exists c. cbn; auto.
          * destruct (R2 x Hx) as (c' & Hc' & Hr). exists c'. cbn; auto.
        + intros c' [<-|Hc'].
          * rewrite E2. apply in_app_iff. left. apply C1. cbn; auto.
          * apply C2; auto. }
    assert (Hlt : forall c, In c (ch p) -> c < f) by (intros c Hc; specialize (wf _ _ Hc); lia).
    destruct (Hfold (ch p) s Hlt Hi Hn) as ((ext & E & R) & N & I & C).
    set (s' := fold_left (fun s c => collect ch f c s) (ch p) s) in *.
    assert (Hnp : ~ In p s -> ~ In p s').
    { intros H1 H2. rewrite E in H2. apply in_app_iff in H2. destruct H2 as [H2|H2]; [auto|].
      destruct (R p H2) as (c & Hc & Hr). apply reach_le in Hr. specialize (wf _ _ Hc). lia. }
    split; [repeat split|].
    - unfold add. destruct (mem p s') eqn:M.
      + exists ext. split; [exact E|]. intros x Hx. exists p. split; [cbn; auto|].
        destruct (R x Hx) as (c & Hc & [->|Hr]); right; [constructor; auto|econstructor 2; eauto].
      + exists (ext ++ [p]). rewrite E, app_assoc. split; [reflexivity|].
        intros x Hx. exists p. split; [cbn; auto|]. apply in_app_iff in Hx. destruct Hx as [Hx|[<-|[]]]; [|left; auto].
        destruct (R x Hx) as (c & Hc & [->|Hr]); right; [constructor; auto|econstructor 2; eauto].
    - unfold add. destruct (mem p s') eqn:M; [exact N|]. apply NoDup_snoc; [exact N|]. apply mem_false; exact M.
    - apply Inv_add; auto.
    - intros c [<-|[]]. apply add_In; auto.
    - intros H. apply Hnp in H. apply mem_false in H. unfold add. rewrite H. eauto.
  Qed.

  Definition emit (top : nat) : list nat := collect ch (S top) top [].

  Theorem emit_nodup top : NoDup (emit top).
  Proof. destruct (collect_spec (S top) top [] (Nat.lt_succ_diag_r _) Inv_nil (NoDup_nil _)) as [(_ & N & _) _]. exact N. Qed.

  Theorem emit_reach top x : In x (emit top) <-> reach top x.
  Proof.
    destruct (collect_spec (S top) top [] (Nat.lt_succ_diag_r _) Inv_nil (NoDup_nil _)) as [((ext & E & R) & _ & I & C) _].
    fold (emit top) in *. split.
    - intros H. rewrite E in H. cbn in H. destruct (R x H) as (c & [<-|[]] & Hr). exact Hr.
    - intros [->|H]; [apply C; cbn; auto|]. eapply Inv_desc_In; eauto. apply C; cbn; auto.
  Qed.

  (** every sub-entity (direct or transitive) of an emitted entity stands before it *)
  Theorem emit_sub_before_user top u x : In u (emit top) -> desc u x -> before (emit top) x u.
  Proof.
    destruct (collect_spec (S top) top [] (Nat.lt_succ_diag_r _) Inv_nil (NoDup_nil _)) as [(_ & _ & I & _) _].
    intros Hu Hd. exact (I u Hu x Hd).
  Qed.

  Theorem emit_last top : exists m, emit top = m ++ [top].
  Proof.
    destruct (collect_spec (S top) top [] (Nat.lt_succ_diag_r _) Inv_nil (NoDup_nil _)) as [_ L].
    apply L. intros [].
  Qed.

  (** first occurrences of a list of children, given the ones already seen *)
  Fixpoint dd (seen cs : list nat) : list nat :=
    match cs with
    | [] => []
    | c :: r => if mem c seen then dd seen r else c :: dd (c :: seen) r
    end.

  Lemma fold_collect_spec f cs s : (forall c, In c cs -> c < f) -> Inv s -> NoDup s ->
    Spec cs s (fold_left (fun s c => collect ch f c s) cs s).
  Proof.
    revert s. induction cs as [|c r IHr]; intros s Hc Hi Hn; cbn.
    - repeat split; auto. exists []. rewrite app_nil_r. split; [auto|intros x []]. intros c [].
    - destruct (collect_spec f c s (Hc c (or_introl eq_refl)) Hi Hn) as [((e1 & E1 & R1) & N1 & I1 & C1) _].
      destruct (IHr (collect ch f c s) (fun x H => Hc x (or_intror H)) I1 N1) as ((e2 & E2 & R2) & N2 & I2 & C2).
      repeat split; auto.
      + exists (e1 ++ e2). rewrite E2, E1, app_assoc. split; [reflexivity|].
        intros x Hx. apply in_app_iff in Hx. destruct Hx as [Hx|Hx].
        * destruct (R1 x Hx) as (c' & [Hc'|[]] & Hr). subst c'. exists c. cbn; auto.
        * destruct (R2 x Hx) as (c' & Hc' & Hr). exists c'. cbn; auto.
      + intros c' [<-|Hc'].
        * rewrite E2. apply in_app_iff. left. apply C1. cbn; auto.
        * apply C2; auto.
  Qed.

  (** repeated children do not matter *)
  Lemma fold_dd f : forall cs seen s, (forall c, In c cs -> c < f) -> Inv s -> NoDup s ->
    (forall x, In x seen -> In x s) ->
    fold_left (fun s c => collect ch f c s) cs s = fold_left (fun s c => collect ch f c s) (dd seen cs) s.
  Proof.
    induction cs as [|c r IHr]; intros seen s Hc Hi Hn Hs; [reflexivity|]. cbn.
    destruct (mem c seen) eqn:M.
    - apply mem_In in M. rewrite collect_idem; [|auto|auto]. apply IHr; auto. intros; apply Hc; cbn; auto.
    - cbn. destruct (collect_spec f c s (Hc c (or_introl eq_refl)) Hi Hn) as [((e1 & E1 & R1) & N1 & I1 & C1) _].
      apply IHr; auto.
      + intros; apply Hc; cbn; auto.
      + intros x [<-|Hx]; [apply C1; cbn; auto|]. rewrite E1. apply in_app_iff; auto.
  Qed.
End CollectProofs.

Lemma dd_In : forall cs seen x, In x (dd seen cs) <-> In x cs /\ ~ In x seen.
Proof.
  induction cs as [|c r IH]; intros seen x; cbn; [tauto|].
  destruct (mem c seen) eqn:M.
  - apply mem_In in M. rewrite IH. split; [tauto|]. intros [[<-|H] Hn]; tauto.
  - apply mem_false in M. cbn. rewrite IH. cbn. split.
    + intros [<-|[H Hn]]; [tauto|]. split; [tauto|]. intros H1; apply Hn; auto.
    + intros [[<-|H] Hn]; [auto|]. destruct (Nat.eq_dec c x) as [->|Hne]; [auto|]. right. split; [auto|]. intros [H1|H1]; auto.
Qed.

(** (iv) the emitted list depends on the children of a template only through the order of their first occurrences *)
Section Multiplicity.
  Variables ch ch' : nat -> list nat.
  Hypothesis wf : forall p c, In c (ch p) -> c < p.
  Hypothesis same : forall p, dd [] (ch p) = dd [] (ch' p).

  Lemma ch_iff p c : In c (ch p) <-> In c (ch' p).
  Proof.
    pose proof (dd_In (ch p) [] c) as H1. pose proof (dd_In (ch' p) [] c) as H2. rewrite same in H1.
    cbn in *. tauto.
  Qed.

  Lemma wf' : forall p c, In c (ch' p) -> c < p.
  Proof. intros p c H. apply wf, ch_iff, H. Qed.

  Lemma desc_iff u x : desc ch u x <-> desc ch' u x.
  Proof.
    split; induction 1 as [p c H|p c x H _ IH].
    - constructor; apply ch_iff; auto.
    - econstructor 2; [apply ch_iff; eauto|auto].
    - constructor; apply ch_iff; auto.
    - econstructor 2; [apply ch_iff; eauto|auto].
  Qed.

  Lemma Inv_iff s : Inv ch s -> Inv ch' s.
  Proof. intros H u Hu x Hx. apply H; [auto|apply desc_iff; auto]. Qed.

  Lemma collect_same f : forall p s, p < f -> Inv ch s -> NoDup s -> collect ch f p s = collect ch' f p s.
  Proof.
    induction f as [|f IH]; intros p s Hp Hi Hn; [reflexivity|]. cbn. f_equal.
    assert (Hlt : forall c, In c (ch p) -> c < f) by (intros c Hc; specialize (wf _ _ Hc); lia).
    assert (Hlt' : forall c, In c (ch' p) -> c < f) by (intros c Hc; apply Hlt, ch_iff, Hc).
    rewrite (fold_dd ch wf f (ch p) [] s Hlt Hi Hn) by (intros x []).
    rewrite (fold_dd ch' wf' f (ch' p) [] s Hlt' (Inv_iff _ Hi) Hn) by (intros x []).
    rewrite <- same.
    assert (Hl : forall c, In c (dd [] (ch p)) -> c < f) by (intros c Hc; apply Hlt; apply dd_In in Hc; tauto).
    revert Hl s Hi Hn. generalize (dd [] (ch p)) as l. clear Hlt Hlt'.
    induction l as [|c r IHr]; intros Hl s Hi Hn; [reflexivity|]. cbn.
    rewrite <- (IH c s (Hl c (or_introl eq_refl)) Hi Hn).
    destruct (collect_spec ch wf f c s (Hl c (or_introl eq_refl)) Hi Hn) as [(_ & N1 & I1 & _) _].
    apply IHr; auto. intros; apply Hl; cbn; auto.
  Qed.

  Theorem emit_same top : emit ch top = emit ch' top.
  Proof. apply collect_same; [lia|apply Inv_nil|constructor]. Qed.
End Multiplicity.

(** * graphs *)
Definition wf_graph (g : graph) : Prop := forall p c, In c (children g p) -> c < p.
Definition wf_graphb (g : graph) : bool :=
  forallb (fun p => forallb (fun c => Nat.ltb c p) (children g p)) (seq 0 (length g)).

Lemma wf_graphb_sound g : wf_graphb g = true -> wf_graph g.
Proof.
  intros H p c Hc. destruct (Nat.lt_ge_cases p (length g)) as [Hp|Hp].
  - unfold wf_graphb in H. rewrite forallb_forall in H. specialize (H p).
    rewrite in_seq in H. specialize (H (conj (Nat.le_0_l _) Hp)). rewrite forallb_forall in H.
    apply Nat.ltb_lt, H, Hc.
  - unfold children, tmpl in Hc. rewrite nth_overflow in Hc by exact Hp. destruct Hc.
Qed.

Definition greach (g : graph) := reach (children g).
Definition gdesc (g : graph) := desc (children g).

Theorem emit_order_each_once g top : wf_graph g ->
  NoDup (emit_order g top) /\ forall x, In x (emit_order g top) <-> greach g top x.
Proof. intros W. split; [apply (emit_nodup _ W)|apply (emit_reach _ W)]. Qed.

Theorem emit_order_sub_first g top u x : wf_graph g ->
  In u (emit_order g top) -> gdesc g u x ->
  exists l1 l2, emit_order g top = l1 ++ u :: l2 /\ In x l1.
Proof. intros W. apply (emit_sub_before_user _ W). Qed.

Theorem emit_order_top_last g top : wf_graph g -> exists m, emit_order g top = m ++ [top].
Proof. intros W. apply (emit_last _ W). Qed.

Theorem emit_order_multiplicity g g' top : wf_graph g ->
  (forall p, dd [] (children g p) = dd [] (children g' p)) ->
  emit_order g top = emit_order g' top.
Proof. intros W S. apply (emit_same _ _ W S). Qed.

(** instance: one more instance of an already instantiated template, anywhere behind its first instance *)
Lemma dd_dup : forall l1 seen c l2, In c seen \/ In c l1 -> dd seen (l1 ++ c :: l2) = dd seen (l1 ++ l2).
Proof.
  induction l1 as [|y r IH]; intros seen c l2 H; cbn.
  - destruct H as [H|[]]. apply mem_In in H. rewrite H. reflexivity.
  - destruct (mem y seen) eqn:M.
    + apply IH. destruct H as [H|[H|H]]; auto. subst. left. apply mem_In; auto.
    + f_equal. apply IH. destruct H as [H|[H|H]]; cbn; auto.
Qed.

(** one more instance of a template that the same parent already instantiates (any number of times, any parent) *)
Theorem emit_order_duplicate_instance g g' top : wf_graph g ->
  (forall p, children g' p = children g p \/
             exists l1 c l2, children g p = l1 ++ l2 /\ children g' p = l1 ++ c :: l2 /\ In c l1) ->
  emit_order g top = emit_order g' top.
Proof.
  intros W H. apply emit_order_multiplicity; [exact W|]. intros p.
  destruct (H p) as [->|(l1 & c & l2 & -> & -> & Hc)]; [reflexivity|]. symmetry. apply dd_dup. auto.
Qed.

(** * names *)
Lemma nlist_eqb_eq a : forall b, nlist_eqb a b = true <-> a = b.
Proof.
  induction a as [|x r IH]; intros [|y s]; cbn; try (split; [discriminate|discriminate]); [tauto|].
  rewrite andb_true_iff, N.eqb_eq, IH. split; [intros [-> ->]; auto|intros H; inversion H; auto].
Qed.

Lemma name_in_In n l : name_in n l = true <-> In n l.
Proof.
  induction l as [|m r IH]; cbn; [split; [discriminate|contradiction]|].
  rewrite orb_true_iff, nlist_eqb_eq, IH. split; intros [H|H]; auto.
Qed.

Lemma names_distinct_NoDup l : names_distinct l = true -> NoDup l.
Proof.
  induction l as [|n r IH]; cbn; [constructor|]. rewrite andb_true_iff, negb_true_iff.
  intros [H1 H2]. constructor; [|auto]. rewrite <- name_in_In, H1. discriminate.
Qed.

Theorem library_spec g top l : library g top = Some l ->
  l = emit_order g top /\ NoDup (map (unit_name g) l) /\
  forall p i, In p l -> In i (subblocks (tmpl g p)) -> inst_ok (t_ports (tmpl g (i_tmpl i))) (i_kw i) = true.
Proof.
  unfold library. destruct (all_insts_ok g (emit_order g top) && names_distinct (map (unit_name g) (emit_order g top))) eqn:E; [|discriminate].
  intros [= <-]. apply andb_true_iff in E. destruct E as [E1 E2]. split; [reflexivity|]. split.
  - apply names_distinct_NoDup; auto.
  - intros p i Hp Hi. unfold all_insts_ok in E1. rewrite forallb_forall in E1. specialize (E1 p Hp).
    rewrite forallb_forall in E1. auto.
Qed.

(** * (c) the port map *)
Lemma lookup_In n a kw : NoDup (map fst kw) -> (lookup n kw = Some a <-> In (n, a) kw).
Proof.
  induction kw as [|[m b] r IH]; cbn; intros Hn; [split; [discriminate|contradiction]|].
  inversion Hn as [|? ? Hm Hr]; subst. destruct (N.eqb n m) eqn:E.
  - apply N.eqb_eq in E; subst. split; [intros [= ->]; auto|].
    intros [[= ->]|H]; [auto|]. exfalso. apply Hm. apply (in_map fst) in H. exact H.
  - rewrite IH by auto. apply N.eqb_neq in E. split; [auto|]. intros [[= -> _]|H]; [congruence|auto].
Qed.

Lemma lookup_perm n kw kw' : NoDup (map fst kw) -> Permutation kw kw' -> lookup n kw' = lookup n kw.
Proof.
  intros Hn Hp.
  assert (Hn' : NoDup (map fst kw')) by (eapply Permutation_NoDup; [apply Permutation_map; eauto|auto]).
  destruct (lookup n kw) as [a|] eqn:E.
  - apply lookup_In; auto. eapply Permutation_in; eauto. apply lookup_In in E; auto.
  - destruct (lookup n kw') as [a|] eqn:E'; [|reflexivity].
    apply lookup_In in E'; auto. apply Permutation_sym in Hp. eapply Permutation_in in E'; eauto.
    apply lookup_In in E'; auto. congruence.
Qed.

(** keyword order is irrelevant *)
Theorem port_map_perm ports kw kw' : NoDup (map fst kw) -> Permutation kw kw' ->
  port_map ports kw' = port_map ports kw.
Proof.
  intros Hn Hp. induction ports as [|p r IH]; cbn; [reflexivity|].
  rewrite (lookup_perm _ _ _ Hn Hp), IH. reflexivity.
Qed.

(** each declared formal exactly once, in declaration order *)
Theorem port_map_formals ports kw l : port_map ports kw = Some l -> map e_formal l = map p_name ports.
Proof.
  revert l. induction ports as [|p r IH]; cbn; intros l H; [injection H as <-; reflexivity|].
  destruct (lookup (p_name p) kw); [|discriminate]. destruct (port_map r kw); [|discriminate].
  injection H as <-. cbn. f_equal. auto.
Qed.

(** the k-th entry: k-th declared formal, the actual given for its NAME, converted as [fconv] says *)
Theorem port_map_entries ports kw l : NoDup (map fst kw) -> port_map ports kw = Some l ->
  Forall2 (fun p e => e_formal e = p_name p /\ In (p_name p, e_actual e) kw /\ e_fconv e = fconv p (e_actual e)) ports l.
Proof.
  intros Hn. revert l. induction ports as [|p r IH]; cbn; intros l H; [injection H as <-; constructor|].
  destruct (lookup (p_name p) kw) as [a|] eqn:E; [|discriminate]. destruct (port_map r kw); [|discriminate].
  injection H as <-. constructor; [|auto]. cbn. repeat split; auto. apply lookup_In; auto.
Qed.

(** an accepted instantiation has a port map *)
Theorem port_map_total ports kw : inst_ok ports kw = true -> exists l, port_map ports kw = Some l.
Proof.
  unfold inst_ok. rewrite andb_true_iff. intros [_ H]. rewrite forallb_forall in H.
  induction ports as [|p r IH]; cbn; [eauto|].
  pose proof (H p (or_introl eq_refl)) as Hp. destruct (lookup (p_name p) kw); [|discriminate].
  destruct IH as [l ->]; [intros q Hq; apply H; cbn; auto|]. eauto.
Qed.

(** in an accepted instantiation the actual has exactly the type of its formal, so the input side needs no conversion
    of the formal and the conversion of an output formal is to the vector kind of the root object *)
Lemma find_port_In n ports p : find_port n ports = Some p -> In p ports /\ p_name p = n.
Proof.
  induction ports as [|q r IH]; cbn; [discriminate|]. destruct (N.eqb n (p_name q)) eqn:E.
  - intros [= ->]. apply N.eqb_eq in E. auto.
  - intros H. destruct (IH H). auto.
Qed.

(** * (b) the caches *)
Lemma elab_inv g f : forall c st, runs st = elaborated st -> NoDup (elaborated st) ->
  runs (elab g f c st) = elaborated (elab g f c st) /\ NoDup (elaborated (elab g f c st)) /\
  converted (elab g f c st) = converted st.
Proof.
  induction f as [|f IH]; intros c st Hr Hn; cbn; [auto|].
  destruct (mem c (elaborated st)) eqn:M; [auto|].
  set (st1 := mkes (elaborated st ++ [c]) (converted st) (runs st ++ [c])).
  assert (H1 : runs st1 = elaborated st1) by (cbn; congruence).
  assert (H2 : NoDup (elaborated st1)) by (cbn; apply NoDup_snoc; [auto|apply mem_false; auto]).
  assert (H3 : converted st1 = converted st) by reflexivity.
  revert H1 H2 H3. generalize st1. generalize (t_arch (tmpl g c)).
  induction l as [|i r IHr]; intros s H1 H2 H3; cbn; [auto|].
  destruct (IH (i_tmpl i) s H1 H2) as (A & B & C). apply IHr; auto. congruence.
Qed.

Lemma fold_elab_inv g f l : forall st, runs st = elaborated st -> NoDup (elaborated st) ->
  let st' := fold_left (fun st i => elab g f (i_tmpl i) st) l st in
  runs st' = elaborated st' /\ NoDup (elaborated st').
Proof.
  induction l as [|i r IHr]; intros st H1 H2; cbn; [auto|].
  destruct (elab_inv g f (i_tmpl i) st H1 H2) as (A & B & _). apply IHr; auto.
Qed.

Lemma convert_inv g f : forall c st, runs st = elaborated st -> NoDup (elaborated st) ->
  runs (convert g f c st) = elaborated (convert g f c st) /\ NoDup (elaborated (convert g f c st)).
Proof.
  induction f as [|f IH]; intros c st Hr Hn; [cbn; auto|].
  cbn [convert]. destruct (mem c (converted st)) eqn:M; [auto|].
  assert (Hfold : forall l st, runs st = elaborated st -> NoDup (elaborated st) ->
            let st' := fold_left (fun st i => convert g f (i_tmpl i) st) l st in
            runs st' = elaborated st' /\ NoDup (elaborated st')).
  { induction l as [|i r IHr]; intros s H1 H2; cbn; [auto|].
    destruct (IH (i_tmpl i) s H1 H2) as (A & B). apply IHr; auto. }
  destruct (elab_inv g (S f) c st Hr Hn) as (A1 & B1 & _).
  destruct (Hfold (t_arch (tmpl g c)) _ A1 B1) as (A2 & B2).
  destruct (fold_elab_inv g f (t_ctx (tmpl g c)) _ A2 B2) as (A3 & B3).
  destruct (Hfold (t_ctx (tmpl g c)) _ A3 B3) as (A4 & B4).
  cbn. auto.
Qed.

(** no architecture method runs twice in one compilation - for every graph (even an ill-formed one) *)
Theorem arch_runs_nodup g top : NoDup (arch_runs g top).
Proof.
  unfold arch_runs. destruct (convert_inv g (S top) top es0 eq_refl (NoDup_nil _)) as (A & B).
  rewrite A. exact B.
Qed.

(** the cache as a step function *)
Definition cache_wf (cache : list (nat * nat)) : Prop :=
  forall k h, cache_find k cache = Some h -> h < length cache /\ nth_error cache h = Some (k, h).

Lemma cache_find_app k cache c h : cache_find k (cache ++ [(c, h)]) =
  match cache_find k cache with Some x => Some x | None => if Nat.eqb k c then Some h else None end.
Proof.
  induction cache as [|[k' h'] r IH]; cbn; [reflexivity|]. destruct (Nat.eqb k k'); auto.
Qed.

Lemma cache_step_wf cache c : cache_wf cache -> cache_wf (fst (fst (cache_step cache c))).
Proof.
  intros W. unfold cache_step. destruct (cache_find c cache) eqn:E; cbn; [exact W|].
  intros k h. rewrite cache_find_app. destruct (cache_find k cache) as [x|] eqn:F.
  - intros [= <-]. destruct (W k x F) as [L N]. rewrite app_length; cbn. split; [lia|].
    rewrite nth_error_app1; auto.
  - destruct (Nat.eqb k c) eqn:K; [|discriminate]. intros [= <-]. apply Nat.eqb_eq in K; subst.
    rewrite app_length; cbn. split; [lia|]. rewrite nth_error_app2, Nat.sub_diag; [reflexivity|lia].
Qed.

(** a handle identifies the class it was created for: two requests get the same template iff they name the same class *)
Theorem cache_step_shared cache c1 c2 : cache_wf cache ->
  let '(cache1, h1, _) := cache_step cache c1 in
  let '(_, h2, created2) := cache_step cache1 c2 in
  (h1 = h2 <-> c1 = c2) /\ (c1 = c2 -> created2 = false).
Proof.
  intros W. pose proof (cache_step_wf cache c1 W) as W1.
  unfold cache_step in *. destruct (cache_find c1 cache) as [h1|] eqn:E1; cbn in *.
  - destruct (cache_find c2 cache) as [h2|] eqn:E2.
    + split; [|intros _; reflexivity]. split.
      * intros <-. destruct (W c1 h1 E1) as [_ N1]. destruct (W c2 h1 E2) as [_ N2]. congruence.
      * intros <-. congruence.
    + split; [|intros <-; congruence]. split; [|intros <-; congruence].
      intros ->. destruct (W c1 _ E1). lia.
  - rewrite cache_find_app, Nat.eqb_sym. destruct (cache_find c2 cache) as [h2|] eqn:E2.
    + split; [|intros <-; congruence]. split; [|intros <-; congruence].
      intros <-. destruct (W c2 _ E2). lia.
    + destruct (Nat.eqb c1 c2) eqn:K.
      * apply Nat.eqb_eq in K. split; [tauto|reflexivity].
      * apply Nat.eqb_neq in K. split; [|tauto]. rewrite app_length; cbn. split; [lia|tauto].
Qed.

Lemma cache_wf_nil : cache_wf [].
Proof. intros k h; discriminate. Qed.

(** * (b) continued: the architectures that run are exactly those of the instantiated templates *)
Section ElabReach.
  Variable g : graph.
  Hypothesis wf : wf_graph g.

  Definition le (s s' : estate) : Prop :=
    incl (elaborated s) (elaborated s') /\ incl (converted s) (converted s').
  Lemma le_refl s : le s s. Proof. split; apply incl_refl. Qed.
  Lemma le_trans a b c : le a b -> le b c -> le a c.
  Proof. intros [A B] [C D]. split; eapply incl_tran; eauto. Qed.

  Lemma fold_le (F : estate -> inst -> estate) l : (forall i s, In i l -> le s (F s i)) -> forall s, le s (fold_left F l s).
  Proof.
    induction l as [|i r IH]; intros H s; cbn; [apply le_refl|].
    eapply le_trans; [apply H; cbn; auto|]. apply IH. intros; apply H; cbn; auto.
  Qed.

  Lemma elab_le f : forall c st, le st (elab g f c st) /\ converted (elab g f c st) = converted st.
  Proof.
    induction f as [|f IH]; intros c st; cbn; [split; [apply le_refl|reflexivity]|].
    destruct (mem c (elaborated st)); [split; [apply le_refl|reflexivity]|].
    set (st1 := mkes (elaborated st ++ [c]) (converted st) (runs st ++ [c])).
    assert (H1 : le st st1) by (split; cbn; [apply incl_appl|]; apply incl_refl).
    assert (H2 : forall l s, le s (fold_left (fun st i => elab g f (i_tmpl i) st) l s) /\
                             converted (fold_left (fun st i => elab g f (i_tmpl i) st) l s) = converted s).
    { induction l as [|i r IHr]; intros s; cbn; [split; [apply le_refl|reflexivity]|].
      destruct (IH (i_tmpl i) s) as [A B]. destruct (IHr (elab g f (i_tmpl i) s)) as [C D].
      split; [eapply le_trans; eauto|congruence]. }
    destruct (H2 (t_arch (tmpl g c)) st1) as [A B]. split; [eapply le_trans; eauto|exact B].
  Qed.

  Lemma elab_self f c st : In c (elaborated (elab g (S f) c st)).
  Proof.
    cbn. destruct (mem c (elaborated st)) eqn:M; [apply mem_In; exact M|].
    set (st1 := mkes (elaborated st ++ [c]) (converted st) (runs st ++ [c])).
    assert (H : le st1 (fold_left (fun st i => elab g f (i_tmpl i) st) (t_arch (tmpl g c)) st1))
      by (apply fold_le; intros; apply elab_le).
    apply H. cbn. apply in_app_iff; cbn; auto.
  Qed.

  Lemma fold_elab_le f l s : le s (fold_left (fun st i => elab g f (i_tmpl i) st) l s) /\
    converted (fold_left (fun st i => elab g f (i_tmpl i) st) l s) = converted s.
  Proof.
    revert s. induction l as [|i r IHr]; intros s; cbn; [split; [apply le_refl|reflexivity]|].
    destruct (elab_le f (i_tmpl i) s) as [A B]. destruct (IHr (elab g f (i_tmpl i) s)) as [C D].
    split; [eapply le_trans; eauto|congruence].
  Qed.

  Lemma convert_le f : forall c st, le st (convert g f c st).
  Proof.
    induction f as [|f IH]; intros c st; [apply le_refl|].
    cbn [convert]. destruct (mem c (converted st)); [apply le_refl|].
    eapply le_trans; [apply (elab_le (S f) c st)|].
    eapply le_trans; [apply fold_le; intros; apply IH|].
    eapply le_trans; [apply fold_elab_le|].
    eapply le_trans; [apply fold_le; intros; apply IH|].
    split; cbn; [apply incl_refl|apply incl_appl, incl_refl].
  Qed.

  (** every converted class is elaborated and all its sub-instances' classes are converted *)
  Definition J (st : estate) : Prop :=
    forall u, In u (converted st) -> In u (elaborated st) /\ forall x, In x (children g u) -> In x (converted st).

  Lemma J_le st st' : J st -> le st st' -> converted st' = converted st -> J st'.
  Proof.
    intros H [A _] E u Hu. rewrite E in *. destruct (H u Hu) as [B C]. split; [apply A; auto|auto].
  Qed.

  Lemma convert_J f : forall c st, c < f -> J st -> J (convert g f c st) /\ In c (converted (convert g f c st)).
  Proof.
    induction f as [|f IH]; intros c st Hc HJ; [lia|].
    cbn [convert]. destruct (mem c (converted st)) eqn:M; [split; [auto|apply mem_In; auto]|].
    assert (Hfold : forall l, (forall i, In i l -> i_tmpl i < f) -> forall s, J s ->
              J (fold_left (fun st i => convert g f (i_tmpl i) st) l s) /\
              forall i, In i l -> In (i_tmpl i) (converted (fold_left (fun st i => convert g f (i_tmpl i) st) l s))).
    { induction l as [|i r IHr]; intros Hl s Hs; cbn; [split; [auto|intros i []]|].
      destruct (IH (i_tmpl i) s (Hl i (or_introl eq_refl)) Hs) as [A B].
      destruct (IHr (fun j Hj => Hl j (or_intror Hj)) _ A) as [C D]. split; [auto|].
      intros j [<-|Hj]; [|auto].
      apply (fold_le (fun st i => convert g f (i_tmpl i) st) r (fun i s _ => convert_le f (i_tmpl i) s)). exact B. }
    assert (Hlt : forall i, In i (subblocks (tmpl g c)) -> i_tmpl i < f).
    { intros i Hi. assert (i_tmpl i < c); [|lia]. apply wf. unfold children. apply in_map; auto. }
    set (st1 := elab g (S f) c st).
    assert (J1 : J st1) by (apply (J_le st); [auto|apply elab_le|apply elab_le]).
    assert (E1 : In c (elaborated st1)) by apply elab_self.
    destruct (Hfold (t_arch (tmpl g c)) (fun i Hi => Hlt i (in_or_app _ _ _ (or_introl Hi))) st1 J1) as [J2 C2].
    set (st2 := fold_left (fun st i => convert g f (i_tmpl i) st) (t_arch (tmpl g c)) st1) in *.
    assert (L12 : le st1 st2) by (apply fold_le; intros; apply convert_le).
    destruct (fold_elab_le f (t_ctx (tmpl g c)) st2) as [L23 E23].
    set (st3 := fold_left (fun st i => elab g f (i_tmpl i) st) (t_ctx (tmpl g c)) st2) in *.
    assert (J3 : J st3) by (apply (J_le st2); auto).
    destruct (Hfold (t_ctx (tmpl g c)) (fun i Hi => Hlt i (in_or_app _ _ _ (or_intror Hi))) st3 J3) as [J4 C4].
    set (st4 := fold_left (fun st i => convert g f (i_tmpl i) st) (t_ctx (tmpl g c)) st3) in *.
    assert (L34 : le st3 st4) by (apply fold_le; intros; apply convert_le).
    split; [|cbn; apply in_app_iff; cbn; auto].
    intros u Hu. cbn in Hu |- *. apply in_app_iff in Hu. destruct Hu as [Hu|[<-|[]]].
    - destruct (J4 u Hu) as [A B]. split; [auto|]. intros x Hx. apply in_app_iff. left. auto.
    - split.
      + apply L34, L23, L12. exact E1.
      + intros x Hx. unfold children, subblocks in Hx. rewrite map_app in Hx. apply in_app_iff.  left.
        apply in_app_iff in Hx. destruct Hx as [Hx|Hx]; apply in_map_iff in Hx; destruct Hx as (i & <- & Hi).
        * apply L34. rewrite E23. apply C2. exact Hi.
        * apply C4. exact Hi.
  Qed.

  (** soundness: only classes reachable from [c] are elaborated *)
  Lemma fold_sound (F : estate -> inst -> estate) c l :
    (forall i s x, In i l -> In x (elaborated (F s i)) -> In x (elaborated s) \/ greach g (i_tmpl i) x) ->
    (forall i, In i l -> In (i_tmpl i) (children g c)) ->
    forall s x, In x (elaborated (fold_left F l s)) -> In x (elaborated s) \/ gdesc g c x.
  Proof.
    induction l as [|i r IH]; intros HF Hc s x Hx; cbn in Hx; [auto|].
    destruct (IH (fun j s x Hj => HF j s x (or_intror Hj)) (fun j Hj => Hc j (or_intror Hj)) _ _ Hx) as [H|H]; [|auto].
    destruct (HF i s x (or_introl eq_refl) H) as [H1|[->|H1]]; [auto| |].
    - right. constructor. apply Hc; cbn; auto.
    - right. econstructor 2; [apply Hc; cbn; auto|exact H1].
  Qed.

  Lemma arch_in_children c i : In i (t_arch (tmpl g c)) -> In (i_tmpl i) (children g c).
  Proof. intros H. unfold children, subblocks. apply in_map, in_or_app; auto. Qed.
  Lemma ctx_in_children c i : In i (t_ctx (tmpl g c)) -> In (i_tmpl i) (children g c).
  Proof. intros H. unfold children, subblocks. apply in_map, in_or_app; auto. Qed.

  Lemma elab_sound f : forall c st x, In x (elaborated (elab g f c st)) -> In x (elaborated st) \/ greach g c x.
  Proof.
    induction f as [|f IH]; intros c st x Hx; cbn in Hx; [auto|].
    destruct (mem c (elaborated st)); [auto|].
    apply (fold_sound (fun st i => elab g f (i_tmpl i) st) c) in Hx.
    - destruct Hx as [Hx|Hx]; [|right; right; auto]. cbn in Hx. apply in_app_iff in Hx.
      destruct Hx as [Hx|[<-|[]]]; [auto|right; left; reflexivity].
    - intros i s y _ Hy. apply IH; auto.
    - apply arch_in_children.
  Qed.

  Lemma convert_sound f : forall c st x, In x (elaborated (convert g f c st)) -> In x (elaborated st) \/ greach g c x.
  Proof.
    induction f as [|f IH]; intros c st x Hx; [auto|].
    cbn [convert] in Hx. destruct (mem c (converted st)); [auto|]. cbn [elaborated] in Hx.
    apply (fold_sound (fun st i => convert g f (i_tmpl i) st) c) in Hx;
      [|intros i s y _ Hy; apply IH; auto|apply ctx_in_children].
    destruct Hx as [Hx|Hx]; [|right; right; auto].
    apply (fold_sound (fun st i => elab g f (i_tmpl i) st) c) in Hx;
      [|intros i s y _ Hy; apply elab_sound with (f := f) (st := s); auto|apply ctx_in_children].
    destruct Hx as [Hx|Hx]; [|right; right; auto].
    apply (fold_sound (fun st i => convert g f (i_tmpl i) st) c) in Hx;
      [|intros i s y _ Hy; apply IH; auto|apply arch_in_children].
    destruct Hx as [Hx|Hx]; [|right; right; auto].
    apply elab_sound in Hx. exact Hx.
  Qed.

  Theorem arch_runs_reach top x : In x (arch_runs g top) <-> greach g top x.
  Proof.
    unfold arch_runs. destruct (convert_inv g (S top) top es0 eq_refl (NoDup_nil _)) as (A & _). rewrite A.
    split.
    - intros H. apply convert_sound in H. destruct H as [[]|H]. exact H.
    - assert (J0 : J es0) by (intros u []).
      destruct (convert_J (S top) top es0 (Nat.lt_succ_diag_r _) J0) as [JJ T].
      assert (D : forall u y, gdesc g u y -> In u (converted (convert g (S top) top es0)) ->
                              In y (converted (convert g (S top) top es0))).
      { induction 1 as [p c H|p c y H _ IH]; intros Hp; destruct (JJ p Hp) as [_ C]; auto. }
      intros [->|H]; [apply JJ; exact T|]. apply JJ. eapply D; eauto.
  Qed.
End ElabReach.

(** every instantiated template is elaborated exactly once: same set as the emitted units, no repetition *)
Theorem arch_runs_once_each g top : wf_graph g ->
  NoDup (arch_runs g top) /\ forall x, In x (arch_runs g top) <-> In x (emit_order g top).
Proof.
  intros W. split; [apply arch_runs_nodup|]. intros x.
  rewrite (arch_runs_reach g W). symmetry. apply (emit_reach _ W).
Qed.
