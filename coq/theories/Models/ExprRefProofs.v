(** * ExprRefProofs: lemmas about Models/ExprRef.v (C02) *)
From Coq Require Import ZArith NArith List Bool Lia.
From Cohdl Require Import Base.Bits Vhdl.Value Vhdl.NumStd Equiv.RefTS Models.ExprRef.
Import ListNotations.
Local Open Scope Z_scope.

(** ** a nested induction principle for [texp] *)
Definition optP (P : texp -> Prop) (d : option texp) : Prop := match d with Some x => P x | None => True end.

Section TexpInd.
  Variable P : texp -> Prop.
  Hypothesis HIn : forall k ti, P (XIn k ti).
  Hypothesis HConst : forall k w z, P (XConst k w z).
  Hypothesis HUn : forall op a, P a -> P (XUn op a).
  Hypothesis HBin : forall op a b, P a -> P b -> P (XBin op a b).
  Hypothesis HCmp : forall op a b, P a -> P b -> P (XCmp op a b).
  Hypothesis HChain : forall a rest, P a -> Forall (fun p => P (snd p)) rest -> P (XChain a rest).
  Hypothesis HIdxC : forall a i, P a -> P (XIdxC a i).
  Hypothesis HIdx : forall a i, P a -> P i -> P (XIdx a i).
  Hypothesis HSlice : forall a hi lo, P a -> P (XSlice a hi lo).
  Hypothesis HView : forall v a, P a -> P (XView v a).
  Hypothesis HResize : forall a n z, P a -> P (XResize a n z).
  Hypothesis HIte : forall c a b, P c -> P a -> P b -> P (XIte c a b).
  Hypothesis HSel : forall s br d, P s -> Forall (fun p => P (snd p)) br -> optP P d -> P (XSel s br d).
  Hypothesis HAny : forall l, Forall P l -> P (XAny l).
  Hypothesis HAll : forall l, Forall P l -> P (XAll l).
  Hypothesis HArr : forall l, Forall P l -> P (XArr l).

  Fixpoint texp_ind' (e : texp) : P e :=
    let go := fix go (l : list texp) : Forall P l :=
      match l with [] => Forall_nil _ | x :: r => Forall_cons x (texp_ind' x) (go r) end in
    let gop := fun (A : Type) => fix gop (l : list (A * texp)) : Forall (fun p => P (snd p)) l :=
      match l with
      | [] => Forall_nil _
      | p :: r => Forall_cons p (match p as q return P (snd q) with (_, x) => texp_ind' x end) (gop r)
      end in
    match e with
    | XIn k t => HIn k t
    | XConst k w z => HConst k w z
    | XUn op a => HUn op a (texp_ind' a)
    | XBin op a b => HBin op a b (texp_ind' a) (texp_ind' b)
    | XCmp op a b => HCmp op a b (texp_ind' a) (texp_ind' b)
    | XChain a rest => HChain a rest (texp_ind' a) (gop cop rest)
    | XIdxC a i => HIdxC a i (texp_ind' a)
    | XIdx a i => HIdx a i (texp_ind' a) (texp_ind' i)
    | XSlice a hi lo => HSlice a hi lo (texp_ind' a)
    | XView v a => HView v a (texp_ind' a)
    | XResize a n z => HResize a n z (texp_ind' a)
    | XIte c a b => HIte c a b (texp_ind' c) (texp_ind' a) (texp_ind' b)
    | XSel s br d => HSel s br d (texp_ind' s) (gop Z br)
                       (match d as o return optP P o with Some x => texp_ind' x | None => I end)
    | XAny l => HAny l (go l)
    | XAll l => HAll l (go l)
    | XArr l => HArr l (go l)
    end.
End TexpInd.

(** ** basic facts *)
Lemma kind_eqb_ok a b : kind_eqb a b = true <-> a = b.
Proof. destruct a, b; cbn; split; congruence. Qed.

Lemma kind_eqb_refl a : kind_eqb a a = true.
Proof. destruct a; reflexivity. Qed.

Lemma ty_eqb_ok a b : ty_eqb a b = true <-> a = b.
Proof.
  destruct a, b; cbn; try (split; congruence).
  - rewrite andb_true_iff, kind_eqb_ok, N.eqb_eq. split; [intros [-> ->]; reflexivity|intros [= -> ->]; auto].
  - rewrite !andb_true_iff, kind_eqb_ok, !N.eqb_eq. split; [intros [[-> ->] ->]; reflexivity|intros [= -> -> ->]; auto].
Qed.

Lemma ty_eqb_refl a : ty_eqb a a = true.
Proof. apply ty_eqb_ok; reflexivity. Qed.

Lemma vok_TV t k w z :
  vok t (TV k w z) = true <-> t = Ty k w /\ wf_scalar k w = true /\ in_range k w z = true.
Proof. cbn. rewrite !andb_true_iff, ty_eqb_ok. tauto. Qed.

Lemma vok_TA t k w l :
  vok t (TA k w l) = true -> t = TyArr k w (N.of_nat (length l)) /\ wf_scalar k w = true /\ forallb (in_range k w) l = true.
Proof. unfold vok. rewrite !andb_true_iff, ty_eqb_ok. tauto. Qed.

Lemma vok_tyv t v : vok t v = true -> v = TUndef \/ tyv v = Some t.
Proof.
  destruct v as [k w z|k w l|]; cbn; [| |auto].
  - rewrite !andb_true_iff, ty_eqb_ok. intros [[-> _] _]. auto.
  - rewrite !andb_true_iff, ty_eqb_ok. intros [[[-> _] _] _]. auto.
Qed.

Lemma zb_range b : in_range KBool 1 (zb b) = true.
Proof. destruct b; reflexivity. Qed.

Lemma zb_range_bit b : in_range KBit 1 (zb b) = true.
Proof. destruct b; reflexivity. Qed.

Lemma vok_bool b : vok (Ty KBool 1) (TV KBool 1 (zb b)) = true.
Proof. destruct b; reflexivity. Qed.

Lemma vok_bit b : vok (Ty KBit 1) (TV KBit 1 (zb b)) = true.
Proof. destruct b; reflexivity. Qed.

Lemma wf_pos k w : wf_scalar k w = true -> is_vec k = true -> (0 < w)%N.
Proof. destruct k; cbn; try discriminate; intros H _; apply N.ltb_lt; exact H. Qed.

(** the result of every operator is brought into the range of its type *)
Lemma norm_ok k w z : wf_scalar k w = true -> in_range k w (norm k w z) = true.
Proof.
  destruct k; cbn; intros Hw.
  - pose proof (Z.mod_pos_bound z 2 ltac:(lia)). apply andb_true_iff; split; [apply Z.leb_le|apply Z.leb_le]; lia.
  - pose proof (Z.mod_pos_bound z 2 ltac:(lia)). apply andb_true_iff; split; [apply Z.leb_le|apply Z.leb_le]; lia.
  - pose proof (wrap_range w z). apply andb_true_iff; split; [apply Z.leb_le|apply Z.ltb_lt]; lia.
  - pose proof (wrap_range w z). apply andb_true_iff; split; [apply Z.leb_le|apply Z.ltb_lt]; lia.
  - apply N.ltb_lt in Hw. pose proof (sval_range w (wrap w z) Hw (wrap_range w z)).
    apply andb_true_iff; split; [apply Z.leb_le|apply Z.ltb_lt]; lia.
  - reflexivity.
  - apply N.ltb_lt in Hw. pose proof (Z.mod_pos_bound z (Z.of_N w) ltac:(lia)).
    apply andb_true_iff; split; [apply Z.leb_le|apply Z.ltb_lt]; lia.
Qed.

Lemma mk_ok k w z : wf_scalar k w = true -> vok (Ty k w) (mk k w z) = true.
Proof. intros H. unfold mk. apply vok_TV. auto using norm_ok. Qed.

(** a value that is already in range is not changed by [norm] *)
Lemma norm_id k w z : wf_scalar k w = true -> in_range k w z = true -> norm k w z = z.
Proof.
  destruct k; cbn; intros Hw Hr; try reflexivity.
  - apply andb_true_iff in Hr. destruct Hr as [A B]. apply Z.leb_le in A, B. apply Z.mod_small; lia.
  - apply andb_true_iff in Hr. destruct Hr as [A B]. apply Z.leb_le in A, B. apply Z.mod_small; lia.
  - apply andb_true_iff in Hr. destruct Hr as [A B]. apply Z.leb_le in A. apply Z.ltb_lt in B. apply wrap_small; lia.
  - apply andb_true_iff in Hr. destruct Hr as [A B]. apply Z.leb_le in A. apply Z.ltb_lt in B. apply wrap_small; lia.
  - apply andb_true_iff in Hr. destruct Hr as [A B]. apply Z.leb_le in A. apply Z.ltb_lt in B.
    apply N.ltb_lt in Hw. apply sval_wrap; [exact Hw|lia].
  - apply andb_true_iff in Hr. destruct Hr as [A B]. apply Z.leb_le in A. apply Z.ltb_lt in B. apply Z.mod_small; lia.
Qed.

(** ** result types are well formed *)
Ltac ifs H :=
  repeat match type of H with
         | (if ?c then _ else _) = _ => let E := fresh "E" in destruct c eqn:E; try discriminate H
         end.

Lemma bin_ty_scalar op ta tb t : bin_ty op ta tb = Some t -> exists k w, t = Ty k w.
Proof.
  destruct ta as [ka wa|], tb as [kb wb|]; cbn; try discriminate.
  destruct op, ka, kb; cbn; intros H; try discriminate H; ifs H; inversion H; eauto.
Qed.

Lemma bin_ty_wf op ka wa kb wb k w :
  bin_ty op (Ty ka wa) (Ty kb wb) = Some (Ty k w) ->
  wf_scalar ka wa = true -> wf_scalar kb wb = true -> wf_scalar k w = true.
Proof.
  destruct op, ka, kb; cbn; intros H A B; try discriminate H; ifs H; inversion H; subst; cbn;
    rewrite ?N.ltb_lt, ?N.eqb_eq in *; try reflexivity; try assumption; try lia; destruct op; cbn; lia.
Qed.

Lemma un_ty_wf op k w k' w' : un_ty op (Ty k w) = Some (Ty k' w') -> wf_scalar k w = true -> wf_scalar k' w' = true.
Proof.
  destruct op, k; cbn; intros H A; try discriminate H; inversion H; subst; auto.
Qed.

Lemma un_ty_scalar op t t' : un_ty op t = Some t' -> exists k w, t' = Ty k w.
Proof.
  destruct t as [k w|]; cbn; [|discriminate]. destruct op, k; cbn; intros H; try discriminate H; inversion H; eauto.
Qed.

Lemma join_ty_wf ka wa kb wb t :
  join_ty (Ty ka wa) (Ty kb wb) = Some t -> wf_scalar ka wa = true -> wf_scalar kb wb = true ->
  exists w, t = Ty ka w /\ wf_scalar ka w = true /\ ka = kb.
Proof.
  cbn. destruct (kind_eqb ka kb) eqn:E; [|discriminate]. apply kind_eqb_ok in E. subst kb.
  destruct ka; cbn; intros H A B; ifs H; inversion H; subst; eexists; repeat split; auto;
    rewrite ?N.ltb_lt in *; lia.
Qed.

(** ** the operators produce values of their documented type *)
Lemma bin_eval_ok op ta tb t va vb :
  bin_ty op ta tb = Some t -> vok ta va = true -> vok tb vb = true -> vok t (bin_eval op va vb) = true.
Proof.
  intros Ht Ha Hb.
  destruct va as [ka wa za| |]; [| reflexivity | reflexivity].
  destruct vb as [kb wb zb'| |]; [| reflexivity | reflexivity].
  apply vok_TV in Ha. destruct Ha as (-> & Wa & _). apply vok_TV in Hb. destruct Hb as (-> & Wb & _).
  unfold bin_eval. rewrite Ht.
  destruct (bin_ty_scalar _ _ _ _ Ht) as (k & w & ->).
  destruct (bin_val op ka wa za kb wb zb'); [|reflexivity].
  apply mk_ok. eapply bin_ty_wf; eauto.
Qed.

Lemma un_eval_ok op ta t va : un_ty op ta = Some t -> vok ta va = true -> vok t (un_eval op va) = true.
Proof.
  intros Ht Ha. destruct va as [k w z| |]; [| reflexivity | reflexivity].
  apply vok_TV in Ha. destruct Ha as (-> & Wa & _). unfold un_eval. rewrite Ht.
  destruct (un_ty_scalar _ _ _ Ht) as (k' & w' & ->). apply mk_ok. eapply un_ty_wf; eauto.
Qed.

Lemma cmp_eval_bool op va vb : vok (Ty KBool 1) (cmp_eval op va vb) = true.
Proof.
  destruct va as [ka wa za| |], vb as [kb wb zb'| |]; try reflexivity. unfold cmp_eval.
  destruct (cmp_ok op (Ty ka wa) (Ty kb wb)); [apply vok_bool|reflexivity].
Qed.

Lemma chain_eval_bool l : forall prev, vok (Ty KBool 1) (chain_eval prev l) = true.
Proof.
  induction l as [|[op v] r IH]; intros prev; cbn [chain_eval]; [reflexivity|].
  destruct (cmp_eval op prev v); try reflexivity. destruct (chain_eval v r); try reflexivity. apply vok_bool.
Qed.

Lemma conv_ok k w v : wf_scalar k w = true -> vok (Ty k w) (conv (Some (Ty k w)) v) = true.
Proof.
  intros H. destruct v as [k' w' z| |]; cbn; try reflexivity.
  destruct (kind_eqb k k'); [apply mk_ok; exact H|reflexivity].
Qed.

Lemma conv_defined t v : defined (conv t v) = true -> exists k w z, v = TV k w z.
Proof.
  destruct t as [[k w|]|]; destruct v as [k' w' z| |]; cbn; try discriminate; eauto.
Qed.

(** ** if-expression / select_with: the common type of the alternatives *)
Lemma join_all_some first l t : join_all first l = Some t -> first <> None /\ Forall (fun x => x <> None) l.
Proof.
  revert first. induction l as [|x r IH]; cbn; intros first H.
  - split; [congruence|constructor].
  - destruct (IH _ H) as [A B]. destruct first as [f|], x as [x|]; cbn in A; try congruence.
    split; [congruence|constructor; [congruence|exact B]].
Qed.

Definition scalar_wf (t : option ty) : Prop :=
  match t with Some (Ty k w) => wf_scalar k w = true | _ => False end.

Lemma join_opt_wf a b t : join_opt a b = Some t -> scalar_wf a -> scalar_wf b -> scalar_wf (Some t).
Proof.
  destruct a as [[ka wa|]|], b as [[kb wb|]|]; cbn; try discriminate; try tauto.
  intros H A B. destruct (join_ty_wf _ _ _ _ _ H A B) as (w & -> & W & _). exact W.
Qed.

Lemma join_all_wf l : forall first t, join_all first l = Some t -> scalar_wf first -> Forall scalar_wf l -> scalar_wf (Some t).
Proof.
  induction l as [|x r IH]; cbn; intros first t H A B.
  - subst. exact A.
  - inversion B; subst. destruct (join_all_some _ _ _ H) as [N _].
    destruct (join_opt first x) as [j|] eqn:E; [|congruence].
    eapply IH; [exact H| |assumption]. eapply join_opt_wf; eauto.
Qed.

(** a value of type [t] (not undefined) carries exactly [t] *)
Lemma vok_scalar_wf t k w z : vok t (TV k w z) = true -> scalar_wf (Some t) /\ tyv (TV k w z) = Some t.
Proof. intros H. apply vok_TV in H. destruct H as (-> & W & _). split; [exact W|reflexivity]. Qed.

Section Sound.
Variable en : env.

Definition sound (e : texp) : Prop := forall t, tyof e = Some t -> vok t (xeval en e) = true.

Lemma any_bool l : match any_eval l with Some b => vok (Ty KBool 1) (TV KBool 1 (zb b)) = true | None => True end.
Proof. destruct (any_eval l); [apply vok_bool|exact I]. Qed.

(** alternatives: statically typed expressions, evaluated; when every evaluated alternative converts, their run-time
    types are the static ones *)
Lemma alts_types (es : list texp) :
  Forall sound es ->
  Forall (fun x => x <> None) (map tyof es) ->
  (forall v, In v (map (xeval en) es) -> exists k w z, v = TV k w z) ->
  map tyv (map (xeval en) es) = map tyof es /\ Forall scalar_wf (map tyof es).
Proof.
  induction es as [|e r IH]; cbn; intros HS HN HV; [split; [reflexivity|constructor]|].
  inversion HS as [|? ? Se Sr]; subst. inversion HN as [|? ? Ne Nr]; subst.
  destruct (tyof e) as [t|] eqn:Te; [|congruence].
  destruct (HV (xeval en e) (or_introl eq_refl)) as (k & w & z & Ev).
  pose proof (Se t Te) as Ok. rewrite Ev in Ok. destruct (vok_scalar_wf _ _ _ _ Ok) as [W T].
  destruct IH as [A B]; auto.
  rewrite Ev. cbn [tyv]. cbn [tyv] in T. rewrite T, A. split; [reflexivity|constructor; assumption].
Qed.

Ltac disc := let H := fresh in intro H; discriminate H.

Theorem tyof_sound : forall e, sound e.
Proof.
  induction e using texp_ind'; unfold sound in *; intros t; cbn [tyof xeval].
  - (* XIn *) destruct (wf_ty ti) eqn:W; [|disc]. intros Ht. inversion Ht; subst. cbn.
    destruct (vok t (nth k en TUndef)) eqn:V; [exact V|reflexivity].
  - (* XConst *) destruct (wf_scalar k w && in_range k w z) eqn:W; [|disc]. intros Ht. inversion Ht; subst.
    apply andb_true_iff in W. apply vok_TV. tauto.
  - (* XUn *) destruct (tyof e) as [ta|] eqn:Ta; [|disc]. intros Ht. eapply un_eval_ok; eauto.
  - (* XBin *) destruct (tyof e1) as [ta|] eqn:Ta; [|disc]. destruct (tyof e2) as [tb|] eqn:Tb; [|disc].
    intros Ht. eapply bin_eval_ok; eauto.
  - (* XCmp *) destruct (tyof e1) as [ta|]; [|disc]. destruct (tyof e2) as [tb|]; [|disc].
    destruct (cmp_ok op ta tb); [|disc]. intros Ht. inversion Ht; subst. apply cmp_eval_bool.
  - (* XChain *) destruct rest as [|p r]; [disc|].
    match goal with |- (if ?c then _ else _) = _ -> _ => destruct c; [|disc] end. intros Ht. inversion Ht; subst.
    apply chain_eval_bool.
  - (* XIdxC *) destruct (tyof e) as [[k w|]|]; try disc.
    destruct (is_vec k && (i <? w)%N); [|disc]. intros Ht. inversion Ht; subst.
    destruct (xeval en e) as [k' w' z| |]; try reflexivity.
    destruct (is_vec k' && (i <? w')%N); [apply vok_bit|reflexivity].
  - (* XIdx *) destruct (tyof e1) as [[k w|k w n]|] eqn:Ta; try disc.
    + destruct (tyof e2) as [[ki wi|]|]; try disc. intros Ht.
      assert (Hb : t = Ty KBit 1) by (destruct ki; try discriminate Ht; destruct (is_vec k); inversion Ht; reflexivity).
      subst t. pose proof (IHe1 _ eq_refl) as Oa.
      destruct (xeval en e1) as [k' w' z|k' w' l|]; try reflexivity.
      * destruct (xeval en e2) as [ki' wi' ni| |]; try reflexivity.
        destruct ki'; try reflexivity; destruct (is_vec k'); try reflexivity;
          match goal with |- vok _ (if ?c then _ else _) = true => destruct c; [apply vok_bit|reflexivity] end.
      * cbn in Oa. discriminate Oa.
    + destruct (tyof e2) as [[ki wi|]|]; try disc. intros Ht.
      assert (Hb : t = Ty k w) by (destruct ki; try discriminate Ht; inversion Ht; reflexivity).
      subst t. pose proof (IHe1 _ eq_refl) as Oa.
      destruct (xeval en e1) as [k' w' z|k' w' l|]; try reflexivity.
      * apply vok_TV in Oa. destruct Oa as [Oa _]. discriminate Oa.
      * apply vok_TA in Oa. destruct Oa as (Oa & W & R). inversion Oa; subst.
        destruct (xeval en e2) as [ki' wi' ni| |]; try reflexivity.
        assert (G : forall ni, vok (Ty k' w') (if (0 <=? ni) && (ni <? Z.of_nat (length l)) then TV k' w' (nth (Z.to_nat ni) l 0) else TUndef) = true).
        { intros m. destruct ((0 <=? m) && (m <? Z.of_nat (length l))) eqn:B; [|reflexivity].
          apply andb_true_iff in B. destruct B as [B1 B2]. apply Z.leb_le in B1. apply Z.ltb_lt in B2.
          apply vok_TV. repeat split; auto. rewrite forallb_forall in R. apply R. apply nth_In. lia. }
        destruct ki'; try reflexivity; apply G.
  - (* XSlice *) destruct (tyof e) as [[k w|]|]; try disc.
    destruct (is_vec k && (lo <=? hi)%N && (hi <? w)%N); [|disc]. intros Ht. inversion Ht; subst.
    destruct (xeval en e) as [k' w' z| |]; try reflexivity.
    destruct (is_vec k' && (lo <=? hi)%N && (hi <? w')%N); [|reflexivity].
    apply mk_ok. cbn. apply N.ltb_lt. lia.
  - (* XView *) destruct (tyof e) as [[k w|]|] eqn:Ta; try disc.
    destruct (is_vec k) eqn:Vk; [|disc]. intros Ht. inversion Ht; subst. pose proof (IHe _ eq_refl) as Oa.
    destruct (xeval en e) as [k' w' z| |]; try reflexivity.
    apply vok_TV in Oa. destruct Oa as (Oa & W & _). inversion Oa; subst. rewrite Vk.
    apply mk_ok. pose proof (wf_pos _ _ W Vk). destruct v; cbn; apply N.ltb_lt; assumption.
  - (* XResize *) destruct (tyof e) as [[k w|]|] eqn:Ta; try disc. intros Ht.
    pose proof (IHe _ eq_refl) as Oa.
    assert (K : (k = KU \/ k = KS) /\ (w + z <=? n)%N = true /\ t = Ty k n).
    { destruct k; try discriminate Ht; destruct (w + z <=? n)%N eqn:E; try discriminate Ht; inversion Ht; auto. }
    destruct K as (Kk & E & ->).
    destruct (xeval en e) as [k' w' x| |]; try reflexivity.
    apply vok_TV in Oa. destruct Oa as (Oa & W & _). inversion Oa; subst k' w'.
    assert (Wn : wf_scalar k n = true).
    { apply N.leb_le in E. destruct Kk as [-> | ->]; cbn in *; apply N.ltb_lt in W; apply N.ltb_lt; lia. }
    destruct Kk as [-> | ->]; rewrite E; apply mk_ok; exact Wn.
  - (* XIte *) destruct (bool_ty (tyof e1)); [|disc]. intros Ht.
    destruct (bool_of (xeval en e1)) as [cb|]; [|reflexivity]. cbv zeta.
    destruct (defined (conv (join_opt (tyv (xeval en e2)) (tyv (xeval en e3))) (xeval en e2)) &&
              defined (conv (join_opt (tyv (xeval en e2)) (tyv (xeval en e3))) (xeval en e3))) eqn:D; [|reflexivity].
    apply andb_true_iff in D. destruct D as [D2 D3].
    destruct (conv_defined _ _ D2) as (k2 & w2 & z2 & E2). destruct (conv_defined _ _ D3) as (k3 & w3 & z3 & E3).
    destruct (tyof e2) as [ta|] eqn:Ta; [|discriminate Ht]. destruct (tyof e3) as [tb|] eqn:Tb; [|discriminate Ht].
    pose proof (IHe2 _ eq_refl) as O2. pose proof (IHe3 _ eq_refl) as O3. rewrite E2 in O2. rewrite E3 in O3.
    destruct (vok_scalar_wf _ _ _ _ O2) as [W2 T2]. destruct (vok_scalar_wf _ _ _ _ O3) as [W3 T3].
    rewrite E2, E3, T2, T3. rewrite Ht.
    pose proof (join_opt_wf (Some ta) (Some tb) t Ht W2 W3) as Wt.
    destruct t as [k w|]; [|contradiction]. destruct cb; apply conv_ok; exact Wt.
  - (* XSel *) destruct (tyof e) as [[ks ws|]|]; try disc.
    destruct (negb (kind_eqb ks KInt) && forallb (fun p => in_range ks ws (fst p)) br); [|disc]. intros Ht.
    destruct (xeval en e) as [ks' ws' z| |]; try reflexivity. cbv zeta.
    destruct (negb (kind_eqb ks' KInt) && forallb (fun p => in_range ks' ws' (fst p)) br); [|reflexivity].
    (* the alternatives as one list of expressions *)
    set (es := map snd br ++ match d with Some x => [x] | None => [] end).
    assert (Hst : map (fun p => tyof (snd p)) br ++ match d with Some x => [tyof x] | None => [] end = map tyof es).
    { unfold es. rewrite map_app, map_map. destruct d; reflexivity. }
    assert (Hdy : map snd (map (fun p => (fst p, xeval en (snd p))) br) ++
                  match match d with Some x => Some (xeval en x) | None => None end with Some x => [x] | None => [] end
                  = map (xeval en) es).
    { unfold es. rewrite map_app, !map_map. destruct d; reflexivity. }
    rewrite Hst in Ht. rewrite Hdy.
    assert (HS : Forall sound es).
    { unfold es. apply Forall_app. split.
      - clear -H. induction H; cbn; constructor; auto.
      - destruct d; constructor; auto. }
    destruct (map tyof es) as [|t0 r] eqn:Ets; [discriminate Ht|].
    destruct (map tyv (map (xeval en) es)) as [|d0 dr] eqn:Edy; [reflexivity|].
    destruct (forallb (fun v => defined (conv (join_all d0 dr) v)) (map (xeval en) es)) eqn:D; [|reflexivity].
    destruct (join_all_some _ _ _ Ht) as [N0 Nr].
    assert (HV : forall v, In v (map (xeval en) es) -> exists k w z0, v = TV k w z0).
    { intros v Hv. rewrite forallb_forall in D. apply (conv_defined _ _ (D v Hv)). }
    destruct (alts_types es HS) as [A B]; [rewrite Ets; constructor; assumption|exact HV|].
    rewrite Ets in A, B. rewrite Edy in A. inversion A; subst d0 dr. rewrite Ht.
    inversion B as [|? ? B0 Br]; subst.
    pose proof (join_all_wf _ _ _ Ht B0 Br) as Wt.
    destruct t as [k w|]; [|contradiction].
    destruct (sel_pick z _ _); [apply conv_ok; exact Wt|reflexivity].
  - (* XAny *) destruct l as [|x r]; [disc|].
    match goal with |- (if ?c then _ else _) = _ -> _ => destruct c; [|disc] end. intros Ht. inversion Ht; subst.
    destruct (any_eval _); [apply vok_bool|reflexivity].
  - (* XAll *) destruct l as [|x r]; [disc|].
    match goal with |- (if ?c then _ else _) = _ -> _ => destruct c; [|disc] end. intros Ht. inversion Ht; subst.
    destruct (all_eval _); [apply vok_bool|reflexivity].
  - (* XArr *) destruct l as [|x r]; [disc|]. cbn [map].
    destruct (tyof x) as [[k w|]|] eqn:Tx; try disc.
    destruct (same_all (Ty k w) (map tyof r)) eqn:SA; [|disc]. intros Ht. inversion Ht; subst.
    inversion H as [|? ? Hx Hr]; subst. pose proof (Hx _ Tx) as Ox.
    destruct (xeval en x) as [k' w' z| |]; try reflexivity.
    apply vok_TV in Ox. destruct Ox as (Ox & W & Rz). inversion Ox; subst k' w'.
    assert (G : forall r, Forall sound r -> same_all (Ty k w) (map tyof r) = true ->
                match arr_vals k w (map (xeval en) r) with
                | Some zs => length zs = length r /\ forallb (in_range k w) zs = true
                | None => True end).
    { clear. induction r as [|y r IH]; cbn [map same_all arr_vals]; intros HS SA; [cbn; auto|].
      inversion HS as [|? ? Sy Sr]; subst.
      destruct (tyof y) as [ty|] eqn:Ty'; [|discriminate]. apply andb_true_iff in SA. destruct SA as [E SA].
      apply ty_eqb_ok in E. subst ty. pose proof (Sy _ Ty') as Oy.
      destruct (xeval en y) as [k' w' z| |]; auto.
      destruct (kind_eqb k k' && (w =? w')%N); auto.
      specialize (IH Sr SA). destruct (arr_vals k w (map (xeval en) r)); auto.
      destruct IH as [L F]. apply vok_TV in Oy. destruct Oy as (Oy & _ & Rz). inversion Oy; subst.
      cbn. rewrite L, Rz, F. auto. }
    specialize (G r Hr SA). destruct (arr_vals k w (map (xeval en) r)) as [zs|]; [|reflexivity].
    destruct G as [L F]. unfold vok. cbn [length forallb]. rewrite L, ty_eqb_refl, W, Rz, F. reflexivity.
Qed.
End Sound.

(** ** C02_type_width *)
Theorem type_width : forall e t en, tyof e = Some t -> vok t (xeval en e) = true.
Proof. intros e t en H. exact (tyof_sound en e t H). Qed.

(** the statement is not vacuous: well-typed trees evaluate to proper values *)
Definition ex_env : env := [TV KU 3 5; TV KS 2 (-2); TV KBit 1 1].
Definition ex_tree : texp :=
  XIte (XCmp CLt (XIn 0 (Ty KU 3)) (XConst KInt 0 6))
       (XView VwS (XBin BConcat (XIn 2 (Ty KBit 1)) (XIn 1 (Ty KS 2))))
       (XBin BMul (XIn 1 (Ty KS 2)) (XConst KInt 0 (-2)) ).
Example type_width_nonvacuous :
  tyof ex_tree = Some (Ty KS 4) /\ xeval ex_env ex_tree = TV KS 4 (-2).
Proof. vm_compute. auto. Qed.

(** ** agreement with numeric_std on the operand shapes the backend emits (all widths, all values) *)
Definition rng (k : kind) (w : N) (z : Z) : Prop := wf_scalar k w = true /\ in_range k w z = true.

Lemma rng_U w a : rng KU w a -> 0 <= a < pow2 w.
Proof. intros [_ H]. cbn in H. apply andb_true_iff in H. destruct H as [A B]. apply Z.leb_le in A. apply Z.ltb_lt in B. lia. Qed.

Lemma rng_S w a : rng KS w a -> (0 < w)%N /\ - pow2 (w - 1) <= a < pow2 (w - 1).
Proof. intros [W H]. cbn in *. apply N.ltb_lt in W. apply andb_true_iff in H. destruct H as [A B]. apply Z.leb_le in A. apply Z.ltb_lt in B. lia. Qed.

Lemma sval_in w a : rng KS w a -> sval w (wrap w a) = a.
Proof. intros H. destruct (rng_S _ _ H). apply sval_wrap; assumption. Qed.

Lemma wrap_sval_wrap w z : wrap w (sval w (wrap w z)) = wrap w z.
Proof. apply wrap_sval. apply wrap_range. Qed.

Definition arith_op (op : bop) : option binop :=
  match op with
  | BAdd => Some OAdd | BSub => Some OSub | BMul => Some OMul
  | BTruncDiv => Some ODiv | BMod => Some OMod | BRem => Some ORem
  | _ => None
  end.

(** [+ - *] on two Unsigned or two Signed operands of any widths *)
Theorem arith_agrees_UU op o wa wb a b :
  arith_op op = Some o -> (op = BAdd \/ op = BSub \/ op = BMul) -> rng KU wa a -> rng KU wb b ->
  eval_binop o (scalar_value KU wa a) (scalar_value KU wb b) = Ok (to_value (bin_eval op (TV KU wa a) (TV KU wb b))).
Proof. intros Ho [-> | [-> | ->]] _ _; inversion Ho; subst; reflexivity. Qed.

Theorem arith_agrees_SS op o wa wb a b :
  arith_op op = Some o -> (op = BAdd \/ op = BSub \/ op = BMul) -> rng KS wa a -> rng KS wb b ->
  eval_binop o (scalar_value KS wa a) (scalar_value KS wb b) = Ok (to_value (bin_eval op (TV KS wa a) (TV KS wb b))).
Proof.
  intros Ho Hop Ha Hb. pose proof (sval_in _ _ Ha) as Ea. pose proof (sval_in _ _ Hb) as Eb.
  destruct Hop as [-> | [-> | ->]]; inversion Ho; subst; cbn; rewrite Ea, Eb; unfold mkS, mk, norm; cbn;
    rewrite wrap_sval_wrap; reflexivity.
Qed.

(** truncating division, mod, rem: defined iff the divisor is non-zero, same value and width *)
Theorem divmod_agrees_UU op o wa wb a b :
  arith_op op = Some o -> (op = BTruncDiv \/ op = BMod \/ op = BRem) -> rng KU wa a -> rng KU wb b -> b <> 0 ->
  eval_binop o (scalar_value KU wa a) (scalar_value KU wb b) = Ok (to_value (bin_eval op (TV KU wa a) (TV KU wb b))).
Proof.
  intros Ho Hop Ha Hb Hz. pose proof (rng_U _ _ Ha). pose proof (rng_U _ _ Hb).
  assert (Eb : (b =? 0) = false) by (apply Z.eqb_neq; exact Hz).
  destruct Hop as [-> | [-> | ->]]; inversion Ho; subst; cbn; rewrite Eb; unfold mkU, mk, norm; cbn.
  - rewrite Z.quot_div_nonneg by lia. reflexivity.
  - reflexivity.
  - rewrite Z.rem_mod_nonneg by lia. reflexivity.
Qed.

Theorem divmod_agrees_SS op o wa wb a b :
  arith_op op = Some o -> (op = BTruncDiv \/ op = BMod \/ op = BRem) -> rng KS wa a -> rng KS wb b -> b <> 0 ->
  eval_binop o (scalar_value KS wa a) (scalar_value KS wb b) = Ok (to_value (bin_eval op (TV KS wa a) (TV KS wb b))).
Proof.
  intros Ho Hop Ha Hb Hz. pose proof (sval_in _ _ Ha) as Ea. pose proof (sval_in _ _ Hb) as Eb.
  assert (Ez : (b =? 0) = false) by (apply Z.eqb_neq; exact Hz).
  assert (Ew : (wrap wb b =? 0) = false).
  { apply Z.eqb_neq. intros E. rewrite E in Eb. destruct (rng_S _ _ Hb) as [Wb _].
    unfold sval in Eb. destruct (N.eqb_spec wb 0); [lia|].
    pose proof (pow2_pos (wb - 1)). destruct (Z.ltb_spec 0 (pow2 (wb - 1))); lia. }
  destruct Hop as [-> | [-> | ->]]; inversion Ho; subst; cbn; rewrite Ew, Ez, Ea, Eb; unfold mkS, mk, norm; cbn;
    rewrite wrap_sval_wrap; reflexivity.
Qed.

Theorem div_by_zero_both_undefined op o k wa wb a :
  arith_op op = Some o -> (op = BTruncDiv \/ op = BMod \/ op = BRem) -> (k = KU \/ k = KS) ->
  bin_eval op (TV k wa a) (TV k wb 0) = TUndef /\ eval_binop o (scalar_value k wa a) (scalar_value k wb 0) = Err EDivZero.
Proof.
  intros Ho Hop Hk.
  assert (W0 : wrap wb 0 = 0) by (unfold wrap; apply Z.mod_0_l; pose proof (pow2_pos wb); lia).
  destruct Hk as [-> | ->]; destruct Hop as [-> | [-> | ->]]; inversion Ho; subst; cbn; rewrite ?W0; cbn; auto.
Qed.

Definition cmp_op (op : cop) : binop :=
  match op with CEq => OEq | CNe => ONe | CLt => OLt | CLe => OLe | CGt => OGt | CGe => OGe end.

Lemma cmp_same op x y : cmp_z (cmp_op op) x y = cmp_val op x y.
Proof. destruct op; reflexivity. Qed.

Lemma truthy_zb b : truthy (zb b) = b.
Proof. destruct b; reflexivity. Qed.

Theorem compare_agrees_UU op wa wb a b :
  eval_binop (cmp_op op) (scalar_value KU wa a) (scalar_value KU wb b) = Ok (to_value (cmp_eval op (TV KU wa a) (TV KU wb b))).
Proof. destruct op; cbn; rewrite truthy_zb; reflexivity. Qed.

Theorem compare_agrees_SS op wa wb a b : rng KS wa a -> rng KS wb b ->
  eval_binop (cmp_op op) (scalar_value KS wa a) (scalar_value KS wb b) = Ok (to_value (cmp_eval op (TV KS wa a) (TV KS wb b))).
Proof.
  intros Ha Hb. pose proof (sval_in _ _ Ha) as Ea. pose proof (sval_in _ _ Hb) as Eb.
  destruct op; cbn; rewrite Ea, Eb, truthy_zb; reflexivity.
Qed.

Theorem compare_agrees_U_int op w a n : 0 <= n <= int_max ->
  eval_binop (cmp_op op) (scalar_value KU w a) (VI n) = Ok (to_value (cmp_eval op (TV KU w a) (TV KInt 0 n))).
Proof.
  intros Hn. assert (E : nat_ok n = true) by (unfold nat_ok; apply andb_true_iff; split; apply Z.leb_le; lia).
  destruct op; cbn; rewrite E, truthy_zb; reflexivity.
Qed.

(** the int factor of a product is converted to the width of the vector operand by numeric_std: the documented
    product (wrapped at twice the width) differs as soon as the factor is not representable at that width *)
Theorem mul_int_refuted : exists w a n,
  rng KU w a /\ 0 <= n /\
  eval_binop OMul (scalar_value KU w a) (VI n) <> Ok (to_value (bin_eval BMul (TV KU w a) (TV KInt 0 n))).
Proof. exists 3%N, 1, 9. split; [split; reflexivity|]. split; [lia|]. vm_compute. intros H. discriminate H. Qed.

Theorem mul_int_agrees_partial w a n : rng KU w a -> 0 <= n < pow2 w -> n <= int_max ->
  eval_binop OMul (scalar_value KU w a) (VI n) = Ok (to_value (bin_eval BMul (TV KU w a) (TV KInt 0 n))).
Proof.
  intros Ha Hn Hm. assert (E : nat_ok n = true) by (unfold nat_ok; apply andb_true_iff; split; apply Z.leb_le; lia).
  cbn. rewrite E. unfold mkU, to_u. rewrite (wrap_small w n) by lia. reflexivity.
Qed.

(** unary minus is not defined by numeric_std for unsigned operands; a negative int next to an Unsigned violates
    the NATURAL subtype of the numeric_std operator: both are emitted for expressions with a documented value *)
Theorem neg_unsigned_refuted : forall w a,
  eval_unop UNeg (scalar_value KU w a) = Err ETypeError /\
  (wf_scalar KU w = true -> un_eval NNeg (TV KU w a) = mk KU w (- a)).
Proof. intros w a. split; [reflexivity|]. intros _. reflexivity. Qed.

Theorem negative_int_refuted : forall w a n, n < 0 ->
  eval_binop OAdd (scalar_value KU w a) (VI n) = Err ERange /\ bin_eval BAdd (TV KU w a) (TV KInt 0 n) = mk KU w (a + n).
Proof.
  intros w a n Hn. assert (E : nat_ok n = false) by (unfold nat_ok; apply andb_false_iff; left; apply Z.leb_gt; lia).
  split; [cbn; rewrite E; reflexivity|reflexivity].
Qed.

Theorem neg_abs_agrees_S w a : rng KS w a ->
  eval_unop UNeg (scalar_value KS w a) = Ok (to_value (un_eval NNeg (TV KS w a))) /\
  eval_unop UAbs (scalar_value KS w a) = Ok (to_value (un_eval NAbs (TV KS w a))).
Proof.
  intros Ha. pose proof (sval_in _ _ Ha) as Ea.
  split; cbn; rewrite Ea; unfold mkS, mk, norm; cbn; rewrite wrap_sval_wrap; reflexivity.
Qed.

(** ** structural properties *)
Theorem select_first_match z key v r d :
  sel_pick z ((key, v) :: r) d = (if z =? key then Some v else sel_pick z r d) /\
  (forall pre, Forall (fun p => fst p <> z) pre -> sel_pick z (pre ++ (z, v) :: r) d = Some v) /\
  (forall br, Forall (fun p => fst p <> z) br -> sel_pick z br d = d).
Proof.
  split; [reflexivity|]. split.
  - intros pre H. induction H as [|[k x] l Hk _ IH]; cbn; [rewrite Z.eqb_refl; reflexivity|].
    cbn in Hk. destruct (Z.eqb_spec z k); [congruence|exact IH].
  - intros br H. induction H as [|[k x] l Hk _ IH]; cbn; [reflexivity|].
    cbn in Hk. destruct (Z.eqb_spec z k); [congruence|exact IH].
Qed.

Theorem chained_compare_is_conjunction en a o1 b o2 c :
  xeval en (XChain a [(o1, b); (o2, c)]) =
  match xeval en (XCmp o1 a b), xeval en (XCmp o2 b c) with
  | TV _ _ x, TV _ _ y => TV KBool 1 (zb (truthy x && truthy y))
  | _, _ => TUndef
  end.
Proof.
  cbn [xeval map fst snd chain_eval].
  destruct (cmp_eval o1 (xeval en a) (xeval en b)) as [k w x| |]; try reflexivity.
  destruct (cmp_eval o2 (xeval en b) (xeval en c)) as [k' w' y| |] eqn:E; try reflexivity.
  assert (T : truthy (zb (truthy y && truthy 1)) = truthy y) by (rewrite truthy_zb; cbn; apply andb_true_r).
  unfold cmp_eval in E. destruct (xeval en b), (xeval en c); try discriminate E.
  destruct (cmp_ok _ _ _); [|discriminate E]. inversion E; subst. cbn [chain_eval].
  rewrite T. reflexivity.
Qed.

Lemma concat_range wa wb a b : 0 <= a < pow2 wa -> 0 <= b < pow2 wb -> 0 <= a * pow2 wb + b < pow2 (wa + wb).
Proof. intros Ha Hb. rewrite pow2_add. nia. Qed.

(** the left operand of [@] forms the most significant bits, for every pair of vector kinds *)
Theorem concat_msb_left ka wa a kb wb b :
  is_vec ka = true -> is_vec kb = true -> rng ka wa a -> rng kb wb b ->
  exists z, bin_eval BConcat (TV ka wa a) (TV kb wb b) = TV KBV (wa + wb) z /\
            getslice z wb wa = pat ka wa a /\ getslice z 0 wb = pat kb wb b.
Proof.
  intros Va Vb Ha Hb.
  assert (Pa : 0 <= pat ka wa a < pow2 wa).
  { destruct ka; try discriminate Va; cbn; [apply rng_U; destruct Ha; split; assumption|apply rng_U; exact Ha|apply wrap_range]. }
  assert (Pb : 0 <= pat kb wb b < pow2 wb).
  { destruct kb; try discriminate Vb; cbn; [apply rng_U; destruct Hb; split; assumption|apply rng_U; exact Hb|apply wrap_range]. }
  exists (pat ka wa a * pow2 wb + pat kb wb b).
  assert (E : bin_eval BConcat (TV ka wa a) (TV kb wb b) = TV KBV (wa + wb) (pat ka wa a * pow2 wb + pat kb wb b)).
  { unfold bin_eval. assert (T : bin_ty BConcat (Ty ka wa) (Ty kb wb) = Some (Ty KBV (wa + wb))).
    { cbn. rewrite Va, Vb. reflexivity. }
    rewrite T. cbn [bin_val]. unfold mk. cbn [norm]. rewrite wrap_small by (apply concat_range; assumption). reflexivity. }
  split; [exact E|]. pose proof (pow2_pos wb). unfold getslice. split.
  - rewrite Z.div_add_l by lia. rewrite (Z.div_small (pat kb wb b)) by lia. rewrite Z.add_0_r. apply Z.mod_small; lia.
  - rewrite pow2_0, Z.div_1_r. rewrite Z.add_comm, Z.mod_add by lia. apply Z.mod_small; lia.
Qed.

(** [>>] : Unsigned - the vacated upper bits are zero (the value is divided by 2^n);
          Signed - the sign is kept (the value is divided by 2^n rounding down), which differs from a logical shift *)
Theorem shift_right_kind w a n : 0 <= n ->
  (rng KU w a -> bin_eval BShr (TV KU w a) (TV KInt 0 n) = TV KU w (a / 2 ^ n) /\ 0 <= a / 2 ^ n <= a) /\
  (rng KS w a -> bin_eval BShr (TV KS w a) (TV KInt 0 n) = TV KS w (a / 2 ^ n) /\ (a < 0 <-> a / 2 ^ n < 0)).
Proof.
  intros Hn. assert (P : 0 < 2 ^ n) by (apply Z.pow_pos_nonneg; lia).
  assert (L : (n <? 0) = false) by (apply Z.ltb_ge; lia).
  split; intros Ha.
  - pose proof (rng_U _ _ Ha) as R.
    assert (D : 0 <= a / 2 ^ n <= a).
    { split; [apply Z.div_pos; lia|]. apply Z.div_le_upper_bound; [lia|]. nia. }
    split; [|exact D]. unfold bin_eval. cbn. rewrite L. unfold mk. cbn [norm]. rewrite wrap_small by lia. reflexivity.
  - destruct (rng_S _ _ Ha) as [W R].
    assert (D : - pow2 (w - 1) <= a / 2 ^ n < pow2 (w - 1)).
    { split.
      - apply Z.div_le_lower_bound; [lia|]. pose proof (pow2_pos (w - 1)). nia.
      - apply Z.div_lt_upper_bound; [lia|]. pose proof (pow2_pos (w - 1)). nia. }
    split.
    + unfold bin_eval. cbn. rewrite L. unfold mk. cbn [norm]. rewrite sval_wrap by assumption. reflexivity.
    + split; intros H.
      * apply Z.div_lt_upper_bound; lia.
      * destruct (Z.lt_ge_cases a 0) as [|G]; [assumption|]. pose proof (Z.div_pos a (2 ^ n) G P). lia.
Qed.

Example shift_right_signed_is_not_logical :
  bin_eval BShr (TV KS 3 (-4)) (TV KInt 0 1) = TV KS 3 (-2) /\
  bin_eval BShr (TV KU 3 4) (TV KInt 0 1) = TV KU 3 2 /\
  sval 3 (pat KS 3 (-4) / 2) = 2.
Proof. vm_compute. auto. Qed.

(** ** shifts against numeric_std SHIFT_LEFT / SHIFT_RIGHT (the count is an integer: a Python int, or TO_INTEGER of an
    Unsigned count), and resize against RESIZE *)
Lemma nat_ok_of n : 0 <= n <= int_max -> nat_ok n = true.
Proof. intros H. unfold nat_ok. apply andb_true_iff; split; apply Z.leb_le; lia. Qed.

Lemma shl_wrap w v n : 0 <= n -> wrap w (shl_z w v n) = wrap w (v * 2 ^ n).
Proof.
  intros Hn. unfold shl_z. destruct (Z.leb_spec (Z.of_N w) n) as [H|H]; [|reflexivity].
  unfold wrap, pow2. replace n with ((n - Z.of_N w) + Z.of_N w) at 1 by lia.
  rewrite Z.pow_add_r by lia. rewrite Z.mul_assoc, Z.mod_mul by (apply Z.pow_nonzero; lia). apply Z.mod_0_l.
  apply Z.pow_nonzero; lia.
Qed.

Lemma shr_exact_U w a n : 0 <= a < pow2 w -> 0 <= n -> shr_z w a n = a / 2 ^ n.
Proof.
  intros Ha Hn. unfold shr_z. destruct (Z.leb_spec (Z.of_N w) n) as [H|H]; [|reflexivity].
  assert (P : pow2 w <= 2 ^ n) by (unfold pow2; apply Z.pow_le_mono_r; lia).
  destruct (Z.ltb_spec a 0); [lia|]. symmetry. apply Z.div_small. lia.
Qed.

Lemma shr_exact_S w a n : (0 < w)%N -> - pow2 (w - 1) <= a < pow2 (w - 1) -> 0 <= n -> shr_z w a n = a / 2 ^ n.
Proof.
  intros Hw Ha Hn. unfold shr_z. destruct (Z.leb_spec (Z.of_N w) n) as [H|H]; [|reflexivity].
  assert (P : pow2 (w - 1) <= 2 ^ n) by (unfold pow2; apply Z.pow_le_mono_r; lia).
  assert (Q : 0 < 2 ^ n) by (apply Z.pow_pos_nonneg; lia).
  destruct (Z.ltb_spec a 0) as [L|L].
  - apply Z.div_unique with (r := a + 2 ^ n); lia.
  - symmetry. apply Z.div_small. lia.
Qed.

Theorem shift_agrees_U w a n : rng KU w a -> 0 <= n <= int_max ->
  eval_fn2 FShl (scalar_value KU w a) (VI n) = Ok (to_value (bin_eval BShl (TV KU w a) (TV KInt 0 n))) /\
  eval_fn2 FShr (scalar_value KU w a) (VI n) = Ok (to_value (bin_eval BShr (TV KU w a) (TV KInt 0 n))).
Proof.
  intros Ha Hn. pose proof (rng_U _ _ Ha) as R. pose proof (nat_ok_of _ Hn) as E.
  assert (L : (n <? 0) = false) by (apply Z.ltb_ge; lia).
  split; cbn; rewrite E, L; unfold mkU, mk, norm; cbn.
  - rewrite shl_wrap by lia. reflexivity.
  - rewrite shr_exact_U by (try assumption; lia). reflexivity.
Qed.

Theorem shift_agrees_S w a n : rng KS w a -> 0 <= n <= int_max ->
  eval_fn2 FShl (scalar_value KS w a) (VI n) = Ok (to_value (bin_eval BShl (TV KS w a) (TV KInt 0 n))) /\
  eval_fn2 FShr (scalar_value KS w a) (VI n) = Ok (to_value (bin_eval BShr (TV KS w a) (TV KInt 0 n))).
Proof.
  intros Ha Hn. destruct (rng_S _ _ Ha) as [W R]. pose proof (nat_ok_of _ Hn) as E. pose proof (sval_in _ _ Ha) as Ea.
  assert (L : (n <? 0) = false) by (apply Z.ltb_ge; lia).
  split; cbn; rewrite E, L; unfold mkS, mk, norm; cbn.
  - rewrite shl_wrap by lia. rewrite wrap_mul_l, wrap_sval_wrap. reflexivity.
  - rewrite Ea. rewrite shr_exact_S by (try assumption; lia). rewrite wrap_sval_wrap. reflexivity.
Qed.

(** an Unsigned count reaches the shift function through TO_INTEGER; the documented value only depends on its number *)
Theorem shift_count_unsigned op k w a wc n : (op = BShl \/ op = BShr) -> (k = KU \/ k = KS) -> 0 <= n <= int_max ->
  eval_fn1 FToInteger (scalar_value KU wc n) = Ok (VI n) /\
  bin_eval op (TV k w a) (TV KU wc n) = bin_eval op (TV k w a) (TV KInt 0 n).
Proof.
  intros Ho Hk Hn. split.
  - cbn. destruct (Z.leb_spec n int_max); [reflexivity|lia].
  - destruct Ho as [-> | ->], Hk as [-> | ->]; reflexivity.
Qed.

(** resize(n) (no zero padding): zero extension for Unsigned, sign extension for Signed *)
Theorem resize_agrees k w a n : (k = KU \/ k = KS) -> rng k w a -> (w <= n)%N -> Z.of_N n <= int_max ->
  eval_fn2 FResize (scalar_value k w a) (VI (Z.of_N n)) = Ok (to_value (xeval [] (XResize (XConst k w a) n 0))).
Proof.
  intros Hk Ha Hwn Hn. destruct Ha as [Wf Ra].
  assert (E : nat_ok (Z.of_N n) = true) by (apply nat_ok_of; lia).
  assert (C : (w + 0 <=? n)%N = true) by (apply N.leb_le; lia).
  destruct Hk as [-> | ->]; cbn [xeval]; rewrite Wf, Ra; cbn [andb]; rewrite C.
  - cbn. rewrite E, N2Z.id. unfold mk, norm. cbn. rewrite ?pow2_0, ?Z.mul_1_r. reflexivity.
  - cbn. rewrite E, N2Z.id. unfold mk, norm. cbn. rewrite ?pow2_0, ?Z.mul_1_r.
    assert (Ea : sval w (wrap w a) = a) by (apply sval_in; split; assumption).
    unfold sresize. cbn in Wf. apply N.ltb_lt in Wf.
    destruct (N.eqb_spec n 0); [lia|]. destruct (N.leb_spec w n); [|lia].
    rewrite Ea, wrap_sval_wrap. reflexivity.
Qed.

(** resize(n, zeros=z) of an Unsigned: the emitted text is resize(unsigned(std_logic_vector(a) & "0..0"), n) *)
Theorem resize_zeros_agrees_U w a n z : rng KU w a -> (w + z <= n)%N -> Z.of_N n <= int_max ->
  (do c <- eval_binop OConcat (VV KSlv w a) (VV KSlv z 0); do u <- eval_fn1 FConvUns c; eval_fn2 FResize u (VI (Z.of_N n)))
  = Ok (to_value (xeval [] (XResize (XConst KU w a) n z))).
Proof.
  intros Ha Hwn Hn. destruct Ha as [Wf Ra].
  assert (E : nat_ok (Z.of_N n) = true) by (apply nat_ok_of; lia).
  assert (C : (w + z <=? n)%N = true) by (apply N.leb_le; lia).
  cbn [xeval]. rewrite Wf, Ra. cbn [andb]. rewrite C.
  cbn. rewrite E, N2Z.id. unfold mk, norm. cbn. rewrite Z.add_0_r. reflexivity.
Qed.
