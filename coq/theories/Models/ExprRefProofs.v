(** * ExprRefProofs: lemmas about Models/ExprRef.v (C02) *)
From Coq Require Import ZArith NArith List Bool Lia.
From Cohdl Require Import Base.Bits Vhdl.Value Vhdl.NumStd Models.ExprRef.
