(** * LowerReset: the lowered state machine of [Lower.v] inside a context with a reset (C04).

    What the compiler emits for [std.sequential(std.Clock(clk), std.Reset(rst, ...))] around the
    state machine ([if reset then <defaults>; s_proc <= state_0; else case s_proc is ... end if],
    for an asynchronous reset outside [if rising_edge(clk)]): while the reset is active nothing of
    the machine runs, the state register returns to the first state and every object with a default
    that is not marked noreset takes its default; objects without default / noreset keep their value.

    Configurations are [state; v; cnt; mark; wait counter] as in [Lower.mstepZ]; the reset is the first input;
    observation = outputs before the edge ++ outputs after the edge (the [mid] mode of [Sem.cycle],
    as in ResetRef.with_reset / CoroReset.ref_step_rst). *)
From Coq Require Import ZArith NArith List Bool.
From Cohdl Require Import Base.Bits Vhdl.Value Equiv.RefTS Models.ResetRef Models.Coro Models.CoroReset Models.Lower.
Import ListNotations.
Local Open Scope Z_scope.

Definition zouts (st : list Z) : list value :=
  match st with
  | [_; _; c; k; _] => [VV KUns vw c; VV KUns mw k]
  | _ => []
  end.

(** [rs] = reset declarations of the four objects [v; cnt; mark; wait counter] *)
Definition mstepZ_rst (is_async active_low : bool) (rs : list rdecl) (m : machine) : rstep := fun st inp =>
  match inp with
  | rv :: rest =>
      let active := xorb (match rv with VL b => b | _ => false end) active_low in
      match st with
      | [n; v; c; k; wc] =>
          if active then
            let st' := 0 :: apply_reset rs [v; c; k; wc] in
            (st', Ok ((if is_async then zouts st' else zouts st) ++ zouts st'))
          else
            let '(st', o) := mstepZ m st rest in
            match o with
            | Ok l => (st', Ok (zouts st ++ l))
            | Err e => (st', Err e)
            end
      | _ => (st, Err EFuel)
      end
  | [] => (st, Err ETypeError)
  end.

(** the declarations of the generated coroutine sources: the three objects have the default 0
    (Variable(Null), Port.output(default=Null)) and none is marked noreset.  [rw] is the declaration
    of the wait counter: Waiter._duration_cnt has the default Null (reset to 0), the local signal of
    std.wait_for has no default (keeps its value); programs without wait_for have no counter. *)
Definition rs_with (rw : rdecl) : list rdecl :=
  [{| r_def := 0; r_rst := true |}; {| r_def := 0; r_rst := true |}; {| r_def := 0; r_rst := true |}; rw].
Definition rs_all : list rdecl := rs_with {| r_def := 0; r_rst := true |}.
