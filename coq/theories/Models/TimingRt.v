(** * TimingRt: executable models AS CODED of the std timing utilities that [Models.TimingAll] leaves out
    (cohdl/std/utility.py of the current tree):
      - [std.debounce] for an arbitrary period                       (utility.py:630-658)
      - [continuous_counter] with a RUN-TIME limit (a w-bit signal)    (utility.py:934-969, branch 963-964)
      - [ToggleSignal] with run-time durations                        (utility.py:1004-1016, 1028-1049)
      - [ClockDivider] with a run-time duration                       (utility.py:1093-1103, 1116-1137)
    as reference machines over [list Z] states ([Equiv.RefTS.rstep]).  Every register carries the width the code
    gives it ([Unsigned.upto], cohdl/_core/_unsigned.py:20-27 = [Ring.upto_width]; [max_int] of an unsigned type
    = 2**width - 1, _unsigned.py:82-83) and every [+ 1] / [- 1] wraps at that width ([Unsigned.add] with an int
    keeps [self.width], _unsigned.py:140-152).  [Models.TimingRtProofs] proves for ALL periods / widths / input
    sequences that no wrap ever happens and that the machines coincide with the specification machines of
    [Models.StdSpecs]. *)
From Coq Require Import ZArith NArith List Bool Lia.
From Cohdl Require Import Base.Bits Vhdl.Value Equiv.Explore Equiv.RefTS Models.Ring.
Import ListNotations.
Local Open Scope Z_scope.

(** ** debounce(ctx, inp, period, initial)   (utility.py:630-658)
<<
    assert period >= 1
    result  = Signal[Bit](initial)
    counter = Signal[Unsigned.upto(period)](period // 2)
    @ctx
    def proc_debounce():
        if inp:
            if counter == period: result.next = True
            else:                 counter.next = counter + 1
        else:
            if counter == 0:      result.next = False
            else:                 counter.next = counter - 1
    return result
>>
    state [counter; result], input [inp], output [result] (observed after the clock).
    [counter + 1] / [counter - 1] are [Unsigned[upto_width period]] operations: they wrap at that width. *)
Definition dbm_width (period : Z) : BinNums.N := upto_width period.

Definition dbm_step (period : Z) : rstep := fun st inp =>
  match st, inp with
  | [cnt; out], [i] =>
      let w := dbm_width period in
      let '(cnt', out') :=
        if vbit i then
          (if cnt =? period then (cnt, 1) else (wrap w (cnt + 1), out))
        else
          (if cnt =? 0 then (cnt, 0) else (wrap w (cnt - 1), out)) in
      ([cnt'; out'], Ok [obit (out' =? 1)])
  | _, _ => (st, Err ETypeError)
  end.

(** [Signal[Unsigned.upto(period)](period // 2)], [Signal[Bit](initial)] *)
Definition dbm_init (period : Z) (initial : bool) : list Z :=
  [wrap (dbm_width period) (period / 2); zb initial].

(** ** continuous_counter(ctx, limit) with [limit] a signal of type [Unsigned[w]]  (utility.py:934-969)
<<
    if max_int(limit) == 0: ...                      # impossible: max_int = 2**w - 1 >= 1
    counter = Signal[Unsigned.upto(max_int(limit))](0)
    @ctx
    def proc():
        next_value = 0 if counter >= limit else (counter + 1)      # is_qualified(limit), line 964
        counter <<= next_value
        on_change(next_value)
    return counter
>>
    state [counter], input [limit], output [counter] (after the clock) with the width of the counter type *)
Definition ccrt_width (w : BinNums.N) : BinNums.N := upto_width (pow2 w - 1).

(** the next counter value for a counter register of width [cw] *)
Definition ccrt_next (cw : BinNums.N) (limit c : Z) : Z :=
  if limit <=? c then 0 else wrap cw (c + 1).

Definition ccrt_step (w : BinNums.N) : rstep := fun st inp =>
  match st, inp with
  | [c], [l] =>
      let cw := ccrt_width w in
      let c' := ccrt_next cw (vnum l) c in
      ([c'], Ok [ouns cw c'])
  | _, _ => (st, Err ETypeError)
  end.

(** ** ToggleSignal(ctx, first, second, default_state, first_state) with [first : Unsigned[wf]],
    [second : Unsigned[ws]] signals  (utility.py:1004-1016: the counter end is a concurrent signal)
<<
    max_counter_end = max_int(cnt_first) + max_int(cnt_second) - 1
    CounterType = Unsigned.upto(max_counter_end)
    counter_end = Signal[CounterType]()
    @concurrent_context
    def logic():
        sum = Value[CounterType](cnt_first) + Value[CounterType](cnt_second)
        counter_end.next = sum - 1
>>
    then (1028-1049) [continuous_counter(ctx.or_reset(_reset_counter), counter_end, on_change=change_handler)]
    with [change_handler] as in [TimingAll.togglem_step] ([next_state = next_cnt < cnt_first], negated unless
    [first_state]).  [_reset_counter] stays at its initial value False (require_enable = False and the wrapper
    of harness/c16.py never calls enable/disable), so the reset branch is never taken and is not modelled.
    state [counter; _state; _rising; _falling], inputs [first; second], outputs [state; rising; falling] *)
Definition tgrt_end_width (wf ws : BinNums.N) : BinNums.N :=
  upto_width ((pow2 wf - 1) + (pow2 ws - 1) - 1).

(** the value of the concurrent signal [counter_end] (both operands cast to [CounterType], sum and
    difference wrap at its width) *)
Definition tgrt_end (wf ws : BinNums.N) (f g : Z) : Z :=
  let k := tgrt_end_width wf ws in
  wrap k (wrap k (wrap k f + wrap k g) - 1).

Definition togglert_step (wf ws : BinNums.N) (default_state first_state : bool) : rstep := fun st inp =>
  match st, inp with
  | [c; s; ri; fa], [f; g] =>
      let k := tgrt_end_width wf ws in
      let counter_end := tgrt_end wf ws (vnum f) (vnum g) in
      (* counter type Unsigned.upto(max_int(counter_end)) = Unsigned.upto(2**k - 1) *)
      let next_cnt := ccrt_next (ccrt_width k) counter_end c in
      let lt := next_cnt <? vnum f in
      let next_state := if first_state then lt else negb lt in
      let sb := (s =? 1) in
      let rising := negb sb && next_state in
      let falling := sb && negb next_state in
      ([next_cnt; zb next_state; zb rising; zb falling],
       Ok [obit next_state; obit rising; obit falling])
  | _, _ => (st, Err ETypeError)
  end.

Definition togglert_init (default_state : bool) : list Z := [0; zb default_state; 0; 0].

(** ** ClockDivider(ctx, duration, default_state) with [duration : Unsigned[w]] a signal (utility.py:1093-1103)
<<
    max_counter_end = max_int(cnt_duration) - 1
    CounterType = Unsigned.upto(max_counter_end)
    counter_end = Signal[CounterType]()
    @concurrent_context
    def logic():
        counter_end.next = cnt_duration - 1          # Unsigned[w] - 1, assigned to CounterType
>>
    then (1116-1137) [continuous_counter(ctx.or_reset(_reset_counter), counter_end, on_change=change_handler,
    start_at_limit=tick_at_start)]; [tick_at_start] must be False for a run-time limit (assert, line 949);
    [next_state = (not default_state) if next_cnt == 0 else default_state].  [_reset_counter] as above.
    state [counter; _state; _rising; _falling], input [duration], outputs [state; rising]
    (the wrapper DIVIDER_RT of harness/c16.py exposes these two) *)
Definition dvrt_end_width (w : BinNums.N) : BinNums.N := upto_width (pow2 w - 1 - 1).

Definition dvrt_end (w : BinNums.N) (p : Z) : Z := wrap (dvrt_end_width w) (wrap w (p - 1)).

Definition dividerrt_step (w : BinNums.N) (default_state : bool) : rstep := fun st inp =>
  match st, inp with
  | [c; s; ri; fa], [p] =>
      let k := dvrt_end_width w in
      let counter_end := dvrt_end w (vnum p) in
      let next_cnt := ccrt_next (ccrt_width k) counter_end c in
      let next_state := if next_cnt =? 0 then negb default_state else default_state in
      let sb := (s =? 1) in
      let rising := negb sb && next_state in
      let falling := sb && negb next_state in
      ([next_cnt; zb next_state; zb rising; zb falling],
       Ok [obit next_state; obit rising])
  | _, _ => (st, Err ETypeError)
  end.

Definition dividerrt_init (default_state : bool) : list Z := [0; zb default_state; 0; 0].
