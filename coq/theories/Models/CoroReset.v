(** * Coroutine reference semantics with a reset input (C04): while the reset is active the
    coroutine is back at its first state and every object takes its default; nothing executes. *)
From Coq Require Import ZArith NArith List Bool.
From Cohdl Require Import Base.Bits Vhdl.Value Models.Coro.
Import ListNotations.
Local Open Scope Z_scope.

Definition couts (st : rstate) : list value := [VV KUns vw st.(r_cnt); VV KUns mw st.(r_mark)].

Definition ref_step_rst (is_async active_low : bool) (prog : stmt)
  : rstate -> list value -> rstate * res (list value) := fun st inp =>
  match inp with
  | rv :: rest =>
      let active := xorb (match rv with VL b => b | _ => false end) active_low in
      if active then (rinit, Ok ((if is_async then couts rinit else couts st) ++ couts rinit))
      else
        let '(st', o) := ref_step prog st rest in
        match o with
        | Ok l => (st', Ok (couts st ++ l))
        | Err e => (st', Err e)
        end
  | [] => (st, Err ETypeError)
  end.
