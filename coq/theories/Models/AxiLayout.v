(** * AxiLayout: the register-map address computation, decode and write masking of
      cohdl.std.reg / Axi4Light.connect_addr_map, AS CODED, for ALL layout trees (property C20).

    Anchors (current /repo tree):
    - std/reg/reg.py
        RegisterObject._template_specialize_ (l.248-252)  member offset % word_stride == 0
        RegisterObject.__init__ (l.254-260)   global = parent global + parent offset
        RegisterObject._flatten_ (l.278-299)  sorted by global word offset, neighbours disjoint
        RegisterObject._contains_addr_ (l.311-320)  power-of-two aligned: compare the upper address bits, else range compare
        RegFile.__init__ (l.353-392)          members created with parent=self; "outside the range of its parent"
        RegFile._impl_flatten (l.413-424)     members in declaration order
        RegFile.__init_subclass__ (l.436-489) pairwise member overlap check (declaration order)
        Register.__init_subclass__ (l.1225-1273)  fields sorted by offset, increasing, inside the word
        Register._basic_write_ (l.1161-1196)  merged = mask.apply(to_bits, data); Mem*Field <<= slice of merged
        Register._to_bits_ (l.1136-1146)      concat of the fields, padding reads zero
        MemWord._on_write_ (l.576-578), Word (no _on_write_)
        Array.__init_subclass__/__init__ (l.1387-1424)  word_count = (end-offset)//stride; elements array_type[k], k in range(0, end-offset, step), parent = the array
        Array._impl_flatten (l.1381-1385)     the elements themselves (NOT flattened further)
    - std/axi/axi4_light/base.py connect_addr_map (l.264-319): regs = addr_map._flatten_(); first register (in that order)
        whose _contains_addr_ holds is accessed, then break; mask = stretch(strb, 8)
    - std/_core_utility.py stretch (l.689-702), apply_mask (l.794-796)

    reg32 = RegisterTools[32, 8]: word width 32, address unit 8 bits, word stride 4.

    Not modelled: FlagField / FlagOnNotify, Input / Output (need signals of an entity), Memory internals,
    readonly / writeonly filters (every modelled kind is readable and writable), user _on_write_/_on_read_ overrides,
    negative word counts.  An Array whose element type is not a single register is outside what
    connect_addr_map supports (Array._impl_flatten hands out the element objects unflattened and
    RegFile._basic_read_/_basic_write_ raise): [accepted] demands leaf elements, [flat] below is what a recursive
    flatten would give. *)
From Coq Require Import ZArith List Bool Lia.
From Cohdl Require Import Models.AxiSpec.
Import ListNotations.
Local Open Scope Z_scope.

(** ** layout trees *)

Inductive fkind := KField | KUField | KSField | KMemField | KMemUField | KMemSField.

Record field := mkField { f_kind : fkind; f_off : Z; f_width : Z }.

(** Word/UWord/SWord | MemWord/MemUWord/MemSWord | a Register subclass with its fields (declaration order) |
    an AddrRange without handlers *)
Inductive rkind := RWord | RMemWord | RRegister (fs : list field) | RRange.

(** [Leaf wc k]: a register object of [wc] words (1 for everything but RRange);
    [File wc ms]: RegFile with word_count [wc] ([None] = AddrMap without word_count, reg.py l.74-95 _Infinite)
                  and members (parent offset, member) in declaration order;
    [Arr stop step e]: Array[e, o : o+stop : step]  (its own parent offset [o] is stored by the enclosing File) *)
Inductive node :=
| Leaf (wc : Z) (k : rkind)
| File (wc : option Z) (ms : list (Z * node))
| Arr (stop step : Z) (e : node).

Definition stride : Z := 4.

(** _word_count_ / _unit_count_ (reg.py l.301-304, l.452, l.1395-1397: Python // is floor division = Z.div) *)
Definition wcount (n : node) : option Z :=
  match n with
  | Leaf wc _ => Some wc
  | File wc _ => wc
  | Arr stop _ _ => Some (stop / stride)
  end.

Definition ucount (n : node) : option Z := option_map (Z.mul stride) (wcount n).

(** range(0, stop, step) (reg.py l.1413); step = 0 raises and is rejected by [local_ok] *)
Definition acount (stop step : Z) : nat :=
  if 0 <? step then (if 0 <? stop then Z.to_nat ((stop + step - 1) / step) else O)
  else if step <? 0 then (if stop <? 0 then Z.to_nat ((stop + step + 1) / step) else O)
  else O.

Definition arange (stop step : Z) : list Z := map (fun i => Z.of_nat i * step) (seq 0 (acount stop step)).

(** ** flattening: absolute offsets *)

Record obj := mkObj { o_off : Z; o_wc : Z; o_kind : rkind }.

(** RegisterObject.__init__ / RegFile.__init__ / Array.__init__ + _impl_flatten: traversal order *)
Fixpoint flat (base : Z) (n : node) : list obj :=
  match n with
  | Leaf wc k => [mkObj base wc k]
  | File _ ms => flat_map (fun m => flat (base + fst m) (snd m)) ms
  | Arr stop step e => flat_map (fun k => flat (base + k) e) (arange stop step)
  end.

(** absolute byte offset of every register, traversal order *)
Definition abs_offsets (root : node) : list Z := map o_off (flat 0 root).

(** stable insertion sort by an integer key (Python sorted(key=...)) *)
Section Sort.
  Context {A : Type} (key : A -> Z).
  Fixpoint insert_by (x : A) (l : list A) : list A :=
    match l with
    | [] => [x]
    | y :: r => if key x <? key y then x :: y :: r else y :: insert_by x r
    end.
  Fixpoint isort_by (l : list A) : list A :=
    match l with
    | [] => []
    | x :: r => insert_by x (isort_by r)
    end.
End Sort.

(** _global_word_offset_ (reg.py l.240-246) *)
Definition wo (o : obj) : Z := o_off o / stride.

(** regs = addr_map._flatten_() : the order in which connect_addr_map tests the registers *)
Definition regs (root : node) : list obj := isort_by wo (flat 0 root).

(** the neighbour check of _flatten_ (reg.py l.291-297) *)
Fixpoint flat_ok (l : list obj) : bool :=
  match l with
  | a :: r => match r with
              | b :: _ => (wo a <? wo b) && (wo a + o_wc a <=? wo b) && flat_ok r
              | [] => true
              end
  | [] => true
  end.

(** ** what the code checks locally *)

Definition is_mem (k : fkind) : bool :=
  match k with KMemField | KMemUField | KMemSField => true | _ => false end.

(** Register.__init_subclass__ l.1247-1268: fields sorted by offset; each starts at or after the end of the
    previous one and ends inside the word *)
Fixpoint layout_ok (offset : Z) (fs : list field) : bool :=
  match fs with
  | [] => true
  | f :: r => (offset <=? f_off f) && (f_off f + f_width f <=? 32) && layout_ok (f_off f + f_width f) r
  end.

Definition sorted_fields (fs : list field) : list field := isort_by f_off fs.

(** _FieldArg (l.681-758): width >= 1 *)
Definition fields_ok (fs : list field) : bool :=
  forallb (fun f => 1 <=? f_width f) fs && layout_ok 0 (sorted_fields fs).

Definition kind_ok (k : rkind) : bool :=
  match k with RRegister fs => fields_ok fs | _ => true end.

(** RegFile.__init_subclass__ l.474-484 on (offset, unit count) pairs in declaration order: a later member must
    not start below an earlier one (the else branch dereferences the member NAME and raises AttributeError) and
    must start at or after its end *)
Fixpoint members_ok (ms : list (Z * Z)) : bool :=
  match ms with
  | [] => true
  | (o, u) :: r => forallb (fun m => (o <=? fst m) && (o + u <=? fst m)) r && members_ok r
  end.

Definition is_some {A} (x : option A) : bool := match x with Some _ => true | None => false end.
Definition oget (x : option Z) : Z := match x with Some z => z | None => 0 end.

(** member unit count + parent offset <= unit size of the file (l.384-386); _Infinite passes *)
Definition inside (size : option Z) (off uc : Z) : bool :=
  match size with None => true | Some s => off + uc <=? s end.

Definition is_leaf (n : node) : bool := match n with Leaf _ _ => true | _ => false end.

Fixpoint local_ok (n : node) : bool :=
  match n with
  | Leaf wc k => kind_ok k
  | File wc ms =>
      members_ok (map (fun m => (fst m, oget (ucount (snd m)))) ms)
      && forallb (fun m => (fst m mod stride =? 0) && is_some (wcount (snd m))
                           && inside (option_map (Z.mul stride) wc) (fst m) (oget (ucount (snd m)))
                           && local_ok (snd m)) ms
  | Arr stop step e =>
      negb (step =? 0) && is_leaf e && forallb (fun k => k mod stride =? 0) (arange stop step) && local_ok e
  end.

(** the register map is built and connected without an exception *)
Definition accepted (root : node) : bool :=
  match root with File _ _ => local_ok root && flat_ok (regs root) | _ => false end.

(** ** decode (connect_addr_map + _contains_addr_) *)

Definition is_pow2 (z : Z) : bool := (0 <? z) && (Z.land z (z - 1) =? 0).

(** l.311-320; [addr.msb(rest=log2 uc)] of an unsigned address = addr / uc *)
Definition contains (o : obj) (a : Z) : bool :=
  let uc := o_wc o * stride in
  if is_pow2 uc && (o_off o mod uc =? 0) then a / uc =? o_off o / uc
  else (o_off o <=? a) && (a <? o_off o + uc).

Fixpoint first_hit (l : list obj) (a : Z) (k : nat) : option nat :=
  match l with
  | [] => None
  | o :: r => if contains o a then Some k else first_hit r a (S k)
  end.

(** index (in [regs root]) of the register an access to byte address [a] selects; None = nothing selected *)
Definition decode (root : node) (a : Z) : option nat := first_hit (regs root) a O.

(** ** write path *)

(** apply_mask (std/_core_utility.py l.794-796) on unsigned words *)
Definition apply_mask (old new mask : Z) : Z := Z.lor (Z.ldiff old mask) (Z.land new mask).

(** stretch(strb, 8) = AxiSpec.byte_mask *)
Definition merged_word (old data strb : Z) : Z := apply_mask old data (byte_mask strb).

(** the bits [off+width-1 : off] of x, in place *)
Definition field_bits (f : field) (x : Z) : Z :=
  Z.shiftl (Z.land (Z.shiftr x (f_off f)) (Z.ones (f_width f))) (f_off f).

(** the register word (_to_bits_) after _basic_write_ with the default _on_write_: memory fields take their
    slice of [merged], the other fields keep their value, padding reads zero *)
Definition reg_write (k : rkind) (old merged : Z) : Z :=
  match k with
  | RWord | RRange => old
  | RMemWord => merged
  | RRegister fs =>
      fold_right (fun f acc => Z.lor (field_bits f (if is_mem (f_kind f) then merged else old)) acc) 0 (sorted_fields fs)
  end.

Definition bus_write (k : rkind) (old data strb : Z) : Z := reg_write k old (merged_word old data strb).

(** ** derived: software-writable bits of a register (the [wmasks] parameter of AxiSpec.axi_monitor_x) *)
Definition fmask (f : field) : Z := Z.shiftl (Z.ones (f_width f)) (f_off f).

Definition wmask (k : rkind) : Z :=
  match k with
  | RWord | RRange => 0
  | RMemWord => all32
  | RRegister fs => fold_right (fun f acc => if is_mem (f_kind f) then Z.lor (fmask f) acc else acc) 0 fs
  end.

(** all bits covered by a field (the others read zero) *)
Definition rmask (k : rkind) : Z :=
  match k with
  | RRegister fs => fold_right (fun f acc => Z.lor (fmask f) acc) 0 fs
  | _ => all32
  end.

(** the parameters of the monitor for a layout *)
Definition offsets_of (root : node) : list Z := map o_off (regs root).
Definition wmasks_of (root : node) : list Z := map (fun o => wmask (o_kind o)) (regs root).

(** whole map after a bus write (one word of state per register, in [regs] order) *)
Definition map_write (root : node) (st : list Z) (a data strb : Z) : list Z :=
  match decode root a with
  | Some k => set_nthz st k (bus_write (o_kind (nth k (regs root) (mkObj 0 0 RWord))) (nth k st 0) data strb)
  | None => st
  end.

(** ** paths (specification side of "nesting composes") *)

(** a path = member index in a File / element index in an Arr *)
Fixpoint resolve (n : node) (p : list nat) : option (Z * Z * rkind) :=
  match n, p with
  | Leaf wc k, [] => Some (0, wc, k)
  | File _ ms, i :: q =>
      match nth_error ms i with
      | Some m => match resolve (snd m) q with
                  | Some (z, wc, k) => Some (fst m + z, wc, k)
                  | None => None
                  end
      | None => None
      end
  | Arr stop step e, i :: q =>
      if (i <? acount stop step)%nat then
        match resolve e q with
        | Some (z, wc, k) => Some (Z.of_nat i * step + z, wc, k)
        | None => None
        end
      else None
  | _, _ => None
  end.

(** all leaf paths in traversal order *)
Fixpoint paths (n : node) : list (list nat) :=
  match n with
  | Leaf _ _ => [[]]
  | File _ ms =>
      (fix go (ms : list (Z * node)) (i : nat) : list (list nat) :=
         match ms with
         | [] => []
         | m :: r => map (cons i) (paths (snd m)) ++ go r (S i)
         end) ms O
  | Arr stop step e => flat_map (fun i => map (cons i) (paths e)) (seq 0 (acount stop step))
  end.

(** ** test terms *)
Definition ex_freg : rkind :=
  RRegister [mkField KMemField 0 8; mkField KMemUField 8 4; mkField KUField 16 2; mkField KField 24 1].
Definition ex_root : node :=
  File (Some 16)
    [(0, Leaf 1 RMemWord);
     (8, File (Some 4) [(0, Arr 8 4 (Leaf 1 RMemWord)); (12, Leaf 1 ex_freg)]);
     (32, Arr 16 8 (Leaf 1 ex_freg))].

(** ** tie support: the model against what the real code recorded (harness/c20_layout.py) *)
Definition onat_eqb (x y : option nat) : bool :=
  match x, y with Some a, Some b => Nat.eqb a b | None, None => true | _, _ => false end.

Fixpoint zl_eq (a b : list Z) : bool :=
  match a, b with
  | [], [] => true
  | x :: r, y :: s => (x =? y) && zl_eq r s
  | _, _ => false
  end.

Record tcase := mkCase {
  t_tree : node;
  t_ok : bool;                                          (* built and connected without an exception *)
  t_flat_off : list Z; t_flat_wc : list Z;              (* addr_map._flatten_(): global offsets / word counts *)
  t_leaf_off : list Z;                                  (* _global_offset_ of every leaf, traversal order *)
  t_state0 : list Z;                                    (* register words before the first write *)
  t_writes : list (Z * Z * Z * option nat * list Z);    (* addr, data, strb, register written, words afterwards *)
  t_final : list Z;
  t_reads : list (Z * option nat * Z) }.                (* addr, register read, data returned *)

Fixpoint run_writes (root : node) (st : list Z) (ws : list (Z * Z * Z * option nat * list Z)) : bool :=
  match ws with
  | [] => true
  | (a, d, s, hit, st') :: r =>
      onat_eqb (decode root a) hit && zl_eq (map_write root st a d s) st' && run_writes root st' r
  end.

Definition read_ok (root : node) (st : list Z) (rd : Z * option nat * Z) : bool :=
  let '(a, hit, data) := rd in
  onat_eqb (decode root a) hit && (data =? match decode root a with Some k => nth k st 0 | None => 0 end).

Definition check_case (c : tcase) : bool :=
  if t_ok c then
    accepted (t_tree c)
    && zl_eq (offsets_of (t_tree c)) (t_flat_off c) && zl_eq (map o_wc (regs (t_tree c))) (t_flat_wc c)
    && zl_eq (abs_offsets (t_tree c)) (t_leaf_off c)
    && run_writes (t_tree c) (t_state0 c) (t_writes c)
    && forallb (read_ok (t_tree c) (t_final c)) (t_reads c)
  else negb (accepted (t_tree c)).

(** cross-check of the parameters harness/c20.py hands to AxiSpec.axi_monitor_x *)
Definition check_params (root : node) (offsets wmasks : list Z) : bool :=
  accepted root && zl_eq (offsets_of root) offsets && zl_eq (wmasks_of root) wmasks
  && forallb (fun o => o_wc o =? 1) (regs root).
