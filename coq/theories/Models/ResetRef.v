(** * ResetRef: a context with a reset (C04), as a wrapper around any reference machine.

    Whenever the reset is active (at the active clock edge for a synchronous reset, at once for
    an asynchronous one, either polarity) every object listed as resettable takes its default,
    every other object keeps its value, and nothing else of the context executes; when it is
    not active the context steps normally.  Observation = outputs before the edge ++ outputs
    after the edge (the [mid] mode of [Sem.cycle]), so an asynchronous reset is visible as soon
    as the inputs have settled. *)
From Coq Require Import ZArith NArith List Bool.
From Cohdl Require Import Base.Bits Vhdl.Value Equiv.RefTS.
Import ListNotations.
Local Open Scope Z_scope.

Record rdecl := { r_def : Z; r_rst : bool }.

Fixpoint apply_reset (rs : list rdecl) (st : list Z) : list Z :=
  match rs, st with
  | r :: rs', v :: st' => (if r.(r_rst) then r.(r_def) else v) :: apply_reset rs' st'
  | _, _ => st
  end.

Definition out_of (o : res (list value)) : list value := match o with Ok l => l | Err _ => [] end.
Definition is_err (o : res (list value)) : option err := match o with Ok _ => None | Err e => Some e end.

(** [outs st] = the observable outputs in state [st]; [inner] = the context without reset
    (its inputs do not include the reset, which is the first input of the wrapped machine) *)
Definition with_reset (is_async active_low : bool) (rs : list rdecl)
           (outs : list Z -> list value) (inner : rstep) : rstep := fun st inp =>
  match inp with
  | rv :: rest =>
      let active := xorb (vbit rv) active_low in
      if active then
        let st' := apply_reset rs st in
        (st', Ok ((if is_async then outs st' else outs st) ++ outs st'))
      else
        let '(st', o) := inner st rest in
        match o with
        | Ok l => (st', Ok (outs st ++ l))
        | Err e => (st', Err e)
        end
  | [] => (st, Err ETypeError)
  end.

(** a context with a step condition (input number [k] of the inner machine): in a step in which
    the condition is false nothing of the context executes (pushed signals keep their value too:
    the per-step defaults belong to an executed step) *)
Definition with_stepcond (k : nat) (outs : list Z -> list value) (inner : rstep) : rstep := fun st inp =>
  if vnum (nth k inp (VL false)) =? 0 then (st, Ok (outs st)) else inner st inp.
