(** C10 - models of the compile-time Python subset: argument binding, binary operator
    dispatch, boolean operators.

    Anchors (pinned /repo):
      cohdl/_core/_collect_ast_and_scope.py  FunctionDefinition.bind_args   (l.520-606)
      cohdl/_compiler/frontend/_prepare_ast.py  ast.Call handler: the keyword arguments, `**`
            expansions flattened, are collected in ONE python dict in source order, with
            `assert name not in kwarg_expr` before every insertion (fix bf02a0d)
      cohdl/_compiler/frontend/_prepare_ast.py  ast.BinOp overloaded_operator, ast.Compare
            evaluate (both as of fix b791a08), ast.BoolOp, ast.Not

    Everything is a small total function over N / list / option; stdlib only. *)
From Coq Require Import NArith List Bool.
Import ListNotations.

(* ------------------------------------------------------------------------- *)
(** * Bind: signatures, calls, bindings *)

Definition name := N.
Definition value := N.

(** a parameter: its name and its default value, if it has one *)
Definition param := (name * option value)%type.

Record sig := mkSig {
  s_posonly : list param;        (* before `/` *)
  s_args    : list param;        (* positional-or-keyword *)
  s_vararg  : option name;       (* *name *)
  s_kwonly  : list param;        (* after `*` / `*name` *)
  s_kwarg   : option name;       (* **name *)
  s_self    : option value       (* FunctionDefinition._self_arg (bound method / callable object) *)
}.

(** a call: positional argument values and keyword arguments in source order,
    `*seq` and `**dict` already expanded in place *)
Record call := mkCall {
  c_pos : list value;
  c_kws : list (name * value)
}.

Inductive bval :=
| BVal (v : value)
| BTuple (l : list value)
| BDict (l : list (name * value)).

(** a binding: parameter name -> bound object, listed in the order of CPython's
    co_varnames: posonly, positional-or-keyword, kwonly, *vararg, **kwarg.
    (bind_args writes into a name-keyed dict that capture() has populated before,
    so the order in which it stores is not observable - except for the "first stored
    value", which is the object zero-argument super() uses; see [tracer_super_arg].) *)
Definition binding := list (name * bval).

Definition opt_list {A} (o : option A) : list A := match o with Some x => [x] | None => [] end.

Definition sig_names (s : sig) : list name :=
  map fst (s_posonly s) ++ map fst (s_args s) ++ map fst (s_kwonly s)
  ++ opt_list (s_vararg s) ++ opt_list (s_kwarg s).

(** what the Python grammar guarantees for every `def`: parameter names are distinct *)
Definition wf_sig (s : sig) : Prop := NoDup (sig_names s).

Definition has_kwarg (s : sig) : bool := match s_kwarg s with Some _ => true | None => false end.

Definition with_self (s : sig) (pos : list value) : list value :=
  match s_self s with Some v => v :: pos | None => pos end.

(* -- association lists = python dicts keyed by str ------------------------- *)

Fixpoint kwlookup (k : name) (kw : list (name * value)) : option value :=
  match kw with
  | [] => None
  | (k', v) :: r => if N.eqb k' k then Some v else kwlookup k r
  end.

Definition kwmem (k : name) (kw : list (name * value)) : bool :=
  match kwlookup k kw with Some _ => true | None => false end.

Definition nmem (k : name) (l : list name) : bool := existsb (N.eqb k) l.

(** `del d[k]` *)
Definition kwdel (k : name) (kw : list (name * value)) : list (name * value) :=
  filter (fun p => negb (N.eqb (fst p) k)) kw.

(** the ast.Call handler: `for kwarg in inp.keywords: ... assert name not in kwarg_expr;
    kwarg_expr[name] = ...` - [None] = the assertion fires *)
Fixpoint build_kw_acc (kws d : list (name * value)) : option (list (name * value)) :=
  match kws with
  | [] => Some d
  | (k, v) :: r => if kwmem k d then None else build_kw_acc r (d ++ [(k, v)])
  end.

Definition build_kw (kws : list (name * value)) : option (list (name * value)) := build_kw_acc kws [].

Fixpoint has_dup (l : list name) : bool :=
  match l with
  | [] => false
  | x :: r => nmem x r || has_dup r
  end.

Fixpoint mapM {A B} (f : A -> option B) (l : list A) : option (list B) :=
  match l with
  | [] => Some []
  | x :: r => match f x with
              | None => None
              | Some y => match mapM f r with None => None | Some ys => Some (y :: ys) end
              end
  end.

(* ------------------------------------------------------------------------- *)
(** * cpython_bind: the rule of the language reference (6.3.4 Calls)

    "a list of unfilled slots is created for the formal parameters.  If there are N
    positional arguments, they are placed in the first N slots.  Next, for each keyword
    argument, the identifier is used to determine the corresponding slot.  If the slot
    is already filled, a TypeError exception is raised.  Otherwise, the argument is
    placed in the slot.  When all arguments have been processed, the slots that are
    still unfilled are filled with the corresponding default value.  If there are any
    unfilled slots for which no default value is specified, a TypeError is raised.
    [...] more positional arguments than formal parameter slots: TypeError unless
    *identifier is present [...] keyword argument that does not correspond to a formal
    parameter name: TypeError unless **identifier is present" - positional-only
    parameters have no keyword-addressable slot, keyword-only parameters have no
    positional slot; the same keyword given twice is a TypeError at the call site. *)

(** a slot: the parameter and what has been placed in it *)
Definition slot := (param * option value)%type.
Definition slot_name (s : slot) : name := fst (fst s).

(** place the positional arguments in the first slots; returns the excess arguments *)
Fixpoint fill_pos (ps : list param) (pos : list value) : list slot * list value :=
  match ps with
  | [] => ([], pos)
  | p :: ps' =>
      match pos with
      | [] => let '(sl, ex) := fill_pos ps' [] in ((p, None) :: sl, ex)
      | v :: pos' => let '(sl, ex) := fill_pos ps' pos' in ((p, Some v) :: sl, ex)
      end
  end.

Inductive place_res := PNoSlot | PFilled | POk (sl : list slot).

Fixpoint place (k : name) (v : value) (sl : list slot) : place_res :=
  match sl with
  | [] => PNoSlot
  | (p, f) :: r =>
      if N.eqb (fst p) k then
        match f with Some _ => PFilled | None => POk ((p, Some v) :: r) end
      else match place k v r with
           | POk r' => POk ((p, f) :: r')
           | x => x
           end
  end.

(** process the keyword arguments in order over the keyword-addressable slots;
    returns the slots and the excess keywords (in call order) *)
Fixpoint place_all (hk : bool) (kws : list (name * value)) (sl : list slot)
  : option (list slot * list (name * value)) :=
  match kws with
  | [] => Some (sl, [])
  | (k, v) :: r =>
      match place k v sl with
      | PFilled => None                             (* multiple values for argument k *)
      | POk sl' => place_all hk r sl'
      | PNoSlot =>                                   (* unexpected keyword / positional-only passed as keyword *)
          if hk then match place_all hk r sl with
                     | Some (sl', ex) => Some (sl', (k, v) :: ex)
                     | None => None
                     end
          else None
      end
  end.

(** fill from the default, or fail (missing argument) *)
Definition finish_slot (s : slot) : option (name * bval) :=
  match s with
  | ((n, _), Some v) => Some (n, BVal v)
  | ((n, Some d), None) => Some (n, BVal d)
  | ((n, None), None) => None
  end.

Definition bind_vararg (va : option name) (excess : list value) : option binding :=
  match va with
  | Some n => Some [(n, BTuple excess)]
  | None => match excess with [] => Some [] | _ => None end     (* too many positional arguments *)
  end.

Definition bind_kwarg (ka : option name) (extra : list (name * value)) : option binding :=
  match ka with
  | Some n => Some [(n, BDict extra)]
  | None => match extra with [] => Some [] | _ => None end
  end.

Definition cpython_bind (s : sig) (c : call) : option binding :=
  if has_dup (map fst (c_kws c)) then None          (* keyword argument repeated *)
  else
    let '(po, pos1) := fill_pos (s_posonly s) (with_self s (c_pos c)) in
    let '(ar, excess) := fill_pos (s_args s) pos1 in
    let ko := map (fun p => (p, None)) (s_kwonly s) in
    match place_all (has_kwarg s) (c_kws c) (ar ++ ko) with
    | None => None
    | Some (sl, extra) =>
        match mapM finish_slot po with
        | None => None
        | Some b1 =>
            match mapM finish_slot sl with
            | None => None
            | Some b2 =>
                match bind_vararg (s_vararg s) excess with
                | None => None
                | Some b3 =>
                    match bind_kwarg (s_kwarg s) extra with
                    | None => None
                    | Some b4 => Some (b1 ++ b2 ++ b3 ++ b4)
                    end
                end
            end
        end
    end.

(* ------------------------------------------------------------------------- *)
(** * bind_args: FunctionDefinition.bind_args as coded

    `args = args[::-1]` + `args.pop()` is "take the next positional argument";
    modelled by consuming the list from its head.  `kwargs` is the caller's dict;
    `del kwargs[k]` is [kwdel].  Any exception (AssertionError, KeyError) is [None]. *)

(** l.554-562 : for posonly in self._posonly *)
Fixpoint ba_posonly (hk : bool) (kw : list (name * value)) (ps : list param) (pos : list value)
  : option (binding * list value) :=
  match ps with
  | [] => Some ([], pos)
  | (n, d) :: ps' =>
      (* assert posonly not in kwargs or self._kwarg is not None *)
      if kwmem n kw && negb hk then None
      else
        match pos with
        | v :: pos' =>
            match ba_posonly hk kw ps' pos' with
            | Some (b, rest) => Some ((n, BVal v) :: b, rest)
            | None => None
            end
        | [] =>
            match d with
            | Some dv =>                            (* self._defaults[posonly] *)
                match ba_posonly hk kw ps' [] with
                | Some (b, rest) => Some ((n, BVal dv) :: b, rest)
                | None => None
                end
            | None => None                          (* KeyError *)
            end
        end
  end.

(** l.564-575 : for arg in self._args *)
Fixpoint ba_args (ps : list param) (pos : list value) (kw : list (name * value))
  : option (binding * list value * list (name * value)) :=
  match ps with
  | [] => Some ([], pos, kw)
  | (n, d) :: ps' =>
      match pos with
      | v :: pos' =>
          if kwmem n kw then None                   (* got multiple values for argument *)
          else match ba_args ps' pos' kw with
               | Some (b, rest, kw') => Some ((n, BVal v) :: b, rest, kw')
               | None => None
               end
      | [] =>
          match kwlookup n kw with
          | Some v =>
              match ba_args ps' [] (kwdel n kw) with
              | Some (b, rest, kw') => Some ((n, BVal v) :: b, rest, kw')
              | None => None
              end
          | None =>
              match d with
              | Some dv =>
                  match ba_args ps' [] kw with
                  | Some (b, rest, kw') => Some ((n, BVal dv) :: b, rest, kw')
                  | None => None
                  end
              | None => None                        (* missing parameter *)
              end
          end
      end
  end.

(** l.577-585 *)
Definition ba_vararg (va : option name) (pos : list value) : option binding :=
  match va with
  | None => match pos with [] => Some [] | _ => None end     (* to many arguments *)
  | Some n => Some [(n, BTuple pos)]
  end.

(** l.587-592 : for kwonly in self._kwonly *)
Fixpoint ba_kwonly (ps : list param) (kw : list (name * value))
  : option (binding * list (name * value)) :=
  match ps with
  | [] => Some ([], kw)
  | (n, d) :: ps' =>
      match kwlookup n kw with
      | Some v =>
          match ba_kwonly ps' (kwdel n kw) with
          | Some (b, kw') => Some ((n, BVal v) :: b, kw')
          | None => None
          end
      | None =>
          match d with
          | Some dv =>                              (* self._kwdefaults[kwonly] *)
              match ba_kwonly ps' kw with
              | Some (b, kw') => Some ((n, BVal dv) :: b, kw')
              | None => None
              end
          | None => None                            (* KeyError *)
          end
      end
  end.

(** l.594-601 *)
Definition ba_kwarg (ka : option name) (kw : list (name * value)) : option binding :=
  match ka with
  | None => match kw with [] => Some [] | _ => None end      (* to many keyword arguments *)
  | Some n => Some [(n, BDict kw)]
  end.

Definition bind_args (s : sig) (pos : list value) (kw : list (name * value)) : option binding :=
  match ba_posonly (has_kwarg s) kw (s_posonly s) (with_self s pos) with
  | None => None
  | Some (b1, pos1) =>
      match ba_args (s_args s) pos1 kw with
      | None => None
      | Some (b2, pos2, kw2) =>
          match ba_vararg (s_vararg s) pos2 with
          | None => None
          | Some b3 =>
              match ba_kwonly (s_kwonly s) kw2 with
              | None => None
              | Some (b4, kw3) =>
                  match ba_kwarg (s_kwarg s) kw3 with
                  | None => None
                  | Some b5 => Some (b1 ++ b2 ++ b4 ++ b3 ++ b5)   (* co_varnames order *)
                  end
              end
          end
      end
  end.

(** what the tracer does with a call expression: build the kwargs dict, then bind *)
Definition tracer_bind (s : sig) (c : call) : option binding :=
  match build_kw (c_kws c) with
  | None => None
  | Some kw => bind_args s (c_pos c) kw
  end.

(** ** the object of zero-argument super()

    bind_args: `super_arg` = the first value handed to add_arg (the `variadic` flag of
    add_arg is never passed, so a `*args` tuple or `**kw` dict qualifies), in the order
    posonly, args, vararg, kwonly, kwarg.
    CPython: the first positional parameter (co_argcount > 0), else RuntimeError. *)
Fixpoint blookup (n : name) (b : binding) : option bval :=
  match b with
  | [] => None
  | (m, x) :: r => if N.eqb m n then Some x else blookup n r
  end.

Definition tracer_super_arg (s : sig) (b : binding) : option bval :=
  match map fst (s_posonly s) ++ map fst (s_args s) ++ opt_list (s_vararg s)
        ++ map fst (s_kwonly s) ++ opt_list (s_kwarg s) with
  | [] => None
  | n :: _ => blookup n b
  end.

Definition cpython_super_arg (s : sig) (b : binding) : option bval :=
  match map fst (s_posonly s) ++ map fst (s_args s) with
  | [] => None
  | n :: _ => blookup n b
  end.

(* -- decidable equality on results (used by the generated case files) ------ *)

Fixpoint list_eqb {A} (e : A -> A -> bool) (a b : list A) : bool :=
  match a, b with
  | [], [] => true
  | x :: a', y :: b' => e x y && list_eqb e a' b'
  | _, _ => false
  end.

Definition kv_eqb (a b : name * value) : bool := N.eqb (fst a) (fst b) && N.eqb (snd a) (snd b).

Definition bval_eqb (a b : bval) : bool :=
  match a, b with
  | BVal x, BVal y => N.eqb x y
  | BTuple x, BTuple y => list_eqb N.eqb x y
  | BDict x, BDict y => list_eqb kv_eqb x y
  | _, _ => false
  end.

Definition binding_eqb (a b : binding) : bool :=
  list_eqb (fun x y => N.eqb (fst x) (fst y) && bval_eqb (snd x) (snd y)) a b.

Definition obinding_eqb (a b : option binding) : bool :=
  match a, b with
  | None, None => true
  | Some x, Some y => binding_eqb x y
  | _, _ => false
  end.

Definition obval_eqb (a b : option bval) : bool :=
  match a, b with
  | None, None => true
  | Some x, Some y => bval_eqb x y
  | _, _ => false
  end.

(** a small integer digest of a binding (what the end-to-end designs drive on a port);
    the same formula is generated as Python source by harness/c10.py *)
Definition dmod : N := 65521%N.

Definition digest_bval (x : bval) : N :=
  match x with
  | BVal v => N.modulo (v + 1) dmod
  | BTuple l => fold_left (fun a v => N.modulo (a * 31 + v + 2) dmod) l 7%N
  | BDict l => fold_left (fun a kv => N.modulo (a * 37 + snd kv + 3) dmod) l 11%N
  end.

Definition digest (b : binding) : N :=
  fold_left (fun a nb => N.modulo (a * 131 + digest_bval (snd nb)) dmod) b 1%N.

(* ------------------------------------------------------------------------- *)
(** * Disp: binary operator / comparison dispatch over an abstract class table *)

Definition cls := N.
Definition meth := N.

(** a method definition: its id and the operand classes (exact type of the OTHER
    operand) for which it returns NotImplemented *)
Record mdef := mkM { m_id : meth; m_ni : list cls }.

(** a class: optional parent (single inheritance; `None` = object) and own methods *)
Record cdef := mkC { cd_parent : option cls; cd_meths : list mdef }.

(** class id = index in the table *)
Definition ctable := list cdef.

Definition get_class (T : ctable) (c : cls) : option cdef := nth_error T (N.to_nat c).

Fixpoint find_meth (m : meth) (l : list mdef) : option mdef :=
  match l with
  | [] => None
  | d :: r => if N.eqb (m_id d) m then Some d else find_meth m r
  end.

(** attribute lookup along the MRO: the defining class and the definition *)
Fixpoint mro_lookup (T : ctable) (fuel : nat) (c : cls) (m : meth) : option (cls * mdef) :=
  match fuel with
  | O => None
  | S f =>
      match get_class T c with
      | None => None
      | Some cd =>
          match find_meth m (cd_meths cd) with
          | Some d => Some (c, d)
          | None => match cd_parent cd with
                    | Some p => mro_lookup T f p m
                    | None => None
                    end
          end
      end
  end.

Definition lookup (T : ctable) (c : cls) (m : meth) := mro_lookup T (S (length T)) c m.

Fixpoint is_subclass_f (T : ctable) (fuel : nat) (c d : cls) : bool :=
  N.eqb c d ||
  match fuel with
  | O => false
  | S f => match get_class T c with
           | Some cd => match cd_parent cd with
                        | Some p => is_subclass_f T f p d
                        | None => false
                        end
           | None => false
           end
  end.

Definition proper_subclass (T : ctable) (c d : cls) : bool :=
  negb (N.eqb c d) && is_subclass_f T (S (length T)) c d.

Inductive dres :=
| DCall (definer : cls) (m : meth)   (* the result of this method implementation *)
| DDefault                           (* identity comparison (== only) *)
| DReject.                           (* TypeError / compile error *)

Definition dres_eqb (a b : dres) : bool :=
  match a, b with
  | DCall c m, DCall c' m' => N.eqb c c' && N.eqb m m'
  | DDefault, DDefault => true
  | DReject, DReject => true
  | _, _ => false
  end.

(** call a looked-up method with an operand of class [other]:
    [Some r] = returned a value, [None] = attribute missing or NotImplemented *)
Definition try_call (lk : option (cls * mdef)) (m : meth) (other : cls) : option dres :=
  match lk with
  | Some (d, md) => if nmem other (m_ni md) then None else Some (DCall d m)
  | None => None
  end.

Definition or_else (a : option dres) (b : option dres) : option dres :=
  match a with Some r => Some r | None => b end.

Definition or_reject (a : option dres) : dres := match a with Some r => r | None => DReject end.

(** the tracer, ast.BinOp `overloaded_operator` (as of fix b791a08):
    try_call = hasattr + subcall, None on a missing method or NotImplemented;
    `reflected_first` = not same type and issubclass(type_rhs, type_lhs) and hasattr(type_rhs, rop)
       and (not hasattr(type_lhs, rop) or the two attributes are different objects);
    order = [rhs.rop, lhs.op] | [lhs.op] (same type) | [lhs.op, rhs.rop]; first success, else
    AssertionError *)
Definition attempt := (cls * meth * cls)%type.      (* class providing the method, method, class of the other operand *)

Definition has_attr (T : ctable) (c : cls) (m : meth) : bool :=
  match lookup T c m with Some _ => true | None => false end.

Definition same_attr (T : ctable) (c d : cls) (m : meth) : bool :=
  match lookup T c m, lookup T d m with
  | Some (x, _), Some (y, _) => N.eqb x y
  | _, _ => false
  end.

Definition reflected_first (T : ctable) (l r : cls) (rop : meth) : bool :=
  negb (N.eqb l r) && is_subclass_f T (S (length T)) r l && has_attr T r rop
  && (negb (has_attr T l rop) || negb (same_attr T r l rop)).

Fixpoint first_call (T : ctable) (order : list attempt) : dres :=
  match order with
  | [] => DReject
  | (c, m, o) :: rest =>
      match try_call (lookup T c m) m o with
      | Some x => x
      | None => first_call T rest
      end
  end.

Definition tracer_binop (T : ctable) (l r : cls) (op rop : meth) : dres :=
  first_call T
    (if reflected_first T l r rop then [(r, rop, l); (l, op, r)]
     else if N.eqb l r then [(l, op, r)]
     else [(l, op, r); (r, rop, l)]).

(** CPython (Objects/abstract.c binary_op1 + typeobject.c SLOT1BINFULL):
    - operands of the same type: the reflected method is not tried;
    - type(rhs) a proper subclass of type(lhs) that provides a different implementation
      of the reflected method: the reflected method is tried FIRST (and not again);
    - otherwise lhs.__op__, then rhs.__rop__. *)
Definition rop_overloaded (T : ctable) (l r : cls) (rop : meth) : bool :=
  match lookup T r rop with
  | None => false
  | Some (dr, _) => match lookup T l rop with
                    | None => true
                    | Some (dl, _) => negb (N.eqb dl dr)
                    end
  end.

Definition binop_priority (T : ctable) (l r : cls) (rop : meth) : bool :=
  proper_subclass T r l && rop_overloaded T l r rop.

Definition cpython_binop (T : ctable) (l r : cls) (op rop : meth) : dres :=
  let fwd := try_call (lookup T l op) op r in
  let rev := try_call (lookup T r rop) rop l in
  if N.eqb l r then or_reject fwd
  else if binop_priority T l r rop then or_reject (or_else rev fwd)
  else or_reject (or_else fwd rev).

(** the tracer, ast.Compare `evaluate(normal, reverse)` (as of fix b791a08):
    attempts = [lhs.normal, rhs.reverse], reversed if type_rhs is a proper subclass of type_lhs;
    each attempt is `subcall(getattr(type, name), ...)`: a class without its own definition yields
    object's slot wrapper, which is whitelisted as an intrinsic only for __eq__/__ne__ (it answers
    NotImplemented) - for the orderings the assertion "not supported in synthesizable contexts"
    fires (an over-rejection).  Second attempt only on NotImplemented; assert not NotImplemented.
    (`!=` is not modelled: object.__ne__ delegates to __eq__.) *)
Inductive cres := CAbort | CNotImpl | CValue (d : dres).

Definition compare_attempt (T : ctable) (is_eq : bool) (a : attempt) : cres :=
  let '(c, m, o) := a in
  match lookup T c m with
  | None => if is_eq then CNotImpl else CAbort
  | Some (d, md) => if nmem o (m_ni md) then CNotImpl else CValue (DCall d m)
  end.

Definition tracer_compare (T : ctable) (l r : cls) (op rop : meth) (is_eq : bool) : dres :=
  let '(a0, a1) := if proper_subclass T r l then ((r, rop, l), (l, op, r)) else ((l, op, r), (r, rop, l)) in
  match compare_attempt T is_eq a0 with
  | CAbort => DReject
  | CValue x => x
  | CNotImpl =>
      match compare_attempt T is_eq a1 with
      | CValue x => x
      | _ => DReject
      end
  end.

(** CPython do_richcompare: rhs type a proper subclass of lhs type: reflected first;
    then lhs op; then reflected (if not yet tried; same-type operands included);
    then identity for ==, TypeError for the orderings *)
Definition cpython_compare (T : ctable) (l r : cls) (op rop : meth) (is_eq : bool) : dres :=
  let fwd := try_call (lookup T l op) op r in
  let rev := try_call (lookup T r rop) rop l in
  let dflt := if is_eq then DDefault else DReject in
  match (if proper_subclass T r l then or_else rev fwd else or_else fwd rev) with
  | Some x => x
  | None => dflt
  end.

(* ------------------------------------------------------------------------- *)
(** * BoolOp: and / or / not on compile-time constants *)

(** an operand: an identity and its truth value (the result of its __bool__) *)
Record pv := mkPv { pv_id : N; pv_truth : bool }.

(** CPython: `a and b and c` is the first falsy operand, else the last one;
    `a or b or c` the first truthy operand, else the last one *)
Fixpoint cpython_and (x : pv) (r : list pv) : pv :=
  match r with
  | [] => x
  | y :: r' => if pv_truth x then cpython_and y r' else x
  end.

Fixpoint cpython_or (x : pv) (r : list pv) : pv :=
  match r with
  | [] => x
  | y :: r' => if pv_truth x then x else cpython_or y r'
  end.

(** the tracer (l.1124-1136 with no run-time operand): every operand is converted with
    convert_boolean; And: `if not all(const_vars): False ... else True`; Or: `any` *)
Definition tracer_and (x : pv) (r : list pv) : bool := forallb pv_truth (x :: r).
Definition tracer_or (x : pv) (r : list pv) : bool := existsb pv_truth (x :: r).
Definition tracer_not (x : pv) : bool := negb (pv_truth x).
