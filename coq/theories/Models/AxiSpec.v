(** * AxiSpec: protocol and data monitors for an AXI4-Lite register map (property C20).

    The monitor watches, clock by clock, the five channels and the exposed register
    values of a wrapper around [std.axi.axi4_light ... connect_addr_map].  It answers
    [false] as soon as the slave
      - withdraws a valid (bvalid / rvalid) or changes its payload before the ready,
      - responds without a request, twice for one request, or not within [K] clocks,
      - accepts a request while it still owes the response of the previous one,
      - leaves a register different from "exactly the strobed bytes of exactly the
        addressed register" once the write has been answered (unmapped: unchanged),
        or changes a register outside the window of a pending write,
      - answers a read of a mapped register with anything but a value the register held
        between the acceptance of the address and the response,
      - (registers with fields) changes a bit that is not bus-writable: the reference
        write [ref_write] touches only the bits of the register's write mask, the
        hardware-driven [Field]/[UField] bits follow the hardware model [hw_tick] only
        (a counter of write notifications and a toggle of read notifications, each
        moving in the clock after the pulse, as the wrapper's hardware process does),
      - (notifications) raises the write / read notification of a register in any clock
        other than the one in which an access to exactly that register takes effect:
        one pulse of one clock per access, not before the request is complete, not after
        the response is visible, together with the register update, never otherwise.
    The master is unconstrained except for the AXI rule "valid and its payload stay until
    ready": when the environment breaks it the monitor stops judging (sink state).

    Observation convention (see [Sem.cycle]): inputs of step k are applied before the
    edge, outputs are sampled after it; a handshake happens at edge k when the valid of
    step k meets the ready/valid that was visible before the edge (output of step k-1). *)
From Coq Require Import ZArith NArith List Bool Lia.
From Cohdl Require Import Base.Bits Vhdl.Value Equiv.RefTS Equiv.Monitor.
Import ListNotations.
Local Open Scope Z_scope.

Record axm := {
  (* outputs visible before this edge *)
  p_awready : Z; p_wready : Z; p_bvalid : Z; p_bresp : Z; p_arready : Z; p_rvalid : Z; p_rdata : Z; p_rresp : Z;
  (* master bookkeeping: a valid that was not accepted must stay, with its payload *)
  h_aw : Z; h_awaddr : Z; h_w : Z; h_wdata : Z; h_wstrb : Z; h_ar : Z; h_araddr : Z;
  (* write transaction *)
  aw_got : Z; aw_addr : Z; w_got : Z; w_data : Z; w_strb : Z; b_pend : Z; b_wait : Z; b_seen : Z;
  (* read transaction *)
  r_pend : Z; r_addr : Z; r_wait : Z; r_seen : Z;
  (* notifications: outputs of the previous clock / already pulsed for the pending access *)
  p_ntw : Z; p_ntr : Z; nw_done : Z; nr_done : Z;
  (* registers: value before the pending write / value it must have afterwards *)
  regs_old : list Z; regs_new : list Z; r_cand : list Z;
  sink : Z
}.

(** encoding into the [list Z] state of [Equiv.Monitor] *)
Definition enc (n : nat) (m : axm) : list Z :=
  [m.(p_awready); m.(p_wready); m.(p_bvalid); m.(p_bresp); m.(p_arready); m.(p_rvalid); m.(p_rdata); m.(p_rresp);
   m.(h_aw); m.(h_awaddr); m.(h_w); m.(h_wdata); m.(h_wstrb); m.(h_ar); m.(h_araddr);
   m.(aw_got); m.(aw_addr); m.(w_got); m.(w_data); m.(w_strb); m.(b_pend); m.(b_wait); m.(b_seen);
   m.(r_pend); m.(r_addr); m.(r_wait); m.(r_seen); m.(sink);
   m.(p_ntw); m.(p_ntr); m.(nw_done); m.(nr_done)]
  ++ m.(regs_old) ++ m.(regs_new) ++ m.(r_cand).

Definition dec (n : nat) (l : list Z) : axm :=
  let g k := nth k l 0 in
  let rest := skipn 32 l in
  {| p_awready := g 0%nat; p_wready := g 1%nat; p_bvalid := g 2%nat; p_bresp := g 3%nat; p_arready := g 4%nat;
     p_rvalid := g 5%nat; p_rdata := g 6%nat; p_rresp := g 7%nat;
     h_aw := g 8%nat; h_awaddr := g 9%nat; h_w := g 10%nat; h_wdata := g 11%nat; h_wstrb := g 12%nat;
     h_ar := g 13%nat; h_araddr := g 14%nat;
     aw_got := g 15%nat; aw_addr := g 16%nat; w_got := g 17%nat; w_data := g 18%nat; w_strb := g 19%nat;
     b_pend := g 20%nat; b_wait := g 21%nat; b_seen := g 22%nat;
     r_pend := g 23%nat; r_addr := g 24%nat; r_wait := g 25%nat; r_seen := g 26%nat; sink := g 27%nat;
     p_ntw := g 28%nat; p_ntr := g 29%nat; nw_done := g 30%nat; nr_done := g 31%nat;
     regs_old := firstn n rest; regs_new := firstn n (skipn n rest); r_cand := skipn (n + n) rest |}.

(** ** the reference data model *)

(** byte-strobed merge of a 32-bit word *)
Definition byte_mask (strb : Z) : Z :=
  (if Z.testbit strb 0 then 255 else 0) + (if Z.testbit strb 1 then 65280 else 0)
  + (if Z.testbit strb 2 then 16711680 else 0) + (if Z.testbit strb 3 then 4278190080 else 0).

(** bits of [old] replaced by bits of [data] where the byte is strobed AND the bit is
    bus-writable ([wmask]: the MemField bits of the register; all ones for a MemWord) *)
Definition merge_masked (old data strb wmask : Z) : Z :=
  let m := Z.land (byte_mask strb) wmask in
  Z.lor (Z.ldiff old m) (Z.land data m).

Definition all32 : Z := 4294967295.

Definition strobe_merge (old data strb : Z) : Z := merge_masked old data strb all32.

Fixpoint set_nthz (l : list Z) (k : nat) (x : Z) : list Z :=
  match l, k with
  | [], _ => []
  | _ :: r, O => x :: r
  | y :: r, S k' => y :: set_nthz r k' x
  end.

(** [reg_at offsets addr 0] = index of the register mapped at byte address [addr], if any
    (word-aligned map: register i at byte offset [nth i offsets]) *)
Fixpoint reg_at (offsets : list Z) (addr : Z) (k : nat) : option nat :=
  match offsets with
  | [] => None
  | o :: r => if (addr / 4) =? (o / 4) then Some k else reg_at r addr (S k)
  end.

(** the registers after a completed bus write *)
Definition ref_write (offsets wmasks regs : list Z) (addr data strb : Z) : list Z :=
  match reg_at offsets addr O with
  | Some k => set_nthz regs k (merge_masked (nth k regs 0) data strb (nth k wmasks all32))
  | None => regs
  end.

(** the register a bus read returns ([None]: unmapped, the monitor does not judge the data) *)
Definition ref_read (offsets regs : list Z) (addr : Z) : option Z :=
  match reg_at offsets addr O with
  | Some k => Some (nth k regs 0)
  | None => None
  end.

(** ** hardware side of a register with notifications (mirrors the wrapper's process:
       [if wr_n: cnt <<= cnt + 1]  [if rd_n: tog <<= ~tog]) *)
Record nspec := { n_reg : nat; n_wshift : Z; n_wwidth : Z; n_rshift : Z }.

Definition field_mask (shift width : Z) : Z := Z.shiftl (Z.ones width) shift.

Definition cnt_tick (v shift width : Z) : Z :=
  Z.lor (Z.ldiff v (field_mask shift width)) (Z.shiftl ((Z.shiftr v shift + 1) mod 2 ^ width) shift).

Definition tog_tick (v shift : Z) : Z := Z.lxor v (Z.shiftl 1 shift).

Definition hw_tick (nf : option nspec) (tw tr : bool) (regs : list Z) : list Z :=
  match nf with
  | None => regs
  | Some s =>
      let v := nth s.(n_reg) regs 0 in
      let v1 := if tw then cnt_tick v s.(n_wshift) s.(n_wwidth) else v in
      let v2 := if tr then tog_tick v1 s.(n_rshift) else v1 in
      if tw || tr then set_nthz regs s.(n_reg) v2 else regs
  end.

Definition zlist_eqb := zl_eqb.
Definition inb (x : Z) (l : list Z) : bool := existsb (Z.eqb x) l.
Fixpoint dedup (l : list Z) : list Z :=
  match l with
  | [] => []
  | x :: r => if inb x r then dedup r else x :: dedup r
  end.
Definition is_reg (offsets : list Z) (addr : Z) (nf : option nspec) : bool :=
  match nf, reg_at offsets addr O with
  | Some s, Some k => Nat.eqb k s.(n_reg)
  | _, _ => false
  end.

(** inputs  : [awaddr; awprot; awvalid; wdata; wstrb; wvalid; bready; araddr; arprot; arvalid; rready]
    outputs : [awready; wready; bresp; bvalid; arready; rdata; rresp; rvalid; reg_0 .. reg_(n-1)]
              followed by [write notification; read notification] when [nf] is given *)
Definition axi_monitor_x (K : Z) (offsets wmasks : list Z) (nf : option nspec) : monitor := fun st inp outs =>
  let n := length offsets in
  let m := dec n st in
  match inp, outs with
  | [awaddr; _; awvalid; wdata; wstrb; wvalid; bready; araddr; _; arvalid; rready],
    awready :: wready :: bresp :: bvalid :: arready :: rdata :: rresp :: rvalid :: rest =>
      if m.(sink) =? 1 then (st, true) else
      let regs := firstn n rest in
      let nts := skipn n rest in
      let awv := zb (vbit awvalid) in let wv := zb (vbit wvalid) in let arv := zb (vbit arvalid) in
      let brd := vbit bready in let rrd := vbit rready in
      let awa := vnum awaddr in let wd := vnum wdata in let ws := vnum wstrb in let ara := vnum araddr in
      (* the master rule: a valid that was not accepted stays with its payload *)
      let env_ok :=
        (implb (m.(h_aw) =? 1) ((awv =? 1) && (awa =? m.(h_awaddr))))
        && (implb (m.(h_w) =? 1) ((wv =? 1) && (wd =? m.(h_wdata)) && (ws =? m.(h_wstrb))))
        && (implb (m.(h_ar) =? 1) ((arv =? 1) && (ara =? m.(h_araddr)))) in
      if negb env_ok then (enc n {| p_awready := 0; p_wready := 0; p_bvalid := 0; p_bresp := 0; p_arready := 0;
                                    p_rvalid := 0; p_rdata := 0; p_rresp := 0; h_aw := 0; h_awaddr := 0; h_w := 0;
                                    h_wdata := 0; h_wstrb := 0; h_ar := 0; h_araddr := 0; aw_got := 0; aw_addr := 0;
                                    w_got := 0; w_data := 0; w_strb := 0; b_pend := 0; b_wait := 0; b_seen := 0;
                                    r_pend := 0; r_addr := 0; r_wait := 0; r_seen := 0;
                                    p_ntw := 0; p_ntr := 0; nw_done := 0; nr_done := 0;
                                    regs_old := map (fun _ => 0) offsets; regs_new := map (fun _ => 0) offsets;
                                    r_cand := []; sink := 1 |}, true)
      else
      (* handshakes at this edge *)
      let hs_aw := (awv =? 1) && (m.(p_awready) =? 1) in
      let hs_w := (wv =? 1) && (m.(p_wready) =? 1) in
      let hs_ar := (arv =? 1) && (m.(p_arready) =? 1) in
      let hs_b := (m.(p_bvalid) =? 1) && brd in
      let hs_r := (m.(p_rvalid) =? 1) && rrd in
      (* hardware side: the notification pulses of the previous clock move the hardware fields now *)
      let tick := hw_tick nf (m.(p_ntw) =? 1) (m.(p_ntr) =? 1) in
      let m_regs_new := tick m.(regs_new) in
      let m_regs_old := tick m.(regs_old) in
      (* --- write side --- *)
      let bad_accept_w := (hs_aw && ((m.(aw_got) =? 1) || (m.(b_pend) =? 1)))
                          || (hs_w && ((m.(w_got) =? 1) || (m.(b_pend) =? 1))) in
      let aw_got1 := if hs_aw then 1 else m.(aw_got) in
      let aw_addr1 := if hs_aw then awa else m.(aw_addr) in
      let w_got1 := if hs_w then 1 else m.(w_got) in
      let w_data1 := if hs_w then wd else m.(w_data) in
      let w_strb1 := if hs_w then ws else m.(w_strb) in
      let complete := (aw_got1 =? 1) && (w_got1 =? 1) in
      let regs_new1 := if complete then ref_write offsets wmasks m_regs_new aw_addr1 w_data1 w_strb1 else m_regs_new in
      let b_pend1 := if complete then 1 else if hs_b then 0 else m.(b_pend) in
      (* response channel *)
      let bv := zb (vbit bvalid) in
      let b_withdrawn := (m.(p_bvalid) =? 1) && negb hs_b && ((bv =? 0) || negb (vnum bresp =? m.(p_bresp))) in
      let b_spurious := (bv =? 1) && (b_pend1 =? 0) in
      let b_unasked_hs := hs_b && (m.(b_pend) =? 0) in
      let b_seen1 := if complete then bv else if hs_b then 0 else if bv =? 1 then 1 else m.(b_seen) in
      let b_wait1 := if (b_pend1 =? 1) && (b_seen1 =? 0) then m.(b_wait) + 1 else 0 in
      (* registers: outside a pending write they equal the model; during it old or new;
         once the response is visible they are new *)
      let regsv := map vnum regs in
      let regs_old1 := if (b_pend1 =? 1) then (if complete then m_regs_new else m_regs_old) else regs_new1 in
      let is_new := zlist_eqb regsv regs_new1 in
      let regs_ok :=
        if b_pend1 =? 1 then
          if b_seen1 =? 1 then is_new
          else is_new || zlist_eqb regsv regs_old1
        else is_new in
      (* --- read side --- *)
      let bad_accept_r := hs_ar && (m.(r_pend) =? 1) in
      let r_pend1 := if hs_ar then 1 else if hs_r then 0 else m.(r_pend) in
      let r_addr1 := if hs_ar then ara else m.(r_addr) in
      let rv := zb (vbit rvalid) in
      let r_withdrawn := (m.(p_rvalid) =? 1) && negb hs_r
                         && ((rv =? 0) || negb (vnum rdata =? m.(p_rdata)) || negb (vnum rresp =? m.(p_rresp))) in
      let r_spurious := (rv =? 1) && (r_pend1 =? 0) in
      let r_unasked_hs := hs_r && (m.(r_pend) =? 0) in
      (* values the addressed register held since the address was accepted *)
      let cur := match reg_at offsets r_addr1 O with
                 | Some k => dedup [nth k m.(regs_old) 0; nth k m.(regs_new) 0; nth k regs_old1 0; nth k regs_new1 0; nth k regsv 0]
                 | None => [] end in
      let r_cand1 := if hs_ar then cur else if r_pend1 =? 1 then (if m.(r_seen) =? 1 then m.(r_cand) else dedup (cur ++ m.(r_cand))) else [] in
      let r_first := (rv =? 1) && (m.(r_seen) =? 0) && (r_pend1 =? 1) in
      let r_data_bad := r_first && match reg_at offsets r_addr1 O with
                                   | Some _ => negb (inb (vnum rdata) r_cand1)
                                   | None => false end in
      let r_seen1 := if hs_ar then rv else if hs_r then 0 else if rv =? 1 then 1 else m.(r_seen) in
      let r_wait1 := if (r_pend1 =? 1) && (r_seen1 =? 0) then m.(r_wait) + 1 else 0 in
      (* --- notifications --- *)
      let nts_ok := match nf with None => true | Some _ => Nat.eqb (length nts) 2 end in
      let ntw := match nf with Some _ => zb (vbit (nth 0 nts (VL false))) | None => 0 end in
      let ntr := match nf with Some _ => zb (vbit (nth 1 nts (VL false))) | None => 0 end in
      let w_target := (b_pend1 =? 1) && is_reg offsets aw_addr1 nf in
      let nw_cur := if complete then 0 else m.(nw_done) in
      let nw_bad :=
        (* a pulse outside the window of an access to this register, or a second one *)
        ((ntw =? 1) && negb (w_target && (nw_cur =? 0)))
        (* the pulse comes with the update *)
        || ((ntw =? 1) && negb is_new)
        (* the update without the pulse *)
        || (w_target && (nw_cur =? 0) && (ntw =? 0) && is_new && negb (zlist_eqb regs_new1 regs_old1))
        (* the response is visible and the pulse has not happened *)
        || (w_target && (nw_cur =? 0) && (ntw =? 0) && (b_seen1 =? 1)) in
      let nw_done1 := if b_pend1 =? 1 then (if ntw =? 1 then 1 else nw_cur) else 0 in
      let r_target := (r_pend1 =? 1) && is_reg offsets r_addr1 nf in
      let nr_cur := if hs_ar then 0 else m.(nr_done) in
      let nr_bad :=
        ((ntr =? 1) && negb (r_target && (nr_cur =? 0) && ((r_seen1 =? 0) || r_first)))
        || (r_target && (nr_cur =? 0) && (ntr =? 0) && (r_seen1 =? 1)) in
      let nr_done1 := if r_pend1 =? 1 then (if ntr =? 1 then 1 else nr_cur) else 0 in
      let ok := negb bad_accept_w && negb b_withdrawn && negb b_spurious && negb b_unasked_hs && (b_wait1 <=? K)
                && regs_ok
                && negb bad_accept_r && negb r_withdrawn && negb r_spurious && negb r_unasked_hs && negb r_data_bad
                && (r_wait1 <=? K)
                && nts_ok && negb nw_bad && negb nr_bad in
      let m' := {|
        p_awready := zb (vbit awready); p_wready := zb (vbit wready); p_bvalid := bv; p_bresp := vnum bresp;
        p_arready := zb (vbit arready); p_rvalid := rv; p_rdata := vnum rdata; p_rresp := vnum rresp;
        h_aw := zb ((awv =? 1) && negb hs_aw); h_awaddr := awa;
        h_w := zb ((wv =? 1) && negb hs_w); h_wdata := wd; h_wstrb := ws;
        h_ar := zb ((arv =? 1) && negb hs_ar); h_araddr := ara;
        aw_got := if complete then 0 else aw_got1; aw_addr := aw_addr1;
        w_got := if complete then 0 else w_got1; w_data := w_data1; w_strb := w_strb1;
        b_pend := b_pend1; b_wait := b_wait1; b_seen := if b_pend1 =? 1 then b_seen1 else 0;
        r_pend := r_pend1; r_addr := r_addr1; r_wait := r_wait1; r_seen := if r_pend1 =? 1 then r_seen1 else 0;
        p_ntw := ntw; p_ntr := ntr; nw_done := nw_done1; nr_done := nr_done1;
        regs_old := regs_old1; regs_new := regs_new1; r_cand := if r_pend1 =? 1 then r_cand1 else [];
        sink := 0 |} in
      (enc n m', ok)
  | _, _ => (st, false)
  end.

(** plain register words (MemWord): every bit bus-writable, no notifications *)
Definition axi_monitor (K : Z) (offsets : list Z) : monitor := axi_monitor_x K offsets [] None.

(** initial monitor state for registers with the given power-up values *)
Definition axi_m0 (defaults : list Z) : list Z :=
  enc (length defaults)
      {| p_awready := 0; p_wready := 0; p_bvalid := 0; p_bresp := 0; p_arready := 0; p_rvalid := 0; p_rdata := 0;
         p_rresp := 0; h_aw := 0; h_awaddr := 0; h_w := 0; h_wdata := 0; h_wstrb := 0; h_ar := 0; h_araddr := 0;
         aw_got := 0; aw_addr := 0; w_got := 0; w_data := 0; w_strb := 0; b_pend := 0; b_wait := 0; b_seen := 0;
         r_pend := 0; r_addr := 0; r_wait := 0; r_seen := 0;
         p_ntw := 0; p_ntr := 0; nw_done := 0; nr_done := 0;
         regs_old := defaults; regs_new := defaults; r_cand := []; sink := 0 |}.

(** ** facts about the reference data model (stated as theorems in Props/C20_Properties.v) *)

Lemma byte_mask_range strb : 0 <= byte_mask strb <= 4294967295.
Proof. unfold byte_mask. destruct (Z.testbit strb 0), (Z.testbit strb 1), (Z.testbit strb 2), (Z.testbit strb 3); cbn; split; discriminate. Qed.

(** bit [i] of the byte mask is strobe bit [i / 8] *)
Lemma byte_mask_bit strb i : 0 <= i < 32 -> Z.testbit (byte_mask strb) i = Z.testbit strb (i / 8).
Proof.
  intros Hi. unfold byte_mask.
  set (b0 := Z.testbit strb 0). set (b1 := Z.testbit strb 1). set (b2 := Z.testbit strb 2). set (b3 := Z.testbit strb 3).
  assert (R : Z.testbit strb (i / 8) = if i <? 8 then b0 else if i <? 16 then b1 else if i <? 24 then b2 else b3).
  { destruct (i <? 8) eqn:E1; [apply Z.ltb_lt in E1; replace (i / 8) with 0 by (symmetry; apply Z.div_small; lia); reflexivity|].
    apply Z.ltb_ge in E1.
    destruct (i <? 16) eqn:E2; [apply Z.ltb_lt in E2; replace (i / 8) with 1 by (apply (Z.div_unique i 8 1 (i - 8)); lia); reflexivity|].
    apply Z.ltb_ge in E2.
    destruct (i <? 24) eqn:E3; [apply Z.ltb_lt in E3; replace (i / 8) with 2 by (apply (Z.div_unique i 8 2 (i - 16)); lia); reflexivity|].
    apply Z.ltb_ge in E3. replace (i / 8) with 3 by (apply (Z.div_unique i 8 3 (i - 24)); lia). reflexivity. }
  rewrite R. clearbody b0 b1 b2 b3. clear R.
  assert (H : i = 0 \/ i = 1 \/ i = 2 \/ i = 3 \/ i = 4 \/ i = 5 \/ i = 6 \/ i = 7 \/ i = 8 \/ i = 9 \/ i = 10 \/ i = 11
              \/ i = 12 \/ i = 13 \/ i = 14 \/ i = 15 \/ i = 16 \/ i = 17 \/ i = 18 \/ i = 19 \/ i = 20 \/ i = 21 \/ i = 22
              \/ i = 23 \/ i = 24 \/ i = 25 \/ i = 26 \/ i = 27 \/ i = 28 \/ i = 29 \/ i = 30 \/ i = 31) by lia.
  destruct b0, b1, b2, b3; repeat (destruct H as [-> | H]; [reflexivity|]); subst; reflexivity.
Qed.

Lemma byte_mask_bit_out strb i : i < 0 \/ 32 <= i -> Z.testbit (byte_mask strb) i = false.
Proof.
  intros [H|H]; [apply Z.testbit_neg_r; exact H|].
  pose proof (byte_mask_range strb) as R.
  destruct (Z.eq_dec (byte_mask strb) 0) as [E|E]; [rewrite E; apply Z.bits_0|].
  apply Z.bits_above_log2; [lia|].
  assert (Z.log2 (byte_mask strb) < 32) by (apply Z.log2_lt_pow2; [lia|]; change (2 ^ 32) with 4294967296; lia).
  lia.
Qed.

(** a write changes exactly the bits that are strobed and bus-writable, to the written data *)
Lemma merge_masked_bit old data strb wmask i : 0 <= i < 32 ->
  Z.testbit (merge_masked old data strb wmask) i =
  if Z.testbit strb (i / 8) && Z.testbit wmask i then Z.testbit data i else Z.testbit old i.
Proof.
  intros Hi. unfold merge_masked. rewrite Z.lor_spec, Z.ldiff_spec, !Z.land_spec, (byte_mask_bit _ _ Hi).
  destruct (Z.testbit strb (i / 8)), (Z.testbit wmask i), (Z.testbit old i), (Z.testbit data i); reflexivity.
Qed.

Lemma merge_masked_bit_out old data strb wmask i : i < 0 \/ 32 <= i ->
  Z.testbit (merge_masked old data strb wmask) i = Z.testbit old i.
Proof.
  intros Hi. unfold merge_masked. rewrite Z.lor_spec, Z.ldiff_spec, !Z.land_spec, (byte_mask_bit_out _ _ Hi).
  cbn. rewrite andb_false_r, orb_false_r, andb_true_r. reflexivity.
Qed.

(** bits outside the write mask (read-only from the bus) never change *)
Lemma merge_masked_readonly old data strb wmask i :
  Z.testbit wmask i = false -> Z.testbit (merge_masked old data strb wmask) i = Z.testbit old i.
Proof.
  intros Hw. destruct (Z_lt_dec i 0) as [H|H]; [apply merge_masked_bit_out; lia|].
  destruct (Z_le_dec 32 i) as [H'|H']; [apply merge_masked_bit_out; lia|].
  rewrite merge_masked_bit by lia. rewrite Hw, andb_false_r. reflexivity.
Qed.

Lemma all32_bit i : 0 <= i < 32 -> Z.testbit all32 i = true.
Proof. intros Hi. change all32 with (Z.ones 32). apply Z.ones_spec_low. exact Hi. Qed.

(** plain words: exactly the strobed bytes, nothing else *)
Lemma strobe_merge_bit old data strb i : 0 <= i < 32 ->
  Z.testbit (strobe_merge old data strb) i = if Z.testbit strb (i / 8) then Z.testbit data i else Z.testbit old i.
Proof. intros Hi. unfold strobe_merge. rewrite merge_masked_bit, all32_bit, andb_true_r by exact Hi. reflexivity. Qed.

Lemma strobe_merge_bit_out old data strb i : i < 0 \/ 32 <= i ->
  Z.testbit (strobe_merge old data strb) i = Z.testbit old i.
Proof. apply merge_masked_bit_out. Qed.

(** [set_nthz] / [reg_at] *)
Lemma set_nthz_length l k x : length (set_nthz l k x) = length l.
Proof. revert k; induction l as [|y r IH]; intros [|k]; cbn; auto. Qed.

Lemma set_nthz_same l k x : (k < length l)%nat -> nth k (set_nthz l k x) 0 = x.
Proof. revert k; induction l as [|y r IH]; intros [|k] H; cbn in *; try lia; auto. apply IH. lia. Qed.

Lemma set_nthz_other l k j x : j <> k -> nth j (set_nthz l k x) 0 = nth j l 0.
Proof. revert k j; induction l as [|y r IH]; intros [|k] [|j] H; cbn; auto; try congruence. Qed.

Lemma reg_at_none offsets addr s :
  (forall o, In o offsets -> addr / 4 <> o / 4) -> reg_at offsets addr s = None.
Proof.
  revert s; induction offsets as [|o r IH]; intros s H; cbn; [reflexivity|].
  destruct (addr / 4 =? o / 4) eqn:E; [apply Z.eqb_eq in E; exfalso; apply (H o); [left; reflexivity|exact E]|].
  apply IH. intros o' Ho'. apply H. right. exact Ho'.
Qed.

Lemma reg_at_some offsets addr s k :
  reg_at offsets addr s = Some k -> (s <= k)%nat /\ (k - s < length offsets)%nat /\ nth (k - s) offsets 0 / 4 = addr / 4.
Proof.
  revert s; induction offsets as [|o r IH]; intros s H; cbn in H; [discriminate|].
  destruct (addr / 4 =? o / 4) eqn:E.
  - injection H as <-. apply Z.eqb_eq in E. replace (s - s)%nat with O by lia. cbn. split; [lia|split; [lia|symmetry; exact E]].
  - apply IH in H. destruct H as (H1 & H2 & H3). replace (k - s)%nat with (S (k - S s)) by lia. cbn. split; [lia|split; [lia|exact H3]].
Qed.

(** a write to an unmapped address leaves every register unchanged *)
Lemma ref_write_unmapped offsets wmasks regs addr data strb :
  (forall o, In o offsets -> addr / 4 <> o / 4) -> ref_write offsets wmasks regs addr data strb = regs.
Proof. intros H. unfold ref_write. rewrite (reg_at_none _ _ _ H). reflexivity. Qed.

(** a write leaves every register but the addressed one unchanged *)
Lemma ref_write_other offsets wmasks regs addr data strb j :
  reg_at offsets addr O <> Some j -> nth j (ref_write offsets wmasks regs addr data strb) 0 = nth j regs 0.
Proof.
  intros H. unfold ref_write. destruct (reg_at offsets addr O) as [k|]; [|reflexivity].
  apply set_nthz_other. congruence.
Qed.

(** ... and the addressed one gets the masked merge *)
Lemma ref_write_addressed offsets wmasks regs addr data strb k :
  reg_at offsets addr O = Some k -> (k < length regs)%nat ->
  nth k (ref_write offsets wmasks regs addr data strb) 0 = merge_masked (nth k regs 0) data strb (nth k wmasks all32).
Proof. intros H Hk. unfold ref_write. rewrite H. apply set_nthz_same. exact Hk. Qed.

Lemma ref_write_length offsets wmasks regs addr data strb :
  length (ref_write offsets wmasks regs addr data strb) = length regs.
Proof. unfold ref_write. destruct (reg_at offsets addr O); [apply set_nthz_length|reflexivity]. Qed.

(** a read returns the register mapped at the word of the address *)
Lemma ref_read_mapped offsets regs addr v :
  ref_read offsets regs addr = Some v ->
  exists k, (k < length offsets)%nat /\ nth k offsets 0 / 4 = addr / 4 /\ v = nth k regs 0.
Proof.
  unfold ref_read. destruct (reg_at offsets addr O) as [k|] eqn:E; [|discriminate].
  intros [= <-]. apply reg_at_some in E. destruct E as (_ & H2 & H3). rewrite Nat.sub_0_r in *.
  exists k. repeat split; assumption.
Qed.

(** the hardware model moves only the bits of its own fields *)
Lemma cnt_tick_outside v shift width i :
  0 <= shift -> 0 <= width -> i < shift \/ shift + width <= i ->
  Z.testbit (cnt_tick v shift width) i = Z.testbit v i.
Proof.
  intros Hs Hw Hi. destruct (Z_lt_dec i 0) as [Hn|Hn]; [rewrite !Z.testbit_neg_r by exact Hn; reflexivity|].
  unfold cnt_tick, field_mask. rewrite Z.lor_spec, Z.ldiff_spec.
  destruct Hi as [Hi|Hi].
  - rewrite !Z.shiftl_spec_low by exact Hi. cbn. rewrite andb_true_r, orb_false_r. reflexivity.
  - rewrite !Z.shiftl_spec by lia. rewrite Z.ones_spec_high by lia. rewrite Z.mod_pow2_bits_high by lia.
    cbn. rewrite andb_true_r, orb_false_r. reflexivity.
Qed.

Lemma tog_tick_other v shift i : 0 <= shift -> i <> shift -> Z.testbit (tog_tick v shift) i = Z.testbit v i.
Proof.
  intros Hs Hi. unfold tog_tick. rewrite Z.lxor_spec, Z.shiftl_1_l, Z.pow2_bits_false by (intro; apply Hi; symmetry; assumption).
  apply xorb_false_r.
Qed.

Lemma tog_tick_bit v shift : 0 <= shift -> Z.testbit (tog_tick v shift) shift = negb (Z.testbit v shift).
Proof. intros Hs. unfold tog_tick. rewrite Z.lxor_spec, Z.shiftl_1_l, Z.pow2_bits_true by exact Hs. apply xorb_true_r. Qed.

Lemma hw_tick_other nf tw tr regs j :
  match nf with Some s => j <> s.(n_reg) | None => True end -> nth j (hw_tick nf tw tr regs) 0 = nth j regs 0.
Proof.
  unfold hw_tick. destruct nf as [s|]; [|reflexivity]. intros H.
  destruct (tw || tr); [apply set_nthz_other; exact H|reflexivity].
Qed.

(** running a monitor over a recorded trace of (inputs, outputs) per clock: the verdict of every clock
    (used for the sensitivity examples in Props/C20_Properties.v) *)
Fixpoint mon_trace (mon : monitor) (st : list Z) (steps : list (list value * list value)) : list bool :=
  match steps with
  | [] => []
  | (i, o) :: r => let '(st', ok) := mon st i o in ok :: mon_trace mon st' r
  end.
