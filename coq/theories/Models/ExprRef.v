(** * ExprRef: the DOCUMENTED run-time semantics of CoHDL expressions (C02), as a typed evaluator.

    Written from the property text, not from numeric_std:
    - a value is (kind, width, number).  The number is the mathematical value: an Unsigned / BitVector is
      0 <= z < 2^w, a Signed is -2^(w-1) <= z < 2^(w-1), a Bit / bool is 0 or 1, an Integer (or a Python int
      operand) is any z, an enumeration value is its position;
    - [tyof] is the documented result type: [+ -] max width, [*] sum of widths, truncdiv dividend width,
      mod / rem divisor width, shifts keep the left type, comparisons / and / or / not / any / all are bool,
      [@] is a BitVector of the added widths, slices are BitVectors, views keep the width, an int operand takes
      the type of the vector operand (product: twice its width);
    - [xeval] computes with the mathematical values (so narrower unsigned operands are zero-extended and signed
      ones sign-extended) and wraps the result modulo the result width ([norm]); [>>] divides by 2^n rounding
      down (zero fill for Unsigned, sign fill for Signed); the left operand of [@] forms the upper bits;
      select_with takes the first matching branch or the default; a chained comparison is the conjunction of
      the adjacent comparisons.
    Division / modulo by zero, an index outside the vector / array, a negative shift count and a select_with
    without match and default are [TUndef]; an expression is undefined as soon as one sub-expression is (the
    hardware computes every sub-expression).  The harness excludes these valuations ([expr_defined]). *)
From Coq Require Import ZArith NArith List Bool Lia.
From Cohdl Require Import Base.Bits Vhdl.Value Equiv.RefTS.
Import ListNotations.
Local Open Scope Z_scope.

Inductive kind := KBit | KBool | KBV | KU | KS | KInt | KEnum.

Definition kind_eqb (a b : kind) : bool :=
  match a, b with
  | KBit, KBit | KBool, KBool | KBV, KBV | KU, KU | KS, KS | KInt, KInt | KEnum, KEnum => true
  | _, _ => false
  end.

(** scalar type (kind, width) - width 1 for Bit/bool, 0 for integers, the number of literals for an
    enumeration - or a one-dimensional array of [n] scalars *)
Inductive ty := Ty (k : kind) (w : N) | TyArr (k : kind) (w : N) (n : N).

Inductive tval :=
| TV (k : kind) (w : N) (z : Z)
| TA (k : kind) (w : N) (l : list Z)
| TUndef.

Definition ty_eqb (a b : ty) : bool :=
  match a, b with
  | Ty k w, Ty k' w' => kind_eqb k k' && (w =? w')%N
  | TyArr k w n, TyArr k' w' n' => kind_eqb k k' && (w =? w')%N && (n =? n')%N
  | _, _ => false
  end.

Definition wf_scalar (k : kind) (w : N) : bool :=
  match k with
  | KBit | KBool => (w =? 1)%N
  | KBV | KU | KS | KEnum => (0 <? w)%N
  | KInt => (w =? 0)%N
  end.

Definition wf_ty (t : ty) : bool :=
  match t with
  | Ty k w => wf_scalar k w
  | TyArr k w n => wf_scalar k w && (0 <? n)%N
  end.

Definition in_range (k : kind) (w : N) (z : Z) : bool :=
  match k with
  | KBit | KBool => (0 <=? z) && (z <=? 1)
  | KBV | KU => (0 <=? z) && (z <? pow2 w)
  | KS => (- pow2 (w - 1) <=? z) && (z <? pow2 (w - 1))
  | KInt => true
  | KEnum => (0 <=? z) && (z <? Z.of_N w)
  end.

(** value [v] inhabits type [t] (an undefined result inhabits every type) *)
Definition vok (t : ty) (v : tval) : bool :=
  match v with
  | TUndef => true
  | TV k w z => ty_eqb t (Ty k w) && wf_scalar k w && in_range k w z
  | TA k w l => ty_eqb t (TyArr k w (N.of_nat (length l))) && wf_scalar k w && negb (length l =? 0)%nat
                && forallb (in_range k w) l
  end.

(** wrap a mathematical result into the range of the result type *)
Definition norm (k : kind) (w : N) (z : Z) : Z :=
  match k with
  | KBit | KBool => z mod 2
  | KBV | KU => wrap w z
  | KS => sval w (wrap w z)
  | KInt => z
  | KEnum => z mod Z.of_N w
  end.

Definition mk (k : kind) (w : N) (z : Z) : tval := TV k w (norm k w z).

(** the bit pattern of a value, read as an unsigned number *)
Definition pat (k : kind) (w : N) (z : Z) : Z := match k with KS => wrap w z | _ => z end.

Definition truthy (z : Z) : bool := negb (z =? 0).
Definition can_bool (k : kind) : bool := match k with KEnum => false | _ => true end.
Definition is_vec (k : kind) : bool := match k with KBV | KU | KS => true | _ => false end.

Inductive uop := NInv | NNeg | NAbs | NNot.
Inductive bop := BAdd | BSub | BMul | BTruncDiv | BMod | BRem | BAnd | BOr | BXor | BConcat | BShl | BShr | BAndL | BOrL.
Inductive cop := CEq | CNe | CLt | CLe | CGt | CGe.
Inductive view := VwU | VwS | VwBV.

Inductive texp :=
| XIn (k : nat) (t : ty)                  (* input port k of the declared type *)
| XConst (k : kind) (w : N) (z : Z)       (* typed literal; [XConst KInt 0 z] is a Python int operand *)
| XUn (op : uop) (a : texp)
| XBin (op : bop) (a b : texp)
| XCmp (op : cop) (a b : texp)
| XChain (a : texp) (rest : list (cop * texp))   (* a op1 b op2 c ... *)
| XIdxC (a : texp) (i : N)                (* a[i], constant index *)
| XIdx (a i : texp)                       (* a[i], run-time index into a vector or an array *)
| XSlice (a : texp) (hi lo : N)           (* a[hi:lo] *)
| XView (v : view) (a : texp)             (* .unsigned .signed .bitvector *)
| XResize (a : texp) (n zeros : N)        (* a.resize(n, zeros=zeros) *)
| XIte (c a b : texp)                     (* a if c else b *)
| XSel (s : texp) (br : list (Z * texp)) (d : option texp)    (* select_with(s, {key: e ...}, default) *)
| XAny (l : list texp)
| XAll (l : list texp)
| XArr (l : list texp).                   (* an array whose elements are driven by these expressions *)

(** ** documented result types *)

Definition arith_width (op : bop) (wa wb : N) : N :=
  match op with
  | BAdd | BSub => N.max wa wb
  | BMul => wa + wb
  | BTruncDiv => wa
  | _ => wb
  end.

(* one operand is an int: it takes the type of the vector operand *)
Definition arith_width_int (op : bop) (w : N) : N := match op with BMul => w + w | _ => w end.

Definition bin_ty (op : bop) (ta tb : ty) : option ty :=
  match ta, tb with
  | Ty ka wa, Ty kb wb =>
      match op with
      | BAdd | BSub | BMul | BTruncDiv | BMod | BRem =>
          match ka, kb with
          | KU, KU | KS, KS => Some (Ty ka (arith_width op wa wb))
          | (KU | KS), KInt => Some (Ty ka (arith_width_int op wa))
          | KInt, (KU | KS) => Some (Ty kb (arith_width_int op wb))
          | KInt, KInt => Some (Ty KInt 0)
          | _, _ => None
          end
      | BAnd | BOr | BXor =>
          match ka with
          | KBit | KBV | KU | KS => if kind_eqb ka kb && (wa =? wb)%N then Some (Ty ka wa) else None
          | _ => None
          end
      | BConcat =>
          if (is_vec ka || kind_eqb ka KBit) && (is_vec kb || kind_eqb kb KBit) then Some (Ty KBV (wa + wb)) else None
      | BShl | BShr =>
          match ka, kb with
          | (KU | KS), (KU | KInt) => Some (Ty ka wa)
          | _, _ => None
          end
      | BAndL | BOrL => if can_bool ka && can_bool kb then Some (Ty KBool 1) else None
      end
  | _, _ => None
  end.

Definition is_eq (op : cop) : bool := match op with CEq | CNe => true | _ => false end.

Definition cmp_ok (op : cop) (ta tb : ty) : bool :=
  match ta, tb with
  | Ty ka wa, Ty kb wb =>
      match ka, kb with
      | KU, KU | KS, KS | KU, KInt | KInt, KU | KS, KInt | KInt, KS | KInt, KInt => true
      | KBV, KBV | KEnum, KEnum => is_eq op && (wa =? wb)%N
      | KBit, KBit | KBool, KBool => is_eq op
      | _, _ => false
      end
  | _, _ => false
  end.

Definition un_ty (op : uop) (t : ty) : option ty :=
  match t with
  | Ty k w =>
      match op, k with
      | NInv, (KBit | KBV | KU | KS) => Some t
      | NNeg, (KU | KS | KInt) => Some t
      | NAbs, KS => Some t
      | NNot, _ => if can_bool k then Some (Ty KBool 1) else None
      | _, _ => None
      end
  | _ => None
  end.

(** the common type of the alternatives of an if-expression / select_with: same kind; Unsigned / Signed
    alternatives are extended to the widest *)
Definition join_ty (ta tb : ty) : option ty :=
  match ta, tb with
  | Ty ka wa, Ty kb wb =>
      if kind_eqb ka kb then
        match ka with
        | KU | KS => Some (Ty ka (N.max wa wb))
        | _ => if (wa =? wb)%N then Some ta else None
        end
      else None
  | _, _ => None
  end.

Definition join_opt (a : option ty) (b : option ty) : option ty :=
  match a, b with Some x, Some y => join_ty x y | _, _ => None end.

Fixpoint join_all (first : option ty) (l : list (option ty)) : option ty :=
  match l with
  | [] => first
  | x :: r => join_all (join_opt first x) r
  end.

Definition view_kind (v : view) : kind := match v with VwU => KU | VwS => KS | VwBV => KBV end.

Definition bool_ty (t : option ty) : bool :=
  match t with Some (Ty k _) => can_bool k | _ => false end.

Fixpoint chain_ok (prev : option ty) (l : list (cop * option ty)) : bool :=
  match l with
  | [] => true
  | (op, t) :: r =>
      match prev, t with
      | Some a, Some b => cmp_ok op a b && chain_ok t r
      | _, _ => false
      end
  end.

Fixpoint same_all (t : ty) (l : list (option ty)) : bool :=
  match l with
  | [] => true
  | Some x :: r => ty_eqb t x && same_all t r
  | None :: _ => false
  end.

Fixpoint tyof (e : texp) : option ty :=
  match e with
  | XIn _ t => if wf_ty t then Some t else None
  | XConst k w z => if wf_scalar k w && in_range k w z then Some (Ty k w) else None
  | XUn op a => match tyof a with Some t => un_ty op t | None => None end
  | XBin op a b => match tyof a, tyof b with Some ta, Some tb => bin_ty op ta tb | _, _ => None end
  | XCmp op a b =>
      match tyof a, tyof b with
      | Some ta, Some tb => if cmp_ok op ta tb then Some (Ty KBool 1) else None
      | _, _ => None
      end
  | XChain a rest =>
      match rest with
      | [] => None
      | _ => if chain_ok (tyof a) (map (fun p => (fst p, tyof (snd p))) rest) then Some (Ty KBool 1) else None
      end
  | XIdxC a i =>
      match tyof a with
      | Some (Ty k w) => if is_vec k && (i <? w)%N then Some (Ty KBit 1) else None
      | _ => None
      end
  | XIdx a i =>
      match tyof a, tyof i with
      | Some (Ty k w), Some (Ty (KU | KInt) _) => if is_vec k then Some (Ty KBit 1) else None
      | Some (TyArr k w n), Some (Ty (KU | KInt) _) => Some (Ty k w)
      | _, _ => None
      end
  | XSlice a hi lo =>
      match tyof a with
      | Some (Ty k w) => if is_vec k && (lo <=? hi)%N && (hi <? w)%N then Some (Ty KBV (hi - lo + 1)) else None
      | _ => None
      end
  | XView v a =>
      match tyof a with
      | Some (Ty k w) => if is_vec k then Some (Ty (view_kind v) w) else None
      | _ => None
      end
  | XResize a n zeros =>
      match tyof a with
      | Some (Ty ((KU | KS) as k) w) => if (w + zeros <=? n)%N then Some (Ty k n) else None
      | _ => None
      end
  | XIte c a b => if bool_ty (tyof c) then join_opt (tyof a) (tyof b) else None
  | XSel s br d =>
      match tyof s with
      | Some (Ty ks ws) =>
          if (negb (kind_eqb ks KInt)) && forallb (fun p => in_range ks ws (fst p)) br then
            match map (fun p => tyof (snd p)) br ++ (match d with Some x => [tyof x] | None => [] end) with
            | [] => None
            | t :: r => join_all t r
            end
          else None
      | _ => None
      end
  | XAny l | XAll l =>
      match l with [] => None | _ => if forallb (fun x => bool_ty (tyof x)) l then Some (Ty KBool 1) else None end
  | XArr l =>
      match map tyof l with
      | Some (Ty k w) :: r => if same_all (Ty k w) r then Some (TyArr k w (N.of_nat (length l))) else None
      | _ => None
      end
  end.

(** ** documented values *)

Definition cmp_val (op : cop) (x y : Z) : bool :=
  match op with
  | CEq => x =? y | CNe => negb (x =? y)
  | CLt => x <? y | CLe => x <=? y | CGt => y <? x | CGe => y <=? x
  end.


(** the mathematical result of a binary operator; [None] = undefined point *)
Definition bin_val (op : bop) (ka : kind) (wa : N) (za : Z) (kb : kind) (wb : N) (zb' : Z) : option Z :=
  match op with
  | BAdd => Some (za + zb')
  | BSub => Some (za - zb')
  | BMul => Some (za * zb')
  | BTruncDiv => if zb' =? 0 then None else Some (Z.quot za zb')      (* rounds toward zero *)
  | BMod => if zb' =? 0 then None else Some (Z.modulo za zb')        (* sign of the divisor *)
  | BRem => if zb' =? 0 then None else Some (Z.rem za zb')           (* sign of the dividend *)
  | BAnd => Some (Z.land za zb')
  | BOr => Some (Z.lor za zb')
  | BXor => Some (Z.lxor za zb')
  | BConcat => Some (pat ka wa za * pow2 wb + pat kb wb zb')         (* left operand = most significant bits *)
  | BShl => if zb' <? 0 then None else Some (za * 2 ^ zb')
  | BShr => if zb' <? 0 then None else Some (za / 2 ^ zb')           (* rounds down: zero fill (U), sign fill (S) *)
  | BAndL => Some (zb (truthy za && truthy zb'))
  | BOrL => Some (zb (truthy za || truthy zb'))
  end.

Definition bin_eval (op : bop) (a b : tval) : tval :=
  match a, b with
  | TV ka wa za, TV kb wb zb' =>
      match bin_ty op (Ty ka wa) (Ty kb wb) with
      | Some (Ty k w) => match bin_val op ka wa za kb wb zb' with Some z => mk k w z | None => TUndef end
      | _ => TUndef
      end
  | _, _ => TUndef
  end.

Definition cmp_eval (op : cop) (a b : tval) : tval :=
  match a, b with
  | TV ka wa za, TV kb wb zb' =>
      if cmp_ok op (Ty ka wa) (Ty kb wb) then TV KBool 1 (zb (cmp_val op za zb')) else TUndef
  | _, _ => TUndef
  end.

Definition un_val (op : uop) (z : Z) : Z :=
  match op with
  | NInv => - z - 1          (* every bit flipped *)
  | NNeg => - z
  | NAbs => Z.abs z
  | NNot => zb (negb (truthy z))
  end.

Definition un_eval (op : uop) (a : tval) : tval :=
  match a with
  | TV k w z => match un_ty op (Ty k w) with Some (Ty k' w') => mk k' w' (un_val op z) | _ => TUndef end
  | _ => TUndef
  end.

(** conversion of an alternative to the common type (value preserving: zero / sign extension) *)
Definition conv (t : option ty) (v : tval) : tval :=
  match t, v with
  | Some (Ty k w), TV k' w' z => if kind_eqb k k' then mk k w z else TUndef
  | _, _ => TUndef
  end.

Definition tyv (v : tval) : option ty :=
  match v with
  | TV k w _ => Some (Ty k w)
  | TA k w l => Some (TyArr k w (N.of_nat (length l)))
  | TUndef => None
  end.

Definition defined (v : tval) : bool := match v with TUndef => false | _ => true end.

Fixpoint chain_eval (prev : tval) (l : list (cop * tval)) : tval :=
  match l with
  | [] => TV KBool 1 1
  | (op, v) :: r =>
      match cmp_eval op prev v, chain_eval v r with
      | TV _ _ x, TV _ _ y => TV KBool 1 (zb (truthy x && truthy y))
      | _, _ => TUndef
      end
  end.

Definition bool_of (v : tval) : option bool :=
  match v with TV k _ z => if can_bool k then Some (truthy z) else None | _ => None end.

Fixpoint any_eval (l : list tval) : option bool :=
  match l with
  | [] => Some false
  | v :: r => match bool_of v, any_eval r with Some x, Some y => Some (x || y) | _, _ => None end
  end.

Fixpoint all_eval (l : list tval) : option bool :=
  match l with
  | [] => Some true
  | v :: r => match bool_of v, all_eval r with Some x, Some y => Some (x && y) | _, _ => None end
  end.

(** first branch whose key equals the selector, otherwise the default *)
Fixpoint sel_pick (z : Z) (br : list (Z * tval)) (d : option tval) : option tval :=
  match br with
  | [] => d
  | (key, v) :: r => if z =? key then Some v else sel_pick z r d
  end.

Fixpoint arr_vals (k : kind) (w : N) (l : list tval) : option (list Z) :=
  match l with
  | [] => Some []
  | TV k' w' z :: r =>
      if kind_eqb k k' && (w =? w')%N then match arr_vals k w r with Some zs => Some (z :: zs) | None => None end
      else None
  | _ :: _ => None
  end.

Definition env := list tval.

Fixpoint xeval (en : env) (e : texp) : tval :=
  match e with
  | XIn k t => let v := nth k en TUndef in if wf_ty t && vok t v then v else TUndef
  | XConst k w z => if wf_scalar k w && in_range k w z then TV k w z else TUndef
  | XUn op a => un_eval op (xeval en a)
  | XBin op a b => bin_eval op (xeval en a) (xeval en b)
  | XCmp op a b => cmp_eval op (xeval en a) (xeval en b)
  | XChain a rest =>
      match rest with
      | [] => TUndef
      | _ => chain_eval (xeval en a) (map (fun p => (fst p, xeval en (snd p))) rest)
      end
  | XIdxC a i =>
      match xeval en a with
      | TV k w z => if is_vec k && (i <? w)%N then TV KBit 1 (zb (bitof (pat k w z) i)) else TUndef
      | _ => TUndef
      end
  | XIdx a i =>
      match xeval en a, xeval en i with
      | TV k w z, TV (KU | KInt) _ n =>
          if is_vec k then
            if (0 <=? n) && (n <? Z.of_N w) then TV KBit 1 (zb (bitof (pat k w z) (Z.to_N n))) else TUndef
          else TUndef
      | TA k w l, TV (KU | KInt) _ n =>
          if (0 <=? n) && (n <? Z.of_nat (length l)) then TV k w (nth (Z.to_nat n) l 0) else TUndef
      | _, _ => TUndef
      end
  | XSlice a hi lo =>
      match xeval en a with
      | TV k w z =>
          if is_vec k && (lo <=? hi)%N && (hi <? w)%N
          then mk KBV (hi - lo + 1) (getslice (pat k w z) lo (hi - lo + 1)) else TUndef
      | _ => TUndef
      end
  | XView v a =>
      match xeval en a with
      | TV k w z => if is_vec k then mk (view_kind v) w (pat k w z) else TUndef
      | _ => TUndef
      end
  | XResize a n zeros =>
      match xeval en a with
      | TV ((KU | KS) as k) w z => if (w + zeros <=? n)%N then mk k n (z * pow2 zeros) else TUndef
      | _ => TUndef
      end
  | XIte c a b =>
      let va := xeval en a in
      let vb := xeval en b in
      match bool_of (xeval en c) with
      | Some cb =>
          let t := join_opt (tyv va) (tyv vb) in
          if defined (conv t va) && defined (conv t vb) then (if cb then conv t va else conv t vb) else TUndef
      | None => TUndef
      end
  | XSel s br d =>
      match xeval en s with
      | TV ks ws z =>
          let vs := map (fun p => (fst p, xeval en (snd p))) br in
          let vd := match d with Some x => Some (xeval en x) | None => None end in
          let all := map snd vs ++ (match vd with Some x => [x] | None => [] end) in
          if negb (kind_eqb ks KInt) && forallb (fun p => in_range ks ws (fst p)) br then
            match map tyv all with
            | [] => TUndef
            | t0 :: r =>
                let t := join_all t0 r in
                if forallb (fun v => defined (conv t v)) all then
                  match sel_pick z vs vd with Some v => conv t v | None => TUndef end
                else TUndef
            end
          else TUndef
      | _ => TUndef
      end
  | XAny l =>
      match l with
      | [] => TUndef
      | _ => match any_eval (map (xeval en) l) with Some b => TV KBool 1 (zb b) | None => TUndef end
      end
  | XAll l =>
      match l with
      | [] => TUndef
      | _ => match all_eval (map (xeval en) l) with Some b => TV KBool 1 (zb b) | None => TUndef end
      end
  | XArr l =>
      match map (xeval en) l with
      | TV k w z :: r => match arr_vals k w r with Some zs => TA k w (z :: zs) | None => TUndef end
      | _ => TUndef
      end
  end.

(** ** the stateless reference machine: output = documented value of the expression on this step's inputs *)

Definition scalar_value (k : kind) (w : N) (z : Z) : value :=
  match k with
  | KBit => VL (truthy z)
  | KBool => VB (truthy z)
  | KBV => VV KSlv w z
  | KU => VV KUns w z
  | KS => VV KSgn w (wrap w z)
  | KInt => VI z
  | KEnum => VE (Z.to_N z)
  end.

Definition to_value (v : tval) : value :=
  match v with
  | TV k w z => scalar_value k w z
  | TA k w l => VA (map (scalar_value k w) l)
  | TUndef => VI 0
  end.

Definition of_value (t : ty) (v : value) : tval :=
  match t, v with
  | Ty KBit _, VL b => TV KBit 1 (zb b)
  | Ty KBool _, VB b => TV KBool 1 (zb b)
  | Ty KBV w, VV KSlv w' z => if (w =? w')%N then TV KBV w z else TUndef
  | Ty KU w, VV KUns w' z => if (w =? w')%N then TV KU w z else TUndef
  | Ty KS w, VV KSgn w' z => if (w =? w')%N then TV KS w (sval w z) else TUndef
  | Ty KInt _, VI z => TV KInt 0 z
  | Ty KEnum n, VE k => TV KEnum n (Z.of_N k)
  | _, _ => TUndef
  end.

Definition decode (its : list ty) (inp : list value) : env :=
  map (fun p => of_value (fst p) (snd p)) (combine its inp).

Definition expr_step (its : list ty) (e : texp) : rstep := fun st inp =>
  (st, match xeval (decode its inp) e with
       | TUndef => Err EUninit
       | v => Ok [to_value v]
       end).

(** the environment assumption of a case: the expression is defined on this valuation *)
Definition expr_defined (its : list ty) (e : texp) : list Z -> list value -> bool :=
  fun _ inp => defined (xeval (decode its inp) e).

(** several expressions over the same inputs (one output port each) *)
Fixpoint outs (en : env) (es : list texp) : option (list value) :=
  match es with
  | [] => Some []
  | e :: r =>
      match xeval en e, outs en r with
      | TUndef, _ => None
      | v, Some l => Some (to_value v :: l)
      | _, None => None
      end
  end.

Definition exprs_step (its : list ty) (es : list texp) : rstep := fun st inp =>
  (st, match outs (decode its inp) es with Some l => Ok l | None => Err EUninit end).

Definition exprs_defined (its : list ty) (es : list texp) : list Z -> list value -> bool :=
  fun _ inp => match outs (decode its inp) es with Some _ => true | None => false end.
