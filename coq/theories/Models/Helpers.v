(** * Models of the std combinational helpers (property C18)

    Anchors: cohdl/std/_core_utility.py, cohdl/std/_crc.py.

    Bit vectors are [list bool], LSB first (index 0 of the cohdl vector is the head).
    [a @ b] of cohdl puts [a] in the high part: [cat a b = b ++ a].
    Numbers with a width ([Unsigned[w]] results of the counting helpers) are pairs
    [(w, v) : nat * Z].  [None] stands for "the helper raises".

    Every helper has a model (suffix [_m] or the python name) that mirrors the recursion
    of the code, and a specification (suffix [_spec]) that is the mathematical definition.
    Proofs are in HelpersProofs.v. *)
From Coq Require Import ZArith NArith List Bool Lia PeanoNat.
Import ListNotations.
From Cohdl Require Import Base.Bits.

Notation bits := (list bool) (only parsing).

Definition obind {A B} (o : option A) (f : A -> option B) : option B :=
  match o with Some x => f x | None => None end.

Fixpoint oseq {A} (l : list (option A)) : option (list A) :=
  match l with
  | [] => Some []
  | None :: _ => None
  | Some x :: r => match oseq r with Some r' => Some (x :: r') | None => None end
  end.

(** python int.bit_length *)
Definition bitlen (n : nat) : nat :=
  if (n =? 0)%nat then 0%nat else S (Z.to_nat (Z.log2 (Z.of_nat n))).

(** Unsigned.upto(n).width *)
Definition upto_width (n : nat) : nat := if (n =? 0)%nat then 1%nat else bitlen n.

Definition p2 (w : nat) : Z := (2 ^ Z.of_nat w)%Z.

(* ------------------------------------------------------------------------- *)
(** ** binary_fold / _batch_args / batched_fold  (l.622-654) *)

Section Fold.
  Context {A : Type} (f : A -> A -> A).

  (** [binary_fold(fn, [first, snd, *rest])  = binary_fold(fn, [fn(first, snd), *rest])] *)
  Fixpoint binary_fold_l (first : A) (rest : list A) : A :=
    match rest with
    | [] => first
    | snd :: r => binary_fold_l (f first snd) r
    end.

  (** [right_fold=True]: [fn(first, binary_fold(fn, rest, right_fold=True))] *)
  Fixpoint binary_fold_r (first : A) (rest : list A) : A :=
    match rest with
    | [] => first
    | snd :: r => f first (binary_fold_r snd r)
    end.

  Definition binary_fold (right : bool) (args : list A) : option A :=
    match args with
    | [] => None      (* ValueError: not enough values to unpack *)
    | x :: r => Some (if right then binary_fold_r x r else binary_fold_l x r)
    end.

  (** left fold with a default for the (unreachable) empty list *)
  Definition binary_fold_d (d : A) (args : list A) : A :=
    match args with [] => d | x :: r => binary_fold_l x r end.
End Fold.

(** [_batch_args]: [args[nr : nr + batch_size] for nr in range(0, len(args), batch_size)] *)
Fixpoint chunks_fuel {A} (fuel : nat) (bs : nat) (args : list A) : list (list A) :=
  match fuel with
  | O => []
  | S k => match args with
           | [] => []
           | _ => firstn bs args :: chunks_fuel k bs (skipn bs args)
           end
  end.

Definition batch_args {A} (bs : nat) (args : list A) : list (list A) := chunks_fuel (length args) bs args.

Section BFold.
  Context {A : Type} (f : A -> A -> A).

  (** the outer recursive call does not forward [batch_size]: it runs with the default 2 *)
  Fixpoint batched_fold_fuel (fuel : nat) (d : A) (bs : nat) (args : list A) : A :=
    match fuel with
    | O => binary_fold_d f d args
    | S k =>
        if (length args <=? bs)%nat then binary_fold_d f d args
        else batched_fold_fuel k d 2 (map (batched_fold_fuel k d bs) (batch_args bs args))
    end.

  Definition batched_fold (bs : nat) (args : list A) : option A :=
    match args with
    | [] => None
    | d :: _ =>
        if (length args <=? bs)%nat then Some (binary_fold_d f d args)
        else if (bs =? 0)%nat then None     (* range() arg 3 must not be zero *)
        else Some (batched_fold_fuel (length args + 2) d bs args)
    end.
End BFold.

(** specification of the folds: the sequential left fold *)
Definition fold1 {A} (f : A -> A -> A) (d : A) (l : list A) : A :=
  match l with [] => d | x :: r => fold_left f r x end.

(** shape of a fold with a free (non-associative) operator: used by the correspondence run *)
Inductive tree := Leaf (n : nat) | Node (a b : tree).

Fixpoint tree_eqb (a b : tree) : bool :=
  match a, b with
  | Leaf x, Leaf y => (x =? y)%nat
  | Node a1 a2, Node b1 b2 => tree_eqb a1 b1 && tree_eqb a2 b2
  | _, _ => false
  end.

(* ------------------------------------------------------------------------- *)
(** ** concat / repeat / stretch / pads  (l.657-791) *)

Definition cat (a b : bits) : bits := b ++ a.

Definition concat_m (xs : list bits) : option bits :=
  match xs with
  | [] => None                 (* missing positional argument *)
  | [x] => Some x
  | _ => batched_fold cat 2 xs
  end.

(** concat(x0, x1, ..., xk): x0 is the most significant part *)
Definition concat_spec (xs : list bits) : bits := List.concat (rev xs).

(** [pow2_list] filtered by the binary digits of [times] (least significant digit first) *)
Fixpoint repeat_sel (v : bits) (p : positive) : list bits :=
  match p with
  | xH => [v]
  | xO q => repeat_sel (cat v v) q
  | xI q => v :: repeat_sel (cat v v) q
  end.

Definition repeat_m (v : bits) (times : nat) : option bits :=
  match N.of_nat times with
  | N0 => None
  | Npos p => concat_m (repeat_sel v p)
  end.

Definition repeat_spec (v : bits) (times : nat) : bits := List.concat (List.repeat v times).

(** stretch(Bit, factor) = repeat(bit, factor);
    stretch(vector, factor) = concat of [stretch(b, factor) for b in val][::-1] *)
Definition stretch_m (isbit : bool) (v : bits) (factor : nat) : option bits :=
  if (factor =? 0)%nat then None
  else if isbit then repeat_m v factor
  else if (factor =? 1)%nat then Some v
  else obind (oseq (map (fun b => repeat_m [b] factor) v)) (fun parts => concat_m (rev parts)).

Definition stretch_spec (v : bits) (factor : nat) : bits := flat_map (fun b => List.repeat b factor) v.

Definition leftpad_m (inp : bits) (rw : nat) (fill : bool) : option bits :=
  let w := length inp in
  if (rw <? w)%nat then None
  else if (w =? rw)%nat then Some inp
  else obind (stretch_m true [fill] (rw - w)) (fun s => Some (cat s inp)).

Definition rightpad_m (inp : bits) (rw : nat) (fill : bool) : option bits :=
  let w := length inp in
  if (rw <? w)%nat then None
  else if (w =? rw)%nat then Some inp
  else obind (stretch_m true [fill] (rw - w)) (fun s => Some (cat inp s)).

Definition pad_m (inp : bits) (left right : nat) (fill : bool) : option bits :=
  if ((left =? 0) && (right =? 0))%nat then Some inp
  else
    obind (if (left =? 0)%nat then Some inp
           else obind (stretch_m true [fill] left) (fun s => Some (cat s inp)))
      (fun left_padded =>
         if (right =? 0)%nat then Some left_padded
         else obind (stretch_m true [fill] right) (fun s => Some (cat left_padded s))).

Definition leftpad_spec (inp : bits) (rw : nat) (fill : bool) : bits := inp ++ List.repeat fill (rw - length inp).
Definition rightpad_spec (inp : bits) (rw : nat) (fill : bool) : bits := List.repeat fill (rw - length inp) ++ inp.
Definition pad_spec (inp : bits) (left right : nat) (fill : bool) : bits :=
  List.repeat fill right ++ inp ++ List.repeat fill left.

(* ------------------------------------------------------------------------- *)
(** ** rol / ror / lshift_fill / rshift_fill  (l.825-862) *)

(** [inp.lsb(rest=n) @ inp.msb(n)] *)
Definition rol_m (v : bits) (n : nat) : option bits :=
  let w := length v in
  if (w <? n)%nat then None
  else if ((n =? 0) || (n =? w))%nat then Some v
  else Some (cat (firstn (w - n) v) (skipn (w - n) v)).

(** [inp.lsb(n) @ inp.msb(rest=n)] *)
Definition ror_m (v : bits) (n : nat) : option bits :=
  let w := length v in
  if (w <? n)%nat then None
  else if ((n =? 0) || (n =? w))%nat then Some v
  else Some (cat (firstn n v) (skipn n v)).

(** rotation as an index permutation: result[i] = v[(i - n) mod w]  /  v[(i + n) mod w] *)
Definition rol_spec (v : bits) (n : nat) : bits :=
  let w := length v in map (fun i => nth ((i + (w - n)) mod w) v false) (seq 0 w).
Definition ror_spec (v : bits) (n : nat) : bits :=
  let w := length v in map (fun i => nth ((i + n) mod w) v false) (seq 0 w).

Definition lshift_fill_m (val fill : bits) : option bits :=
  let wv := length val in let wf := length fill in
  if (wf =? wv)%nat then Some fill
  else if (wv <? wf)%nat then None
  else Some (cat (firstn (wv - wf) val) fill).

Definition rshift_fill_m (val fill : bits) : option bits :=
  let wv := length val in let wf := length fill in
  if (wf =? wv)%nat then Some fill
  else if (wv <? wf)%nat then None
  else Some (cat fill (skipn wf val)).

(** shift register view: the low / high [length val] bits of the concatenation *)
Definition lshift_fill_spec (val fill : bits) : bits := firstn (length val) (fill ++ val).
Definition rshift_fill_spec (val fill : bits) : bits := skipn (length fill) (val ++ fill).

(* ------------------------------------------------------------------------- *)
(** ** apply_mask / Mask  (l.794-812) *)

Fixpoint map2 {A B C} (f : A -> B -> C) (a : list A) (b : list B) : list C :=
  match a, b with
  | x :: a', y :: b' => f x y :: map2 f a' b'
  | _, _ => []
  end.

Definition band := map2 andb.
Definition bor := map2 orb.
Definition bxor := map2 xorb.
Definition bnot := map negb.

Definition apply_mask_m (old new mask : bits) : option bits :=
  if ((length old =? length new) && (length old =? length mask))%nat
  then Some (bor (band old (bnot mask)) (band new mask))
  else None.

Fixpoint apply_mask_spec (old new mask : bits) : bits :=
  match old, new, mask with
  | o :: old', n :: new', m :: mask' => (if m then n else o) :: apply_mask_spec old' new' mask'
  | _, _, _ => []
  end.

Inductive maskv := MNull | MFull | MVec (m : bits).

Definition mask_apply_m (m : maskv) (old new : bits) : option bits :=
  match m with
  | MNull => Some old
  | MFull => Some new
  | MVec v => apply_mask_m old new v
  end.

Definition mask_as_vector_m (m : maskv) (w : nat) : option bits :=
  mask_apply_m m (List.repeat false w) (List.repeat true w).

Definition mask_as_vector_spec (m : maskv) (w : nat) : bits :=
  match m with MNull => List.repeat false w | MFull => List.repeat true w | MVec v => v end.

(* ------------------------------------------------------------------------- *)
(** ** batched / select_batch  (l.865-885) *)

Definition batched_m (input : bits) (n : nat) (allow_partial : bool) : option (list bits) :=
  if (n =? 0)%nat then None
  else if ((length input mod n =? 0)%nat || allow_partial) then Some (batch_args n input)
  else None.

(** k-th batch = bits [k*n, min((k+1)*n, w)) *)
Definition batched_spec (input : bits) (n : nat) : list bits :=
  map (fun k => firstn n (skipn (k * n) input)) (seq 0 ((length input + n - 1) / n)).

Definition select_batch_m (input sel : bits) (bs : nat) : option bits :=
  if negb (length input =? length sel * bs)%nat then None
  else obind (stretch_m false sel bs) (fun st =>
       obind (batched_m (band input st) bs false) (fun bl => batched_fold bor 2 bl)).

(** OR of the batches whose selector bit is set *)
Definition select_batch_spec (input sel : bits) (bs : nat) : bits :=
  fold_left bor
    (map (fun sc : bool * bits => if fst sc then snd sc else List.repeat false bs) (combine sel (batched_spec input bs)))
    (List.repeat false bs).

(* ------------------------------------------------------------------------- *)
(** ** minimum / maximum / min_element / ... (l.896-927)  *)

Section MinMax.
  Context {E K : Type} (cmp : K -> K -> bool) (key : E -> K).

  Definition pick (a b : E) : E := if cmp (key a) (key b) then a else b.

  (** the elements are reversed before the fold *)
  Definition minimum_m (xs : list E) : option E := batched_fold pick 2 (rev xs).

  (** sequential scan, an element replaces the current best only if strictly better *)
  Definition minimum_spec (d : E) (xs : list E) : E :=
    fold1 (fun best y => if cmp (key y) (key best) then y else best) d xs.
End MinMax.

Section MinElem.
  Context {E K : Type} (cmp : K -> K -> bool) (key : E -> K).

  Definition indexed (xs : list E) : list (nat * E) := combine (seq 0 (length xs)) xs.

  Definition min_element_m (xs : list E) : option (nat * E) :=
    minimum_m cmp (fun x : nat * E => key (snd x)) (indexed xs).

  Definition min_index_m (xs : list E) : option nat :=
    option_map fst (min_element_m xs).
End MinElem.

(** min_index evaluates the keys first and compares them directly *)
Definition min_index_keys_m {E K} (cmp : K -> K -> bool) (key : E -> K) (xs : list E) : option nat :=
  option_map fst (min_element_m cmp (fun k : K => k) (map key xs)).

(** first index whose key is extremal *)
Fixpoint first_best_from {K} (cmp : K -> K -> bool) (besti : nat) (best : K) (i : nat) (ks : list K) : nat :=
  match ks with
  | [] => besti
  | k :: r => if cmp k best then first_best_from cmp i k (S i) r else first_best_from cmp besti best (S i) r
  end.

Definition min_index_spec {K} (cmp : K -> K -> bool) (ks : list K) : nat :=
  match ks with [] => 0%nat | k :: r => first_best_from cmp 0 k 1 r end.

(* ------------------------------------------------------------------------- *)
(** ** count, count_set_bits, count_clear_bits (l.930-1019) *)

Definition uns := (nat * Z)%type.

(** [Unsigned[max(a.width, b.width) + 1](a) + b]; Unsigned addition wraps at the result width *)
Definition safe_add (a b : uns) : uns :=
  let w := S (Nat.max (fst a) (fst b)) in (w, ((snd a + snd b) mod p2 w)%Z).

(** [result.lsb(result_width).unsigned] when the widths differ *)
Definition fit_width (rw : nat) (r : uns) : option uns :=
  if (fst r =? rw)%nat then Some r
  else if (fst r <? rw)%nat then None
  else Some (rw, (snd r mod p2 rw)%Z).

Definition count_m (flags : list bool) : option uns :=
  match flags with
  | [] => Some (1%nat, 0%Z)
  | _ =>
      let initial := map (fun b : bool => (1%nat, if b then 1%Z else 0%Z)) flags in
      obind (batched_fold safe_add 2 initial) (fit_width (bitlen (length flags)))
  end.

Definition count_true (l : list bool) : Z := Z.of_nat (count_occ bool_dec l true).

Definition count_spec (flags : list bool) : uns :=
  match flags with [] => (1%nat, 0%Z) | _ => (bitlen (length flags), count_true flags) end.

(** [nr.bit_count()] of the lookup tables *)
Fixpoint pos_bit_count (p : positive) : Z :=
  match p with xH => 1%Z | xO q => pos_bit_count q | xI q => (1 + pos_bit_count q)%Z end.
Definition bit_count (z : Z) : Z := match z with Zpos p => pos_bit_count p | _ => 0%Z end.

(** [_set_bit_map(w)[vector.unsigned]] *)
Definition set_bits_lookup (chunk : bits) : uns :=
  (upto_width (length chunk), bit_count (bits_to_Z chunk)).
Definition clear_bits_lookup (chunk : bits) : uns :=
  (upto_width (length chunk), (Z.of_nat (length chunk) - bit_count (bits_to_Z chunk))%Z).

Definition count_bits_m (lookup : bits -> uns) (vector : bits) (bs : nat) : option uns :=
  obind (batched_m vector bs true) (fun bl =>
  obind (batched_fold safe_add 2 (map lookup bl)) (fit_width (bitlen (length vector)))).

Definition count_set_bits_m := count_bits_m set_bits_lookup.
Definition count_clear_bits_m := count_bits_m clear_bits_lookup.

Definition count_set_bits_spec (vector : bits) : uns := (bitlen (length vector), count_true vector).
Definition count_clear_bits_spec (vector : bits) : uns :=
  (bitlen (length vector), (Z.of_nat (length vector) - count_true vector)%Z).

(* ------------------------------------------------------------------------- *)
(** ** clamp (l.1022) *)

(** [rng]: the representable range of [base_type(val)] ([None] for python int) *)
Definition clamp_m (rng : option (Z * Z)) (val low high : Z) : option Z :=
  let fits z := match rng with None => true | Some (lo, hi) => ((lo <=? z) && (z <=? hi))%Z end in
  if fits low && fits high then
    Some (if (val <? low)%Z then low else if (high <? val)%Z then high else val)
  else None.

Definition clamp_spec (val low high : Z) : Z := Z.max low (Z.min high val).

(* ------------------------------------------------------------------------- *)
(** ** choose_first / select / cond, count_elements_while/until, leading/trailing (l.454, 1034-1081) *)

Fixpoint first_impl {A} (args : list (bool * A)) (default : A) : A :=
  match args with
  | [] => default
  | first :: rest => if fst first then snd first else first_impl rest default
  end.

(** specification: the value of the first pair whose condition holds *)
Definition choose_first_spec {A} (args : list (bool * A)) (default : A) : A :=
  match find (fun p : bool * A => fst p) args with Some p => snd p | None => default end.

Fixpoint select_m {A} (arg : Z) (branches : list (Z * A)) (default : A) : A :=
  match branches with
  | [] => default
  | (k, v) :: r => if (k =? arg)%Z then v else select_m arg r default
  end.

Definition cond_m {A} (c : bool) (a b : A) : A := if c then a else b.

(** [flags]: elem == val per element *)
Definition count_elements_while_m (flags : list bool) : uns :=
  let n := length flags in
  (upto_width n,
   Z.of_nat (first_impl (combine (map negb flags) (seq 0 n)) n)).

Definition count_elements_until_m (flags : list bool) : uns :=
  let n := length flags in
  (upto_width n,
   Z.of_nat (first_impl (combine flags (seq 0 n)) n)).

(** length of the longest prefix on which [p] holds *)
Fixpoint prefix_len {A} (p : A -> bool) (l : list A) : nat :=
  match l with
  | [] => 0%nat
  | x :: r => if p x then S (prefix_len p r) else 0%nat
  end.

Definition count_elements_while_spec (flags : list bool) : uns :=
  (upto_width (length flags), Z.of_nat (prefix_len (fun b => b) flags)).
Definition count_elements_until_spec (flags : list bool) : uns :=
  (upto_width (length flags), Z.of_nat (prefix_len negb flags)).

(** reverse_bits(inp) = concat of the bits of inp *)
Definition reverse_bits_m (v : bits) : option bits := concat_m (map (fun b => [b]) v).

Definition count_trailing_m (b : bool) (v : bits) : uns := count_elements_while_m (map (Bool.eqb b) v).
Definition count_leading_m (b : bool) (v : bits) : option uns :=
  option_map (count_trailing_m b) (reverse_bits_m v).

Definition count_trailing_spec (b : bool) (v : bits) : uns :=
  (upto_width (length v), Z.of_nat (prefix_len (Bool.eqb b) v)).
Definition count_leading_spec (b : bool) (v : bits) : uns :=
  (upto_width (length v), Z.of_nat (prefix_len (Bool.eqb b) (rev v))).

(* ------------------------------------------------------------------------- *)
(** ** one_hot / is_one_hot (l.375-386) *)

(** [(Unsigned[width](1) << bit_pos).bitvector] *)
Definition one_hot_m (w pos : nat) : option bits :=
  if (pos <? w)%nat then Some (Z_to_bits w ((1 * 2 ^ Z.of_nat pos) mod p2 w)%Z) else None.

Definition one_hot_spec (w pos : nat) : bits := map (fun i => (i =? pos)%nat) (seq 0 w).

Fixpoint bits_eqb (a b : bits) : bool :=
  match a, b with
  | [], [] => true
  | x :: a', y :: b' => Bool.eqb x y && bits_eqb a' b'
  | _, _ => false
  end.

(** select(inp, {one_hot(l, bit): True for bit in range(l)}, False) *)
Definition is_one_hot_m (inp : bits) : bool :=
  let l := length inp in
  existsb (fun bit => match one_hot_m l bit with Some h => bits_eqb h inp | None => false end) (seq 0 l).

Definition is_one_hot_spec (inp : bits) : bool := (count_true inp =? 1)%Z.

(* ------------------------------------------------------------------------- *)
(** ** BitwiseCrc (_crc.py) *)

(** one [update(data)]: cond = reg.msb() ^ data; shifted = reg.lsb(rest=1) @ 0 *)
Definition crc_step (poly reg : bits) (data : bool) : bits :=
  let cond := xorb (last reg false) data in
  let shifted := cat (removelast reg) [false] in
  if cond then bxor shifted poly else shifted.

(** [_calc_steps(prev, first, *rest)] *)
Fixpoint calc_steps (poly prev : bits) (first : bool) (rest : list bool) : bits :=
  let result := crc_step poly prev first in
  match rest with
  | [] => result
  | d :: rest' => calc_steps poly result d rest'
  end.

Definition update_multiple (poly reg : bits) (data : list bool) : option bits :=
  match data with [] => None | d :: r => Some (calc_steps poly reg d r) end.

Definition crc_result (invert : bool) (reg : bits) : bits := if invert then bnot reg else reg.

(** a run: one update_multiple per inner list *)
Fixpoint crc_run_multi (poly reg : bits) (steps : list (list bool)) : option bits :=
  match steps with
  | [] => Some reg
  | s :: r => obind (update_multiple poly reg s) (fun reg' => crc_run_multi poly reg' r)
  end.

(** specification: schoolbook long division over GF(2) on MSB-first coefficient lists.
    [divisor_low]: the n low coefficients of the monic divisor x^n + p(x), MSB first.
    While the dividend has more than n coefficients: if the leading one is set, subtract
    (xor) the divisor aligned at the top; drop the leading coefficient. *)
Fixpoint xor_prefix (a p : list bool) : list bool :=
  match a, p with
  | x :: a', y :: p' => xorb x y :: xor_prefix a' p'
  | _, _ => a
  end.

Fixpoint poly_rem_fuel (fuel : nat) (n : nat) (divisor_low : list bool) (dividend : list bool) : list bool :=
  match fuel with
  | O => dividend
  | S k =>
      if (length dividend <=? n)%nat then dividend
      else match dividend with
           | [] => []
           | lead :: rest => poly_rem_fuel k n divisor_low (if lead then xor_prefix rest divisor_low else rest)
           end
  end.

Definition poly_rem (divisor_low dividend : list bool) : list bool :=
  poly_rem_fuel (length dividend) (length divisor_low) divisor_low dividend.

(** CRC of a message (first transmitted bit = highest coefficient) from register [init]:
    remainder of  (init * x^len(msg) + msg) * x^n  by the generator; registers are LSB first,
    polynomials MSB first *)
Definition crc_spec (poly init : bits) (msg : list bool) : bits :=
  rev (poly_rem (rev poly) (xor_prefix (msg ++ List.repeat false (length poly)) (rev init))).

(* ------------------------------------------------------------------------- *)
(** ** correspondence cases: one constructor per helper; the last argument is the recorded
    result of the real helper ([None] = raised) *)

Definition B (w : nat) (v : Z) : bits := Z_to_bits w v.

Definition range_tree (n : nat) : list tree := map Leaf (seq 0 n).

Inductive hcase :=
| HBinaryFold (right : bool) (n : nat) (r : option tree)
| HBinaryFoldSub (right : bool) (xs : list Z) (r : option Z)
| HBatchedFold (n : nat) (bs : nat) (r : option tree)
| HBatchedFoldSub (xs : list Z) (bs : nat) (r : option Z)
| HBatchArgs (n bs : nat) (r : option (list (list nat)))
| HConcat (xs : list bits) (r : option bits)
| HRepeat (v : bits) (times : nat) (r : option bits)
| HStretch (isbit : bool) (v : bits) (factor : nat) (r : option bits)
| HLeftpad (v : bits) (rw : nat) (fill : bool) (r : option bits)
| HRightpad (v : bits) (rw : nat) (fill : bool) (r : option bits)
| HPad (v : bits) (l rt : nat) (fill : bool) (r : option bits)
| HRol (v : bits) (n : nat) (r : option bits)
| HRor (v : bits) (n : nat) (r : option bits)
| HLshiftFill (v fill : bits) (r : option bits)
| HRshiftFill (v fill : bits) (r : option bits)
| HApplyMask (old new mask : bits) (r : option bits)
| HMaskApply (m : maskv) (old new : bits) (r : option bits)
| HMaskVector (m : maskv) (w : nat) (r : option bits)
| HBatched (v : bits) (n : nat) (partial : bool) (r : option (list bits))
| HSelectBatch (v sel : bits) (bs : nat) (r : option bits)
| HMinimum (ismax : bool) (xs : list (Z * Z)) (r : option (Z * Z))
| HMinElement (ismax : bool) (xs : list (Z * Z)) (r : option (uns * (Z * Z)))
| HMinIndex (ismax : bool) (xs : list (Z * Z)) (r : option uns)
| HCount (flags : list bool) (r : option uns)
| HCountSetBits (v : bits) (bs : nat) (r : option uns)
| HCountClearBits (v : bits) (bs : nat) (r : option uns)
| HClamp (rng : option (Z * Z)) (val low high : Z) (r : option Z)
| HCountWhile (flags : list bool) (r : option uns)
| HCountUntil (flags : list bool) (r : option uns)
| HCountTrailing (b : bool) (v : bits) (r : option uns)
| HCountLeading (b : bool) (v : bits) (r : option uns)
| HOneHot (w pos : nat) (r : option bits)
| HIsOneHot (v : bits) (r : option bool)
| HReverseBits (v : bits) (r : option bits)
| HChooseFirst (args : list (bool * Z)) (d : Z) (r : option Z)
| HSelect (arg : Z) (branches : list (Z * Z)) (d : Z) (r : option Z)
| HCond (c : bool) (a b : Z) (r : option Z)
| HCrcCalc (poly init : bits) (data : list bool) (r : option bits)
| HCrcRun (multi : bool) (invert : bool) (poly init : bits) (steps : list (list bool)) (r : option bits).

Definition opt_eqb {A} (eqb : A -> A -> bool) (a b : option A) : bool :=
  match a, b with
  | Some x, Some y => eqb x y
  | None, None => true
  | _, _ => false
  end.

Fixpoint list_eqb {A} (eqb : A -> A -> bool) (a b : list A) : bool :=
  match a, b with
  | [], [] => true
  | x :: a', y :: b' => eqb x y && list_eqb eqb a' b'
  | _, _ => false
  end.

Definition uns_eqb (a b : uns) : bool := (fst a =? fst b)%nat && (snd a =? snd b)%Z.
Definition zz_eqb (a b : Z * Z) : bool := ((fst a =? fst b) && (snd a =? snd b))%Z.

Definition cmp_of (ismax : bool) : Z -> Z -> bool := if ismax then Z.gtb else Z.ltb.

Definition index_uns (n : nat) (i : nat) : uns := (upto_width n, Z.of_nat i).

Definition hcase_ok (c : hcase) : bool :=
  match c with
  | HBinaryFold rt n r => opt_eqb tree_eqb (binary_fold Node rt (range_tree n)) r
  | HBinaryFoldSub rt xs r => opt_eqb Z.eqb (binary_fold Z.sub rt xs) r
  | HBatchedFold n bs r => opt_eqb tree_eqb (batched_fold Node bs (range_tree n)) r
  | HBatchedFoldSub xs bs r => opt_eqb Z.eqb (batched_fold Z.sub bs xs) r
  | HBatchArgs n bs r =>
      opt_eqb (list_eqb (list_eqb Nat.eqb)) (if (bs =? 0)%nat then None else Some (batch_args bs (seq 0 n))) r
  | HConcat xs r => opt_eqb bits_eqb (concat_m xs) r
  | HRepeat v t r => opt_eqb bits_eqb (repeat_m v t) r
  | HStretch isbit v f r => opt_eqb bits_eqb (stretch_m isbit v f) r
  | HLeftpad v rw fill r => opt_eqb bits_eqb (leftpad_m v rw fill) r
  | HRightpad v rw fill r => opt_eqb bits_eqb (rightpad_m v rw fill) r
  | HPad v l rt fill r => opt_eqb bits_eqb (pad_m v l rt fill) r
  | HRol v n r => opt_eqb bits_eqb (rol_m v n) r
  | HRor v n r => opt_eqb bits_eqb (ror_m v n) r
  | HLshiftFill v fill r => opt_eqb bits_eqb (lshift_fill_m v fill) r
  | HRshiftFill v fill r => opt_eqb bits_eqb (rshift_fill_m v fill) r
  | HApplyMask o n m r => opt_eqb bits_eqb (apply_mask_m o n m) r
  | HMaskApply m o n r => opt_eqb bits_eqb (mask_apply_m m o n) r
  | HMaskVector m w r => opt_eqb bits_eqb (mask_as_vector_m m w) r
  | HBatched v n partial r => opt_eqb (list_eqb bits_eqb) (batched_m v n partial) r
  | HSelectBatch v sel bs r => opt_eqb bits_eqb (select_batch_m v sel bs) r
  | HMinimum ismax xs r => opt_eqb zz_eqb (minimum_m (cmp_of ismax) snd xs) r
  | HMinElement ismax xs r =>
      opt_eqb (fun a b => uns_eqb (fst a) (fst b) && zz_eqb (snd a) (snd b))
        (option_map (fun ie => (index_uns (length xs) (fst ie), snd ie)) (min_element_m (cmp_of ismax) snd xs)) r
  | HMinIndex ismax xs r =>
      opt_eqb uns_eqb (option_map (index_uns (length xs)) (min_index_keys_m (cmp_of ismax) snd xs)) r
  | HCount flags r => opt_eqb uns_eqb (count_m flags) r
  | HCountSetBits v bs r => opt_eqb uns_eqb (count_set_bits_m v bs) r
  | HCountClearBits v bs r => opt_eqb uns_eqb (count_clear_bits_m v bs) r
  | HClamp rng v lo hi r => opt_eqb Z.eqb (clamp_m rng v lo hi) r
  | HCountWhile flags r => opt_eqb uns_eqb (Some (count_elements_while_m flags)) r
  | HCountUntil flags r => opt_eqb uns_eqb (Some (count_elements_until_m flags)) r
  | HCountTrailing b v r => opt_eqb uns_eqb (Some (count_trailing_m b v)) r
  | HCountLeading b v r => opt_eqb uns_eqb (count_leading_m b v) r
  | HOneHot w pos r => opt_eqb bits_eqb (one_hot_m w pos) r
  | HIsOneHot v r => opt_eqb Bool.eqb (Some (is_one_hot_m v)) r
  | HReverseBits v r => opt_eqb bits_eqb (reverse_bits_m v) r
  | HChooseFirst args d r => opt_eqb Z.eqb (Some (first_impl args d)) r
  | HSelect arg br d r => opt_eqb Z.eqb (Some (select_m arg br d)) r
  | HCond c a b r => opt_eqb Z.eqb (Some (cond_m c a b)) r
  | HCrcCalc poly init data r => opt_eqb bits_eqb (update_multiple poly init data) r
  | HCrcRun multi invert poly init steps r =>
      opt_eqb bits_eqb
        (option_map (crc_result invert)
           (if multi then crc_run_multi poly init steps
            else Some (fold_left (crc_step poly) (List.concat steps) init))) r
  end.
