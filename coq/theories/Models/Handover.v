(** * Handover: executable model of std.SyncFlag and std.Mailbox AS CODED (cohdl/std/utility.py),
    for every [tx_delay] and [rx_delay], driven as the two-context wrappers of harness/c15.py drive them
    (MBOX_TWO, FLAG_TWO, FLAG_UNGUARDED: a producer context that sends when asked and clear, a consumer
    context that receives when asked and set).

    The model keeps what the code keeps:
    - [SyncFlag._set_tx], toggled by [set()]:   [_set_tx <<= ~_rx]                (producer context)
    - [SyncFlag._set_rx], written by [clear()]: [_set_rx <<= _tx]                 (consumer context)
    - the tx delay line [_tx <<= delayed(_set_tx, tx_delay - 1)] (tx_delay registers, the last one is
      [_tx]; registered in the consumer context) and the rx delay line likewise (rx_delay registers, the
      last one is [_rx]; registered in the producer context); with delay 0 [_tx] IS [_set_tx]
    - [Mailbox._data], written by [send()]
    - what each context compares: the producer [_set_tx] against [_rx] ([_cmp_tx]/[_cmp_rx] in the tx
      context), the consumer [_tx] against [_set_rx]
    - the wrapper's [dout] register.  [sent]/[got] are pulses (default False) and need no state.
    All registers are clocked by the same clock; every read sees the value before the clock.

    [Models.HandoverProofs] proves the hand-over properties for ALL delays; the per-configuration
    '*_model' case theorems of harness/c15.py tie [ho_rstep] to the VHDL the real compiler emits. *)
From Coq Require Import ZArith NArith List Bool Lia.
From Cohdl Require Import Base.Bits Vhdl.Value Equiv.Explore Equiv.RefTS Equiv.Monitor.
Import ListNotations.
Local Open Scope Z_scope.

(** ** delay lines *)

(** one clock of [DelayLine]: every register takes the value of its predecessor, the first one the
    input [x]; a line of no registers stays empty *)
Fixpoint shift (x : bool) (l : list bool) : list bool :=
  match l with [] => [] | y :: r => x :: shift y r end.

(** [DelayLine.last()]: the last register, the input itself for a line of no registers *)
Definition line_out (l : list bool) (x : bool) : bool := last l x.

(** ** state *)
Record hstate := HS {
  set_tx : bool; tx_line : list bool;
  set_rx : bool; rx_line : list bool;
  data : Z;
  o_dout : Z
}.

(** [_tx] / [_rx] *)
Definition tx_v (s : hstate) : bool := line_out (tx_line s) (set_tx s).
Definition rx_v (s : hstate) : bool := line_out (rx_line s) (set_rx s).

(** [is_clear()] evaluated in the producer context, [is_set()] evaluated in the consumer context *)
Definition is_clear_p (s : hstate) : bool := eqb (set_tx s) (rx_v s).
Definition is_set_c (s : hstate) : bool := negb (eqb (tx_v s) (set_rx s)).

(** one clock.  [sd] = producer asked to send [dv], [wt] = consumer willing to receive.
    [g] = the producer guards [set()]/[send()] by [is_clear()] (false: FLAG_UNGUARDED, [set()] whenever
    asked, [sent] reports [is_clear()]);  [p] = Mailbox (payload) / SyncFlag (no payload, [dout] never driven).
    result: new state and the wrapper outputs (sent, got, dout) after the clock *)
Definition hstep (g p : bool) (s : hstate) (sd wt : bool) (dv : Z) : hstate * (bool * bool * Z) :=
  let clr := is_clear_p s in
  let st := is_set_c s in
  let do_set := sd && (clr || negb g) in
  let sent := sd && clr in
  let got := wt && st in
  let dout' := if p && got then data s else o_dout s in
  (HS (if do_set then negb (rx_v s) else set_tx s)
      (shift (set_tx s) (tx_line s))
      (if got then tx_v s else set_rx s)
      (shift (set_rx s) (rx_line s))
      (if p && sent then dv else data s)
      dout',
   (sent, got, dout')).

Definition hinit (tx rx : nat) : hstate := HS false (repeat false tx) false (repeat false rx) 0 0.

(** inputs of one clock / runs / traces of the record model *)
Definition hin := (bool * bool * Z)%type.
Definition hstep_i (g p : bool) (s : hstate) (i : hin) : hstate * (bool * bool * Z) :=
  let '(sd, wt, dv) := i in hstep g p s sd wt dv.

Definition hrun (g p : bool) (s : hstate) (ins : list hin) : hstate :=
  fold_left (fun s i => fst (hstep_i g p s i)) ins s.

Fixpoint htrace (g p : bool) (s : hstate) (ins : list hin) : list (bool * bool * Z) :=
  match ins with
  | [] => []
  | i :: r => let '(s', o) := hstep_i g p s i in o :: htrace g p s' r
  end.

(** ** the same machine over [list Z] states, in the format of [Equiv.RefTS]
    state [set_tx; set_rx; data; dout] ++ tx_line ++ rx_line;
    inputs [send; want; din], outputs [sent; got; dout] (the ports of the wrapper entity W) *)
Definition enc (s : hstate) : list Z :=
  zb (set_tx s) :: zb (set_rx s) :: data s :: o_dout s :: map zb (tx_line s) ++ map zb (rx_line s).

Definition zbit (z : Z) : bool := z =? 1.

Definition dec (tx : nat) (st : list Z) : option hstate :=
  match st with
  | a :: b :: d :: o :: r =>
      Some (HS (zbit a) (map zbit (firstn tx r)) (zbit b) (map zbit (skipn tx r)) d o)
  | _ => None
  end.

Definition hin_of (inp : list value) : option hin :=
  match inp with [sd; wt; dv] => Some (vbit sd, vbit wt, vnum dv) | _ => None end.

Definition hout (w : BinNums.N) (o : bool * bool * Z) : list value :=
  let '(sent, got, dout) := o in [obit sent; obit got; ouns w dout].

Definition ho_rstep (tx : nat) (g p : bool) (w : BinNums.N) : rstep := fun st inp =>
  match dec tx st, hin_of inp with
  | Some s, Some i => let '(s', o) := hstep_i g p s i in (enc s', Ok (hout w o))
  | _, _ => (st, Err ETypeError)
  end.

Definition ho_init (tx rx : nat) : list Z := enc (hinit tx rx).

(** ** a reference machine watched by a safety monitor (as [Equiv.Monitor.mstep] watches a design) *)
Definition rmstep {S : Type} (st : S -> list value -> S * res (list value)) (mon : monitor)
  : S * list Z -> list value -> (S * list Z) * res (list value) :=
  fun sm inp =>
    let '(s', o) := st (fst sm) inp in
    match o with
    | Ok outs => let '(m', ok) := mon (snd sm) inp outs in ((s', m'), Ok [VL ok])
    | Err e => ((s', snd sm), Err e)
    end.

(** well-formed wrapper inputs: three values; without payload the [din] port is tied to 0 *)
Definition wf_in (p : bool) (inp : list value) : bool :=
  match inp with [_; _; dv] => p || (vnum dv =? 0) | _ => false end.
