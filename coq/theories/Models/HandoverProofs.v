(** * HandoverProofs: for ALL [tx_delay], [rx_delay] the as-coded model of std.SyncFlag / std.Mailbox
    ([Models.Handover]) hands every item over exactly once, in order and unmodified, with the exact
    response bounds [tx_delay] (send -> visible to the consumer) and [rx_delay] (receive -> visible to the
    producer), and satisfies the hand-over monitor [Models.StdSpecs.chan_monitor] for every bound
    [K >= max tx_delay rx_delay].

    Method: the contents of the two toggle registers and the two delay lines are always ONE of two shapes
    ([Ph]): the single edge of the toggle protocol sits in the tx line ([Full k]: item sent k clocks ago,
    not yet received) or in the rx line ([Empty k]: item received k clocks ago / nothing sent yet).
    [hstep_phase] is the one-clock lemma; everything else is induction over the input list. *)
From Coq Require Import ZArith NArith PArith List Bool Lia.
From Cohdl Require Import Base.Bits Vhdl.Value Equiv.Explore Equiv.RefTS Equiv.Monitor Models.StdSpecs Models.Handover.
Import ListNotations.
Local Open Scope Z_scope.

(** ** delay lines *)

Lemma shift_length x l : length (shift x l) = length l.
Proof. revert x; induction l as [|y r IH]; intros x; cbn [shift length]; [reflexivity|]. rewrite IH. reflexivity. Qed.

Lemma shift_same x n : shift x (repeat x n) = repeat x n.
Proof. induction n as [|n IH]; cbn [repeat shift]; [reflexivity|]. rewrite IH. reflexivity. Qed.

(** the edge moves one register down the line *)
Lemma shift_front x y k m : shift x (repeat x k ++ repeat y (S m)) = repeat x (S k) ++ repeat y m.
Proof.
  induction k as [|k IH].
  - cbn [repeat app shift]. rewrite shift_same. reflexivity.
  - change (repeat x (S k) ++ repeat y (S m)) with (x :: (repeat x k ++ repeat y (S m))).
    cbn [shift]. rewrite IH. reflexivity.
Qed.

Lemma last_cons {A} (a : A) l d : last (a :: l) d = last l a.
Proof.
  revert a d; induction l as [|b r IH]; intros a d; [reflexivity|].
  change (last (a :: b :: r) d) with (last (b :: r) d). rewrite (IH b d), (IH b a). reflexivity.
Qed.

Lemma last_same {A} (x : A) n : last (repeat x n) x = x.
Proof. induction n as [|n IH]; [reflexivity|]. cbn [repeat]. rewrite last_cons. exact IH. Qed.

Lemma last_mixed {A} (x y d : A) k m : last (repeat x k ++ repeat y (S m)) d = y.
Proof.
  revert d; induction k as [|k IH]; intros d.
  - cbn [repeat app]. rewrite last_cons. apply last_same.
  - change (repeat x (S k) ++ repeat y (S m)) with (x :: (repeat x k ++ repeat y (S m))).
    rewrite last_cons. apply IH.
Qed.

Lemma eqb_negb_r b : eqb b (negb b) = false.
Proof. destruct b; reflexivity. Qed.
Lemma eqb_negb_l b : eqb (negb b) b = false.
Proof. destruct b; reflexivity. Qed.

(** ** phases *)

Inductive phase := Full (k : nat) | Empty (k : nat).

Definition full_of (ph : phase) : bool := match ph with Full _ => true | Empty _ => false end.

Section Phases.
Variables tx rx : nat.

(** [Ph b ph s]: [b] is the current value of [_set_tx];
    [Full k]  (k <= tx): the first k registers of the tx line already carry b, the rest of the tx line,
              [_set_rx] and the whole rx line still carry the old value;
    [Empty k] (k <= rx): the tx line and [_set_rx] carry b, so do the first k registers of the rx line *)
Definition Ph (b : bool) (ph : phase) (s : hstate) : Prop :=
  match ph with
  | Full k => (k <= tx)%nat /\ set_tx s = b /\ tx_line s = repeat b k ++ repeat (negb b) (tx - k) /\
              set_rx s = negb b /\ rx_line s = repeat (negb b) rx
  | Empty k => (k <= rx)%nat /\ set_tx s = b /\ tx_line s = repeat b tx /\
               set_rx s = b /\ rx_line s = repeat b k ++ repeat (negb b) (rx - k)
  end.

Definition Inv (s : hstate) : Prop := exists b ph, Ph b ph s.

Lemma hinit_ph : Ph false (Empty rx) (hinit tx rx).
Proof.
  cbn [Ph hinit set_tx tx_line set_rx rx_line]. rewrite Nat.sub_diag. cbn [repeat]. rewrite app_nil_r.
  repeat split; lia.
Qed.

Lemma ph_lengths b ph s : Ph b ph s -> length (tx_line s) = tx /\ length (rx_line s) = rx.
Proof.
  destruct ph as [k|k]; intros (Hk & _ & E2 & _ & E4); rewrite E2, E4;
    rewrite ?app_length, ?repeat_length; lia.
Qed.

(** the slot is occupied exactly when the two toggle registers differ (no context sees both) *)
Lemma ph_full b ph s : Ph b ph s -> xorb (set_tx s) (set_rx s) = full_of ph.
Proof.
  destruct ph as [k|k]; intros (_ & E1 & _ & E3 & _); rewrite E1, E3; destruct b; reflexivity.
Qed.

(** what the two contexts see *)
Lemma views b ph s : Ph b ph s ->
  is_clear_p s = (match ph with Empty k => Nat.eqb k rx | Full _ => false end) /\
  is_set_c s = (match ph with Full k => Nat.eqb k tx | Empty _ => false end) /\
  tx_v s = (match ph with Full k => if Nat.eqb k tx then b else negb b | Empty _ => b end) /\
  rx_v s = (match ph with Empty k => if Nat.eqb k rx then b else negb b | Full _ => negb b end).
Proof.
  destruct ph as [k|k]; intros (Hk & E1 & E2 & E3 & E4);
    unfold is_clear_p, is_set_c, tx_v, rx_v, line_out; rewrite E1, E2, E3, E4.
  - rewrite last_same.
    destruct (Nat.eqb_spec k tx) as [->|Hne].
    + rewrite Nat.sub_diag. cbn [repeat]. rewrite app_nil_r, last_same, ?eqb_negb_r. cbn [negb]. auto.
    + replace (tx - k)%nat with (S (tx - S k)) by lia. rewrite last_mixed, ?eqb_negb_r, ?eqb_reflx. cbn [negb]. auto.
  - rewrite last_same.
    destruct (Nat.eqb_spec k rx) as [->|Hne].
    + rewrite Nat.sub_diag. cbn [repeat]. rewrite app_nil_r, last_same, ?eqb_reflx. cbn [negb]. auto.
    + replace (rx - k)%nat with (S (rx - S k)) by lia. rewrite last_mixed, ?eqb_negb_r, ?eqb_reflx. cbn [negb]. auto.
Qed.

(** ** one clock, in terms of phases *)
Definition ph_sent (ph : phase) (sd : bool) : bool :=
  match ph with Empty k => sd && Nat.eqb k rx | Full _ => false end.
Definition ph_got (ph : phase) (wt : bool) : bool :=
  match ph with Full k => wt && Nat.eqb k tx | Empty _ => false end.
Definition ph_next (ph : phase) (sd wt : bool) : phase :=
  match ph with
  | Full k => if Nat.eqb k tx then (if wt then Empty 0 else Full k) else Full (S k)
  | Empty k => if Nat.eqb k rx then (if sd then Full 0 else Empty k) else Empty (S k)
  end.

Lemma hstep_phase g p b ph s sd wt dv : Ph b ph s ->
  snd (hstep g p s sd wt dv) =
    (ph_sent ph sd, ph_got ph wt, if p && ph_got ph wt then data s else o_dout s) /\
  data (fst (hstep g p s sd wt dv)) = (if p && ph_sent ph sd then dv else data s) /\
  o_dout (fst (hstep g p s sd wt dv)) = (if p && ph_got ph wt then data s else o_dout s) /\
  Ph (if ph_sent ph sd then negb b else b) (ph_next ph sd wt) (fst (hstep g p s sd wt dv)).
Proof.
  intros H. destruct (views b ph s H) as (Hc & Hs & Ht & Hr).
  unfold hstep. rewrite Hc, Hs, Ht, Hr. cbn [fst snd data o_dout].
  destruct ph as [k|k]; destruct H as (Hk & E1 & E2 & E3 & E4); rewrite E1, E2, E3, E4;
    cbn [ph_sent ph_got ph_next].
  - (* Full k *)
    rewrite andb_false_r. split; [reflexivity|]. split; [reflexivity|]. split; [reflexivity|].
    assert (Hst : (if sd && (false || negb g) then negb (negb b) else b) = b)
      by (rewrite negb_involutive; destruct (sd && (false || negb g)); reflexivity).
    rewrite Hst, shift_same.
    destruct (Nat.eqb_spec k tx) as [->|Hne].
    + rewrite Nat.sub_diag. cbn [repeat]. rewrite app_nil_r, shift_same, andb_true_r.
      destruct wt; cbn [Ph set_tx tx_line set_rx rx_line].
      * rewrite Nat.sub_0_r. cbn [repeat app]. repeat split; lia.
      * rewrite Nat.sub_diag. cbn [repeat]. rewrite app_nil_r. repeat split; lia.
    + rewrite andb_false_r. cbn [Ph set_tx tx_line set_rx rx_line].
      replace (tx - k)%nat with (S (tx - S k)) by lia. rewrite shift_front. repeat split; lia.
  - (* Empty k *)
    rewrite andb_false_r. split; [reflexivity|]. split; [reflexivity|]. split; [reflexivity|].
    rewrite shift_same.
    destruct (Nat.eqb_spec k rx) as [->|Hne].
    + rewrite Nat.sub_diag. cbn [repeat]. rewrite app_nil_r, shift_same, orb_true_l, !andb_true_r.
      destruct sd; cbn [Ph set_tx tx_line set_rx rx_line].
      * rewrite negb_involutive, Nat.sub_0_r. cbn [repeat app]. repeat split; lia.
      * rewrite Nat.sub_diag. cbn [repeat]. rewrite app_nil_r. repeat split; lia.
    + rewrite !andb_false_r.
      assert (Hst : (if sd && (false || negb g) then negb (negb b) else b) = b)
        by (rewrite negb_involutive; destruct (sd && (false || negb g)); reflexivity).
      rewrite Hst. cbn [Ph set_tx tx_line set_rx rx_line].
      replace (rx - k)%nat with (S (rx - S k)) by lia. rewrite shift_front. repeat split; lia.
Qed.

End Phases.

(** ** runs *)

Lemma hstep_inv tx rx g p s i : Inv tx rx s -> Inv tx rx (fst (hstep_i g p s i)).
Proof.
  intros (b & ph & H). destruct i as [[sd wt] dv]. cbn [hstep_i].
  destruct (hstep_phase tx rx g p b ph s sd wt dv H) as (_ & _ & _ & H').
  eexists. eexists. exact H'.
Qed.

(** the invariant over the contents of the toggle registers and delay lines holds after every input sequence *)
Lemma hrun_inv tx rx g p : forall ins s, Inv tx rx s -> Inv tx rx (hrun g p s ins).
Proof.
  unfold hrun. induction ins as [|i r IH]; intros s H; [exact H|].
  cbn [fold_left]. apply IH. apply hstep_inv. exact H.
Qed.

Lemma hinit_inv tx rx : Inv tx rx (hinit tx rx).
Proof. exists false, (Empty rx). apply hinit_ph. Qed.

(** ** (a) safety: exactly once, in order, unmodified *)

(** what an observer of the wrapper's ports sees: the values offered in clocks with [sent] raised, and the
    values on [dout] in clocks with [got] raised *)
Fixpoint sent_of (ins : list hin) (tr : list (bool * bool * Z)) : list Z :=
  match ins, tr with
  | i :: r, o :: t => (if fst (fst o) then [snd i] else []) ++ sent_of r t
  | _, _ => []
  end.
Fixpoint recv_of (tr : list (bool * bool * Z)) : list Z :=
  match tr with
  | o :: t => (if snd (fst o) then [snd o] else []) ++ recv_of t
  | [] => []
  end.

(** the item in the slot: the data register, while the toggle registers differ *)
Definition pending (s : hstate) : list Z := if xorb (set_tx s) (set_rx s) then [data s] else [].

Lemma handover_step tx rx g b ph s sd wt dv : Ph tx rx b ph s ->
  pending s ++ (if ph_sent rx ph sd then [dv] else []) =
  (if ph_got tx ph wt then [data s] else []) ++ pending (fst (hstep g true s sd wt dv)).
Proof.
  intros H. destruct (hstep_phase tx rx g true b ph s sd wt dv H) as (_ & Hd & _ & H').
  unfold pending. rewrite (ph_full tx rx _ _ _ H), (ph_full tx rx _ _ _ H'), Hd. cbn [andb].
  destruct ph as [k|k]; cbn [full_of ph_sent ph_got ph_next].
  - destruct (Nat.eqb k tx); [destruct wt|]; cbn [andb full_of app]; try reflexivity.
    rewrite andb_false_r. reflexivity.
  - destruct (Nat.eqb k rx); [destruct sd|]; cbn [andb full_of app]; try reflexivity.
    rewrite andb_false_r. reflexivity.
Qed.

Lemma handover_log tx rx g : forall ins s, Inv tx rx s ->
  pending s ++ sent_of ins (htrace g true s ins) =
  recv_of (htrace g true s ins) ++ pending (hrun g true s ins).
Proof.
  unfold hrun. induction ins as [|i r IH]; intros s Hinv.
  - cbn. rewrite app_nil_r. reflexivity.
  - destruct Hinv as (b & ph & H). destruct i as [[sd wt] dv].
    pose proof (handover_step tx rx g b ph s sd wt dv H) as Hstep.
    destruct (hstep_phase tx rx g true b ph s sd wt dv H) as (Ho & _ & _ & H').
    cbn [htrace hstep_i fold_left] in *.
    destruct (hstep g true s sd wt dv) as [s' o] eqn:E. cbn [fst snd] in *. subst o.
    cbn [sent_of recv_of fst snd andb].
    assert (Hinv' : Inv tx rx s') by (eexists; eexists; exact H').
    specialize (IH s' Hinv').
    rewrite app_assoc, Hstep, <- !app_assoc, IH. destruct (ph_got tx ph wt); reflexivity.
Qed.

(** for all delays, both wrapper forms, all input sequences (payloads are arbitrary integers):
    the values sent are the values received followed by the item still in the slot (at most one) *)
Theorem handover_exactly_once : forall (tx rx : nat) (g : bool) (ins : list hin),
  let tr := htrace g true (hinit tx rx) ins in
  sent_of ins tr = recv_of tr ++ pending (hrun g true (hinit tx rx) ins) /\
  (length (pending (hrun g true (hinit tx rx) ins)) <= 1)%nat.
Proof.
  intros tx rx g ins tr. split.
  - exact (handover_log tx rx g ins (hinit tx rx) (hinit_inv tx rx)).
  - unfold pending. destruct (xorb _ _); cbn [length]; lia.
Qed.

(** the consumer never sees the flag set before the data register holds the value sent (and that value
    is the one item not yet received) *)
Theorem set_implies_data_valid : forall (tx rx : nat) (g : bool) (ins : list hin),
  let tr := htrace g true (hinit tx rx) ins in
  let s := hrun g true (hinit tx rx) ins in
  is_set_c s = true -> sent_of ins tr = recv_of tr ++ [data s].
Proof.
  intros tx rx g ins tr s Hset.
  destruct (handover_exactly_once tx rx g ins) as [E _]. fold tr s in E. rewrite E. f_equal.
  destruct (hrun_inv tx rx g true ins _ (hinit_inv tx rx)) as (b & ph & H). fold s in H.
  destruct (views tx rx b ph s H) as (_ & Hs & _ & _). unfold pending.
  rewrite (ph_full tx rx _ _ _ H). destruct ph; [reflexivity|]. congruence.
Qed.

(** the producer never overwrites an unconsumed item: whenever it sees the flag clear (the only
    situation in which it sends), everything sent so far has been received *)
Theorem clear_implies_consumed : forall (tx rx : nat) (g : bool) (ins : list hin),
  let tr := htrace g true (hinit tx rx) ins in
  let s := hrun g true (hinit tx rx) ins in
  is_clear_p s = true -> sent_of ins tr = recv_of tr.
Proof.
  intros tx rx g ins tr s Hclr.
  destruct (handover_exactly_once tx rx g ins) as [E _]. fold tr s in E. rewrite E.
  destruct (hrun_inv tx rx g true ins _ (hinit_inv tx rx)) as (b & ph & H). fold s in H.
  destruct (views tx rx b ph s H) as (Hc & _ & _ & _). unfold pending.
  rewrite (ph_full tx rx _ _ _ H). destruct ph; [congruence|]. apply app_nil_r.
Qed.

(** a send only happens while the producer sees clear, a receive only while the consumer sees set, never
    both in one clock; an unguarded [set()] while the flag is not clear changes nothing *)
Theorem events_guarded : forall (tx rx : nat) (g p : bool) (s : hstate) (sd wt : bool) (dv : Z),
  Inv tx rx s ->
  let o := snd (hstep g p s sd wt dv) in
  fst (fst o) = sd && is_clear_p s /\ snd (fst o) = wt && is_set_c s /\
  (fst (fst o) && snd (fst o) = false) /\
  (is_clear_p s = false -> set_tx (fst (hstep g p s sd wt dv)) = set_tx s).
Proof.
  intros tx rx g p s sd wt dv (b & ph & H) o.
  destruct (hstep_phase tx rx g p b ph s sd wt dv H) as (Ho & _ & _ & H').
  destruct (views tx rx b ph s H) as (Hc & Hs & _ & _).
  subst o. rewrite Ho, Hc, Hs. cbn [fst snd].
  assert (Hkeep : ph_sent rx ph sd = false -> set_tx (fst (hstep g p s sd wt dv)) = set_tx s).
  { intros Hn. rewrite Hn in H'.
    assert (E1 : set_tx s = b) by (destruct ph; cbn [Ph] in H; tauto).
    rewrite E1. destruct (ph_next tx rx ph sd wt); cbn [Ph] in H'; tauto. }
  destruct ph as [k|k]; cbn [ph_sent ph_got] in *.
  - rewrite andb_false_r. repeat split; try reflexivity. intros _. apply Hkeep. reflexivity.
  - rewrite !andb_false_r. repeat split; try reflexivity.
    intros Hk. apply Hkeep. rewrite Hk. apply andb_false_r.
Qed.

(** SyncFlag without payload / any wrapper form: the pulses alternate, starting with [sent] *)
Fixpoint count_sent (tr : list (bool * bool * Z)) : nat :=
  match tr with o :: t => ((if fst (fst o) then 1 else 0) + count_sent t)%nat | [] => O end.
Fixpoint count_got (tr : list (bool * bool * Z)) : nat :=
  match tr with o :: t => ((if snd (fst o) then 1 else 0) + count_got t)%nat | [] => O end.
Definition occupied (s : hstate) : nat := if xorb (set_tx s) (set_rx s) then 1%nat else 0%nat.

Lemma handover_count_log tx rx g p : forall ins s, Inv tx rx s ->
  (occupied s + count_sent (htrace g p s ins) = count_got (htrace g p s ins) + occupied (hrun g p s ins))%nat.
Proof.
  unfold hrun. induction ins as [|i r IH]; intros s Hinv.
  - cbn. lia.
  - destruct Hinv as (b & ph & H). destruct i as [[sd wt] dv].
    destruct (hstep_phase tx rx g p b ph s sd wt dv H) as (Ho & _ & _ & H').
    cbn [htrace hstep_i fold_left] in *.
    destruct (hstep g p s sd wt dv) as [s' o] eqn:E. cbn [fst snd] in *. subst o.
    cbn [count_sent count_got fst snd].
    assert (Hinv' : Inv tx rx s') by (eexists; eexists; exact H').
    specialize (IH s' Hinv').
    assert (Hstep : (occupied s + (if ph_sent rx ph sd then 1 else 0) =
                     (if ph_got tx ph wt then 1 else 0) + occupied s')%nat).
    { unfold occupied. rewrite (ph_full tx rx _ _ _ H), (ph_full tx rx _ _ _ H').
      destruct ph as [k|k]; cbn [full_of ph_sent ph_got ph_next].
      - destruct (Nat.eqb k tx); [destruct wt|]; cbn [andb full_of]; rewrite ?andb_false_r; reflexivity.
      - destruct (Nat.eqb k rx); [destruct sd|]; cbn [andb full_of]; rewrite ?andb_false_r; reflexivity. }
    lia.
Qed.

Theorem handover_counts : forall (tx rx : nat) (g p : bool) (ins : list hin),
  let tr := htrace g p (hinit tx rx) ins in
  (count_got tr <= count_sent tr <= count_got tr + 1)%nat.
Proof.
  intros tx rx g p ins tr.
  pose proof (handover_count_log tx rx g p ins (hinit tx rx) (hinit_inv tx rx)) as E. fold tr in E.
  assert (H0 : occupied (hinit tx rx) = 0%nat) by reflexivity.
  assert (H1 : (occupied (hrun g p (hinit tx rx) ins) <= 1)%nat) by (unfold occupied; destruct (xorb _ _); lia).
  lia.
Qed.

(** ** (b) bounded response, with the exact bounds as coded *)

(** while the edge travels down the tx line (rx line) nothing can happen, whatever the inputs *)
Lemma run_full tx rx g p b : forall js k s, Ph tx rx b (Full k) s -> (k + length js <= tx)%nat ->
  Ph tx rx b (Full (k + length js)) (hrun g p s js).
Proof.
  unfold hrun. induction js as [|[[sd wt] dv] r IH]; intros k s H Hk.
  - cbn [length fold_left]. rewrite Nat.add_0_r. exact H.
  - cbn [length] in *. cbn [fold_left hstep_i].
    destruct (hstep_phase tx rx g p b (Full k) s sd wt dv H) as (_ & _ & _ & H').
    cbn [ph_sent ph_next] in H'.
    destruct (Nat.eqb_spec k tx) as [->|Hne]; [lia|].
    replace (k + S (length r))%nat with (S k + length r)%nat by lia.
    apply IH; [exact H'|lia].
Qed.

Lemma run_empty tx rx g p b : forall js k s, Ph tx rx b (Empty k) s -> (k + length js <= rx)%nat ->
  Ph tx rx b (Empty (k + length js)) (hrun g p s js).
Proof.
  unfold hrun. induction js as [|[[sd wt] dv] r IH]; intros k s H Hk.
  - cbn [length fold_left]. rewrite Nat.add_0_r. exact H.
  - cbn [length] in *. cbn [fold_left hstep_i].
    destruct (hstep_phase tx rx g p b (Empty k) s sd wt dv H) as (_ & _ & _ & H').
    cbn [ph_sent ph_next] in H'.
    destruct (Nat.eqb_spec k rx) as [->|Hne]; [lia|].
    rewrite andb_false_r in H'.
    replace (k + S (length r))%nat with (S k + length r)%nat by lia.
    apply IH; [exact H'|lia].
Qed.

(** a send (pulse [sent] after this clock) is observable by the consumer after exactly [tx_delay] further
    clocks, whatever happens on the inputs meanwhile: not earlier, and from then on until it is received *)
Theorem send_visible_after_tx_delay : forall (tx rx : nat) (g p : bool) (s : hstate) (sd wt : bool) (dv : Z),
  Inv tx rx s -> fst (fst (snd (hstep g p s sd wt dv))) = true ->
  forall js, (length js <= tx)%nat ->
    is_set_c (hrun g p (fst (hstep g p s sd wt dv)) js) = Nat.eqb (length js) tx.
Proof.
  intros tx rx g p s sd wt dv (b & ph & H) Hsent js Hjs.
  destruct (hstep_phase tx rx g p b ph s sd wt dv H) as (Ho & _ & _ & H').
  rewrite Ho in Hsent. cbn [fst snd] in Hsent. rewrite Hsent in H'.
  destruct ph as [k|k]; cbn [ph_sent] in Hsent; [discriminate|].
  apply andb_true_iff in Hsent. destruct Hsent as [-> Hk]. cbn [ph_next] in H'. rewrite Hk in H'.
  pose proof (run_full tx rx g p (negb b) js 0 _ H' ltac:(cbn [Nat.add]; exact Hjs)) as Hr.
  destruct (views tx rx _ _ _ Hr) as (_ & Hs & _ & _). exact Hs.
Qed.

(** a receive (pulse [got]) is observable by the producer (flag clear again) after exactly [rx_delay]
    further clocks *)
Theorem receive_visible_after_rx_delay : forall (tx rx : nat) (g p : bool) (s : hstate) (sd wt : bool) (dv : Z),
  Inv tx rx s -> snd (fst (snd (hstep g p s sd wt dv))) = true ->
  forall js, (length js <= rx)%nat ->
    is_clear_p (hrun g p (fst (hstep g p s sd wt dv)) js) = Nat.eqb (length js) rx.
Proof.
  intros tx rx g p s sd wt dv (b & ph & H) Hgot js Hjs.
  destruct (hstep_phase tx rx g p b ph s sd wt dv H) as (Ho & _ & _ & H').
  rewrite Ho in Hgot. cbn [fst snd] in Hgot.
  destruct ph as [k|k]; cbn [ph_got] in Hgot; [|discriminate].
  apply andb_true_iff in Hgot. destruct Hgot as [-> Hk]. cbn [ph_next ph_sent] in H'. rewrite Hk in H'.
  pose proof (run_empty tx rx g p b js 0 _ H' ltac:(cbn [Nat.add]; exact Hjs)) as Hr.
  destruct (views tx rx _ _ _ Hr) as (Hc & _ & _ & _). exact Hc.
Qed.

(** once visible, the item stays visible until the consumer asks, and is then handed over in that very
    clock; likewise the clear flag stays until the producer asks and the send is then accepted at once *)
Theorem visible_until_served : forall (tx rx : nat) (g p : bool) (s : hstate) (sd wt : bool) (dv : Z),
  Inv tx rx s ->
  (is_set_c s = true ->
     snd (fst (snd (hstep g p s sd wt dv))) = wt /\
     (wt = false -> is_set_c (fst (hstep g p s sd wt dv)) = true)) /\
  (is_clear_p s = true ->
     fst (fst (snd (hstep g p s sd wt dv))) = sd /\
     (sd = false -> is_clear_p (fst (hstep g p s sd wt dv)) = true)).
Proof.
  intros tx rx g p s sd wt dv (b & ph & H).
  destruct (hstep_phase tx rx g p b ph s sd wt dv H) as (Ho & _ & _ & H').
  destruct (views tx rx b ph s H) as (Hc & Hs & _ & _).
  destruct (views tx rx _ _ _ H') as (Hc' & Hs' & _ & _).
  rewrite Ho, Hc, Hs, Hc', Hs'. cbn [fst snd].
  destruct ph as [k|k]; cbn [ph_sent ph_got ph_next]; (split; [|]); intros Hk; try discriminate;
    rewrite Hk, andb_true_r; (split; [reflexivity|]); intros ->; exact Hk.
Qed.

(** ** the [list Z] machine of the case theorems runs the record model *)

Lemma map_zbit_zb l : map zbit (map zb l) = l.
Proof. induction l as [|[|] r IH]; cbn [map]; [reflexivity| |]; rewrite IH; reflexivity. Qed.

Lemma firstn_len_app {A} (l1 l2 : list A) : firstn (length l1) (l1 ++ l2) = l1.
Proof. induction l1 as [|a r IH]; cbn [length firstn app]; [destruct l2; reflexivity|]. rewrite IH. reflexivity. Qed.

Lemma skipn_len_app {A} (l1 l2 : list A) : skipn (length l1) (l1 ++ l2) = l2.
Proof. induction l1 as [|a r IH]; cbn [length skipn app]; [reflexivity|exact IH]. Qed.

Lemma dec_enc tx s : length (tx_line s) = tx -> dec tx (enc s) = Some s.
Proof.
  intros <-. destruct s as [a la b lb d o]. unfold enc, dec. cbn [set_tx tx_line set_rx rx_line data o_dout].
  rewrite <- (map_length zb la). rewrite firstn_len_app, skipn_len_app, !map_zbit_zb.
  destruct a, b; reflexivity.
Qed.

Lemma ho_rstep_enc tx g p w s sd wt dv : length (tx_line s) = tx ->
  ho_rstep tx g p w (enc s) [sd; wt; dv] =
    (enc (fst (hstep g p s (vbit sd) (vbit wt) (vnum dv))),
     Ok (hout w (snd (hstep g p s (vbit sd) (vbit wt) (vnum dv))))).
Proof.
  intros H. unfold ho_rstep. rewrite (dec_enc tx s H). cbn [hin_of hstep_i].
  destruct (hstep g p s (vbit sd) (vbit wt) (vnum dv)) as [s' o]. reflexivity.
Qed.

(** ** the model satisfies the hand-over monitor for every bound K >= max tx rx *)

(** coupling of the monitor state [full; data; wait_rx; wait_tx] with the phase: the waiting counters
    never exceed the age of the phase *)
Definition MRel (p : bool) (ph : phase) (s : hstate) (m : list Z) : Prop :=
  (p = false -> o_dout s = 0) /\
  match ph with
  | Full k => exists wrx, m = [1; (if p then data s else 0); wrx; 0] /\ wrx <= Z.of_nat k
  | Empty k => exists md wtx, m = [0; md; 0; wtx] /\ wtx <= Z.of_nat k
  end.

Lemma leb_true a b : a <= b -> (a <=? b) = true.
Proof. intros H. apply Z.leb_le. exact H. Qed.

Lemma mon_step tx rx g p w K strict b ph s m sd wt dv :
  Z.of_nat tx <= K -> Z.of_nat rx <= K -> Ph tx rx b ph s -> MRel p ph s m -> wf_in p [sd; wt; dv] = true ->
  exists m',
    chan_monitor K strict m [sd; wt; dv] (hout w (snd (hstep g p s (vbit sd) (vbit wt) (vnum dv)))) = (m', true) /\
    MRel p (ph_next tx rx ph (vbit sd) (vbit wt)) (fst (hstep g p s (vbit sd) (vbit wt) (vnum dv))) m'.
Proof.
  intros HKt HKr H [Hz HM] Hwf.
  destruct (hstep_phase tx rx g p b ph s (vbit sd) (vbit wt) (vnum dv) H) as (Ho & Hd & Hdo & H').
  rewrite Ho. cbn [hout]. unfold MRel. rewrite Hd, Hdo.
  assert (HK0 : 0 <= K) by lia.
  assert (Hz' : (if p then data s else o_dout s) = (if p then data s else 0))
    by (destruct p; [reflexivity|apply Hz; reflexivity]).
  pose proof (leb_true 0 K HK0) as HK0b.
  destruct ph as [k|k].
  - destruct HM as (wrx & -> & Hw). destruct H as (Hk & _).
    cbn [chan_monitor vbit vnum obit ouns ph_sent ph_got ph_next]. change (1 =? 1) with true.
    destruct (Nat.eqb_spec k tx) as [->|Hne]; [destruct (vbit wt)|]; cbn [andb negb orb].
    all: rewrite ?andb_true_r, ?andb_false_r; cbn [andb negb orb].
    + rewrite Hz', Z.eqb_refl, HK0b. cbn [andb negb].
      eexists. split; [reflexivity|]. split; [intros ->; reflexivity|].
      eexists. eexists. split; [reflexivity|]. cbn. lia.
    + rewrite HK0b. cbn [andb].
      eexists. split; [reflexivity|]. split; [exact Hz|].
      eexists. split; [reflexivity|]. lia.
    + assert (Hb : (if vbit wt then wrx + 1 else 0) <= Z.of_nat (S k)) by (destruct (vbit wt); lia).
      assert (Hb2 : (if vbit wt then wrx + 1 else 0) <= K) by lia.
      rewrite (leb_true _ K Hb2), HK0b. cbn [andb].
      eexists. split; [reflexivity|]. split; [exact Hz|].
      eexists. split; [reflexivity|]. exact Hb.
  - destruct HM as (md & wtx & -> & Hw). destruct H as (Hk & _).
    cbn [chan_monitor vbit vnum obit ouns ph_sent ph_got ph_next]. change (0 =? 1) with false.
    destruct (Nat.eqb_spec k rx) as [->|Hne]; [destruct (vbit sd)|]; cbn [andb negb orb].
    all: rewrite ?andb_true_r, ?andb_false_r; cbn [andb negb orb].
    + rewrite HK0b. cbn [andb].
      eexists. split; [reflexivity|]. split; [exact Hz|].
      exists 0. split; [|cbn; lia].
      destruct p; [reflexivity|]. cbn [wf_in orb] in Hwf. apply Z.eqb_eq in Hwf. rewrite Hwf. reflexivity.
    + rewrite HK0b. cbn [andb].
      eexists. split; [reflexivity|]. split; [exact Hz|].
      eexists. eexists. split; [reflexivity|]. lia.
    + assert (Hb : (if vbit sd then wtx + 1 else 0) <= Z.of_nat (S k)) by (destruct (vbit sd); lia).
      assert (Hb2 : (if vbit sd then wtx + 1 else 0) <= K) by lia.
      rewrite (leb_true _ K Hb2), HK0b. cbn [andb].
      eexists. split; [reflexivity|]. split; [exact Hz|].
      eexists. eexists. split; [reflexivity|]. exact Hb.
Qed.

Lemma ho_monitor_run tx rx g p w K strict : Z.of_nat tx <= K -> Z.of_nat rx <= K ->
  forall ins, Forall (fun i => wf_in p i = true) ins ->
  forall s m b ph, Ph tx rx b ph s -> MRel p ph s m ->
    Forall (fun o => o = okout)
           (traceA (rmstep (ho_rstep tx g p w) (chan_monitor K strict)) (enc s, m) ins).
Proof.
  intros HKt HKr. induction ins as [|i r IH]; intros Hwf s m b ph H HM; [constructor|].
  inversion Hwf as [|? ? Hi Hr]; subst.
  destruct i as [|sd [|wt [|dv [|? ?]]]]; try discriminate Hi.
  destruct (mon_step tx rx g p w K strict b ph s m sd wt dv HKt HKr H HM Hi) as (m' & Hm & HM').
  destruct (hstep_phase tx rx g p b ph s (vbit sd) (vbit wt) (vnum dv) H) as (_ & _ & _ & H').
  cbn [traceA]. unfold rmstep at 1. cbn [fst snd].
  rewrite (ho_rstep_enc tx g p w s sd wt dv (proj1 (ph_lengths tx rx b ph s H))). rewrite Hm.
  constructor; [reflexivity|]. eapply IH; eassumption.
Qed.

(** for ALL delays, both wrapper forms, with and without payload, every payload width, every strictness
    and every bound K >= max tx rx: the monitor never flags on the model, for all input sequences *)
Theorem ho_monitor_ok : forall (tx rx : nat) (g p : bool) (w : BinNums.N) (K : Z) (strict : bool),
  Z.of_nat (Nat.max tx rx) <= K ->
  forall ins, Forall (fun i => wf_in p i = true) ins ->
    Forall (fun o => o = okout)
           (traceA (rmstep (ho_rstep tx g p w) (chan_monitor K strict)) (ho_init tx rx, [0; 0; 0; 0]) ins).
Proof.
  intros tx rx g p w K strict HK ins Hwf. unfold ho_init.
  apply (ho_monitor_run tx rx g p w K strict ltac:(lia) ltac:(lia) ins Hwf (hinit tx rx) _ false (Empty rx)).
  - apply hinit_ph.
  - split; [reflexivity|]. exists 0, 0. split; [reflexivity|lia].
Qed.

(** ** from a case theorem "emitted VHDL = model" to the monitor on the emitted VHDL *)

Lemma monitor_transfer {SA : Type} (stepA : SA -> list value -> SA * res (list value)) (stepB : rstep)
      (mon : monitor) (P : list value -> Prop) :
  forall ins a b m,
    (forall js, Forall P js -> traceA stepA a js = traceB stepB b js) -> Forall P ins ->
    traceA (rmstep stepA mon) (a, m) ins = traceA (rmstep stepB mon) (b, m) ins.
Proof.
  induction ins as [|i r IH]; intros a b m Heq Hp; [reflexivity|].
  inversion Hp as [|? ? Hi Hr]; subst.
  pose proof (Heq [i] (Forall_cons _ Hi (Forall_nil _))) as H1.
  assert (Htl : forall js, Forall P js -> traceA stepA (fst (stepA a i)) js = traceB stepB (fst (stepB b i)) js).
  { intros js Hjs. pose proof (Heq (i :: js) (Forall_cons _ Hi Hjs)) as H2. cbn [traceA traceB] in H2.
    destruct (stepA a i) as [a' oa], (stepB b i) as [b' ob]. cbn [fst]. congruence. }
  cbn [traceA traceB] in H1 |- *. unfold rmstep at 1 3. cbn [fst snd].
  destruct (stepA a i) as [a' oa], (stepB b i) as [b' ob]. cbn [fst] in Htl.
  assert (oa = ob) by congruence. subst ob.
  destruct oa as [outs|e].
  - destruct (mon m i outs) as [m' ok]. f_equal. apply IH; assumption.
  - f_equal. apply IH; assumption.
Qed.

From Cohdl Require Import Vhdl.Syntax Vhdl.Sem Vhdl.DefAssign Vhdl.DeadVars Equiv.VhdlTS Equiv.StoreTS.

Lemma admissible_true (stepB : rstep) alphabet : forall ins st,
  Forall (fun i => In i alphabet) ins -> admissible stepB alphabet (fun _ _ => true) st ins.
Proof.
  induction ins as [|i r IH]; intros st H; cbn [admissible]; [exact I|].
  inversion H; subst. repeat split; [assumption|]. apply IH. assumption.
Qed.

(** the tie for every configuration at once, from the statement of a '*_model' case theorem of harness/c15.py
    (emitted VHDL trace = model trace for all input sequences over the alphabet) to the monitor obligation on
    the emitted VHDL with ANY bound K >= max tx rx (the harness states it with 2 (tx + rx) + 3 and with max tx rx) *)
Theorem ho_traces_tie : forall d mid alphabet (tx rx : nat) (g p : bool) (w : BinNums.N) (K : Z) (strict : bool),
  (forall ins, admissible (ho_rstep tx g p w) alphabet (fun _ _ => true) (ho_init tx rx) ins ->
     traceA (sstep d mid) (power_up_s d) ins = traceB (ho_rstep tx g p w) (ho_init tx rx) ins) ->
  forallb (wf_in p) alphabet = true ->
  Z.of_nat (Nat.max tx rx) <= K ->
  forall ins, Forall (fun i => In i alphabet) ins ->
    Forall (fun o => o = okout)
           (traceA (mstep_s d mid (chan_monitor K strict)) (power_up_s d, [0; 0; 0; 0]) ins).
Proof.
  intros d mid alphabet tx rx g p w K strict Hc Hwf HK ins Hin.
  change (mstep_s d mid (chan_monitor K strict)) with (rmstep (sstep d mid) (chan_monitor K strict)).
  rewrite (monitor_transfer (sstep d mid) (ho_rstep tx g p w) (chan_monitor K strict)
             (fun i => In i alphabet) ins (power_up_s d) (ho_init tx rx) [0; 0; 0; 0]).
  - apply ho_monitor_ok; [exact HK|].
    rewrite forallb_forall in Hwf. apply Forall_forall. intros i Hi. apply Hwf.
    rewrite Forall_forall in Hin. apply Hin. exact Hi.
  - intros js Hjs. apply Hc. apply admissible_true. exact Hjs.
  - exact Hin.
Qed.

(** the same from the two computed hypotheses of a case file *)
Theorem ho_code_tie : forall d mid alphabet fuel (tx rx : nat) (g p : bool) (w : BinNums.N) (K : Z) (strict : bool),
  conc_all_ok (auto_Ts d) d = true ->
  is_ok (rcheck_s d mid (ho_rstep tx g p w) alphabet (fun _ _ => true) fuel (ho_init tx rx)) = true ->
  forallb (wf_in p) alphabet = true ->
  Z.of_nat (Nat.max tx rx) <= K ->
  forall ins, Forall (fun i => In i alphabet) ins ->
    Forall (fun o => o = okout)
           (traceA (mstep_s d mid (chan_monitor K strict)) (power_up_s d, [0; 0; 0; 0]) ins).
Proof.
  intros d mid alphabet fuel tx rx g p w K strict Hd Hc. apply (ho_traces_tie d mid alphabet tx rx g p w K strict).
  exact (rcheck_s_sound d mid _ alphabet _ fuel _ Hd Hc).
Qed.

(** ** the observable statement on the [list Z] machine and on the emitted VHDL *)

(** one clock of wrapper inputs as port values *)
Definition hin_val (w : BinNums.N) (i : hin) : list value :=
  let '(sd, wt, dv) := i in [VL sd; VL wt; VV KUns w dv].

Lemma ho_rstep_trace_from tx rx g p w : forall ins s, Inv tx rx s ->
  traceB (ho_rstep tx g p w) (enc s) (map (hin_val w) ins) =
  map (fun o => Ok (hout w o)) (htrace g p s ins).
Proof.
  induction ins as [|[[sd wt] dv] r IH]; intros s Hinv; [reflexivity|].
  pose proof (hstep_inv tx rx g p s (sd, wt, dv) Hinv) as Hinv'.
  destruct Hinv as (b & ph & H).
  cbn [map hin_val traceB htrace hstep_i] in *.
  rewrite (ho_rstep_enc tx g p w s (VL sd) (VL wt) (VV KUns w dv) (proj1 (ph_lengths tx rx b ph s H))).
  cbn [vbit vnum]. destruct (hstep g p s sd wt dv) as [s' o]. cbn [fst snd map] in *.
  f_equal. apply IH. exact Hinv'.
Qed.

Theorem ho_rstep_trace : forall (tx rx : nat) (g p : bool) (w : BinNums.N) (ins : list hin),
  traceB (ho_rstep tx g p w) (ho_init tx rx) (map (hin_val w) ins) =
  map (fun o => Ok (hout w o)) (htrace g p (hinit tx rx) ins).
Proof. intros. apply (ho_rstep_trace_from tx rx). apply hinit_inv. Qed.

(** exactly once, in order, unmodified ON THE EMITTED VHDL of a configuration whose '*_model' case theorem
    holds: its port trace is the model's, whose sent values are its received values plus at most one *)
Theorem ho_code_exactly_once : forall d mid alphabet fuel (tx rx : nat) (g : bool) (w : BinNums.N),
  conc_all_ok (auto_Ts d) d = true ->
  is_ok (rcheck_s d mid (ho_rstep tx g true w) alphabet (fun _ _ => true) fuel (ho_init tx rx)) = true ->
  forall ins : list hin, Forall (fun i => In (hin_val w i) alphabet) ins ->
    exists tr rest,
      traceA (sstep d mid) (power_up_s d) (map (hin_val w) ins) = map (fun o => Ok (hout w o)) tr /\
      sent_of ins tr = recv_of tr ++ rest /\ (length rest <= 1)%nat.
Proof.
  intros d mid alphabet fuel tx rx g w Hd Hc ins Hin.
  exists (htrace g true (hinit tx rx) ins), (pending (hrun g true (hinit tx rx) ins)).
  destruct (handover_exactly_once tx rx g ins) as [E L]. split; [|split; assumption].
  rewrite <- ho_rstep_trace.
  apply (rcheck_s_sound d mid _ alphabet _ fuel _ Hd Hc). apply admissible_true.
  apply Forall_forall. intros v Hv. apply in_map_iff in Hv. destruct Hv as (i & <- & Hi).
  rewrite Forall_forall in Hin. apply Hin. exact Hi.
Qed.

(** the bound of the monitor theorem is exact: decidable reading of a monitor trace *)
Definition all_okout (tr : list (res (list value))) : bool :=
  forallb (fun o => match o with Ok [VL true] => true | _ => false end) tr.
