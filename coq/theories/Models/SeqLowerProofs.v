(** * SeqLowerProofs: the lowering model [SeqLower.lower_stm] computes, under the VHDL semantics
    [Vhdl.Sem], exactly what the reference semantics [SeqRef.sexec] / [seq_step] computes -
    for EVERY body of the grammar [in_grammar], every well-typed store, every input vector. *)
From Coq Require Import ZArith NArith PArith List Bool Lia FMapPositive FSetPositive.
From Cohdl Require Import Base.Bits Vhdl.Value Vhdl.NumStd Vhdl.Syntax Vhdl.Sem Equiv.RefTS Models.SeqRef Models.SeqLower.
Import ListNotations.
Local Open Scope Z_scope.

Lemma vp_inj j j' : vp j = vp j' -> j = j'.
Proof. apply SuccNat2Pos.inj. Qed.

Lemma vp_neq j j' : j <> j' -> vp j <> vp j'.
Proof. intros H E. apply H, vp_inj, E. Qed.

Lemma ety_eqb_eq a b : ety_eqb a b = true -> a = b.
Proof. destruct a, b; cbn; try discriminate; try reflexivity; intros H; apply N.eqb_eq in H; congruence. Qed.

Lemma ety_eqb_refl a : ety_eqb a a = true.
Proof. destruct a; cbn; try reflexivity; apply N.eqb_refl. Qed.

Lemma zok_bit z : zokb EBit z = true -> z = 0 \/ z = 1.
Proof. cbn. intros H. apply orb_true_iff in H. destruct H as [H|H]; apply Z.eqb_eq in H; auto. Qed.
Lemma zok_bool z : zokb EBool z = true -> z = 0 \/ z = 1.
Proof. exact (zok_bit z). Qed.
Lemma zok_u w z : zokb (EU w) z = true -> 0 <= z < pow2 w.
Proof. cbn. intros H. apply andb_true_iff in H. destruct H as [H1 H2]. apply Z.leb_le in H1. apply Z.ltb_lt in H2. lia. Qed.
Lemma zok_v w z : zokb (EV w) z = true -> 0 <= z < pow2 w.
Proof. exact (zok_u w z). Qed.
Lemma zok_u_intro w z : 0 <= z < pow2 w -> zokb (EU w) z = true.
Proof. intros H. cbn. apply andb_true_iff. split; [apply Z.leb_le|apply Z.ltb_lt]; lia. Qed.

Lemma shape_ence t a b : shape_eqb (ence t a) (ence t b) = true.
Proof. destruct t; cbn; try reflexivity; rewrite N.eqb_refl; reflexivity. Qed.

Lemma apply_write_whole t a b : apply_write (ence t a) [] (ence t b) = Ok (ence t b).
Proof. cbn [apply_write]. rewrite shape_ence. reflexivity. Qed.

(** ** lists *)
Lemma set_nth_length l k x : length (set_nth l k x) = length l.
Proof. revert k; induction l as [|y r IH]; intros [|k]; cbn; auto. Qed.

Lemma nth_set_nth_eq l k x : (k < length l)%nat -> nth k (set_nth l k x) 0 = x.
Proof. revert k; induction l as [|y r IH]; intros [|k] H; cbn in *; try lia; auto. apply IH. lia. Qed.

Lemma nth_set_nth_ne l k j x : j <> k -> nth j (set_nth l k x) 0 = nth j l 0.
Proof. revert k j; induction l as [|y r IH]; intros [|k] [|j] H; cbn; auto; try lia. Qed.

Lemma commit_app a : forall sg b, commit sg (a ++ b) = (do s <- commit sg a; commit s b).
Proof.
  induction a as [|[[root rp] x] r IH]; intros sg b; cbn [app commit bind]; [reflexivity|].
  destruct (lookup sg root) as [base|]; cbn [bind]; [|reflexivity].
  destruct (apply_write base rp x) as [nv0|]; cbn [bind]; [|reflexivity]. apply IH.
Qed.

(** ** value level: the numeric_std operators against the reference operators *)
Lemma val_add w ta tb xa xb : arith_ty w ta tb <> EBad -> zokb ta xa = true -> zokb tb xb = true ->
  eval_binop OAdd (ence ta xa) (ence tb xb) = Ok (ence (arith_ty w ta tb) (wrap w (xa + xb))) /\
  zokb (arith_ty w ta tb) (wrap w (xa + xb)) = true.
Proof.
  destruct ta, tb; cbn [arith_ty]; try congruence.
  - destruct ((w0 =? w)%N && (w1 =? w)%N) eqn:E; [|congruence]. intros _ _ _.
    apply andb_true_iff in E. destruct E as [E1 E2]. apply N.eqb_eq in E1, E2. subst.
    cbn. rewrite N.max_id. split; [reflexivity|]. apply zok_u_intro, wrap_range.
  - destruct (w0 =? w)%N eqn:E; [|congruence]. apply N.eqb_eq in E. subst. intros _ _ Hb. cbn in Hb.
    cbn. rewrite Hb. split; [reflexivity|]. apply zok_u_intro, wrap_range.
  - destruct (w0 =? w)%N eqn:E; [|congruence]. apply N.eqb_eq in E. subst. intros _ Ha _. cbn in Ha.
    cbn. rewrite Ha. split; [reflexivity|]. apply zok_u_intro, wrap_range.
Qed.

Lemma val_sub w ta tb xa xb : arith_ty w ta tb <> EBad -> zokb ta xa = true -> zokb tb xb = true ->
  eval_binop OSub (ence ta xa) (ence tb xb) = Ok (ence (arith_ty w ta tb) (wrap w (xa - xb))) /\
  zokb (arith_ty w ta tb) (wrap w (xa - xb)) = true.
Proof.
  destruct ta, tb; cbn [arith_ty]; try congruence.
  - destruct ((w0 =? w)%N && (w1 =? w)%N) eqn:E; [|congruence]. intros _ _ _.
    apply andb_true_iff in E. destruct E as [E1 E2]. apply N.eqb_eq in E1, E2. subst.
    cbn. rewrite N.max_id. split; [reflexivity|]. apply zok_u_intro, wrap_range.
  - destruct (w0 =? w)%N eqn:E; [|congruence]. apply N.eqb_eq in E. subst. intros _ _ Hb. cbn in Hb.
    cbn. rewrite Hb. split; [reflexivity|]. apply zok_u_intro, wrap_range.
  - destruct (w0 =? w)%N eqn:E; [|congruence]. apply N.eqb_eq in E. subst. intros _ Ha _. cbn in Ha.
    cbn. rewrite Ha. split; [reflexivity|]. apply zok_u_intro, wrap_range.
Qed.

Lemma bit_cases t z : (t = EBit \/ t = EBool) -> zokb t z = true -> z = 0 \/ z = 1.
Proof. intros [->| ->]; apply zok_bit. Qed.

Lemma val_logic op f ta tb xa xb :
  (op = OAnd /\ f = Z.land) \/ (op = OOr /\ f = Z.lor) \/ (op = OXor /\ f = Z.lxor) ->
  logic_ty ta tb <> EBad -> zokb ta xa = true -> zokb tb xb = true ->
  eval_binop op (ence ta xa) (ence tb xb) = Ok (ence (logic_ty ta tb) (f xa xb)) /\
  zokb (logic_ty ta tb) (f xa xb) = true.
Proof.
  intros Hop. destruct ta, tb; cbn [logic_ty]; try congruence. intros _ Ha Hb.
  apply zok_bit in Ha, Hb.
  destruct Hop as [[-> ->]|[[-> ->]|[-> ->]]]; destruct Ha as [-> | ->], Hb as [-> | ->]; cbn; split; reflexivity.
Qed.

Lemma val_cmp op (g : Z -> Z -> bool) ta tb xa xb :
  (op = OEq /\ g = Z.eqb) \/ (op = ONe /\ g = (fun x y => negb (x =? y))) \/ (op = OLt /\ g = Z.ltb) ->
  cmp_ty (is_eqop op) ta tb <> EBad -> zokb ta xa = true -> zokb tb xb = true ->
  eval_binop op (ence ta xa) (ence tb xb) = Ok (ence (cmp_ty (is_eqop op) ta tb) (zb (g xa xb))) /\
  zokb (cmp_ty (is_eqop op) ta tb) (zb (g xa xb)) = true.
Proof.
  intros Hop. destruct ta, tb; cbn [cmp_ty]; try congruence.
  - (* bit, bit: only = and /= *)
    destruct Hop as [[-> ->]|[[-> ->]|[-> ->]]]; cbn [is_eqop]; try congruence; intros _ Ha Hb;
      apply zok_bit in Ha, Hb; destruct Ha as [-> | ->], Hb as [-> | ->]; cbn; split; reflexivity.
  - intros _ _ _. destruct Hop as [[-> ->]|[[-> ->]|[-> ->]]]; cbn; [destruct (xa =? xb)|destruct (xa =? xb)|destruct (xa <? xb)];
      cbn; split; reflexivity.
  - intros _ _ Hb. cbn in Hb. destruct Hop as [[-> ->]|[[-> ->]|[-> ->]]]; cbn; rewrite Hb;
      [destruct (xa =? xb)|destruct (xa =? xb)|destruct (xa <? xb)]; cbn; split; reflexivity.
  - intros _ Ha _. cbn in Ha. destruct Hop as [[-> ->]|[[-> ->]|[-> ->]]]; cbn; rewrite Ha;
      [destruct (xa =? xb)|destruct (xa =? xb)|destruct (xa <? xb)]; cbn; split; reflexivity.
Qed.

Lemma val_not w ta xa :
  (match ta with
   | EBit => if (w =? 1)%N then EBit else EBad
   | EU w' => if (w =? w')%N then EU w' else EBad
   | EV w' => if (w =? w')%N then EV w' else EBad
   | _ => EBad end) <> EBad -> zokb ta xa = true ->
  eval_unop UNot (ence ta xa) =
    Ok (ence (match ta with
   | EBit => if (w =? 1)%N then EBit else EBad
   | EU w' => if (w =? w')%N then EU w' else EBad
   | EV w' => if (w =? w')%N then EV w' else EBad
   | _ => EBad end) (ones w - xa)) /\
  zokb (match ta with
   | EBit => if (w =? 1)%N then EBit else EBad
   | EU w' => if (w =? w')%N then EU w' else EBad
   | EV w' => if (w =? w')%N then EV w' else EBad
   | _ => EBad end) (ones w - xa) = true.
Proof.
  destruct ta; try congruence.
  - destruct (w =? 1)%N eqn:E; [|congruence]. apply N.eqb_eq in E. subst. intros _ Ha.
    apply zok_bit in Ha. destruct Ha as [-> | ->]; cbn; split; reflexivity.
  - destruct (w =? w0)%N eqn:E; [|congruence]. apply N.eqb_eq in E. subst. intros _ Ha.
    apply zok_u in Ha. cbn [ence eval_unop]. split; [reflexivity|]. apply zok_u_intro. unfold ones. lia.
  - destruct (w =? w0)%N eqn:E; [|congruence]. apply N.eqb_eq in E. subst. intros _ Ha.
    apply zok_v in Ha. cbn [ence eval_unop]. split; [reflexivity|]. apply zok_u_intro. unfold ones. lia.
Qed.

Section Proofs.
  Variable its : list sty.
  Variable ds : list sdecl.
  Variable vts : list sty.
  Variable pu : list nat.

  Notation ni := (ni its).
  Notation ns := (ns ds).
  Notation nv := (nv vts).
  Notation tyof := (tyof its ds vts).
  Notation tmps_e := (tmps_e its ds vts).
  Notation ntmps := (ntmps its ds vts).
  Notation tmps_s := (tmps_s its ds vts).
  Notation ntmps_s := (ntmps_s its ds vts).
  Notation lower_exp := (lower_exp its ds vts).
  Notation lower_stm := (lower_stm its ds vts).
  Notation wt_e := (wt_e its ds vts).
  Notation wt_s := (wt_s its ds vts pu).
  Notation ipos := (ipos).
  Notation bpos := (bpos its ds).
  Notation ity := (ity its).
  Notation sgty := (sgty ds).
  Notation vty := (vty vts).
  Notation at_ty := (at_ty its ds vts).
  Notation at_ty_c := (at_ty_c its ds vts).
  Notation fits_c := (fits_c its ds vts).
  Notation pushedb := (pushedb pu).

  Variable sg : store.          (* the signal store the activation reads *)
  Variable ev : PS.t.
  Variable inp old : list Z.
  Variable tys : list ety.      (* the types of all temporaries of the process *)

  Hypothesis Hin : forall k, (k < ni)%nat ->
    PM.find (ipos k) sg = Some (ence (ity k) (nth k inp 0)) /\ zokb (ity k) (nth k inp 0) = true.
  Hypothesis Hsig : forall k, (k < ns)%nat ->
    PM.find (bpos k) sg = Some (ence (sgty k) (nth k old 0)) /\ zokb (sgty k) (nth k old 0) = true.

  Definition vrel (vr : store) (vars : list Z) : Prop :=
    (forall k, (k < nv)%nat ->
       PM.find (vp k) vr = Some (ence (vty k) (nth k vars 0)) /\ zokb (vty k) (nth k vars 0) = true) /\
    (forall i, (i < length tys)%nat ->
       exists v, PM.find (vp (nv + i)) vr = Some v /\ shape_eqb v (ence (nth i tys EBad) 0) = true).

  Definition pre (l : list ety) (n : nat) : Prop := exists a r, tys = a ++ l ++ r /\ length a = n.

  Lemma pre_app l1 l2 n : pre (l1 ++ l2) n -> pre l1 n /\ pre l2 (n + length l1).
  Proof.
    intros (a & r & E & L). split.
    - exists a, (l2 ++ r). rewrite E, <- app_assoc. auto.
    - exists (a ++ l1), r. rewrite E, <- !app_assoc, app_length. split; [reflexivity|lia].
  Qed.

  Lemma pre_nth l n i : pre l n -> (i < length l)%nat ->
    nth (n + i) tys EBad = nth i l EBad /\ (n + i < length tys)%nat.
  Proof.
    intros (a & r & E & L) Hi. subst n. rewrite E. split.
    - rewrite app_nth2_plus. apply app_nth1. exact Hi.
    - rewrite !app_length. lia.
  Qed.

  Definition agree_on (n m : nat) (v1 v2 : store) : Prop :=
    forall j, ((j < nv) \/ (nv + n <= j < nv + n + m))%nat -> PM.find (vp j) v1 = PM.find (vp j) v2.

  (** what the rendering of one expression guarantees *)
  Definition exp_ok (e : exp) : Prop :=
    forall n vr vars ws, wt_e e = true -> pre (tmps_e e) n -> vrel vr vars ->
    exists vr', exec sg ev (fst (lower_exp n e)) vr ws = Ok (vr', ws) /\
      vrel vr' vars /\
      (forall j, ~ (nv + n <= j < nv + n + ntmps e)%nat -> PM.find (vp j) vr' = PM.find (vp j) vr) /\
      (forall vr2, agree_on n (ntmps e) vr2 vr' ->
         eval sg vr2 ev (snd (lower_exp n e)) = Ok (ence (tyof e) (seval inp old vars e))) /\
      zokb (tyof e) (seval inp old vars e) = true.

  Lemma wt_e_ne e : wt_e e = true -> tyof e <> EBad.
  Proof. unfold SeqLower.wt_e. intros H E. rewrite E in H. discriminate. Qed.
  Lemma ne_wt_e e : tyof e <> EBad -> wt_e e = true.
  Proof. unfold SeqLower.wt_e. destruct (SeqLower.tyof its ds vts e); try reflexivity. congruence. Qed.

  (** threading two sub-expressions *)
  Lemma thread2 a b : exp_ok a -> exp_ok b ->
    forall n vr vars ws, wt_e a = true -> wt_e b = true -> pre (tmps_e a ++ tmps_e b) n -> vrel vr vars ->
    exists vr', exec sg ev (SSeq (fst (lower_exp n a)) (fst (lower_exp (n + ntmps a) b))) vr ws = Ok (vr', ws) /\
      vrel vr' vars /\
      (forall j, ~ (nv + n <= j < nv + n + (ntmps a + ntmps b))%nat -> PM.find (vp j) vr' = PM.find (vp j) vr) /\
      (forall vr2, agree_on n (ntmps a + ntmps b) vr2 vr' ->
         eval sg vr2 ev (snd (lower_exp n a)) = Ok (ence (tyof a) (seval inp old vars a)) /\
         eval sg vr2 ev (snd (lower_exp (n + ntmps a) b)) = Ok (ence (tyof b) (seval inp old vars b))) /\
      zokb (tyof a) (seval inp old vars a) = true /\ zokb (tyof b) (seval inp old vars b) = true.
  Proof.
    intros IHa IHb n vr vars ws Wa Wb Hp Hv.
    apply pre_app in Hp. destruct Hp as [Pa Pb].
    destruct (IHa n vr vars ws Wa Pa Hv) as (vr1 & E1 & V1 & F1 & Ev1 & Z1).
    destruct (IHb (n + ntmps a)%nat vr1 vars ws Wb Pb V1) as (vr2 & E2 & V2 & F2 & Ev2 & Z2).
    exists vr2. split; [|split; [exact V2|split; [|split; [|split; assumption]]]].
    - cbn [exec]. rewrite E1. cbn [bind fst snd]. exact E2.
    - intros j Hj. rewrite F2 by lia. apply F1. lia.
    - intros vrX HX. split.
      + apply Ev1. intros j Hj. rewrite HX by lia. apply F2. lia.
      + apply Ev2. intros j Hj. apply HX. lia.
  Qed.

  Lemma ntmps_app_e a b : length (tmps_e a ++ tmps_e b) = (ntmps a + ntmps b)%nat.
  Proof. apply app_length. Qed.

  (** binary operators: one script *)
  Lemma bin_ok (e a b : exp) (t : ety) (z : Z -> Z -> Z) :
    exp_ok a -> exp_ok b ->
    SeqLower.tmps_e its ds vts e = tmps_e a ++ tmps_e b ->
    (forall n, lower_exp n e = (SSeq (fst (lower_exp n a)) (fst (lower_exp (n + ntmps a) b)),
                                EBin (bop e) (snd (lower_exp n a)) (snd (lower_exp (n + ntmps a) b)))) ->
    (forall vars, seval inp old vars e = z (seval inp old vars a) (seval inp old vars b)) ->
    (tyof e <> EBad -> tyof a <> EBad /\ tyof b <> EBad) ->
    (forall xa xb, tyof e <> EBad -> zokb (tyof a) xa = true -> zokb (tyof b) xb = true ->
        eval_binop (bop e) (ence (tyof a) xa) (ence (tyof b) xb) = Ok (ence (tyof e) (z xa xb)) /\
        zokb (tyof e) (z xa xb) = true) ->
    exp_ok e.
  Proof.
    intros IHa IHb Et El Es Ety Hval n vr vars ws W Hp Hv.
    pose proof (wt_e_ne _ W) as Hne. destruct (Ety Hne) as [Na Nb].
    unfold SeqLower.ntmps. rewrite Et in *. rewrite El. cbn [fst snd].
    destruct (thread2 a b IHa IHb n vr vars ws (ne_wt_e _ Na) (ne_wt_e _ Nb) Hp Hv) as (vr' & E & V & F & Ev & Za & Zb).
    destruct (Hval _ _ Hne Za Zb) as [Hv1 Hv2].
    exists vr'. split; [exact E|split; [exact V|split; [|split]]].
    - intros j Hj. apply F. rewrite app_length in Hj. exact Hj.
    - intros vr2 HX. rewrite app_length in HX. destruct (Ev vr2 HX) as [Ea Eb].
      cbn [eval]. rewrite Ea, Eb. cbn [bind]. rewrite Es. exact Hv1.
    - rewrite Es. exact Hv2.
  Qed.

  Lemma arith_ne w ta tb : arith_ty w ta tb <> EBad -> ta <> EBad /\ tb <> EBad.
  Proof. destruct ta, tb; cbn; intros H; split; congruence. Qed.
  Lemma logic_ne ta tb : logic_ty ta tb <> EBad -> ta <> EBad /\ tb <> EBad.
  Proof. destruct ta, tb; cbn; intros H; split; congruence. Qed.
  Lemma cmp_ne q ta tb : cmp_ty q ta tb <> EBad -> ta <> EBad /\ tb <> EBad.
  Proof. destruct ta, tb; cbn; intros H; split; congruence. Qed.

  Lemma coerce_ok f t z vr x : coercible f t = true -> zokb f z = true ->
    eval sg vr ev x = Ok (ence f z) ->
    eval sg vr ev (coerce f t x) = Ok (ence t z) /\ zokb t z = true.
  Proof.
    unfold coercible. intros H Hz Hx. destruct (ety_eqb f t) eqn:E.
    - apply ety_eqb_eq in E. subst t. split; [|exact Hz]. destruct f; exact Hx.
    - cbn [orb] in H. destruct f, t; try discriminate; cbn [coerce eval]; rewrite Hx; cbn [bind ence eval_fn1].
      + split; [reflexivity|exact Hz].
      + apply N.eqb_eq in H. subst. split; [reflexivity|exact Hz].
      + apply N.eqb_eq in H. subst. split; [reflexivity|exact Hz].
  Qed.

  Lemma constfits_zok t z : constfits t z = true -> zokb t z = true.
  Proof. destruct t; cbn [constfits]; try discriminate; intros H; apply andb_true_iff in H; apply H. Qed.
  Lemma constfits_nat t z : constfits t z = true -> nat_ok z = true.
  Proof. destruct t; cbn [constfits]; try discriminate; intros H; apply andb_true_iff in H; apply H. Qed.

  Lemma shape_ence_any v t a b : shape_eqb v (ence t a) = shape_eqb v (ence t b).
  Proof. destruct v, t; reflexivity. Qed.

  Lemma ite_inv c a b : tyof (XIte c a b) <> EBad ->
    is_cond (tyof c) = true /\ storable (tyof (XIte c a b)) = true /\
    fits tyof (tyof (XIte c a b)) a = true /\ fits tyof (tyof (XIte c a b)) b = true.
  Proof.
    cbn [SeqLower.tyof]. set (t := match a with XConst _ => tyof b | _ => tyof a end).
    destruct (is_cond (tyof c) && storable t && fits tyof t a && fits tyof t b) eqn:E; [|congruence].
    intros _. apply andb_true_iff in E. destruct E as [E E4]. apply andb_true_iff in E. destruct E as [E E3].
    apply andb_true_iff in E. destruct E as [E1 E2]. auto.
  Qed.

  Lemma fits_wt t e : storable t = true -> fits tyof t e = true -> wt_e e = true.
  Proof.
    intros St H. apply ne_wt_e. destruct e; cbn [fits] in H;
      try (apply ety_eqb_eq in H; rewrite H; destruct t; try discriminate; congruence).
    cbn [SeqLower.tyof]. rewrite (constfits_nat _ _ H). congruence.
  Qed.

  (** a value stored into an object of type [t] *)
  Lemma at_ty_c_ok t e vr x vars : fits_c t e = true -> zokb (tyof e) (seval inp old vars e) = true ->
    eval sg vr ev x = Ok (ence (tyof e) (seval inp old vars e)) ->
    eval sg vr ev (at_ty_c t e x) = Ok (ence t (seval inp old vars e)) /\ zokb t (seval inp old vars e) = true.
  Proof.
    intros Hf Hz Hx.
    destruct e; try (apply (coerce_ok _ _ _ _ _ Hf Hz Hx)).
    cbn [SeqLower.fits_c] in Hf. cbn [SeqLower.at_ty_c seval eval]. split; [reflexivity|apply constfits_zok, Hf].
  Qed.

  Lemma fits_fits_c t e : fits tyof t e = true -> fits_c t e = true.
  Proof.
    destruct e; cbn [fits SeqLower.fits_c]; auto; intros H; unfold coercible; rewrite H; reflexivity.
  Qed.

  Lemma at_ty_eq t e x : at_ty t e x = at_ty_c t e x.
  Proof. reflexivity. Qed.

  Lemma as_cond_ok t z vr x : is_cond t = true -> zokb t z = true ->
    eval sg vr ev x = Ok (ence t z) -> eval sg vr ev (as_cond t x) = Ok (VB (negb (z =? 0))).
  Proof.
    intros Hc Hz Hx. destruct t; try discriminate; cbn [as_cond].
    - cbn [eval]. rewrite Hx. cbn [bind ence]. apply zok_bit in Hz. destruct Hz as [-> | ->]; reflexivity.
    - exact Hx.
  Qed.

  Lemma exec_seq_assoc a b c vr ws :
    exec sg ev (SSeq a (SSeq b c)) vr ws = (do r <- exec sg ev (SSeq a b) vr ws; exec sg ev c (fst r) (snd r)).
  Proof.
    cbn [exec]. destruct (exec sg ev a vr ws) as [[v1 w1]|]; cbn [bind fst snd]; [|reflexivity]. reflexivity.
  Qed.

  Theorem lower_exp_ok : forall e, exp_ok e.
  Proof.
    induction e as [k|k|k|z|w a IHa b IHb|w a IHa b IHb|a IHa b IHb|a IHa b IHb|a IHa b IHb|w a IHa
                   |a IHa b IHb|a IHa b IHb|a IHa b IHb|a IHa i IHi|a IHa lo len|wb a IHa b IHb|c IHc a IHa b IHb].
    - (* XIn *)
      intros n vr vars ws W _ Hv. exists vr. unfold SeqLower.wt_e in W. cbn [SeqLower.tyof SeqLower.lower_exp fst snd exec SeqLower.ntmps SeqLower.tmps_e length] in *.
      destruct (k <? ni)%nat eqn:E; [|rewrite ety_eqb_refl in W; discriminate]. apply Nat.ltb_lt in E.
      destruct (Hin k E) as [H1 H2].
      split; [reflexivity|split; [exact Hv|split; [reflexivity|split; [|exact H2]]]].
      intros vr2 _. cbn [eval seval]. unfold lookup. rewrite H1. reflexivity.
    - (* XSig *)
      intros n vr vars ws W _ Hv. exists vr. unfold SeqLower.wt_e in W. cbn [SeqLower.tyof SeqLower.lower_exp fst snd exec SeqLower.ntmps SeqLower.tmps_e length] in *.
      destruct (k <? ns)%nat eqn:E; [|rewrite ety_eqb_refl in W; discriminate]. apply Nat.ltb_lt in E.
      destruct (Hsig k E) as [H1 H2].
      split; [reflexivity|split; [exact Hv|split; [reflexivity|split; [|exact H2]]]].
      intros vr2 _. cbn [eval seval]. unfold lookup. rewrite H1. reflexivity.
    - (* XVar *)
      intros n vr vars ws W _ Hv. exists vr. unfold SeqLower.wt_e in W. cbn [SeqLower.tyof SeqLower.lower_exp fst snd exec SeqLower.ntmps SeqLower.tmps_e length] in *.
      destruct (k <? nv)%nat eqn:E; [|rewrite ety_eqb_refl in W; discriminate]. apply Nat.ltb_lt in E.
      destruct (proj1 Hv k E) as [H1 H2].
      split; [reflexivity|split; [exact Hv|split; [reflexivity|split; [|exact H2]]]].
      intros vr2 HX. cbn [eval seval]. unfold lookup. rewrite (HX k) by (left; exact E). rewrite H1. reflexivity.
    - (* XConst *)
      intros n vr vars ws W _ Hv. exists vr. unfold SeqLower.wt_e in W. cbn [SeqLower.tyof SeqLower.lower_exp fst snd exec SeqLower.ntmps SeqLower.tmps_e length] in *.
      destruct (nat_ok z) eqn:E; [|discriminate].
      split; [reflexivity|split; [exact Hv|split; [reflexivity|split; [|exact E]]]].
      intros vr2 _. reflexivity.
    - (* XAdd *)
      apply (bin_ok _ a b (tyof (XAdd w a b)) (fun x y => wrap w (x + y)) IHa IHb); try reflexivity.
      + cbn [SeqLower.tyof]. apply arith_ne.
      + intros xa xb Hne. cbn [SeqLower.tyof bop] in *. apply val_add. exact Hne.
    - (* XSub *)
      apply (bin_ok _ a b (tyof (XSub w a b)) (fun x y => wrap w (x - y)) IHa IHb); try reflexivity.
      + cbn [SeqLower.tyof]. apply arith_ne.
      + intros xa xb Hne. cbn [SeqLower.tyof bop] in *. apply val_sub. exact Hne.
    - (* XAnd *)
      apply (bin_ok _ a b (tyof (XAnd a b)) Z.land IHa IHb); try reflexivity.
      + cbn [SeqLower.tyof]. apply logic_ne.
      + intros xa xb Hne. cbn [SeqLower.tyof bop] in *. apply val_logic; auto.
    - (* XOr *)
      apply (bin_ok _ a b (tyof (XOr a b)) Z.lor IHa IHb); try reflexivity.
      + cbn [SeqLower.tyof]. apply logic_ne.
      + intros xa xb Hne. cbn [SeqLower.tyof bop] in *. apply val_logic; auto.
    - (* XXor *)
      apply (bin_ok _ a b (tyof (XXor a b)) Z.lxor IHa IHb); try reflexivity.
      + cbn [SeqLower.tyof]. apply logic_ne.
      + intros xa xb Hne. cbn [SeqLower.tyof bop] in *. apply val_logic; auto.
    - (* XNot *)
      intros n vr vars ws W Hp Hv. pose proof (wt_e_ne _ W) as Hne.
      assert (Na : tyof a <> EBad). { cbn [SeqLower.tyof] in Hne. intros E. rewrite E in Hne. congruence. }
      destruct (IHa n vr vars ws (ne_wt_e _ Na) Hp Hv) as (vr' & E & V & F & Ev & Za).
      cbn [SeqLower.tyof] in Hne. destruct (val_not w _ _ Hne Za) as [H1 H2].
      exists vr'. split; [exact E|split; [exact V|split; [exact F|split]]].
      + intros vr2 HX. cbn [SeqLower.lower_exp snd eval]. rewrite (Ev vr2 HX). cbn [bind SeqLower.tyof seval]. exact H1.
      + cbn [SeqLower.tyof seval]. exact H2.
    - (* XEq *)
      apply (bin_ok _ a b (tyof (XEq a b)) (fun x y => zb (x =? y)) IHa IHb); try reflexivity.
      + cbn [SeqLower.tyof]. apply cmp_ne.
      + intros xa xb Hne. cbn [SeqLower.tyof bop] in *. apply (val_cmp OEq Z.eqb); auto.
    - (* XNe *)
      apply (bin_ok _ a b (tyof (XNe a b)) (fun x y => zb (negb (x =? y))) IHa IHb); try reflexivity.
      + cbn [SeqLower.tyof]. apply cmp_ne.
      + intros xa xb Hne. cbn [SeqLower.tyof bop] in *. apply (val_cmp ONe (fun x y => negb (x =? y))); auto.
    - (* XLt *)
      apply (bin_ok _ a b (tyof (XLt a b)) (fun x y => zb (x <? y)) IHa IHb); try reflexivity.
      + cbn [SeqLower.tyof]. apply cmp_ne.
      + intros xa xb Hne. cbn [SeqLower.tyof bop] in *. apply (val_cmp OLt Z.ltb); auto.
    - intros n vr vars ws W. discriminate W.
    - intros n vr vars ws W. discriminate W.
    - intros n vr vars ws W. discriminate W.
    - (* XIte *)
      intros n vr vars ws W Hp Hv. pose proof (wt_e_ne _ W) as Hne.
      destruct (ite_inv c a b Hne) as (Hc & St & Fa & Fb).
      set (t := tyof (XIte c a b)) in *.
      assert (Wc : wt_e c = true). { apply ne_wt_e. intros E. rewrite E in Hc. discriminate. }
      pose proof (fits_wt _ _ St Fa) as Wa. pose proof (fits_wt _ _ St Fb) as Wb.
      cbn [SeqLower.tmps_e] in Hp. fold t in Hp.
      apply pre_app in Hp. destruct Hp as [Pc Hp]. apply pre_app in Hp. destruct Hp as [Pa Hp].
      apply pre_app in Hp. destruct Hp as [Pb Pt].
      fold (ntmps c) in Pa, Pb, Pt. fold (ntmps a) in Pb, Pt. fold (ntmps b) in Pt.
      destruct (IHc n vr vars ws Wc Pc Hv) as (vr1 & E1 & V1 & F1 & Ev1 & Z1).
      destruct (IHa _ vr1 vars ws Wa Pa V1) as (vr2 & E2 & V2 & F2 & Ev2 & Z2).
      destruct (IHb _ vr2 vars ws Wb Pb V2) as (vr3 & E3 & V3 & F3 & Ev3 & Z3).
      set (ti := (n + ntmps c + ntmps a + ntmps b)%nat) in *.
      destruct (pre_nth [t] ti 0 Pt) as [Nt Lt]; [cbn; lia|]. rewrite Nat.add_0_r in Nt, Lt. cbn [nth] in Nt.
      destruct (proj2 V3 ti Lt) as (v0 & Fv0 & Sv0). rewrite Nt in Sv0.
      assert (Hcond : eval sg vr3 ev (as_cond (tyof c) (snd (lower_exp n c))) = Ok (VB (negb (seval inp old vars c =? 0)))).
      { apply as_cond_ok; [exact Hc|exact Z1|]. apply Ev1. intros j Hj. rewrite F3 by lia. apply F2. lia. }
      assert (Ha : eval sg vr3 ev (at_ty t a (snd (lower_exp (n + ntmps c) a))) = Ok (ence t (seval inp old vars a))
                   /\ zokb t (seval inp old vars a) = true).
      { rewrite at_ty_eq. apply at_ty_c_ok; [apply fits_fits_c, Fa|exact Z2|]. apply Ev2. intros j Hj. apply F3. lia. }
      assert (Hb : eval sg vr3 ev (at_ty t b (snd (lower_exp (n + ntmps c + ntmps a) b))) = Ok (ence t (seval inp old vars b))
                   /\ zokb t (seval inp old vars b) = true).
      { rewrite at_ty_eq. apply at_ty_c_ok; [apply fits_fits_c, Fb|exact Z3|]. apply Ev3. intros j Hj. reflexivity. }
      destruct Ha as [Ha Za], Hb as [Hb Zb].
      set (res := if seval inp old vars c =? 0 then seval inp old vars b else seval inp old vars a).
      assert (Zr : zokb t res = true). { unfold res. destruct (seval inp old vars c =? 0); assumption. }
      assert (Nt' : (ntmps (XIte c a b) = ntmps c + ntmps a + ntmps b + 1)%nat).
      { unfold SeqLower.ntmps. cbn [SeqLower.tmps_e]. rewrite !app_length. cbn [length]. lia. }
      exists (PM.add (vp (nv + ti)) (ence t res) vr3).
      split; [|split; [|split; [|split]]].
      + cbn [SeqLower.lower_exp fst]. fold t. fold ti. cbn [exec]. rewrite E1. cbn [bind fst snd]. rewrite E2. cbn [bind fst snd].
        rewrite E3. cbn [bind fst snd]. rewrite Hcond. cbn [bind exec_arms existsb choice_eqb value_eqb orb].
        unfold res. destruct (seval inp old vars c =? 0); cbn [negb Bool.eqb exec eval resolve bind].
        * rewrite Hb. cbn [bind]. unfold lookup. rewrite Fv0. cbn [bind apply_write].
          rewrite (shape_ence_any v0 t _ 0), Sv0. reflexivity.
        * rewrite Ha. cbn [bind]. unfold lookup. rewrite Fv0. cbn [bind apply_write].
          rewrite (shape_ence_any v0 t _ 0), Sv0. reflexivity.
      + split.
        * intros k Hk. rewrite PM.gso by (apply vp_neq; lia). apply (proj1 V3 k Hk).
        * intros i Hi. destruct (Nat.eq_dec i ti) as [->|Hn].
          -- rewrite PM.gss. eexists. split; [reflexivity|]. rewrite Nt. apply shape_ence.
          -- rewrite PM.gso by (apply vp_neq; lia). apply (proj2 V3 i Hi).
      + intros j Hj. rewrite Nt' in Hj. rewrite PM.gso by (apply vp_neq; lia).
        rewrite F3 by lia. rewrite F2 by lia. apply F1. lia.
      + intros vr2' HX. cbn [SeqLower.lower_exp snd]. fold ti. cbn [eval]. unfold lookup.
        rewrite (HX (nv + ti)%nat) by (right; rewrite Nt'; lia). rewrite PM.gss. cbn [seval]. reflexivity.
      + cbn [seval]. exact Zr.
  Qed.

  (** ** statements *)
  Definition sdef (k : nat) : Z := s_def (nth k ds dflt_decl).

  (** the value scheduled for signal k: a pushed signal that has not been pushed yet in this
      activation already carries its default (the [reset_pushed()] assignments come first) *)
  Definition view (pend : list Z) (pushed : list nat) (k : nat) : Z :=
    if pushedb k && negb (existsb (Nat.eqb k) pushed) then sdef k else nth k pend 0.

  Definition prel (ws : list write) (pend : list Z) (pushed : list nat) : Prop :=
    exists sg', commit sg (rev ws) = Ok sg' /\
      (forall k, (k < ns)%nat ->
         PM.find (bpos k) sg' = Some (ence (sgty k) (view pend pushed k)) /\
         zokb (sgty k) (view pend pushed k) = true) /\
      (forall p, (forall k, (k < ns)%nat -> p <> bpos k) -> PM.find p sg' = PM.find p sg).

  Lemma bpos_neq j k : j <> k -> bpos j <> bpos k.
  Proof. intros H. apply vp_neq. lia. Qed.

  (** scheduling one whole-signal write *)
  Lemma prel_write ws pend pushed k z pushed' :
    (k < ns)%nat -> (k < length pend)%nat -> prel ws pend pushed -> zokb (sgty k) z = true ->
    (pushedb k && negb (existsb (Nat.eqb k) pushed') = false) ->
    (forall j, j <> k -> existsb (Nat.eqb j) pushed' = existsb (Nat.eqb j) pushed) ->
    prel ((bpos k, [], ence (sgty k) z) :: ws) (set_nth pend k z) pushed'.
  Proof.
    intros Hk Hl (sg' & C & R & Fr) Hz Hp Hq.
    exists (PM.add (bpos k) (ence (sgty k) z) sg'). split; [|split].
    - cbn [rev]. rewrite commit_app, C. cbn [bind commit]. unfold lookup. rewrite (proj1 (R k Hk)).
      cbn [bind]. rewrite apply_write_whole. reflexivity.
    - intros j Hj. destruct (Nat.eq_dec j k) as [->|Hn].
      + rewrite PM.gss. unfold view. rewrite Hp, nth_set_nth_eq by exact Hl. auto.
      + rewrite PM.gso by (apply bpos_neq, Hn). unfold view. rewrite (Hq j Hn), nth_set_nth_ne by exact Hn. apply (R j Hj).
    - intros p Hp'. rewrite PM.gso by (intros E; apply (Hp' k Hk); auto). apply Fr, Hp'.
  Qed.

  Definition st_ok (w : work) : Prop := (ns <= length (w_pend w))%nat /\ (nv <= length (w_vars w))%nat.

  Theorem lower_stm_ok : forall s n w vr ws,
    wt_s s = true -> pre (tmps_s s) n -> vrel vr (w_vars w) -> prel ws (w_pend w) (w_pushed w) -> st_ok w ->
    exists vr' ws', exec sg ev (lower_stm n s) vr ws = Ok (vr', ws') /\
      vrel vr' (w_vars (sexec inp old s w)) /\
      prel ws' (w_pend (sexec inp old s w)) (w_pushed (sexec inp old s w)) /\
      st_ok (sexec inp old s w).
  Proof.
    induction s as [|t e|a IHa b IHb|c t IHt e IHe]; intros n w vr ws W Hp Hv Hr Hs.
    - exists vr, ws. cbn. auto.
    - cbn [SeqLower.wt_s] in W. apply andb_true_iff in W. destruct W as [We Wt].
      cbn [SeqLower.tmps_s] in Hp.
      destruct (lower_exp_ok e n vr (w_vars w) ws We Hp Hv) as (vr1 & E1 & V1 & F1 & Ev1 & Z1).
      assert (HX : agree_on n (ntmps e) vr1 vr1) by (intros j _; reflexivity).
      pose proof (Ev1 vr1 HX) as Ex. destruct Hs as [Hs1 Hs2].
      destruct t as [k|k|k|k i|k lo len]; try discriminate Wt.
      + (* k <<= e *)
        apply andb_true_iff in Wt. destruct Wt as [Wt Wf]. apply andb_true_iff in Wt. destruct Wt as [Wk Wp].
        apply Nat.ltb_lt in Wk. apply negb_true_iff in Wp.
        destruct (at_ty_c_ok (sgty k) e vr1 _ (w_vars w) Wf Z1 Ex) as [Ey Zy].
        eexists vr1, _. split; [|split; [|split]].
        * cbn [SeqLower.lower_stm exec]. rewrite E1. cbn [bind fst snd exec resolve]. rewrite Ey. cbn [bind].
          unfold lookup. rewrite (proj1 (Hsig k Wk)). cbn [bind]. rewrite apply_write_whole. cbn [bind]. reflexivity.
        * cbn [sexec assign w_vars]. exact V1.
        * cbn [sexec assign w_pend w_pushed]. apply (prel_write ws (w_pend w) (w_pushed w)); auto; try lia. rewrite Wp. reflexivity.
        * cbn [sexec assign]. split; cbn [w_pend w_vars]; [rewrite set_nth_length|]; assumption.
      + (* k ^= e *)
        apply andb_true_iff in Wt. destruct Wt as [Wt Wf]. apply andb_true_iff in Wt. destruct Wt as [Wk Wp].
        apply Nat.ltb_lt in Wk.
        destruct (at_ty_c_ok (sgty k) e vr1 _ (w_vars w) Wf Z1 Ex) as [Ey Zy].
        eexists vr1, _. split; [|split; [|split]].
        * cbn [SeqLower.lower_stm exec]. rewrite E1. cbn [bind fst snd exec resolve]. rewrite Ey. cbn [bind].
          unfold lookup. rewrite (proj1 (Hsig k Wk)). cbn [bind]. rewrite apply_write_whole. cbn [bind]. reflexivity.
        * cbn [sexec assign w_vars]. exact V1.
        * cbn [sexec assign w_pend w_pushed]. apply (prel_write ws (w_pend w) (w_pushed w)); auto; try lia.
          -- cbn [existsb]. rewrite Nat.eqb_refl. cbn. apply andb_false_r.
          -- intros j Hj. cbn [existsb]. apply Nat.eqb_neq in Hj. rewrite Hj. reflexivity.
        * cbn [sexec assign]. split; cbn [w_pend w_vars]; [rewrite set_nth_length|]; assumption.
      + (* k @= e *)
        apply andb_true_iff in Wt. destruct Wt as [Wk Wf]. apply Nat.ltb_lt in Wk.
        destruct (at_ty_c_ok (vty k) e vr1 _ (w_vars w) Wf Z1 Ex) as [Ey Zy].
        eexists (PM.add (vp k) (ence (vty k) (seval inp old (w_vars w) e)) vr1), ws. split; [|split; [|split]].
        * cbn [SeqLower.lower_stm exec]. rewrite E1. cbn [bind fst snd exec resolve]. rewrite Ey. cbn [bind].
          unfold lookup. rewrite (proj1 (proj1 V1 k Wk)). cbn [bind]. rewrite apply_write_whole. cbn [bind]. reflexivity.
        * cbn [sexec assign w_vars]. split.
          -- intros j Hj. destruct (Nat.eq_dec j k) as [->|Hn].
             ++ rewrite PM.gss, nth_set_nth_eq by lia. auto.
             ++ rewrite PM.gso by (apply vp_neq, Hn). rewrite nth_set_nth_ne by exact Hn. apply (proj1 V1 j Hj).
          -- intros i Hi. rewrite PM.gso by (apply vp_neq; lia). apply (proj2 V1 i Hi).
        * cbn [sexec assign w_pend w_pushed]. exact Hr.
        * cbn [sexec assign]. split; cbn [w_pend w_vars]; [|rewrite set_nth_length]; assumption.
    - cbn [SeqLower.wt_s] in W. apply andb_true_iff in W. destruct W as [Wa Wb].
      cbn [SeqLower.tmps_s] in Hp. apply pre_app in Hp. destruct Hp as [Pa Pb].
      destruct (IHa n w vr ws Wa Pa Hv Hr Hs) as (vr1 & ws1 & E1 & V1 & R1 & S1).
      destruct (IHb _ _ vr1 ws1 Wb Pb V1 R1 S1) as (vr2 & ws2 & E2 & V2 & R2 & S2).
      exists vr2, ws2. split; [|auto]. cbn [SeqLower.lower_stm exec]. rewrite E1. cbn [bind fst snd]. exact E2.
    - cbn [SeqLower.wt_s] in W. apply andb_true_iff in W. destruct W as [W We]. apply andb_true_iff in W. destruct W as [W Wt].
      apply andb_true_iff in W. destruct W as [Wc Hc].
      cbn [SeqLower.tmps_s] in Hp. apply pre_app in Hp. destruct Hp as [Pc Hp]. apply pre_app in Hp. destruct Hp as [Pt Pe].
      destruct (lower_exp_ok c n vr (w_vars w) ws Wc Pc Hv) as (vr1 & E1 & V1 & F1 & Ev1 & Z1).
      assert (HX : agree_on n (ntmps c) vr1 vr1) by (intros j _; reflexivity).
      pose proof (as_cond_ok _ _ vr1 _ Hc Z1 (Ev1 vr1 HX)) as Ec.
      cbn [sexec]. destruct (seval inp old (w_vars w) c =? 0) eqn:Ez.
      + destruct (IHe _ w vr1 ws We Pe V1 Hr Hs) as (vr2 & ws2 & E2 & V2 & R2 & S2).
        exists vr2, ws2. split; [|auto]. cbn [SeqLower.lower_stm exec]. rewrite E1. cbn [bind fst snd]. rewrite Ec.
        cbn [bind negb]. exact E2.
      + destruct (IHt _ w vr1 ws Wt Pt V1 Hr Hs) as (vr2 & ws2 & E2 & V2 & R2 & S2).
        exists vr2, ws2. split; [|auto]. cbn [SeqLower.lower_stm exec]. rewrite E1. cbn [bind fst snd]. rewrite Ec.
        cbn [bind negb]. exact E2.
  Qed.

  (** ** the whole process: [if rising_edge(clk) then <defaults of the pushed signals> <body> end if] *)
  Definition allp : list nat := seq 0 ns.

  Lemma allp_mem k : (k < ns)%nat -> existsb (Nat.eqb k) allp = true.
  Proof. intros H. apply existsb_exists. exists k. split; [apply in_seq; lia|apply Nat.eqb_refl]. Qed.

  Lemma prel_ext ws p1 q1 p2 q2 : (forall k, (k < ns)%nat -> view p1 q1 k = view p2 q2 k) ->
    prel ws p1 q1 -> prel ws p2 q2.
  Proof.
    intros H (sg' & C & R & Fr). exists sg'. split; [exact C|split; [|exact Fr]].
    intros k Hk. rewrite <- (H k Hk). apply (R k Hk).
  Qed.

  Definition put_defaults (ks : list nat) (pend : list Z) : list Z :=
    fold_left (fun p j => set_nth p j (sdef j)) ks pend.

  Lemma put_defaults_length ks : forall pend, length (put_defaults ks pend) = length pend.
  Proof. induction ks as [|k r IH]; intros pend; cbn; [reflexivity|]. unfold put_defaults in IH. rewrite IH. apply set_nth_length. Qed.

  Lemma nth_put_defaults ks : forall pend k, (forall j, In j ks -> (j < length pend)%nat) ->
    nth k (put_defaults ks pend) 0 = if existsb (Nat.eqb k) ks then sdef k else nth k pend 0.
  Proof.
    induction ks as [|j r IH]; intros pend k Hl; [reflexivity|].
    cbn [put_defaults fold_left existsb]. fold (put_defaults r (set_nth pend j (sdef j))).
    rewrite IH by (intros i Hi; rewrite set_nth_length; apply Hl; right; exact Hi).
    destruct (existsb (Nat.eqb k) r); [rewrite orb_true_r; reflexivity|]. rewrite orb_false_r.
    destruct (Nat.eqb_spec k j) as [->|Hn].
    - apply nth_set_nth_eq. apply Hl. left. reflexivity.
    - apply nth_set_nth_ne. exact Hn.
  Qed.

  Lemma defaults_exec vr ks : forall ws pend,
    (forall k, In k ks -> (k < ns)%nat /\ zokb (sgty k) (sdef k) = true) -> (ns <= length pend)%nat ->
    prel ws pend allp ->
    exists ws', exec sg ev (defaults_of its ds ks) vr ws = Ok (vr, ws') /\ prel ws' (put_defaults ks pend) allp.
  Proof.
    induction ks as [|k r IH]; intros ws pend Hk Hl Hr.
    - exists ws. split; [reflexivity|exact Hr].
    - destruct (Hk k (or_introl eq_refl)) as [Kn Kz].
      assert (R1 : prel ((bpos k, [], ence (sgty k) (sdef k)) :: ws) (set_nth pend k (sdef k)) allp).
      { apply (prel_write ws pend allp); auto; try lia. rewrite (allp_mem k Kn). apply andb_false_r. }
      destruct (IH _ _ (fun j Hj => Hk j (or_intror Hj)) ltac:(rewrite set_nth_length; exact Hl) R1) as (ws' & E & R').
      exists ws'. split; [|exact R'].
      cbn [defaults_of fold_right exec]. unfold push_default at 1. cbn [exec eval resolve bind].
      unfold lookup. rewrite (proj1 (Hsig k Kn)). cbn [bind]. unfold sdef. rewrite apply_write_whole. cbn [bind fst snd].
      exact E.
  Qed.

  Lemma pushed_list_mem k : (k < ns)%nat -> existsb (Nat.eqb k) (pushed_list ds pu) = pushedb k.
  Proof.
    intros Hk. unfold pushed_list. destruct (pushedb k) eqn:E.
    - apply existsb_exists. exists k. split; [|apply Nat.eqb_refl]. apply filter_In. split; [apply in_seq; lia|exact E].
    - destruct (existsb (Nat.eqb k) (filter pushedb (seq 0 ns))) eqn:E2; [|reflexivity].
      apply existsb_exists in E2. destruct E2 as (x & Hx & Hxe). apply Nat.eqb_eq in Hxe. subst x.
      apply filter_In in Hx. destruct Hx as [_ Hx]. congruence.
  Qed.

  (** one activation of the process on a rising clock edge: the collected writes, committed,
      give exactly the reference's scheduled values; the variables are the reference's variables *)
  Theorem lower_process_ok body vr vars :
    wt_s body = true -> tys = tmps_s body ->
    (forall k, (k < ns)%nat -> zokb (sgty k) (sdef k) = true) ->
    PM.find clkp sg = Some (VL true) -> PS.mem clkp ev = true ->
    length old = ns -> (nv <= length vars)%nat -> vrel vr vars ->
    let w := sexec inp old body {| w_pend := old; w_vars := vars; w_pushed := [] |} in
    exists vr' ws sg',
      run_conc sg vr ev (lower_proc its ds vts pu body) = Ok (vr', ws) /\
      commit sg ws = Ok sg' /\
      vrel vr' (w_vars w) /\
      (forall k, (k < ns)%nat ->
         PM.find (bpos k) sg' = Some (ence (sgty k) (view (w_pend w) (w_pushed w) k)) /\
         zokb (sgty k) (view (w_pend w) (w_pushed w) k) = true) /\
      (forall p, (forall k, (k < ns)%nat -> p <> bpos k) -> PM.find p sg' = PM.find p sg) /\
      (ns <= length (w_pend w))%nat.
  Proof.
    intros W Ht Hd Hclk Hev Hlo Hlv Hv w.
    assert (R0 : prel [] old allp).
    { exists sg. split; [reflexivity|split; [|reflexivity]]. intros k Hk. unfold view. rewrite (allp_mem k Hk), andb_false_r. apply (Hsig k Hk). }
    destruct (defaults_exec vr (pushed_list ds pu) [] old) as (ws0 & E0 & Rd); [|lia|exact R0|].
    { intros k Hk. apply filter_In in Hk. destruct Hk as [Hk _]. apply in_seq in Hk. split; [lia|apply Hd; lia]. }
    assert (R1 : prel ws0 old []).
    { apply (prel_ext ws0 (put_defaults (pushed_list ds pu) old) allp); [|exact Rd]. intros k Hk. unfold view.
      rewrite (allp_mem k Hk), andb_false_r. cbn [existsb negb]. rewrite andb_true_r.
      rewrite nth_put_defaults, (pushed_list_mem k Hk); [reflexivity|].
      intros j Hj. apply filter_In in Hj. destruct Hj as [Hj _]. apply in_seq in Hj. lia. }
    assert (P0 : pre (tmps_s body) 0). { exists [], []. rewrite app_nil_r. auto. }
    destruct (lower_stm_ok body 0 {| w_pend := old; w_vars := vars; w_pushed := [] |} vr ws0 W P0 Hv R1) as (vr' & ws' & E & V & R & S).
    { split; cbn; lia. }
    destruct R as (sg' & C & Rk & Fr).
    exists vr', (rev ws'), sg'. split; [|split; [exact C|split; [exact V|split; [exact Rk|split; [exact Fr|apply S]]]]].
    cbn [run_conc lower_proc]. unfold lower_body. cbn [exec eval]. unfold lookup. rewrite Hclk. cbn [bind]. rewrite Hev.
    cbn [andb Bool.eqb exec]. rewrite E0. cbn [bind fst snd]. rewrite E. reflexivity.
  Qed.

  (** without an edge the process does nothing *)
  Theorem lower_process_idle body vr b :
    PM.find clkp sg = Some (VL b) -> (PS.mem clkp ev && Bool.eqb b true) = false ->
    run_conc sg vr ev (lower_proc its ds vts pu body) = Ok (vr, []).
  Proof.
    intros Hclk He. cbn [run_conc lower_proc]. unfold lower_body. cbn [exec eval]. unfold lookup. rewrite Hclk. cbn [bind].
    rewrite He. reflexivity.
  Qed.
End Proofs.

(** ** the reference's [finish]: what the committed store holds IS the next reference state *)
Lemma nth_finish : forall dl pend pushed k0 k, (k < length dl)%nat -> (length dl <= length pend)%nat ->
  nth k (finish dl pend pushed k0) 0 =
    if s_push (nth k dl dflt_decl) && negb (existsb (Nat.eqb (k0 + k)) pushed) then s_def (nth k dl dflt_decl) else nth k pend 0.
Proof.
  induction dl as [|d r IH]; intros pend pushed k0 k Hk Hl; cbn [length] in *; [lia|].
  destruct pend as [|v pr]; cbn [length] in *; [lia|]. cbn [finish]. destruct k as [|k].
  - cbn [nth]. rewrite Nat.add_0_r. reflexivity.
  - cbn [nth]. rewrite IH by lia. replace (S k0 + k)%nat with (k0 + S k)%nat by lia. reflexivity.
Qed.

Lemma view_finish ds pu pend pushed k :
  (k < length ds)%nat -> (length ds <= length pend)%nat ->
  s_push (nth k ds dflt_decl) = pushedb pu k ->
  view ds pu pend pushed k = nth k (finish ds pend pushed 0) 0.
Proof. intros Hk Hl Hp. rewrite nth_finish by assumption. unfold view, sdef. rewrite Hp. reflexivity. Qed.

(** side conditions on the declarations, as a boolean: every default is a value of its type, and the
    declaration marks as pushed exactly the signals the body pushes *)
Definition decls_ok (ds : list sdecl) (body : stm) : bool :=
  forallb (fun k => zokb (sgty ds k) (sdef ds k) &&
                    Bool.eqb (s_push (nth k ds dflt_decl)) (pushedb (pushed_in body) k)) (seq 0 (ns ds)).

(** ALL PROGRAMS, one activation: for every body of the grammar, every store that is well typed for the
    declarations and every input vector, the process [lower_proc body] run on a rising clock edge under
    [Vhdl.Sem] and committed computes exactly the next state of [SeqRef.seq_step ds body]
    ([finish] of [sexec]) in the buffer signals and the reference's variables in the process variables. *)
Theorem lower_activation_correct its ds vts body sg ev inp old vr vars :
  in_grammar its ds vts body = true -> decls_ok ds body = true ->
  (forall k, (k < ni its)%nat ->
     PM.find (ipos k) sg = Some (ence (ity its k) (nth k inp 0)) /\ zokb (ity its k) (nth k inp 0) = true) ->
  (forall k, (k < ns ds)%nat ->
     PM.find (bpos its ds k) sg = Some (ence (sgty ds k) (nth k old 0)) /\ zokb (sgty ds k) (nth k old 0) = true) ->
  PM.find clkp sg = Some (VL true) -> PS.mem clkp ev = true ->
  length old = ns ds -> (nv vts <= length vars)%nat ->
  vrel vts (tmps_s its ds vts body) vr vars ->
  let w := sexec inp old body {| w_pend := old; w_vars := vars; w_pushed := [] |} in
  let sigs' := finish ds (w_pend w) (w_pushed w) 0 in
  exists vr' ws sg',
    run_conc sg vr ev (lower_proc its ds vts (pushed_in body) body) = Ok (vr', ws) /\
    commit sg ws = Ok sg' /\
    vrel vts (tmps_s its ds vts body) vr' (w_vars w) /\
    (forall k, (k < ns ds)%nat -> PM.find (bpos its ds k) sg' = Some (ence (sgty ds k) (nth k sigs' 0))) /\
    (forall p, (forall k, (k < ns ds)%nat -> p <> bpos its ds k) -> PM.find p sg' = PM.find p sg).
Proof.
  intros G D Hin Hsig Hclk Hev Hlo Hlv Hv w sigs'.
  assert (Dk : forall k, (k < ns ds)%nat -> zokb (sgty ds k) (sdef ds k) = true /\
                                           s_push (nth k ds dflt_decl) = pushedb (pushed_in body) k).
  { intros k Hk. unfold decls_ok in D. rewrite forallb_forall in D. specialize (D k). 
    assert (Hi : In k (seq 0 (ns ds))) by (apply in_seq; lia). apply D in Hi. apply andb_true_iff in Hi.
    destruct Hi as [H1 H2]. apply Bool.eqb_prop in H2. auto. }
  destruct (lower_process_ok its ds vts (pushed_in body) sg ev inp old _ Hin Hsig body vr vars G eq_refl
              (fun k Hk => proj1 (Dk k Hk)) Hclk Hev Hlo Hlv Hv) as (vr' & ws & sg' & E & C & V & R & Fr & L).
  exists vr', ws, sg'. split; [exact E|split; [exact C|split; [exact V|split; [|exact Fr]]]].
  intros k Hk. rewrite (proj1 (R k Hk)). unfold sigs', w. rewrite <- (view_finish ds (pushed_in body)); auto.
  apply (proj2 (Dk k Hk)).
Qed.
