(** * SeqRef: the documented activation semantics of a (non-async) context body (C03).

    Within one activation statements take effect in program order:
    - a signal assigned with [<<=] changes only after the activation: later reads still see
      the old value, the last assignment executed wins, an unassigned signal holds its value;
      assignments to single bits / slices replace exactly those bits of the value scheduled so far;
    - a variable assigned with [@=] changes immediately;
    - a signal assigned with [^=] carries the pushed value for exactly one step and its
      default in every step in which it is not pushed;
    - a run-time index is evaluated when the access is executed;
    - conditionals execute exactly the first branch whose condition holds, or the default
      (if/elif/else, match, for-break chains, for-else and helper functions with returns in
      branches are all rendered to nested [RIf] by the generator - the source differs, the
      documented meaning is the same). *)
From Coq Require Import ZArith NArith List Bool Lia.
From Cohdl Require Import Base.Bits Vhdl.Value Equiv.RefTS.
Import ListNotations.
Local Open Scope Z_scope.

Inductive exp :=
| XIn (k : nat)                   (* input port k, value of this step *)
| XSig (k : nat)                  (* signal k: value before this activation *)
| XVar (k : nat)                  (* variable k: current value *)
| XConst (z : Z)
| XAdd (w : N) (a b : exp)        (* (a + b) mod 2^w *)
| XSub (w : N) (a b : exp)
| XAnd (a b : exp) | XOr (a b : exp) | XXor (a b : exp)
| XNot (w : N) (a : exp)
| XEq (a b : exp) | XNe (a b : exp) | XLt (a b : exp)
| XBit (a i : exp)                (* bit i of a, i evaluated now *)
| XSlice (a : exp) (lo len : N)
| XConcat (wb : N) (a b : exp)    (* a @ b with b of width wb: a forms the most significant bits *)
| XIte (c a b : exp).

Inductive tgt :=
| TSig (k : nat)                  (* k <<= e *)
| TPush (k : nat)                 (* k ^= e *)
| TVar (k : nat)                  (* k @= e *)
| TSigBit (k : nat) (i : exp)     (* k[i] <<= e *)
| TSigSlice (k : nat) (lo len : N).  (* k[lo+len-1:lo] <<= e *)

Inductive stm :=
| RSkip
| RAssign (t : tgt) (e : exp)
| RSeq (a b : stm)
| RIf (c : exp) (t e : stm).

Fixpoint seval (inp old vars : list Z) (e : exp) : Z :=
  let ev := seval inp old vars in
  match e with
  | XIn k => nth k inp 0
  | XSig k => nth k old 0
  | XVar k => nth k vars 0
  | XConst z => z
  | XAdd w a b => wrap w (ev a + ev b)
  | XSub w a b => wrap w (ev a - ev b)
  | XAnd a b => Z.land (ev a) (ev b)
  | XOr a b => Z.lor (ev a) (ev b)
  | XXor a b => Z.lxor (ev a) (ev b)
  | XNot w a => ones w - ev a
  | XEq a b => zb (ev a =? ev b)
  | XNe a b => zb (negb (ev a =? ev b))
  | XLt a b => zb (ev a <? ev b)
  | XBit a i => zb (bitof (ev a) (Z.to_N (ev i)))
  | XSlice a lo len => getslice (ev a) lo len
  | XConcat wb a b => ev a * pow2 wb + ev b
  | XIte c a b => if ev c =? 0 then ev b else ev a
  end.

Fixpoint set_nth (l : list Z) (k : nat) (x : Z) : list Z :=
  match l, k with
  | [], _ => []
  | _ :: r, O => x :: r
  | y :: r, S k' => y :: set_nth r k' x
  end.

Record work := { w_pend : list Z; w_vars : list Z; w_pushed : list nat }.

Definition assign (inp old : list Z) (t : tgt) (v : Z) (w : work) : work :=
  match t with
  | TSig k => {| w_pend := set_nth w.(w_pend) k v; w_vars := w.(w_vars); w_pushed := w.(w_pushed) |}
  | TPush k => {| w_pend := set_nth w.(w_pend) k v; w_vars := w.(w_vars); w_pushed := k :: w.(w_pushed) |}
  | TVar k => {| w_pend := w.(w_pend); w_vars := set_nth w.(w_vars) k v; w_pushed := w.(w_pushed) |}
  | TSigBit k i =>
      let idx := Z.to_N (seval inp old w.(w_vars) i) in
      {| w_pend := set_nth w.(w_pend) k (setslice (nth k w.(w_pend) 0) idx 1 v);
         w_vars := w.(w_vars); w_pushed := w.(w_pushed) |}
  | TSigSlice k lo len =>
      {| w_pend := set_nth w.(w_pend) k (setslice (nth k w.(w_pend) 0) lo len v);
         w_vars := w.(w_vars); w_pushed := w.(w_pushed) |}
  end.

Fixpoint sexec (inp old : list Z) (s : stm) (w : work) : work :=
  match s with
  | RSkip => w
  | RAssign t e => assign inp old t (seval inp old w.(w_vars) e) w
  | RSeq a b => sexec inp old b (sexec inp old a w)
  | RIf c t e => if seval inp old w.(w_vars) c =? 0 then sexec inp old e w else sexec inp old t w
  end.

(** description of the observable signals: (type tag, width, is-pushed, default) *)
Inductive sty := SBit | SUns (w : N) | SSlv (w : N).
Record sdecl := { s_ty : sty; s_push : bool; s_def : Z }.

Definition out_val (d : sdecl) (v : Z) : value :=
  match d.(s_ty) with
  | SBit => VL (negb (v =? 0))
  | SUns w => VV KUns w v
  | SSlv w => VV KSlv w v
  end.

Fixpoint finish (ds : list sdecl) (pend : list Z) (pushed : list nat) (k : nat) : list Z :=
  match ds, pend with
  | d :: r, v :: r' =>
      (if d.(s_push) && negb (existsb (Nat.eqb k) pushed) then d.(s_def) else v) :: finish r r' pushed (S k)
  | _, _ => []
  end.

(** state = signals ++ variables (as one [list Z]); [ns] = number of signals *)
Definition seq_step (ds : list sdecl) (body : stm) : rstep := fun st inp =>
  let ns := length ds in
  let old := firstn ns st in
  let vars := skipn ns st in
  let w := sexec (map vnum inp) old body {| w_pend := old; w_vars := vars; w_pushed := [] |} in
  let sigs' := finish ds w.(w_pend) w.(w_pushed) 0 in
  (sigs' ++ w.(w_vars), Ok (map (fun p => out_val (fst p) (snd p)) (combine ds sigs'))).

(** a purely combinational context: the outputs are the values the body assigns, computed from
    the inputs alone (signals the body does not assign on the executed path keep their value;
    variables start every activation from their declared value only if read before written,
    which the generator excludes) *)
Definition comb_step (ds : list sdecl) (body : stm) : rstep := seq_step ds body.
