(** * TimingAllProofs: for ALL lengths / limits / periods the as-coded timing models
    ([Models.TimingAll]) coincide with the specification machines of [Models.StdSpecs], and closed
    forms (exact delay, exact period, exact duty, restart) hold. *)
From Coq Require Import ZArith NArith List Bool Lia.
From Cohdl Require Import Base.Bits Vhdl.Value Equiv.Explore Equiv.RefTS Models.StdSpecs Models.Ring
  Models.RingProofs Models.TimingAll.
Import ListNotations.
Local Open Scope Z_scope.

(** ** generic: refinement by invariant + abstraction function; closed forms by a state-at-time function *)

Lemma sim_traces (stepM stepS : rstep) (Inv : list Z -> Prop) (abs : list Z -> list Z) :
  (forall st inp, Inv st ->
     Inv (fst (stepM st inp)) /\ abs (fst (stepM st inp)) = fst (stepS (abs st) inp) /\
     snd (stepM st inp) = snd (stepS (abs st) inp)) ->
  forall ins st, Inv st -> traceB stepM st ins = traceB stepS (abs st) ins.
Proof.
  intros Hsim. induction ins as [|i r IH]; intros st Hinv; [reflexivity|].
  destruct (Hsim st i Hinv) as (Hinv' & Habs & Hout). cbn [traceB].
  destruct (stepM st i) as [st' o] eqn:E1. destruct (stepS (abs st) i) as [q' o'] eqn:E2.
  cbn [fst snd] in *. subst. f_equal. apply IH. exact Hinv'.
Qed.

Lemma trace_closed (step : rstep) (P : list value -> Prop) (St : nat -> list Z) (O : nat -> res (list value)) :
  (forall t inp, P inp -> step (St t) inp = (St (S t), O t)) ->
  forall ins t0, Forall P ins -> traceB step (St t0) ins = map O (seq t0 (length ins)).
Proof.
  intros Hstep. induction ins as [|i r IH]; intros t0 HP; [reflexivity|].
  inversion HP as [|? ? Hi Hr]; subst. cbn [traceB length seq map].
  rewrite (Hstep t0 i Hi). f_equal. apply IH. exact Hr.
Qed.

Lemma Forall_True {A} (l : list A) : Forall (fun _ => True) l.
Proof. induction l; constructor; auto. Qed.

Lemma zb_eqb b : (zb b =? 1) = b.
Proof. destruct b; reflexivity. Qed.

(** the wrapping successor used by every counter of this file *)
Lemma succ_mod_step P a : 0 < P -> (if a mod P =? P - 1 then 0 else a mod P + 1) = (a + 1) mod P.
Proof.
  intros HP. rewrite <- (Zplus_mod_idemp_l a 1 P). pose proof (mod_range P a HP) as Hr.
  rewrite (mod_succ_range P (a mod P) Hr).
  destruct (Z.eqb_spec (a mod P) (P - 1)); destruct (Z.eqb_spec (a mod P + 1) P); lia.
Qed.

(** [continuous_counter]'s next value: no overflow of [Unsigned.upto(limit)] below the limit *)
Lemma cc_next_spec limit c : 0 <= limit -> 0 <= c <= limit ->
  cc_next limit c = (if c =? limit then 0 else c + 1) /\ 0 <= cc_next limit c <= limit.
Proof.
  intros Hl Hc. unfold cc_next. destruct (Z.eqb_spec c limit); [lia|].
  assert (Hw : wrap (upto_width limit) (c + 1) = c + 1).
  { apply wrap_small. unfold upto_width. destruct (Z.eqb_spec limit 0); [lia|].
    pose proof (bit_length_gt limit Hl). lia. }
  rewrite Hw. lia.
Qed.

(** ** DelayLine *)

Lemma dl_next_drop_last : forall r a x, dl_next x (a :: r) = x :: drop_last (a :: r).
Proof.
  induction r as [|b r IH]; intros a x; [reflexivity|].
  change (dl_next x (a :: b :: r)) with (x :: dl_next a (b :: r)). rewrite IH. reflexivity.
Qed.

Lemma dline_eq_delay w st inp : st <> [] -> dline_step w st inp = delay_step w st inp.
Proof.
  intros Hne. destruct st as [|a r]; [congruence|].
  destruct inp as [|x [|? ?]]; try reflexivity.
  unfold dline_step, delay_step. rewrite dl_next_drop_last. reflexivity.
Qed.

(** the as-coded delay line IS the specification machine, for every length n >= 1 and every input sequence *)
Theorem dline_refines_delay : forall (n : nat) (w : BinNums.N) (i : Z) ins, (1 <= n)%nat ->
  traceB (dline_step w) (dline_init n i) ins = traceB (delay_step w) (repeat i n) ins.
Proof.
  intros n w i ins Hn. unfold dline_init.
  apply (sim_traces (dline_step w) (delay_step w) (fun st => st <> []) (fun st => st)).
  - intros st inp Hne. rewrite dline_eq_delay by exact Hne. repeat split.
    destruct st as [|a r]; [congruence|]. destruct inp as [|x [|? ?]]; cbn; congruence.
  - destruct n; [lia|]. discriminate.
Qed.

Lemma dline_step_rev w h t x :
  dline_step w (rev (h :: t)) [x] = (rev (t ++ [vnum x]), Ok [ouns w (hd 0 (t ++ [vnum x]))]).
Proof.
  unfold dline_step. cbn [rev].
  assert (Hn : dl_next (vnum x) (rev t ++ [h]) = rev (t ++ [vnum x])).
  { destruct (rev t ++ [h]) as [|a r] eqn:E; [destruct (rev t); discriminate|].
    rewrite dl_next_drop_last, <- E, drop_last_snoc, rev_unit. reflexivity. }
  rewrite Hn.
  destruct (t ++ [vnum x]) as [|h' t'] eqn:E; [destruct t; discriminate|].
  cbn [rev hd]. rewrite last_last. reflexivity.
Qed.

Lemma dline_trace_gen w : forall vs q, q <> [] ->
  traceB (dline_step w) (rev q) (map (fun v => [v]) vs) =
  map (fun o => Ok [ouns w o]) (firstn (length vs) (tl q ++ map vnum vs)).
Proof.
  induction vs as [|v r IH]; intros q Hq; [reflexivity|].
  destruct q as [|h t]; [congruence|].
  cbn [map traceB length tl]. rewrite dline_step_rev.
  replace (t ++ vnum v :: map vnum r) with ((t ++ [vnum v]) ++ map vnum r) by (rewrite <- app_assoc; reflexivity).
  destruct (t ++ [vnum v]) as [|h' t'] eqn:E; [destruct t; discriminate|].
  cbn [app firstn map hd]. f_equal. apply (IH (h' :: t')). discriminate.
Qed.

Lemma rev_repeat {A} (x : A) n : rev (repeat x n) = repeat x n.
Proof.
  induction n as [|n IH]; [reflexivity|]. cbn [repeat rev]. rewrite IH. symmetry. apply repeat_cons.
Qed.

(** exact delay, every length n >= 1, every width, every input sequence: the output stream is the input
    stream preceded by n-1 copies of the initial value (observation convention of the test bench: the
    output is sampled after the clock edge that registered the current input, so the value sampled
    after edge t is the input of edge t-(n-1), i.e. it has passed through n registers) *)
Theorem delay_line_exact : forall (n : nat) (w : BinNums.N) (i : Z) (vs : list value), (1 <= n)%nat ->
  traceB (dline_step w) (dline_init n i) (map (fun v => [v]) vs) =
  map (fun o => Ok [ouns w o]) (firstn (length vs) (repeat i (n - 1) ++ map vnum vs)).
Proof.
  intros n w i vs Hn. unfold dline_init. rewrite <- (rev_repeat i n).
  rewrite dline_trace_gen by (destruct n; [lia|discriminate]).
  destruct n; [lia|]. cbn [repeat tl]. rewrite Nat.sub_succ, Nat.sub_0_r. reflexivity.
Qed.

Lemma nth_firstn_lt {A} (d : A) : forall k l t, (t < k)%nat -> nth t (firstn k l) d = nth t l d.
Proof.
  induction k as [|k IH]; intros l t Ht; [lia|].
  destruct l as [|a l]; [destruct t; reflexivity|]. destruct t as [|t]; [reflexivity|].
  cbn [firstn nth]. apply IH. lia.
Qed.

Lemma nth_repeat_lt {A} (a d : A) : forall m t, (t < m)%nat -> nth t (repeat a m) d = a.
Proof.
  induction m as [|m IH]; intros t Ht; [lia|]. destruct t as [|t]; [reflexivity|]. cbn [repeat nth]. apply IH. lia.
Qed.

(** the same, pointwise: before n-1 clocks have passed the initial value, afterwards input(t-(n-1)) *)
Theorem delay_line_nth : forall (n : nat) (i : Z) (xs : list Z) (t : nat), (t < length xs)%nat ->
  nth t (firstn (length xs) (repeat i (n - 1) ++ xs)) 0 =
  if (t <? n - 1)%nat then i else nth (t - (n - 1)) xs 0.
Proof.
  intros n i xs t Ht. rewrite nth_firstn_lt by exact Ht.
  destruct (Nat.ltb_spec t (n - 1)) as [H|H].
  - rewrite app_nth1 by (rewrite repeat_length; exact H). apply nth_repeat_lt. exact H.
  - rewrite app_nth2 by (rewrite repeat_length; exact H). rewrite repeat_length. reflexivity.
Qed.

(** ** continuous_counter *)

Theorem ccounter_refines : forall (w : BinNums.N) (limit : Z) ins, 0 <= limit ->
  traceB (ccounter_step w limit) [0] ins = traceB (counter_step w limit) [0] ins.
Proof.
  intros w limit ins Hl.
  apply (sim_traces (ccounter_step w limit) (counter_step w limit)
           (fun st => exists c, st = [c] /\ 0 <= c <= limit) (fun st => st)).
  - intros st inp (c & -> & Hc). destruct (cc_next_spec limit c Hl Hc) as [E Hr].
    unfold ccounter_step, counter_step. cbn [fst snd]. rewrite E in *. repeat split.
    eexists; split; [reflexivity|exact Hr].
  - exists 0. split; [reflexivity|lia].
Qed.

(** exact period limit+1, every limit >= 0: the value after clock t (t = 0, 1, ..) is (t+1) mod (limit+1) *)
Theorem counter_closed_form : forall (w : BinNums.N) (limit : Z) ins, 0 <= limit ->
  traceB (counter_step w limit) [0] ins =
  map (fun t => Ok [ouns w (Z.of_nat (S t) mod (limit + 1))]) (seq 0 (length ins)).
Proof.
  intros w limit ins Hl.
  change [0] with ((fun t => [Z.of_nat t mod (limit + 1)]) 0%nat).
  apply (trace_closed _ (fun _ => True)); [|apply Forall_True].
  intros t inp _. unfold counter_step. cbv zeta.
  assert (E : (if Z.of_nat t mod (limit + 1) =? limit then 0 else Z.of_nat t mod (limit + 1) + 1)
              = Z.of_nat (S t) mod (limit + 1)).
  { replace (Z.of_nat (S t)) with (Z.of_nat t + 1) by lia. rewrite <- succ_mod_step by lia.
    replace (limit + 1 - 1) with limit by lia. reflexivity. }
  rewrite E. reflexivity.
Qed.

Theorem ccounter_closed_form : forall (w : BinNums.N) (limit : Z) ins, 0 <= limit ->
  traceB (ccounter_step w limit) [0] ins =
  map (fun t => Ok [ouns w (Z.of_nat (S t) mod (limit + 1))]) (seq 0 (length ins)).
Proof. intros. rewrite ccounter_refines by assumption. apply counter_closed_form; assumption. Qed.

(** ** ToggleSignal *)

Definition tg_abs (st : list Z) : list Z := match st with [c; s; _; _] => [c; s] | _ => st end.

Theorem togglem_refines : forall (first second : Z) (ds fs : bool) ins, 0 <= first -> 0 <= second -> 1 <= first + second ->
  traceB (togglem_step first second ds fs) (togglem_init ds) ins =
  traceB (toggle_step first second ds fs) [0; zb ds] ins.
Proof.
  intros first second ds fs ins Hf Hs Hp.
  change [0; zb ds] with (tg_abs (togglem_init ds)).
  apply (sim_traces (togglem_step first second ds fs) (toggle_step first second ds fs)
           (fun st => exists c s ri fa, st = [c; s; ri; fa] /\ 0 <= c <= first + second - 1) tg_abs).
  - intros st inp (c & s & ri & fa & -> & Hc).
    destruct (cc_next_spec (first + second - 1) c ltac:(lia) Hc) as [E Hr].
    unfold togglem_step, toggle_step, tg_abs. cbn [fst snd]. rewrite E in *.
    set (c' := if c =? first + second - 1 then 0 else c + 1) in *.
    assert (Hs' : (if fs then c' <? first else negb (c' <? first)) = (if c' <? first then fs else negb fs))
      by (destruct fs, (c' <? first); reflexivity).
    rewrite Hs'. repeat split. do 4 eexists; split; [reflexivity|exact Hr].
  - exists 0, (zb ds), 0, 0. split; [reflexivity|lia].
Qed.

(** level of the signal as a function of the counter value *)
Definition tg_level (first : Z) (fs : bool) (c : Z) : bool := if c <? first then fs else negb fs.
(** level after clock t-1 (t >= 1), the default level before the first clock *)
Definition tg_state (first second : Z) (ds fs : bool) (t : nat) : bool :=
  match t with O => ds | _ => tg_level first fs (Z.of_nat t mod (first + second)) end.

(** exact period and duty, all durations with first + second >= 1: after clock t (t = 0, 1, ..) the counter
    is (t+1) mod (first+second); the level is [first_state] exactly while that counter is below [first]
    (first clocks per period) and the opposite level for the other [second] clocks; [rising]/[falling]
    are raised exactly in the clocks whose level differs from the previous one *)
Theorem toggle_closed_form : forall (first second : Z) (ds fs : bool) ins, 0 <= first -> 0 <= second -> 1 <= first + second ->
  traceB (toggle_step first second ds fs) [0; zb ds] ins =
  map (fun t => let s := tg_state first second ds fs t in
                let s' := tg_state first second ds fs (S t) in
                Ok [obit s'; obit (negb s && s'); obit (s && negb s')]) (seq 0 (length ins)).
Proof.
  intros first second ds fs ins Hf Hs Hp.
  change [0; zb ds] with ((fun t => [Z.of_nat t mod (first + second); zb (tg_state first second ds fs t)]) 0%nat).
  apply (trace_closed _ (fun _ => True)); [|apply Forall_True].
  intros t inp _. unfold toggle_step. rewrite zb_eqb.
  rewrite succ_mod_step by lia.
  replace (Z.of_nat t + 1) with (Z.of_nat (S t)) by lia.
  change (tg_state first second ds fs (S t)) with (tg_level first fs (Z.of_nat (S t) mod (first + second))).
  unfold tg_level. reflexivity.
Qed.

Theorem togglem_closed_form : forall (first second : Z) (ds fs : bool) ins, 0 <= first -> 0 <= second -> 1 <= first + second ->
  traceB (togglem_step first second ds fs) (togglem_init ds) ins =
  map (fun t => let s := tg_state first second ds fs t in
                let s' := tg_state first second ds fs (S t) in
                Ok [obit s'; obit (negb s && s'); obit (s && negb s')]) (seq 0 (length ins)).
Proof. intros. rewrite togglem_refines by assumption. apply toggle_closed_form; assumption. Qed.

(** ** ClockDivider *)

Definition dv_abs (st : list Z) : list Z := match st with [off; c; s; _; _] => [off; c; s] | _ => st end.

Theorem dividerm_refines : forall (D : Z) (ds tas : bool) ins, 1 <= D ->
  traceB (dividerm_step D ds tas) (dividerm_init D ds tas) ins =
  traceB (divider_step D ds tas) [0; (if tas then D - 1 else 0); zb ds] ins.
Proof.
  intros D ds tas ins HD.
  change [0; (if tas then D - 1 else 0); zb ds] with (dv_abs (dividerm_init D ds tas)).
  apply (sim_traces (dividerm_step D ds tas) (divider_step D ds tas)
           (fun st => exists off c s ri fa, st = [off; c; s; ri; fa] /\ 0 <= c <= D - 1) dv_abs).
  - intros st inp (off & c & s & ri & fa & -> & Hc).
    destruct inp as [|en [|dis [|? ?]]]; try (cbn; repeat split; do 5 eexists; split; [reflexivity|exact Hc]).
    destruct (cc_next_spec (D - 1) c ltac:(lia) Hc) as [E Hr].
    unfold dividerm_step, divider_step, dv_abs. destruct (off =? 1); cbn [fst snd].
    + repeat split. do 5 eexists; split; [reflexivity|]. destruct tas; lia.
    + rewrite E in *. repeat split. do 5 eexists; split; [reflexivity|exact Hr].
  - unfold dividerm_init. do 5 eexists; split; [reflexivity|]. destruct tas; lia.
Qed.

Definition dv_tick (ds : bool) (c : Z) : bool := if c =? 0 then negb ds else ds.
Definition dv_cnt (D : Z) (tas : bool) (t : nat) : Z := ((if tas then D - 1 else 0) + Z.of_nat t) mod D.
Definition dv_state (D : Z) (ds tas : bool) (t : nat) : bool :=
  match t with O => ds | _ => dv_tick ds (dv_cnt D tas t) end.
Definition never_disabled (inp : list value) : Prop :=
  match inp with [_; dis] => vbit dis = false | _ => False end.

(** exact period D and exact duty 1/D, every D >= 2, as long as no disable request is made: after clock t the
    counter is (c0 + t + 1) mod D with c0 = D-1 ([tick_at_start]) or 0; the signal is at its non-default level
    exactly in the clocks where that counter is 0 (first such clock: t = 0 with [tick_at_start], else t = D-1) *)
Theorem divider_closed_form : forall (D : Z) (ds tas : bool) ins, 2 <= D -> Forall never_disabled ins ->
  traceB (divider_step D ds tas) [0; (if tas then D - 1 else 0); zb ds] ins =
  map (fun t => let s := dv_state D ds tas t in
                let s' := dv_state D ds tas (S t) in
                Ok [obit s'; obit (negb s && s'); obit (s && negb s')]) (seq 0 (length ins)).
Proof.
  intros D ds tas ins HD Hins.
  assert (H0 : [0; (if tas then D - 1 else 0); zb ds]
               = (fun t => [0; dv_cnt D tas t; zb (dv_state D ds tas t)]) 0%nat).
  { unfold dv_cnt, dv_state. rewrite Z.add_0_r, Z.mod_small by (destruct tas; lia). reflexivity. }
  rewrite H0.
  refine (trace_closed _ never_disabled (fun t => [0; dv_cnt D tas t; zb (dv_state D ds tas t)]) _ _ ins 0%nat Hins).
  intros t inp Hinp. destruct inp as [|en [|dis [|? ?]]]; try contradiction. cbn [never_disabled] in Hinp.
  unfold divider_step. rewrite Hinp, zb_eqb. cbn [Z.eqb].
  assert (Hen : (if vbit en then 0 else 0) = 0) by (destruct (vbit en); reflexivity). rewrite Hen.
  assert (E : (if dv_cnt D tas t =? D - 1 then 0 else dv_cnt D tas t + 1) = dv_cnt D tas (S t)).
  { unfold dv_cnt. rewrite succ_mod_step by lia. f_equal. lia. }
  rewrite E.
  change (dv_state D ds tas (S t)) with (dv_tick ds (dv_cnt D tas (S t))).
  unfold dv_tick. reflexivity.
Qed.

Theorem dividerm_closed_form : forall (D : Z) (ds tas : bool) ins, 2 <= D -> Forall never_disabled ins ->
  traceB (dividerm_step D ds tas) (dividerm_init D ds tas) ins =
  map (fun t => let s := dv_state D ds tas t in
                let s' := dv_state D ds tas (S t) in
                Ok [obit s'; obit (negb s && s'); obit (s && negb s')]) (seq 0 (length ins)).
Proof. intros. rewrite dividerm_refines by lia. apply divider_closed_form; assumption. Qed.

(** restart, every D: a disable request in one clock makes the next clock rest at the defaults; when the
    request seen in that clock is "enable", the machine is back in its power-up state, so everything
    after repeats the behaviour from power-up (as-coded model, from every reachable running state) *)
Theorem dividerm_restart : forall (D : Z) (ds tas : bool) c s ri fa en0 rest,
  traceB (dividerm_step D ds tas) [0; c; s; ri; fa] ([en0; VL true] :: [VL true; VL false] :: rest) =
  snd (dividerm_step D ds tas [0; c; s; ri; fa] [en0; VL true]) ::
  Ok [obit ds; obit false; obit false] ::
  traceB (dividerm_step D ds tas) (dividerm_init D ds tas) rest.
Proof. intros. reflexivity. Qed.

(** ** the tie to the emitted VHDL, for every configuration at once: whenever the per-configuration check of
    harness/c16.py against the specification machine succeeds for a parsed design [d], the design has the
    trace of the as-coded model with the same numbers, on every input sequence over the explored alphabet *)
From Cohdl Require Import Vhdl.Syntax Vhdl.Sem Vhdl.DefAssign Vhdl.DeadVars Equiv.VhdlTS Equiv.StoreTS.

Lemma adm_true step : forall ins st, adm step (fun _ _ => true) st ins.
Proof. induction ins as [|i r IH]; intros st; cbn [adm]; auto. Qed.

Lemma code_tie_gen d mid alphabet fuel (stepM stepS : rstep) initM initS :
  (forall ins, traceB stepM initM ins = traceB stepS initS ins) ->
  conc_all_ok (auto_Ts d) d = true ->
  is_ok (rcheck_s d mid stepS alphabet (fun _ _ => true) fuel initS) = true ->
  forall ins, Forall (fun i => In i alphabet) ins ->
    traceA (sstep d mid) (power_up_s d) ins = traceB stepM initM ins.
Proof.
  intros Href Hd Hc ins Hal. rewrite Href.
  apply (rcheck_s_sound d mid stepS alphabet (fun _ _ => true) fuel initS Hd Hc).
  apply admissible_adm. split; [apply adm_true|exact Hal].
Qed.

Theorem dline_code_tie : forall d mid alphabet fuel (n : nat) (w : BinNums.N) (i : Z), (1 <= n)%nat ->
  conc_all_ok (auto_Ts d) d = true ->
  is_ok (rcheck_s d mid (delay_step w) alphabet (fun _ _ => true) fuel (repeat i n)) = true ->
  forall ins, Forall (fun x => In x alphabet) ins ->
    traceA (sstep d mid) (power_up_s d) ins = traceB (dline_step w) (dline_init n i) ins.
Proof. intros d mid alphabet fuel n w i Hn. apply code_tie_gen. intros ins. apply dline_refines_delay. exact Hn. Qed.

Theorem ccounter_code_tie : forall d mid alphabet fuel (w : BinNums.N) (limit : Z), 0 <= limit ->
  conc_all_ok (auto_Ts d) d = true ->
  is_ok (rcheck_s d mid (counter_step w limit) alphabet (fun _ _ => true) fuel [0]) = true ->
  forall ins, Forall (fun x => In x alphabet) ins ->
    traceA (sstep d mid) (power_up_s d) ins = traceB (ccounter_step w limit) [0] ins.
Proof. intros d mid alphabet fuel w limit Hl. apply code_tie_gen. intros ins. apply ccounter_refines. exact Hl. Qed.

Theorem togglem_code_tie : forall d mid alphabet fuel (first second : Z) (ds fs : bool),
  0 <= first -> 0 <= second -> 1 <= first + second ->
  conc_all_ok (auto_Ts d) d = true ->
  is_ok (rcheck_s d mid (toggle_step first second ds fs) alphabet (fun _ _ => true) fuel [0; zb ds]) = true ->
  forall ins, Forall (fun x => In x alphabet) ins ->
    traceA (sstep d mid) (power_up_s d) ins = traceB (togglem_step first second ds fs) (togglem_init ds) ins.
Proof.
  intros d mid alphabet fuel first second ds fs H1 H2 H3. apply code_tie_gen. intros ins.
  apply togglem_refines; assumption.
Qed.

Theorem dividerm_code_tie : forall d mid alphabet fuel (D : Z) (ds tas : bool), 1 <= D ->
  conc_all_ok (auto_Ts d) d = true ->
  is_ok (rcheck_s d mid (divider_step D ds tas) alphabet (fun _ _ => true) fuel
           [0; (if tas then D - 1 else 0); zb ds]) = true ->
  forall ins, Forall (fun x => In x alphabet) ins ->
    traceA (sstep d mid) (power_up_s d) ins = traceB (dividerm_step D ds tas) (dividerm_init D ds tas) ins.
Proof. intros d mid alphabet fuel D ds tas HD. apply code_tie_gen. intros ins. apply dividerm_refines. exact HD. Qed.
