(** * Ser: model of cohdl's serialisation (std.count_bits / std.to_bits / std.from_bits)

    Anchors (pinned tree):
    - std/_core_utility.py  count_bits l.496, to_bits l.515, _FromBits l.526-585
    - std/_record.py        _make_serializable l.39-55, _get_reverse_elem_list l.59, _from_bits_/_to_bits_ l.181-212
    - std/utility.py        Array (_underlying_array_type, __init__, get_elem, _count_bits_/_from_bits_/_to_bits_), Serialized
    - std/enum.py l.65-79, std/_fixed.py SFixed/UFixed _count_bits_/_from_bits_/_to_bits_, std/bitfield.py

    Bit lists are LSB first ([nth i l] is bit [i] of the vector).  [std.concat(a, b, c)]
    puts its FIRST argument at the most significant end, hence [concat_msb]. *)
From Coq Require Import ZArith NArith List Bool Lia Arith.
From Cohdl Require Import Base.Bits.
Import ListNotations.

(** ** types *)
Inductive sty : Type :=
| TBit                       (* cohdl.Bit *)
| TBool                      (* bool / cohdl.Boolean *)
| TBV (n : nat)              (* BitVector[n] *)
| TU (n : nat)               (* Unsigned[n] *)
| TS (n : nat)               (* Signed[n] *)
| TCArr (e : sty) (n : nat)  (* cohdl.Array[e, n] *)
| TSArr (e : sty) (n : nat)  (* std.Array[e, n] *)
| TRec (fs : fields)         (* std.Record, fields in annotation order (inherited first) *)
| TEnum (u : sty)            (* std.Enum[u] / std.FlagEnum[u] *)
| TSFix (l r : Z)            (* std.SFixed[l:r] *)
| TUFix (l r : Z)            (* std.UFixed[l:r] *)
| TBF (w : nat)              (* std.BitField[w] subclass (serialises as its vector) *)
with fields : Type :=
| FNil
| FCons (t : sty) (fs : fields).

Scheme sty_mind := Induction for sty Sort Prop
  with fields_mind := Induction for fields Sort Prop.
Combined Scheme sty_fields_ind from sty_mind, fields_mind.

(** ** values *)
Inductive sval : Type :=
| VBit (b : bool)
| VBool (b : bool)
| VBV (bs : list bool)
| VU (n : nat) (v : Z)            (* Unsigned[n](v) *)
| VS (n : nat) (v : Z)            (* Signed[n](v) *)
| VCArr (es : list sval)
| VSArr (c : sval)                (* std.Array: [c] is its [_content], a cohdl.Array of the underlying type *)
| VRec (xs : list sval)
| VEnum (x : sval)                (* [_val] of the underlying type *)
| VSFix (l r : Z) (raw : Z)       (* [_val : Signed[l-r+1]]; numeric value raw * 2^r *)
| VUFix (l r : Z) (raw : Z)
| VBF (bs : list bool).           (* BitField: its [_vec] *)

Definition fixw (l r : Z) : nat := Z.to_nat (l - r + 1).

(** signed reading of an [n]-bit pattern given as its unsigned value *)
Definition signed (n : nat) (v : Z) : Z := Bits.sval (N.of_nat n) v.

Definition slice (b : list bool) (lo w : nat) : list bool := firstn w (skipn lo b).

(** std.concat(p1, p2, ...): first argument most significant *)
Definition concat_msb (parts : list (list bool)) : list bool :=
  fold_right (fun p acc => acc ++ p) [] parts.

(** ** count_bits *)
Fixpoint count_bits (t : sty) : nat :=
  match t with
  | TBit => 1
  | TBool => 1
  | TBV n => n
  | TU n => n
  | TS n => n
  | TCArr e n => n * count_bits e
  | TSArr e n => n * count_bits e
  | TRec fs => fields_bits fs
  | TEnum u => count_bits u
  | TSFix l r => fixw l r
  | TUFix l r => fixw l r
  | TBF w => w
  end
with fields_bits (fs : fields) : nat :=
  match fs with
  | FNil => 0
  | FCons t r => count_bits t + fields_bits r
  end.

(** [_make_serializable] asserts that a record has at least one bit *)
Fixpoint ser_ok (t : sty) : bool :=
  match t with
  | TCArr e _ => ser_ok e
  | TSArr e _ => ser_ok e
  | TRec fs => ser_ok_fields fs && (0 <? fields_bits fs)
  | TEnum u => ser_ok u
  | _ => true
  end
with ser_ok_fields (fs : fields) : bool :=
  match fs with
  | FNil => true
  | FCons t r => ser_ok t && ser_ok_fields r
  end.

(** ** to_bits *)
Fixpoint to_bits (x : sval) : list bool :=
  match x with
  | VBit b => [b]
  | VBool b => [b]                                      (* BitVector[1]("1") if inp else "0" *)
  | VBV bs => bs
  | VU n v => Z_to_bits n v
  | VS n v => Z_to_bits n v                             (* two's complement: Z.odd and floor /2 *)
  | VCArr es => concat_msb (rev (map to_bits es))       (* concat of the reversed list [to_bits(e) for e in inp] *)
  | VSArr c => to_bits c                                (* concat of the reversed list of to_bits(content[i]) *)
  | VRec xs => concat_msb (rev (map to_bits xs))        (* concat over _get_reverse_elem_list *)
  | VEnum x => to_bits x
  | VSFix l r raw => Z_to_bits (fixw l r) raw
  | VUFix l r raw => Z_to_bits (fixw l r) raw
  | VBF bs => bs
  end.

(** ** std.Array: underlying storage *)
(** element type of [_underlying_array_type] for [std.Array[e, _]] *)
Fixpoint underlying (e : sty) : sty :=
  match e with
  | TCArr _ _ => e
  | TSArr e' n => TCArr (underlying e') n
  | _ => TBV (count_bits e)
  end.

(** Array.__init__: what is stored for one default element *)
Definition conv (e : sty) (x : sval) : sval :=
  match e with
  | TCArr _ _ => x
  | TSArr _ _ => match x with VSArr c => c | _ => x end
  | _ => VBV (to_bits x)
  end.

Definition sarr_make (e : sty) (xs : list sval) : sval := VSArr (VCArr (map (conv e) xs)).

(** ** from_bits *)
(** [ [f(bv[w*idx + w - 1 : w*idx]) for idx in range(idx0, idx0 + k)] ] *)
Fixpoint from_bits_arr (f : list bool -> option sval) (w k idx : nat) (b : list bool)
  : option (list sval) :=
  match k with
  | O => Some []
  | S k' =>
    match f (slice b (w * idx) w), from_bits_arr f w k' (S idx) b with
    | Some x, Some xs => Some (x :: xs)
    | _, _ => None
    end
  end.

Fixpoint from_bits (t : sty) (b : list bool) {struct t} : option sval :=
  match t with
  | TBit => match b with [x] => Some (VBit x) | _ => None end
  | TBool => match b with x :: _ => Some (VBool x) | [] => None end      (* no width assertion: reads bv[0] *)
  | TBV n => if length b =? n then Some (VBV b) else None
  | TU n => if length b =? n then Some (VU n (bits_to_Z b)) else None
  | TS n => if length b =? n then Some (VS n (signed n (bits_to_Z b))) else None
  | TCArr e n =>
    if length b =? n * count_bits e
    then option_map VCArr (from_bits_arr (from_bits e) (count_bits e) n 0 b) else None
  | TSArr e n =>
    if length b =? n * count_bits e
    then option_map (sarr_make e) (from_bits_arr (from_bits e) (count_bits e) n 0 b) else None
  | TRec fs =>
    if length b =? fields_bits fs then option_map VRec (from_bits_fields fs 0 b) else None
  | TEnum u =>
    if length b =? count_bits u then option_map VEnum (from_bits u b) else None
  | TSFix l r =>
    if length b =? fixw l r then Some (VSFix l r (signed (fixw l r) (bits_to_Z b))) else None
  | TUFix l r =>
    if length b =? fixw l r then Some (VUFix l r (bits_to_Z b)) else None
  | TBF w => if length b =? w then Some (VBF b) else None
  end
(** slice_map: field i occupies [off, off + width) where off accumulates in declaration order *)
with from_bits_fields (fs : fields) (off : nat) (b : list bool) {struct fs} : option (list sval) :=
  match fs with
  | FNil => Some []
  | FCons t r =>
    match from_bits t (slice b off (count_bits t)), from_bits_fields r (off + count_bits t) b with
    | Some x, Some xs => Some (x :: xs)
    | _, _ => None
    end
  end.

(** Array.get_elem(i, Value) *)
Definition sarr_get (e : sty) (c : sval) (i : nat) : option sval :=
  match c with
  | VCArr cs =>
    match nth_error cs i with
    | None => None
    | Some ci =>
      match e with
      | TCArr _ _ => Some ci
      | TSArr _ _ => Some (VSArr ci)
      | _ => match ci with VBV bs => from_bits e bs | _ => None end
      end
    end
  | _ => None
  end.

Fixpoint sequence {A} (l : list (option A)) : option (list A) :=
  match l with
  | [] => Some []
  | None :: _ => None
  | Some x :: r => option_map (cons x) (sequence r)
  end.

Definition sarr_elems (e : sty) (x : sval) : option (list sval) :=
  match x with
  | VSArr (VCArr cs) => sequence (map (sarr_get e (VCArr cs)) (seq 0 (length cs)))
  | _ => None
  end.

(** ** well-formed values *)
Definition wf_unsigned (n : nat) (v : Z) : bool := (0 <=? v)%Z && (v <? 2 ^ Z.of_nat n)%Z.
Definition wf_signed (n : nat) (v : Z) : bool :=
  if n =? 0 then (v =? 0)%Z
  else (- 2 ^ (Z.of_nat n - 1) <=? v)%Z && (v <? 2 ^ (Z.of_nat n - 1))%Z.

Fixpoint wf (t : sty) (x : sval) {struct t} : bool :=
  match t, x with
  | TBit, VBit _ => true
  | TBool, VBool _ => true
  | TBV n, VBV bs => length bs =? n
  | TU n, VU m v => (m =? n) && wf_unsigned n v
  | TS n, VS m v => (m =? n) && wf_signed n v
  | TCArr e n, VCArr es => (length es =? n) && forallb (wf e) es
  | TSArr e n, VSArr (VCArr cs) => (length cs =? n) && forallb (wf_under e) cs
  | TRec fs, VRec xs => wf_fields fs xs
  | TEnum u, VEnum x => wf u x
  | TSFix l r, VSFix l' r' raw => (l' =? l)%Z && (r' =? r)%Z && wf_signed (fixw l r) raw
  | TUFix l r, VUFix l' r' raw => (l' =? l)%Z && (r' =? r)%Z && wf_unsigned (fixw l r) raw
  | TBF w, VBF bs => length bs =? w
  | _, _ => false
  end
with wf_fields (fs : fields) (xs : list sval) {struct fs} : bool :=
  match fs, xs with
  | FNil, [] => true
  | FCons t r, x :: xs' => wf t x && wf_fields r xs'
  | _, _ => false
  end
(** [c] is a well-formed stored element of std.Array[e, _] (a value of type [underlying e]) *)
with wf_under (e : sty) (c : sval) {struct e} : bool :=
  match e with
  | TCArr a k => match c with VCArr es => (length es =? k) && forallb (wf a) es | _ => false end
  | TSArr e' m => match c with VCArr cs => (length cs =? m) && forallb (wf_under e') cs | _ => false end
  | _ => match c with VBV bs => length bs =? count_bits e | _ => false end
  end.

(** ** record / array layout *)
Fixpoint field_off (fs : fields) (i : nat) : nat :=
  match fs, i with
  | FCons t r, S j => count_bits t + field_off r j
  | _, _ => 0
  end.

Fixpoint field_ty (fs : fields) (i : nat) : option sty :=
  match fs, i with
  | FNil, _ => None
  | FCons t _, O => Some t
  | FCons _ r, S j => field_ty r j
  end.

(** ** Serialized[T] adapter (std/utility.py l.153-202) *)
Record serialized := mkSer { ser_ty : sty; ser_raw : list bool }.
Definition ser_make (t : sty) (x : sval) : serialized := mkSer t (to_bits x).          (* Serialized[T](x) *)
Definition ser_from_raw (t : sty) (raw : list bool) : option serialized :=            (* Serialized[T].from_raw *)
  if length raw =? count_bits t then Some (mkSer t raw) else None.
Definition ser_value (s : serialized) : option sval := from_bits (ser_ty s) (ser_raw s). (* .value() *)
Definition ser_bits (s : serialized) : list bool := ser_raw s.                         (* .bits() *)

(** ** BitField fields (std/bitfield.py) *)
(** a path to a leaf field through nested sub-BitFields *)
Inductive bfdecl : Type :=
| FBit (i : nat)                              (* Field[i] *)
| FVec (hi lo : nat)                          (* Field[hi:lo] (.BitVector/.Signed/.Unsigned) *)
| FSub (off w : nat) (inner : bfdecl).        (* member of a sub-BitField Inner[off] with Inner._width_ = w *)

(** as written: nested views  vec.msb(rest=off).lsb(w)  then  source[start:stop] *)
Fixpoint bf_get (v : list bool) (d : bfdecl) : list bool :=
  match d with
  | FBit i => slice v i 1
  | FVec hi lo => slice v lo (hi - lo + 1)
  | FSub off w inner => bf_get (firstn w (skipn off v)) inner
  end.

Definition splice (v : list bool) (lo : nat) (x : list bool) : list bool :=
  firstn lo v ++ x ++ skipn (lo + length x) v.

(** assignment through the view: the field aliases the storage of [v] *)
Fixpoint bf_set (v : list bool) (d : bfdecl) (x : list bool) : list bool :=
  match d with
  | FBit i => splice v i x
  | FVec hi lo => splice v lo x
  | FSub off w inner => splice v off (bf_set (firstn w (skipn off v)) inner x)
  end.

(** absolute declared range (lo, width) *)
Fixpoint bf_range (d : bfdecl) : nat * nat :=
  match d with
  | FBit i => (i, 1)
  | FVec hi lo => (lo, hi - lo + 1)
  | FSub off w inner => let '(l, n) := bf_range inner in (off + l, n)
  end.

(** the declaration fits a BitField of width [W] *)
Fixpoint bf_valid (W : nat) (d : bfdecl) : bool :=
  match d with
  | FBit i => i <? W
  | FVec hi lo => (lo <=? hi) && (hi <? W)
  | FSub off w inner => (off + w <=? W) && bf_valid w inner
  end.

(** ** decidable equality on values, used by the generated correspondence cases *)
Fixpoint list_eqb {A} (eqb : A -> A -> bool) (a b : list A) : bool :=
  match a, b with
  | [], [] => true
  | x :: a', y :: b' => eqb x y && list_eqb eqb a' b'
  | _, _ => false
  end.

Definition bits_eqb := list_eqb Bool.eqb.

Fixpoint sval_eqb (x y : sval) {struct x} : bool :=
  match x, y with
  | VBit a, VBit b => Bool.eqb a b
  | VBool a, VBool b => Bool.eqb a b
  | VBV a, VBV b => bits_eqb a b
  | VU n v, VU m w => (n =? m) && (v =? w)%Z
  | VS n v, VS m w => (n =? m) && (v =? w)%Z
  | VCArr a, VCArr b =>
    (fix go (a b : list sval) : bool :=
       match a, b with
       | [], [] => true
       | p :: a', q :: b' => sval_eqb p q && go a' b'
       | _, _ => false
       end) a b
  | VSArr a, VSArr b => sval_eqb a b
  | VRec a, VRec b =>
    (fix go (a b : list sval) : bool :=
       match a, b with
       | [], [] => true
       | p :: a', q :: b' => sval_eqb p q && go a' b'
       | _, _ => false
       end) a b
  | VEnum a, VEnum b => sval_eqb a b
  | VSFix l r v, VSFix l' r' v' => (l =? l')%Z && (r =? r')%Z && (v =? v')%Z
  | VUFix l r v, VUFix l' r' v' => (l =? l')%Z && (r =? r')%Z && (v =? v')%Z
  | VBF a, VBF b => bits_eqb a b
  | _, _ => false
  end.

Definition osval_eqb (a b : option sval) : bool :=
  match a, b with
  | Some x, Some y => sval_eqb x y
  | None, None => true
  | _, _ => false
  end.

(** ** correspondence cases (terms are generated by harness/c17.py) *)
Definition B (n : nat) (z : Z) : list bool := Z_to_bits n z.

(** value case: model value, recorded to_bits, recorded dump of from_bits[T](to_bits(x)) *)
Record vcase := mkV { v_x : sval; v_bits : list bool; v_back : sval }.
(** pattern case: bit pattern, recorded (dump of from_bits[T](b), to_bits of it) or None if rejected *)
Record pcase := mkP { p_bits : list bool; p_res : option (sval * list bool) }.
(** std.Array.get_elem: element type, recorded array dump, recorded element dumps *)
Record gcase := mkG { g_ty : sty; g_arr : sval; g_elems : list sval }.

Record tcase := mkT {
  c_ty : sty;
  c_count : option nat;          (* recorded count_bits, None if the real code rejects the type *)
  c_vals : list vcase;
  c_pats : list pcase;
  c_gets : list gcase }.

Definition vcase_ok (t : sty) (c : vcase) : bool :=
  wf t (v_x c)
  && bits_eqb (to_bits (v_x c)) (v_bits c)
  && osval_eqb (from_bits t (v_bits c)) (Some (v_back c))
  && sval_eqb (v_x c) (v_back c).

Definition pcase_ok (t : sty) (c : pcase) : bool :=
  match from_bits t (p_bits c), p_res c with
  | Some y, Some (y', b') => sval_eqb y y' && bits_eqb (to_bits y) b'
  | None, None => true
  | _, _ => false
  end.

Definition gcase_ok (c : gcase) : bool :=
  match sarr_elems (g_ty c) (g_arr c) with
  | Some es => list_eqb sval_eqb es (g_elems c)
  | None => false
  end.

Definition tcase_ok (c : tcase) : bool :=
  match c_count c with
  | None => negb (ser_ok (c_ty c))
  | Some n =>
    ser_ok (c_ty c) && (count_bits (c_ty c) =? n)
    && forallb (vcase_ok (c_ty c)) (c_vals c)
    && forallb (pcase_ok (c_ty c)) (c_pats c)
    && forallb gcase_ok (c_gets c)
  end.

(** BitField case: width, vector, declaration, recorded read, value written, recorded vector after the write *)
Record bcase := mkB { b_w : nat; b_vec : list bool; b_decl : bfdecl;
                      b_read : option (list bool); b_wr : list bool; b_after : option (list bool) }.

Definition obits_eqb (a b : option (list bool)) : bool :=
  match a, b with
  | Some x, Some y => bits_eqb x y
  | None, None => true
  | _, _ => false
  end.

Definition bcase_ok (c : bcase) : bool :=
  if bf_valid (b_w c) (b_decl c)
  then obits_eqb (Some (bf_get (b_vec c) (b_decl c))) (b_read c)
       && obits_eqb (Some (bf_set (b_vec c) (b_decl c) (b_wr c))) (b_after c)
  else match b_read c with None => true | Some _ => false end.
