(** * Model of the temporaries checks of cohdl's IR conversion (property C08)

    anchors: cohdl/_compiler/frontend/_generate_ir.py
               ConvertInstance.detect_uninitialized_temporaries / search_invalid_temporaries (l.905-1017)
               ConvertInstance.cleanup_unused (l.1020), cleanup_bool_cast (l.1053)
             cohdl/_core/_ir/_repr.py  StatemachineContext._check_temporaries (l.1245),
               visit_objects of If / CodeBlock / CaseWhen / Expression / VariableAssignment

    Objects are abstracted to "temporary root number r" or "anything else"; the set MU lists
    the roots whose [_maybe_uninitialized] flag is set.  Python sets of ids are lists with
    membership semantics. *)
From Coq Require Import PArith List Bool.
Import ListNotations.

Inductive obj := OTemp (root : positive) | OOther.
Inductive acc := AR (o : obj) | AW (o : obj).

(** IR statements.  [SExpr cast reads result]: an [ir.Expression] (BinOp, Compare, All, Boolean ...):
    READ accesses, then WRITE result; [cast] = it is an [ir.Boolean] whose argument and result are both
    root temporaries of type [bool] (the shape [cleanup_bool_cast] removes).
    [SVarAssign target source]: [ir.VariableAssignment]: WRITE target, then READ source.
    [SOther reads]: any other statement (SignalAssignment, SignalPush, Assert, Nop ...); it only reads. *)
Inductive stmt :=
| SExpr (cast : bool) (reads : list obj) (result : obj)
| SVarAssign (target : obj) (source : list obj)
| SOther (reads : list obj)
| SIf (test : obj) (body orelse : block)
| SBlock (b : block)
| SCase (value : obj) (brs : branches) (hasdef : bool) (default : block)
with block := BNil | BCons (s : stmt) (r : block)
with branches := BrNil | BrCons (cond : obj) (code : block) (r : branches).

Definition pmem (x : positive) (l : list positive) : bool := existsb (Pos.eqb x) l.
Definition pinter (a b : list positive) : list positive := filter (fun x => pmem x b) a.
Definition pdiff (a b : list positive) : list positive := filter (fun x => negb (pmem x b)) a.
Definition premove (x : positive) (a : list positive) : list positive := filter (fun y => negb (Pos.eqb y x)) a.

Inductive verdict :=
| Accept
| RejInvalid      (* AssertionError "temporary might not be initialized" *)
| RejUnwritten    (* AssertionError "temporary read before it was written ..." *)
| Crash.          (* UnboundLocalError / TypeError of the CaseWhen arm without branches *)

Inductive R (A : Type) := ROk (a : A) | RRej (v : verdict).
Arguments ROk {A} a.
Arguments RRej {A} v.
Definition rbind {A B} (r : R A) (f : A -> R B) : R B := match r with ROk a => f a | RRej v => RRej v end.
Notation "'rdo' x <- r ; k" := (rbind r (fun x => k)) (at level 200, x name, r at level 100, k at level 200).

(** the two nonlocal sets *)
Record st := { inv : list positive; wr : list positive }.

(** [check_used_temporaries(obj, READ)] *)
Definition check_read (o : obj) (s : st) : R st :=
  match o with
  | OTemp r => if pmem r s.(inv) then RRej RejInvalid
               else if negb (pmem r s.(wr)) then RRej RejUnwritten else ROk s
  | OOther => ROk s
  end.

Fixpoint check_reads (l : list obj) (s : st) : R st :=
  match l with [] => ROk s | o :: r => rdo s1 <- check_read o s; check_reads r s1 end.

(** [check_used_temporaries(obj, WRITE)] (ids of non-temporaries never matter) *)
Definition do_write (o : obj) (s : st) : st :=
  match o with OTemp r => {| inv := s.(inv); wr := r :: s.(wr) |} | OOther => s end.

(** the "definition" step of an Expression / VariableAssignment with a Temporary result *)
Definition do_def (MU : list positive) (o : obj) (s : st) (loc : list positive) : st * list positive :=
  match o with
  | OTemp r => if pmem r MU then (s, loc) else ({| inv := premove r s.(inv); wr := s.(wr) |}, r :: loc)
  | OOther => (s, loc)
  end.

Definition add_inv (l : list positive) (s : st) : st := {| inv := l ++ s.(inv); wr := s.(wr) |}.
Definition sub_inv (l : list positive) (s : st) : st := {| inv := pdiff s.(inv) l; wr := s.(wr) |}.

Section Search.
  Variable fx : bool.            (* false: the CaseWhen arm as originally coded; true: the corrected arm (current tree) *)
  Variable MU : list positive.

  (** state of the CaseWhen loop: [always_defined] and the variable [branch_temporaries]
      (both [None] before the first branch) *)
  Definition cw := (option (list positive) * option (list positive))%type.

  Fixpoint search_stmt (s : stmt) (x : st) (loc : list positive) {struct s} : R (st * list positive) :=
    match s with
    | SExpr _ reads result =>
        rdo x1 <- check_reads reads x;
        ROk (do_def MU result (do_write result x1) loc)
    | SVarAssign target source =>
        rdo x1 <- check_reads source (do_write target x);
        ROk (do_def MU target x1 loc)
    | SOther reads =>
        rdo x1 <- check_reads reads x; ROk (x1, loc)
    | SIf test body orelse =>
        rdo x1 <- check_read test x;
        rdo rb <- search_block body x1 [];
        let x2 := add_inv (snd rb) (fst rb) in
        rdo re <- search_block orelse x2 [];
        let x3 := add_inv (snd re) (fst re) in
        let always := pinter (snd rb) (snd re) in
        ROk (sub_inv always x3, always ++ loc)
    | SBlock b =>
        rdo r <- search_block b x [];
        ROk (fst r, snd r ++ loc)
    | SCase value brs hasdef default =>
        rdo x1 <- check_read value x;
        rdo rl <- search_brs brs x1 (None, None);
        let '(x2, (always, last)) := rl in
        if hasdef then
          rdo rd <- search_block default x2 [];
          let x3 := add_inv (snd rd) (fst rd) in
          if fx then
            let a := match always with None => snd rd | Some a => pinter a (snd rd) end in
            ROk (sub_inv a x3, a ++ loc)
          else
            match always, last with
            | Some a, Some l =>            (* always_defined.difference_update(branch_temporaries) *)
                let a' := pdiff a l in ROk (sub_inv a' x3, a' ++ loc)
            | _, _ => RRej Crash           (* branch_temporaries is unbound *)
            end
        else
          if fx then ROk (x2, loc)         (* no default: nothing is defined on the fall-through path *)
          else
            match always with
            | Some a => ROk (sub_inv a x2, a ++ loc)
            | None => RRej Crash           (* difference_update(None) *)
            end
    end
  with search_block (b : block) (x : st) (loc : list positive) {struct b} : R (st * list positive) :=
    match b with
    | BNil => ROk (x, loc)
    | BCons s r => rdo o <- search_stmt s x loc; search_block r (fst o) (snd o)
    end
  with search_brs (brs : branches) (x : st) (c : cw) {struct brs} : R (st * cw) :=
    match brs with
    | BrNil => ROk (x, c)
    | BrCons cond code r =>
        rdo x1 <- check_read cond x;
        rdo rb <- search_block code x1 [];
        let x2 := add_inv (snd rb) (fst rb) in
        let always := match fst c with
                      | None => snd rb
                      | Some a => if fx then pinter a (snd rb) else pdiff a (snd rb)
                      end in
        search_brs r x2 (Some always, Some (snd rb))
    end.

  Definition search_invalid_gen (t : block) : verdict :=
    match search_block t {| inv := []; wr := [] |} [] with
    | ROk _ => Accept
    | RRej v => match v with Accept => Crash | _ => v end   (* a rejection is never [Accept] *)
    end.
End Search.

(** the tree under test carries the corrected CaseWhen arm (commit a252909); the arm as originally coded is
    kept as [search_invalid_coded] for the regression witness *)
Definition search_invalid := search_invalid_gen true.
Definition search_invalid_coded := search_invalid_gen false.

(** ** [visit_objects] order (linearisation) and [_check_temporaries] *)

Fixpoint lin_stmt (s : stmt) : list acc :=
  match s with
  | SExpr _ reads result => map AR reads ++ [AW result]
  | SVarAssign target source => AW target :: map AR source
  | SOther reads => map AR reads
  | SIf test body orelse => AR test :: lin_block body ++ lin_block orelse
  | SBlock b => lin_block b
  | SCase value brs hasdef default =>
      lin_brs brs ++ (if hasdef then lin_block default else []) ++ [AR value]
  end
with lin_block (b : block) : list acc :=
  match b with BNil => [] | BCons s r => lin_stmt s ++ lin_block r end
with lin_brs (brs : branches) : list acc :=
  match brs with BrNil => [] | BrCons cond code r => AR cond :: lin_block code ++ lin_brs r end.

(** the first access to every temporary must be a write *)
Fixpoint first_is_write (seen : list positive) (l : list acc) : bool :=
  match l with
  | [] => true
  | AR (OTemp r) :: q => pmem r seen && first_is_write seen q
  | AW (OTemp r) :: q => first_is_write (r :: seen) q
  | _ :: q => first_is_write seen q
  end.

Definition check_state (s : block) : bool := first_is_write [] (lin_block s).
Definition check_states (l : list block) : bool := forallb check_state l.

(** ** cleanup_unused and cleanup_bool_cast *)

Fixpoint reads_of (l : list acc) : list positive :=
  match l with
  | [] => []
  | AR (OTemp r) :: q => r :: reads_of q
  | _ :: q => reads_of q
  end.

Definition unused (used : list positive) (o : obj) : bool :=
  match o with OTemp r => negb (pmem r used) | OOther => false end.

Fixpoint cu_stmt (used : list positive) (s : stmt) : stmt :=
  match s with
  | SExpr c reads result => if unused used result then SBlock BNil else s
  | SVarAssign target source => if unused used target then SBlock BNil else s
  | SOther _ => s
  | SIf test body orelse => SIf test (cu_block used body) (cu_block used orelse)
  | SBlock b => SBlock (cu_block used b)
  | SCase value brs hasdef default => SCase value (cu_brs used brs) hasdef (cu_block used default)
  end
with cu_block (used : list positive) (b : block) : block :=
  match b with BNil => BNil | BCons s r => BCons (cu_stmt used s) (cu_block used r) end
with cu_brs (used : list positive) (brs : branches) : branches :=
  match brs with BrNil => BrNil | BrCons cond code r => BrCons cond (cu_block used code) (cu_brs used r) end.

Definition cleanup_unused (t : block) : block := cu_block (reads_of (lin_block t)) t.

(** replacement map of cleanup_bool_cast (an IdMap: a later entry for the same key wins) *)
Definition rmap := list (positive * positive).
Fixpoint rfind (m : rmap) (x : positive) : option positive :=
  match m with [] => None | (k, v) :: r => if Pos.eqb k x then Some v else rfind r x end.

(** pass 1, statement visiting order of [ctx.visit]: children first.
    [tr = false]: as originally coded, [map[target] = source]; [tr = true]: current tree, the source is first
    looked up in the map built so far (it may itself be the result of a removed cast) *)
Fixpoint bc_collect_stmt (tr : bool) (s : stmt) (m : rmap) : rmap :=
  match s with
  | SExpr true [OTemp src] (OTemp tgt) =>
      (tgt, if tr then match rfind m src with Some y => y | None => src end else src) :: m
  | SExpr _ _ _ | SVarAssign _ _ | SOther _ => m
  | SIf _ body orelse => bc_collect_block tr orelse (bc_collect_block tr body m)
  | SBlock b => bc_collect_block tr b m
  | SCase _ brs hasdef default =>
      let m1 := bc_collect_brs tr brs m in if hasdef then bc_collect_block tr default m1 else m1
  end
with bc_collect_block (tr : bool) (b : block) (m : rmap) : rmap :=
  match b with BNil => m | BCons s r => bc_collect_block tr r (bc_collect_stmt tr s m) end
with bc_collect_brs (tr : bool) (brs : branches) (m : rmap) : rmap :=
  match brs with BrNil => m | BrCons _ code r => bc_collect_brs tr r (bc_collect_block tr code m) end.

(** pass 2: every referenced object that is a key of the map is replaced (one step) *)
Definition bc_obj (m : rmap) (o : obj) : obj :=
  match o with
  | OTemp r => match rfind m r with Some y => OTemp y | None => o end
  | OOther => o
  end.

Fixpoint bc_stmt (m : rmap) (s : stmt) : stmt :=
  match s with
  | SExpr true [OTemp src] (OTemp tgt) => SOther []           (* ir.Nop() *)
  | SExpr c reads result => SExpr c (map (bc_obj m) reads) (bc_obj m result)
  | SVarAssign target source => SVarAssign (bc_obj m target) (map (bc_obj m) source)
  | SOther reads => SOther (map (bc_obj m) reads)
  | SIf test body orelse => SIf (bc_obj m test) (bc_block m body) (bc_block m orelse)
  | SBlock b => SBlock (bc_block m b)
  | SCase value brs hasdef default =>
      SCase (bc_obj m value) (bc_brs m brs) hasdef (bc_block m default)
  end
with bc_block (m : rmap) (b : block) : block :=
  match b with BNil => BNil | BCons s r => BCons (bc_stmt m s) (bc_block m r) end
with bc_brs (m : rmap) (brs : branches) : branches :=
  match brs with
  | BrNil => BrNil
  | BrCons cond code r => BrCons (bc_obj m cond) (bc_block m code) (bc_brs m r)
  end.

Definition cleanup_bool_cast_gen (tr : bool) (t : block) : block := bc_block (bc_collect_block tr t []) t.
(** current tree (commit 1da1fb5): the source is looked up at registration; [_coded] = the original pass *)
Definition cleanup_bool_cast := cleanup_bool_cast_gen true.
Definition cleanup_bool_cast_coded := cleanup_bool_cast_gen false.

(** [ConvertInstance.apply] for a sequential context: detect, cleanup_unused, cleanup_bool_cast *)
Definition cleanup (t : block) : block := cleanup_bool_cast (cleanup_unused t).
Definition cleanup_coded (t : block) : block := cleanup_bool_cast_coded (cleanup_unused t).

(** ** SPECIFICATION: execution paths and definition-before-use

    One activation of the emitted process executes one path: an [if] takes its body or its else
    block, a case takes one branch, its default, or (without default) nothing.  Expressions read
    their operands before the result is written; a variable assignment reads its source before the
    target is written. *)

Fixpoint paths_stmt (s : stmt) : list (list acc) :=
  match s with
  | SExpr _ reads result => [map AR reads ++ [AW result]]
  | SVarAssign target source => [map AR source ++ [AW target]]
  | SOther reads => [map AR reads]
  | SIf test body orelse => map (cons (AR test)) (paths_block body ++ paths_block orelse)
  | SBlock b => paths_block b
  | SCase value brs hasdef default =>
      map (cons (AR value)) (paths_brs brs ++ (if hasdef then paths_block default else [[]]))
  end
with paths_block (b : block) : list (list acc) :=
  match b with
  | BNil => [[]]
  | BCons s r => flat_map (fun p => map (app p) (paths_block r)) (paths_stmt s)
  end
with paths_brs (brs : branches) : list (list acc) :=
  match brs with
  | BrNil => []
  | BrCons cond code r => map (cons (AR cond)) (paths_block code) ++ paths_brs r
  end.

Definition paths (t : block) : list (list acc) := paths_block t.

(** every read of a temporary (not flagged maybe-uninitialized) is preceded on the path by a write *)
Fixpoint ok_from (MU : list positive) (D : list positive) (p : list acc) : bool :=
  match p with
  | [] => true
  | AR (OTemp r) :: q => (pmem r MU || pmem r D) && ok_from MU D q
  | AW (OTemp r) :: q => ok_from MU (r :: D) q
  | _ :: q => ok_from MU D q
  end.

Definition def_before_use (MU : list positive) (t : block) : Prop :=
  forall p, In p (paths t) -> ok_from MU [] p = true.

Definition def_before_use_b (MU : list positive) (t : block) : bool := forallb (ok_from MU []) (paths t).

(** well-formedness assumed of compiler-generated IR: a variable assignment to a temporary does not
    read that temporary (the real check registers the WRITE of the target before it checks the source) *)
Definition obj_is (r : positive) (o : obj) : bool := match o with OTemp r' => Pos.eqb r r' | OOther => false end.

Fixpoint wf_stmt (s : stmt) : bool :=
  match s with
  | SVarAssign (OTemp r) source => negb (existsb (obj_is r) source)
  | SExpr _ _ _ | SVarAssign OOther _ | SOther _ => true
  | SIf _ body orelse => wf_block body && wf_block orelse
  | SBlock b => wf_block b
  | SCase _ brs _ default => wf_brs brs && wf_block default
  end
with wf_block (b : block) : bool :=
  match b with BNil => true | BCons s r => wf_stmt s && wf_block r end
with wf_brs (brs : branches) : bool :=
  match brs with BrNil => true | BrCons _ code r => wf_block code && wf_brs r end.

(** ** Case evaluation helpers for the correspondence check *)

Definition verdict_eqb (a b : verdict) : bool :=
  match a, b with
  | Accept, Accept | RejInvalid, RejInvalid | RejUnwritten, RejUnwritten | Crash, Crash => true
  | _, _ => false
  end.

Definition obj_eqb (a b : obj) : bool :=
  match a, b with OTemp x, OTemp y => Pos.eqb x y | OOther, OOther => true | _, _ => false end.
Definition acc_eqb (a b : acc) : bool :=
  match a, b with AR x, AR y | AW x, AW y => obj_eqb x y | _, _ => false end.
Fixpoint accs_eqb (a b : list acc) : bool :=
  match a, b with [] , [] => true | x :: r, y :: r' => acc_eqb x y && accs_eqb r r' | _, _ => false end.

Definition is_temp_acc (a : acc) : bool :=
  match a with AR (OTemp _) | AW (OTemp _) => true | _ => false end.
Definition temp_lin (t : block) : list acc := filter is_temp_acc (lin_block t).

(** the witness of DESIGN.md section 7: definition only in the first of two cases plus a default *)
Definition match_witness : block :=
  BCons (SCase OOther
           (BrCons OOther (BCons (SExpr false [OOther] (OTemp 1)) BNil)
           (BrCons OOther BNil BrNil)) true BNil)
  (BCons (SOther [OTemp 1]) BNil).

(** chained bool casts: t1 := e; t2 := bool(t1); t3 := bool(t2); read t3 *)
Definition boolcast_witness : block :=
  BCons (SExpr false [OOther] (OTemp 1))
  (BCons (SExpr true [OTemp 1] (OTemp 2))
  (BCons (SExpr true [OTemp 2] (OTemp 3))
  (BCons (SOther [OTemp 3]) BNil))).

(** spec helper for the cleanup correspondence: every temporary read in an access list is also written in it *)
Fixpoint writes_of (l : list acc) : list positive :=
  match l with
  | [] => []
  | AW (OTemp r) :: q => r :: writes_of q
  | _ :: q => writes_of q
  end.
Definition covered (l : list acc) : bool := forallb (fun r => pmem r (writes_of l)) (reads_of l).

(** ** side conditions of the path-wise preservation theorem for cleanup_bool_cast *)

(** the replacement a temporary undergoes in pass 2 *)
Definition sigma (m : rmap) (x : positive) : positive :=
  match rfind m x with Some y => y | None => x end.

(** the statements pass 1 removes: (target, source) *)
Definition is_cast (c : bool) (reads : list obj) (result : obj) : option (positive * positive) :=
  match c, reads, result with
  | true, [OTemp s], OTemp t => Some (t, s)
  | _, _, _ => None
  end.

Fixpoint casts_stmt (s : stmt) : list (positive * positive) :=
  match s with
  | SExpr c reads result => match is_cast c reads result with Some x => [x] | None => [] end
  | SVarAssign _ _ | SOther _ => []
  | SIf _ body orelse => casts_block body ++ casts_block orelse
  | SBlock b => casts_block b
  | SCase _ brs _ default => casts_brs brs ++ casts_block default
  end
with casts_block (b : block) : list (positive * positive) :=
  match b with BNil => [] | BCons s r => casts_stmt s ++ casts_block r end
with casts_brs (brs : branches) : list (positive * positive) :=
  match brs with BrNil => [] | BrCons _ code r => casts_block code ++ casts_brs r end.

(** every removed cast's target is replaced by the same temporary as its source, i.e. no remaining read
    refers to a removed write.  (Holds when cast results are fresh temporaries whose source cast, if any, was
    visited earlier; false for the chained witness under the pass as originally coded.) *)
Definition bc_consistent_gen (tr : bool) (t : block) : bool :=
  let m := bc_collect_block tr t [] in
  forallb (fun ts => Pos.eqb (sigma m (fst ts)) (sigma m (snd ts))) (casts_block t).
Definition bc_consistent := bc_consistent_gen true.

(** a maybe-uninitialized temporary is only ever replaced by a maybe-uninitialized one *)
Definition mu_closed (MU : list positive) (t : block) : bool :=
  let m := bc_collect_block true t [] in forallb (fun x => pmem (sigma m x) MU) MU.
