(** * Proofs about the std helper models (property C18): model = mathematical definition *)
From Coq Require Import ZArith NArith List Bool Lia PeanoNat.
Import ListNotations.
From Cohdl Require Import Base.Bits Models.Helpers.

(* ------------------------------------------------------------------------- *)
(** ** generic list facts *)

Lemma Forall2_firstn_ {A B} (P : A -> B -> Prop) n la lb :
  Forall2 P la lb -> Forall2 P (firstn n la) (firstn n lb).
Proof. intros H; revert n; induction H; intros [|n]; cbn; constructor; auto. Qed.

Lemma Forall2_skipn_ {A B} (P : A -> B -> Prop) n la lb :
  Forall2 P la lb -> Forall2 P (skipn n la) (skipn n lb).
Proof. intros H; revert n; induction H; intros [|n]; cbn; try constructor; auto. Qed.

Lemma Forall2_map2_ {A B C D} (Q : A -> B -> Prop) (R : C -> D -> Prop) (f : A -> C) (g : B -> D) l1 l2 :
  (forall x y, Q x y -> R (f x) (g y)) -> Forall2 Q l1 l2 -> Forall2 R (map f l1) (map g l2).
Proof. intros H F; induction F; cbn; constructor; auto. Qed.

Lemma Forall2_length_ {A B} (P : A -> B -> Prop) la lb : Forall2 P la lb -> length la = length lb.
Proof. induction 1; cbn; congruence. Qed.

Lemma concat_concat_ {A} (l : list (list (list A))) : concat (concat l) = concat (map (@concat A) l).
Proof. induction l as [|x r IH]; cbn; [reflexivity|]. rewrite concat_app, IH. reflexivity. Qed.

(* ------------------------------------------------------------------------- *)
(** ** folds *)

Lemma binary_fold_l_fold_left {A} (f : A -> A -> A) rest x : binary_fold_l f x rest = fold_left f rest x.
Proof. revert x; induction rest as [|y r IH]; intros x; cbn; auto. Qed.

Lemma binary_fold_d_fold1 {A} (f : A -> A -> A) d l : binary_fold_d f d l = fold1 f d l.
Proof. destruct l; cbn; [reflexivity|apply binary_fold_l_fold_left]. Qed.

Lemma fold_left_assoc {A} (f : A -> A -> A) :
  (forall a b c, f (f a b) c = f a (f b c)) ->
  forall r a x, fold_left f r (f a x) = f a (fold_left f r x).
Proof.
  intros Hassoc r; induction r as [|y r IH]; intros a x; cbn; [reflexivity|].
  rewrite Hassoc. apply IH.
Qed.

Lemma binary_fold_r_assoc {A} (f : A -> A -> A) :
  (forall a b c, f (f a b) c = f a (f b c)) ->
  forall rest x, binary_fold_r f x rest = fold_left f rest x.
Proof.
  intros Hassoc rest; induction rest as [|y r IH]; intros x; cbn; [reflexivity|].
  rewrite IH. symmetry. apply fold_left_assoc; exact Hassoc.
Qed.

Lemma chunks_fuel_concat {A} fuel bs (l : list A) :
  (length l <= fuel)%nat -> (1 <= bs)%nat -> concat (chunks_fuel fuel bs l) = l.
Proof.
  revert l; induction fuel as [|k IH]; intros l Hl Hbs; destruct l as [|a l]; cbn [chunks_fuel]; auto.
  - cbn in Hl; lia.
  - cbn [concat]. rewrite IH; [apply firstn_skipn| |exact Hbs].
    rewrite skipn_length. cbn [length] in *. lia.
Qed.

Lemma batch_args_concat {A} bs (l : list A) : (1 <= bs)%nat -> concat (batch_args bs l) = l.
Proof. intros; apply chunks_fuel_concat; auto. Qed.

Lemma chunks_fuel_Forall2 {A B} (P : A -> B -> Prop) fuel bs la lb :
  (1 <= bs)%nat -> Forall2 P la lb ->
  Forall2 (fun x y => Forall2 P x y /\ y <> []) (chunks_fuel fuel bs la) (chunks_fuel fuel bs lb).
Proof.
  intros Hbs; revert la lb; induction fuel as [|k IH]; intros la lb H; cbn [chunks_fuel]; [constructor|].
  destruct H as [|a b la lb Hab H]; [constructor|].
  constructor.
  - split; [apply Forall2_firstn_; constructor; auto|].
    destruct bs; [lia|]. cbn. discriminate.
  - apply IH. apply Forall2_skipn_. constructor; auto.
Qed.

Section Rel.
  Context {A L : Type} (f : A -> A -> A) (R : list L -> A -> Prop).
  Hypothesis Rf : forall l1 l2 a b, R l1 a -> R l2 b -> R (l1 ++ l2) (f a b).

  Lemma binary_fold_l_rel : forall rest lss l x,
      R l x -> Forall2 R lss rest -> R (l ++ concat lss) (binary_fold_l f x rest).
  Proof.
    induction rest as [|y r IH]; intros lss l x Hx H; inversion H; subst; cbn.
    - rewrite app_nil_r; auto.
    - rewrite app_assoc. apply IH; auto.
  Qed.

  Lemma binary_fold_d_rel d args lss :
    args <> [] -> Forall2 R lss args -> R (concat lss) (binary_fold_d f d args).
  Proof.
    intros Hne H. destruct H as [|l x lss args Hx H]; [congruence|].
    cbn. apply binary_fold_l_rel; auto.
  Qed.

  (** the result of the tree reduction is related to the concatenation of the leaves,
      whatever the batch size and the fuel *)
  Lemma batched_fold_fuel_rel : forall fuel d bs args lss,
      (1 <= bs)%nat -> args <> [] -> Forall2 R lss args ->
      R (concat lss) (batched_fold_fuel f fuel d bs args).
  Proof.
    induction fuel as [|k IH]; intros d bs args lss Hbs Hne H; cbn [batched_fold_fuel].
    - apply binary_fold_d_rel; auto.
    - destruct (length args <=? bs)%nat; [apply binary_fold_d_rel; auto|].
      assert (Hlen : length lss = length args) by (eapply Forall2_length_; eauto).
      assert (Hc : Forall2 (fun x y => Forall2 R x y /\ y <> []) (batch_args bs lss) (batch_args bs args)).
      { unfold batch_args. rewrite Hlen. apply chunks_fuel_Forall2; auto. }
      rewrite <- (batch_args_concat bs lss) at 1 by exact Hbs.
      rewrite concat_concat_.
      apply IH; [lia| |].
      + destruct args as [|a args]; [congruence|]. unfold batch_args. cbn. discriminate.
      + eapply Forall2_map2_; [|exact Hc].
        intros x y [Hxy Hy]. apply IH; auto.
  Qed.

  Lemma batched_fold_rel bs args lss r :
    Forall2 R lss args -> batched_fold f bs args = Some r -> R (concat lss) r.
  Proof.
    intros H. unfold batched_fold. destruct args as [|d args]; [discriminate|].
    destruct (length (d :: args) <=? bs)%nat.
    - intros [= <-]. apply (binary_fold_d_rel d (d :: args) lss); [discriminate|auto].
    - destruct (Nat.eqb_spec bs 0); [discriminate|].
      intros E. assert (E' : batched_fold_fuel f (length (d :: args) + 2) d bs (d :: args) = r) by congruence.
      rewrite <- E'. apply batched_fold_fuel_rel; [lia|discriminate|auto].
  Qed.

  Lemma batched_fold_some bs args : (1 <= bs)%nat -> args <> [] -> exists r, batched_fold f bs args = Some r.
  Proof.
    intros Hbs Hne. unfold batched_fold. destruct args as [|d args]; [congruence|].
    destruct (length (d :: args) <=? bs)%nat; [eauto|].
    destruct (Nat.eqb_spec bs 0); [lia|eauto].
  Qed.
End Rel.

(** associative operators: any tree shape equals the sequential left fold *)
Section Assoc.
  Context {A : Type} (f : A -> A -> A).
  Hypothesis Hassoc : forall a b c, f (f a b) c = f a (f b c).

  Definition is_fold (l : list A) (a : A) : Prop :=
    match l with [] => False | x :: r => a = fold_left f r x end.

  Lemma is_fold_app l1 l2 a b : is_fold l1 a -> is_fold l2 b -> is_fold (l1 ++ l2) (f a b).
  Proof.
    destruct l1 as [|x r1]; [contradiction|]. destruct l2 as [|y r2]; [contradiction|].
    cbn. intros -> ->. rewrite fold_left_app. cbn.
    symmetry. apply fold_left_assoc; exact Hassoc.
  Qed.

  Lemma Forall2_is_fold_singletons (args : list A) : Forall2 is_fold (map (fun x => [x]) args) args.
  Proof. induction args; cbn; constructor; cbn; auto. Qed.

  Lemma concat_singletons (args : list A) : concat (map (fun x => [x]) args) = args.
  Proof. induction args; cbn; congruence. Qed.

  Theorem batched_fold_assoc bs x rest :
    (1 <= bs)%nat -> batched_fold f bs (x :: rest) = Some (fold_left f rest x).
  Proof.
    intros Hbs.
    destruct (batched_fold_some f bs (x :: rest) Hbs) as [r Hr]; [discriminate|].
    rewrite Hr. f_equal.
    pose proof (batched_fold_rel f is_fold is_fold_app bs (x :: rest) _ r
                  (Forall2_is_fold_singletons (x :: rest)) Hr) as H.
    rewrite concat_singletons in H. exact H.
  Qed.

  Theorem binary_fold_assoc right x rest :
    binary_fold f right (x :: rest) = Some (fold_left f rest x).
  Proof.
    cbn. destruct right; f_equal.
    - apply binary_fold_r_assoc; exact Hassoc.
    - apply binary_fold_l_fold_left.
  Qed.
End Assoc.

Theorem binary_fold_left_spec {A} (f : A -> A -> A) x rest :
  binary_fold f false (x :: rest) = Some (fold_left f rest x).
Proof. cbn. f_equal. apply binary_fold_l_fold_left. Qed.

(* ------------------------------------------------------------------------- *)
(** ** concat / reverse_bits / repeat / stretch / pads *)

Lemma cat_assoc a b c : cat (cat a b) c = cat a (cat b c).
Proof. unfold cat. apply app_assoc. Qed.

Lemma fold_left_cat rest x : fold_left cat rest x = concat (rev rest) ++ x.
Proof.
  revert x; induction rest as [|y r IH]; intros x; cbn; [reflexivity|].
  rewrite IH. unfold cat. rewrite concat_app. cbn. rewrite app_nil_r, app_assoc. reflexivity.
Qed.

Theorem concat_m_spec xs : xs <> [] -> concat_m xs = Some (concat_spec xs).
Proof.
  intros Hne. destruct xs as [|x [|y r]]; [congruence| |].
  - cbn. rewrite app_nil_r. reflexivity.
  - unfold concat_m. rewrite (batched_fold_assoc cat cat_assoc) by lia.
    rewrite fold_left_cat. unfold concat_spec.
    change (rev (x :: y :: r)) with (rev (y :: r) ++ [x]).
    rewrite concat_app. cbn. rewrite app_nil_r. reflexivity.
Qed.

Lemma concat_singletons_ {A} (l : list A) : concat (map (fun x => [x]) l) = l.
Proof. induction l; cbn; congruence. Qed.

Theorem reverse_bits_m_spec v : v <> [] -> reverse_bits_m v = Some (rev v).
Proof.
  intros Hne. unfold reverse_bits_m. rewrite concat_m_spec by (destruct v; [congruence|discriminate]).
  unfold concat_spec. rewrite <- map_rev. rewrite concat_singletons_. reflexivity.
Qed.

Lemma concat_repeat_comm {A} (v : list A) n : concat (repeat v n) ++ v = v ++ concat (repeat v n).
Proof. induction n as [|n IH]; cbn; [rewrite app_nil_r; reflexivity|]. rewrite <- app_assoc, IH. reflexivity. Qed.

Lemma concat_repeat_double {A} (v : list A) n : concat (repeat (v ++ v) n) = concat (repeat v (2 * n)).
Proof.
  induction n as [|n IH]; [reflexivity|].
  replace (2 * S n)%nat with (S (S (2 * n))) by lia. cbn [repeat concat].
  rewrite IH, app_assoc. reflexivity.
Qed.

Lemma repeat_sel_nonempty v p : repeat_sel v p <> [].
Proof. revert v; induction p; intros v; cbn; try discriminate. apply IHp. Qed.

Lemma repeat_sel_spec p : forall v, concat_spec (repeat_sel v p) = concat (repeat v (Pos.to_nat p)).
Proof.
  induction p as [q IH|q IH|]; intros v; cbn [repeat_sel].
  - unfold concat_spec in *. cbn [rev]. rewrite concat_app. cbn [concat]. rewrite app_nil_r.
    rewrite IH. unfold cat. rewrite concat_repeat_double.
    rewrite Pos2Nat.inj_xI. cbn [repeat concat]. apply concat_repeat_comm.
  - rewrite IH. unfold cat. rewrite concat_repeat_double. rewrite Pos2Nat.inj_xO. reflexivity.
  - unfold concat_spec. cbn. reflexivity.
Qed.

Theorem repeat_m_spec v times : (1 <= times)%nat -> repeat_m v times = Some (repeat_spec v times).
Proof.
  intros H. unfold repeat_m, repeat_spec.
  destruct (N.of_nat times) as [|p] eqn:E; [lia|].
  rewrite concat_m_spec by apply repeat_sel_nonempty.
  rewrite repeat_sel_spec. do 3 f_equal. lia.
Qed.

Lemma concat_repeat_single {A} (b : A) n : concat (repeat [b] n) = repeat b n.
Proof. induction n; cbn; congruence. Qed.

Lemma oseq_map_some {A B} (g : A -> option B) (h : A -> B) l :
  (forall x, g x = Some (h x)) -> oseq (map g l) = Some (map h l).
Proof. intros H; induction l as [|x r IH]; cbn; [reflexivity|]. rewrite H, IH. reflexivity. Qed.

Theorem stretch_m_vector_spec v factor :
  v <> [] -> (1 <= factor)%nat -> stretch_m false v factor = Some (stretch_spec v factor).
Proof.
  intros Hv Hf. unfold stretch_m, stretch_spec.
  destruct (Nat.eqb_spec factor 0); [lia|].
  destruct (Nat.eqb_spec factor 1) as [->|H1].
  - f_equal. induction v as [|b r IH]; [congruence|]. cbn. f_equal.
    destruct r; [reflexivity|]. apply IH. discriminate.
  - rewrite (oseq_map_some _ (fun b => repeat_spec [b] factor)) by (intros; apply repeat_m_spec; lia).
    cbn [obind]. rewrite concat_m_spec.
    + unfold concat_spec. rewrite rev_involutive. f_equal.
      rewrite flat_map_concat_map. f_equal. apply map_ext. intros b. apply concat_repeat_single.
    + destruct v; [congruence|]. cbn. intros E. apply app_eq_nil in E. destruct E; discriminate.
Qed.

Theorem stretch_m_bit_spec b factor :
  (1 <= factor)%nat -> stretch_m true [b] factor = Some (repeat b factor).
Proof.
  intros Hf. unfold stretch_m. destruct (Nat.eqb_spec factor 0); [lia|].
  rewrite repeat_m_spec by lia. unfold repeat_spec. rewrite concat_repeat_single. reflexivity.
Qed.

Theorem leftpad_m_spec inp rw fill :
  (length inp <= rw)%nat -> leftpad_m inp rw fill = Some (leftpad_spec inp rw fill).
Proof.
  intros H. unfold leftpad_m, leftpad_spec.
  destruct (Nat.ltb_spec rw (length inp)); [lia|].
  destruct (Nat.eqb_spec (length inp) rw) as [E|E].
  - rewrite <- E, Nat.sub_diag. cbn. rewrite app_nil_r. reflexivity.
  - rewrite stretch_m_bit_spec by lia. reflexivity.
Qed.

Theorem rightpad_m_spec inp rw fill :
  (length inp <= rw)%nat -> rightpad_m inp rw fill = Some (rightpad_spec inp rw fill).
Proof.
  intros H. unfold rightpad_m, rightpad_spec.
  destruct (Nat.ltb_spec rw (length inp)); [lia|].
  destruct (Nat.eqb_spec (length inp) rw) as [E|E].
  - rewrite <- E, Nat.sub_diag. reflexivity.
  - rewrite stretch_m_bit_spec by lia. reflexivity.
Qed.

Theorem pad_m_spec inp left right fill : pad_m inp left right fill = Some (pad_spec inp left right fill).
Proof.
  unfold pad_m, pad_spec, cat.
  destruct (Nat.eqb_spec left 0) as [->|Hl]; destruct (Nat.eqb_spec right 0) as [->|Hr]; cbn [andb obind repeat app].
  - rewrite app_nil_r. reflexivity.
  - rewrite stretch_m_bit_spec by lia. cbn. rewrite app_nil_r. reflexivity.
  - rewrite stretch_m_bit_spec by lia. reflexivity.
  - rewrite !stretch_m_bit_spec by lia. cbn. reflexivity.
Qed.

(* ------------------------------------------------------------------------- *)
(** ** rotations and shift-with-fill *)

Lemma nth_firstn_ {A} (l : list A) k i d : (i < k)%nat -> nth i (firstn k l) d = nth i l d.
Proof.
  revert k i; induction l as [|x r IH]; intros k i H.
  - rewrite firstn_nil. reflexivity.
  - destruct k; [lia|]. destruct i; cbn; [reflexivity|]. apply IH; lia.
Qed.

Lemma nth_skipn_ {A} (l : list A) k i d : nth i (skipn k l) d = nth (k + i) l d.
Proof.
  revert l; induction k as [|k IH]; intros l; cbn; [reflexivity|].
  destruct l; cbn; [destruct i; reflexivity|apply IH].
Qed.

(** rotation by [k] places: split at [k] and swap = index permutation *)
Lemma rotate_spec (v : list bool) k :
  (k <= length v)%nat ->
  skipn k v ++ firstn k v = map (fun i => nth ((i + k) mod length v) v false) (seq 0 (length v)).
Proof.
  intros Hk. set (w := length v).
  apply (nth_ext _ _ false false).
  - rewrite app_length, skipn_length, firstn_length, map_length, seq_length. fold w. lia.
  - intros i Hi. rewrite app_length, skipn_length, firstn_length in Hi. fold w in Hi.
    assert (Hiw : (i < w)%nat) by lia.
    set (g := fun i => nth ((i + k) mod w) v false).
    rewrite (nth_indep (map g (seq 0 w)) false (g 0%nat))
      by (rewrite map_length, seq_length; exact Hiw).
    rewrite map_nth. unfold g. rewrite seq_nth by exact Hiw. cbn [plus].
    destruct (Nat.lt_ge_cases i (w - k)) as [Hlt|Hge].
    + rewrite app_nth1 by (rewrite skipn_length; fold w; lia).
      rewrite nth_skipn_. rewrite Nat.mod_small by lia. f_equal. lia.
    + rewrite app_nth2 by (rewrite skipn_length; fold w; lia).
      rewrite skipn_length. fold w. rewrite nth_firstn_ by lia.
      replace (i + k)%nat with ((i + k - w) + 1 * w)%nat by lia.
      rewrite Nat.mod_add by lia. rewrite Nat.mod_small by lia. f_equal. lia.
Qed.

Theorem rol_m_spec v n : (n <= length v)%nat -> rol_m v n = Some (rol_spec v n).
Proof.
  intros H. unfold rol_m, rol_spec. destruct (Nat.ltb_spec (length v) n); [lia|].
  rewrite <- rotate_spec by lia. f_equal.
  destruct (Nat.eqb_spec n 0) as [->|Hn0]; cbn [orb].
  - rewrite Nat.sub_0_r, skipn_all, firstn_all. reflexivity.
  - destruct (Nat.eqb_spec n (length v)) as [->|Hw].
    + rewrite Nat.sub_diag. cbn. rewrite app_nil_r. reflexivity.
    + reflexivity.
Qed.

Theorem ror_m_spec v n : (n <= length v)%nat -> ror_m v n = Some (ror_spec v n).
Proof.
  intros H. unfold ror_m, ror_spec. destruct (Nat.ltb_spec (length v) n); [lia|].
  rewrite <- rotate_spec by lia. f_equal.
  destruct (Nat.eqb_spec n 0) as [->|Hn0]; cbn [orb].
  - cbn. rewrite app_nil_r. reflexivity.
  - destruct (Nat.eqb_spec n (length v)) as [->|Hw].
    + rewrite skipn_all, firstn_all. reflexivity.
    + reflexivity.
Qed.

Theorem lshift_fill_m_spec val fill :
  (length fill <= length val)%nat -> lshift_fill_m val fill = Some (lshift_fill_spec val fill).
Proof.
  intros H. unfold lshift_fill_m, lshift_fill_spec, cat.
  rewrite firstn_app.
  destruct (Nat.eqb_spec (length fill) (length val)) as [E|E].
  - rewrite <- E, Nat.sub_diag, firstn_all. cbn. rewrite app_nil_r. reflexivity.
  - destruct (Nat.ltb_spec (length val) (length fill)); [lia|].
    rewrite (@firstn_all2 _ (length val) fill) by lia. reflexivity.
Qed.

Theorem rshift_fill_m_spec val fill :
  (length fill <= length val)%nat -> rshift_fill_m val fill = Some (rshift_fill_spec val fill).
Proof.
  intros H. unfold rshift_fill_m, rshift_fill_spec, cat.
  rewrite skipn_app.
  replace (length fill - length val)%nat with 0%nat by lia. cbn [skipn].
  destruct (Nat.eqb_spec (length fill) (length val)) as [E|E].
  - rewrite E, skipn_all. reflexivity.
  - destruct (Nat.ltb_spec (length val) (length fill)); [lia|]. reflexivity.
Qed.

(* ------------------------------------------------------------------------- *)
(** ** masks *)

Theorem apply_mask_pointwise old : forall new mask,
  bor (band old (bnot mask)) (band new mask) = apply_mask_spec old new mask.
Proof.
  induction old as [|o old IH]; intros [|n new] [|m mask]; cbn; try reflexivity.
  unfold bor, band, bnot in *. rewrite IH. f_equal. destruct o, n, m; reflexivity.
Qed.

Theorem apply_mask_m_spec old new mask :
  length old = length new -> length old = length mask ->
  apply_mask_m old new mask = Some (apply_mask_spec old new mask).
Proof.
  intros H1 H2. unfold apply_mask_m. rewrite <- H1, <- H2, Nat.eqb_refl. cbn.
  rewrite apply_mask_pointwise. reflexivity.
Qed.

Lemma apply_mask_spec_const w : forall m, length m = w ->
  apply_mask_spec (repeat false w) (repeat true w) m = m.
Proof.
  induction w as [|w IH]; intros [|b m] H; cbn in *; try lia; try reflexivity.
  rewrite IH by lia. destruct b; reflexivity.
Qed.

Theorem mask_as_vector_m_spec m w :
  match m with MVec v => length v = w | _ => True end ->
  mask_as_vector_m m w = Some (mask_as_vector_spec m w).
Proof.
  intros H. destruct m as [| |v]; cbn; try reflexivity.
  rewrite apply_mask_m_spec by (rewrite !repeat_length; congruence).
  rewrite apply_mask_spec_const by assumption. reflexivity.
Qed.

(* ------------------------------------------------------------------------- *)
(** ** clamp, choose_first, count_elements_while/until, leading / trailing *)

Theorem clamp_m_spec val low high :
  (low <= high)%Z -> clamp_m None val low high = Some (clamp_spec val low high).
Proof.
  intros H. unfold clamp_m, clamp_spec. cbn. f_equal.
  destruct (Z.ltb_spec val low); destruct (Z.ltb_spec high val); lia.
Qed.

Theorem clamp_m_spec_ranged lo hi val low high :
  (lo <= low <= hi)%Z -> (lo <= high <= hi)%Z -> (low <= high)%Z ->
  clamp_m (Some (lo, hi)) val low high = Some (clamp_spec val low high).
Proof.
  intros H1 H2 H. unfold clamp_m, clamp_spec.
  replace ((lo <=? low)%Z && (low <=? hi)%Z) with true by (symmetry; apply andb_true_intro; split; apply Z.leb_le; lia).
  replace ((lo <=? high)%Z && (high <=? hi)%Z) with true by (symmetry; apply andb_true_intro; split; apply Z.leb_le; lia).
  cbn. f_equal.
  destruct (Z.ltb_spec val low); destruct (Z.ltb_spec high val); lia.
Qed.

Theorem first_impl_spec {A} (args : list (bool * A)) d : first_impl args d = choose_first_spec args d.
Proof.
  unfold choose_first_spec. induction args as [|[c x] r IH]; cbn; [reflexivity|].
  destruct c; [reflexivity|exact IH].
Qed.

Lemma first_impl_while flags : forall k,
  first_impl (combine (map negb flags) (seq k (length flags))) (k + length flags)%nat
  = (k + prefix_len (fun b => b) flags)%nat.
Proof.
  induction flags as [|b r IH]; intros k; cbn; [reflexivity|].
  destruct b; cbn.
  - rewrite <- Nat.add_succ_comm. rewrite IH. lia.
  - lia.
Qed.

Lemma first_impl_until flags : forall k,
  first_impl (combine flags (seq k (length flags))) (k + length flags)%nat
  = (k + prefix_len negb flags)%nat.
Proof.
  induction flags as [|b r IH]; intros k; cbn; [reflexivity|].
  destruct b; cbn.
  - lia.
  - rewrite <- Nat.add_succ_comm. rewrite IH. lia.
Qed.

Theorem count_elements_while_m_spec flags : count_elements_while_m flags = count_elements_while_spec flags.
Proof.
  unfold count_elements_while_m, count_elements_while_spec. f_equal. f_equal.
  apply (first_impl_while flags 0).
Qed.

Theorem count_elements_until_m_spec flags : count_elements_until_m flags = count_elements_until_spec flags.
Proof.
  unfold count_elements_until_m, count_elements_until_spec. f_equal. f_equal.
  apply (first_impl_until flags 0).
Qed.

Lemma prefix_len_map {A} (p : A -> bool) l : prefix_len (fun b => b) (map p l) = prefix_len p l.
Proof. induction l as [|x r IH]; cbn; [reflexivity|]. destruct (p x); congruence. Qed.

Theorem count_trailing_m_spec b v : count_trailing_m b v = count_trailing_spec b v.
Proof.
  unfold count_trailing_m, count_trailing_spec. rewrite count_elements_while_m_spec.
  unfold count_elements_while_spec. rewrite map_length, prefix_len_map. reflexivity.
Qed.

Theorem count_leading_m_spec b v : v <> [] -> count_leading_m b v = Some (count_leading_spec b v).
Proof.
  intros H. unfold count_leading_m. rewrite reverse_bits_m_spec by exact H. cbn.
  rewrite count_trailing_m_spec. unfold count_trailing_spec, count_leading_spec.
  rewrite rev_length. reflexivity.
Qed.

(* ------------------------------------------------------------------------- *)
(** ** one_hot *)

Lemma Z_to_bits_zero k : forall s, Z_to_bits k 0 = map (fun i => (i =? 0)%nat) (seq (S s) k).
Proof. induction k as [|k IH]; intros s; cbn [Z_to_bits seq map]; [reflexivity|]. f_equal. apply IH. Qed.

Lemma Z_to_bits_pow2 w : forall pos, Z_to_bits w (2 ^ Z.of_nat pos) = map (fun i => (i =? pos)%nat) (seq 0 w).
Proof.
  induction w as [|w IH]; intros pos; [reflexivity|].
  cbn [Z_to_bits seq map]. destruct pos as [|p].
  - change (2 ^ Z.of_nat 0)%Z with 1%Z. cbn [Z.odd Nat.eqb]. f_equal.
    change (1 / 2)%Z with 0%Z. apply Z_to_bits_zero.
  - rewrite Nat2Z.inj_succ, Z.pow_succ_r by lia.
    rewrite Z.odd_mul, Z.odd_2. cbn [andb Nat.eqb]. f_equal.
    rewrite Z.mul_comm, Z.div_mul by lia. rewrite IH.
    rewrite <- seq_shift, map_map. reflexivity.
Qed.

Theorem one_hot_m_spec w pos : (pos < w)%nat -> one_hot_m w pos = Some (one_hot_spec w pos).
Proof.
  intros H. unfold one_hot_m, one_hot_spec, p2.
  destruct (Nat.ltb_spec pos w); [|lia]. f_equal.
  rewrite Z.mul_1_l, Z.mod_small.
  - apply Z_to_bits_pow2.
  - split; [apply Z.pow_nonneg; lia|]. apply Z.pow_lt_mono_r; lia.
Qed.

(* ------------------------------------------------------------------------- *)
(** ** count / count_set_bits / count_clear_bits: widening adders never overflow *)

Lemma p2_pos w : (0 < p2 w)%Z.
Proof. unfold p2. apply Z.pow_pos_nonneg; lia. Qed.

Lemma p2_S w : p2 (S w) = (2 * p2 w)%Z.
Proof. unfold p2. rewrite Nat2Z.inj_succ, Z.pow_succ_r by lia. reflexivity. Qed.

Lemma p2_mono a b : (a <= b)%nat -> (p2 a <= p2 b)%Z.
Proof. intros H. unfold p2. apply Z.pow_le_mono_r; lia. Qed.

Lemma bitlen_spec n : (Z.of_nat n < p2 (bitlen n))%Z.
Proof.
  unfold bitlen, p2. destruct (Nat.eqb_spec n 0) as [->|H]; [cbn; lia|].
  rewrite Nat2Z.inj_succ, Z2Nat.id by apply Z.log2_nonneg.
  apply Z.log2_spec. lia.
Qed.

Lemma bitlen_le n w : (Z.of_nat n < p2 w)%Z -> (bitlen n <= w)%nat.
Proof.
  unfold bitlen, p2. intros H. destruct (Nat.eqb_spec n 0) as [->|Hn]; [lia|].
  apply Z.log2_lt_pow2 in H; [|lia].
  pose proof (Z.log2_nonneg (Z.of_nat n)). lia.
Qed.

Lemma count_true_cons b r : count_true (b :: r) = ((if b then 1 else 0) + count_true r)%Z.
Proof. unfold count_true. cbn [count_occ]. destruct (bool_dec b true) as [->|H]; [lia|]. destruct b; [congruence|lia]. Qed.

Lemma count_true_app a b : count_true (a ++ b) = (count_true a + count_true b)%Z.
Proof. induction a as [|x r IH]; [reflexivity|]. cbn [app]. rewrite !count_true_cons, IH. lia. Qed.

Lemma count_true_range l : (0 <= count_true l <= Z.of_nat (length l))%Z.
Proof.
  induction l as [|x r IH]; [cbn; lia|]. rewrite count_true_cons. cbn [length]. destruct x; lia.
Qed.

Section CountRel.
  Variable val : list bool -> Z.
  Hypothesis val_app : forall a b, val (a ++ b) = (val a + val b)%Z.
  Hypothesis val_range : forall l, (0 <= val l <= Z.of_nat (length l))%Z.

  (** a node of the adder tree holds the exact count of the leaves below it and is wide enough
      for the number of those leaves *)
  Definition cnt_rel (l : list bool) (a : uns) : Prop :=
    snd a = val l /\ (Z.of_nat (length l) < p2 (fst a))%Z.

  Lemma cnt_rel_add l1 l2 a b : cnt_rel l1 a -> cnt_rel l2 b -> cnt_rel (l1 ++ l2) (safe_add a b).
  Proof.
    intros [Ha Wa] [Hb Wb]. unfold cnt_rel, safe_add. cbn [fst snd].
    pose proof (p2_mono _ _ (Nat.le_max_l (fst a) (fst b))).
    pose proof (p2_mono _ _ (Nat.le_max_r (fst a) (fst b))).
    pose proof (val_range l1). pose proof (val_range l2).
    rewrite app_length, Nat2Z.inj_add, p2_S, val_app, Ha, Hb.
    split; [apply Z.mod_small|]; lia.
  Qed.

  Lemma fit_width_rel l r :
    cnt_rel l r -> fit_width (bitlen (length l)) r = Some (bitlen (length l), val l).
  Proof.
    intros [Hv Hw]. destruct r as [w v]. unfold fit_width. cbn [fst snd] in *. subst v.
    destruct (Nat.eqb_spec w (bitlen (length l))) as [->|Hne]; [reflexivity|].
    pose proof (bitlen_le _ _ Hw).
    destruct (Nat.ltb_spec w (bitlen (length l))); [lia|].
    f_equal. f_equal. apply Z.mod_small.
    pose proof (val_range l). pose proof (bitlen_spec (length l)). lia.
  Qed.

  Lemma adder_tree_spec (lss : list (list bool)) (args : list uns) :
    args <> [] -> Forall2 cnt_rel lss args ->
    obind (batched_fold safe_add 2 args) (fit_width (bitlen (length (concat lss))))
    = Some (bitlen (length (concat lss)), val (concat lss)).
  Proof.
    intros Hne H.
    destruct (batched_fold_some safe_add 2 args) as [r Hr]; [lia|exact Hne|].
    rewrite Hr. cbn [obind]. apply fit_width_rel.
    eapply (batched_fold_rel safe_add cnt_rel cnt_rel_add); eauto.
  Qed.
End CountRel.

Theorem count_m_spec flags : count_m flags = Some (count_spec flags).
Proof.
  destruct flags as [|b r]; [reflexivity|].
  unfold count_m, count_spec.
  pose proof (adder_tree_spec count_true count_true_app count_true_range
                (map (fun x : bool => [x]) (b :: r))
                (map (fun x : bool => (1%nat, if x then 1%Z else 0%Z)) (b :: r))) as H.
  rewrite concat_singletons_ in H. apply H; [discriminate|].
  generalize (b :: r). intros l. induction l as [|x l IH]; cbn; constructor; auto.
  split; cbn; [destruct x; reflexivity|lia].
Qed.

Lemma bit_count_cons (b : bool) z :
  (0 <= z)%Z -> bit_count ((if b then 1 else 0) + 2 * z)%Z = ((if b then 1 else 0) + bit_count z)%Z.
Proof. intros H. destruct z as [|p|p]; [destruct b; reflexivity|destruct b; reflexivity|lia]. Qed.

Lemma bit_count_bits l : bit_count (bits_to_Z l) = count_true l.
Proof.
  induction l as [|b r IH]; [reflexivity|].
  cbn [bits_to_Z]. rewrite bit_count_cons by apply bits_to_Z_range.
  rewrite count_true_cons, IH. reflexivity.
Qed.

Lemma upto_width_spec n : (Z.of_nat n < p2 (upto_width n))%Z.
Proof. unfold upto_width. destruct (Nat.eqb_spec n 0) as [->|H]; [cbn; lia|apply bitlen_spec]. Qed.

Lemma Forall2_map_r {A B} (R : A -> B -> Prop) (g : A -> B) l : (forall x, R x (g x)) -> Forall2 R l (map g l).
Proof. intros H; induction l; cbn; constructor; auto. Qed.

Lemma batch_args_nonempty {A} bs (l : list A) : l <> [] -> batch_args bs l <> [].
Proof. destruct l; [congruence|]. intros _. unfold batch_args. cbn. discriminate. Qed.

Theorem count_set_bits_m_spec vector bs :
  vector <> [] -> (1 <= bs)%nat -> count_set_bits_m vector bs = Some (count_set_bits_spec vector).
Proof.
  intros Hv Hbs. unfold count_set_bits_m, count_bits_m, batched_m, count_set_bits_spec.
  destruct (Nat.eqb_spec bs 0); [lia|]. rewrite orb_true_r. cbn [obind].
  pose proof (adder_tree_spec count_true count_true_app count_true_range
                (batch_args bs vector) (map set_bits_lookup (batch_args bs vector))) as H.
  rewrite batch_args_concat in H by exact Hbs. apply H.
  - intros E. apply map_eq_nil in E. revert E. apply batch_args_nonempty; exact Hv.
  - apply Forall2_map_r. intros c. split; cbn; [apply bit_count_bits|apply upto_width_spec].
Qed.

Definition count_false (l : list bool) : Z := (Z.of_nat (length l) - count_true l)%Z.

Lemma count_false_app a b : count_false (a ++ b) = (count_false a + count_false b)%Z.
Proof. unfold count_false. rewrite app_length, Nat2Z.inj_add, count_true_app. lia. Qed.

Lemma count_false_range l : (0 <= count_false l <= Z.of_nat (length l))%Z.
Proof. unfold count_false. pose proof (count_true_range l). lia. Qed.

Theorem count_clear_bits_m_spec vector bs :
  vector <> [] -> (1 <= bs)%nat -> count_clear_bits_m vector bs = Some (count_clear_bits_spec vector).
Proof.
  intros Hv Hbs. unfold count_clear_bits_m, count_bits_m, batched_m, count_clear_bits_spec.
  destruct (Nat.eqb_spec bs 0); [lia|]. rewrite orb_true_r. cbn [obind].
  pose proof (adder_tree_spec count_false count_false_app count_false_range
                (batch_args bs vector) (map clear_bits_lookup (batch_args bs vector))) as H.
  rewrite batch_args_concat in H by exact Hbs. apply H.
  - intros E. apply map_eq_nil in E. revert E. apply batch_args_nonempty; exact Hv.
  - apply Forall2_map_r. intros c. split; cbn; [|apply upto_width_spec].
    unfold count_false. rewrite bit_count_bits. reflexivity.
Qed.

(* ------------------------------------------------------------------------- *)
(** ** minimum / maximum: the reversed tree fold returns the FIRST extremal element *)

Section MinMaxProofs.
  Context {E K : Type} (cmp : K -> K -> bool) (key : E -> K).
  (** [cmp] is a strict weak order: transitive, and so is its complement *)
  Hypothesis cmp_trans : forall a b c, cmp a b = true -> cmp b c = true -> cmp a c = true.
  Hypothesis cmp_negtrans : forall a b c, cmp a b = false -> cmp b c = false -> cmp a c = false.

  Lemma pick_assoc a b c : pick cmp key (pick cmp key a b) c = pick cmp key a (pick cmp key b c).
  Proof.
    unfold pick.
    destruct (cmp (key a) (key b)) eqn:Eab; destruct (cmp (key b) (key c)) eqn:Ebc;
      rewrite ?Eab, ?Ebc; try reflexivity.
    - rewrite (cmp_trans _ _ _ Eab Ebc). reflexivity.
    - rewrite (cmp_negtrans _ _ _ Eab Ebc). reflexivity.
  Qed.

  Lemma fold_right_fold1 (f : E -> E -> E) :
    (forall a b c, f (f a b) c = f a (f b c)) ->
    forall l x d, fold_right f x l = fold1 f d (l ++ [x]).
  Proof.
    intros Hassoc l; induction l as [|a l IH]; intros x d; [reflexivity|].
    cbn [fold_right app fold1]. rewrite (IH x d).
    destruct (l ++ [x]) as [|y r] eqn:El; [destruct l; discriminate|].
    cbn [fold1 fold_left]. apply eq_sym, fold_left_assoc; exact Hassoc.
  Qed.

  Theorem minimum_m_spec x rest :
    minimum_m cmp key (x :: rest) = Some (minimum_spec cmp key x (x :: rest)).
  Proof.
    unfold minimum_m, minimum_spec. cbn [rev fold1].
    destruct (rev rest ++ [x]) as [|y r] eqn:El; [destruct (rev rest); discriminate|].
    rewrite (batched_fold_assoc _ pick_assoc) by lia. f_equal.
    change (fold_left (pick cmp key) r y) with (fold1 (pick cmp key) x (y :: r)).
    rewrite <- El. rewrite <- (fold_right_fold1 _ pick_assoc).
    rewrite fold_left_rev_right. reflexivity.
  Qed.
End MinMaxProofs.

Lemma ltb_trans a b c : (a <? b)%Z = true -> (b <? c)%Z = true -> (a <? c)%Z = true.
Proof. rewrite !Z.ltb_lt. lia. Qed.
Lemma ltb_negtrans a b c : (a <? b)%Z = false -> (b <? c)%Z = false -> (a <? c)%Z = false.
Proof. rewrite !Z.ltb_ge. lia. Qed.
Lemma gtb_trans a b c : (a >? b)%Z = true -> (b >? c)%Z = true -> (a >? c)%Z = true.
Proof. rewrite !Z.gtb_ltb, !Z.ltb_lt. lia. Qed.
Lemma gtb_negtrans a b c : (a >? b)%Z = false -> (b >? c)%Z = false -> (a >? c)%Z = false.
Proof. rewrite !Z.gtb_ltb, !Z.ltb_ge. lia. Qed.

(* ------------------------------------------------------------------------- *)
(** ** CRC: several bits per step = iterated single-bit updates *)

Lemma calc_steps_fold poly rest : forall prev d,
  calc_steps poly prev d rest = fold_left (crc_step poly) (d :: rest) prev.
Proof. induction rest as [|e r IH]; intros prev d; [reflexivity|]. cbn [calc_steps]. rewrite IH. reflexivity. Qed.

Theorem update_multiple_spec poly reg d rest :
  update_multiple poly reg (d :: rest) = Some (fold_left (crc_step poly) (d :: rest) reg).
Proof. unfold update_multiple. rewrite calc_steps_fold. reflexivity. Qed.

Theorem crc_run_multi_spec poly steps : forall reg,
  Forall (fun s => s <> []) steps ->
  crc_run_multi poly reg steps = Some (fold_left (crc_step poly) (concat steps) reg).
Proof.
  induction steps as [|s r IH]; intros reg H; [reflexivity|].
  inversion H as [|? ? Hs Hr]; subst. destruct s as [|d s]; [congruence|].
  cbn [crc_run_multi]. rewrite update_multiple_spec. cbn [obind].
  rewrite IH by exact Hr. cbn [concat]. rewrite fold_left_app. reflexivity.
Qed.

(* ------------------------------------------------------------------------- *)
(** ** the index returned by min_element / min_index is the FIRST position holding the extremum *)

Section FirstWins.
  Context {E : Type} (key : E -> Z) (xs : list E).

  Definition scan_step (best y : nat * E) : nat * E :=
    if (key (snd y) <? key (snd best))%Z then y else best.

  Definition scan_inv (k : nat) (best : nat * E) : Prop :=
    nth_error xs (fst best) = Some (snd best) /\ (fst best < k)%nat /\
    (forall j y, (j < k)%nat -> nth_error xs j = Some y -> (key (snd best) <= key y)%Z) /\
    (forall j y, (j < fst best)%nat -> nth_error xs j = Some y -> (key (snd best) < key y)%Z).

  Lemma scan_inv_fold rest : forall k best,
      scan_inv k best ->
      (forall j, nth_error rest j = nth_error xs (k + j)) ->
      scan_inv (k + length rest) (fold_left scan_step (combine (seq k (length rest)) rest) best).
  Proof.
    induction rest as [|r0 rest IH]; intros k best Hinv Hnth.
    - cbn. rewrite Nat.add_0_r. exact Hinv.
    - cbn [length seq combine fold_left].
      replace (k + S (length rest))%nat with (S k + length rest)%nat by lia.
      apply IH.
      + destruct Hinv as (Hb & Hlt & Hall & Hfirst).
        pose proof (Hnth 0%nat) as H0. cbn in H0. rewrite Nat.add_0_r in H0. symmetry in H0.
        unfold scan_step. cbn [snd].
        destruct (Z.ltb_spec (key r0) (key (snd best))) as [Hlt'|Hge].
        * repeat split; cbn [fst snd]; [exact H0|lia| |].
          -- intros j y Hj Hy. destruct (Nat.eq_dec j k) as [->|Hne].
             ++ rewrite H0 in Hy. inversion Hy; subst. lia.
             ++ assert (j < k)%nat by lia. specialize (Hall j y H Hy). lia.
          -- intros j y Hj Hy. specialize (Hall j y Hj Hy). lia.
        * repeat split; [exact Hb|lia| |exact Hfirst].
          intros j y Hj Hy. destruct (Nat.eq_dec j k) as [->|Hne].
          -- rewrite H0 in Hy. inversion Hy; subst. lia.
          -- apply (Hall j y); [lia|exact Hy].
      + intros j. specialize (Hnth (S j)). cbn in Hnth. rewrite Hnth. f_equal. lia.
  Qed.
End FirstWins.

Theorem first_extremum_wins {E} (key : E -> Z) (xs : list E) i e :
  min_element_m Z.ltb key xs = Some (i, e) ->
  nth_error xs i = Some e /\
  (forall j y, nth_error xs j = Some y -> (key e <= key y)%Z) /\
  (forall j y, (j < i)%nat -> nth_error xs j = Some y -> (key e < key y)%Z).
Proof.
  unfold min_element_m, indexed. destruct xs as [|x rest]; [cbn; discriminate|].
  cbn [length seq combine].
  rewrite (minimum_m_spec Z.ltb (fun p : nat * E => key (snd p)) ltb_trans ltb_negtrans).
  unfold minimum_spec. cbn [fold1]. intros H. injection H as H.
  pose proof (scan_inv_fold key (x :: rest) rest 1 (0%nat, x)) as Hinv.
  change (fold_left (scan_step key) (combine (seq 1 (length rest)) rest) (0%nat, x))
    with (fold_left (fun best y : nat * E => if (key (snd y) <? key (snd best))%Z then y else best)
            (combine (seq 1 (length rest)) rest) (0%nat, x)) in Hinv.
  rewrite H in Hinv. cbn [fst snd] in Hinv.
  destruct Hinv as (Hb & _ & Hall & Hfirst).
  - repeat split; cbn [fst snd]; [lia| |].
    + intros j y Hj Hy. assert (j = 0)%nat by lia. subst j. cbn in Hy. inversion Hy; subst. lia.
    + intros j y Hj. lia.
  - intros j. reflexivity.
  - repeat split; [exact Hb| |exact Hfirst].
    intros j y Hy. apply (Hall j y); [|exact Hy].
    assert (j < length (x :: rest))%nat by (apply nth_error_Some; congruence). cbn [length] in *. lia.
Qed.

(* ------------------------------------------------------------------------- *)
(** ** the CRC register is the remainder of the GF(2) polynomial long division *)

Lemma map2_app_ {A B C} (f : A -> B -> C) a1 : forall b1 a2 b2,
  length a1 = length b1 -> map2 f (a1 ++ a2) (b1 ++ b2) = map2 f a1 b1 ++ map2 f a2 b2.
Proof.
  induction a1 as [|x a1 IH]; intros [|y b1] a2 b2 H; cbn in *; try lia; [reflexivity|].
  f_equal. apply IH. lia.
Qed.

Lemma map2_length_ {A B C} (f : A -> B -> C) a : forall b, length a = length b -> length (map2 f a b) = length a.
Proof. induction a as [|x a IH]; intros [|y b] H; cbn in *; try lia. rewrite IH; lia. Qed.

Lemma rev_bxor a : forall b, length a = length b -> rev (bxor a b) = bxor (rev a) (rev b).
Proof.
  unfold bxor. induction a as [|x a IH]; intros [|y b] H; cbn in *; try lia; [reflexivity|].
  rewrite IH by lia. rewrite map2_app_ by (rewrite !rev_length; lia). reflexivity.
Qed.

Lemma bxor_xor_prefix a : forall b, length a = length b -> bxor a b = xor_prefix a b.
Proof. unfold bxor. induction a as [|x a IH]; intros [|y b] H; cbn in *; try lia; [reflexivity|]. rewrite IH by lia. reflexivity. Qed.

Lemma xor_prefix_length a : forall p, length (xor_prefix a p) = length a.
Proof. induction a as [|x a IH]; intros [|y p]; cbn; auto. Qed.

Lemma xor_prefix_snoc_false a : forall p, xor_prefix a (p ++ [false]) = xor_prefix a p.
Proof.
  induction a as [|x a IH]; intros [|y p]; cbn; try reflexivity.
  - rewrite xorb_false_r. destruct a; reflexivity.
  - rewrite IH. reflexivity.
Qed.

Lemma xor_prefix_assoc X : forall s P, length s = length P ->
  xor_prefix (xor_prefix X s) P = xor_prefix X (xor_prefix s P).
Proof.
  induction X as [|x X IH]; intros [|a s] [|p P] H; cbn in *; try lia; try reflexivity.
  rewrite IH by lia. rewrite xorb_assoc. reflexivity.
Qed.

Lemma xor_prefix_zeros R : xor_prefix (repeat false (length R)) R = R.
Proof. induction R as [|y R IH]; cbn; [reflexivity|]. rewrite IH. destruct y; reflexivity. Qed.

(** one update on MSB-first lists *)
Definition step_msb (P R : list bool) (d : bool) : list bool :=
  match R with
  | [] => []
  | m :: t => let s := t ++ [false] in if xorb m d then xor_prefix s P else s
  end.

Lemma step_msb_length P R d : length (step_msb P R d) = length R.
Proof.
  destruct R as [|m t]; [reflexivity|]. cbn [step_msb].
  destruct (xorb m d); rewrite ?xor_prefix_length, app_length; cbn; lia.
Qed.

Lemma crc_step_rev poly reg d :
  length poly = length reg -> reg <> [] ->
  rev (crc_step poly reg d) = step_msb (rev poly) (rev reg) d.
Proof.
  intros Hlen Hne. destruct (exists_last Hne) as (q & m & ->).
  unfold crc_step, cat. rewrite last_last, removelast_last, rev_app_distr. cbn [rev app step_msb].
  rewrite app_length in Hlen. cbn in Hlen.
  destruct (xorb m d); [|reflexivity].
  rewrite rev_bxor by (cbn; lia). cbn [rev].
  apply bxor_xor_prefix. rewrite app_length, !rev_length. cbn. lia.
Qed.

Lemma crc_step_length poly reg d :
  length poly = length reg -> reg <> [] -> length (crc_step poly reg d) = length reg.
Proof.
  intros Hlen Hne. rewrite <- (rev_length (crc_step poly reg d)), crc_step_rev by assumption.
  rewrite step_msb_length, rev_length. reflexivity.
Qed.

Lemma fold_crc_step_rev poly msg : forall reg,
  length poly = length reg -> reg <> [] ->
  rev (fold_left (crc_step poly) msg reg) = fold_left (step_msb (rev poly)) msg (rev reg).
Proof.
  induction msg as [|d msg IH]; intros reg Hlen Hne; [reflexivity|].
  cbn [fold_left]. rewrite IH.
  - rewrite crc_step_rev by assumption. reflexivity.
  - rewrite crc_step_length by assumption. exact Hlen.
  - intros E. apply (f_equal (@length bool)) in E. rewrite crc_step_length in E by assumption.
    destruct reg; [congruence|discriminate].
Qed.

Lemma poly_rem_steps P n : length P = n -> (1 <= n)%nat ->
  forall msg R fuel, length R = n -> (length msg + n <= fuel)%nat ->
  poly_rem_fuel fuel n P (xor_prefix (msg ++ repeat false n) R) = fold_left (step_msb P) msg R.
Proof.
  intros HP Hn. induction msg as [|d msg IH]; intros R fuel HR Hfuel.
  - cbn [app fold_left]. replace (repeat false n) with (repeat false (length R)) by (rewrite HR; reflexivity).
    rewrite xor_prefix_zeros.
    destruct fuel; cbn [poly_rem_fuel]; [reflexivity|].
    destruct (Nat.leb_spec (length R) n); [reflexivity|lia].
  - destruct R as [|m t]; [cbn in HR; lia|]. destruct fuel as [|k]; [cbn in Hfuel; lia|].
    cbn [app xor_prefix poly_rem_fuel fold_left].
    cbn [length]. rewrite xor_prefix_length, app_length, repeat_length.
    destruct (Nat.leb_spec (S (length msg + n)) n); [lia|].
    cbn [length] in HR, Hfuel.
    rewrite <- (IH (step_msb P (m :: t) d) k); [|rewrite step_msb_length; exact HR|lia].
    f_equal. cbn [step_msb]. rewrite (xorb_comm m d).
    rewrite <- (xor_prefix_snoc_false _ t).
    destruct (xorb d m); [|reflexivity].
    apply xor_prefix_assoc. rewrite app_length. cbn. lia.
Qed.

Theorem crc_is_poly_remainder poly init msg :
  length poly = length init -> init <> [] ->
  fold_left (crc_step poly) msg init = crc_spec poly init msg.
Proof.
  intros Hlen Hne. unfold crc_spec, poly_rem.
  rewrite xor_prefix_length, app_length, repeat_length, rev_length.
  rewrite (poly_rem_steps (rev poly) (length poly)).
  - rewrite <- fold_crc_step_rev by assumption. rewrite rev_involutive. reflexivity.
  - apply rev_length.
  - destruct init; [congruence|]. cbn in Hlen. lia.
  - rewrite rev_length. congruence.
  - lia.
Qed.
(* ------------------------------------------------------------------------- *)
(** ** batched: the k-th batch is the slice [k*n, (k+1)*n) *)

Lemma skipn_skipn_ {A} (l : list A) b : forall a l', l' = l -> skipn a (skipn b l') = skipn (b + a) l'.
Proof.
  intros a l' ->. revert l; induction b as [|b IH]; intros l; [reflexivity|].
  destruct l as [|x l]; cbn [skipn plus]; [apply skipn_nil|apply IH].
Qed.

Lemma chunk_count_step len n : (1 <= n)%nat -> (1 <= len)%nat ->
  ((len + n - 1) / n = S ((len - n + n - 1) / n))%nat.
Proof.
  intros Hn Hlen. destruct (Nat.le_gt_cases len n) as [Hle|Hgt].
  - replace (len - n)%nat with 0%nat by lia. cbn [plus].
    rewrite (Nat.div_small (n - 1) n) by lia.
    symmetry. apply (Nat.div_unique (len + n - 1) n 1 (len - 1)); lia.
  - replace (len + n - 1)%nat with ((len - n + n - 1) + 1 * n)%nat by lia.
    rewrite Nat.div_add by lia. lia.
Qed.

Lemma chunks_fuel_index {A} n : (1 <= n)%nat -> forall fuel (l : list A), (length l <= fuel)%nat ->
  chunks_fuel fuel n l = map (fun k => firstn n (skipn (k * n) l)) (seq 0 ((length l + n - 1) / n)).
Proof.
  intros Hn. induction fuel as [|k IH]; intros l Hl.
  - destruct l; [|cbn in Hl; lia]. clear Hl. cbn [length]. assert (Hs : (0 + n - 1 < n)%nat) by lia. rewrite (Nat.div_small _ _ Hs). reflexivity.
  - destruct l as [|a l'].
    + clear Hl. cbn [length chunks_fuel]. assert (Hs : (0 + n - 1 < n)%nat) by lia. rewrite (Nat.div_small _ _ Hs). reflexivity.
    + cbn [chunks_fuel].
      assert (HL : (1 <= length (a :: l') <= S k)%nat) by (cbn [length] in *; lia).
      clear Hl. set (L := a :: l') in *.
      rewrite chunk_count_step by lia.
      cbn [seq map]. f_equal.
      rewrite <- seq_shift, map_map. rewrite IH by (rewrite skipn_length; lia).
      rewrite skipn_length.
      apply map_ext. intros j. rewrite (skipn_skipn_ L n (j * n) L eq_refl). reflexivity.
Qed.

Theorem batched_m_spec input n partial :
  (1 <= n)%nat -> ((length input mod n = 0)%nat \/ partial = true) ->
  batched_m input n partial = Some (batched_spec input n).
Proof.
  intros Hn Hp. unfold batched_m, batched_spec, batch_args.
  destruct (Nat.eqb_spec n 0); [lia|].
  rewrite chunks_fuel_index by lia.
  destruct Hp as [Hm| ->]; [rewrite Hm; reflexivity|rewrite orb_true_r; reflexivity].
Qed.

(* ------------------------------------------------------------------------- *)
(** ** select: the value of the branch whose key equals the argument *)

Theorem select_m_spec {A} arg (branches : list (Z * A)) d :
  select_m arg branches d =
  match find (fun kv : Z * A => (fst kv =? arg)%Z) branches with Some kv => snd kv | None => d end.
Proof.
  induction branches as [|[k v] r IH]; cbn; [reflexivity|].
  destruct (k =? arg)%Z; [reflexivity|exact IH].
Qed.
