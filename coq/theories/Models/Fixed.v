(** * Fixed: executable model of cohdl.std SFixed / UFixed on compile-time constants
    (/repo/cohdl/std/_fixed.py, the tree that contains the C19 fixes) and the
    SPECIFICATION of property C19.

    A fixed point object is [(left, right, raw)] : the format [left:right]
    (width = left - right + 1 >= 1) and the integer read from the underlying
    Signed / Unsigned vector.  The represented number is [raw * 2^right].

    PART 1 (model) follows the code AS WRITTEN, leaf by leaf, including the
    places where it raises: every Python exception is an explicit [Err] value
    carrying the class the harness worker (c19_worker.classify) assigns to it.
    The model goes through the same bit vector primitives as the code
    ([lsb(rest=)], [lsb(n)], [msb(rest=)], [msb(n)], indexing, [.signed],
    [Signed.resize], [+], [==], [Value[T](x)], [choose_first]).

    PART 2 (spec) is the property's own statement on scaled integers: round
    (floor | nearest, ties to even) THEN overflow (wrap | saturate); exact
    results for + - *; numeric equality; value preserving constructors.

    Not modelled: IEEE binary64.  A Python number reaches the model as
    (mantissa, exponent) meaning m * 2^e; [_adjust_val] is exact rational
    arithmetic in the code as well (fractions.Fraction), but the range test
    [self.min() <= val <= self.max()] uses floats for negative exponents, so
    the correspondence only feeds numbers and formats on which those floats
    are exact.  Signals / hardware evaluation of the same methods are not
    modelled either (constants only). *)
From Coq Require Import ZArith List Bool Lia.
Import ListNotations.
Local Open Scope Z_scope.

(* ------------------------------------------------------------------------- *)
(** ** results and errors *)

Inductive err :=
| EIndex      (* "index exceeds vector width"                     BitVector.__getitem__ *)
| ESubvector  (* "invalid subvector width"                        BitVector.left/right  *)
| EWider      (* "cannot initialize T with wider type"            Signed/Unsigned.__init__ *)
| ERange      (* "value outside valid range of fixed point number" *)
| EWidth0     (* "vector width must be positive"                  BitVector[0] *)
| EResize     (* "width of zero extended value exceeds target"    Signed/Unsigned.resize *)
| EAssert.    (* any other AssertionError *)

Inductive res (A : Type) := Ok (a : A) | Err (e : err).
Arguments Ok {A} a.
Arguments Err {A} e.

Definition bind {A B} (x : res A) (f : A -> res B) : res B :=
  match x with Ok a => f a | Err e => Err e end.
Notation "x <- e ;; k" := (bind e (fun x => k))
  (at level 61, e at next level, right associativity).

Inductive kind := SFixed | UFixed.
Inductive rstyle := Truncate | Round.
Inductive ostyle := Wrap | Saturate.

Definition fx := (Z * Z * Z)%type.      (* left, right, raw *)

Definition p2 (k : Z) : Z := 2 ^ k.

(* ------------------------------------------------------------------------- *)
(** ** bit vectors: (width, unsigned representation) *)

Definition vec := (Z * Z)%type.

Definition vw (v : vec) : Z := fst v.
Definition vu (v : vec) : Z := snd v.

(** signed reading, [Signed.to_int] *)
Definition sv (v : vec) : Z :=
  let '(w, u) := v in if u <? p2 (w - 1) then u else u - p2 w.

(** [BitVector.lsb(rest=r)] / [.right(rest=r)] *)
Definition lsbr (v : vec) (rest : Z) : res vec :=
  let '(w, u) := v in let nw := w - rest in
  if (1 <=? nw) && (nw <=? w) then Ok (nw, u mod p2 nw) else Err ESubvector.

(** [BitVector.msb(rest=r)] *)
Definition msbr (v : vec) (rest : Z) : res vec :=
  let '(w, u) := v in let nw := w - rest in
  if (1 <=? nw) && (nw <=? w) then Ok (nw, u / p2 (w - nw)) else Err ESubvector.

(** [BitVector.msb(n)] *)
Definition msbw (v : vec) (nw : Z) : res vec :=
  let '(w, u) := v in
  if (1 <=? nw) && (nw <=? w) then Ok (nw, u / p2 (w - nw)) else Err ESubvector.

(** [BitVector.lsb(n)] *)
Definition lsbw (v : vec) (nw : Z) : res vec :=
  let '(w, u) := v in
  if (1 <=? nw) && (nw <=? w) then Ok (nw, u mod p2 nw) else Err ESubvector.

(** [v[i]] *)
Definition bitz (u i : Z) : bool := (u / p2 i) mod 2 =? 1.
Definition vbit (v : vec) (i : Z) : res bool :=
  let '(w, u) := v in
  if (0 <=? i) && (i <? w) then Ok (bitz u i) else Err EIndex.

Definition all_ones (v : vec) : bool := vu v =? p2 (vw v) - 1.
Definition nonzero (v : vec) : bool := negb (vu v =? 0).

(** [Signed[w](z)] for a Python int z *)
Definition mkS (w z : Z) : res vec :=
  if w <? 1 then Err EWidth0
  else if (- p2 (w - 1) <=? z) && (z <? p2 (w - 1)) then Ok (w, z mod p2 w) else Err EAssert.

Definition mkU (w z : Z) : res vec :=
  if w <? 1 then Err EWidth0
  else if (0 <=? z) && (z <? p2 w) then Ok (w, z) else Err EAssert.

(** [Signed.resize(tw, zeros=z)] (z >= 0 at every call site that gets here) *)
Definition s_resize (v : vec) (tw zeros : Z) : res vec :=
  if vw v + zeros >? tw then Err EResize else mkS tw (sv v * p2 zeros).
Definition u_resize (v : vec) (tw zeros : Z) : res vec :=
  if vw v + zeros >? tw then Err EResize else mkU tw (vu v * p2 zeros).

(** [Signed.__add__]: sign extend to the wider operand, add modulo 2^w *)
Definition s_add (a b : vec) : vec :=
  let w := Z.max (vw a) (vw b) in (w, (sv a + sv b) mod p2 w).
Definition u_add (a b : vec) : vec :=
  let w := Z.max (vw a) (vw b) in (w, (vu a + vu b) mod p2 w).

(** [Signed.__neg__]: width 1 is returned unchanged, otherwise ~x + 1 at the same width *)
Definition s_neg (v : vec) : vec :=
  let '(w, u) := v in if w =? 1 then v else (w, (p2 w - 1 - u + 1) mod p2 w).
Definition u_neg (v : vec) : vec :=
  let '(w, u) := v in (w, (p2 w - 1 - u + 1) mod p2 w).

(** [Value[Signed[tw]](x)] for a Signed x : [Signed.__init__] from a Signed *)
Definition s_conv (tw : Z) (v : vec) : res vec :=
  if vw v >? tw then Err EWider else mkS tw (sv v).
Definition u_conv (tw : Z) (v : vec) : res vec :=
  if vw v >? tw then Err EWider else mkU tw (vu v).

Definition vecS (w raw : Z) : vec := (w, raw mod p2 w).
Definition vecU (w raw : Z) : vec := (w, raw).

Definition min_raw (k : kind) (w : Z) : Z := match k with SFixed => - p2 (w - 1) | UFixed => 0 end.
Definition max_raw (k : kind) (w : Z) : Z := match k with SFixed => p2 (w - 1) - 1 | UFixed => p2 w - 1 end.

(** a well formed object: width >= 1 and raw in the range of the vector type *)
Definition wf (k : kind) (x : fx) : Prop :=
  let '(l, r, raw) := x in 1 <= l - r + 1 /\ min_raw k (l - r + 1) <= raw <= max_raw k (l - r + 1).

Definition wfb (k : kind) (x : fx) : bool :=
  let '(l, r, raw) := x in
  (1 <=? l - r + 1) && (min_raw k (l - r + 1) <=? raw) && (raw <=? max_raw k (l - r + 1)).

(* ------------------------------------------------------------------------- *)
(** ** PART 1: resize_fn as coded (after the C19 fix commits) *)

(** the [do_round] expression, with Python's short circuit evaluation order
    (an index error is raised only if the subexpression is evaluated) *)
Definition do_round (v : vec) (cutoff : Z) : res Z :=
  if cutoff =? 1 then
    b0 <- vbit v 0 ;;
    if b0 then (b1 <- vbit v 1 ;; Ok (if b1 then 1 else 0)) else Ok 0
  else
    b <- vbit v (cutoff - 1) ;;
    if b then
      bc <- vbit v cutoff ;;
      if bc then Ok 1
      else Ok (if vu v mod p2 (cutoff - 1) =? 0 then 0 else 1)   (* self._val[cutoff-2:0] *)
    else Ok 0.

(** [Result(raw=x)]: the raw vector must have exactly the result width *)
Definition fin_s (l r : Z) (x : vec) : res fx :=
  if vw x =? l - r + 1 then Ok (l, r, sv x) else Err EAssert.
Definition fin_u (l r : Z) (x : vec) : res fx :=
  if vw x =? l - r + 1 then Ok (l, r, vu x) else Err EAssert.

(** [choose_first((c1, a), (c2, b), default=d)]: all three values are computed
    by the caller before the selection (errors in them were raised already) *)
Definition choose {A} (c1 : bool) (a : A) (c2 : bool) (b : A) (d : A) : A :=
  if c1 then a else if c2 then b else d.

(** the subtree [if selfleft > left:] of SFixed.resize_fn; [Wt >= 1] and
    [sl > l] hold at both call sites *)
Definition resize_s_gt (x : fx) (l r : Z) (rs : rstyle) (os : ostyle) : res fx :=
  let '(sl, sr, raw) := x in
  let W := sl - sr + 1 in
  let v := vecS W raw in
  let Wt := l - r + 1 in
  let overflow := sl - l in
  match os with
  | Wrap =>
      if sr >=? r then
        let zeros := sr - r in
        if overflow >=? W then z <- mkS Wt 0 ;; fin_s l r z
        else y <- lsbr v overflow ;; z <- s_resize y (vw y + zeros) zeros ;; fin_s l r z
      else
        let cutoff := r - sr in
        match rs with
        | Truncate =>
            y <- lsbr v overflow ;; y <- msbr y cutoff ;; z <- s_conv Wt y ;; fin_s l r z
        | Round =>
            dr <- do_round v cutoff ;;
            y <- lsbr v overflow ;; y <- msbr y cutoff ;;
            (* (x.signed + do_round).lsb(Result._width).signed *)
            y <- lsbw (s_add y (2, dr)) Wt ;;
            z <- s_conv Wt y ;; fin_s l r z
        end
  | Saturate =>
      sign <- vbit v (W - 1) ;;
      flags <- (if overflow >=? W
                then Ok (negb sign && nonzero v, sign)
                else y <- lsbr v 1 ;; ob <- msbw y overflow ;;
                     Ok (negb sign && nonzero ob, sign && negb (all_ones ob))) ;;
      let '(does_overflow, does_underflow) := flags in
      if sr >=? r then
        let zeros := sr - r in
        d <- (if W <=? overflow then mkS Wt 0
              else y <- lsbr v overflow ;; s_resize y Wt zeros) ;;
        mn <- mkS Wt (- p2 (Wt - 1)) ;; mx <- mkS Wt (p2 (Wt - 1) - 1) ;;
        z <- s_conv Wt (choose does_underflow mn does_overflow mx d) ;; fin_s l r z
      else
        let cutoff := r - sr in
        match rs with
        | Truncate =>
            mn <- mkS Wt (- p2 (Wt - 1)) ;; mx <- mkS Wt (p2 (Wt - 1) - 1) ;;
            y <- lsbr v overflow ;; d <- msbr y cutoff ;;
            z <- s_conv Wt (choose does_underflow mn does_overflow mx d) ;; fin_s l r z
        | Round =>
            dr <- do_round v cutoff ;;
            y <- lsbr v overflow ;; truncated <- msbr y cutoff ;;
            mx0 <- mkS Wt (p2 (Wt - 1) - 1) ;;
            (* truncated == Signed[W].max() : Signed.__eq__ compares to_int() *)
            let overflow_or_full := does_overflow || (sv truncated =? sv mx0) in
            mn <- mkS Wt (- p2 (Wt - 1)) ;; mx <- mkS Wt (p2 (Wt - 1) - 1) ;;
            d <- lsbw (s_add truncated (2, dr)) Wt ;;
            z <- s_conv Wt (choose does_underflow mn overflow_or_full mx d) ;; fin_s l r z
        end
  end.

Definition resize_s (x : fx) (l r : Z) (rs : rstyle) (os : ostyle) : res fx :=
  let '(sl, sr, raw) := x in
  let W := sl - sr + 1 in
  let v := vecS W raw in
  if (sl =? l) && (sr =? r) then Ok (l, r, raw)
  else
  let Wt := l - r + 1 in
  if Wt <? 1 then Err EAssert            (* REJECTED BY THE CODE: SFixed[left:right] with left < right *)
  else
  if sl >? l then resize_s_gt x l r rs os
  else
    if sr >=? r then z <- s_resize v Wt (sr - r) ;; fin_s l r z
    else
      (* SFixed[left + 1 : selfright](raw=self._val.resize(left + 2 - selfright)).resize_fn(...):
         the nested call finds selfleft' = left + 1 > left (so neither its identity test
         nor its own [else] branch is reachable) and the same Result class *)
      y <- s_resize v (l + 2 - sr) 0 ;;
      x' <- fin_s (l + 1) sr y ;;
      resize_s_gt x' l r rs os.

Definition resize_u_gt (x : fx) (l r : Z) (rs : rstyle) (os : ostyle) : res fx :=
  let '(sl, sr, raw) := x in
  let W := sl - sr + 1 in
  let v := vecU W raw in
  let Wt := l - r + 1 in
  let overflow := sl - l in
  match os with
  | Wrap =>
      if sr >=? r then
        let zeros := sr - r in
        if overflow >=? W then z <- mkU Wt 0 ;; fin_u l r z
        else y <- lsbr v overflow ;; z <- u_resize y (vw y + zeros) zeros ;; fin_u l r z
      else
        let cutoff := r - sr in
        match rs with
        | Truncate =>
            y <- lsbr v overflow ;; y <- msbr y cutoff ;; z <- u_conv Wt y ;; fin_u l r z
        | Round =>
            dr <- do_round v cutoff ;;
            y <- lsbr v overflow ;; y <- msbr y cutoff ;;
            z <- u_conv Wt (u_add y (1, dr)) ;; fin_u l r z
        end
  | Saturate =>
      ob <- msbw v (Z.min overflow W) ;;
      let does_overflow := nonzero ob in
      if sr >=? r then
        let zeros := sr - r in
        d <- (if W <=? overflow then mkU Wt 0
              else y <- lsbr v overflow ;; u_resize y Wt zeros) ;;
        mx <- mkU Wt (p2 Wt - 1) ;;
        z <- u_conv Wt (if does_overflow then mx else d) ;; fin_u l r z
      else
        let cutoff := r - sr in
        match rs with
        | Truncate =>
            mx <- mkU Wt (p2 Wt - 1) ;;
            y <- lsbr v overflow ;; d <- msbr y cutoff ;;
            z <- u_conv Wt (if does_overflow then mx else d) ;; fin_u l r z
        | Round =>
            dr <- do_round v cutoff ;;
            y <- lsbr v overflow ;; sel <- msbr y cutoff ;;
            let overflow_or_full := does_overflow || all_ones sel in
            mx <- mkU Wt (p2 Wt - 1) ;;
            let d := u_add sel (1, dr) in
            z <- u_conv Wt (if overflow_or_full then mx else d) ;; fin_u l r z
        end
  end.

Definition resize_u (x : fx) (l r : Z) (rs : rstyle) (os : ostyle) : res fx :=
  let '(sl, sr, raw) := x in
  let W := sl - sr + 1 in
  let v := vecU W raw in
  if (sl =? l) && (sr =? r) then Ok (l, r, raw)
  else
  let Wt := l - r + 1 in
  if Wt <? 1 then Err EAssert            (* REJECTED BY THE CODE: UFixed[left:right] with left < right *)
  else
  if sl >? l then resize_u_gt x l r rs os
  else
    if sr >=? r then z <- u_resize v Wt (sr - r) ;; fin_u l r z
    else
      y <- u_resize v (l + 2 - sr) 0 ;;
      x' <- fin_u (l + 1) sr y ;;
      resize_u_gt x' l r rs os.

(** THE model of [resize] as coded, which the correspondence runs against
    (through [run] / [agrees] at the end of this file). *)
Definition resize (k : kind) (x : fx) (l r : Z) (rs : rstyle) (os : ostyle) : res fx :=
  match k with
  | SFixed => resize_s x l r rs os
  | UFixed => resize_u x l r rs os
  end.

(* ------------------------------------------------------------------------- *)
(** ** + - * == and the constructors *)

Definition to_vec (k : kind) (x : fx) : vec :=
  let '(l, r, raw) := x in
  match k with SFixed => vecS (l - r + 1) raw | UFixed => vecU (l - r + 1) raw end.

Definition fin (k : kind) := match k with SFixed => fin_s | UFixed => fin_u end.
Definition k_resize (k : kind) := match k with SFixed => s_resize | UFixed => u_resize end.
Definition k_add (k : kind) := match k with SFixed => s_add | UFixed => u_add end.
Definition k_neg (k : kind) := match k with SFixed => s_neg | UFixed => u_neg end.
Definition k_mk (k : kind) := match k with SFixed => mkS | UFixed => mkU end.
Definition k_val (k : kind) (v : vec) : Z := match k with SFixed => sv v | UFixed => vu v end.

Definition addsub (neg : bool) (k : kind) (a b : fx) : res fx :=
  let '(l1, r1, _) := a in let '(l2, r2, _) := b in
  let tr := Z.min r1 r2 in
  let tl := Z.max l1 l2 + 1 in
  let tw := tl - tr + 1 in
  x <- k_resize k (to_vec k a) tw (r1 - tr) ;;
  y <- k_resize k (to_vec k b) tw (r2 - tr) ;;
  fin k tl tr (k_add k x (if neg then k_neg k y else y)).

Definition add := addsub false.
Definition sub := addsub true.

Definition mul (k : kind) (a b : fx) : res fx :=
  let '(l1, r1, _) := a in let '(l2, r2, _) := b in
  let va := to_vec k a in let vb := to_vec k b in
  z <- k_mk k (vw va + vw vb) (k_val k va * k_val k vb) ;;
  fin k (l1 + l2 + 1) (r1 + r2) z.

(** [a == b] for two fixed point objects: [assert type(other) is type(self)] *)
Definition eq_fx (k : kind) (a b : fx) : res bool :=
  let '(l1, r1, raw1) := a in let '(l2, r2, raw2) := b in
  if (l1 =? l2) && (r1 =? r2) then Ok (raw1 =? raw2) else Err EAssert.

(** [T(val)] for a Python int / float val = m * 2^e (exact, see header) *)
Definition ctor_num (k : kind) (l r m e : Z) : res fx :=
  let W := l - r + 1 in
  if W <? 1 then Err EAssert
  else
    let s := Z.min e r in
    let val := m * p2 (e - s) in
    let unit := p2 (r - s) in
    if (min_raw k W * unit <=? val) && (val <=? max_raw k W * unit)
    then Ok (l, r, Z.quot val unit)              (* int(val / 2**exp) truncates toward zero *)
    else Err ERange.

(** [a == m*2^e]: [_is_exact] first - a number that is not a multiple of 2^right is a value
    of no object of the format, the answer is False without constructing anything;
    otherwise [type(self)(other) == self] (the constructor rejects numbers outside the range) *)
Definition eq_num (k : kind) (a : fx) (m e : Z) : res bool :=
  let '(l, r, raw) := a in
  let s := Z.min e r in
  if (m * p2 (e - s)) mod p2 (r - s) =? 0
  then c <- ctor_num k l r m e ;; eq_fx k c a
  else Ok false.

(** [T(v)] for a Signed (sg = true) or Unsigned vector of width w, value val *)
Definition k_conv (k : kind) := match k with SFixed => s_conv | UFixed => u_conv end.

Definition ctor_vec (k : kind) (l r : Z) (sg : bool) (w val : Z) : res fx :=
  let W := l - r + 1 in
  if W <? 1 then Err EAssert
  else
  let zeros := - r in
  match k, sg with
  | SFixed, true =>
      if zeros <? 0 then Err EAssert
      else y <- s_resize (vecS w val) W zeros ;; z <- s_conv W y ;; fin_s l r z
  | SFixed, false =>
      if zeros <? 0 then Err EAssert
      else y <- u_resize (vecU w val) (W - 1) zeros ;;
           (* Signed[W](Unsigned[W-1]) *)
           z <- (if vw y <? W then mkS W (vu y) else Err EAssert) ;; fin_s l r z
  | UFixed, false =>
      if zeros <? 0 then Err EAssert
      else y <- u_resize (vecU w val) W zeros ;; z <- u_conv W y ;; fin_u l r z
  | UFixed, true => Err EAssert          (* "invalid arg" *)
  end.

(** [T(x)] for another fixed point object of the same class *)
Definition ctor_fix (k : kind) (l r : Z) (x : fx) : res fx :=
  let '(sl, sr, raw) := x in
  let W := l - r + 1 in
  if W <? 1 then Err EAssert
  else if (l =? sl) && (r =? sr) then Ok (l, r, raw)
  else if l <? sl then Err EAssert      (* assert self.left() >= val.left() *)
  else if r >? sr then Err EAssert      (* assert self.right() <= val.right() *)
  else
    y <- k_resize k (to_vec k x) W (sr - r) ;; z <- k_conv k W y ;; fin k l r z.

(* ------------------------------------------------------------------------- *)
(** ** PART 2: the specification (scaled integers; value of (l, r, raw) = raw * 2^r) *)

(** integer part of [raw * 2^(sr - r)] after rounding in the selected style.
    For sr < r write raw = fl * 2^c + rem with 0 <= rem < 2^c, c = r - sr. *)
Definition spec_round (rs : rstyle) (sr r raw : Z) : Z :=
  if sr >=? r then raw * p2 (sr - r)
  else
    let c := r - sr in
    let fl := raw / p2 c in
    let rem := raw mod p2 c in
    match rs with
    | Truncate => fl
    | Round =>
        if 2 * rem <? p2 c then fl
        else if 2 * rem >? p2 c then fl + 1
        else if Z.even fl then fl else fl + 1
    end.

Definition spec_overflow (k : kind) (os : ostyle) (w z : Z) : Z :=
  match os with
  | Wrap => (z - min_raw k w) mod p2 w + min_raw k w
  | Saturate => Z.max (min_raw k w) (Z.min (max_raw k w) z)
  end.

Definition spec_resize (k : kind) (x : fx) (l r : Z) (rs : rstyle) (os : ostyle) : fx :=
  let '(sl, sr, raw) := x in
  (l, r, spec_overflow k os (l - r + 1) (spec_round rs sr r raw)).

(** the value of x in units of 2^s (s <= right x) *)
Definition scaled (x : fx) (s : Z) : Z := let '(l, r, raw) := x in raw * p2 (r - s).

(* ------------------------------------------------------------------------- *)
(** ** one entry point for the generated case files *)

Inductive op :=
| OResize (k : kind) (sl sr raw l r : Z) (rs : rstyle) (os : ostyle)
| OAdd (k : kind) (l1 r1 raw1 l2 r2 raw2 : Z)
| OSub (k : kind) (l1 r1 raw1 l2 r2 raw2 : Z)
| OMul (k : kind) (l1 r1 raw1 l2 r2 raw2 : Z)
| OEq (k : kind) (l1 r1 raw1 l2 r2 raw2 : Z)
| OEqNum (k : kind) (l r raw m e : Z)
| OCtorNum (k : kind) (l r m e : Z)
| OCtorVec (k : kind) (l r : Z) (sg : bool) (w val : Z)
| OCtorFix (k : kind) (l r sl sr raw : Z).

Inductive out := VFix (l r raw : Z) | VBool (b : bool) | VErr (e : err).

Definition out_fx (x : res fx) : out :=
  match x with Ok (l, r, raw) => VFix l r raw | Err e => VErr e end.
Definition out_bool (x : res bool) : out :=
  match x with Ok b => VBool b | Err e => VErr e end.

Definition run (o : op) : out :=
  match o with
  | OResize k sl sr raw l r rs os => out_fx (resize k (sl, sr, raw) l r rs os)
  | OAdd k l1 r1 a l2 r2 b => out_fx (add k (l1, r1, a) (l2, r2, b))
  | OSub k l1 r1 a l2 r2 b => out_fx (sub k (l1, r1, a) (l2, r2, b))
  | OMul k l1 r1 a l2 r2 b => out_fx (mul k (l1, r1, a) (l2, r2, b))
  | OEq k l1 r1 a l2 r2 b => out_bool (eq_fx k (l1, r1, a) (l2, r2, b))
  | OEqNum k l r raw m e => out_bool (eq_num k (l, r, raw) m e)
  | OCtorNum k l r m e => out_fx (ctor_num k l r m e)
  | OCtorVec k l r sg w val => out_fx (ctor_vec k l r sg w val)
  | OCtorFix k l r sl sr raw => out_fx (ctor_fix k l r (sl, sr, raw))
  end.

Definition err_eqb (a b : err) : bool :=
  match a, b with
  | EIndex, EIndex | ESubvector, ESubvector | EWider, EWider | ERange, ERange
  | EWidth0, EWidth0 | EResize, EResize | EAssert, EAssert => true
  | _, _ => false
  end.

Definition out_eqb (a b : out) : bool :=
  match a, b with
  | VFix l r x, VFix l' r' x' => (l =? l') && (r =? r') && (x =? x')
  | VBool p, VBool q => Bool.eqb p q
  | VErr e, VErr e' => err_eqb e e'
  | _, _ => false
  end.

(** a generated case: the operation and the result recorded from the real code *)
Definition agrees (c : op * out) : bool := out_eqb (run (fst c)) (snd c).
