(** * SerProofs: width, round-trip and layout laws of the serialisation model [Ser] *)
From Coq Require Import ZArith NArith List Bool Lia Arith.
From Cohdl Require Import Base.Bits Models.Ser.
Import ListNotations.

(** ** lists *)
Lemma concat_msb_rev (l : list (list bool)) : concat_msb (rev l) = concat l.
Proof.
  unfold concat_msb.
  enough (H : forall acc, fold_right (fun p a => a ++ p) acc (rev l) = acc ++ concat l) by apply (H []).
  induction l as [|a l IH]; intros acc; cbn [rev concat].
  - cbn. now rewrite app_nil_r.
  - rewrite fold_right_app. cbn [fold_right]. rewrite IH. now rewrite app_assoc.
Qed.

Lemma to_bits_carr es : to_bits (VCArr es) = concat (map to_bits es).
Proof. cbn [to_bits]. apply concat_msb_rev. Qed.

Lemma to_bits_rec xs : to_bits (VRec xs) = concat (map to_bits xs).
Proof. cbn [to_bits]. apply concat_msb_rev. Qed.

Lemma to_bits_sarr cs : to_bits (VSArr (VCArr cs)) = concat (map to_bits cs).
Proof. cbn [to_bits]. apply concat_msb_rev. Qed.

Lemma skipn_app_len {A} (a l : list A) : skipn (length a) (a ++ l) = l.
Proof. induction a; cbn; auto. Qed.

Lemma firstn_app_len {A} (a l : list A) : firstn (length a) (a ++ l) = a.
Proof. induction a; cbn; [now destruct l|]. now f_equal. Qed.

Lemma skipn_add {A} (a c : nat) (l : list A) : skipn (a + c) l = skipn c (skipn a l).
Proof.
  revert l; induction a as [|a IH]; intros l; [reflexivity|].
  destruct l; cbn [Nat.add skipn]; [now destruct c|]. apply IH.
Qed.

Lemma firstn_add {A} (a c : nat) (l : list A) : firstn (a + c) l = firstn a l ++ firstn c (skipn a l).
Proof.
  revert l; induction a as [|a IH]; intros l; [reflexivity|].
  destruct l; cbn [Nat.add firstn skipn app]; [now destruct c|]. now rewrite IH.
Qed.

Lemma slice_app_mid (pre mid post : list bool) :
  slice (pre ++ mid ++ post) (length pre) (length mid) = mid.
Proof. unfold slice. rewrite skipn_app_len. apply firstn_app_len. Qed.

Lemma slice_app_mid' (pre mid post : list bool) lo w :
  lo = length pre -> w = length mid -> slice (pre ++ mid ++ post) lo w = mid.
Proof. intros -> ->. apply slice_app_mid. Qed.

Lemma slice_length b lo w : lo + w <= length b -> length (slice b lo w) = w.
Proof. intros H. unfold slice. rewrite firstn_length, skipn_length. lia. Qed.

Lemma slice_split b lo a c : slice b lo (a + c) = slice b lo a ++ slice b (lo + a) c.
Proof. unfold slice. rewrite firstn_add. f_equal. now rewrite skipn_add. Qed.

Lemma slice_all (b : list bool) n : n = length b -> slice b 0 n = b.
Proof. intros ->. unfold slice. cbn [skipn]. apply firstn_all. Qed.

Lemma slice_zero b lo : slice b lo 0 = [].
Proof. reflexivity. Qed.

Lemma slice_app_skip (a l : list bool) lo w : slice (a ++ l) (length a + lo) w = slice l lo w.
Proof. unfold slice. rewrite skipn_add. now rewrite skipn_app_len. Qed.

Lemma length_concat_const {A} (f : A -> list bool) (l : list A) w :
  (forall x, In x l -> length (f x) = w) -> length (concat (map f l)) = length l * w.
Proof.
  induction l as [|a l IH]; intros H; cbn; [reflexivity|].
  rewrite app_length, IH by (intros; apply H; cbn; auto).
  rewrite (H a) by (cbn; auto). reflexivity.
Qed.

Lemma forallb_In {A} (p : A -> bool) l : forallb p l = true -> forall x, In x l -> p x = true.
Proof. intros H x Hx. rewrite forallb_forall in H. auto. Qed.

(** ** bit lists and numbers *)
Lemma bits_of_Z_mod n v : bits_to_Z (Z_to_bits n v) = (v mod 2 ^ Z.of_nat n)%Z.
Proof.
  revert v; induction n as [|n IH]; intros v.
  - cbn. now rewrite Z.mod_1_r.
  - cbn [Z_to_bits bits_to_Z]. rewrite IH.
    rewrite Nat2Z.inj_succ, Z.pow_succ_r by lia.
    assert (0 < 2 ^ Z.of_nat n)%Z by (apply Z.pow_pos_nonneg; lia).
    rewrite Z.rem_mul_r by lia. rewrite Zmod_odd. reflexivity.
Qed.

Lemma pow2_nat n : pow2 (N.of_nat n) = (2 ^ Z.of_nat n)%Z.
Proof. unfold pow2. now rewrite nat_N_Z. Qed.

Lemma pow2_nat_pred n : n <> 0 -> pow2 (N.of_nat n - 1) = (2 ^ (Z.of_nat n - 1))%Z.
Proof. intros H. unfold pow2. f_equal. lia. Qed.

Lemma unsigned_val n v : wf_unsigned n v = true -> bits_to_Z (Z_to_bits n v) = v.
Proof.
  unfold wf_unsigned. intros H. apply andb_prop in H as [H1 H2].
  apply Z_bits_Z. lia.
Qed.

Lemma unsigned_bits n b : length b = n ->
  Z_to_bits n (bits_to_Z b) = b /\ wf_unsigned n (bits_to_Z b) = true.
Proof.
  intros <-. split; [apply bits_Z_bits|].
  pose proof (bits_to_Z_range b). unfold wf_unsigned. apply andb_true_intro. split; lia.
Qed.

Lemma signed_val n v : wf_signed n v = true -> signed n (bits_to_Z (Z_to_bits n v)) = v.
Proof.
  unfold wf_signed, signed. intros H. destruct (Nat.eqb_spec n 0) as [->|Hn].
  - apply Z.eqb_eq in H. subst v. reflexivity.
  - apply andb_prop in H as [H1 H2].
    rewrite bits_of_Z_mod, <- pow2_nat. change (?v mod pow2 ?w)%Z with (wrap w v).
    apply sval_wrap; [lia|]. rewrite pow2_nat_pred by exact Hn. lia.
Qed.

Lemma signed_bits n b : length b = n ->
  Z_to_bits n (signed n (bits_to_Z b)) = b /\ wf_signed n (signed n (bits_to_Z b)) = true.
Proof.
  intros Hl. unfold signed, wf_signed. destruct (Nat.eqb_spec n 0) as [->|Hn].
  - destruct b; [|discriminate]. cbn. split; reflexivity.
  - pose proof (bits_to_Z_range b) as Hr. rewrite Hl, <- pow2_nat in Hr.
    set (z := bits_to_Z b) in *. set (w := N.of_nat n) in *.
    assert (Hw : (0 < w)%N) by lia.
    pose proof (sval_range w z Hw Hr) as Hs.
    pose proof (wrap_sval w z Hr) as Hws.
    split.
    + set (s := Bits.sval w z) in *.
      assert (E : bits_to_Z (Z_to_bits n s) = z).
      { rewrite bits_of_Z_mod, <- pow2_nat. exact Hws. }
      rewrite <- (bits_Z_bits (Z_to_bits n s)). rewrite Z_to_bits_length, E.
      unfold z. rewrite <- Hl. apply bits_Z_bits.
    + subst w. rewrite pow2_nat_pred in Hs by exact Hn.
      apply andb_true_intro. split; [apply Z.leb_le|apply Z.ltb_lt]; lia.
Qed.

(** ** arrays: generic lemmas about [from_bits_arr] *)
Lemma fba_val (f : list bool -> option sval) (g : sval -> sval) w cs :
  (forall c, In c cs -> length (to_bits c) = w /\ exists x, f (to_bits c) = Some x /\ g x = c) ->
  forall pre post idx, length pre = w * idx ->
  exists xs, from_bits_arr f w (length cs) idx (pre ++ concat (map to_bits cs) ++ post) = Some xs
             /\ map g xs = cs.
Proof.
  induction cs as [|c cs IH]; intros H pre post idx Hp.
  - exists []. split; reflexivity.
  - destruct (H c (or_introl eq_refl)) as [Hl [x [Hf Hg]]].
    cbn [length from_bits_arr map concat].
    rewrite <- app_assoc.
    rewrite (slice_app_mid' pre (to_bits c) (concat (map to_bits cs) ++ post)) by lia.
    rewrite Hf.
    destruct (IH (fun c' Hc' => H c' (or_intror Hc')) (pre ++ to_bits c) post (S idx)) as [xs [Hx Hm]].
    { rewrite app_length. lia. }
    rewrite <- app_assoc in Hx. rewrite Hx.
    exists (x :: xs). split; [reflexivity|]. cbn. now rewrite Hg, Hm.
Qed.

Lemma fba_bits (f : list bool -> option sval) w (P : sval -> Prop) :
  (forall b, length b = w -> exists x, f b = Some x /\ to_bits x = b /\ P x) ->
  forall k idx b, w * (idx + k) <= length b ->
  exists xs, from_bits_arr f w k idx b = Some xs
             /\ concat (map to_bits xs) = slice b (w * idx) (w * k)
             /\ Forall P xs /\ length xs = k.
Proof.
  intros Hf. induction k as [|k IH]; intros idx b Hb.
  - exists []. rewrite Nat.mul_0_r. repeat split; constructor.
  - cbn [from_bits_arr].
    destruct (Hf (slice b (w * idx) w)) as [x [Hx [Hbx Px]]]; [apply slice_length; lia|].
    destruct (IH (S idx) b) as [xs [Hxs [Hc [HP Hl]]]]; [lia|].
    rewrite Hx, Hxs. exists (x :: xs). split; [reflexivity|]. split; [|split; [constructor; auto|cbn; lia]].
    cbn [map concat]. rewrite Hbx, Hc.
    replace (w * S k) with (w + w * k) by lia. rewrite slice_split. f_equal. f_equal. lia.
Qed.

(** ** std.Array storage *)
Definition P_width (t : sty) := forall x, wf t x = true -> length (to_bits x) = count_bits t.
Definition P_val (t : sty) := forall x, wf t x = true -> from_bits t (to_bits x) = Some x.
Definition P_bits (t : sty) := forall b, length b = count_bits t ->
  exists x, from_bits t b = Some x /\ to_bits x = b /\ wf t x = true.
Definition P (t : sty) := P_width t /\ P_val t /\ P_bits t.

Definition Q_width (fs : fields) := forall xs, wf_fields fs xs = true ->
  length (concat (map to_bits xs)) = fields_bits fs.
Definition Q_val (fs : fields) := forall xs, wf_fields fs xs = true -> forall pre post,
  from_bits_fields fs (length pre) (pre ++ concat (map to_bits xs) ++ post) = Some xs.
Definition Q_bits (fs : fields) := forall b off, off + fields_bits fs <= length b ->
  exists xs, from_bits_fields fs off b = Some xs
             /\ concat (map to_bits xs) = slice b off (fields_bits fs) /\ wf_fields fs xs = true.
Definition Q (fs : fields) := Q_width fs /\ Q_val fs /\ Q_bits fs.

Ltac none_kind e := destruct e; try discriminate.

Lemma wf_under_carr a k c : wf_under (TCArr a k) c = wf (TCArr a k) c.
Proof. destruct c; reflexivity. Qed.

Lemma wf_under_sarr e m c : wf_under (TSArr e m) c = wf (TSArr e m) (VSArr c).
Proof. destruct c; reflexivity. Qed.

Lemma under_width e : P e -> forall c, wf_under e c = true -> length (to_bits c) = count_bits e.
Proof.
  intros [HW _] c H.
  destruct e;
    try (destruct c; try discriminate; cbn in H; apply Nat.eqb_eq in H; exact H).
  - rewrite wf_under_carr in H. apply HW, H.
  - rewrite wf_under_sarr in H. apply (HW (VSArr c)), H.
Qed.

(** the stored element determines the element value: get_elem after construction *)
Lemma under_val e : P e -> forall c, wf_under e c = true ->
  exists x, from_bits e (to_bits c) = Some x /\ conv e x = c.
Proof.
  intros [_ [HV HB]] c H.
  destruct e;
    try (destruct c as [| |bs| | | | | | | | |]; try discriminate; cbn in H; apply Nat.eqb_eq in H;
         destruct (HB bs H) as [x [Hx [Hb _]]]; exists x; split; [exact Hx|]; cbn [conv]; now rewrite Hb).
  - rewrite wf_under_carr in H. exists c. split; [apply HV, H|reflexivity].
  - rewrite wf_under_sarr in H. exists (VSArr c). split; [apply (HV (VSArr c)), H|reflexivity].
Qed.

Lemma conv_bits e x : wf e x = true -> to_bits (conv e x) = to_bits x.
Proof.
  intros H. destruct e; try reflexivity.
  destruct x; try discriminate. reflexivity.
Qed.

Lemma conv_wf e : P e -> forall x, wf e x = true -> wf_under e (conv e x) = true.
Proof.
  intros [HW _] x H.
  destruct e; try (cbn [conv wf_under to_bits]; apply Nat.eqb_eq; apply (HW x H)).
  - cbn [conv]. now rewrite wf_under_carr.
  - destruct x; try discriminate. cbn [conv]. now rewrite wf_under_sarr.
Qed.

(** ** the main induction *)
Lemma wf_arr_split (p : sval -> bool) es n :
  (length es =? n) && forallb p es = true -> length es = n /\ forall x, In x es -> p x = true.
Proof.
  intros H. apply andb_prop in H as [H1 H2]. apply Nat.eqb_eq in H1. split; [exact H1|].
  apply forallb_In, H2.
Qed.

Lemma Forall_forallb (p : sval -> bool) xs : Forall (fun x => p x = true) xs -> forallb p xs = true.
Proof. induction 1; cbn; [reflexivity|]. now rewrite H, IHForall. Qed.

Theorem ser_laws : (forall t, P t) /\ (forall fs, Q fs).
Proof.
  apply sty_fields_ind.
  - (* TBit *)
    split; [|split].
    + intros x H. destruct x; try discriminate. reflexivity.
    + intros x H. destruct x; try discriminate. reflexivity.
    + intros b H. destruct b as [|x [|]]; try discriminate. exists (VBit x). repeat split.
  - (* TBool *)
    split; [|split].
    + intros x H. destruct x; try discriminate. reflexivity.
    + intros x H. destruct x; try discriminate. reflexivity.
    + intros b H. destruct b as [|x [|]]; try discriminate. exists (VBool x). repeat split.
  - (* TBV *)
    intros n. split; [|split].
    + intros x H. destruct x; try discriminate. cbn in *. now apply Nat.eqb_eq.
    + intros x H. destruct x; try discriminate. cbn in *. now rewrite H.
    + intros b H. cbn in H. exists (VBV b). cbn. rewrite H, Nat.eqb_refl. repeat split.
  - (* TU *)
    intros n. split; [|split].
    + intros x H. destruct x; try discriminate. cbn in *. apply andb_prop in H as [H _].
      apply Nat.eqb_eq in H. subst. apply Z_to_bits_length.
    + intros x H. destruct x; try discriminate. cbn in *. apply andb_prop in H as [H1 H2].
      apply Nat.eqb_eq in H1. subst. rewrite Z_to_bits_length, Nat.eqb_refl.
      now rewrite unsigned_val.
    + intros b H. cbn in H. destruct (unsigned_bits n b H) as [E1 E2].
      exists (VU n (bits_to_Z b)). cbn. rewrite H, Nat.eqb_refl, E1, E2. repeat split.
  - (* TS *)
    intros n. split; [|split].
    + intros x H. destruct x; try discriminate. cbn in *. apply andb_prop in H as [H _].
      apply Nat.eqb_eq in H. subst. apply Z_to_bits_length.
    + intros x H. destruct x; try discriminate. cbn in *. apply andb_prop in H as [H1 H2].
      apply Nat.eqb_eq in H1. subst. rewrite Z_to_bits_length, Nat.eqb_refl.
      now rewrite signed_val.
    + intros b H. cbn in H. destruct (signed_bits n b H) as [E1 E2].
      exists (VS n (signed n (bits_to_Z b))). cbn. rewrite H, Nat.eqb_refl, E1, E2. repeat split.
  - (* TCArr *)
    intros e IHe n. destruct IHe as [HW [HV HB]].
    assert (W : P_width (TCArr e n)).
    { intros x H. destruct x; try discriminate. cbn [wf] in H.
      apply wf_arr_split in H as [Hl Hall]. rewrite to_bits_carr. cbn [count_bits].
      rewrite (length_concat_const to_bits es (count_bits e)); [now rewrite Hl|].
      intros y Hy. apply HW, Hall, Hy. }
    split; [exact W|split].
    + intros x H. pose proof (W x H) as Hlen. destruct x; try discriminate. cbn [wf] in H.
      apply wf_arr_split in H as [Hl Hall].
      cbn [from_bits]. rewrite Hlen. cbn [count_bits]. rewrite Nat.eqb_refl.
      rewrite to_bits_carr.
      destruct (fba_val (from_bits e) (fun x => x) (count_bits e) es) with (pre := @nil bool) (post := @nil bool) (idx := 0)
        as [xs [Hx Hm]].
      { intros c Hc. split; [apply HW, Hall, Hc|]. exists c. split; [apply HV, Hall, Hc|reflexivity]. }
      { cbn. lia. }
      rewrite map_id in Hm. subst xs. cbn [app] in Hx. rewrite app_nil_r, Hl in Hx. rewrite Hx. reflexivity.
    + intros b H. cbn [count_bits] in H.
      destruct (fba_bits (from_bits e) (count_bits e) (fun x => wf e x = true) HB n 0 b) as [xs [Hx [Hc [HP Hl]]]]; [lia|].
      exists (VCArr xs). cbn [from_bits]. rewrite H, Nat.eqb_refl, Hx. split; [reflexivity|].
      rewrite to_bits_carr, Hc. rewrite Nat.mul_0_r. split; [apply slice_all; lia|].
      cbn [wf]. rewrite Hl, Nat.eqb_refl. cbn. now apply Forall_forallb.
  - (* TSArr *)
    intros e IHe n. pose proof IHe as [HW [HV HB]].
    assert (W : P_width (TSArr e n)).
    { intros x H. destruct x; try discriminate. destruct x; try discriminate. cbn [wf] in H.
      apply wf_arr_split in H as [Hl Hall]. rewrite to_bits_sarr.
      cbn [count_bits].
      rewrite (length_concat_const to_bits es (count_bits e)); [now rewrite Hl|].
      intros y Hy. apply (under_width e IHe), Hall, Hy. }
    split; [exact W|split].
    + intros x H. pose proof (W x H) as Hlen. destruct x; try discriminate. destruct x; try discriminate.
      cbn [wf] in H. apply wf_arr_split in H as [Hl Hall].
      cbn [from_bits]. rewrite Hlen. cbn [count_bits]. rewrite Nat.eqb_refl.
      rewrite to_bits_sarr.
      destruct (fba_val (from_bits e) (conv e) (count_bits e) es) with (pre := @nil bool) (post := @nil bool) (idx := 0)
        as [xs [Hx Hm]].
      { intros c Hc. split; [apply (under_width e IHe), Hall, Hc|]. apply (under_val e IHe), Hall, Hc. }
      { cbn. lia. }
      cbn [app] in Hx. rewrite app_nil_r, Hl in Hx. rewrite Hx. cbn [option_map]. unfold sarr_make. now rewrite Hm.
    + intros b H. cbn [count_bits] in H.
      destruct (fba_bits (from_bits e) (count_bits e) (fun x => wf e x = true) HB n 0 b) as [xs [Hx [Hc [HP Hl]]]]; [lia|].
      exists (sarr_make e xs). cbn [from_bits]. rewrite H, Nat.eqb_refl, Hx. split; [reflexivity|].
      unfold sarr_make. rewrite to_bits_sarr.
      rewrite map_map. rewrite Forall_forall in HP.
      rewrite (map_ext_in _ to_bits) by (intros a Ha; apply conv_bits, HP, Ha).
      rewrite Hc, Nat.mul_0_r. split; [apply slice_all; lia|].
      cbn [wf]. rewrite map_length, Hl, Nat.eqb_refl. cbn [andb].
      rewrite forallb_forall. intros c Hc'. apply in_map_iff in Hc' as [x [<- Hx']].
      apply (conv_wf e IHe), HP, Hx'.
  - (* TRec *)
    intros fs [QW [QV QB]]. split; [|split].
    + intros x H. destruct x; try discriminate. rewrite to_bits_rec. apply QW, H.
    + intros x H. destruct x; try discriminate. cbn [wf] in H. pose proof (QW xs H) as Hw.
      cbn [from_bits]. rewrite to_bits_rec, Hw, Nat.eqb_refl.
      pose proof (QV xs H [] []) as E. cbn [app length] in E. rewrite app_nil_r in E. now rewrite E.
    + intros b H. cbn [count_bits] in H. destruct (QB b 0) as [xs [Hx [Hc Hwf]]]; [lia|].
      exists (VRec xs). cbn [from_bits]. rewrite H, Nat.eqb_refl, Hx. split; [reflexivity|].
      rewrite to_bits_rec, Hc. split; [apply slice_all; lia|exact Hwf].
  - (* TEnum *)
    intros u [HW [HV HB]]. split; [|split].
    + intros x H. destruct x; try discriminate. apply (HW x H).
    + intros x H. destruct x; try discriminate. cbn [wf] in H. cbn [from_bits to_bits].
      rewrite (HW x H), Nat.eqb_refl, (HV x H). reflexivity.
    + intros b H. cbn [count_bits] in H. destruct (HB b H) as [x [Hx [Hb Hwf]]].
      exists (VEnum x). cbn [from_bits]. rewrite H, Nat.eqb_refl, Hx. repeat split; assumption.
  - (* TSFix *)
    intros l r. split; [|split].
    + intros x H. destruct x; try discriminate. cbn in H.
      apply andb_prop in H as [H _]. apply andb_prop in H as [H1 H2].
      apply Z.eqb_eq in H1, H2. subst. cbn [to_bits count_bits]. apply Z_to_bits_length.
    + intros x H. destruct x; try discriminate. cbn in H.
      apply andb_prop in H as [H H3]. apply andb_prop in H as [H1 H2].
      apply Z.eqb_eq in H1, H2. subst. cbn [to_bits from_bits]. rewrite Z_to_bits_length, Nat.eqb_refl.
      now rewrite signed_val.
    + intros b H. cbn [count_bits] in H. destruct (signed_bits (fixw l r) b H) as [E1 E2].
      exists (VSFix l r (signed (fixw l r) (bits_to_Z b))). cbn [from_bits to_bits wf].
      rewrite H, Nat.eqb_refl, E1, E2, !Z.eqb_refl. repeat split.
  - (* TUFix *)
    intros l r. split; [|split].
    + intros x H. destruct x; try discriminate. cbn in H.
      apply andb_prop in H as [H _]. apply andb_prop in H as [H1 H2].
      apply Z.eqb_eq in H1, H2. subst. cbn [to_bits count_bits]. apply Z_to_bits_length.
    + intros x H. destruct x; try discriminate. cbn in H.
      apply andb_prop in H as [H H3]. apply andb_prop in H as [H1 H2].
      apply Z.eqb_eq in H1, H2. subst. cbn [to_bits from_bits]. rewrite Z_to_bits_length, Nat.eqb_refl.
      now rewrite unsigned_val.
    + intros b H. cbn [count_bits] in H. destruct (unsigned_bits (fixw l r) b H) as [E1 E2].
      exists (VUFix l r (bits_to_Z b)). cbn [from_bits to_bits wf].
      rewrite H, Nat.eqb_refl, E1, E2, !Z.eqb_refl. repeat split.
  - (* TBF *)
    intros n. split; [|split].
    + intros x H. destruct x; try discriminate. cbn in *. now apply Nat.eqb_eq.
    + intros x H. destruct x; try discriminate. cbn in *. now rewrite H.
    + intros b H. cbn in H. exists (VBF b). cbn. rewrite H, Nat.eqb_refl. repeat split.
  - (* FNil *)
    split; [|split].
    + intros xs H. destruct xs; [reflexivity|discriminate].
    + intros xs H pre post. destruct xs; [reflexivity|discriminate].
    + intros b off H. exists []. repeat split.
  - (* FCons *)
    intros t [HW [HV HB]] r [QW [QV QB]]. split; [|split].
    + intros xs H. destruct xs as [|x xs]; [discriminate|]. cbn [wf_fields] in H.
      apply andb_prop in H as [H1 H2]. cbn [map concat fields_bits]. rewrite app_length, (HW x H1), (QW xs H2). reflexivity.
    + intros xs H pre post. destruct xs as [|x xs]; [discriminate|]. cbn [wf_fields] in H.
      apply andb_prop in H as [H1 H2]. cbn [map concat from_bits_fields].
      rewrite <- app_assoc.
      rewrite (slice_app_mid' pre (to_bits x) (concat (map to_bits xs) ++ post)) by (rewrite ?(HW x H1); reflexivity).
      rewrite (HV x H1).
      pose proof (QV xs H2 (pre ++ to_bits x) post) as E.
      rewrite app_length, (HW x H1), <- app_assoc in E. rewrite E. reflexivity.
    + intros b off H. cbn [fields_bits] in H. cbn [from_bits_fields].
      destruct (HB (slice b off (count_bits t))) as [x [Hx [Hb Hwf]]]; [apply slice_length; lia|].
      destruct (QB b (off + count_bits t)) as [xs [Hxs [Hc Hwfs]]]; [lia|].
      exists (x :: xs). rewrite Hx, Hxs. split; [reflexivity|]. split.
      * cbn [map concat fields_bits]. rewrite Hb, Hc. now rewrite slice_split.
      * cbn [wf_fields]. now rewrite Hwf, Hwfs.
Qed.

Theorem ser_width t x : wf t x = true -> length (to_bits x) = count_bits t.
Proof. apply (proj1 ser_laws t). Qed.

Theorem ser_roundtrip_val t x : wf t x = true -> from_bits t (to_bits x) = Some x.
Proof. apply (proj1 ser_laws t). Qed.

Theorem ser_roundtrip_bits t b : length b = count_bits t ->
  exists x, from_bits t b = Some x /\ to_bits x = b /\ wf t x = true.
Proof. apply (proj1 ser_laws t). Qed.

(** to_bits is injective on the values of a type *)
Corollary to_bits_inj t x y : wf t x = true -> wf t y = true -> to_bits x = to_bits y -> x = y.
Proof.
  intros Hx Hy E. pose proof (ser_roundtrip_val t x Hx) as A. pose proof (ser_roundtrip_val t y Hy) as B.
  rewrite E in A. congruence.
Qed.

(** ** layout: first field / element 0 at the least significant bits *)
Lemma layout_fields fs : forall xs i x t', wf_fields fs xs = true ->
  nth_error xs i = Some x -> field_ty fs i = Some t' ->
  slice (concat (map to_bits xs)) (field_off fs i) (count_bits t') = to_bits x /\ wf t' x = true.
Proof.
  induction fs as [|t r IH]; intros xs i x t' H Hn Ht.
  - destruct i; discriminate.
  - destruct xs as [|x0 xs]; [discriminate|]. cbn [wf_fields] in H. apply andb_prop in H as [H1 H2].
    cbn [map concat]. destruct i as [|j].
    + cbn in Hn, Ht. injection Hn as <-. injection Ht as <-. split; [|exact H1].
      cbn [field_off]. apply (slice_app_mid' [] (to_bits x0) (concat (map to_bits xs))); [reflexivity|].
      symmetry. apply ser_width, H1.
    + cbn [nth_error field_ty field_off] in *.
      destruct (IH xs j x t' H2 Hn Ht) as [E Hw]. split; [|exact Hw].
      rewrite <- (ser_width t x0 H1). rewrite slice_app_skip. exact E.
Qed.

Lemma layout_from_fields fs : forall off b xs i x t', from_bits_fields fs off b = Some xs ->
  nth_error xs i = Some x -> field_ty fs i = Some t' ->
  from_bits t' (slice b (off + field_off fs i) (count_bits t')) = Some x.
Proof.
  induction fs as [|t r IH]; intros off b xs i x t' H Hn Ht.
  - destruct i; discriminate.
  - cbn [from_bits_fields] in H.
    destruct (from_bits t (slice b off (count_bits t))) as [x0|] eqn:E0; [|discriminate].
    destruct (from_bits_fields r (off + count_bits t) b) as [xs'|] eqn:E1; [|discriminate].
    injection H as <-. destruct i as [|j].
    + cbn in Hn, Ht. injection Hn as <-. injection Ht as <-. cbn [field_off]. now rewrite Nat.add_0_r.
    + cbn [nth_error field_ty field_off] in *. rewrite Nat.add_assoc. eapply IH; eauto.
Qed.

Lemma layout_arr es w : (forall x, In x es -> length (to_bits x) = w) ->
  forall j x, nth_error es j = Some x -> slice (concat (map to_bits es)) (j * w) w = to_bits x.
Proof.
  induction es as [|a es IH]; intros H j x Hn; [destruct j; discriminate|].
  cbn [map concat]. destruct j as [|j].
  - cbn in Hn. injection Hn as <-.
    apply (slice_app_mid' [] (to_bits a) (concat (map to_bits es))); [reflexivity|].
    symmetry. apply H. now left.
  - cbn [nth_error] in Hn. cbn [Nat.mul]. rewrite <- (H a (or_introl eq_refl)) at 1.
    rewrite slice_app_skip. apply IH; [intros y Hy; apply H; now right|exact Hn].
Qed.

Lemma layout_from_arr f w : forall k idx b xs j x, from_bits_arr f w k idx b = Some xs ->
  nth_error xs j = Some x -> f (slice b (w * (idx + j)) w) = Some x.
Proof.
  induction k as [|k IH]; intros idx b xs j x H Hn.
  - cbn in H. injection H as <-. destruct j; discriminate.
  - cbn [from_bits_arr] in H.
    destruct (f (slice b (w * idx) w)) as [x0|] eqn:E0; [|discriminate].
    destruct (from_bits_arr f w k (S idx) b) as [xs'|] eqn:E1; [|discriminate].
    injection H as <-. destruct j as [|j].
    + cbn in Hn. injection Hn as <-. now rewrite Nat.add_0_r.
    + cbn [nth_error] in Hn. replace (idx + S j) with (S idx + j) by lia. eapply IH; eauto.
Qed.

Theorem layout_record fs xs i x t' : wf (TRec fs) (VRec xs) = true ->
  nth_error xs i = Some x -> field_ty fs i = Some t' ->
  slice (to_bits (VRec xs)) (field_off fs i) (count_bits t') = to_bits x.
Proof. intros H Hn Ht. rewrite to_bits_rec. eapply layout_fields; eauto. Qed.

Theorem layout_record_from fs b xs i x t' : from_bits (TRec fs) b = Some (VRec xs) ->
  nth_error xs i = Some x -> field_ty fs i = Some t' ->
  from_bits t' (slice b (field_off fs i) (count_bits t')) = Some x.
Proof.
  intros H Hn Ht. cbn [from_bits] in H. destruct (length b =? fields_bits fs); [|discriminate].
  destruct (from_bits_fields fs 0 b) as [xs'|] eqn:E; [|discriminate]. cbn in H. injection H as <-.
  apply (layout_from_fields fs 0 b xs' i x t' E Hn Ht).
Qed.

Theorem layout_carr e n es j x : wf (TCArr e n) (VCArr es) = true -> nth_error es j = Some x ->
  slice (to_bits (VCArr es)) (j * count_bits e) (count_bits e) = to_bits x.
Proof.
  intros H Hn. cbn [wf] in H. apply wf_arr_split in H as [_ Hall]. rewrite to_bits_carr.
  apply layout_arr; [|exact Hn]. intros y Hy. apply ser_width, Hall, Hy.
Qed.

Theorem layout_carr_from e n b xs j x : from_bits (TCArr e n) b = Some (VCArr xs) ->
  nth_error xs j = Some x -> from_bits e (slice b (j * count_bits e) (count_bits e)) = Some x.
Proof.
  intros H Hn. cbn [from_bits] in H. destruct (length b =? n * count_bits e); [|discriminate].
  destruct (from_bits_arr (from_bits e) (count_bits e) n 0 b) as [xs'|] eqn:E; [|discriminate].
  cbn in H. injection H as <-. rewrite Nat.mul_comm.
  apply (layout_from_arr _ _ n 0 b xs' j x E Hn).
Qed.

(** std.Array: stored element j (the serialised element) occupies [j*w, (j+1)*w) and get_elem(j) reads it *)
Theorem layout_sarr e n cs j c : wf (TSArr e n) (VSArr (VCArr cs)) = true -> nth_error cs j = Some c ->
  slice (to_bits (VSArr (VCArr cs))) (j * count_bits e) (count_bits e) = to_bits c
  /\ exists x, sarr_get e (VCArr cs) j = Some x /\ to_bits x = to_bits c.
Proof.
  intros H Hn. cbn [wf] in H. apply wf_arr_split in H as [_ Hall]. rewrite to_bits_sarr. split.
  - apply layout_arr; [|exact Hn]. intros y Hy. apply (under_width e (proj1 ser_laws e)), Hall, Hy.
  - pose proof (Hall c (nth_error_In _ _ Hn)) as Hc. unfold sarr_get. rewrite Hn.
    destruct (under_val e (proj1 ser_laws e) c Hc) as [x [Hx Hcv]].
    destruct e;
      try (destruct c as [| |bs| | | | | | | | |]; try discriminate; exists x; split; [exact Hx|];
           cbn [conv] in Hcv; injection Hcv as Hcv; cbn [to_bits]; exact Hcv).
    + exists c. split; reflexivity.
    + exists (VSArr c). split; reflexivity.
Qed.

(** ** Serialized[T] *)
Theorem serialized_value t x : wf t x = true ->
  ser_value (ser_make t x) = Some x /\ ser_bits (ser_make t x) = to_bits x.
Proof. intros H. split; [apply ser_roundtrip_val, H|reflexivity]. Qed.

Theorem serialized_raw t b : length b = count_bits t ->
  exists s, ser_from_raw t b = Some s /\ ser_bits s = b
            /\ exists x, ser_value s = Some x /\ to_bits x = b.
Proof.
  intros H. unfold ser_from_raw. rewrite H, Nat.eqb_refl. eexists. split; [reflexivity|]. split; [reflexivity|].
  destruct (ser_roundtrip_bits t b H) as [x [Hx [Hb _]]]. exists x. split; assumption.
Qed.

(** ** BitField: exact ranges *)
Lemma slice_slice v off w l n : l + n <= w -> slice (slice v off w) l n = slice v (off + l) n.
Proof.
  intros H. unfold slice. rewrite skipn_firstn_comm, firstn_firstn, Nat.min_l by lia.
  now rewrite skipn_add.
Qed.

Lemma nth_error_slice v lo n j : lo + n <= length v -> j < n ->
  nth_error (slice v lo n) j = nth_error v (lo + j).
Proof.
  intros H Hj. unfold slice. set (Y := skipn lo v).
  assert (HY : length Y = length v - lo) by apply skipn_length.
  transitivity (nth_error Y j).
  - rewrite <- (firstn_skipn n Y) at 2. rewrite nth_error_app1; [reflexivity|].
    rewrite firstn_length. lia.
  - rewrite <- (firstn_skipn lo v). fold Y. rewrite nth_error_app2 by (rewrite firstn_length; lia).
    rewrite firstn_length. f_equal. lia.
Qed.

Lemma splice_length v lo x : lo + length x <= length v -> length (splice v lo x) = length v.
Proof. intros H. unfold splice. rewrite !app_length, firstn_length, skipn_length. lia. Qed.

Lemma slice_splice_same v lo x n : lo + length x <= length v -> n = length x ->
  slice (splice v lo x) lo n = x.
Proof.
  intros H ->. unfold splice. apply slice_app_mid'; [|reflexivity]. rewrite firstn_length. lia.
Qed.

Lemma nth_error_splice_out v lo x i : lo + length x <= length v -> i < lo \/ lo + length x <= i ->
  nth_error (splice v lo x) i = nth_error v i.
Proof.
  intros H Hi. unfold splice.
  assert (Hf : length (firstn lo v) = lo) by (rewrite firstn_length; lia).
  destruct Hi as [Hi|Hi].
  - rewrite nth_error_app1 by lia. rewrite <- (firstn_skipn lo v) at 2. now rewrite nth_error_app1 by lia.
  - rewrite nth_error_app2 by lia. rewrite nth_error_app2 by lia. rewrite Hf.
    rewrite <- (firstn_skipn (lo + length x) v) at 2.
    rewrite nth_error_app2 by (rewrite firstn_length; lia). rewrite firstn_length. f_equal. lia.
Qed.

Lemma nth_error_splice_in v lo x k : lo + length x <= length v -> k < length x ->
  nth_error (splice v lo x) (lo + k) = nth_error x k.
Proof.
  intros H Hk. unfold splice.
  assert (Hf : length (firstn lo v) = lo) by (rewrite firstn_length; lia).
  rewrite nth_error_app2 by lia. rewrite Hf. replace (lo + k - lo) with k by lia.
  now rewrite nth_error_app1 by lia.
Qed.

Lemma bf_range_fits d : forall W, bf_valid W d = true -> fst (bf_range d) + snd (bf_range d) <= W.
Proof.
  induction d as [i|hi lo|off w inner IH]; intros W H; cbn in *.
  - apply Nat.ltb_lt in H. lia.
  - apply andb_prop in H as [H1 H2]. apply Nat.leb_le in H1. apply Nat.ltb_lt in H2. lia.
  - apply andb_prop in H as [H1 H2]. apply Nat.leb_le in H1. specialize (IH w H2).
    destruct (bf_range inner) as [l n]. cbn in *. lia.
Qed.

Lemma bf_get_range d : forall W v, bf_valid W d = true -> length v = W ->
  bf_get v d = slice v (fst (bf_range d)) (snd (bf_range d)).
Proof.
  induction d as [i|hi lo|off w inner IH]; intros W v H Hl; try reflexivity.
  cbn [bf_valid] in H. apply andb_prop in H as [H1 H2]. apply Nat.leb_le in H1.
  cbn [bf_get bf_range]. pose proof (bf_range_fits inner w H2) as Hfit.
  fold (slice v off w). rewrite (IH w (slice v off w) H2) by (apply slice_length; lia).
  destruct (bf_range inner) as [l n]. cbn [fst snd] in *. now apply slice_slice.
Qed.

Theorem bf_get_exact d W v : bf_valid W d = true -> length v = W ->
  length (bf_get v d) = snd (bf_range d)
  /\ forall j, j < snd (bf_range d) -> nth_error (bf_get v d) j = nth_error v (fst (bf_range d) + j).
Proof.
  intros H Hl. rewrite (bf_get_range d W v H Hl). pose proof (bf_range_fits d W H) as Hfit. split.
  - apply slice_length. lia.
  - intros j Hj. apply nth_error_slice; lia.
Qed.

Theorem bf_set_exact d : forall W v x, bf_valid W d = true -> length v = W -> length x = snd (bf_range d) ->
  length (bf_set v d x) = W
  /\ bf_get (bf_set v d x) d = x
  /\ forall i, i < fst (bf_range d) \/ fst (bf_range d) + snd (bf_range d) <= i ->
               nth_error (bf_set v d x) i = nth_error v i.
Proof.
  induction d as [i|hi lo|off w inner IH]; intros W v x H Hl Hx.
  - cbn [bf_valid bf_set bf_get bf_range fst snd] in *. apply Nat.ltb_lt in H. split; [rewrite splice_length; lia|]. split.
    + apply slice_splice_same; lia.
    + intros k Hk. apply nth_error_splice_out; lia.
  - cbn [bf_valid bf_set bf_get bf_range fst snd] in *.
    apply andb_prop in H as [H1 H2]. apply Nat.leb_le in H1. apply Nat.ltb_lt in H2.
    split; [rewrite splice_length; lia|]. split.
    + apply slice_splice_same; lia.
    + intros k Hk. apply nth_error_splice_out; lia.
  - cbn [bf_valid] in H. apply andb_prop in H as [H1 H2]. apply Nat.leb_le in H1.
    pose proof (bf_range_fits inner w H2) as Hfit.
    cbn [bf_set bf_get bf_range] in *. fold (slice v off w).
    assert (Hs : length (slice v off w) = w) by (apply slice_length; lia).
    destruct (bf_range inner) as [l n] eqn:E. cbn [fst snd] in *.
    destruct (IH w (slice v off w) x H2 Hs Hx) as [I1 [I2 I3]].
    set (inner' := bf_set (slice v off w) inner x) in *.
    split; [rewrite splice_length; lia|]. split.
    + fold (slice (splice v off inner') off w). rewrite slice_splice_same by lia. exact I2.
    + intros k Hk.
      destruct (Nat.lt_ge_cases k off) as [Hlo|Hlo]; [apply nth_error_splice_out; lia|].
      destruct (Nat.lt_ge_cases k (off + w)) as [Hhi|Hhi]; [|apply nth_error_splice_out; lia].
      replace k with (off + (k - off)) by lia.
      rewrite nth_error_splice_in by lia. rewrite I3 by lia.
      apply nth_error_slice; lia.
Qed.

(** ** non-vacuity: the hypotheses of the laws are satisfiable on a nested composition *)
Definition ex_inner : sty := TRec (FCons (TU 3) (FCons (TS 5) (FCons (TCArr (TBV 2) 2) FNil))).
Definition ex_ty : sty :=
  TRec (FCons TBit (FCons (TSArr ex_inner 2) (FCons (TEnum (TS 3)) (FCons (TSFix 1 (-2))
       (FCons TBool (FCons (TSArr (TSArr (TU 2) 2) 2) FNil)))))).
Definition ex_in (a b : Z) : sval := VRec [VU 3 a; VS 5 b; VCArr [VBV [true; false]; VBV [false; true]]].
Definition ex_val : sval :=
  VRec [VBit true; sarr_make ex_inner [ex_in 5 (-16); ex_in 2 15]; VEnum (VS 3 (-3)); VSFix 1 (-2) (-7); VBool true;
        sarr_make (TSArr (TU 2) 2) [sarr_make (TU 2) [VU 2 1; VU 2 2]; sarr_make (TU 2) [VU 2 3; VU 2 0]]].

Example ex_wf : wf ex_ty ex_val = true /\ count_bits ex_ty = 41 /\ ser_ok ex_ty = true
  /\ to_bits ex_val = B 41 496524808971%Z.
Proof. vm_compute. repeat split. Qed.

Example ex_bits : exists b, length b = count_bits ex_ty /\ from_bits ex_ty b = Some ex_val.
Proof. exists (to_bits ex_val). vm_compute. split; reflexivity. Qed.

Example ex_layout : exists x, nth_error [VBit true; sarr_make ex_inner [ex_in 5 (-16); ex_in 2 15]] 1 = Some x
  /\ field_ty (FCons TBit (FCons (TSArr ex_inner 2) FNil)) 1 = Some (TSArr ex_inner 2)
  /\ field_off (FCons TBit (FCons (TSArr ex_inner 2) FNil)) 1 = 1
  /\ wf (TRec (FCons TBit (FCons (TSArr ex_inner 2) FNil))) (VRec [VBit true; sarr_make ex_inner [ex_in 5 (-16); ex_in 2 15]]) = true.
Proof. eexists. vm_compute. repeat split. Qed.

Example ex_bitfield : bf_valid 16 (FSub 10 4 (FVec 3 1)) = true /\ bf_range (FSub 10 4 (FVec 3 1)) = (11, 3)
  /\ bf_get (B 16 42841%Z) (FSub 10 4 (FVec 3 1)) = [false; false; true]
  /\ bf_set (B 16 42841%Z) (FSub 10 4 (FVec 3 1)) [false; false; false] = B 16 34649%Z.
Proof. vm_compute. repeat split. Qed.

(** ** the decidable equality used by the generated correspondence cases is sound *)
Section SvalInd.
  Variable P : sval -> Prop.
  Hypothesis HBit : forall b, P (VBit b).
  Hypothesis HBool : forall b, P (VBool b).
  Hypothesis HBV : forall bs, P (VBV bs).
  Hypothesis HU : forall n v, P (VU n v).
  Hypothesis HS : forall n v, P (VS n v).
  Hypothesis HCArr : forall es, Forall P es -> P (VCArr es).
  Hypothesis HSArr : forall c, P c -> P (VSArr c).
  Hypothesis HRec : forall xs, Forall P xs -> P (VRec xs).
  Hypothesis HEnum : forall x, P x -> P (VEnum x).
  Hypothesis HSFix : forall l r v, P (VSFix l r v).
  Hypothesis HUFix : forall l r v, P (VUFix l r v).
  Hypothesis HBF : forall bs, P (VBF bs).

  Fixpoint sval_ind' (x : sval) : P x :=
    match x with
    | VBit b => HBit b
    | VBool b => HBool b
    | VBV bs => HBV bs
    | VU n v => HU n v
    | VS n v => HS n v
    | VCArr es => HCArr es ((fix go (l : list sval) : Forall P l :=
                               match l with [] => Forall_nil P | a :: r => Forall_cons a (sval_ind' a) (go r) end) es)
    | VSArr c => HSArr c (sval_ind' c)
    | VRec xs => HRec xs ((fix go (l : list sval) : Forall P l :=
                             match l with [] => Forall_nil P | a :: r => Forall_cons a (sval_ind' a) (go r) end) xs)
    | VEnum x => HEnum x (sval_ind' x)
    | VSFix l r v => HSFix l r v
    | VUFix l r v => HUFix l r v
    | VBF bs => HBF bs
    end.
End SvalInd.

Lemma bits_eqb_eq a : forall b, bits_eqb a b = true -> a = b.
Proof.
  unfold bits_eqb. induction a as [|x a IH]; intros [|y b] H; cbn in H; try discriminate; [reflexivity|].
  apply andb_prop in H as [H1 H2]. apply eqb_prop in H1. subst. f_equal. now apply IH.
Qed.

Lemma sval_eqb_eq : forall x y, sval_eqb x y = true -> x = y.
Proof.
  assert (L : forall es, Forall (fun x => forall y, sval_eqb x y = true -> x = y) es ->
              forall bs, (fix go (a b : list sval) : bool :=
                            match a, b with
                            | [], [] => true
                            | p :: a', q :: b' => sval_eqb p q && go a' b'
                            | _, _ => false
                            end) es bs = true -> es = bs).
  { intros es Hall. induction Hall as [|a es Ha _ IH]; intros [|q bs] HH; try discriminate; [reflexivity|].
    apply andb_prop in HH as [H1 H2]. f_equal; [apply Ha, H1|apply IH, H2]. }
  induction x using sval_ind'; intros y E; destruct y; cbn [sval_eqb] in E; try discriminate.
  - apply eqb_prop in E. now subst.
  - apply eqb_prop in E. now subst.
  - apply bits_eqb_eq in E. now subst.
  - apply andb_prop in E as [E1 E2]. apply Nat.eqb_eq in E1. apply Z.eqb_eq in E2. now subst.
  - apply andb_prop in E as [E1 E2]. apply Nat.eqb_eq in E1. apply Z.eqb_eq in E2. now subst.
  - f_equal. now apply L.
  - f_equal. now apply IHx.
  - f_equal. now apply L.
  - f_equal. now apply IHx.
  - apply andb_prop in E as [E E3]. apply andb_prop in E as [E1 E2].
    apply Z.eqb_eq in E1, E2, E3. now subst.
  - apply andb_prop in E as [E E3]. apply andb_prop in E as [E1 E2].
    apply Z.eqb_eq in E1, E2, E3. now subst.
  - apply bits_eqb_eq in E. now subst.
Qed.

(** what an accepted value case states: the recorded real results satisfy the laws of the model *)
Lemma vcase_ok_sound t c : vcase_ok t c = true ->
  wf t (v_x c) = true /\ to_bits (v_x c) = v_bits c /\ from_bits t (v_bits c) = Some (v_back c) /\ v_x c = v_back c.
Proof.
  unfold vcase_ok. intros H. apply andb_prop in H as [H H4]. apply andb_prop in H as [H H3].
  apply andb_prop in H as [H1 H2]. apply bits_eqb_eq in H2. apply sval_eqb_eq in H4.
  repeat split; try assumption.
  unfold osval_eqb in H3. destruct (from_bits t (v_bits c)); [|discriminate]. now apply sval_eqb_eq in H3 as ->.
Qed.
