(** C10 - proofs about Models/Bind.v *)
From Coq Require Import NArith List Bool Lia.
From Cohdl Require Import Models.Bind.
Import ListNotations.

(* ------------------------------------------------------------------------- *)
(** * generic list facts *)

Lemma existsb_ext_in {A} (f g : A -> bool) l :
  (forall x, In x l -> f x = g x) -> existsb f l = existsb g l.
Proof.
  induction l as [|a l IH]; intros H; cbn; [reflexivity|].
  rewrite (H a (or_introl eq_refl)), IH; [reflexivity|]. intros; apply H; right; assumption.
Qed.

Lemma filter_filter' {A} (f g : A -> bool) l :
  filter f (filter g l) = filter (fun x => g x && f x) l.
Proof.
  induction l as [|a l IH]; cbn; [reflexivity|].
  destruct (g a); cbn; [destruct (f a); rewrite IH; reflexivity | exact IH].
Qed.

Lemma mapM_app {A B} (f : A -> option B) a b :
  mapM f (a ++ b) =
  match mapM f a with
  | None => None
  | Some x => match mapM f b with None => None | Some y => Some (x ++ y) end
  end.
Proof.
  induction a as [|x a IH]; cbn.
  - destruct (mapM f b); reflexivity.
  - destruct (f x); [|reflexivity]. rewrite IH.
    destruct (mapM f a); [|reflexivity]. destruct (mapM f b); reflexivity.
Qed.

Lemma mapM_ext_in {A B} (f g : A -> option B) l :
  (forall x, In x l -> f x = g x) -> mapM f l = mapM g l.
Proof.
  induction l as [|a l IH]; intros H; cbn; [reflexivity|].
  rewrite (H a (or_introl eq_refl)), IH; [reflexivity|]. intros; apply H; right; assumption.
Qed.

Lemma nmem_In k l : nmem k l = true <-> In k l.
Proof.
  unfold nmem. rewrite existsb_exists. split.
  - intros [x [Hx E]]. apply N.eqb_eq in E. subst. exact Hx.
  - intros H. exists k. split; [exact H | apply N.eqb_refl].
Qed.

Lemma nmem_false k l : nmem k l = false <-> ~ In k l.
Proof.
  rewrite <- nmem_In. destruct (nmem k l); intuition congruence.
Qed.

Lemma has_dup_false l : has_dup l = false <-> NoDup l.
Proof.
  induction l as [|x l IH]; cbn.
  - split; [constructor | reflexivity].
  - rewrite orb_false_iff, IH, nmem_false. split.
    + intros [A B]; constructor; assumption.
    + intros H; inversion H; subst; split; assumption.
Qed.

(* ------------------------------------------------------------------------- *)
(** * dictionaries *)

Lemma kwlookup_none k kw : kwlookup k kw = None <-> ~ In k (map fst kw).
Proof.
  induction kw as [|[k' v] r IH]; cbn.
  - split; [intros _ []| reflexivity].
  - destruct (N.eqb_spec k' k).
    + subst. split; [discriminate | intros H; exfalso; apply H; left; reflexivity].
    + rewrite IH. split; [intros H [E|I]; [congruence | exact (H I)] | intros H I; apply H; right; exact I].
Qed.

Lemma kwmem_true k kw : kwmem k kw = true <-> In k (map fst kw).
Proof.
  unfold kwmem. destruct (kwlookup k kw) eqn:E.
  - split; [|reflexivity]. intros _.
    destruct (in_dec N.eq_dec k (map fst kw)) as [I|I]; [exact I|].
    apply kwlookup_none in I. congruence.
  - apply kwlookup_none in E. split; [discriminate | intros I; contradiction].
Qed.

Lemma kwmem_false k kw : kwmem k kw = false <-> ~ In k (map fst kw).
Proof.
  rewrite <- kwmem_true. destruct (kwmem k kw); intuition congruence.
Qed.

Lemma kwlookup_cons_neq k k' v r : k' <> k -> kwlookup k ((k', v) :: r) = kwlookup k r.
Proof. intros H; cbn. destruct (N.eqb_spec k' k); [contradiction | reflexivity]. Qed.

Lemma kwlookup_kwdel_neq k n kw : k <> n -> kwlookup k (kwdel n kw) = kwlookup k kw.
Proof.
  intros H. induction kw as [|[k' v] r IH]; cbn; [reflexivity|].
  destruct (N.eqb_spec k' n); cbn.
  - subst. destruct (N.eqb_spec n k); [congruence | exact IH].
  - destruct (N.eqb_spec k' k); [reflexivity | exact IH].
Qed.

Lemma NoDup_snoc {A} (l : list A) x : NoDup l -> ~ In x l -> NoDup (l ++ [x]).
Proof.
  induction l as [|a l IH]; cbn; intros ND H.
  - constructor; [intros [] | constructor].
  - inversion ND as [|? ? Ha ND']; subst. constructor.
    + intros I. apply in_app_or in I. destruct I as [I|[I|[]]]; [exact (Ha I)|]. subst. apply H. left. reflexivity.
    + apply IH; [exact ND'|]. intros I. apply H. right. exact I.
Qed.

Lemma build_kw_acc_spec kws : forall acc,
  NoDup (map fst acc) ->
  build_kw_acc kws acc = if has_dup (map fst (acc ++ kws)) then None else Some (acc ++ kws).
Proof.
  induction kws as [|[k v] r IH]; intros acc ND; cbn [build_kw_acc].
  - rewrite app_nil_r. apply has_dup_false in ND. rewrite ND. reflexivity.
  - destruct (kwmem k acc) eqn:M.
    + apply kwmem_true in M.
      destruct (has_dup (map fst (acc ++ (k, v) :: r))) eqn:E; [reflexivity|].
      apply has_dup_false in E. rewrite map_app in E. cbn in E. apply NoDup_remove_2 in E.
      exfalso. apply E. apply in_or_app. left. exact M.
    + apply kwmem_false in M. rewrite IH.
      * rewrite <- app_assoc. reflexivity.
      * rewrite map_app. cbn. apply NoDup_snoc; assumption.
Qed.

(** the dict built by the (patched) ast.Call handler: rejected iff a keyword is repeated *)
Lemma build_kw_spec kws :
  build_kw kws = if has_dup (map fst kws) then None else Some kws.
Proof. unfold build_kw. rewrite build_kw_acc_spec; [reflexivity | constructor]. Qed.

(* ------------------------------------------------------------------------- *)
(** * slots *)

Definition is_some {A} (o : option A) : bool := match o with Some _ => true | None => false end.
Definition is_nil {A} (l : list A) : bool := match l with [] => true | _ => false end.

Definition slot_filled (k : name) (sl : list slot) : bool :=
  existsb (fun s => N.eqb (slot_name s) k && is_some (snd s)) sl.

Definition slot_mem (k : name) (sl : list slot) : bool := nmem k (map slot_name sl).

Definition fill_from (kw : list (name * value)) (s : slot) : slot :=
  (fst s, match snd s with Some v => Some v | None => kwlookup (slot_name s) kw end).

Definition empty_slots (ps : list param) : list slot := map (fun p => (p, None)) ps.

Lemma slot_filled_notin k sl : ~ In k (map slot_name sl) -> slot_filled k sl = false.
Proof.
  intros H. unfold slot_filled. apply not_true_is_false. intros E.
  apply existsb_exists in E. destruct E as [s [Hs E]]. apply andb_true_iff in E. destruct E as [E _].
  apply N.eqb_eq in E. apply H. rewrite <- E. apply in_map. exact Hs.
Qed.

Lemma fill_pos_names ps : forall pos, map slot_name (fst (fill_pos ps pos)) = map fst ps.
Proof.
  induction ps as [|p ps IH]; intros pos; cbn; [reflexivity|].
  destruct pos as [|v pos'].
  - specialize (IH []). destruct (fill_pos ps []) as [sl ex]. cbn in *. rewrite IH. reflexivity.
  - specialize (IH pos'). destruct (fill_pos ps pos') as [sl ex]. cbn in *. rewrite IH. reflexivity.
Qed.

Lemma fill_pos_nil ps : fill_pos ps [] = (empty_slots ps, []).
Proof.
  induction ps as [|p ps IH]; cbn; [reflexivity|]. rewrite IH. reflexivity.
Qed.

Lemma empty_slots_names ps : map slot_name (empty_slots ps) = map fst ps.
Proof. unfold empty_slots. rewrite map_map. reflexivity. Qed.

Lemma fill_from_names kw sl : map slot_name (map (fill_from kw) sl) = map slot_name sl.
Proof. rewrite map_map. reflexivity. Qed.

Lemma fill_from_ext kw kw' sl :
  (forall n, In n (map slot_name sl) -> kwlookup n kw = kwlookup n kw') ->
  map (fill_from kw) sl = map (fill_from kw') sl.
Proof.
  intros H. apply map_ext_in. intros s Hs. unfold fill_from.
  destruct (snd s); [reflexivity|]. rewrite H; [reflexivity|]. apply in_map. exact Hs.
Qed.

(* ------------------------------------------------------------------------- *)
(** * the keyword phase of the reference algorithm, characterised per slot *)

Lemma place_noslot k v sl : place k v sl = PNoSlot -> ~ In k (map slot_name sl).
Proof.
  induction sl as [|[p f] r IH]; cbn; intros H; [intros []|].
  destruct (N.eqb_spec (fst p) k).
  - destruct f; discriminate.
  - destruct (place k v r); try discriminate. intros [E|I]; [contradiction | exact (IH eq_refl I)].
Qed.

Lemma place_filled k v sl : place k v sl = PFilled -> slot_filled k sl = true.
Proof.
  induction sl as [|[p f] r IH]; cbn; intros H; [discriminate|].
  unfold slot_name; cbn. destruct (N.eqb_spec (fst p) k).
  - destruct f; [reflexivity | discriminate].
  - destruct (place k v r); try discriminate. cbn. apply IH. reflexivity.
Qed.

Lemma place_ok k v sl : forall sl',
  place k v sl = POk sl' -> NoDup (map slot_name sl) ->
  map slot_name sl' = map slot_name sl /\
  slot_filled k sl = false /\
  In k (map slot_name sl) /\
  (forall k', k' <> k -> slot_filled k' sl' = slot_filled k' sl) /\
  (forall r, map (fill_from r) sl' = map (fill_from ((k, v) :: r)) sl).
Proof.
  induction sl as [|[p f] r0 IH]; cbn; intros sl' H ND; [discriminate|].
  inversion ND as [|? ? Hnot ND']; subst.
  destruct (N.eqb_spec (fst p) k) as [E|E].
  - destruct f; [discriminate|]. inversion H; subst; clear H. cbn.
    repeat split.
    + unfold slot_name at 1; cbn. rewrite N.eqb_refl. cbn. apply slot_filled_notin. exact Hnot.
    + left; reflexivity.
    + intros k' Hk. unfold slot_name at 1 3; cbn.
      destruct (N.eqb_spec (fst p) k'); [congruence | reflexivity].
    + intros r. f_equal.
      * unfold fill_from, slot_name; cbn. rewrite N.eqb_refl. reflexivity.
      * apply fill_from_ext. intros n Hn. rewrite kwlookup_cons_neq; [reflexivity|].
        intros E'. apply Hnot. unfold slot_name at 1; cbn. rewrite E'. exact Hn.
  - destruct (place k v r0) as [| |r0'] eqn:P; try discriminate. inversion H; subst; clear H.
    destruct (IH r0' eq_refl ND') as (A & B & C & D & F). cbn.
    repeat split.
    + rewrite A; reflexivity.
    + unfold slot_name at 1; cbn. destruct (N.eqb_spec (fst p) k); [contradiction|]. cbn. exact B.
    + right; exact C.
    + intros k' Hk. pose proof (D k' Hk) as D'. unfold slot_filled in D'. rewrite D'. reflexivity.
    + intros r. f_equal; [|apply F].
      unfold fill_from, slot_name; cbn. destruct f; [reflexivity|].
      destruct (N.eqb_spec k (fst p)); [congruence | reflexivity].
Qed.

Definition place_all_decl (hk : bool) (kws : list (name * value)) (sl : list slot)
  : option (list slot * list (name * value)) :=
  if existsb (fun kv => slot_filled (fst kv) sl) kws then None
  else
    let extra := filter (fun kv => negb (slot_mem (fst kv) sl)) kws in
    if negb hk && negb (is_nil extra) then None
    else Some (map (fill_from kws) sl, extra).

Lemma fill_from_nil sl : map (fill_from []) sl = sl.
Proof.
  induction sl as [|[p f] r IH]; cbn; [reflexivity|]. rewrite IH.
  unfold fill_from; cbn. destruct f; reflexivity.
Qed.

Lemma place_all_spec hk kws : forall sl,
  NoDup (map fst kws) -> NoDup (map slot_name sl) ->
  place_all hk kws sl = place_all_decl hk kws sl.
Proof.
  induction kws as [|[k v] r IH]; intros sl NDk NDs.
  - unfold place_all_decl; cbn. rewrite fill_from_nil. destruct hk; reflexivity.
  - cbn in NDk. inversion NDk as [|? ? Hk NDr]; subst.
    cbn [place_all]. destruct (place k v sl) as [| |sl'] eqn:P.
    + (* no slot *)
      pose proof (place_noslot _ _ _ P) as Hn.
      assert (F : slot_filled k sl = false) by (apply slot_filled_notin; exact Hn).
      assert (M : slot_mem k sl = false) by (apply nmem_false; exact Hn).
      unfold place_all_decl. cbn [existsb filter fst]. rewrite F, M. cbn [orb negb].
      destruct hk.
      * rewrite (IH sl NDr NDs). unfold place_all_decl.
        destruct (existsb (fun kv => slot_filled (fst kv) sl) r); [reflexivity|]. cbn.
        f_equal. f_equal. apply fill_from_ext. intros n Hn'.
        rewrite kwlookup_cons_neq; [reflexivity|]. intros E'. apply Hn. rewrite E'. exact Hn'.
      * destruct (existsb (fun kv => slot_filled (fst kv) sl) r); reflexivity.
    + (* already filled *)
      unfold place_all_decl. cbn [existsb fst]. rewrite (place_filled _ _ _ P). reflexivity.
    + destruct (place_ok _ _ _ _ P NDs) as (A & B & C & D & F).
      assert (NDs' : NoDup (map slot_name sl')) by (rewrite A; exact NDs).
      rewrite (IH sl' NDr NDs'). unfold place_all_decl. cbn [existsb filter fst].
      rewrite B. cbn [orb].
      assert (M : slot_mem k sl = true) by (apply nmem_In; exact C). rewrite M. cbn [negb].
      rewrite (existsb_ext_in (fun kv => slot_filled (fst kv) sl') (fun kv => slot_filled (fst kv) sl)).
      2:{ intros [k' v'] Hin. cbn. apply D. intros E'. apply Hk. apply (in_map fst) in Hin. cbn in Hin. rewrite <- E'. exact Hin. }
      assert (Ef : filter (fun kv => negb (slot_mem (fst kv) sl')) r = filter (fun kv => negb (slot_mem (fst kv) sl)) r).
      { apply filter_ext. intros kv. unfold slot_mem. rewrite A. reflexivity. }
      rewrite Ef, F. reflexivity.
Qed.

(* ------------------------------------------------------------------------- *)
(** * the loops of bind_args, characterised per parameter *)

Lemma finish_slot_some n d v : finish_slot ((n, d), Some v) = Some (n, BVal v).
Proof. destruct d; reflexivity. Qed.

Definition not_named (ps : list param) (kv : name * value) : bool := negb (nmem (fst kv) (map fst ps)).

Lemma ba_kwonly_spec ps : forall kw,
  NoDup (map fst ps) ->
  ba_kwonly ps kw =
  match mapM finish_slot (map (fill_from kw) (empty_slots ps)) with
  | None => None
  | Some b => Some (b, filter (not_named ps) kw)
  end.
Proof.
  induction ps as [|[n d] ps IH]; intros kw ND.
  - cbn. f_equal. f_equal. symmetry. induction kw as [|a kw IHk]; cbn; [reflexivity|]. rewrite IHk at 1. reflexivity.
  - cbn in ND. inversion ND as [|? ? Hn ND']; subst.
    cbn [ba_kwonly empty_slots map mapM]. unfold fill_from at 1. cbn [fst snd slot_name].
    fold (empty_slots ps).
    destruct (kwlookup n kw) as [v|] eqn:L.
    + rewrite finish_slot_some. rewrite (IH (kwdel n kw) ND').
      rewrite (fill_from_ext (kwdel n kw) kw).
      2:{ intros m Hm. rewrite empty_slots_names in Hm. apply kwlookup_kwdel_neq. intros E'. apply Hn. rewrite <- E'. exact Hm. }
      destruct (mapM finish_slot (map (fill_from kw) (empty_slots ps))); [|reflexivity].
      f_equal. f_equal. unfold kwdel. rewrite filter_filter'. apply filter_ext. intros [k v']. unfold not_named, nmem; cbn.
      destruct (N.eqb k n); reflexivity.
    + destruct d as [dv|]; [|reflexivity]. cbn [finish_slot]. rewrite (IH kw ND').
      destruct (mapM finish_slot (map (fill_from kw) (empty_slots ps))); [|reflexivity].
      f_equal. f_equal. apply filter_ext_in. intros [k v'] Hin. unfold not_named; cbn.
      destruct (N.eqb_spec k n); [|reflexivity]. subst.
      apply kwlookup_none in L. exfalso. apply L. apply (in_map fst) in Hin. exact Hin.
Qed.

Lemma ba_args_nil ps : forall kw,
  ba_args ps [] kw = match ba_kwonly ps kw with Some (b, kw') => Some (b, [], kw') | None => None end.
Proof.
  induction ps as [|[n d] ps IH]; intros kw; cbn; [reflexivity|].
  destruct (kwlookup n kw).
  - rewrite IH. destruct (ba_kwonly ps (kwdel n kw)) as [[b kw']|]; reflexivity.
  - destruct d; [|reflexivity]. rewrite IH. destruct (ba_kwonly ps kw) as [[b kw']|]; reflexivity.
Qed.

Definition arg_clash (kw : list (name * value)) (s : slot) : bool :=
  is_some (snd s) && kwmem (slot_name s) kw.

Lemma clash_empty kw ps : existsb (arg_clash kw) (empty_slots ps) = false.
Proof. induction ps as [|p ps IH]; cbn; [reflexivity | exact IH]. Qed.

Lemma ba_args_spec ps : forall pos kw,
  NoDup (map fst ps) ->
  ba_args ps pos kw =
  (let '(sl, ex) := fill_pos ps pos in
   if existsb (arg_clash kw) sl then None
   else match mapM finish_slot (map (fill_from kw) sl) with
        | None => None
        | Some b => Some (b, ex, filter (not_named ps) kw)
        end).
Proof.
  induction ps as [|[n d] ps IH]; intros pos kw ND.
  - cbn. f_equal. f_equal. symmetry. induction kw as [|a kw IHk]; cbn; [reflexivity|]. rewrite IHk at 1. reflexivity.
  - destruct pos as [|v pos'].
    + rewrite ba_args_nil, (ba_kwonly_spec _ kw ND), fill_pos_nil, clash_empty.
      destruct (mapM finish_slot (map (fill_from kw) (empty_slots ((n, d) :: ps)))); reflexivity.
    + cbn in ND. inversion ND as [|? ? Hn ND']; subst.
      cbn [ba_args fill_pos]. rewrite (IH pos' kw ND').
      destruct (fill_pos ps pos') as [sl ex]. cbn [existsb map mapM].
      change (arg_clash kw (n, d, Some v)) with (kwmem n kw).
      change (fill_from kw (n, d, Some v)) with ((n, d, Some v) : slot). rewrite finish_slot_some.
      destruct (kwmem n kw) eqn:M; cbn [orb]; [reflexivity|].
      destruct (existsb (arg_clash kw) sl); [reflexivity|].
      destruct (mapM finish_slot (map (fill_from kw) sl)); [|reflexivity].
      f_equal. f_equal. apply filter_ext_in. intros [k v'] Hin. unfold not_named; cbn.
      destruct (N.eqb_spec k n); [|reflexivity]. subst.
      apply kwmem_false in M. exfalso. apply M. apply (in_map fst) in Hin. exact Hin.
Qed.

Definition posonly_clash (hk : bool) (kw : list (name * value)) (ps : list param) : bool :=
  negb hk && existsb (fun p => kwmem (fst p) kw) ps.

Lemma ba_posonly_spec hk kw ps : forall pos,
  ba_posonly hk kw ps pos =
  if posonly_clash hk kw ps then None
  else let '(sl, ex) := fill_pos ps pos in
       match mapM finish_slot sl with None => None | Some b => Some (b, ex) end.
Proof.
  unfold posonly_clash.
  induction ps as [|[n d] ps IH]; intros pos.
  - cbn. rewrite andb_false_r. reflexivity.
  - cbn [ba_posonly existsb fst].
    destruct (kwmem n kw) eqn:M; destruct hk eqn:H; cbn [andb orb negb] in *.
    + destruct pos as [|v pos'].
      * destruct d; cbn [fill_pos]; [rewrite IH|]; destruct (fill_pos ps []) as [sl ex]; cbn;
          [destruct (mapM finish_slot sl); reflexivity | reflexivity].
      * cbn [fill_pos]. rewrite IH. destruct (fill_pos ps pos') as [sl ex]; cbn [mapM]; rewrite finish_slot_some.
        destruct (mapM finish_slot sl); reflexivity.
    + reflexivity.
    + destruct pos as [|v pos'].
      * destruct d; cbn [fill_pos]; [rewrite IH|]; destruct (fill_pos ps []) as [sl ex]; cbn;
          [destruct (mapM finish_slot sl); reflexivity | reflexivity].
      * cbn [fill_pos]. rewrite IH. destruct (fill_pos ps pos') as [sl ex]; cbn [mapM]; rewrite finish_slot_some.
        destruct (mapM finish_slot sl); reflexivity.
    + destruct pos as [|v pos'].
      * destruct d; cbn [fill_pos]; [rewrite IH|]; destruct (fill_pos ps []) as [sl ex]; cbn;
          [destruct (existsb (fun p => kwmem (fst p) kw) ps); [reflexivity | destruct (mapM finish_slot sl); reflexivity]
          | destruct (existsb (fun p => kwmem (fst p) kw) ps); reflexivity].
      * cbn [fill_pos]. rewrite IH. destruct (fill_pos ps pos') as [sl ex]; cbn [mapM]; rewrite finish_slot_some.
        destruct (existsb (fun p => kwmem (fst p) kw) ps); [reflexivity|].
        destruct (mapM finish_slot sl); reflexivity.
Qed.

(* ------------------------------------------------------------------------- *)
(** * bind_args = the reference rule *)

Lemma NoDup_app_disj {A} (a b : list A) x : NoDup (a ++ b) -> In x a -> ~ In x b.
Proof.
  induction a as [|y a IH]; cbn; intros ND Hin; [contradiction|].
  inversion ND as [|? ? Hy ND']; subst. destruct Hin as [->|Hin].
  - intros Hb. apply Hy. apply in_or_app. right. exact Hb.
  - apply IH; assumption.
Qed.

Lemma NoDup_app_remove_l {A} (a b : list A) : NoDup (a ++ b) -> NoDup b.
Proof. induction a as [|y a IH]; cbn; intros H; [exact H|]. inversion H; subst. apply IH; assumption. Qed.

Lemma NoDup_app_remove_r {A} (a b : list A) : NoDup (a ++ b) -> NoDup a.
Proof.
  induction a as [|y a IH]; cbn; intros H; [constructor|]. inversion H as [|? ? Hy H']; subst.
  constructor; [|apply IH; exact H']. intros I. apply Hy. apply in_or_app. left. exact I.
Qed.

Lemma wf_parts s : wf_sig s ->
  NoDup (map fst (s_args s)) /\ NoDup (map fst (s_kwonly s)) /\
  NoDup (map fst (s_args s) ++ map fst (s_kwonly s)) /\
  (forall n, In n (map fst (s_posonly s)) -> ~ In n (map fst (s_args s) ++ map fst (s_kwonly s))) /\
  (forall n, In n (map fst (s_kwonly s)) -> ~ In n (map fst (s_args s))).
Proof.
  unfold wf_sig, sig_names. intros H.
  pose proof (NoDup_app_remove_l _ _ H) as H1.
  rewrite app_assoc in H1. pose proof (NoDup_app_remove_r _ _ H1) as H2.
  repeat split.
  - exact (NoDup_app_remove_r _ _ H2).
  - exact (NoDup_app_remove_l _ _ H2).
  - exact H2.
  - intros n Hn Hin. rewrite app_assoc in H. rewrite app_assoc in H.
    pose proof (NoDup_app_remove_r _ _ H) as H3. rewrite <- app_assoc in H3.
    exact (NoDup_app_disj _ _ n H3 Hn Hin).
  - intros n Hn Hin. exact (NoDup_app_disj _ _ n H2 Hin Hn).
Qed.

Lemma clash_swap kw ar ps :
  existsb (fun kv => slot_filled (fst kv) (ar ++ empty_slots ps)) kw = existsb (arg_clash kw) ar.
Proof.
  apply eq_true_iff_eq. rewrite !existsb_exists. split.
  - intros [kv [Hin F]]. unfold slot_filled in F. apply existsb_exists in F.
    destruct F as [s [Hs E]]. apply andb_true_iff in E. destruct E as [E1 E2]. apply N.eqb_eq in E1.
    apply in_app_or in Hs. destruct Hs as [Hs|Hs].
    + exists s. split; [exact Hs|]. unfold arg_clash. rewrite E2. cbn.
      apply kwmem_true. rewrite E1. apply in_map. exact Hin.
    + unfold empty_slots in Hs. apply in_map_iff in Hs. destruct Hs as [p [<- _]]. discriminate.
  - intros [s [Hs C]]. unfold arg_clash in C. apply andb_true_iff in C. destruct C as [C1 C2].
    apply kwmem_true in C2. apply in_map_iff in C2. destruct C2 as [kv [E Hin]].
    exists kv. split; [exact Hin|]. unfold slot_filled. apply existsb_exists.
    exists s. split; [apply in_or_app; left; exact Hs|]. rewrite E, N.eqb_refl, C1. reflexivity.
Qed.

Lemma extra_eq kw (ar : list slot) args kwonly :
  map slot_name ar = map fst args ->
  filter (fun kv => negb (slot_mem (fst kv) (ar ++ empty_slots kwonly))) kw =
  filter (not_named kwonly) (filter (not_named args) kw).
Proof.
  intros H. rewrite filter_filter'. apply filter_ext. intros kv.
  unfold slot_mem, not_named, nmem. rewrite map_app, H, empty_slots_names, existsb_app, negb_orb. reflexivity.
Qed.

Lemma kwlookup_filter_not_named n ps kw :
  ~ In n (map fst ps) -> kwlookup n (filter (not_named ps) kw) = kwlookup n kw.
Proof.
  intros H. induction kw as [|[k v] r IH]; cbn; [reflexivity|].
  unfold not_named at 1; cbn. destruct (nmem k (map fst ps)) eqn:M; cbn.
  - apply nmem_In in M. destruct (N.eqb_spec k n); [subst; contradiction | exact IH].
  - rewrite IH. reflexivity.
Qed.

Lemma ba_vararg_eq va pos : ba_vararg va pos = bind_vararg va pos.
Proof. destruct va; reflexivity. Qed.

Lemma ba_kwarg_eq ka kw : ba_kwarg ka kw = bind_kwarg ka kw.
Proof. destruct ka; reflexivity. Qed.

Lemma posonly_clash_decl hk kw ps sl :
  posonly_clash hk kw ps = true ->
  (forall n, In n (map fst ps) -> ~ In n (map slot_name sl)) ->
  place_all_decl hk kw sl = None.
Proof.
  unfold posonly_clash. intros H Dis. apply andb_true_iff in H. destruct H as [Hk E].
  apply negb_true_iff in Hk. subst hk.
  apply existsb_exists in E. destruct E as [p [Hp M]]. apply kwmem_true in M.
  apply in_map_iff in M. destruct M as [kv [Ekv Hin]].
  unfold place_all_decl. destruct (existsb _ kw); [reflexivity|]. cbn.
  assert (In kv (filter (fun kv => negb (slot_mem (fst kv) sl)) kw)) as Hf.
  { apply filter_In. split; [exact Hin|]. apply negb_true_iff. apply nmem_false.
    rewrite Ekv. apply Dis. apply in_map. exact Hp. }
  destruct (filter (fun kv => negb (slot_mem (fst kv) sl)) kw); [contradiction | reflexivity].
Qed.

Lemma bind_args_agrees s c :
  wf_sig s -> NoDup (map fst (c_kws c)) -> bind_args s (c_pos c) (c_kws c) = cpython_bind s c.
Proof.
  intros WF ND. destruct (wf_parts s WF) as (Nar & Nko & Nak & Dis & Dis2).
  unfold cpython_bind.
  assert (HD : has_dup (map fst (c_kws c)) = false) by (apply has_dup_false; exact ND). rewrite HD.
  unfold bind_args.
  set (kw := c_kws c) in *. set (pos := with_self s (c_pos c)).
  rewrite ba_posonly_spec.
  destruct (fill_pos (s_posonly s) pos) as [po pos1].
  pose proof (fill_pos_names (s_args s) pos1) as Nam.
  destruct (fill_pos (s_args s) pos1) as [ar excess] eqn:Far. cbn [fst] in Nam.
  fold (empty_slots (s_kwonly s)).
  assert (NDs : NoDup (map slot_name (ar ++ empty_slots (s_kwonly s)))).
  { rewrite map_app, Nam, empty_slots_names. exact Nak. }
  rewrite (place_all_spec _ _ _ ND NDs).
  destruct (posonly_clash (has_kwarg s) kw (s_posonly s)) eqn:PC.
  - rewrite (posonly_clash_decl _ _ _ _ PC); [reflexivity|].
    intros n Hn. rewrite map_app, Nam, empty_slots_names. apply Dis. exact Hn.
  - unfold place_all_decl. rewrite clash_swap, (extra_eq _ _ _ _ Nam).
    set (extra := filter (not_named (s_kwonly s)) (filter (not_named (s_args s)) kw)).
    destruct (mapM finish_slot po) as [b1|].
    2:{ destruct (existsb (arg_clash kw) ar); [reflexivity|].
        destruct (negb (has_kwarg s) && negb (is_nil extra)); reflexivity. }
    rewrite (ba_args_spec _ pos1 kw Nar), Far.
    destruct (existsb (arg_clash kw) ar); [reflexivity|].
    rewrite map_app.
    destruct (mapM finish_slot (map (fill_from kw) ar)) as [b2|] eqn:B2.
    2:{ destruct (negb (has_kwarg s) && negb (is_nil extra)); [reflexivity|].
        cbv beta iota. rewrite mapM_app, B2. reflexivity. }
    cbv beta iota.
    rewrite ba_vararg_eq, (ba_kwonly_spec _ _ Nko).
    rewrite (fill_from_ext (filter (not_named (s_args s)) kw) kw).
    2:{ intros n Hn. rewrite empty_slots_names in Hn. apply kwlookup_filter_not_named. apply Dis2. exact Hn. }
    fold extra.
    destruct (negb (has_kwarg s) && negb (is_nil extra)) eqn:X; cbv beta iota.
    + apply andb_true_iff in X. destruct X as [X1 X2]. unfold has_kwarg in X1.
      destruct (s_kwarg s); [discriminate|]. destruct extra; [discriminate|].
      destruct (bind_vararg (s_vararg s) excess); [|reflexivity].
      destruct (mapM finish_slot (map (fill_from kw) (empty_slots (s_kwonly s)))); reflexivity.
    + rewrite mapM_app, B2.
      destruct (bind_vararg (s_vararg s) excess) as [b3|];
        destruct (mapM finish_slot (map (fill_from kw) (empty_slots (s_kwonly s)))) as [b4|];
        try reflexivity.
      cbv beta iota. rewrite ba_kwarg_eq.
      destruct (bind_kwarg (s_kwarg s) extra); [|reflexivity].
      rewrite <- !app_assoc. reflexivity.
Qed.

Lemma cpython_rejects_dup s c : has_dup (map fst (c_kws c)) = true -> cpython_bind s c = None.
Proof. intros H. unfold cpython_bind. rewrite H. reflexivity. Qed.

(** ast.Call dict construction + FunctionDefinition.bind_args = the rule of the language
    reference, for every signature and every call *)
Theorem bind_agrees s c : wf_sig s -> tracer_bind s c = cpython_bind s c.
Proof.
  intros WF. unfold tracer_bind. rewrite build_kw_spec.
  destruct (has_dup (map fst (c_kws c))) eqn:D.
  - symmetry. apply cpython_rejects_dup. exact D.
  - apply bind_args_agrees; [exact WF | apply has_dup_false; exact D].
Qed.

Local Open Scope N_scope.

(** regression of the repeated-keyword defect: def f(p0, p1=71);  f( **{'p0': 40}, **{'p0': 41}) *)
Definition sig_dup : sig := mkSig [] [(0, None); (1, Some 71)]%N None [] None None.
Definition call_dup : call := mkCall [] [(0, 40); (0, 41)]%N.

Example bind_repeated_keyword_rejected :
  tracer_bind sig_dup call_dup = None /\ cpython_bind sig_dup call_dup = None.
Proof. split; vm_compute; reflexivity. Qed.

(** non-vacuity of bind_agrees: upstream fn_j(a=6.321, /, *b, c=None, **d) called fn_j(10, 11, 12, c=13, a=14) *)
Definition sig_j : sig := mkSig [(0, Some 70)]%N [] (Some 1%N) [(2, Some 80)]%N (Some 3%N) None.
Definition call_j : call := mkCall [10; 11; 12] [(2, 13); (0, 14)]%N.

Example bind_agrees_nonvacuous :
  wf_sig sig_j /\
  tracer_bind sig_j call_j = Some [(0, BVal 10); (2, BVal 13); (1, BTuple [11; 12]); (3, BDict [(0, 14)])]%N.
Proof.
  split.
  - unfold wf_sig, sig_j, sig_names; cbn.
    repeat (constructor; [cbn; intuition discriminate|]). constructor.
  - vm_compute; reflexivity.
Qed.

(* ------------------------------------------------------------------------- *)
(** * the object of zero-argument super() *)

Theorem super_arg_agrees s b :
  s_posonly s ++ s_args s <> [] -> tracer_super_arg s b = cpython_super_arg s b.
Proof.
  unfold tracer_super_arg, cpython_super_arg. intros H.
  destruct (s_posonly s) as [|p po]; cbn.
  - destruct (s_args s) as [|a ar]; cbn; [exfalso; apply H; reflexivity | reflexivity].
  - reflexivity.
Qed.

(** def m( *p0 ): the tracer takes the tuple, CPython raises "super(): no arguments" *)
Theorem super_arg_refuted :
  exists s c b, wf_sig s /\ tracer_bind s c = Some b /\
                tracer_super_arg s b = Some (BTuple [999]%N) /\ cpython_super_arg s b = None.
Proof.
  exists (mkSig [] [] (Some 0%N) [] None (Some 999%N)), (mkCall [] []), [(0%N, BTuple [999%N])].
  split; [|repeat split; vm_compute; reflexivity].
  unfold wf_sig, sig_names; cbn. constructor; [intros []|constructor].
Qed.

Example super_arg_nonvacuous :
  exists s c b, s_posonly s ++ s_args s <> [] /\ tracer_bind s c = Some b /\ tracer_super_arg s b = Some (BVal 999%N).
Proof.
  exists (mkSig [] [(0%N, None)] None [] None (Some 999%N)), (mkCall [] []), [(0%N, BVal 999%N)].
  split; [cbn; discriminate|]. split; vm_compute; reflexivity.
Qed.

(* ------------------------------------------------------------------------- *)
(** * operator dispatch *)

Lemma reflected_first_priority T l r rop : reflected_first T l r rop = binop_priority T l r rop.
Proof.
  unfold reflected_first, binop_priority, proper_subclass, rop_overloaded, has_attr, same_attr.
  rewrite (N.eqb_sym r l).
  destruct (N.eqb l r); cbn [negb andb]; [reflexivity|].
  destruct (is_subclass_f T (S (length T)) r l); cbn [andb]; [|reflexivity].
  destruct (lookup T r rop) as [[dr mr]|]; cbn [andb]; [|reflexivity].
  destruct (lookup T l rop) as [[dl ml]|]; cbn [negb orb]; [|reflexivity].
  rewrite (N.eqb_sym dr dl). reflexivity.
Qed.

(** the patched tracer dispatches binary operators exactly like CPython - all class tables, all operands *)
Theorem dispatch_agrees T l r op rop : tracer_binop T l r op rop = cpython_binop T l r op rop.
Proof.
  unfold tracer_binop, cpython_binop. rewrite reflected_first_priority.
  destruct (N.eqb_spec l r) as [E|E].
  - subst r. unfold binop_priority, proper_subclass. rewrite N.eqb_refl. cbn [negb andb first_call].
    destruct (try_call (lookup T l op) op l); reflexivity.
  - destruct (binop_priority T l r rop); cbn [first_call].
    + destruct (try_call (lookup T r rop) rop l); [reflexivity|].
      destruct (try_call (lookup T l op) op r); reflexivity.
    + destruct (try_call (lookup T l op) op r); [reflexivity|].
      destruct (try_call (lookup T r rop) rop l); reflexivity.
Qed.

(** regressions of the three dispatch defects *)
Definition T_prio : ctable := [mkC None [mkM 0 []]; mkC (Some 0%N) [mkM 1 []]]%N.

Example dispatch_subclass_priority :
  tracer_binop T_prio 0 1 0 1 = DCall 1 1 /\ cpython_binop T_prio 0 1 0 1 = DCall 1 1.
Proof. split; vm_compute; reflexivity. Qed.

Example dispatch_same_type_no_reflected :
  tracer_binop [mkC None [mkM 1 []]] 0 0 0 1 = DReject /\ cpython_binop [mkC None [mkM 1 []]] 0 0 0 1 = DReject.
Proof. split; vm_compute; reflexivity. Qed.

(** unrelated classes, forward method answers NotImplemented, reflected one is used *)
Example dispatch_reflected_fallback :
  tracer_binop [mkC None [mkM 0 [1]]; mkC None [mkM 1 []]] 0 1 0 1 = DCall 1 1.
Proof. vm_compute; reflexivity. Qed.

Lemma try_call_shape lk m o : try_call lk m o = None \/ exists d, try_call lk m o = Some (DCall d m).
Proof.
  unfold try_call. destruct lk as [[d md]|]; [|left; reflexivity].
  destruct (nmem o (m_ni md)); [left; reflexivity | right; exists d; reflexivity].
Qed.

Lemma compare_attempt_value T is_eq c m o x :
  compare_attempt T is_eq (c, m, o) = CValue x -> try_call (lookup T c m) m o = Some x.
Proof.
  unfold compare_attempt, try_call. destruct (lookup T c m) as [[d md]|].
  - destruct (nmem o (m_ni md)); [discriminate|]. intros H; inversion H; reflexivity.
  - destruct is_eq; discriminate.
Qed.

Lemma compare_attempt_notimpl T is_eq c m o :
  compare_attempt T is_eq (c, m, o) = CNotImpl -> try_call (lookup T c m) m o = None.
Proof.
  unfold compare_attempt, try_call. destruct (lookup T c m) as [[d md]|]; [|reflexivity].
  destruct (nmem o (m_ni md)); [reflexivity | discriminate].
Qed.

(** comparisons: the patched tracer yields CPython's result or rejects - all class tables, all operands
    (it rejects where CPython falls back to identity for ==, and where a consulted class inherits the
    ordering method from object) *)
Theorem compare_agrees T l r op rop is_eq :
  tracer_compare T l r op rop is_eq = DReject \/
  tracer_compare T l r op rop is_eq = cpython_compare T l r op rop is_eq.
Proof.
  unfold tracer_compare, cpython_compare.
  destruct (proper_subclass T r l).
  - destruct (compare_attempt T is_eq (r, rop, l)) as [| |x] eqn:A0; [left; reflexivity | |].
    + rewrite (compare_attempt_notimpl _ _ _ _ _ A0). cbn [or_else].
      destruct (compare_attempt T is_eq (l, op, r)) as [| |y] eqn:A1; [left; reflexivity | left; reflexivity |].
      rewrite (compare_attempt_value _ _ _ _ _ _ A1). right; reflexivity.
    + rewrite (compare_attempt_value _ _ _ _ _ _ A0). right; reflexivity.
  - destruct (compare_attempt T is_eq (l, op, r)) as [| |x] eqn:A0; [left; reflexivity | |].
    + rewrite (compare_attempt_notimpl _ _ _ _ _ A0). cbn [or_else].
      destruct (compare_attempt T is_eq (r, rop, l)) as [| |y] eqn:A1; [left; reflexivity | left; reflexivity |].
      rewrite (compare_attempt_value _ _ _ _ _ _ A1). right; reflexivity.
    + rewrite (compare_attempt_value _ _ _ _ _ _ A0). right; reflexivity.
Qed.

(** whenever the tracer produces a value, it is CPython's value *)
Theorem compare_agrees_value T l r op rop is_eq x :
  tracer_compare T l r op rop is_eq = x -> x <> DReject -> cpython_compare T l r op rop is_eq = x.
Proof.
  intros H Hx. destruct (compare_agrees T l r op rop is_eq) as [E|E]; congruence.
Qed.

(** class C0: __lt__ ; class C1(C0): __gt__ ;  C0() < C1() : regression of the comparison defect *)
Example compare_subclass_priority :
  tracer_compare [mkC None [mkM 4 []]; mkC (Some 0) [mkM 5 []]] 0 1 4 5 false = DCall 1 5 /\
  cpython_compare [mkC None [mkM 4 []]; mkC (Some 0) [mkM 5 []]] 0 1 4 5 false = DCall 1 5.
Proof. split; vm_compute; reflexivity. Qed.

Example compare_reflected_fallback :
  tracer_compare [mkC None [mkM 4 [1]]; mkC None [mkM 5 []]] 0 1 4 5 false = DCall 1 5.
Proof. vm_compute; reflexivity. Qed.

(* ------------------------------------------------------------------------- *)
(** * and / or / not *)

Theorem boolop_truth_value :
  (forall r x, tracer_and x r = pv_truth (cpython_and x r)) /\
  (forall r x, tracer_or x r = pv_truth (cpython_or x r)) /\
  (forall x, tracer_not x = negb (pv_truth x)).
Proof.
  unfold tracer_and, tracer_or. repeat split.
  - induction r as [|y r IH]; intros x; cbn.
    + apply andb_true_r.
    + specialize (IH y). cbn in IH. rewrite IH. destruct (pv_truth x) eqn:E; cbn; [reflexivity | symmetry; exact E].
  - induction r as [|y r IH]; intros x; cbn.
    + apply orb_false_r.
    + specialize (IH y). cbn in IH. rewrite IH. destruct (pv_truth x) eqn:E; cbn; [symmetry; exact E | reflexivity].
Qed.

Example boolop_nonvacuous :
  cpython_and (mkPv 1 true) [mkPv 2 false; mkPv 3 true] = mkPv 2 false /\
  tracer_and (mkPv 1 true) [mkPv 2 false; mkPv 3 true] = false /\
  cpython_or (mkPv 1 false) [mkPv 2 true] = mkPv 2 true /\ tracer_or (mkPv 1 false) [mkPv 2 true] = true.
Proof. repeat split. Qed.
