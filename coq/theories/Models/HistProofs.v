From Coq Require Import List Bool Arith PeanoNat Lia.
Import ListNotations.
From Cohdl Require Import Models.Hist.
