(** Proofs about Models/Hist.v (C11). *)
From Coq Require Import List Bool Arith PeanoNat Lia.
Import ListNotations.
From Cohdl Require Import Models.Hist.

Definition outcome_of (c : design -> gstate -> gstate * outcome) (d : design) (g : gstate) : outcome := snd (c d g).

(** * witnesses: design classes of the pool of harness/c11.py *)

(*                     id arch ctx  with dep clk_ok clk_fail ctx_clk needs coro call  apply eh verdict *)
Definition W_sm      := mkD 0 []  []  false 1 true  false false false true  true  false 0 (Rej SIrSm).   (* r_sm_continue *)
Definition W_coro    := mkD 1 []  []  false 1 true  false false false true  true  false 0 Ok.            (* a_coro *)
Definition W_width   := mkD 2 []  []  false 1 false false false false false false false 0 (Rej SPrep).   (* r_prep_width *)
Definition W_pfx     := mkD 3 []  [0] false 1 false false false false false false false 0 Ok.            (* a_pfx_ctx *)
Definition W_inwith  := mkD 4 [4] []  true  1 false false false false false false false 0 (Rej SPrep).   (* r_prep_in_with *)
Definition W_pfxarch := mkD 5 [0] []  false 1 false false false false false false false 0 Ok.            (* a_pfx_arch *)
Definition W_clk     := mkD 6 []  []  false 1 false true false  false false false false 0 (Rej SPrep).   (* r_prep_clk *)
Definition W_needs   := mkD 7 []  []  false 1 false false false true  true  true  false 0 Ok.            (* x_needs_ctx *)
Definition W_arch    := mkD 8 []  []  false 1 false false false false false false false 0 (Rej SArch).   (* r_arch_raise *)
Definition W_comb    := mkD 9 []  []  false 1 false false false false false false false 0 Ok.            (* a_comb *)

(** ** the tree before the fix: commits ([compile_coded]): the five poisoning mechanisms *)

(** (i) a design rejected inside coroutine lowering makes every later coroutine design fail *)
Lemma before_fixes_statemachine :
  outcome_of compile_coded W_coro (run compile_coded [W_sm]) = Crashed SIr
  /\ outcome_of compile_coded W_coro init = Accepted [].
Proof. vm_compute. split; reflexivity. Qed.

(** (ii) a design rejected in a context: the second later compilation of a prefix design gets p0_1 *)
Lemma before_fixes_block_stack :
  outcome_of compile_coded W_pfx (run compile_coded [W_width; W_pfx]) = Accepted [[P 0; C 1]]
  /\ outcome_of compile_coded W_pfx init = Accepted [[P 0]].
Proof. vm_compute. split; reflexivity. Qed.

(** (iii) rejected under `with std.prefix`: later names are prefixed, the second use of a name crashes *)
Lemma before_fixes_prefix_scope :
  outcome_of compile_coded W_pfxarch (run compile_coded [W_inwith]) = Accepted [[P 4; P 0]]
  /\ outcome_of compile_coded W_pfxarch (run compile_coded [W_inwith; W_pfxarch]) = Crashed SArch
  /\ outcome_of compile_coded W_pfxarch init = Accepted [[P 0]].
Proof. vm_compute. repeat split; reflexivity. Qed.

(** (iv) rejected inside a std.SequentialContext: a design that must be rejected is accepted *)
Lemma before_fixes_current_context :
  outcome_of compile_coded W_needs (run compile_coded [W_clk]) = Accepted []
  /\ outcome_of compile_coded W_needs init = Rejected SPrep.
Proof. vm_compute. split; reflexivity. Qed.

(** (v) rejected by its architecture: the same design is accepted the second time *)
Lemma before_fixes_stale_template :
  outcome_of compile_coded W_arch (run compile_coded [W_arch]) = Accepted []
  /\ outcome_of compile_coded W_arch init = Rejected SArch.
Proof. vm_compute. split; reflexivity. Qed.

(** ** the current tree ([compile]): the same histories give the outcome of a fresh interpreter *)
Lemma current_regressions :
  outcome_of compile W_coro (run compile [W_sm]) = Accepted []
  /\ outcome_of compile W_pfx (run compile [W_width; W_pfx]) = Accepted [[P 0]]
  /\ outcome_of compile W_pfxarch (run compile [W_inwith]) = Accepted [[P 0]]
  /\ outcome_of compile W_pfxarch (run compile [W_inwith; W_pfxarch]) = Accepted [[P 0]]
  /\ outcome_of compile W_needs (run compile [W_clk]) = Rejected SPrep
  /\ outcome_of compile W_arch (run compile [W_arch]) = Rejected SArch.
Proof. vm_compute. repeat split; reflexivity. Qed.

(** the full-state invariant is false of the current tree: returned_blocks and _current_frame stay rebound after a
    design rejected inside IR generation (harmless: [scratch_transparent], [history_independent]) *)
Lemma clean_invariant_refuted :
  exists h, cleanb (run compile h) = false /\ rcleanb (run compile h) = true
            /\ g_rb (run compile h) = true /\ g_fr (run compile h) = true.
Proof. exists [W_sm]. vm_compute. repeat split; reflexivity. Qed.

(** * prefix events *)

Definition pe_ok (p : pent) : Prop := p = PNone \/ p = POther.

Lemma enter_entity_scope se p : p_scope (enter_entity se p) = p_scope p.
Proof. unfold enter_entity. destruct se, (p_pe p); reflexivity. Qed.

Lemma enter_entity_false_pe p : p_pe p <> PStale -> p_pe (enter_entity false p) = PCur.
Proof. unfold enter_entity. destruct (p_pe p) eqn:E; cbn; congruence. Qed.

Lemma mk_prefix_shape se n p p' r :
  mk_prefix se n p = (p', r) ->
  length (p_scope p') = length (p_scope p) /\ tl (p_scope p') = tl (p_scope p) /\ p_pe p' = p_pe (enter_entity se p).
Proof.
  unfold mk_prefix. pose proof (enter_entity_scope se p) as E.
  destruct (p_scope (enter_entity se p)) as [|s rest] eqn:S.
  - intros H; inversion H; subst; cbn. rewrite <- E. auto.
  - destruct (memb n (sc_used s)); intros H; inversion H; subst; cbn; rewrite <- E.
    + rewrite S. auto.
    + cbn. auto.
Qed.

Lemma run_events_shape se evs : forall p p' r,
  run_events se evs p = (p', r) ->
  length (p_scope p') = length (p_scope p) /\ tl (p_scope p') = tl (p_scope p)
  /\ (se = false -> p_pe p <> PStale -> p_pe p' <> PStale).
Proof.
  induction evs as [|n evs IH]; intros p p' r H; cbn in H.
  - inversion H; subst. auto.
  - destruct (mk_prefix se n p) as [p1 [s|]] eqn:M.
    + destruct (run_events se evs p1) as [p2 r2] eqn:R.
      destruct (mk_prefix_shape _ _ _ _ _ M) as (L1 & T1 & P1).
      destruct (IH _ _ _ R) as (L2 & T2 & P2).
      assert (p' = p2) by (destruct r2; inversion H; reflexivity). subst p'.
      repeat split; try congruence.
      intros -> NS. apply P2; [reflexivity|]. rewrite P1, enter_entity_false_pe by assumption. discriminate.
    + inversion H; subst.
      destruct (mk_prefix_shape _ _ _ _ _ M) as (L1 & T1 & P1).
      repeat split; try assumption.
      intros -> NS. rewrite P1, enter_entity_false_pe by assumption. discriminate.
Qed.

(** the first prefix created in a new entity scope clears the table: what was there before is irrelevant *)
Lemma run_events_cons_canon n r p :
  p_pe p <> PCur ->
  run_events false (n :: r) p = run_events false (n :: r) (mkPfx (p_scope p) PNone []).
Proof.
  intros H. cbn [run_events]. unfold mk_prefix, enter_entity. cbn [p_pe p_scope p_pt].
  destruct (p_pe p); try congruence; reflexivity.
Qed.

Lemma demote_scope p : p_scope (demote p) = p_scope p.
Proof. unfold demote. destruct (p_pe p); reflexivity. Qed.

Lemma demote_pe p : p_pe p <> PStale -> pe_ok (p_pe (demote p)).
Proof. unfold demote, pe_ok. destruct (p_pe p) eqn:E; cbn; rewrite ?E; intuition congruence. Qed.

Lemma demote_pt p : p_pt (demote p) = p_pt p.
Proof. unfold demote. destruct (p_pe p); reflexivity. Qed.

Lemma pe_ok_not_cur p : pe_ok p -> p <> PCur.
Proof. intros [-> | ->]; discriminate. Qed.
Lemma pe_ok_not_stale p : pe_ok p -> p <> PStale.
Proof. intros [-> | ->]; discriminate. Qed.

(** * the (outcome-relevant) clean states *)

Definition scratch_clean (g : gstate) : Prop :=
  g_sm g = false /\ g_bs g = 0 /\ g_br g = false /\ g_co g = false /\ g_rs g = 0
  /\ g_pf g = false /\ g_inl g = 0 /\ g_act g = false /\ g_cur g = false /\ g_eh g = 0
  /\ g_stale g = [] /\ g_tt g = [].

Lemma rclean_iff g : rclean g <-> scratch_clean g /\ p_scope (g_pfx g) = [] /\ pe_ok (p_pe (g_pfx g)).
Proof.
  unfold rclean, rcleanb, scratch_clean, pe_ok.
  destruct g as [sm bs [sc pe pt] rb br co rs pf inl act cur fr eh stale tt cache]; cbn.
  split.
  - intros H. repeat (apply andb_prop in H; destruct H as [H ?]).
    destruct sm, br, co, pf, act, cur; try discriminate.
    destruct bs, rs, inl, eh; try discriminate.
    destruct sc, stale, tt; try discriminate.
    destruct pe; try discriminate; intuition.
  - intros ((-> & -> & -> & -> & -> & -> & -> & -> & -> & -> & -> & ->) & -> & [-> | ->]); reflexivity.
Qed.

Lemma cur_after_fixed d f c : cur_after true d f c false = false.
Proof. unfold cur_after. destruct (c && d_ctx_clk d), (f && negb c && d_clk_fail d), (d_clk_ok d); reflexivity. Qed.

(** one compilation under the try/finally discipline, from a clean state: written with the prefix state only *)
Definition fixed_body (d : design) (p : pfx) : pfx * outcome :=
  match run_events false (d_arch_pfx d) p with
  | (pa, None) => (demote pa, Crashed SArch)
  | (pa, Some names_a) =>
      if is_rej (d_verdict d) SArch then (demote pa, Rejected SArch)
      else
        let pd := demote pa in
        let p0 := if d_with d then mkPfx (mkScope (last names_a []) [] :: p_scope pd) (p_pe pd) (p_pt pd) else pd in
        match run_events false (d_ctx_pfx d) p0 with
        | (pc, rc) =>
            let crashed := match rc with None => true | Some _ => false end in
            let failed := crashed || (d_needs_ctx d && true) || is_rej (d_verdict d) SPrep in
            let names := names_a ++ match rc with Some l => l | None => [] end in
            let popped := if d_with d then mkPfx (tl (p_scope pc)) (p_pe pc) (p_pt pc) else pc in
            if failed then (demote popped, if crashed then Crashed SPrep else Rejected SPrep)
            else (demote popped,
                  match d_verdict d with
                  | Rej SIrSm => Rejected SIrSm | Rej SIr => Rejected SIr
                  | Rej SAnalysis => Rejected SAnalysis | Rej SBackend => Rejected SBackend
                  | _ => Accepted names
                  end)
        end
  end.

Lemma fixed_body_props d p :
  p_scope p = [] -> pe_ok (p_pe p) ->
  p_scope (fst (fixed_body d p)) = [] /\ pe_ok (p_pe (fst (fixed_body d p)))
  /\ snd (fixed_body d p) = snd (fixed_body d pfx0).
Proof.
  intros SC PE.
  assert (NC : p_pe p <> PCur) by (apply pe_ok_not_cur; assumption).
  assert (NS : p_pe p <> PStale) by (apply pe_ok_not_stale; assumption).
  unfold fixed_body.
  (* architecture events *)
  assert (A : forall pa ra, run_events false (d_arch_pfx d) p = (pa, ra) ->
              p_scope pa = [] /\ p_pe pa <> PStale /\
              exists pa0, run_events false (d_arch_pfx d) pfx0 = (pa0, ra) /\ p_scope pa0 = [] /\ p_pe pa0 <> PStale
                          /\ (d_arch_pfx d <> [] -> pa0 = pa)).
  { intros pa ra H. destruct (run_events_shape _ _ _ _ _ H) as (L & _ & P).
    rewrite SC in L. split; [destruct (p_scope pa); [reflexivity|discriminate]|]. split; [auto|].
    destruct (d_arch_pfx d) as [|n r] eqn:E.
    - cbn in H. inversion H; subst. exists pfx0. cbn. repeat split; try congruence; try discriminate.
    - rewrite run_events_cons_canon in H by assumption. rewrite SC in H.
      exists pa. change pfx0 with (mkPfx [] PNone []). repeat split; auto.
      destruct (p_scope pa); [reflexivity|discriminate]. }
  destruct (run_events false (d_arch_pfx d) p) as [pa ra] eqn:RA.
  destruct (A _ _ eq_refl) as (SA & NSA & pa0 & RA0 & SA0 & NSA0 & EQA). rewrite RA0.
  destruct ra as [names_a|].
  2:{ cbn. rewrite demote_scope. repeat split; auto using demote_pe. }
  destruct (is_rej (d_verdict d) SArch).
  { cbn. rewrite demote_scope. repeat split; auto using demote_pe. }
  (* context events *)
  set (mk := fun pd : pfx => if d_with d then mkPfx (mkScope (last names_a []) [] :: p_scope pd) (p_pe pd) (p_pt pd) else pd).
  change (if d_with d then mkPfx (mkScope (last names_a []) [] :: p_scope (demote pa)) (p_pe (demote pa)) (p_pt (demote pa)) else demote pa)
    with (mk (demote pa)).
  change (if d_with d then mkPfx (mkScope (last names_a []) [] :: p_scope (demote pa0)) (p_pe (demote pa0)) (p_pt (demote pa0)) else demote pa0)
    with (mk (demote pa0)).
  assert (MS : p_scope (mk (demote pa)) = p_scope (mk (demote pa0))).
  { unfold mk. destruct (d_with d); cbn; rewrite !demote_scope; congruence. }
  assert (MP : pe_ok (p_pe (mk (demote pa))) /\ pe_ok (p_pe (mk (demote pa0)))).
  { unfold mk. destruct (d_with d); cbn; split; apply demote_pe; assumption. }
  assert (ML : length (p_scope (mk (demote pa))) = if d_with d then 1 else 0).
  { unfold mk. destruct (d_with d); cbn; rewrite demote_scope, SA; reflexivity. }
  destruct MP as (MP & MP0).
  assert (C : exists pc0, run_events false (d_ctx_pfx d) (mk (demote pa0)) = (pc0, snd (run_events false (d_ctx_pfx d) (mk (demote pa))))).
  { destruct (d_ctx_pfx d) as [|n r].
    - cbn. eexists; reflexivity.
    - rewrite (run_events_cons_canon n r (mk (demote pa))) by (apply pe_ok_not_cur; assumption).
      rewrite (run_events_cons_canon n r (mk (demote pa0))) by (apply pe_ok_not_cur; assumption).
      rewrite MS. destruct (run_events false (n :: r) _) as [x y]. eexists; reflexivity. }
  destruct C as (pc0 & RC0).
  destruct (run_events false (d_ctx_pfx d) (mk (demote pa))) as [pc rc] eqn:RC. cbn [snd] in RC0. rewrite RC0.
  destruct (run_events_shape _ _ _ _ _ RC) as (L & T & P).
  assert (SCP : p_scope (if d_with d then mkPfx (tl (p_scope pc)) (p_pe pc) (p_pt pc) else pc) = []).
  { rewrite ML in L. destruct (d_with d); cbn.
    - rewrite T. unfold mk. rewrite demote_scope, SA. reflexivity.
    - destruct (p_scope pc); [reflexivity|discriminate]. }
  assert (PEP : p_pe (if d_with d then mkPfx (tl (p_scope pc)) (p_pe pc) (p_pt pc) else pc) <> PStale).
  { assert (p_pe pc <> PStale) by (apply P; [reflexivity | apply pe_ok_not_stale; assumption]).
    destruct (d_with d); assumption. }
  destruct ((match rc with None => true | Some _ => false end) || (d_needs_ctx d && true) || is_rej (d_verdict d) SPrep);
    cbn [fst snd]; rewrite demote_scope; repeat split; auto using demote_pe.
Qed.

Lemma compile_rclean fi d g :
  rclean g ->
  exists rb fr,
    compile_gen true fi d g =
    (set_fr fr (set_rb rb (set_pfx (fst (fixed_body d (g_pfx g))) (set_cache (S (g_cache g)) g))),
     snd (fixed_body d (g_pfx g))).
Proof.
  intros C. apply rclean_iff in C. destruct C as (S & SC & PE).
  destruct g as [sm bs [sc pe pt] rb br co rs pf inl act cur fr eh stale tt cache].
  destruct S as (? & ? & ? & ? & ? & ? & ? & ? & ? & ? & ? & ?). cbn in *. subst.
  assert (Dm : demote (mkPfx [] pe pt) = mkPfx [] pe pt) by (destruct PE as [-> | ->]; reflexivity).
  unfold compile_gen, fixed_body. cbn [g_act g_tt g_stale g_cache set_cache memb existsb g_pfx g_bs g_cur].
  rewrite Dm. cbn [Nat.ltb Nat.leb negb].
  destruct (run_events false (d_arch_pfx d) (mkPfx [] pe pt)) as [pa [names_a|]];
    [|exists rb, fr; reflexivity].
  destruct (is_rej (d_verdict d) SArch); [exists rb, fr; reflexivity|].
  cbn [set_pfx g_sm g_bs g_rb g_br g_co g_rs g_pf g_inl g_act g_cur g_fr g_eh g_stale g_tt g_cache].
  match goal with |- context [run_events false (d_ctx_pfx d) ?p0] => destruct (run_events false (d_ctx_pfx d) p0) as [pc rc] end.
  rewrite !andb_true_r.
  match goal with |- context [if ?f then _ else _] =>
    match f with context [is_rej _ SPrep] => destruct f eqn:F end end.
  - exists rb, fr. rewrite cur_after_fixed. reflexivity.
  - rewrite cur_after_fixed. unfold ir_stage. cbn [g_sm set_cur set_pfx set_cache]. rewrite andb_false_r.
    cbn [fst snd]. destruct (d_verdict d) as [|[]]; destruct fi; do 2 eexists; reflexivity.
Qed.

Lemma rclean_step fi d g :
  rclean g ->
  rclean (fst (compile_gen true fi d g))
  /\ outcome_of (compile_gen true fi) d g = outcome_of (compile_gen true fi) d init.
Proof.
  intros C. unfold outcome_of.
  assert (CI : rclean init) by reflexivity.
  destruct (compile_rclean fi d g C) as (rb & fr & E).
  destruct (compile_rclean fi d init CI) as (rb0 & fr0 & E0).
  rewrite E, E0. cbn [fst snd].
  apply rclean_iff in C. destruct C as (S & SC & PE).
  destruct (fixed_body_props d (g_pfx g) SC PE) as (A & B & EQ).
  split; [|exact EQ].
  apply rclean_iff. destruct g; cbn in *. auto.
Qed.

Lemma rclean_invariant_from fi h : forall g, rclean g -> rclean (fold_left (step (compile_gen true fi)) h g).
Proof.
  induction h as [|d h IH]; intros g C; cbn; [assumption|].
  apply IH. unfold step. apply rclean_step. assumption.
Qed.

(** the current tree *)
Theorem relevant_clean_invariant h : rclean (run compile h).
Proof. apply (rclean_invariant_from false). reflexivity. Qed.

Theorem history_independent h d : outcome_of compile d (run compile h) = outcome_of compile d init.
Proof. apply (rclean_step false), relevant_clean_invariant. Qed.

Theorem relevant_clean_step d g :
  rclean g -> rclean (fst (compile d g)) /\ outcome_of compile d g = outcome_of compile d init.
Proof. apply (rclean_step false). Qed.

(** a tree that also restores the IR scratch variables would in addition keep the full state clean; the outcomes
    are the same as those of the current tree *)
Theorem history_independent_fixed h d : outcome_of compile_fixed d (run compile_fixed h) = outcome_of compile_fixed d init.
Proof. apply (rclean_step true). apply (rclean_invariant_from true). reflexivity. Qed.

Theorem current_equals_fixed_outcome h d : outcome_of compile d (run compile h) = outcome_of compile_fixed d (run compile_fixed h).
Proof.
  rewrite history_independent, history_independent_fixed. unfold outcome_of, compile, compile_fixed.
  destruct (compile_rclean false d init eq_refl) as (? & ? & ->).
  destruct (compile_rclean true d init eq_refl) as (? & ? & ->). reflexivity.
Qed.

(** * the two leaking variables and the caches are transparent (any discipline) *)

Definition erase (g : gstate) : gstate := set_fr false (set_rb false g).

Theorem scratch_transparent fx fi d g rb fr :
  snd (compile_gen fx fi d (set_fr fr (set_rb rb g))) = snd (compile_gen fx fi d g)
  /\ erase (fst (compile_gen fx fi d (set_fr fr (set_rb rb g)))) = erase (fst (compile_gen fx fi d g)).
Proof.
  destruct g as [sm bs pf0 rb0 br co rs pf inl act cur fr0 eh stale tt cache].
  unfold compile_gen, set_fr, set_rb, erase;
    cbn [g_act g_tt g_stale g_cache g_pfx g_bs g_cur g_sm g_rb g_br g_co g_rs g_pf g_inl g_fr g_eh set_cache].
  destruct act; [split; reflexivity|].
  destruct (memb (d_id d) tt); [split; reflexivity|].
  destruct (memb (d_id d) stale); [split; reflexivity|].
  destruct (run_events false (d_arch_pfx d) (demote pf0)) as [pa [names_a|]].
  2:{ destruct fx; split; reflexivity. }
  destruct (is_rej (d_verdict d) SArch).
  { destruct fx; split; reflexivity. }
  match goal with |- context [run_events ?se (d_ctx_pfx d) ?p0] => destruct (run_events se (d_ctx_pfx d) p0) as [pc rc] end.
  match goal with |- context [if ?f then _ else _] =>
    match f with context [is_rej _ SPrep] => destruct f end end.
  - destruct fx; split; reflexivity.
  - unfold ir_stage. cbn [g_sm set_cur set_pfx set_cache].
    destruct (d_coro d && sm); [destruct fi; split; reflexivity|].
    destruct (d_verdict d) as [|[]]; destruct fx, fi; split; reflexivity.
Qed.

Theorem caches_transparent fx fi d g c :
  snd (compile_gen fx fi d (set_cache c g)) = snd (compile_gen fx fi d g)
  /\ set_cache 0 (fst (compile_gen fx fi d (set_cache c g))) = set_cache 0 (fst (compile_gen fx fi d g)).
Proof.
  destruct g as [sm bs pf0 rb br co rs pf inl act cur fr eh stale tt cache].
  unfold compile_gen, set_cache; cbn [g_act g_tt g_stale g_cache g_pfx g_bs g_cur g_sm g_rb g_br g_co g_rs g_pf g_inl g_fr g_eh].
  destruct act; [split; reflexivity|].
  destruct (memb (d_id d) tt); [split; reflexivity|].
  destruct (memb (d_id d) stale); [split; reflexivity|].
  destruct (run_events false (d_arch_pfx d) (demote pf0)) as [pa [names_a|]].
  2:{ destruct fx; split; reflexivity. }
  destruct (is_rej (d_verdict d) SArch).
  { destruct fx; split; reflexivity. }
  match goal with |- context [run_events ?se (d_ctx_pfx d) ?p0] => destruct (run_events se (d_ctx_pfx d) p0) as [pc rc] end.
  match goal with |- context [if ?f then _ else _] =>
    match f with context [is_rej _ SPrep] => destruct f end end.
  - destruct fx; split; reflexivity.
  - unfold ir_stage. cbn [g_sm set_cur set_pfx].
    destruct (d_coro d && sm); [destruct fi; split; reflexivity|].
    destruct (d_verdict d) as [|[]]; destruct fx, fi; split; reflexivity.
Qed.

(** * the tree before the fixes: only rejections at architecture / PrepareAst / IR generation could poison *)

Definition harmless (d : design) : bool :=
  negb (d_needs_ctx d) &&
  match d_verdict d with Ok | Rej SAnalysis | Rej SBackend => true | _ => false end.

Lemma compile_coded_rclean_harmless d g :
  rclean g -> harmless d = true -> (forall s, outcome_of compile_coded d g <> Crashed s) ->
  compile_coded d g = compile d g.
Proof.
  intros C Hh NCr. apply rclean_iff in C. destruct C as (S & SC & PE).
  destruct g as [sm bs [sc pe pt] rb br co rs pf inl act cur fr eh stale tt cache].
  destruct S as (? & ? & ? & ? & ? & ? & ? & ? & ? & ? & ? & ?). cbn in *. subst.
  unfold harmless in Hh. apply andb_prop in Hh. destruct Hh as [N V].
  destruct (d_needs_ctx d) eqn:NC; [discriminate|].
  unfold outcome_of, compile, compile_coded, compile_gen in *.
  cbn [g_act g_tt g_stale g_cache set_cache memb existsb g_pfx g_bs g_cur Nat.ltb Nat.leb] in *.
  rewrite NC in NCr. rewrite NC.
  destruct (run_events false (d_arch_pfx d) (demote (mkPfx [] pe pt))) as [pa [names_a|]] eqn:RA.
  2:{ exfalso. apply (NCr SArch). reflexivity. }
  destruct (d_verdict d) as [|[]] eqn:Vd; try discriminate; cbn [is_rej] in *.
  all: cbn [andb orb] in *.
  all: match goal with |- context [run_events false ?ev ?p0] =>
         destruct (run_events false ev p0) as [pc [l|]] eqn:RC end; cbn [orb] in *.
  all: try (exfalso; apply (NCr SPrep); reflexivity).
  all: unfold ir_stage; rewrite Vd; cbn [g_sm set_cur set_pfx]; rewrite andb_false_r; reflexivity.
Qed.

Theorem before_fixes_harmless_preserves_clean d g :
  rclean g -> harmless d = true -> (forall s, outcome_of compile_coded d g <> Crashed s) ->
  rclean (fst (compile_coded d g)) /\ outcome_of compile_coded d g = outcome_of compile d init.
Proof.
  intros C Hh NCr. unfold outcome_of. rewrite (compile_coded_rclean_harmless d g C Hh NCr).
  apply relevant_clean_step. assumption.
Qed.
