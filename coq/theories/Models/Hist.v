(** C11 - compilation is a pure function of the design, independent of history.

    [gstate]  : the module/class level scratch state of the compiler that a compilation writes
                (enumerated from the source, see the field comments);
    [design]  : the class of a design - which of those variables its compilation touches and where
                (if anywhere) it is rejected;
    [compile_gen fx fi] : one call of std.VhdlCompiler.to_string, stage by stage, performing exactly the
                set / restore operations of the code on normal and on exceptional exit.
                [fx]: the exits repaired by the five fix: commits restore their state (false = the tree before them);
                [fi]: the IR scratch variables (returned_blocks, _current_frame) are restored as well (not in /repo).
                [compile] = [compile_gen true false] is the CURRENT tree.

    Tied to /repo by harness/c11.py: histories over a pool of designs run in ONE interpreter, the real globals
    are read after every compilation and compared with [run] inside Coq ([hist_ok]). *)
From Coq Require Import List Bool Arith PeanoNat.
Import ListNotations.

(** * generated names *)

(** a prefix string "p4_1_p0" is the token list [P 4; C 1; P 0] *)
Inductive tok := P (n : nat) | C (c : nat).
Definition pstr := list tok.

Definition tok_eqb (a b : tok) : bool :=
  match a, b with
  | P x, P y => Nat.eqb x y
  | C x, C y => Nat.eqb x y
  | _, _ => false
  end.

Fixpoint pstr_eqb (a b : pstr) : bool :=
  match a, b with
  | [], [] => true
  | x :: a', y :: b' => tok_eqb x y && pstr_eqb a' b'
  | _, _ => false
  end.

Definition memb (n : nat) (l : list nat) : bool := existsb (Nat.eqb n) l.

(** * std/_prefix.py : _Prefix._prefix_scope / _current_entity / _existing_prefix *)

(** what _Prefix._current_entity points to: nothing, the stale bottom of _block_stack, the entity / dummy block
    of the scope being compiled right now, or an object of an earlier scope (never identical to a later one) *)
Inductive pent := PNone | PStale | PCur | POther.

(** a _Prefix object on _prefix_scope: its string and the names already handed out by [name()] *)
Record scope := mkScope { sc_str : pstr; sc_used : list nat }.

Record pfx := mkPfx {
  p_scope : list scope;          (* _Prefix._prefix_scope, innermost first *)
  p_pe : pent;                   (* _Prefix._current_entity *)
  p_pt : list (pstr * nat)       (* _Prefix._existing_prefix *)
}.

Fixpoint lookup (k : pstr) (t : list (pstr * nat)) : nat :=
  match t with
  | [] => 0
  | (k', c) :: r => if pstr_eqb k k' then c else lookup k r
  end.

Fixpoint bump (k : pstr) (t : list (pstr * nat)) : list (pstr * nat) :=
  match t with
  | [] => [(k, 1)]
  | (k', c) :: r => if pstr_eqb k k' then (k', S c) :: r else (k', c) :: bump k r
  end.

Definition suffix (c : nat) : pstr := match c with 0 => [] | _ => [C c] end.

(** _Prefix.__init__ l.20-25: "clear static variables when inside a new entity".
    [stale_ent]: current_entity() (= _block_stack[0]) is the stale bottom left by an earlier rejection *)
Definition enter_entity (stale_ent : bool) (p : pfx) : pfx :=
  if stale_ent
  then match p_pe p with PStale => p | _ => mkPfx (p_scope p) PStale [] end
  else match p_pe p with PCur => p | _ => mkPfx (p_scope p) PCur [] end.

(** std.prefix("p<n>") (not a subprefix), l.19-43.  [None]: the assertion of [name()] l.55 fires *)
Definition mk_prefix (stale_ent : bool) (n : nat) (p : pfx) : pfx * option pstr :=
  let p1 := enter_entity stale_ent p in
  match p_scope p1 with
  | [] =>
      let base := [P n] in
      (mkPfx [] (p_pe p1) (bump base (p_pt p1)), Some (base ++ suffix (lookup base (p_pt p1))))
  | s :: r =>
      if memb n (sc_used s) then (p1, None)
      else
        let base := sc_str s ++ [P n] in
        (mkPfx (mkScope (sc_str s) (sc_used s ++ [n]) :: r) (p_pe p1) (bump base (p_pt p1)),
         Some (base ++ suffix (lookup base (p_pt p1))))
  end.

Fixpoint run_events (stale_ent : bool) (evs : list nat) (p : pfx) : pfx * option (list pstr) :=
  match evs with
  | [] => (p, Some [])
  | n :: r =>
      match mk_prefix stale_ent n p with
      | (p1, None) => (p1, None)
      | (p1, Some s) =>
          match run_events stale_ent r p1 with
          | (p2, None) => (p2, None)
          | (p2, Some l) => (p2, Some (s :: l))
          end
      end
  end.

(** leaving an entity scope: its template / dummy block is never seen again *)
Definition demote (p : pfx) : pfx :=
  match p_pe p with PCur => mkPfx (p_scope p) POther (p_pt p) | _ => p end.

(** * the global state *)

Record gstate := mkG {
  g_sm : bool;          (* _repr.py l.1189 StatemachineContext._singleton is set *)
  g_bs : nat;           (* _context.py l.16 len(_block_stack); its bottom is stale iff > 0 *)
  g_pfx : pfx;          (* std/_prefix.py l.8-10 *)
  g_rb : bool;          (* _generate_ir.py l.138 IrGenerator.returned_blocks rebound to a dead list *)
  g_br : bool;          (* l.132 _break_result rebound *)
  g_co : bool;          (* l.133 _continue_result rebound *)
  g_rs : nat;           (* _prepare_ast.py l.125 depth of _return_stack *)
  g_pf : bool;          (* l.66 _parent_frame set *)
  g_inl : nat;          (* l.67 len(_inline_declared_entities) *)
  g_act : bool;         (* l.2284 _active_converter_instance (+ the two handlers of _context.py l.17/47) *)
  g_cur : bool;         (* std/_context.py l.644 _current_context (+ _current_context_data) *)
  g_fr : bool;          (* _repr.py l.106 ir.Statement._current_frame set *)
  g_eh : nat;           (* std/_exception.py l.56 len(StdExceptionHandler._handler_list) *)
  g_stale : list nat;   (* entity classes whose EntityInfo.instantiated keeps a partially built template *)
  g_tt : list nat;      (* ... whose instantiated_template is kept as well *)
  g_cache : nat         (* _SubTypes caches, FunctionDefinition._known_definitions, _prepare_ast_out.count:
                           grow monotonically, never consulted for a decision *)
}.

Definition pfx0 : pfx := mkPfx [] PNone [].
Definition init : gstate :=
  mkG false 0 pfx0 false false false 0 false 0 false false false 0 [] [] 0.

(** * designs *)

Inductive stage := SArch | SPrep | SIr | SIrSm | SAnalysis | SBackend.
Inductive verdict := Ok | Rej (s : stage).

Record design := mkD {
  d_id : nat;                (* identity of the entity class (a repeated design is the same class) *)
  d_arch_pfx : list nat;     (* std.prefix(p<n>) creations executed by architecture() (before it fails) *)
  d_ctx_pfx : list nat;      (* ... executed while the contexts of the top entity are converted *)
  d_with : bool;             (* the contexts are declared under `with <last prefix created by architecture()>` *)
  d_depth : nat;             (* number of dummy blocks on _block_stack while those contexts are converted *)
  d_clk_ok : bool;           (* a std.SequentialContext context completes PrepareAst (_enter/_exit_context) *)
  d_clk_fail : bool;         (* the PrepareAst rejection happens inside a std.SequentialContext context *)
  d_ctx_clk : bool;          (* the context that executes d_ctx_pfx is a std.SequentialContext context *)
  d_needs_ctx : bool;        (* a context NOT created from a Clock asks SequentialContext.current() *)
  d_coro : bool;             (* a coroutine reaches IR generation (StatemachineContext.enter) before any IR failure *)
  d_in_call : bool;          (* the statemachine / the IR rejection is nested in a function call (out.Call) *)
  d_in_apply : bool;         (* the IR rejection is raised inside IrGenerator.apply *)
  d_eh : nat;                (* `with std.exception.StdExceptionHandler(..)` blocks open where PrepareAst rejects *)
  d_verdict : verdict        (* where the design itself is rejected, if anywhere *)
}.

Inductive outcome :=
| Accepted (names : list pstr)     (* output class: the generated names that depend on the prefix tables *)
| Rejected (s : stage)
| Crashed (s : stage).             (* fails for a reason that is not a property of the design *)

(** * field updates *)

Definition set_pfx (p : pfx) (g : gstate) : gstate :=
  mkG (g_sm g) (g_bs g) p (g_rb g) (g_br g) (g_co g) (g_rs g) (g_pf g) (g_inl g) (g_act g) (g_cur g) (g_fr g)
      (g_eh g) (g_stale g) (g_tt g) (g_cache g).
Definition set_sm (b : bool) (g : gstate) : gstate :=
  mkG b (g_bs g) (g_pfx g) (g_rb g) (g_br g) (g_co g) (g_rs g) (g_pf g) (g_inl g) (g_act g) (g_cur g) (g_fr g)
      (g_eh g) (g_stale g) (g_tt g) (g_cache g).
Definition set_bs (n : nat) (g : gstate) : gstate :=
  mkG (g_sm g) n (g_pfx g) (g_rb g) (g_br g) (g_co g) (g_rs g) (g_pf g) (g_inl g) (g_act g) (g_cur g) (g_fr g)
      (g_eh g) (g_stale g) (g_tt g) (g_cache g).
Definition set_rb (b : bool) (g : gstate) : gstate :=
  mkG (g_sm g) (g_bs g) (g_pfx g) b (g_br g) (g_co g) (g_rs g) (g_pf g) (g_inl g) (g_act g) (g_cur g) (g_fr g)
      (g_eh g) (g_stale g) (g_tt g) (g_cache g).
Definition set_cur (b : bool) (g : gstate) : gstate :=
  mkG (g_sm g) (g_bs g) (g_pfx g) (g_rb g) (g_br g) (g_co g) (g_rs g) (g_pf g) (g_inl g) (g_act g) b (g_fr g)
      (g_eh g) (g_stale g) (g_tt g) (g_cache g).
Definition set_fr (b : bool) (g : gstate) : gstate :=
  mkG (g_sm g) (g_bs g) (g_pfx g) (g_rb g) (g_br g) (g_co g) (g_rs g) (g_pf g) (g_inl g) (g_act g) (g_cur g) b
      (g_eh g) (g_stale g) (g_tt g) (g_cache g).
Definition set_eh (n : nat) (g : gstate) : gstate :=
  mkG (g_sm g) (g_bs g) (g_pfx g) (g_rb g) (g_br g) (g_co g) (g_rs g) (g_pf g) (g_inl g) (g_act g) (g_cur g) (g_fr g)
      n (g_stale g) (g_tt g) (g_cache g).
Definition set_stale (l : list nat) (g : gstate) : gstate :=
  mkG (g_sm g) (g_bs g) (g_pfx g) (g_rb g) (g_br g) (g_co g) (g_rs g) (g_pf g) (g_inl g) (g_act g) (g_cur g) (g_fr g)
      (g_eh g) l (g_tt g) (g_cache g).
Definition set_tt (l : list nat) (g : gstate) : gstate :=
  mkG (g_sm g) (g_bs g) (g_pfx g) (g_rb g) (g_br g) (g_co g) (g_rs g) (g_pf g) (g_inl g) (g_act g) (g_cur g) (g_fr g)
      (g_eh g) (g_stale g) l (g_cache g).
Definition set_cache (c : nat) (g : gstate) : gstate :=
  mkG (g_sm g) (g_bs g) (g_pfx g) (g_rb g) (g_br g) (g_co g) (g_rs g) (g_pf g) (g_inl g) (g_act g) (g_cur g) (g_fr g)
      (g_eh g) (g_stale g) (g_tt g) c.

Definition is_rej (v : verdict) (s : stage) : bool :=
  match v, s with
  | Rej SArch, SArch | Rej SPrep, SPrep | Rej SIr, SIr | Rej SIrSm, SIrSm
  | Rej SAnalysis, SAnalysis | Rej SBackend, SBackend => true
  | _, _ => false
  end.

(** * one compilation *)

(** Entity.__init__ (_context.py l.256-274): info.instantiated is assigned BEFORE architecture() is called and
    the entity is registered for _discard_instantiation only AFTER it returned.  coded: an architecture that
    raises leaves the partial template behind. *)
Definition leak_arch (fx : bool) (d : design) (g : gstate) : gstate :=
  if fx then g else set_stale (d_id d :: g_stale g) g.

(** the std.SequentialContext wrapper: _enter_context ... fn() ... _exit_context (std/_context.py l.866-888) *)
Definition cur_after (fx : bool) (d : design) (failed crashed : bool) (cur : bool) : bool :=
  if crashed && d_ctx_clk d then negb fx
  else if failed && negb crashed && d_clk_fail d then negb fx
  else if d_clk_ok d then false else cur.

(** coded: the dummy block the prefix table is attached to stays at the bottom of _block_stack *)
Definition stale_promote (p : pfx) : pfx :=
  match p_pe p with PCur => mkPfx (p_scope p) PStale (p_pt p) | _ => p end.

(** IR generation of the contexts (runs after ConvertPythonInstance.__exit__) *)
Definition ir_stage (fx fi : bool) (d : design) (names : list pstr) (g : gstate) : gstate * outcome :=
  (* l.146-155 _current_frame and l.330-341 returned_blocks are restored on the normal path only *)
  let scratch (in_apply : bool) (g : gstate) : gstate :=
    if fi then g else set_fr (g_fr g || in_apply) (set_rb (g_rb g || (d_in_call d && in_apply)) g) in
  if d_coro d && g_sm g then
    (* StatemachineContext.enter l.1193: "error nested StatemachineContext", raised inside apply / Call *)
    (scratch true g, Crashed SIr)
  else
    match d_verdict d with
    | Rej SIrSm =>
        (* _generate_ir.py l.557-561: enter .. finish; before 73c9e08 without try/finally *)
        ((if fx then scratch true g else set_sm true (scratch true g)), Rejected SIrSm)
    | Rej SIr => (scratch (d_in_apply d) g, Rejected SIr)
    | Rej SAnalysis => (g, Rejected SAnalysis)
    | Rej SBackend => (g, Rejected SBackend)
    | _ => (g, Accepted names)
    end.

Definition compile_gen (fx fi : bool) (d : design) (g : gstate) : gstate * outcome :=
  if g_act g then (g, Crashed SArch)      (* ConvertPythonInstance.__enter__ l.2302; restored by `with` *)
  else
  let g := set_cache (S (g_cache g)) g in
  if memb (d_id d) (g_tt g) then (g, Accepted [])         (* cached partial template, l.2352/2406 *)
  else if memb (d_id d) (g_stale g) then
    (* info.instantiated is set: architecture() is skipped (_context.py l.238), the partial template is
       converted and kept (nobody registered the entity for _discard_instantiation) *)
    (set_tt (d_id d :: g_tt g) g, Accepted [])
  else
  (* ---- architecture(): _block_stack = [fresh template], restored by finally ---- *)
  match run_events false (d_arch_pfx d) (demote (g_pfx g)) with
  | (pa, None) => (leak_arch fx d (set_pfx (demote pa) g), Crashed SArch)
  | (pa, Some names_a) =>
  if is_rej (d_verdict d) SArch then (leak_arch fx d (set_pfx (demote pa) g), Rejected SArch)
  else
  (* ---- PrepareAst of the contexts: _block_stack.append(dummy) .. pop() (l.2380-2388) ---- *)
  let pd := demote pa in
  let p0 := if d_with d
            then mkPfx (mkScope (last names_a []) [] :: p_scope pd) (p_pe pd) (p_pt pd)   (* `with prefix:` *)
            else pd in
  match run_events (0 <? g_bs g) (d_ctx_pfx d) p0 with
  | (pc, rc) =>
  let crashed := match rc with None => true | Some _ => false end in
  let failed := crashed || (d_needs_ctx d && negb (g_cur g)) || is_rej (d_verdict d) SPrep in
  let names := names_a ++ match rc with Some l => l | None => [] end in
  let popped := if d_with d then mkPfx (tl (p_scope pc)) (p_pe pc) (p_pt pc) else pc in
  if failed then
    (* coded: the dummy blocks stay on _block_stack, `with prefix:` / `with StdExceptionHandler(..):` are
       never left (their __exit__ is only called by the code generated for the normal path, _prepare_ast.py
       l.2193-2209), _exit_context is never reached *)
    let g1 := set_cur (cur_after fx d true crashed (g_cur g))
                (set_pfx (if fx then demote popped else stale_promote pc)
                   (if fx then g else set_eh (g_eh g + d_eh d) (set_bs (g_bs g + d_depth d) g))) in
    (g1, if crashed then Crashed SPrep else Rejected SPrep)
  else
    ir_stage fx fi d names (set_cur (cur_after fx d false false (g_cur g)) (set_pfx (demote popped) g))
  end
  end.

(** the CURRENT tree: the five fix: commits 73c9e08 72ebcaa 215d68c 5bdcba1 36732b7 restore the state on the
    exceptional exits; IrGenerator.returned_blocks and ir.Statement._current_frame still leak (they are written
    before they are read in every compilation: [scratch_transparent] in HistProofs.v) *)
Definition compile : design -> gstate -> gstate * outcome := compile_gen true false.
(** the tree before those commits (kept for the regression witnesses) and a tree with every exit restored *)
Definition compile_coded : design -> gstate -> gstate * outcome := compile_gen false false.
Definition compile_fixed : design -> gstate -> gstate * outcome := compile_gen true true.

Definition step (c : design -> gstate -> gstate * outcome) (g : gstate) (d : design) : gstate := fst (c d g).
Definition run (c : design -> gstate -> gstate * outcome) (h : list design) : gstate := fold_left (step c) h init.

(** the outcome-relevant variables are back at their import-time value: everything except the prefix table and the
    caches (the table is not attached to a live object) and except returned_blocks / _current_frame, which no
    compilation reads before writing them *)
Definition rcleanb (g : gstate) : bool :=
  negb (g_sm g) && Nat.eqb (g_bs g) 0
  && match p_scope (g_pfx g) with [] => true | _ => false end
  && match p_pe (g_pfx g) with PNone | POther => true | _ => false end
  && negb (g_br g) && negb (g_co g) && Nat.eqb (g_rs g) 0 && negb (g_pf g)
  && Nat.eqb (g_inl g) 0 && negb (g_act g) && negb (g_cur g) && Nat.eqb (g_eh g) 0
  && match g_stale g with [] => true | _ => false end
  && match g_tt g with [] => true | _ => false end.
Definition rclean (g : gstate) : Prop := rcleanb g = true.
(** every scratch variable, including the two harmless ones *)
Definition cleanb (g : gstate) : bool := rcleanb g && negb (g_rb g) && negb (g_fr g).
Definition clean (g : gstate) : Prop := cleanb g = true.

(** * correspondence with the real compiler (evaluated by harness/c11.py) *)

Record obs := mkObs {
  o_ok : bool; o_stage : option stage; o_names : list pstr;
  o_sm : bool; o_bs : nat; o_scope : list (pstr * list nat); o_pe : nat; o_pt : list (pstr * nat);
  o_rb : bool; o_br : bool; o_co : bool; o_rs : nat; o_pf : bool; o_inl : nat; o_act : bool;
  o_cur : bool; o_fr : bool; o_eh : nat; o_ti : bool; o_tt : bool
}.

Definition stage_eqb (a b : stage) : bool :=
  match a, b with
  | SArch, SArch | SPrep, SPrep | SIr, SIr | SIrSm, SIrSm | SAnalysis, SAnalysis | SBackend, SBackend => true
  | _, _ => false
  end.

Fixpoint list_eqb {A B} (e : A -> B -> bool) (a : list A) (b : list B) : bool :=
  match a, b with
  | [], [] => true
  | x :: a', y :: b' => e x y && list_eqb e a' b'
  | _, _ => false
  end.

Definition outcome_matches (out : outcome) (o : obs) : bool :=
  match out, o_ok o, o_stage o with
  | Accepted ns, true, None => list_eqb pstr_eqb ns (o_names o)
  | Rejected s, false, Some s' => stage_eqb s s'
  | Crashed s, false, Some s' => stage_eqb s s'
  | _, _, _ => false
  end.

Definition pe_code (p : pent) : nat := match p with PNone => 0 | PStale => 1 | PCur => 3 | POther => 2 end.

Definition table_matches (t : list (pstr * nat)) (o : list (pstr * nat)) : bool :=
  Nat.eqb (length t) (length o) && forallb (fun kc => Nat.eqb (lookup (fst kc) t) (snd kc)) o.

Definition scope_matches (s : list scope) (o : list (pstr * list nat)) : bool :=
  list_eqb (fun a b => pstr_eqb (sc_str a) (fst b) && list_eqb Nat.eqb (sc_used a) (snd b)) s o.

Definition state_matches (d : design) (g : gstate) (o : obs) : bool :=
  Bool.eqb (g_sm g) (o_sm o) && Nat.eqb (g_bs g) (o_bs o)
  && scope_matches (p_scope (g_pfx g)) (o_scope o)
  && Nat.eqb (pe_code (p_pe (g_pfx g))) (o_pe o)
  && table_matches (p_pt (g_pfx g)) (o_pt o)
  && Bool.eqb (g_rb g) (o_rb o) && Bool.eqb (g_br g) (o_br o) && Bool.eqb (g_co g) (o_co o)
  && Nat.eqb (g_rs g) (o_rs o) && Bool.eqb (g_pf g) (o_pf o) && Nat.eqb (g_inl g) (o_inl o)
  && Bool.eqb (g_act g) (o_act o) && Bool.eqb (g_cur g) (o_cur o) && Bool.eqb (g_fr g) (o_fr o)
  && Nat.eqb (g_eh g) (o_eh o)
  && Bool.eqb (memb (d_id d) (g_stale g)) (o_ti o)
  && Bool.eqb (memb (d_id d) (g_tt g)) (o_tt o).

(** a history with the observations made on the real compiler after every compilation *)
Fixpoint hist_from (c : design -> gstate -> gstate * outcome) (g : gstate) (h : list (design * obs)) : bool :=
  match h with
  | [] => true
  | (d, o) :: r =>
      let '(g', out) := c d g in
      outcome_matches out o && state_matches d g' o && hist_from c g' r
  end.

Definition hist_ok (c : design -> gstate -> gstate * outcome) (h : list (design * obs)) : bool :=
  hist_from c init h.
