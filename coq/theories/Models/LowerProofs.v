(** * LowerProofs: the lowering of [Lower.v] is clock accurate for ALL programs of the grammar.

    [lower_correct]: for every [p] with [in_grammar p = true] and every input sequence (any length)
    the machine [lower p] and the reference coroutine semantics [Coro.ref_step p] have the same trace.

    Method: a step-indexed simulation [sim j c n] ("for the next [j] clocks, machine state [n] behaves
    like reference control state [c]"), and a Hoare-style lemma [exec_sim] by induction on the statement:
    the code [ctree s ...] placed in the current state behaves like [Coro.exec f s k ...] for every
    fuel [f >= fneed s nf], given specifications of the four ways [s] can hand over control without a
    clock passing (fall through / break / continue / return: [Now]) and of the same after a clock
    ([Later], one index lower).  Fuel: [fchk] makes [Coro.ref_fuel] sufficient at every resumption. *)
From Coq Require Import ZArith NArith List Bool Lia Arith.
From Cohdl Require Import Base.Bits Vhdl.Value Models.Coro Models.Lower Equiv.Explore.
Import ListNotations.

Local Opaque ref_fuel.

(** ** static facts *)
Lemma fo_false s : fo s false = false.
Proof.
  induction s as [| | a IHa b IHb | | | |c| | | |b0 IHb0| |]; cbn; try reflexivity.
  - rewrite IHa. exact IHb.
  - destruct c; reflexivity.
  - exact IHb0.
  - apply andb_false_r.
Qed.

Lemma fo_true_first s f : fo s f = true -> f = true.
Proof. destruct f; [reflexivity|]. rewrite fo_false. discriminate. Qed.

Lemma ctree_transparent s : forall o E r, fo s true = true -> ctree s o E true r = r.
Proof.
  induction s as [| | a IHa b IHb | | | |c| | | |b0 IHb0| |]; intros o E r H; cbn in *; try discriminate; try reflexivity.
  - pose proof (fo_true_first _ _ H) as Ha. rewrite Ha in H |- *. rewrite (IHa _ _ _ Ha). apply IHb. exact H.
  - destruct c; try discriminate. reflexivity.
  - apply IHb0. exact H.
  - destruct (n =? 1)%Z; [reflexivity|discriminate].
Qed.

Lemma fneed_ge s : forall nf, (nf <= fneed s nf)%nat.
Proof.
  induction s as [| | a IHa b IHb |c t IHt e IHe|c b IHb| | | | | |b0 IHb0| |]; intros nf; cbn; try lia.
  - specialize (IHa (S (fneed b nf))). specialize (IHb nf). lia.
  - specialize (IHt nf). lia.
  - specialize (IHb0 (S nf)). lia.
Qed.

Lemma ctree_indep s : forall o E E' f r r',
  (zfall s f = true -> r = r') ->
  (zbrk s f = true -> e_brk E = e_brk E') ->
  (zcnt s f = true -> e_cnt E = e_cnt E') ->
  (zret s f = true -> e_ret E = e_ret E') ->
  ctree s o E f r = ctree s o E' f r'.
Proof.
  induction s as [| | a IHa b IHb |c t IHt e IHe|c b IHb| |c| | | |b0 IHb0| |]; intros o E E' f r r' Hf Hb Hc Hr; cbn in *;
    try reflexivity; try (apply Hf; reflexivity); try (apply Hb; reflexivity); try (apply Hc; reflexivity);
    try (apply Hr; reflexivity).
  - f_equal. apply Hf. reflexivity.
  - apply IHa.
    + intros Ha. rewrite Ha in *. cbn in *. apply IHb.
      * exact Hf.
      * intros Hz. apply Hb. rewrite Hz. apply orb_true_r.
      * intros Hz. apply Hc. rewrite Hz. apply orb_true_r.
      * intros Hz. apply Hr. rewrite Hz. apply orb_true_r.
    + intros Hz. apply Hb. rewrite Hz. reflexivity.
    + intros Hz. apply Hc. rewrite Hz. reflexivity.
    + intros Hz. apply Hr. rewrite Hz. reflexivity.
  - f_equal.
    + apply IHt; intros Hz; [apply Hf|apply Hb|apply Hc|apply Hr]; rewrite Hz; reflexivity.
    + apply IHe; intros Hz; [apply Hf|apply Hb|apply Hc|apply Hr]; rewrite Hz; apply orb_true_r.
  - destruct f; [|reflexivity]. cbn in Hr. rewrite (Hf eq_refl).
    rewrite (IHb (S o) {| e_brk := r'; e_cnt := TStay; e_ret := e_ret E |}
                 {| e_brk := r'; e_cnt := TStay; e_ret := e_ret E' |} false (TGoto O) (TGoto O)); auto.
  - destruct f; [|reflexivity]. apply Hf. reflexivity.
  - destruct c; destruct f; try reflexivity; rewrite (Hf eq_refl); reflexivity.
  - apply IHb0; cbn [e_brk e_cnt e_ret]; auto.
    + intros Hz. apply Hf. rewrite Hz. reflexivity.
    + intros Hz. apply Hf. rewrite Hz. apply orb_true_r.
  - destruct (n =? 1)%Z; [|reflexivity]. destruct f; [|reflexivity]. apply Hf. reflexivity.
  - destruct allow_zero; [|reflexivity]. rewrite (Hf eq_refl). reflexivity.
Qed.

(** ** the reference, one clock, on control state and work *)
Definition rclock (p : stmt) (c : ctrl) (inp : cinp) (w : work) : ctrl * work :=
  match c with
  | AtStart => exec ref_fuel inp p KStop true w
  | Polling c k => if ceval inp w.(w_v) c then cont ref_fuel inp k false w else (Polling c k, w)
  | Delay k => cont ref_fuel inp k false w
  | Waiting m k => if (m <=? 0)%Z then (Delay k, w) else (Waiting (m - 1) k, w)
  | LoopHead c b k =>
      if oceval inp w.(w_v) c then exec ref_fuel inp b (KLoop c b k) false w
      else cont ref_fuel inp k false w
  | Halted => (Halted, w)
  | Stuck => (Stuck, w)
  end.

Definition rwork (st : rstate) : work := {| w_v := st.(r_v); w_cnt := st.(r_cnt); w_mark := st.(r_mark) |}.
Definition rpack (r : ctrl * work) : rstate :=
  {| r_ctrl := fst r; r_v := (snd r).(w_v); r_cnt := (snd r).(w_cnt); r_mark := (snd r).(w_mark) |}.

Lemma clock_rclock p st inp : clock p st inp = rpack (rclock p st.(r_ctrl) inp (rwork st)).
Proof.
  unfold clock, rclock, rwork. cbv zeta.
  match goal with |- _ = rpack ?Y => destruct Y as [c' w'] end. reflexivity.
Qed.

Section Sim.
Variable p : stmt.
Variable m : machine.
(** the assumption on the inputs of a clock ([Lower.okd]; trivial for programs without run-time durations) *)
Variable ok : cinp -> Prop.

(** [q] = successor machine configuration (state, objects, wait counter) *)
Definition good (inp : cinp) (S : ctrl -> nat -> Z -> Prop) (r : ctrl * work) (q : nat * work * Z) : Prop :=
  ok inp -> fst r <> Stuck /\ snd r = snd (fst q) /\ S (fst r) (fst (fst q)) (snd q).

Fixpoint sim (j : nat) (c : ctrl) (n : nat) (wc : Z) : Prop :=
  match j with
  | O => True
  | S j' => forall inp w, good inp (sim j') (rclock p c inp w) (run_tree inp (tree_at m n) n w wc wc)
  end.

Lemma sim_mono j : forall c n wc, sim (S j) c n wc -> sim j c n wc.
Proof.
  induction j as [|j IH]; intros c n wc H; [exact I|].
  intros inp w Hok. destruct (H inp w Hok) as (H1 & H2 & H3). repeat split; auto.
Qed.

Lemma good_mono inp j r q : good inp (sim (S j)) r q -> good inp (sim j) r q.
Proof. intros H Hok. destruct (H Hok) as (H1 & H2 & H3). repeat split; auto using sim_mono. Qed.

(** ** specifications of a continuation *)
Definition fallspec (j : nat) (k : kont) (rest : tree) (fl : bool) (nf : nat) : Prop :=
  forall f inp w cur rc pc, (nf <= f)%nat -> (fl = true -> cur = O) ->
    good inp (sim j) (cont f inp k fl w) (run_tree inp rest cur w rc pc).
Definition brkspec (j : nat) (k : kont) (E : env) (nf : nat) : Prop :=
  forall f inp w cur rc pc, (nf <= f)%nat ->
    good inp (sim j) (exec f inp Break k false w) (run_tree inp (e_brk E) cur w rc pc).
Definition cntspec (j : nat) (k : kont) (E : env) (nf : nat) : Prop :=
  forall f inp w cur rc pc, (nf <= f)%nat ->
    good inp (sim j) (exec f inp Continue k false w) (run_tree inp (e_cnt E) cur w rc pc).

Definition retspec (j : nat) (k : kont) (E : env) (nf : nat) : Prop :=
  forall f inp w cur rc pc, (nf <= f)%nat ->
    good inp (sim j) (exec f inp Return k false w) (run_tree inp (e_ret E) cur w rc pc).

Definition Full j k rest E nf (il ic : bool) : Prop :=
  fallspec j k rest false nf /\ (il = true -> brkspec j k E nf /\ cntspec j k E nf) /\
  (ic = true -> retspec j k E nf).
Definition Later j k rest E nf il ic : Prop :=
  match j with O => True | S j' => Full j' k rest E nf il ic end.
Definition Now j (s : stmt) (first : bool) k rest E nf : Prop :=
  (zfall s first = true -> fallspec j k rest (fo s first) nf) /\
  (zbrk s first = true -> brkspec j k E nf) /\
  (zcnt s first = true -> cntspec j k E nf) /\
  (zret s first = true -> retspec j k E nf).

Lemma fallspec_mono j k rest fl nf : fallspec (S j) k rest fl nf -> fallspec j k rest fl nf.
Proof. intros H f inp w cur rc pc Hf Hc. apply good_mono, H; assumption. Qed.
Lemma brkspec_mono j k E nf : brkspec (S j) k E nf -> brkspec j k E nf.
Proof. intros H f inp w cur rc pc Hf. apply good_mono, H; assumption. Qed.
Lemma cntspec_mono j k E nf : cntspec (S j) k E nf -> cntspec j k E nf.
Proof. intros H f inp w cur rc pc Hf. apply good_mono, H; assumption. Qed.
Lemma retspec_mono j k E nf : retspec (S j) k E nf -> retspec j k E nf.
Proof. intros H f inp w cur rc pc Hf. apply good_mono, H; assumption. Qed.
Lemma Full_mono j k rest E nf il ic : Full (S j) k rest E nf il ic -> Full j k rest E nf il ic.
Proof.
  intros (H1 & H2 & H3). split; [apply fallspec_mono, H1|]. split.
  - intros Hi. destruct (H2 Hi) as [Hb Hc]. split; [apply brkspec_mono, Hb|apply cntspec_mono, Hc].
  - intros Hi. apply retspec_mono, H3, Hi.
Qed.
Lemma Full_Later j k rest E nf il ic : Full j k rest E nf il ic -> Later j k rest E nf il ic.
Proof. destruct j as [|j]; [intros _; exact I|]. apply Full_mono. Qed.

(** ** sleeping states *)
Lemma halted_sim j n : tree_at m n = TStay -> forall wc, sim j Halted n wc.
Proof.
  intros Ht. induction j as [|j IH]; intros wc; [exact I|].
  intros inp w _. rewrite Ht. cbn. repeat split; [discriminate|apply IH].
Qed.

Lemma poll_sim c k rest E nf il ic n : tree_at m n = TIf c rest TStay -> (nf <= ref_fuel)%nat ->
  forall j, Later j k rest E nf il ic -> forall wc, sim j (Polling c k) n wc.
Proof.
  intros Ht Hn. induction j as [|j IH]; intros HL wc; [exact I|].
  intros inp w. rewrite Ht. cbn [rclock run_tree].
  destruct (ceval inp (w_v w) c).
  - apply (proj1 HL); [exact Hn|discriminate].
  - intros _. repeat split; [discriminate|]. apply IH. apply Full_Later. exact HL.
Qed.

Lemma delay_sim k rest E nf il ic n : tree_at m n = rest -> (nf <= ref_fuel)%nat ->
  forall j, Later j k rest E nf il ic -> forall wc, sim j (Delay k) n wc.
Proof.
  intros Ht Hn [|j] HL wc; [exact I|].
  intros inp w. rewrite Ht. cbn [rclock]. apply (proj1 HL); [exact Hn|discriminate].
Qed.

(** the loop of [wait_for]: [Waiting m k] is the loop-head state with the counter at [m + 1],
    [Delay k] the same state with the counter at 0 *)
Lemma wait_sim k rest E nf il ic n : tree_at m n = TIfW (TDecW (TGoto n)) rest -> (nf <= ref_fuel)%nat ->
  forall j, Later j k rest E nf il ic ->
    (forall z, (0 <= z)%Z -> sim j (Waiting z k) n (z + 1)) /\ sim j (Delay k) n 0.
Proof.
  intros Ht Hn. induction j as [|j IH]; intros HL; [split; [intros; exact I|exact I]|].
  destruct (IH (Full_Later _ _ _ _ _ _ _ HL)) as [IHw IHd]. split.
  - intros z Hz inp w. rewrite Ht. cbn [rclock run_tree].
    destruct (Z.eqb_spec (z + 1) 0) as [He|_]; [lia|].
    destruct (Z.leb_spec z 0) as [Hle|Hgt].
    + replace (z + 1 - 1)%Z with 0%Z by lia. intros _. repeat split; [discriminate|exact IHd].
    + replace (z + 1 - 1)%Z with ((z - 1) + 1)%Z by lia. intros _. repeat split; [discriminate|]. apply IHw. lia.
  - intros inp w. rewrite Ht. cbn [rclock run_tree Z.eqb]. apply (proj1 HL); [exact Hn|discriminate].
Qed.

Definition sub (l : machine) : Prop := forall n t, In (n, t) l -> tree_at m n = t.
Lemma sub_app l1 l2 : sub (l1 ++ l2) -> sub l1 /\ sub l2.
Proof. intros H. split; intros n t Hi; apply H, in_or_app; auto. Qed.

End Sim.

(** ** the statement lemma *)
Lemma wf_noloop s : forall ic fi da ds f, wf s false ic fi da ds = true -> zbrk s f = false /\ zcnt s f = false.
Proof.
  induction s as [| | a IHa b IHb |c t IHt e IHe|c b IHb| | | | | | | |]; intros ic fi da ds f H; cbn in *;
    try (split; reflexivity); try discriminate.
  - apply andb_true_iff in H. destruct H as [Ha Hb].
    destruct (IHa _ _ _ _ f Ha) as [-> ->]. destruct (IHb _ _ _ _ (fo a f) Hb) as [-> ->].
    rewrite !andb_false_r. split; reflexivity.
  - apply andb_true_iff in H. destruct H as [Ht He].
    destruct (IHt _ _ _ _ false Ht) as [-> ->]. destruct (IHe _ _ _ _ false He) as [-> ->]. split; reflexivity.
Qed.

Lemma wf_nocall s : forall il fi da ds f, wf s il false fi da ds = true -> zret s f = false.
Proof.
  induction s as [| | a IHa b IHb |c t IHt e IHe|c b IHb| | | | | | | |]; intros il fi da ds f H; cbn in *;
    try reflexivity; try discriminate.
  - apply andb_true_iff in H. destruct H as [Ha Hb].
    rewrite (IHa _ _ _ _ f Ha), (IHb _ _ _ _ (fo a f) Hb). rewrite andb_false_r. reflexivity.
  - apply andb_true_iff in H. destruct H as [Ht He].
    rewrite (IHt _ _ _ _ false Ht), (IHe _ _ _ _ false He). reflexivity.
  - apply andb_true_iff in H. destruct H as [Hb _]. rewrite (IHb _ _ _ _ false Hb). apply andb_false_r.
Qed.

Lemma exec_break_first f inp k first w : exec f inp Break k first w = exec f inp Break k false w.
Proof. destruct f; reflexivity. Qed.
Lemma exec_cont_first f inp k first w : exec f inp Continue k first w = exec f inp Continue k false w.
Proof. destruct f; reflexivity. Qed.
Lemma exec_ret_first f inp k first w : exec f inp Return k first w = exec f inp Return k false w.
Proof. destruct f; reflexivity. Qed.
Lemma exec_break_kseq f inp b k w : exec f inp Break (KSeq b k) false w = exec f inp Break k false w.
Proof. destruct f; reflexivity. Qed.
Lemma exec_cont_kseq f inp b k w : exec f inp Continue (KSeq b k) false w = exec f inp Continue k false w.
Proof. destruct f; reflexivity. Qed.
Lemma exec_ret_kseq f inp b k w : exec f inp Return (KSeq b k) false w = exec f inp Return k false w.
Proof. destruct f; reflexivity. Qed.
Lemma exec_ret_kloop f inp c b k w : exec f inp Return (KLoop c b k) false w = exec f inp Return k false w.
Proof. destruct f; reflexivity. Qed.

Section Exec.
Variable p : stmt.
Variable m : machine.
Variables da ds : bool.
Local Notation ok := (okd da ds).
Local Notation sim := (sim p m ok).
Local Notation good := (good ok).
Local Notation fallspec := (fallspec p m ok).
Local Notation brkspec := (brkspec p m ok).
Local Notation cntspec := (cntspec p m ok).
Local Notation retspec := (retspec p m ok).
Local Notation Full := (Full p m ok).
Local Notation Later := (Later p m ok).
Local Notation Now := (Now p m ok).
Local Notation sub := (sub m).

Definition P (s : stmt) : Prop :=
  forall j o E first rest k nf nfl il ic,
    wf s il ic first da ds = true -> fchk s nfl = true ->
    sub (cstates s o E first rest) ->
    (first = true -> tree_at m O = ctree s o E first rest) ->
    Now j s first k rest E nf ->
    (fo s first = false -> Later j k rest E nfl il ic) ->
    forall f inp w cur rc pc, (fneed s nf <= f)%nat -> (first = true -> cur = O) ->
      good inp (sim j) (exec f inp s k first w) (run_tree inp (ctree s o E first rest) cur w rc pc).

Lemma brk_kseq j b k E nf nf' : brkspec j k E nf -> (nf <= nf')%nat -> brkspec j (KSeq b k) E nf'.
Proof. intros H Hle f inp w cur rc pc Hf. rewrite exec_break_kseq. apply H. lia. Qed.
Lemma cnt_kseq j b k E nf nf' : cntspec j k E nf -> (nf <= nf')%nat -> cntspec j (KSeq b k) E nf'.
Proof. intros H Hle f inp w cur rc pc Hf. rewrite exec_cont_kseq. apply H. lia. Qed.
Lemma ret_kseq j b k E nf nf' : retspec j k E nf -> (nf <= nf')%nat -> retspec j (KSeq b k) E nf'.
Proof. intros H Hle f inp w cur rc pc Hf. rewrite exec_ret_kseq. apply H. lia. Qed.

Lemma P_skip : P Skip.
Proof.
  intros j o E first rest k nf nfl il ic _ _ _ _ HN _ f inp w cur rc pc Hf Hcur.
  cbn [fneed] in Hf. destruct f as [|f]; [lia|]. cbn [exec ctree].
  apply (proj1 HN); [reflexivity|lia|exact Hcur].
Qed.

Lemma P_eff e : P (Eff e).
Proof.
  intros j o E first rest k nf nfl il ic _ _ _ _ HN _ f inp w cur rc pc Hf Hcur.
  cbn [fneed] in Hf. destruct f as [|f]; [lia|]. cbn [exec ctree run_tree].
  apply (proj1 HN); [reflexivity|lia|discriminate].
Qed.

Lemma P_break : P Break.
Proof.
  intros j o E first rest k nf nfl il ic _ _ _ _ HN _ f inp w cur rc pc Hf Hcur.
  cbn [fneed] in Hf. rewrite exec_break_first. cbn [ctree].
  apply (proj1 (proj2 HN)); [reflexivity|lia].
Qed.

Lemma P_continue : P Continue.
Proof.
  intros j o E first rest k nf nfl il ic _ _ _ _ HN _ f inp w cur rc pc Hf Hcur.
  cbn [fneed] in Hf. rewrite exec_cont_first. cbn [ctree].
  apply (proj1 (proj2 (proj2 HN))); [reflexivity|lia].
Qed.

Lemma P_return : P Return.
Proof.
  intros j o E first rest k nf nfl il ic _ _ _ _ HN _ f inp w cur rc pc Hf Hcur.
  cbn [fneed] in Hf. rewrite exec_ret_first. cbn [ctree].
  apply (proj2 (proj2 (proj2 HN))); [reflexivity|lia].
Qed.

Lemma seq_fall b (Pb : P b) j o E fl rest k nf nfl il ic :
  wf b il ic fl da ds = true -> fchk b nfl = true -> sub (cstates b o E fl rest) ->
  (fl = true -> tree_at m O = ctree b o E fl rest) ->
  Now j b fl k rest E nf -> (fo b fl = false -> Later j k rest E nfl il ic) ->
  fallspec j (KSeq b k) (ctree b o E fl rest) fl (S (fneed b nf)).
Proof.
  intros Hw Hc Hs H0 HN HL f inp w cur rc pc Hf Hcur.
  destruct f as [|f]; [lia|]. cbn [cont].
  apply (Pb j o E fl rest k nf nfl il ic); auto. lia.
Qed.

Lemma P_seq a b : P a -> P b -> P (Seq a b).
Proof.
  intros Pa Pb j o E first rest k nf nfl il ic Hwf Hck Hsub H0 HN HL f inp w cur rc pc Hf Hcur.
  cbn [wf] in Hwf. apply andb_true_iff in Hwf. destruct Hwf as [Hwa Hwb].
  cbn [fchk] in Hck. apply andb_true_iff in Hck. destruct Hck as [Hca Hcb].
  cbn [cstates] in Hsub. apply sub_app in Hsub. destruct Hsub as [Hsa Hsb].
  destruct HN as (HNf & HNb & HNc & HNr). cbn [zfall zbrk zcnt zret fo] in HNf, HNb, HNc, HNr, HL.
  cbn [fneed] in Hf. destruct f as [|f]; [lia|].
  cbn [exec ctree]. cbn [ctree] in H0.
  apply (Pa j (S o) E first _ (KSeq b k) (S (fneed b nf)) (S (fneed b nfl)) il ic); auto; [| |lia].
  - (* Now *)
    split; [|split; [|split]].
    + intros Hza. rewrite Hza in HNf, HNb, HNc, HNr. cbn [andb] in HNf, HNb, HNc, HNr.
      apply (seq_fall b Pb j _ E _ rest k nf nfl il ic); auto.
      * intros Hfa. pose proof (fo_true_first _ _ Hfa) as Hfi. rewrite (H0 Hfi). rewrite Hfi in Hfa |- *.
        rewrite Hfa. apply ctree_transparent. exact Hfa.
      * split; [exact HNf|split; [|split]]; intros Hz; [apply HNb|apply HNc|apply HNr]; rewrite Hz; apply orb_true_r.
    + intros Hz. apply (brk_kseq j b k E nf); [apply HNb; rewrite Hz; reflexivity|].
      pose proof (fneed_ge b nf). lia.
    + intros Hz. apply (cnt_kseq j b k E nf); [apply HNc; rewrite Hz; reflexivity|].
      pose proof (fneed_ge b nf). lia.
    + intros Hz. apply (ret_kseq j b k E nf); [apply HNr; rewrite Hz; reflexivity|].
      pose proof (fneed_ge b nf). lia.
  - (* Later *)
    intros Hfa. destruct j as [|j']; [exact I|]. cbn [Lower.fo] in *.
    rewrite Hfa in HL, Hsb, Hwb |- *. specialize (HL (fo_false b)). cbn in HL.
    destruct HL as (HLf & HLbc & HLr).
    assert (HNb' : Now j' b false k rest E nfl).
    { split; [|split; [|split]].
      - intros _. rewrite fo_false. exact HLf.
      - intros Hz. destruct il; [exact (proj1 (HLbc eq_refl))|].
        destruct (wf_noloop b _ _ _ _ false Hwb) as [Hx _]. congruence.
      - intros Hz. destruct il; [exact (proj2 (HLbc eq_refl))|].
        destruct (wf_noloop b _ _ _ _ false Hwb) as [_ Hx]. congruence.
      - intros Hz. destruct ic; [exact (HLr eq_refl)|].
        pose proof (wf_nocall b _ _ _ _ false Hwb) as Hx. congruence. }
    pose proof (fneed_ge b nfl) as Hge.
    split; [|split].
    + apply (seq_fall b Pb j' _ E false rest k nfl nfl il ic); auto; [discriminate|].
      intros _. apply Full_Later. split; [exact HLf|split; assumption].
    + intros Hil. destruct (HLbc Hil) as [Hb Hc].
      split; [apply (brk_kseq j' b k E nfl)|apply (cnt_kseq j' b k E nfl)]; auto; lia.
    + intros Hic. apply (ret_kseq j' b k E nfl); [exact (HLr Hic)|lia].
Qed.

Lemma P_if c t e : P t -> P e -> P (If c t e).
Proof.
  intros Pt Pe j o E first rest k nf nfl il ic Hwf Hck Hsub H0 HN HL f inp w cur rc pc Hf Hcur.
  cbn [wf] in Hwf. apply andb_true_iff in Hwf. destruct Hwf as [Hwt Hwe].
  cbn [fchk] in Hck. apply andb_true_iff in Hck. destruct Hck as [Hct Hce].
  cbn [cstates] in Hsub. apply sub_app in Hsub. destruct Hsub as [Hst Hse].
  destruct HN as (HNf & HNb & HNc & HNr). cbn [zfall zbrk zcnt zret fo] in HNf, HNb, HNc, HNr, HL.
  cbn [fneed] in Hf. destruct f as [|f]; [lia|].
  cbn [exec ctree run_tree]. specialize (HL eq_refl).
  destruct (ceval inp (w_v w) c).
  - apply (Pt j (S o) E false rest k nf nfl il ic); auto; try discriminate; [|lia].
    split; [|split; [|split]]; intros Hz; [rewrite fo_false; apply HNf|apply HNb|apply HNc|apply HNr]; rewrite Hz; reflexivity.
  - apply (Pe j _ E false rest k nf nfl il ic); auto; try discriminate; [|lia].
    split; [|split; [|split]]; intros Hz; [rewrite fo_false; apply HNf|apply HNb|apply HNc|apply HNr]; rewrite Hz; apply orb_true_r.
Qed.

Lemma zret_fo s : forall f, zret s f = true -> Lower.fo s f = false.
Proof.
  induction s as [| | a IHa b IHb |c t IHt e IHe|c b IHb| | | | | | | |]; intros f H; cbn in *;
    try discriminate; try reflexivity.
  apply orb_true_iff in H. destruct H as [H|H].
  - rewrite (IHa _ H). apply fo_false.
  - apply andb_true_iff in H. apply IHb. exact (proj2 H).
Qed.

Lemma P_call b : P b -> P (Call b).
Proof.
  intros Pb j o E first rest k nf nfl il ic Hwf Hck Hsub H0 HN HL f inp w cur rc pc Hf Hcur.
  cbn [wf fchk cstates Lower.fo] in Hwf, Hck, Hsub, HL.
  destruct HN as (HNf & _ & _ & _). cbn [zfall Lower.fo] in HNf.
  cbn [fneed] in Hf. destruct f as [|f]; [lia|].
  cbn [exec ctree]. cbn [ctree] in H0.
  set (Ec := {| e_brk := TStay; e_cnt := TStay; e_ret := rest |}) in *.
  destruct (wf_noloop b _ _ _ _ first Hwf) as [Hzb Hzc].
  apply (Pb j (S o) Ec first rest (KCall k) (S nf) (S nfl) false true); auto; [| |lia].
  - split; [|split; [|split]].
    + intros Hz f' inp' w' cur' rc' pc' Hf' Hc'. destruct f' as [|f']; [lia|]. cbn [cont].
      apply HNf; [rewrite Hz; reflexivity|lia|exact Hc'].
    + congruence.
    + congruence.
    + intros Hz f' inp' w' cur' rc' pc' Hf'. destruct f' as [|f']; [lia|]. cbn [exec unwind_call e_ret Ec].
      assert (Hfs : fallspec j k rest (Lower.fo b first) nf) by (apply HNf; rewrite Hz; apply orb_true_r).
      rewrite (zret_fo _ _ Hz) in Hfs. apply Hfs; [lia|discriminate].
  - intros Hfo. specialize (HL Hfo). destruct j as [|j']; [exact I|]. cbn in HL. destruct HL as (HLf & _ & _).
    split; [|split].
    + intros f' inp' w' cur' rc' pc' Hf' Hc'. destruct f' as [|f']; [lia|]. cbn [cont]. apply HLf; [lia|exact Hc'].
    + discriminate.
    + intros _ f' inp' w' cur' rc' pc' Hf'. destruct f' as [|f']; [lia|]. cbn [exec unwind_call e_ret Ec].
      apply HLf; [lia|discriminate].
Qed.

Lemma P_await c : P (Await c).
Proof.
  intros j o E first rest k nf nfl il ic _ Hck Hsub H0 HN HL f inp w cur rc pc Hf Hcur.
  cbn [fneed] in Hf. destruct f as [|f]; [lia|].
  destruct HN as (HNf & _ & _).
  assert (Hn : (nfl <= ref_fuel)%nat) by (destruct c; apply Nat.leb_le, Hck).
  destruct c as [c| |]; destruct first; cbn [exec ctree run_tree zfall fo cstates] in *.
  - rewrite (Hcur eq_refl). destruct (ceval inp (w_v w) c).
    + apply (HNf eq_refl); [lia|discriminate].
    + intros _; repeat split; [discriminate|]. cbn [fst].
      apply (poll_sim p m ok c k rest E nfl il ic O (H0 eq_refl) Hn j (HL eq_refl)).
  - intros _; repeat split; [discriminate|]. cbn [fst].
    apply (poll_sim p m ok c k rest E nfl il ic o (Hsub _ _ (or_introl eq_refl)) Hn j (HL eq_refl)).
  - apply (HNf eq_refl); [lia|exact Hcur].
  - intros _; repeat split; [discriminate|]. cbn [fst].
    apply (delay_sim p m ok k rest E nfl il ic o (Hsub _ _ (or_introl eq_refl)) Hn j (HL eq_refl)).
  - rewrite (Hcur eq_refl). intros _; repeat split; [discriminate|]. cbn [fst]. apply halted_sim. exact (H0 eq_refl).
  - intros _; repeat split; [discriminate|]. cbn [fst]. apply halted_sim. exact (Hsub _ _ (or_introl eq_refl)).
Qed.

Lemma P_whilefalse b : P (WhileFalse b).
Proof.
  intros j o E first rest k nf nfl il ic _ Hck Hsub H0 HN HL f inp w cur rc pc Hf Hcur.
  cbn [fneed] in Hf. destruct f as [|f]; [lia|].
  destruct HN as (HNf & _ & _).
  assert (Hn : (nfl <= ref_fuel)%nat) by (apply Nat.leb_le, Hck).
  destruct first; cbn [exec ctree run_tree zfall fo cstates] in *.
  - apply (HNf eq_refl); [lia|exact Hcur].
  - intros _; repeat split; [discriminate|]. cbn [fst].
    apply (delay_sim p m ok k rest E nfl il ic o (Hsub _ _ (or_introl eq_refl)) Hn j (HL eq_refl)).
Qed.

Lemma P_wait n : P (Wait n).
Proof.
  intros j o E first rest k nf nfl il ic Hwf Hck Hsub H0 HN HL f inp w cur rc pc Hf Hcur.
  cbn [fneed] in Hf. destruct f as [|f]; [lia|].
  destruct HN as (HNf & _ & _ & _).
  assert (Hn : (nfl <= ref_fuel)%nat) by (apply Nat.leb_le, Hck).
  cbn [wf] in Hwf. apply andb_true_iff in Hwf. destruct Hwf as [Hn1 Hnf]. apply Z.leb_le in Hn1.
  cbn [exec ctree cstates zfall Lower.fo] in *.
  destruct (n =? 1)%Z eqn:En; rewrite ?En in Hsub, HL, Hnf.
  - (* n = 1: await true, not in first position *)
    apply Z.eqb_eq in En. subst n. destruct first; [discriminate|]. cbn [Z.leb Z.compare Pos.compare Pos.compare_cont].
    intros _; repeat split; [discriminate|]. cbn [fst snd].
    apply (delay_sim p m ok k rest E nfl il ic o (Hsub _ _ (or_introl eq_refl)) Hn j (HL eq_refl)).
  - (* n >= 2: counter <= n - 1, then the loop-head state *)
    apply Z.eqb_neq in En. destruct (Z.leb_spec n 1) as [Hle|_]; [lia|]. cbn [run_tree].
    intros _; repeat split; [discriminate|]. cbn [fst snd].
    replace (n - 1)%Z with ((n - 2) + 1)%Z by lia.
    apply (proj1 (wait_sim p m ok k rest E nfl il ic o (Hsub _ _ (or_introl eq_refl)) Hn j (HL eq_refl))). lia.
Qed.

Lemma P_waitin az : P (WaitIn az).
Proof.
  intros j o E first rest k nf nfl il ic Hwf Hck Hsub H0 HN HL f inp w cur rc pc Hf Hcur.
  cbn [fneed] in Hf. destruct f as [|f]; [lia|].
  destruct HN as (HNf & _ & _ & _).
  assert (Hn : (nfl <= ref_fuel)%nat) by (apply Nat.leb_le, Hck).
  cbn [wf] in Hwf. apply andb_true_iff in Hwf. destruct Hwf as [Hda Hds].
  cbn [exec ctree cstates zfall Lower.fo] in *.
  destruct (wait_sim p m ok k rest E nfl il ic o (Hsub _ _ (or_introl eq_refl)) Hn j (HL eq_refl)) as [Hw Hd].
  assert (Hcnt : i_dur inp <> 0%Z -> ok inp ->
                 good inp (sim j) (if (i_dur inp =? 1)%Z then (Delay k, w) else (Waiting (i_dur inp - 2) k, w))
                      (o, w, (i_dur inp - 1)%Z)).
  { intros Hne [Hge _]. specialize (Hge Hda). intros _.
    destruct (Z.eqb_spec (i_dur inp) 1) as [He|Hn1].
    - rewrite He. repeat split; [discriminate|exact Hd].
    - repeat split; [discriminate|]. cbn [fst snd].
      replace (i_dur inp - 1)%Z with ((i_dur inp - 2) + 1)%Z by lia. apply Hw. lia. }
  destruct az; cbn [run_tree].
  - destruct (Z.eqb_spec (i_dur inp) 0) as [He|Hne].
    + apply (HNf eq_refl); [lia|discriminate].
    + intros Hok. exact (Hcnt Hne Hok Hok).
  - intros Hok. assert (Hne : i_dur inp <> 0%Z) by (destruct Hok as [_ H1]; specialize (H1 Hds); lia).
    destruct (Z.eqb_spec (i_dur inp) 0) as [He|_]; [contradiction|]. exact (Hcnt Hne Hok Hok).
Qed.

End Exec.

(** ** loops *)
Section Loop.
Variable p : stmt.
Variable m : machine.
Variables da ds : bool.
Local Notation ok := (okd da ds).
Local Notation sim := (sim p m ok).
Local Notation good := (good ok).
Local Notation fallspec := (fallspec p m ok).
Local Notation retspec := (retspec p m ok).
Local Notation Full := (Full p m ok).
Local Notation Later := (Later p m ok).

Variables (c : wcond) (b : stmt) (o h : nat) (rest : tree) (k : kont) (E : env) (ic : bool).
Hypothesis Pb : P p m da ds b.
Hypothesis Hwb : wf b true ic false da ds = true.
Hypothesis Hzc : zcnt b false = false.
Let hd := whead c b o h rest (e_ret E).
Let E' := {| e_brk := rest; e_cnt := hd; e_ret := e_ret E |}.
Hypothesis Hh : tree_at m h = hd.
Hypothesis Hsb : sub m (cstates b (S o) E' false (TGoto h)).

(** the loop-head code: test, then body or exit - run with fuel [f] from any state *)
Lemma body_run j nf0 nl :
  fchk b nl = true ->
  (forall wc, sim j (LoopHead c b k) h wc) -> Later j (KLoop c b k) (TGoto h) E' nl true ic ->
  fallspec j k rest false nf0 ->
  (zret b false = true -> retspec j k E nf0) ->
  forall f inp w cur rc pc, (fneed b (S nf0) <= f)%nat -> (nf0 <= f)%nat ->
    good inp (sim j) (if oceval inp (w_v w) c then exec f inp b (KLoop c b k) false w else cont f inp k false w)
         (run_tree inp hd cur w rc pc).
Proof.
  intros Hck Hs HLk Hfk Hrk f inp w cur rc pc Hf1 Hf2.
  assert (Hbody : good inp (sim j) (exec f inp b (KLoop c b k) false w)
                       (run_tree inp (ctree b (S o) {| e_brk := rest; e_cnt := TStay; e_ret := e_ret E |} false (TGoto h)) cur w rc pc)).
  { rewrite (ctree_indep b (S o) _ E' false (TGoto h) (TGoto h)); [|reflexivity|reflexivity|congruence|reflexivity].
    assert (HNow : Now p m ok j b false (KLoop c b k) (TGoto h) E' (S nf0)).
    { split; [|split; [|split]].
      + intros _ f' inp' w' cur' rc' pc' Hf' _. destruct f' as [|f']; [lia|]. cbn [cont].
        intros _; repeat split; [discriminate|apply Hs].
      + intros _ f' inp' w' cur' rc' pc' Hf'. destruct f' as [|f']; [lia|]. cbn [exec unwind_loop e_brk E'].
        apply Hfk; [lia|discriminate].
      + congruence.
      + intros Hz f' inp' w' cur' rc' pc' Hf'. rewrite exec_ret_kloop. cbn [e_ret E']. apply (Hrk Hz). lia. }
    apply (Pb j (S o) E' false (TGoto h) (KLoop c b k) (S nf0) nl true ic); auto; discriminate. }
  unfold hd, whead. destruct c as [|c0]; cbn [oceval run_tree].
  - exact Hbody.
  - destruct (ceval inp (w_v w) c0); [exact Hbody|]. apply Hfk; [lia|discriminate].
Qed.

Lemma loop_ok nfl il :
  let nl := S (S (fneed b (S nfl))) in
  fchk b nl = true -> (fneed b (S nfl) <= ref_fuel)%nat -> (nfl <= ref_fuel)%nat ->
  forall j, Later j k rest E nfl il ic ->
    (forall wc, sim j (LoopHead c b k) h wc) /\ Later j (KLoop c b k) (TGoto h) E' nl true ic.
Proof.
  intros nl Hck Hr1 Hr2. induction j as [|j IH]; intros HL; [split; [intros; exact I|exact I]|].
  cbn [Lower.fo] in *. destruct (IH (Full_Later p m ok _ _ _ _ _ _ _ HL)) as [Hs HLk].
  destruct HL as (HLf & HLbc & HLr).
  assert (Hrk : zret b false = true -> retspec j k E nfl).
  { intros Hz. destruct ic; [exact (HLr eq_refl)|]. pose proof (wf_nocall b _ _ _ _ false Hwb). congruence. }
  assert (Hs' : forall wc, sim (S j) (LoopHead c b k) h wc).
  { intros wc inp w. rewrite Hh. cbn [rclock].
    apply (body_run j nfl nl Hck Hs HLk HLf Hrk); assumption. }
  pose proof (fneed_ge b (S nfl)) as Hge.
  split; [exact Hs'|]. change (Full j (KLoop c b k) (TGoto h) E' nl true ic). split; [|split].
  - intros f inp w cur rc pc Hf _. destruct f as [|f]; [unfold nl in Hf; lia|]. cbn [cont].
    intros _; repeat split; [discriminate|apply Hs].
  - intros _. split.
    + intros f inp w cur rc pc Hf. destruct f as [|f]; [unfold nl in Hf; lia|]. cbn [exec unwind_loop e_brk E'].
      apply HLf; [unfold nl in Hf; lia|discriminate].
    + intros f inp w cur rc pc Hf. destruct f as [|f]; [unfold nl in Hf; lia|]. cbn [exec unwind_loop e_cnt E'].
      apply (body_run j nfl nl Hck Hs HLk HLf Hrk); unfold nl in Hf; lia.
  - intros Hic f inp w cur rc pc Hf. rewrite exec_ret_kloop. cbn [e_ret E']. apply (HLr Hic). unfold nl in Hf. lia.
Qed.
End Loop.

Lemma P_while p m da ds c b : P p m da ds b -> P p m da ds (While c b).
Proof.
  intros Pb j o E first rest k nf nfl il ic Hwf Hck Hsub H0 HN HL f inp w cur rc pc Hf Hcur.
  cbn [wf] in Hwf. apply andb_true_iff in Hwf. destruct Hwf as [Hwb Hzc]. apply negb_true_iff in Hzc.
  cbn [fchk] in Hck. apply andb_true_iff in Hck. destruct Hck as [Hck Hcb].
  apply andb_true_iff in Hck. destruct Hck as [Hr1 Hr2]. apply Nat.leb_le in Hr1, Hr2.
  cbn [cstates] in Hsub. apply sub_app in Hsub. destruct Hsub as [Hsh Hsb].
  cbn [Lower.fo] in HL. specialize (HL eq_refl).
  cbn [fneed] in Hf. destruct f as [|f]; [lia|].
  destruct first.
  - (* the first state is the loop head *)
    assert (Hh : tree_at m O = whead c b o O rest (e_ret E)) by exact (H0 eq_refl).
    destruct (loop_ok p m da ds c b o O rest k E ic Pb Hwb Hzc Hh Hsb nfl il Hcb Hr1 Hr2 j HL) as [Hs HLk].
    cbn [exec]. change (ctree (While c b) o E true rest) with (whead c b o O rest (e_ret E)).
    destruct HN as (HNf & _ & _ & HNr). specialize (HNf eq_refl). cbn [Lower.fo] in HNf. cbn [zret andb] in HNr.
    apply (body_run p m da ds c b o O rest k E ic Pb Hwb Hzc Hh Hsb j nf _ Hcb Hs HLk HNf HNr); lia.
  - assert (Hh : tree_at m o = whead c b o o rest (e_ret E)) by exact (Hsh _ _ (or_introl eq_refl)).
    destruct (loop_ok p m da ds c b o o rest k E ic Pb Hwb Hzc Hh Hsb nfl il Hcb Hr1 Hr2 j HL) as [Hs HLk].
    cbn [exec ctree run_tree]. intros _; repeat split; [discriminate|apply Hs].
Qed.

Theorem all_P p m da ds : forall s, P p m da ds s.
Proof.
  induction s as [| e | a IHa b IHb |c t IHt e IHe|c b IHb| b _ |c| | | |b IHb| |].
  - apply P_skip.
  - apply P_eff.
  - apply P_seq; assumption.
  - apply P_if; assumption.
  - apply P_while; assumption.
  - apply P_whilefalse.
  - apply P_await.
  - apply P_break.
  - apply P_continue.
  - apply P_return.
  - apply P_call; assumption.
  - apply P_wait.
  - apply P_waitin.
Qed.

(** ** the state table of [lower p]: names are positions, hence distinct *)
Lemma size_pos s : (1 <= size s)%nat.
Proof. destruct s; cbn; lia. Qed.

Lemma cstates_range s : forall o E f r x tx,
  In (x, tx) (cstates s o E f r) -> (o <= x < o + size s)%nat.
Proof.
  induction s as [| | a IHa b IHb |c t0 IHt e IHe|c b IHb| |c| | | |b0 IHb0| |]; intros o E f r x tx H; cbn in H;
    try contradiction.
  - apply in_app_or in H. destruct H as [H|H]; [apply IHa in H|apply IHb in H]; cbn [size]; lia.
  - apply in_app_or in H. destruct H as [H|H]; [apply IHt in H|apply IHe in H]; cbn [size]; lia.
  - apply in_app_or in H. destruct H as [H|H].
    + destruct f; [contradiction|]. destruct H as [H|[]]. injection H as <- _. cbn [size]. lia.
    + apply IHb in H. cbn [size]. lia.
  - destruct f; [contradiction|]. destruct H as [H|[]]. injection H as <- _. cbn [size]. lia.
  - destruct c; destruct f; try contradiction; destruct H as [H|[]]; injection H as <- _; cbn [size]; lia.
  - apply IHb0 in H. cbn [size]. lia.
  - destruct (n =? 1)%Z; [destruct f; [contradiction|]|]; destruct H as [H|[]]; injection H as <- _; cbn [size]; lia.
  - destruct H as [H|[]]. injection H as <- _. cbn [size]. lia.
Qed.

Definition names_in (l : machine) (lo hi : nat) : Prop := forall n t, In (n, t) l -> (lo <= n < hi)%nat.

Lemma tree_at_notin l n : (forall t, ~ In (n, t) l) -> tree_at l n = TStay.
Proof.
  induction l as [|[k t] l IH]; intros H; [reflexivity|]. cbn.
  destruct (Nat.eqb_spec k n) as [->|Hn]; [exfalso; apply (H t); left; reflexivity|].
  apply IH. intros t' Hi. apply (H t'). right. exact Hi.
Qed.

Definition functional (l : machine) : Prop := forall n t, In (n, t) l -> tree_at l n = t.

Lemma functional_app l1 l2 lo mid hi :
  names_in l1 lo mid -> names_in l2 mid hi -> functional l1 -> functional l2 -> functional (l1 ++ l2).
Proof.
  intros N1 N2 F1 F2 n t H.
  assert (Happ : forall l, tree_at (l ++ l2) n =
                           match find (fun q => Nat.eqb (fst q) n) l with Some q => snd q | None => tree_at l2 n end).
  { induction l as [|[k0 t0] l IH]; [reflexivity|]. cbn. destruct (Nat.eqb k0 n); [reflexivity|exact IH]. }
  assert (Hfind : forall l, tree_at l n = match find (fun q => Nat.eqb (fst q) n) l with Some q => snd q | None => TStay end).
  { induction l as [|[k0 t0] l IH]; [reflexivity|]. cbn. destruct (Nat.eqb k0 n); [reflexivity|exact IH]. }
  rewrite Happ. apply in_app_or in H. destruct H as [H|H].
  - pose proof (F1 n t H) as Ht. rewrite Hfind in Ht.
    destruct (find (fun q => Nat.eqb (fst q) n) l1) as [q|] eqn:Ef; [exact Ht|].
    exfalso. apply (find_none _ _ Ef) in H. cbn in H. rewrite Nat.eqb_refl in H. discriminate.
  - destruct (find (fun q => Nat.eqb (fst q) n) l1) as [[k0 t0]|] eqn:Ef; [|apply F2, H].
    exfalso. apply find_some in Ef. destruct Ef as [Hi He]. cbn in He. apply Nat.eqb_eq in He. subst k0.
    apply N1 in Hi. apply N2 in H. lia.
Qed.

Lemma cstates_functional s : forall o E f r, functional (cstates s o E f r).
Proof.
  induction s as [| | a IHa b IHb |c t0 IHt e IHe|c b IHb| |c| | | |b0 IHb0| |]; intros o E f r; cbn [cstates];
    try (intros x tx []).
  - apply (functional_app _ _ (S o) (S o + size a) (S o + size a + size b)); auto.
    + intros x tx H. apply cstates_range in H. lia.
    + intros x tx H. apply cstates_range in H. lia.
  - apply (functional_app _ _ (S o) (S o + size t0) (S o + size t0 + size e)); auto.
    + intros x tx H. apply cstates_range in H. lia.
    + intros x tx H. apply cstates_range in H. lia.
  - apply (functional_app _ _ o (S o) (S o + size b)); auto.
    + intros x tx H. destruct f; [contradiction|]. destruct H as [H|[]]. injection H as <- _. lia.
    + intros x tx H. apply cstates_range in H. lia.
    + intros x tx H. destruct f; [contradiction|]. destruct H as [H|[]]. injection H as <- <-. cbn.
      rewrite Nat.eqb_refl. reflexivity.
  - destruct f; intros x tx H; [contradiction|]. destruct H as [H|[]]. injection H as <- <-. cbn.
    rewrite Nat.eqb_refl. reflexivity.
  - destruct c; destruct f; intros x tx H; try contradiction; destruct H as [H|[]]; injection H as <- <-; cbn;
      rewrite Nat.eqb_refl; reflexivity.
  - apply IHb0.
  - destruct (n =? 1)%Z; [destruct f|]; intros x tx H; try contradiction; destruct H as [H|[]]; injection H as <- <-; cbn;
      rewrite Nat.eqb_refl; reflexivity.
  - injection H as <- <-. cbn. rewrite Nat.eqb_refl. reflexivity.
  - contradiction.
Qed.

Lemma lower_sub p : sub (lower p) (cstates p 1 env0 true (TGoto O)).
Proof.
  intros n t H. unfold lower. cbn [tree_at].
  pose proof (cstates_range _ _ _ _ _ _ _ H) as Hr.
  destruct (Nat.eqb_spec 0 n) as [<-|_]; [lia|]. apply cstates_functional. exact H.
Qed.

(** ** the theorem *)
Definition gram (da ds : bool) (p : stmt) : bool :=
  wf p false false true da ds && fchk p 1 && Nat.leb (fneed p 1) ref_fuel.

Lemma sim_start_gen p da ds : gram da ds p = true -> forall j wc, sim p (lower p) (okd da ds) j AtStart O wc.
Proof.
  intros Hg. unfold gram in Hg. apply andb_true_iff in Hg. destruct Hg as [Hg Hfuel].
  apply andb_true_iff in Hg. destruct Hg as [Hwf Hck]. apply Nat.leb_le in Hfuel.
  induction j as [|j IH]; intros wc; [exact I|].
  intros inp w. cbn [rclock]. change (tree_at (lower p) O) with (ctree p 1 env0 true (TGoto O)).
  apply (all_P p (lower p) da ds p j 1%nat env0 true (TGoto O) KStop 1%nat 1%nat false false); auto.
  - apply lower_sub.
  - destruct (wf_noloop p _ _ _ _ true Hwf) as [Hb Hc]. pose proof (wf_nocall p _ _ _ _ true Hwf) as Hr.
    split; [|split; [|split]]; [|congruence|congruence|congruence].
    intros _ f inp' w' cur rc pc Hf _. destruct f as [|f]; [lia|]. cbn [cont]. intros _; repeat split; [discriminate|apply IH].
  - intros _. destruct j as [|j]; [exact I|]. split; [|split; discriminate].
    intros f inp' w' cur rc pc Hf _. destruct f as [|f]; [lia|]. cbn [cont]. intros _; repeat split; [discriminate|].
    apply sim_mono. apply IH.
Qed.

Lemma sim_start p : in_grammar p = true -> forall j wc, sim p (lower p) (okd false false) j AtStart O wc.
Proof. exact (sim_start_gen p false false). Qed.

Lemma okd_none inp : okd false false inp.
Proof. split; discriminate. Qed.

Lemma trace_sim p m ok : forall ins c n w wc, Forall (fun i => ok (in_bits i)) ins -> sim p m ok (length ins) c n wc ->
  traceB (mstepZ m) [Z.of_nat n; w_v w; w_cnt w; w_mark w; wc] ins = traceB (ref_step p) (rpack (c, w)) ins.
Proof.
  induction ins as [|i r IH]; intros c n w wc Hok Hs; [reflexivity|].
  apply Forall_cons_iff in Hok. destruct Hok as [Hoi Hor].
  cbn [traceB length] in *. unfold ref_step at 1. rewrite clock_rclock.
  unfold mstepZ at 1. unfold mclock. cbn [fst snd rpack r_ctrl]. rewrite Nat2Z.id.
  replace (rwork (rpack (c, w))) with w by (destruct w; reflexivity).
  replace {| w_v := w_v w; w_cnt := w_cnt w; w_mark := w_mark w |} with w by (destruct w; reflexivity).
  specialize (Hs (in_bits i) w Hoi). destruct Hs as (H1 & H2 & H3).
  destruct (rclock p c (in_bits i) w) as [c' w'] eqn:Er.
  destruct (run_tree (in_bits i) (tree_at m n) n w wc wc) as [[n' w''] wc'] eqn:Em.
  cbn [fst snd] in H1, H2, H3 |- *. subst w''. cbn [r_ctrl r_cnt r_mark rpack fst snd].
  f_equal.
  - unfold mobs. destruct c'; try reflexivity. congruence.
  - apply (IH c' n' w' wc'); assumption.
Qed.

Lemma all_okd_none ins : Forall (fun i => okd false false (in_bits i)) ins.
Proof. induction ins; constructor; [apply okd_none|assumption]. Qed.

Theorem lower_correct p : in_grammar p = true ->
  forall ins, traceB (mstepZ (lower p)) minitZ ins = traceB (ref_step p) rinit ins.
Proof.
  intros Hg ins.
  exact (trace_sim p (lower p) _ ins AtStart O work0 0%Z (all_okd_none ins) (sim_start p Hg (length ins) 0%Z)).
Qed.

(** programs with run-time durations ([WaitIn]): the same for every input sequence whose duration input is
    >= 0 (an unsigned port), and >= 1 if the program has a wait_for(self.dur) without allow_zero *)
Theorem lower_correct_dur ds p : in_grammar_dur ds p = true ->
  forall ins, Forall (fun i => okd true ds (in_bits i)) ins ->
    traceB (mstepZ (lower p)) minitZ ins = traceB (ref_step p) rinit ins.
Proof.
  intros Hg ins Hok.
  exact (trace_sim p (lower p) _ ins AtStart O work0 0%Z Hok (sim_start_gen p true ds Hg (length ins) 0%Z)).
Qed.

(** the same for the machine over its own state type *)
Lemma mstep_mstepZ m : forall ins n w wc,
  traceB (mstep m) (n, w, wc) ins = traceB (mstepZ m) [Z.of_nat n; w_v w; w_cnt w; w_mark w; wc] ins.
Proof.
  induction ins as [|i r IH]; intros n w wc; [reflexivity|].
  cbn [traceB]. unfold mstep at 1, mstepZ at 1. rewrite Nat2Z.id.
  replace {| w_v := w_v w; w_cnt := w_cnt w; w_mark := w_mark w |} with w by (destruct w; reflexivity).
  destruct (mclock m (n, w, wc) (in_bits i)) as [[n' w'] wc'] eqn:E. cbn [fst snd]. f_equal. apply IH.
Qed.

Theorem lower_correct_mstep p : in_grammar p = true ->
  forall ins, traceB (mstep (lower p)) minit ins = traceB (ref_step p) rinit ins.
Proof. intros Hg ins. unfold minit. rewrite mstep_mstepZ. exact (lower_correct p Hg ins). Qed.

(** ** non-vacuity: a program of the grammar with nested loops, awaits, break and continue *)
Definition ex_prog : stmt :=
  Seq (Eff 1)
   (Seq (While WTrue
          (Seq (Await (ACond (CIn 0)))
           (Seq (While (WCond (CIn 1))
                  (Seq (Eff 2) (Seq (Await (ACond (CIn 0))) (If (CVar 1) Break Skip))))
            (Seq (Call (Seq (Await (ACond (CIn 1))) (If (CIn 0) Return (Eff 5))))
             (If (CIn 1) Break (Seq (Eff 4) Continue))))))
    (Seq (Eff 3) (Await (ACond (CIn 1))))).

Lemma ex_prog_ok : in_grammar ex_prog = true /\ Nat.leb 3 (length (lower ex_prog)) = true.
Proof. split; vm_compute; reflexivity. Qed.

(** ** wait_for *)
(** every constant duration n >= 1 in non-first position is in the grammar *)
Lemma wait_prog_in_grammar n : (1 <= n)%Z -> in_grammar (Seq (Eff 1) (Seq (Wait n) (Eff 2))) = true.
Proof.
  intros H. assert (Hn : (1 <=? n)%Z = true) by (apply Z.leb_le; exact H).
  unfold in_grammar. cbn [wf Lower.fo]. rewrite Hn, andb_false_r. reflexivity.
Qed.

Corollary wait_exact n : (1 <= n)%Z ->
  forall ins, traceB (mstepZ (lower (Seq (Eff 1) (Seq (Wait n) (Eff 2))))) minitZ ins
            = traceB (ref_step (Seq (Eff 1) (Seq (Wait n) (Eff 2)))) rinit ins.
Proof. intros H. apply lower_correct, wait_prog_in_grammar, H. Qed.

(** wait_for(1) as the very first action of the process (excluded by [wf]): the code - and the model -
    resume in the same clock ([await true] costs nothing in first position), [Coro.exec] one clock later *)
Definition wait1_first : stmt := Seq (Wait 1) (Eff 1).
Lemma lower_wait1_first_refuted :
  in_grammar wait1_first = false /\
  exists ins, traceB (mstepZ (lower wait1_first)) minitZ ins <> traceB (ref_step wait1_first) rinit ins.
Proof.
  split; [reflexivity|]. exists [[VL false; VL false]]. vm_compute. intros H. discriminate H.
Qed.

Lemma wait_rt_example :
  in_grammar_dur true (Seq (Eff 1) (Seq (WaitIn false) (Seq (Eff 2) (Seq (WaitIn true) (Eff 3))))) = true /\
  okd true true (in_bits [VL false; VL true; VV KUns 3 5]).
Proof. split; [reflexivity|split; intros _; discriminate]. Qed.

(** ** the input assumption from a finite case alphabet (used by generated case files) *)
Definition okdb (da ds : bool) (inp : cinp) : bool :=
  (negb da || (0 <=? i_dur inp)%Z) && (negb ds || (1 <=? i_dur inp)%Z).

Lemma okdb_ok da ds inp : okdb da ds inp = true -> okd da ds inp.
Proof.
  unfold okdb, okd. intros H. apply andb_true_iff in H. destruct H as [H0 H1]. split; intros ->; cbn in *.
  - apply Z.leb_le. exact H0.
  - apply Z.leb_le. exact H1.
Qed.

Lemma admissible_alphabet {SB I O : Type} (step : SB -> I -> SB * O) alphabet assume :
  forall ins s, admissible step alphabet assume s ins -> Forall (fun i => In i alphabet) ins.
Proof.
  induction ins as [|i r IH]; intros s H; [constructor|].
  cbn in H. destruct H as (Hi & _ & Hr). constructor; [exact Hi|exact (IH _ Hr)].
Qed.

Theorem lower_correct_dur_alphabet ds p alphabet : in_grammar_dur ds p = true ->
  forallb (fun i => okdb true ds (in_bits i)) alphabet = true ->
  forall {SB O : Type} (step : SB -> list value -> SB * O) assume s ins, admissible step alphabet assume s ins ->
    traceB (mstepZ (lower p)) minitZ ins = traceB (ref_step p) rinit ins.
Proof.
  intros Hg Ha SB O step assume s ins Had. apply (lower_correct_dur ds p Hg).
  apply admissible_alphabet in Had. rewrite forallb_forall in Ha.
  eapply Forall_impl; [|exact Had]. intros i Hi. apply okdb_ok, Ha, Hi.
Qed.
